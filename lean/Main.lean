import NngModel.Driver.Msg
open Nng.Driver

def components : List (String × Component) := [
  ("msg-model", Msg.model),
  ("msg-spec", Msg.spec)
]

def main (args : List String) : IO UInt32 := do
  match args with
  | [name] =>
    match components.lookup name with
    | some c => run c; return 0
    | none => IO.eprintln s!"unknown component {name}"; return 2
  | _ => IO.eprintln "usage: driver <component>"; return 2
