import NngModel.Base.Bytes
import NngModel.Generated.Consts
import NngModel.Spec.Msg
import NngModel.Model.Msg
