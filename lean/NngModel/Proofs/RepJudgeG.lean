/-
  Judge simulation for REP, part G: context open / close (rep0_ctx_close), options.
-/
import NngModel.Proofs.RepJudgeB
namespace Nng.RepProofs
open Nng Nng.Proto Nng.Rep Nng.RepSpec

/-- `J` differs from `j` at most in `waiting`, `sends`, `cur`, `acc`, `deliveredBodies` -/
structure JFrame (j J : RepJ) : Prop where
  err : J.err = j.err
  ttl : J.ttl = j.ttl
  closed : J.closed = j.closed
  live : J.live = j.live
  busy : J.busy = j.busy
  armed : J.armed = j.armed
  held : J.held = j.held
  slots : J.slots = j.slots
  wired : J.wired = j.wired

theorem JFrame.refl (j : RepJ) : JFrame j j := ⟨rfl, rfl, rfl, rfl, rfl, rfl, rfl, rfl, rfl⟩

theorem JFrame.trans {j J K : RepJ} (h1 : JFrame j J) (h2 : JFrame J K) : JFrame j K :=
  ⟨h2.err.trans h1.err, h2.ttl.trans h1.ttl, h2.closed.trans h1.closed, h2.live.trans h1.live, h2.busy.trans h1.busy,
   h2.armed.trans h1.armed, h2.held.trans h1.held, h2.slots.trans h1.slots, h2.wired.trans h1.wired⟩

theorem ctxCloseSend_frame (s : State) (k : Nat) :
    (ctxCloseSend s k).1.npipes = s.npipes ∧
    (∀ p, ((ctxCloseSend s k).1.pipe p).closed = (s.pipe p).closed ∧ ((ctxCloseSend s k).1.pipe p).busy = (s.pipe p).busy ∧
          ((ctxCloseSend s k).1.pipe p).armed = (s.pipe p).armed) ∧
    (ctxCloseSend s k).1.recvpipes = s.recvpipes ∧ (ctxCloseSend s k).1.slot = s.slot ∧
    (ctxCloseSend s k).1.wire = s.wire ∧ (ctxCloseSend s k).1.ttl = s.ttl ∧
    (∀ k', ((ctxCloseSend s k).1.ctx k').btrace = (s.ctx k').btrace ∧
           ((ctxCloseSend s k).1.ctx k').pipeId = (s.ctx k').pipeId ∧
           ((ctxCloseSend s k).1.ctx k').raio = (s.ctx k').raio) ∧
    ((ctxCloseSend s k).1.ctx k).saio = none ∧ (ctxCloseSend s k).1.recvq = s.recvq ∧ (ctxCloseSend s k).1.nctx = s.nctx := by
  unfold ctxCloseSend
  split
  · rename_i a ha
    split
    · rename_i p hp
      refine ⟨rfl, ?_, rfl, rfl, rfl, rfl, ?_, ?_, rfl, rfl⟩
      · intro q
        show ((upd s.pipe p _) q).closed = _ ∧ ((upd s.pipe p _) q).busy = _ ∧ ((upd s.pipe p _) q).armed = _
        rw [upd_apply]; split
        · rename_i h; subst h; exact ⟨rfl, rfl, rfl⟩
        · exact ⟨rfl, rfl, rfl⟩
      · intro k'
        show ((upd s.ctx k _) k').btrace = _ ∧ ((upd s.ctx k _) k').pipeId = _ ∧ ((upd s.ctx k _) k').raio = _
        rw [upd_apply]; split
        · rename_i h; subst h; exact ⟨rfl, rfl, rfl⟩
        · exact ⟨rfl, rfl, rfl⟩
      · show ((upd s.ctx k _) k).saio = none
        rw [upd_same]
    · refine ⟨rfl, fun _ => ⟨rfl, rfl, rfl⟩, rfl, rfl, rfl, rfl, ?_, ?_, rfl, rfl⟩
      · intro k'
        show ((upd s.ctx k _) k').btrace = _ ∧ ((upd s.ctx k _) k').pipeId = _ ∧ ((upd s.ctx k _) k').raio = _
        rw [upd_apply]; split
        · rename_i h; subst h; exact ⟨rfl, rfl, rfl⟩
        · exact ⟨rfl, rfl, rfl⟩
      · show ((upd s.ctx k _) k).saio = none
        rw [upd_same]
  · rename_i h
    exact ⟨rfl, fun _ => ⟨rfl, rfl, rfl⟩, rfl, rfl, rfl, rfl, fun _ => ⟨rfl, rfl, rfl⟩, h, rfl, rfl⟩

theorem ctxCloseRecv_frame (s : State) (k : Nat) :
    (ctxCloseRecv s k).1.npipes = s.npipes ∧ (ctxCloseRecv s k).1.pipe = s.pipe ∧
    (ctxCloseRecv s k).1.recvpipes = s.recvpipes ∧ (ctxCloseRecv s k).1.slot = s.slot ∧
    (ctxCloseRecv s k).1.wire = s.wire ∧ (ctxCloseRecv s k).1.ttl = s.ttl ∧
    (∀ k', ((ctxCloseRecv s k).1.ctx k').btrace = (s.ctx k').btrace ∧
           ((ctxCloseRecv s k).1.ctx k').pipeId = (s.ctx k').pipeId ∧
           ((ctxCloseRecv s k).1.ctx k').saio = (s.ctx k').saio) ∧
    ((ctxCloseRecv s k).1.ctx k).raio = none := by
  unfold ctxCloseRecv
  split
  · refine ⟨rfl, rfl, rfl, rfl, rfl, rfl, ?_, ?_⟩
    · intro k'
      show ((upd s.ctx k _) k').btrace = _ ∧ ((upd s.ctx k _) k').pipeId = _ ∧ ((upd s.ctx k _) k').saio = _
      rw [upd_apply]; split
      · rename_i h; subst h; exact ⟨rfl, rfl, rfl⟩
      · exact ⟨rfl, rfl, rfl⟩
    · show ((upd s.ctx k _) k).raio = none
      rw [upd_same]
  · rename_i h
    exact ⟨rfl, rfl, rfl, rfl, rfl, rfl, fun _ => ⟨rfl, rfl, rfl⟩, h⟩

/-- what rep0_ctx_close leaves untouched in the model -/
theorem ctxCloseParked_frame (s : State) (k : Nat) :
    (ctxCloseParked s k).1.npipes = s.npipes ∧
    (∀ p, ((ctxCloseParked s k).1.pipe p).closed = (s.pipe p).closed ∧ ((ctxCloseParked s k).1.pipe p).busy = (s.pipe p).busy ∧
          ((ctxCloseParked s k).1.pipe p).armed = (s.pipe p).armed) ∧
    (ctxCloseParked s k).1.recvpipes = s.recvpipes ∧ (ctxCloseParked s k).1.slot = s.slot ∧
    (ctxCloseParked s k).1.wire = s.wire ∧ (ctxCloseParked s k).1.ttl = s.ttl ∧
    (∀ k', ((ctxCloseParked s k).1.ctx k').btrace = (s.ctx k').btrace ∧
           ((ctxCloseParked s k).1.ctx k').pipeId = (s.ctx k').pipeId) ∧
    ((ctxCloseParked s k).1.ctx k).raio = none ∧ ((ctxCloseParked s k).1.ctx k).saio = none := by
  obtain ⟨a1, a2, a3, a4, a5, a6, a7, a8, _, _⟩ := ctxCloseSend_frame s k
  obtain ⟨b1, b2, b3, b4, b5, b6, b7, b8⟩ := ctxCloseRecv_frame (ctxCloseSend s k).1 k
  have hc : ∀ k', ((ctxCloseParked s k).1.ctx k').btrace = ((ctxCloseRecv (ctxCloseSend s k).1 k).1.ctx k').btrace ∧
      ((ctxCloseParked s k).1.ctx k').pipeId = ((ctxCloseRecv (ctxCloseSend s k).1 k).1.ctx k').pipeId ∧
      ((ctxCloseParked s k).1.ctx k').raio = ((ctxCloseRecv (ctxCloseSend s k).1 k).1.ctx k').raio ∧
      ((ctxCloseParked s k).1.ctx k').saio = ((ctxCloseRecv (ctxCloseSend s k).1 k).1.ctx k').saio := by
    intro k'
    show Ctx.btrace ((upd _ k _) k') = _ ∧ Ctx.pipeId ((upd _ k _) k') = _ ∧ Ctx.raio ((upd _ k _) k') = _ ∧ Ctx.saio ((upd _ k _) k') = _
    rw [upd_apply]; split
    · rename_i h; subst h; exact ⟨rfl, rfl, rfl, rfl⟩
    · exact ⟨rfl, rfl, rfl, rfl⟩
  have hp : (ctxCloseParked s k).1.pipe = (ctxCloseRecv (ctxCloseSend s k).1 k).1.pipe := rfl
  refine ⟨b1.trans a1, ?_, b3.trans a3, b4.trans a4, b5.trans a5, b6.trans a6, ?_, ?_, ?_⟩
  · intro p; rw [hp, b2]; exact a2 p
  · intro k'
    exact ⟨(hc k').1.trans ((b7 k').1.trans (a7 k').1), (hc k').2.1.trans ((b7 k').2.1.trans (a7 k').2.1)⟩
  · exact (hc k).2.2.1.trans b8
  · exact (hc k).2.2.2.trans ((b7 k).2.2.trans a8)

theorem closeSend_aux {s : State} {j : RepJ} {used : List Bytes} (hops : OpsRel s j) (h5 : Inv5 s used) (k a p0 : Nat)
    (hk : (s.ctx k).saio = some a) (hsp : (s.ctx k).spipe = some p0) (s' : State)
    (c1 : s'.ctx = upd s.ctx k { s.ctx k with saio := none, spipe := none })
    (c2 : s'.pipe = upd s.pipe p0 { s.pipe p0 with sendq := (s.pipe p0).sendq.filter (·.ctx != k) })
    (c3 : s'.slot = s.slot) :
    OpsRel s' (repDone j a Err.eclosed none true) ∧
    JFrame j (repDone j a Err.eclosed none true) ∧
    (repDone j a Err.eclosed none true).acc = j.acc ∧
    (∀ c', resolve s c' ≠ some k → curOf (repDone j a Err.eclosed none true) c' = curOf j c') := by
  obtain ⟨p1, hsp1, en, hen, henk, hena⟩ := h5.sa k a hk
  have hpp : p1 = p0 := by rw [hsp] at hsp1; injection hsp1 with h; exact h.symm
  subst hpp
  have e := hops
  have hw : j.waiting.find? (·.aio == a) = none := by
    rw [List.find?_eq_none]
    intro r hr hra
    obtain ⟨_, k', pk, hk', ha', _⟩ := e.w1 r hr
    have hra' : r.aio = a := by simpa using hra
    exact h5.rs k' k pk hk' (by rw [← ha', hra']; exact hk)
  obtain ⟨x, hx, hxa⟩ := e.s2 p1 en hen
  obtain ⟨sd, hf, hsd, hq⟩ := find_some_mem (l := j.sends) (q := (·.aio == a)) ⟨x, hx, by simp [hxa, hena]⟩
  have hsda : sd.aio = a := by simpa using hq
  obtain ⟨hov, hop, p', e', u, he', hae', hres', hbody, hsnap, hup, hhdr⟩ := e.s1 sd hsd
  obtain ⟨hpp, hee⟩ := entry_unique h5 hen he' (by rw [hena, ← hae', hsda])
  subst hpp; subst hee
  rw [henk] at hres'
  rw [repDone_send_fail hw hf (by simp [Err.eclosed]) (by simp [Err.eclosed, Err.estate]) hsnap]
  have hka : ∀ p'' e'', e'' ∈ (s.pipe p'').sendq → (e''.ctx = k ↔ e''.aio = a) := by
    intro p'' e'' he''
    have h1 := (h5.sq p'' e'' he'').2.1
    constructor
    · intro h; rw [h, hk] at h1; injection h1 with h1; exact h1.symm
    · intro h; rw [h] at h1; exact h5.sinj _ _ a h1 hk
  have hsq : ∀ p'' e'', e'' ∈ ((upd s.pipe p1 { s.pipe p1 with sendq := (s.pipe p1).sendq.filter (·.ctx != k) }) p'').sendq ↔
      (e'' ∈ (s.pipe p'').sendq ∧ e''.ctx ≠ k) := by
    intro p'' e''
    by_cases hp : p'' = p1
    · subst hp; simp only [upd_same, List.mem_filter]; simp
    · rw [upd_other _ _ hp]
      constructor
      · intro h; refine ⟨h, ?_⟩
        intro hc
        have := (h5.sq p'' e'' h).2.2
        rw [hc, hsp] at this; injection this with this; exact hp this.symm
      · intro h; exact h.1
  have hraio : ∀ k', ((upd s.ctx k { s.ctx k with saio := none, spipe := none }) k').raio = (s.ctx k').raio := by
    intro k'; rw [upd_apply]; split
    · rename_i h; subst h; rfl
    · rfl
  have hO : OpsRel s' { j with sends := j.sends.filter (·.aio != a) } := by
    refine ⟨?_, ?_, ?_, ?_⟩
    · intro r hr
      obtain ⟨x1, k', pk, x2, x3, x4⟩ := e.w1 r hr
      exact ⟨x1, k', pk, by rw [c1, hraio]; exact x2, x3, by rw [resolve_congr c3]; exact x4⟩
    · intro k' pk hk'
      rw [c1, hraio] at hk'
      exact e.w2 k' pk hk'
    · intro x hx
      have hm := List.mem_filter.1 hx
      have hne : x.aio ≠ a := by simpa using hm.2
      obtain ⟨x1, x2, p'', e'', u'', y1, y2, y3, y4⟩ := e.s1 x hm.1
      refine ⟨x1, x2, p'', e'', u'', ?_, y2, by rw [resolve_congr c3]; exact y3, y4⟩
      rw [c2, hsq]
      refine ⟨y1, ?_⟩
      intro hc
      exact hne (y2.trans ((hka p'' e'' y1).1 hc))
    · intro p'' e'' he''
      rw [c2, hsq] at he''
      obtain ⟨x, hx, hxa⟩ := e.s2 p'' e'' he''.1
      refine ⟨x, List.mem_filter.2 ⟨hx, ?_⟩, hxa⟩
      have : x.aio ≠ a := by
        rw [hxa]; intro h; exact he''.2 ((hka p'' e'' he''.1).2 h)
      simpa using this
  by_cases hc : ((curOf { j with sends := j.sends.filter (·.aio != a) } sd.ctx).isNone && sd.ctxOpen) = true
  · rw [if_pos hc]
    refine ⟨OpsRel.congr (s := s') hO (fun _ => rfl) (fun _ => rfl) rfl rfl rfl, ⟨rfl, rfl, rfl, rfl, rfl, rfl, rfl, rfl, rfl⟩, rfl, ?_⟩
    intro c' hc'
    rw [curOf_setCur, if_neg (by intro h; subst h; exact hc' hres')]
    rfl
  · rw [if_neg hc]
    exact ⟨hO, ⟨rfl, rfl, rfl, rfl, rfl, rfl, rfl, rfl, rfl⟩, rfl, fun _ _ => rfl⟩

theorem ctxCloseSend_ops {s : State} {j : RepJ} {used : List Bytes} (hops : OpsRel s j) (h5 : Inv5 s used) (k : Nat) :
    OpsRel (ctxCloseSend s k).1 ((ctxCloseSend s k).2.foldl doneStep j) ∧
    JFrame j ((ctxCloseSend s k).2.foldl doneStep j) ∧
    ((ctxCloseSend s k).2.foldl doneStep j).acc = j.acc ∧
    (∀ c', resolve s c' ≠ some k → curOf ((ctxCloseSend s k).2.foldl doneStep j) c' = curOf j c') ∧
    (∀ o ∈ (ctxCloseSend s k).2, isDone o = true ∧ isBlocked o = false ∧ notExecuted [o] = false) := by
  generalize hres : ctxCloseSend s k = res
  unfold ctxCloseSend at hres
  split at hres
  · rename_i a hk
    obtain ⟨p0, hsp, _⟩ := h5.sa k a hk
    simp only [hsp] at hres
    subst hres
    obtain ⟨g1, g2, g3, g4⟩ := closeSend_aux hops h5 k a p0 hk hsp
      (setCtx (setPipe s p0 { s.pipe p0 with sendq := (s.pipe p0).sendq.filter (·.ctx != k) }) k { s.ctx k with saio := none, spipe := none }) rfl rfl rfl
    refine ⟨g1, g2, g3, g4, ?_⟩
    intro o ho
    simp only [List.mem_singleton] at ho
    subst ho
    exact ⟨rfl, rfl, rfl⟩
  · subst hres
    exact ⟨hops, JFrame.refl j, rfl, fun _ _ => rfl, fun o ho => by cases ho⟩


theorem ctxCloseRecv_ops {s : State} {j : RepJ} (hops : OpsRel s j)
    (hrinj : ∀ k k' pk pk', (s.ctx k).raio = some pk → (s.ctx k').raio = some pk' → pk.aio = pk'.aio → k = k') (k : Nat) :
    OpsRel (ctxCloseRecv s k).1 ((ctxCloseRecv s k).2.foldl doneStep j) ∧
    JFrame j ((ctxCloseRecv s k).2.foldl doneStep j) ∧
    ((ctxCloseRecv s k).2.foldl doneStep j).acc = j.acc ∧
    (∀ c', curOf ((ctxCloseRecv s k).2.foldl doneStep j) c' = curOf j c') ∧
    (∀ o ∈ (ctxCloseRecv s k).2, isDone o = true ∧ isBlocked o = false ∧ notExecuted [o] = false) := by
  generalize hres : ctxCloseRecv s k = res
  unfold ctxCloseRecv at hres
  split at hres
  · rename_i pk hk
    subst hres
    have e := hops
    simp only [List.foldl_cons, List.foldl_nil, doneStep]
    obtain ⟨r, hr, hra⟩ := e.w2 k pk hk
    obtain ⟨r', hf, hr', hq⟩ := find_some_mem (l := j.waiting) (q := (·.aio == pk.aio)) ⟨r, hr, by simp [hra]⟩
    rw [repDone_recv_fail hf (e.w1 r' hr').1 (by simp [Err.eclosed]) (by simp [Err.eclosed, Err.estate])]
    have hraio : ∀ k', k' ≠ k → ((upd s.ctx k { s.ctx k with raio := none }) k').raio = (s.ctx k').raio := by
      intro k' hk'; rw [upd_other _ _ hk']
    refine ⟨⟨?_, ?_, e.s1, e.s2⟩, ⟨rfl, rfl, rfl, rfl, rfl, rfl, rfl, rfl, rfl⟩, rfl, fun _ => rfl, ?_⟩
    · intro r2 hr2
      have hm := List.mem_filter.1 hr2
      have hne : r2.aio ≠ pk.aio := by simpa using hm.2
      obtain ⟨x, k2, pk2, hk2, y, z⟩ := e.w1 r2 hm.1
      have hkk : k2 ≠ k := by
        intro h; subst h; rw [hk] at hk2; injection hk2 with hk2; subst hk2
        exact hne y
      refine ⟨x, k2, pk2, ?_, y, z⟩
      show ((upd s.ctx k _) k2).raio = _
      rw [hraio k2 hkk]; exact hk2
    · intro k2 pk2 hk2
      have hk3 : ((upd s.ctx k { s.ctx k with raio := none }) k2).raio = some pk2 := hk2
      by_cases hkk : k2 = k
      · subst hkk; simp only [upd_same] at hk3; cases hk3
      · rw [hraio k2 hkk] at hk3
        obtain ⟨r2, hr2, ha2⟩ := e.w2 k2 pk2 hk3
        refine ⟨r2, List.mem_filter.2 ⟨hr2, ?_⟩, ha2⟩
        have : r2.aio ≠ pk.aio := by
          intro h
          exact hkk (hrinj k2 k pk2 pk hk3 hk (by rw [← ha2, h]))
        simpa using this
    · intro o ho
      simp only [List.mem_singleton] at ho
      subst ho
      exact ⟨rfl, rfl, rfl⟩
  · subst hres
    exact ⟨hops, JFrame.refl j, rfl, fun _ => rfl, fun o ho => by cases ho⟩

/-- rep0_ctx_close on context `k`: the judge processes the (at most two) NNG_ECLOSED completions; the books
    of parked operations stay in step with the model; only `waiting`, `sends` and the `cur` entry of the key(s)
    of context `k` change -/
theorem ctxCloseParked_ops {s : State} {j : RepJ} {used : List Bytes} (hops : OpsRel s j) (h5 : Inv5 s used) (k : Nat) :
    OpsRel (ctxCloseParked s k).1 ((ctxCloseParked s k).2.foldl doneStep j) ∧
    JFrame j ((ctxCloseParked s k).2.foldl doneStep j) ∧
    ((ctxCloseParked s k).2.foldl doneStep j).acc = j.acc ∧
    (∀ c', resolve s c' ≠ some k → curOf ((ctxCloseParked s k).2.foldl doneStep j) c' = curOf j c') ∧
    (∀ o ∈ (ctxCloseParked s k).2, isDone o = true ∧ isBlocked o = false ∧ notExecuted [o] = false) := by
  obtain ⟨a1, a2, a3, a4, a5, a6, a7, a8, _, _⟩ := ctxCloseSend_frame s k
  obtain ⟨g1, g2, g3, g4, g5⟩ := ctxCloseSend_ops hops h5 k
  have hrinj : ∀ k1 k2 pk pk', ((ctxCloseSend s k).1.ctx k1).raio = some pk → ((ctxCloseSend s k).1.ctx k2).raio = some pk' →
      pk.aio = pk'.aio → k1 = k2 := by
    intro k1 k2 pk pk' e1 e2 e3
    rw [(a7 k1).2.2] at e1; rw [(a7 k2).2.2] at e2
    exact h5.rinj k1 k2 pk pk' e1 e2 e3
  obtain ⟨i1, i2, i3, i4, i5⟩ := ctxCloseRecv_ops g1 hrinj k
  have hout : (ctxCloseParked s k).2 = (ctxCloseSend s k).2 ++ (ctxCloseRecv (ctxCloseSend s k).1 k).2 := rfl
  rw [hout, List.foldl_append]
  refine ⟨?_, g2.trans i2, i3.trans g3, ?_, ?_⟩
  · refine OpsRel.congr i1 ?_ (fun _ => rfl) rfl rfl rfl
    intro k'
    show Ctx.raio ((upd _ k _) k') = _
    rw [upd_apply]; split
    · rename_i h; subst h; rfl
    · rfl
  · intro c' hc'
    rw [i4, g4 c' hc']
  · intro o ho
    rcases List.mem_append.1 ho with ho | ho
    · exact g5 o ho
    · exact i5 o ho

/-- `ctx_open c` on a free harness slot -/
theorem ctxOpen_sim {s : State} {j : RepJ} {used : List Bytes} (hR : R s j) (h4 : Inv4 s) (h5 : Inv5 s used) (c : Nat)
    (hfree : s.slot c = none) (h3' : Inv3 (setCtx (allocCtx s c) s.nctx { isOpen := true })) :
    R (setCtx (allocCtx s c) s.nctx { isOpen := true }) (repStep j (.ctxOpen c) [.rv 0]) := by
  have _ := h5
  have hu := R0_unfresh hR.r0
  have hacc : (unfresh j).acc = [] := hR.acc
  have herr := hR.r0.err
  generalize hj0 : unfresh j = j0 at hu hacc
  have hpre : repPre j0 (.ctxOpen c) [.rv 0] =
      (setCur { j0 with slots := j0.slots.filter (· != c) ++ [c] } (some c) none, none) := by
    simp [repPre]
  rw [repStep_eq herr rfl, hj0, hpre]
  have hp : ∀ J : RepJ, procOuts [.rv 0] J = J := fun _ => rfl
  rw [hp]
  have hresc : ∀ c', c' ≠ some c → resolve (setCtx (allocCtx s c) s.nctx { isOpen := true }) c' = resolve s c' := by
    intro c' hc'
    cases c' with
    | none => rfl
    | some c2 =>
      show (upd s.slot c (some s.nctx)) c2 = s.slot c2
      rw [upd_other _ _ (by intro h; exact hc' (by rw [h]))]
  have hnc : ∀ c' k', resolve s c' = some k' → c' ≠ some c := by
    intro c' k' h hc; subst hc
    have : s.slot c = some k' := h
    rw [hfree] at this; cases this
  have hlt : ∀ c' k', resolve s c' = some k' → k' ≠ s.nctx := by
    intro c' k' h
    cases c' with
    | none =>
      have : k' = 0 := by unfold resolve at h; injection h with h; exact h.symm
      have := h4.N; omega
    | some c2 => have := h4.S c2 k' h; omega
  have hctx : ∀ k', k' ≠ s.nctx → (setCtx (allocCtx s c) s.nctx { isOpen := true }).ctx k' = s.ctx k' := by
    intro k' hk'
    show (upd s.ctx s.nctx _) k' = _
    rw [upd_other _ _ hk']
  have hctxn : (setCtx (allocCtx s c) s.nctx { isOpen := true }).ctx s.nctx = { isOpen := true } := by
    show (upd s.ctx s.nctx _) s.nctx = _
    rw [upd_same]
  obtain ⟨a, b, c1, d, e, f, g⟩ := hu
  refine post_R ⟨a, b, c1, PipesRel.congr (s := s) d (fun _ => rfl) (fun _ => rfl) (fun _ => rfl) rfl rfl rfl rfl rfl,
    ⟨?_, ?_, ?_, e.s2⟩, ⟨?_, ?_⟩, g⟩ h3' ?_ (Or.inl rfl) rfl (by simp [isPollOut])
  · intro r hr
    obtain ⟨x, k', pk, y1, y2, y3⟩ := e.w1 r hr
    refine ⟨x, k', pk, ?_, y2, ?_⟩
    · rw [hctx k' (hlt _ _ y3)]; exact y1
    · rw [hresc _ (hnc _ _ y3)]; exact y3
  · intro k' pk hk'
    by_cases hkk : k' = s.nctx
    · subst hkk; rw [hctxn] at hk'; cases hk'
    · rw [hctx k' hkk] at hk'; exact e.w2 k' pk hk'
  · intro x hx
    obtain ⟨x1, x2, p, en, u, y1, y2, y3, y4⟩ := e.s1 x hx
    exact ⟨x1, x2, p, en, u, y1, y2, by rw [hresc _ (hnc _ _ y3)]; exact y3, y4⟩
  · intro c' k' hk'
    rw [curOf_setCur]
    by_cases hc : c' = some c
    · subst hc
      have : (upd s.slot c (some s.nctx)) c = some k' := hk'
      rw [upd_same] at this; injection this with this; subst this
      rw [if_pos rfl, hctxn]; rfl
    · rw [hresc c' hc] at hk'
      rw [if_neg hc, hctx k' (hlt _ _ hk')]
      exact f.cur c' k' hk'
  · intro c'
    show c' ∈ j0.slots.filter (· != c) ++ [c] ↔ ((upd s.slot c (some s.nctx)) c').isSome = true
    rw [List.mem_append, List.mem_filter, upd_apply, List.mem_singleton]
    by_cases hc : c' = c
    · subst hc; simp
    · rw [if_neg hc, f.slots c']; simp [hc]
  · show ∀ x ∈ j0.acc, _
    rw [hacc]; intro x hx; cases hx

/-- `ctx_close c` on an open harness slot -/
theorem ctxClose_sim {s : State} {j : RepJ} {used : List Bytes} (hR : R s j) (h4 : Inv4 s) (h5 : Inv5 s used) (c k : Nat)
    (hk : s.slot c = some k) (h3' : Inv3 (clearSlot (ctxCloseParked s k).1 c)) :
    R (clearSlot (ctxCloseParked s k).1 c) (repStep j (.ctxClose c) ([.rv 0] ++ (ctxCloseParked s k).2)) := by
  have _ := h4
  have hu := R0_unfresh hR.r0
  have hacc : (unfresh j).acc = [] := hR.acc
  have herr := hR.r0.err
  generalize hj0 : unfresh j = j0 at hu hacc
  have hO1 : OpsRel s (setCur { j0 with slots := j0.slots.filter (· != c) } (some c) none) :=
    OpsRel.congr hu.ops (fun _ => rfl) (fun _ => rfl) rfl rfl rfl
  obtain ⟨i1, i2, i3, i4, i5⟩ := ctxCloseParked_ops hO1 h5 k
  obtain ⟨f1, f2, f3, f4, f5, f6, f7, f8, f9⟩ := ctxCloseParked_frame s k
  have h5' := ctxCloseParked_inv5 s k used h5
  generalize (ctxCloseParked s k).2 = outs at i1 i2 i3 i4 i5 ⊢
  generalize (ctxCloseParked s k).1 = s1 at i1 f1 f2 f3 f4 f5 f6 f7 f8 f9 h5' h3' ⊢
  have hne : notExecuted ([.rv 0] ++ outs) = false := by
    unfold notExecuted
    rw [List.any_eq_false]
    intro o ho
    rcases List.mem_append.1 ho with ho | ho
    · simp only [List.mem_singleton] at ho; subst ho; simp
    · have := (i5 o ho).2.2
      unfold notExecuted at this
      simpa using this
  have hnp : ∀ o ∈ ([.rv 0] ++ outs : List Out), isPipeOut o = false := by
    intro o ho
    rcases List.mem_append.1 ho with ho | ho
    · simp only [List.mem_singleton] at ho; subst ho; rfl
    · have := (i5 o ho).1
      cases o <;> first | rfl | cases this
  have hpoll : ∀ o ∈ ([.rv 0] ++ outs : List Out), isPollOut o = false := by
    intro o ho
    rcases List.mem_append.1 ho with ho | ho
    · simp only [List.mem_singleton] at ho; subst ho; rfl
    · have := (i5 o ho).1
      cases o <;> first | rfl | cases this
  have hbl : ([.rv 0] ++ outs : List Out).any isBlocked = false := by
    rw [List.any_eq_false]
    intro o ho
    rcases List.mem_append.1 ho with ho | ho
    · simp only [List.mem_singleton] at ho; subst ho; simp [isBlocked]
    · simp [(i5 o ho).2.1]
  have hf1 : ([.rv 0] ++ outs : List Out).filter isDone = outs := by
    have : outs.filter isDone = outs := List.filter_eq_self.2 (fun o ho => (i5 o ho).1)
    rw [List.filter_append, this]; rfl
  have hf2 : ([.rv 0] ++ outs : List Out).filter (fun o => !isDone o) = [.rv 0] := by
    have : outs.filter (fun o => !isDone o) = [] := by
      rw [List.filter_eq_nil_iff]
      intro o ho; simp [(i5 o ho).1]
    rw [List.filter_append, this]; rfl
  have hpre : repPre j0 (.ctxClose c) ([.rv 0] ++ outs) =
      (setCur { j0 with slots := j0.slots.filter (· != c) } (some c) none, none) := by
    simp [repPre]
  rw [repStep_eq herr hne, hj0, hpre, procOuts_nopipe hnp, hf1, hf2]
  simp only [List.foldl_cons, List.foldl_nil, repOut_rv]
  generalize hJ : List.foldl doneStep (setCur { j0 with slots := j0.slots.filter (· != c) } (some c) none) outs = J at i1 i2 i3 i4
  have hresc : ∀ c', c' ≠ some c → resolve (clearSlot s1 c) c' = resolve s c' := by
    intro c' hc'
    cases c' with
    | none => rfl
    | some c2 =>
      show (upd s1.slot c none) c2 = s.slot c2
      rw [upd_other _ _ (by intro h; exact hc' (by rw [h])), f4]
  have hress : ∀ c', resolve s1 c' = resolve s c' := resolve_congr f4
  obtain ⟨a, b, c1, d, e, f, g⟩ := hu
  refine post_R ⟨by rw [i2.err]; exact a, by rw [i2.ttl]; show j0.ttl = s1.ttl; rw [f6]; exact b, by rw [i2.closed]; exact c1,
    ?_, ⟨?_, i1.w2, ?_, i1.s2⟩, ⟨?_, ?_⟩, by rw [i2.wired]; show j0.wired = _; rw [g]; show _ = s1.wire.map _; rw [f5]⟩ h3' ?_ (Or.inl rfl) hbl hpoll
  · refine PipesRel.congr (s := s) d ?_ ?_ ?_ f3 i2.live i2.busy i2.armed i2.held
    · intro p; show (decide (p < s1.npipes) && !(s1.pipe p).closed) = livePipe s p
      rw [f1, (f2 p).1]; rfl
    · intro p; exact (f2 p).2.1
    · intro p; exact (f2 p).2.2
  · intro r hr
    obtain ⟨x, k', pk, y1, y2, y3⟩ := i1.w1 r hr
    refine ⟨x, k', pk, y1, y2, ?_⟩
    rw [hress] at y3
    rw [hresc _ ?_]; exact y3
    intro hc
    rw [hc] at y3
    have : k' = k := by
      have : s.slot c = some k' := y3
      rw [hk] at this; injection this with this; exact this.symm
    subst this
    rw [f8] at y1; cases y1
  · intro x hx
    obtain ⟨x1, x2, p, en, u, y1, y2, y3, y4⟩ := i1.s1 x hx
    refine ⟨x1, x2, p, en, u, y1, y2, ?_, y4⟩
    rw [hress] at y3
    rw [hresc _ ?_]; exact y3
    intro hc
    rw [hc] at y3
    have : en.ctx = k := by
      have : s.slot c = some en.ctx := y3
      rw [hk] at this; injection this with this; exact this.symm
    have h1 := (h5'.sq p en y1).2.1
    rw [this, f9] at h1; cases h1
  · intro c' k' hk'
    have hc' : c' ≠ some c := by
      intro h; subst h
      have : (upd s1.slot c none) c = some k' := hk'
      rw [upd_same] at this; cases this
    rw [hresc c' hc'] at hk'
    have hkk : resolve s c' ≠ some k := by
      intro h
      exact hc' (resolve_inj h5 h (show resolve s (some c) = some k from hk))
    rw [i4 c' hkk, curOf_setCur, if_neg hc']
    have := f.cur c' k' hk'
    show CurOK (curOf j0 c') (s1.ctx k')
    unfold CurOK at *
    rw [(f7 k').1, (f7 k').2]; exact this
  · intro c'
    rw [i2.slots]
    show c' ∈ j0.slots.filter (· != c) ↔ ((upd s1.slot c none) c').isSome = true
    rw [List.mem_filter, upd_apply, f4]
    by_cases hc : c' = c
    · subst hc; simp
    · rw [if_neg hc, f.slots c']; simp [hc]
  · rw [i3]; show ∀ x ∈ j0.acc, _
    rw [hacc]; intro x hx; cases hx

/-- `setopt - ttl-max int v` accepted -/
theorem setTtl_sim {s : State} {j : RepJ} (hR : R s j) (h3 : Inv3 s) (v : Int) :
    R { s with ttl := v.toNat } (repStep j (.setopt none "ttl-max" "int" v) [.rv 0]) := by
  have hu := R0_unfresh hR.r0
  have hacc : (unfresh j).acc = [] := hR.acc
  have herr := hR.r0.err
  generalize hj0 : unfresh j = j0 at hu hacc
  have hpre : repPre j0 (.setopt none "ttl-max" "int" v) [.rv 0] = ({ j0 with ttl := v.toNat }, none) := by
    simp [repPre]
  rw [repStep_eq herr rfl, hj0, hpre]
  have hp : ∀ J : RepJ, procOuts [.rv 0] J = J := fun _ => rfl
  rw [hp]
  have h3' : Inv3 { s with ttl := v.toNat } := inv3_transfer (s := s) rfl rfl rfl rfl (fun _ => rfl) h3
  obtain ⟨a, b, c1, d, e, f, g⟩ := hu
  refine post_R ⟨a, rfl, c1, PipesRel.congr (s := s) d (fun _ => rfl) (fun _ => rfl) (fun _ => rfl) rfl rfl rfl rfl rfl,
    OpsRel.congr (s := s) e (fun _ => rfl) (fun _ => rfl) rfl rfl rfl,
    CurRel.congr (s := s) f (fun _ => rfl) (fun _ => rfl) rfl rfl rfl, g⟩ h3' ?_ (Or.inl rfl) rfl (by simp [isPollOut])
  show ∀ x ∈ j0.acc, _
  rw [hacc]; intro x hx; cases hx

/-- every other executed `setopt` / `getopt` answer: a single `rv` / `rv2` output that is not `rv 0` for setopt -/
theorem setopt_refused_sim {s : State} {j : RepJ} (hR : R s j) (h3 : Inv3 s) (v : Int) :
    R s (repStep j (.setopt none "ttl-max" "int" v) [.rv Err.einval]) := by
  refine step_plain hR h3 ?_ rfl rfl rfl rfl rfl (fun _ => rfl)
  intro j
  simp [repPre, Err.einval]

theorem getopt_sim {s : State} {j : RepJ} (hR : R s j) (h3 : Inv3 s) (c : Option Nat) (n t : String) (o : Out)
    (ho : ∃ a b, o = .rv2 a b) : R s (repStep j (.getopt c n t) [o]) := by
  obtain ⟨a, b, rfl⟩ := ho
  exact step_plain hR h3 (fun _ => rfl) rfl rfl rfl rfl rfl (fun _ => rfl)

/-- `open` on the not yet opened socket -/
theorem openSock_sim {s : State} {j : RepJ} (hR : R s j) (h3' : Inv3 (setCtx (setW { s with opened := true } false) 0 { isOpen := true }))
    (hun : s.ctx 0 = {}) (pr : String) (raw : Bool) :
    R (setCtx (setW { s with opened := true } false) 0 { isOpen := true }) (repStep j (.openSock pr raw) [.rv 0]) := by
  have hu := R0_unfresh hR.r0
  have hacc : (unfresh j).acc = [] := hR.acc
  have herr := hR.r0.err
  generalize hj0 : unfresh j = j0 at hu hacc
  have hpre : repPre j0 (.openSock pr raw) [.rv 0] = (j0, none) := rfl
  rw [repStep_eq herr rfl, hj0, hpre]
  have hp : ∀ J : RepJ, procOuts [.rv 0] J = J := fun _ => rfl
  rw [hp]
  have hctx : ∀ k', ((setCtx (setW { s with opened := true } false) 0 { isOpen := true }).ctx k').raio = (s.ctx k').raio ∧
      ((setCtx (setW { s with opened := true } false) 0 { isOpen := true }).ctx k').btrace = (s.ctx k').btrace ∧
      ((setCtx (setW { s with opened := true } false) 0 { isOpen := true }).ctx k').pipeId = (s.ctx k').pipeId := by
    intro k'
    show Ctx.raio ((upd s.ctx 0 _) k') = _ ∧ Ctx.btrace ((upd s.ctx 0 _) k') = _ ∧ Ctx.pipeId ((upd s.ctx 0 _) k') = _
    rw [upd_apply]; split
    · rename_i h; subst h; rw [hun]; exact ⟨rfl, rfl, rfl⟩
    · exact ⟨rfl, rfl, rfl⟩
  obtain ⟨a, b, c1, d, e, f, g⟩ := hu
  refine post_R ⟨a, b, c1, PipesRel.congr (s := s) d (fun _ => rfl) (fun _ => rfl) (fun _ => rfl) rfl rfl rfl rfl rfl,
    OpsRel.congr (s := s) e (fun k' => (hctx k').1) (fun _ => rfl) rfl rfl rfl,
    CurRel.congr (s := s) f (fun k' => (hctx k').2.1) (fun k' => (hctx k').2.2) rfl rfl rfl, g⟩ h3' (by rw [hacc]; intro x hx; cases hx) (Or.inl rfl) rfl (by simp [isPollOut])

end Nng.RepProofs
