/-
  SURVEYOR model: receive queues keep their initial depth (128) and never hold more responses than have
  arrived; the arrival counter grows by at most one per step, and only for a message delivered by the transport.
-/
import NngModel.Proofs.SurvJudgeInv
namespace Nng.Survey
open Nng Nng.Proto

/-- receive queues have the initial depth and hold at most as many responses as have arrived -/
def QCore (ctxs : List Ctx) (narrive : Nat) : Prop :=
  ∀ c ∈ ctxs, c.recvCap = Nng.Generated.survRecvBufInit ∧ c.recvQ.length ≤ narrive

def QInv (s : State) : Prop := QCore s.ctxs s.narrive

/-- is the event a message delivered by the transport -/
def isArrival : Ev → Bool
  | .recvDone _ (.ok _) => true
  | _ => false

theorem qinv_setCtx {s : State} {c c' : Ctx} (h : QInv s) (hc : c ∈ s.ctxs) (hcap : c'.recvCap = c.recvCap)
    (hq : c'.recvQ.length ≤ c.recvQ.length) : QInv (setCtx s c') := by
  intro q hq'
  rcases mem_setCtx hq' with rfl | hq'
  · have := h c hc
    exact ⟨by rw [hcap]; exact this.1, Nat.le_trans hq this.2⟩
  · exact h q hq'

theorem qinv_same {s s' : State} (h : QInv s) (h1 : s'.ctxs = s.ctxs) (h2 : s'.narrive = s.narrive) : QInv s' := by
  unfold QInv; rw [h1, h2]; exact h

theorem closePipe_qinv {s : State} (p : Nat) (h : QInv s) : QInv (closePipe s p).1 :=
  qinv_same h (closePipe_fields s p).1 (closePipe_more s p).2.2.2

theorem closePipe_narrive (s : State) (p : Nat) : (closePipe s p).1.narrive = s.narrive := (closePipe_more s p).2.2.2

theorem clearReadableIf_narrive (s : State) (k : Option Nat) : (clearReadableIf s k).narrive = s.narrive := by
  unfold clearReadableIf; split <;> rfl

theorem ctxRecv_q {s : State} {c : Ctx} (a : Nat) (mode : Mode) (h : QInv s) (hc : c ∈ s.ctxs) :
    QInv (ctxRecv s c a mode).1 ∧ (ctxRecv s c a mode).1.narrive = s.narrive := by
  unfold ctxRecv
  split
  · exact ⟨h, rfl⟩
  · simp only
    split
    · split
      · exact ⟨h, rfl⟩
      · exact ⟨qinv_setCtx h hc rfl (Nat.le_refl _), rfl⟩
    · rename_i gm rest hq
      have hb : QInv (setCtx s { c with recvQ := rest }) := qinv_setCtx h hc rfl (by rw [hq]; simp)
      simp only
      split
      · exact ⟨qinv_same (clearReadableIf_inv_q hb) rfl rfl, by simp [clearReadableIf_narrive, setCtx]⟩
      · exact ⟨hb, rfl⟩
where
  clearReadableIf_inv_q {s : State} {k : Option Nat} (h : QInv s) : QInv (clearReadableIf s k) := by
    unfold clearReadableIf; split <;> exact h

theorem ctxSend_q {s : State} {c : Ctx} (a : Nat) (m : WMsg) (h : QInv s) (hc : c ∈ s.ctxs) :
    QInv (ctxSend s c a m).1 ∧ (ctxSend s c a m).1.narrive = s.narrive := by
  have h1 : QInv (clearReadableIf (setCtx s (abortCtx c Err.ecanceled).1) c.key) := by
    have : QInv (setCtx s (abortCtx c Err.ecanceled).1) := qinv_setCtx h hc rfl (by simp [abortCtx])
    unfold clearReadableIf; split <;> exact this
  have hn : (clearReadableIf (setCtx s (abortCtx c Err.ecanceled).1) c.key).narrive = s.narrive := by
    rw [clearReadableIf_narrive]; rfl
  have hmem : (abortCtx c Err.ecanceled).1 ∈ (clearReadableIf (setCtx s (abortCtx c Err.ecanceled).1) c.key).ctxs := by
    rw [clearReadableIf_ctxs]; exact mem_setCtx_self hc rfl
  unfold ctxSend
  simp only
  split
  · exact ⟨h1, hn⟩
  · refine ⟨?_, hn⟩
    exact qinv_setCtx (s := { (clearReadableIf (setCtx s (abortCtx c Err.ecanceled).1) c.key) with
      dynVal := _, issued := _, pipes := _ }) h1 hmem rfl (Nat.le_refl _)

theorem pipeRecv_q {s : State} (p : Nat) (b : Bytes) (h : QInv s) :
    QInv (pipeRecv s p b).1 ∧ s.narrive ≤ (pipeRecv s p b).1.narrive ∧ (pipeRecv s p b).1.narrive ≤ s.narrive + 1 := by
  have hup : QInv { s with narrive := s.narrive + 1 } := by
    intro c hc
    have := h c hc
    exact ⟨this.1, Nat.le_succ_of_le this.2⟩
  unfold pipeRecv
  split
  · exact ⟨closePipe_qinv p h, by rw [closePipe_narrive]; exact Nat.le_refl _, by rw [closePipe_narrive]; omega⟩
  · simp only
    split
    · exact ⟨hup, by show s.narrive ≤ s.narrive + 1; omega, Nat.le_refl _⟩
    · rename_i c hl
      have hl' : lookup s (beDecode (List.take 4 b)) = some c := hl
      obtain ⟨hc, _, _⟩ := lookup_spec hl'
      split
      · exact ⟨hup, by show s.narrive ≤ s.narrive + 1; omega, Nat.le_refl _⟩
      · split
        · refine ⟨?_, by show s.narrive ≤ s.narrive + 1; omega, Nat.le_refl _⟩
          exact qinv_setCtx (s := { s with narrive := s.narrive + 1 }) hup hc rfl (Nat.le_refl _)
        · have hq : QInv (setCtx { s with narrive := s.narrive + 1 }
              { c with recvQ := c.recvQ ++ [⟨s.narrive, p, beDecode (List.take 4 b), ⟨List.take 4 b, List.drop 4 b⟩⟩] }) := by
            intro q hq'
            rcases mem_setCtx hq' with rfl | hq'
            · have := h c hc
              refine ⟨this.1, ?_⟩
              show (c.recvQ ++ [_]).length ≤ s.narrive + 1
              simp only [List.length_append, List.length_singleton]
              omega
            · exact hup q hq'
          simp only
          split
          · exact ⟨hq, by show s.narrive ≤ s.narrive + 1; omega, Nat.le_refl _⟩
          · exact ⟨hq, by show s.narrive ≤ s.narrive + 1; omega, Nat.le_refl _⟩

theorem cancelAio_q {s : State} (a rv : Nat) (h : QInv s) : QInv (cancelAio s a rv).1 ∧ (cancelAio s a rv).1.narrive = s.narrive := by
  cases hf : s.ctxs.find? (fun c => c.rq.any (·.aio == a)) with
  | none => rw [cancelAio_none rv hf]; exact ⟨h, rfl⟩
  | some c =>
    rw [cancelAio_some rv hf]
    exact ⟨qinv_setCtx h (List.mem_of_find?_eq_some hf) rfl (Nat.le_refl _), rfl⟩

theorem expire_q {s : State} (h : QInv s) : QInv (expire s).1 ∧ (expire s).1.narrive = s.narrive := by
  unfold expire
  refine ⟨?_, rfl⟩
  intro q hq
  simp only [List.mem_map] at hq
  obtain ⟨c, hc, rfl⟩ := hq
  have := h c hc
  unfold expireCtx
  simp only
  split <;> exact this

theorem closeAll_q {s : State} (h : QInv s) : QInv (closeAll s).1 ∧ (closeAll s).1.narrive = s.narrive := by
  unfold closeAll
  simp only
  have hf := foldl_closePipe_fields s.pipes
    ({ s with ctxs := s.ctxs.map fun c => (abortCtx c Err.eclosed).1, readable := false }, [])
  have hg : ∀ (ps : List Pipe) (acc : State × List Out),
      (ps.foldl (fun (acc : State × List Out) pp =>
        ((closePipe acc.1 pp.id).1, acc.2 ++ (closePipe acc.1 pp.id).2)) acc).1.narrive = acc.1.narrive := by
    intro ps
    induction ps with
    | nil => intro acc; rfl
    | cons pp rest ih => intro acc; simp only [List.foldl_cons]; rw [ih]; exact closePipe_narrive _ _
  have hg' := hg s.pipes ({ s with ctxs := s.ctxs.map fun c => (abortCtx c Err.eclosed).1, readable := false }, [])
  simp only at hf hg'
  refine ⟨?_, hg'⟩
  unfold QInv
  simp only
  rw [hf.1, hg']
  intro q hq
  simp only [List.mem_map] at hq
  obtain ⟨c, hc, rfl⟩ := hq
  exact ⟨(h c hc).1, by simp [abortCtx]⟩

/-- every step keeps `QInv`; the arrival counter never decreases and grows by at most one, and only for a message
    delivered by the transport -/
theorem step_q (s : State) (ev : Ev) (h : QInv s) :
    QInv (step s ev).1 ∧ s.narrive ≤ (step s ev).1.narrive ∧
    (step s ev).1.narrive ≤ s.narrive + (if isArrival ev then 1 else 0) := by
  have same : ∀ s', QInv s' → s'.narrive = s.narrive →
      QInv s' ∧ s.narrive ≤ s'.narrive ∧ s'.narrive ≤ s.narrive + (if isArrival ev then 1 else 0) := by
    intro s' h1 h2; rw [h2]; exact ⟨h1, Nat.le_refl _, Nat.le_add_right _ _⟩
  unfold step
  split
  · cases ev <;> try exact same _ h rfl
    case openSock p r =>
      refine same _ ?_ (by rfl)
      intro q hq
      simp only [List.mem_singleton] at hq
      subst hq
      exact ⟨rfl, Nat.zero_le _⟩
  · split
    · cases ev <;> exact same _ h rfl
    · cases ev with
      | openSock _ _ => exact same _ h rfl
      | pipeAdd peer => simp only; split <;> exact same _ h rfl
      | pipeDrop p =>
        simp only
        split
        · split
          · exact same _ h rfl
          · exact same _ (closePipe_qinv p h) (closePipe_narrive s p)
        · exact same _ h rfl
      | sendDone p rv =>
        simp only
        split
        · split
          · exact same _ h rfl
          · split
            · exact same _ (closePipe_qinv p h) (closePipe_narrive s p)
            · split <;> exact same _ h rfl
        · exact same _ h rfl
      | recvDone p r =>
        simp only
        split
        · split
          · exact same _ h rfl
          · split
            · exact same _ (closePipe_qinv p h) (closePipe_narrive s p)
            · exact pipeRecv_q p _ h
        · exact same _ h rfl
      | send k a m mode =>
        simp only
        split
        · exact same _ h rfl
        · split
          · exact same _ h rfl
          · rename_i c hg
            exact same _ (ctxSend_q a m h (getCtx_mem hg)).1 (ctxSend_q a m h (getCtx_mem hg)).2
      | recv k a mode =>
        simp only
        split
        · exact same _ h rfl
        · split
          · exact same _ h rfl
          · rename_i c hg
            exact same _ (ctxRecv_q a mode h (getCtx_mem hg)).1 (ctxRecv_q a mode h (getCtx_mem hg)).2
      | cancel a => exact same _ (cancelAio_q a _ h).1 (cancelAio_q a _ h).2
      | abort a rv => exact same _ (cancelAio_q a rv h).1 (cancelAio_q a rv h).2
      | advance ms =>
        exact same _ (expire_q (s := { s with now := s.now + ms }) h).1 (expire_q (s := { s with now := s.now + ms }) h).2
      | ctxOpen k =>
        simp only
        split
        · exact same _ h rfl
        · split
          · exact same _ h rfl
          · split
            · rename_i c0 h0
              refine same _ ?_ (by rfl)
              intro q hq
              simp only [List.mem_append, List.mem_singleton] at hq
              rcases hq with hq | rfl
              · exact h q hq
              · exact ⟨(h c0 (getCtx_mem h0)).1, Nat.zero_le _⟩
            · exact same _ h rfl
      | ctxClose k =>
        simp only
        split
        · exact same _ h rfl
        · refine same _ ?_ (by rfl)
          intro q hq
          exact h q (List.mem_filter.mp hq).1
      | setopt k name ty v =>
        simp only
        split
        · split
          · exact same _ h rfl
          · rename_i c hg
            split
            · exact same _ h rfl
            · exact same _ (qinv_setCtx h (getCtx_mem hg) rfl (Nat.le_refl _)) rfl
        · split
          · split <;> exact same _ h rfl
          · exact same _ h rfl
      | getopt k name ty =>
        simp only
        split
        · split <;> exact same _ h rfl
        · split <;> exact same _ h rfl
      | poll => exact same _ h rfl
      | sub _ _ => exact same _ h rfl
      | unsub _ _ => exact same _ h rfl
      | close => exact same _ (closeAll_q h).1 (closeAll_q h).2

end Nng.Survey
