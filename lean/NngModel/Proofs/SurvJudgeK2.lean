/-
  SURVEYOR judge, judge-only fact: the judge never holds two contexts under one key.
-/
import NngModel.Proofs.SurvJudgeK
namespace Nng.SurvJudge
open Nng Nng.Proto Nng.SurveySpec

def keysOf (j : SurvJ) : List (Option Nat) := j.ctxs.map (·.key)

@[simp] theorem keysOf_fail (j : SurvJ) (msg : String) : keysOf (j.fail msg) = keysOf j := by
  unfold SurvJ.fail; cases j.err <;> rfl

@[simp] theorem keysOf_bind (j : SurvJ) (b i : Bytes) : keysOf (j.bind b i) = keysOf j := rfl

@[simp] theorem keysOf_setCtx (j : SurvJ) (c : CtxJ) : keysOf (j.setCtx c) = keysOf j := by
  unfold keysOf SurvJ.setCtx
  simp only [List.map_map]
  apply List.map_congr_left
  intro q _
  by_cases h : (q.key == c.key) = true
  · simp only [Function.comp, h, if_true]; exact (beq_iff_eq.mp h).symm
  · simp [Function.comp, h]

@[simp] theorem fail_ctxs (j : SurvJ) (msg : String) : (j.fail msg).ctxs = j.ctxs := by
  unfold SurvJ.fail; cases j.err <;> rfl

theorem setCtx_keys (j : SurvJ) (c : CtxJ) : (j.setCtx c).ctxs.map (·.key) = j.ctxs.map (·.key) := keysOf_setCtx j c

theorem keysOf_survWire (j : SurvJ) (p : Nat) (m : WMsg) : keysOf (survWire j p m) = keysOf j := by
  unfold survWire
  split
  · simp
  · split
    · split <;> simp
    · split
      · simp
      · split <;> simp

theorem keysOf_survRecvDone (j : SurvJ) (ev : Ev) (pr : PendRecv) (rv : Nat) (msg : Option WMsg) :
    keysOf (survRecvDone j ev pr rv msg) = keysOf j := by
  unfold survRecvDone
  simp only
  repeat' split
  all_goals (first | rfl | (simp only [keysOf_fail, keysOf_bind, keysOf_setCtx]; done) | (simp only [keysOf_fail, keysOf_bind, keysOf_setCtx]; rfl) | (unfold keysOf; simp [setCtx_keys]; done))

theorem keysOf_survOut (ev : Ev) (sa : Option Nat) (j : SurvJ) (o : Out) : keysOf (survOut ev sa j o) = keysOf j := by
  cases o with
  | psend p m => exact keysOf_survWire j p m
  | done a rv msg b =>
    unfold survOut
    simp only
    split
    · rfl
    · split
      · simp
      · exact keysOf_survRecvDone _ _ _ _ _
  | _ => rfl

theorem keysOf_foldl (ev : Ev) (sa : Option Nat) (l : List Out) (j : SurvJ) :
    keysOf (l.foldl (survOut ev sa) j) = keysOf j := by
  induction l generalizing j with
  | nil => rfl
  | cons o t ih => simp only [List.foldl_cons]; rw [ih, keysOf_survOut]

theorem keysOf_survProc (ev : Ev) (sa : Option Nat) (outs : List Out) (j : SurvJ) :
    keysOf (survProc ev sa outs j) = keysOf j := by
  unfold survProc
  cases ev <;> simp only [keysOf_foldl]

theorem keysOf_survQuiescent (j : SurvJ) (ev : Ev) : keysOf (survQuiescent j ev) = keysOf j := by
  unfold survQuiescent
  simp only
  repeat' split
  all_goals (first | rfl | (simp only [keysOf_fail, keysOf_bind, keysOf_setCtx]; done) | (simp only [keysOf_fail, keysOf_bind, keysOf_setCtx]; rfl) | (unfold keysOf; simp [setCtx_keys]; done))

theorem keysOf_survPostB (ev : Ev) (outs : List Out) (j : SurvJ) : keysOf (survPostB ev outs j) = keysOf j := by
  unfold survPostB
  simp only
  rw [keysOf_survQuiescent]
  repeat' split
  all_goals (first | rfl | (simp only [keysOf_fail, keysOf_bind, keysOf_setCtx]; done) | (simp only [keysOf_fail, keysOf_bind, keysOf_setCtx]; rfl) | (unfold keysOf; simp [setCtx_keys]; done))

theorem jk_filter (j : SurvJ) (k : Nat) (h : (keysOf j).Nodup) :
    (keysOf { j with ctxs := j.ctxs.filter (fun x => x.key != some k) }).Nodup := by
  unfold keysOf at h ⊢
  exact List.Nodup.sublist (List.filter_sublist.map _) h

theorem jk_survPostA (ev : Ev) (outs : List Out) (j : SurvJ) (h : (keysOf j).Nodup) : (keysOf (survPostA ev outs j)).Nodup := by
  cases ev with
  | ctxClose k =>
    unfold survPostA
    simp only
    split
    · split
      · exact jk_filter _ k (by rw [keysOf_fail]; exact h)
      · exact jk_filter _ k h
    · exact h
  | close =>
    unfold survPostA
    simp only
    split
    · rw [keysOf_fail]; exact h
    · exact h
  | _ => exact h

theorem jk_survPre (j : SurvJ) (ev : Ev) (outs : List Out) (h : (keysOf j).Nodup) : (keysOf (survPre j ev outs).1).Nodup := by
  cases ev with
  | openSock _ _ =>
    unfold survPre; simp only
    split
    · simp [keysOf]
    · exact h
  | ctxOpen k =>
    unfold survPre; simp only
    split
    · unfold keysOf at h ⊢
      simp only [List.map_append, List.map_cons, List.map_nil]
      rw [List.nodup_append]
      refine ⟨List.Nodup.sublist (List.filter_sublist.map _) h, by simp, ?_⟩
      intro x hx y hy
      simp only [List.mem_singleton] at hy
      subst hy
      simp only [List.mem_map, List.mem_filter] at hx
      obtain ⟨c, ⟨_, hc⟩, rfl⟩ := hx
      simpa using hc
    · exact h
  | setopt _ _ _ _ =>
    unfold survPre; simp only
    split
    · split
      · rw [keysOf_setCtx]; exact h
      · exact h
    · exact h
  | recvDone _ r =>
    cases r with
    | error _ => exact h
    | ok b => unfold survPre; simp only; split <;> exact h
  | recv k a md =>
    have : keysOf (survPre j (.recv k a md) outs).1 = keysOf j := by
      unfold survPre
      simp only
      repeat' split
      all_goals (first | rfl | (simp only [keysOf_fail, keysOf_bind, keysOf_setCtx]; done) | (simp only [keysOf_fail, keysOf_bind, keysOf_setCtx]; rfl) | (unfold keysOf; simp [setCtx_keys]; done))
    rw [this]; exact h
  | send k a m md =>
    have : keysOf (survPre j (.send k a m md) outs).1 = keysOf j := by
      unfold survPre
      simp only
      repeat' split
      all_goals (first | rfl | (simp only [keysOf_fail, keysOf_bind, keysOf_setCtx]; done) | (simp only [keysOf_fail, keysOf_bind, keysOf_setCtx]; rfl) | (unfold keysOf; simp [setCtx_keys]; done))
    rw [this]; exact h
  | advance _ => exact h
  | close => exact h
  | pipeAdd _ => exact h
  | pipeDrop _ => exact h
  | sendDone _ _ => exact h
  | cancel _ => exact h
  | abort _ _ => exact h
  | ctxClose _ => exact h
  | getopt _ _ _ => exact h
  | poll => exact h
  | sub _ _ => exact h
  | unsub _ _ => exact h

/-- a step of the judge keeps the context keys pairwise distinct -/
theorem jk_survStep (j : SurvJ) (ev : Ev) (outs : List Out) (h : (keysOf j).Nodup) :
    (keysOf (survStep j ev outs)).Nodup := by
  cases herr : j.err with
  | some e => rw [survStep_err herr]; exact h
  | none =>
    cases hne : notExecuted outs with
    | true => rw [survStep_refused hne]; exact h
    | false =>
      rw [survStep_eq herr hne, keysOf_survPostB]
      apply jk_survPostA
      rw [keysOf_survProc]
      exact jk_survPre j ev outs h

/-- with distinct keys, membership is lookup -/
theorem getCtx_of_mem_j {j : SurvJ} {c : CtxJ} (hk : (keysOf j).Nodup) (hc : c ∈ j.ctxs) : j.getCtx c.key = some c := by
  unfold SurvJ.getCtx
  unfold keysOf at hk
  generalize j.ctxs = l at hk hc
  induction l with
  | nil => cases hc
  | cons x t ih =>
    simp only [List.map_cons, List.nodup_cons, List.mem_map, not_exists, not_and] at hk
    rcases List.mem_cons.mp hc with rfl | hc
    · simp
    · have hne : ¬ (x.key == c.key) = true := by
        intro he
        exact hk.1 c hc (beq_iff_eq.mp he).symm
      simp only [List.find?_cons, hne]
      exact ih hk.2 hc

end Nng.SurvJudge
