import NngModel.Model.Ws
namespace Nng.Ws

theorem u8_xor_xor (a k : UInt8) : (a ^^^ k) ^^^ k = a := by
  rw [UInt8.xor_assoc, UInt8.xor_self, UInt8.xor_zero]

theorem maskFrom_length (key : Bytes) (off : Nat) (b : Bytes) : (maskFrom key off b).length = b.length := by
  induction b generalizing off with
  | nil => rfl
  | cons x xs ih => simp [maskFrom, ih]

theorem maskFrom_involutive (key : Bytes) (off : Nat) (b : Bytes) :
    maskFrom key off (maskFrom key off b) = b := by
  induction b generalizing off with
  | nil => rfl
  | cons x xs ih => simp [maskFrom, ih, u8_xor_xor]

theorem maskFrom_append (key : Bytes) (off : Nat) (a b : Bytes) :
    maskFrom key off (a ++ b) = maskFrom key off a ++ maskFrom key (off + a.length) b := by
  induction a generalizing off with
  | nil => simp [maskFrom]
  | cons x xs ih =>
    simp only [List.cons_append, maskFrom, ih, List.length_cons]
    rw [show off + 1 + xs.length = off + (xs.length + 1) by omega]

theorem maskFrom_mod4 (key : Bytes) (off : Nat) (b : Bytes) :
    maskFrom key (off + 4) b = maskFrom key off b := by
  induction b generalizing off with
  | nil => rfl
  | cons x xs ih =>
    simp only [maskFrom]
    rw [show off + 4 + 1 = (off + 1) + 4 by omega, ih, Nat.add_mod_right]

theorem maskFrom_mul4 (key : Bytes) (k : Nat) (b : Bytes) :
    maskFrom key (4 * k) b = maskFrom key 0 b := by
  induction k with
  | zero => rfl
  | succ n ih => rw [show 4 * (n + 1) = 4 * n + 4 by omega, maskFrom_mod4, ih]

/-- xor with the repeated key = bytewise mask, for a block not longer than the repeated key -/
theorem zipWith_repKey (key : Bytes) (hk : key.length = 4) (n : Nat) (blk : Bytes) (off : Nat)
    (hoff : off % 4 = 0) (hl : blk.length ≤ 4 * n) :
    List.zipWith (· ^^^ ·) blk (repKey key n) = maskFrom key off blk := by
  induction n generalizing blk off with
  | zero =>
    have : blk = [] := List.eq_nil_of_length_eq_zero (by omega)
    subst this; simp [maskFrom]
  | succ n ih =>
    match key, hk with
    | [k0, k1, k2, k3], _ =>
      simp only [repKey]
      match blk with
      | [] => simp [maskFrom]
      | [a] => simp [maskFrom, hoff]
      | [a, b] =>
        have h1 : (off + 1) % 4 = 1 := by omega
        simp [maskFrom, hoff, h1]
      | [a, b, c] =>
        have h1 : (off + 1) % 4 = 1 := by omega
        have h2 : (off + 1 + 1) % 4 = 2 := by omega
        simp [maskFrom, hoff, h1, h2]
      | a :: b :: c :: d :: rest =>
        have h1 : (off + 1) % 4 = 1 := by omega
        have h2 : (off + 1 + 1) % 4 = 2 := by omega
        have h3 : (off + 1 + 1 + 1) % 4 = 3 := by omega
        have := ih rest (off + 1 + 1 + 1 + 1) (by omega) (by simp at hl; omega)
        simp [maskFrom, hoff, h1, h2, h3, this]

theorem xorWord_eq (key : Bytes) (hk : key.length = 4) (w : Nat) (hw : w % 4 = 0) (blk : Bytes)
    (hl : blk.length ≤ w) (off : Nat) (hoff : off % 4 = 0) : xorWord key w blk = maskFrom key off blk := by
  unfold xorWord
  exact zipWith_repKey key hk (w / 4) blk off hoff (by omega)

/-- a stride of word size w (multiple of 4) starting at an offset that is a multiple of 4 masks a
    prefix bytewise and leaves a remainder shorter than w, still at a multiple of 4 -/
theorem stride_spec (key : Bytes) (hk : key.length = 4) (w : Nat) (hw : w % 4 = 0) (hw0 : w > 0)
    (fuel : Nat) (buf : Bytes) (hf : buf.length ≤ fuel) (off : Nat) (hoff : off % 4 = 0) :
    ∃ p, p ≤ buf.length ∧ p % 4 = 0 ∧ buf.length - p < w ∧
      (stride key w fuel buf).1 = maskFrom key off (buf.take p) ∧ (stride key w fuel buf).2 = buf.drop p := by
  induction fuel generalizing buf off with
  | zero =>
    have : buf = [] := List.eq_nil_of_length_eq_zero (by omega)
    subst this
    exact ⟨0, by simp, by simp, by simpa using hw0, by simp [stride, maskFrom], by simp [stride]⟩
  | succ n ih =>
    by_cases h : buf.length ≥ w ∧ w > 0
    · simp only [stride, if_pos h]
      obtain ⟨p, hp1, hp2, hp3, hp4, hp5⟩ := ih (buf.drop w) (by simp; omega) (off + w) (by omega)
      refine ⟨w + p, ?_, by omega, ?_, ?_, ?_⟩
      · simp at hp1; omega
      · simp at hp3; omega
      · rw [hp4, xorWord_eq key hk w hw (buf.take w) (by rw [List.length_take]; exact Nat.min_le_left ..) off hoff]
        have : buf.take (w + p) = buf.take w ++ (buf.drop w).take p := by
          rw [List.take_add]
        rw [this, maskFrom_append]
        simp [Nat.min_eq_left h.1]
      · rw [hp5, List.drop_drop]
    · simp only [stride, if_neg h]
      exact ⟨0, by simp, by simp, by omega, by simp [maskFrom], by simp⟩

theorem maskTail_eq (key : Bytes) (i off : Nat) (b : Bytes) (h : i + b.length ≤ 4) (ho : off % 4 = i) :
    maskTail key i b = maskFrom key off b := by
  induction b generalizing i off with
  | nil => rfl
  | cons x xs ih =>
    simp only [maskTail, maskFrom]
    simp at h
    match xs with
    | [] => simp [maskTail, maskFrom, ho]
    | y :: ys =>
      simp at h
      rw [ih (i + 1) (off + 1) (by simp; omega) (by omega), ho]

/-- ws_apply_mask's strided computation is the RFC's bytewise transformation -/
theorem applyMask_eq_bytewise (key : Bytes) (hk : key.length = 4) (buf : Bytes) :
    applyMask key buf = applyMaskBytewise key buf := by
  unfold applyMask applyMaskBytewise
  obtain ⟨p1, a1, a2, a3, a4, a5⟩ := stride_spec key hk 16 (by decide) (by decide) buf.length buf (Nat.le_refl _) 0 rfl
  generalize stride key 16 buf.length buf = s1 at a4 a5 ⊢
  obtain ⟨s1a, s1b⟩ := s1
  simp only at a4 a5 ⊢
  subst a4 a5
  obtain ⟨p2, b1, b2, b3, b4, b5⟩ := stride_spec key hk 8 (by decide) (by decide) (buf.drop p1).length
    (buf.drop p1) (Nat.le_refl _) p1 a2
  generalize stride key 8 (buf.drop p1).length (buf.drop p1) = s2 at b4 b5 ⊢
  obtain ⟨s2a, s2b⟩ := s2
  simp only at b4 b5 ⊢
  subst b4 b5
  obtain ⟨p3, c1, c2, c3, c4, c5⟩ := stride_spec key hk 4 (by decide) (by decide) ((buf.drop p1).drop p2).length
    ((buf.drop p1).drop p2) (Nat.le_refl _) (p1 + p2) (by omega)
  generalize stride key 4 ((buf.drop p1).drop p2).length ((buf.drop p1).drop p2) = s3 at c4 c5 ⊢
  obtain ⟨s3a, s3b⟩ := s3
  simp only at c4 c5 ⊢
  subst c4 c5
  simp only [List.length_drop] at b1 b3 c1 c3
  rw [maskTail_eq key 0 (p1 + p2 + p3) _ (by simp only [List.length_drop]; omega) (by omega)]
  have e1 : buf = buf.take p1 ++ ((buf.drop p1).take p2 ++ (((buf.drop p1).drop p2).take p3 ++ ((buf.drop p1).drop p2).drop p3)) := by
    rw [List.take_append_drop, List.take_append_drop, List.take_append_drop]
  conv => rhs; rw [e1]
  rw [maskFrom_append, maskFrom_append, maskFrom_append]
  simp only [List.length_take, List.length_drop]
  have l1 : min p1 buf.length = p1 := Nat.min_eq_left a1
  have l2 : min p2 (buf.length - p1) = p2 := Nat.min_eq_left b1
  have l3 : min p3 (buf.length - p1 - p2) = p3 := Nat.min_eq_left c1
  rw [l1, l2, l3]
  simp [Nat.add_assoc]

theorem applyMask_length (key : Bytes) (hk : key.length = 4) (buf : Bytes) : (applyMask key buf).length = buf.length := by
  rw [applyMask_eq_bytewise key hk]; exact maskFrom_length ..

theorem applyMask_involutive (key : Bytes) (hk : key.length = 4) (buf : Bytes) :
    applyMask key (applyMask key buf) = buf := by
  rw [applyMask_eq_bytewise key hk, applyMask_eq_bytewise key hk]
  exact maskFrom_involutive ..

end Nng.Ws
