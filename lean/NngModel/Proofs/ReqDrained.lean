/-
  req0_run_send_queue leaves nothing behind: in every reachable state of the REQ model the send
  queue is empty or no pipe is ready (`drained_reachable`).
-/
import NngModel.Proofs.ReqPlaceSteps
namespace Nng.Req
open Nng Nng.Proto

def Dr (s : State) : Prop := s.sendQueue = [] ∨ s.readyPipes = []

/-- the two lists can only lose entries -/
def Shr (s t : State) : Prop :=
  (s.sendQueue = [] → t.sendQueue = []) ∧ (s.readyPipes = [] → t.readyPipes = [])

theorem Shr.refl (s : State) : Shr s s := ⟨id, id⟩
theorem Shr.trans {a b c : State} (h1 : Shr a b) (h2 : Shr b c) : Shr a c :=
  ⟨fun h => h2.1 (h1.1 h), fun h => h2.2 (h1.2 h)⟩
theorem Dr.shr {s t : State} (h : Dr s) (e : Shr s t) : Dr t := h.elim (fun a => Or.inl (e.1 a)) (fun a => Or.inr (e.2 a))

theorem shr_of_eq {s t : State} (e1 : t.sendQueue = s.sendQueue.erase k ∨ t.sendQueue = s.sendQueue)
    (e2 : t.readyPipes = s.readyPipes.erase p ∨ t.readyPipes = s.readyPipes) : Shr s t := by
  constructor
  · intro h; rcases e1 with e | e <;> rw [e, h] <;> rfl
  · intro h; rcases e2 with e | e <;> rw [e, h] <;> rfl

theorem sendOne_lists (s : State) (k p : Nat) :
    (sendOne s k p).1.sendQueue = s.sendQueue.erase k ∧ (sendOne s k p).1.readyPipes = s.readyPipes.erase p := by
  have e1 := view_sendPrep s k p (s.ctx k).retry
  have a1 : (sendPrep s k p (s.ctx k).retry).sendQueue = s.sendQueue.erase k := congrArg View.sendQueue e1
  have a2 : (sendPrep s k p (s.ctx k).retry).readyPipes = s.readyPipes.erase p := congrArg View.readyPipes e1
  unfold sendOne
  dsimp only
  generalize sendPrep s k p (s.ctx k).retry = s1 at a1 a2 ⊢
  split
  · simp only [flag]; split <;> exact ⟨a1, a2⟩
  · simp only [setCtx, setPipe, wireIndex, tranClone, setMsg, flag]
    (repeat' split) <;> exact ⟨a1, a2⟩

theorem runQ_dr (fuel : Nat) (s : State) (hf : s.sendQueue.length ≤ fuel) : Dr (runQ fuel s).1 := by
  induction fuel generalizing s with
  | zero =>
    show Dr s
    exact Or.inl (List.eq_nil_of_length_eq_zero (Nat.le_zero.1 hf))
  | succ n ih =>
    unfold runQ
    split
    · rename_i k t p _ hs hp
      apply ih
      rw [(sendOne_lists s k p).1, hs]
      simp only [List.erase_cons_head]
      rw [hs] at hf; simp only [List.length_cons] at hf; omega
    · rename_i hno
      cases hs : s.sendQueue with
      | nil => exact Or.inl hs
      | cons k t =>
        cases hp : s.readyPipes with
        | nil => exact Or.inr hp
        | cons p t' => exact absurd hp (hno k t p t' hs)

theorem runSendQueue_dr (s : State) : Dr (runSendQueue s).1 := runQ_dr _ s (Nat.le_refl _)

theorem dropSend_lists (s : State) (k : Nat) :
    (dropSend s k).sendQueue = s.sendQueue.erase k ∧ (dropSend s k).readyPipes = s.readyPipes := by
  unfold dropSend
  dsimp only
  cases (s.ctx k).reqMsg with
  | none => exact ⟨rfl, rfl⟩
  | some h =>
    dsimp only
    simp only [giveBack, setMsg, flag, setCtx]
    (repeat' split) <;> exact ⟨rfl, rfl⟩

theorem acceptPrep_lists (s : State) (k : Nat) :
    (acceptPrep s k).sendQueue = s.sendQueue.erase k ∧ (acceptPrep s k).readyPipes = s.readyPipes := by
  unfold acceptPrep
  dsimp only
  cases (s.ctx k).reqMsg with
  | none => exact ⟨rfl, rfl⟩
  | some h =>
    dsimp only
    simp only [ctxRelease, setMsg, flag]
    (repeat' split) <;> exact ⟨rfl, rfl⟩

theorem shr_ctxReset (s : State) (k : Nat) : Shr s (ctxReset s k) :=
  shr_of_eq (k := k) (p := 0) (Or.inl (ctxReset_fields s k).2.2.2.2.1) (Or.inr (ctxReset_fields s k).2.2.2.2.2.1)

theorem shr_dropSend (s : State) (k : Nat) : Shr s (dropSend s k) :=
  shr_of_eq (k := k) (p := 0) (Or.inl (dropSend_lists s k).1) (Or.inr (dropSend_lists s k).2)

theorem shr_setCtx (s : State) (k : Nat) (c : Ctx) : Shr s (setCtx s k c) := ⟨id, id⟩
theorem shr_setPipe (s : State) (p : Nat) (pp : Pipe) : Shr s (setPipe s p pp) := ⟨id, id⟩

theorem shr_recvCb (s : State) (iid? : Option Nat) (b : Bytes) : Shr s (recvCb s iid? b).1 := by
  unfold recvCb
  split
  · exact Shr.refl s
  · split
    · exact Shr.refl s
    · dsimp only
      split
      · exact Shr.refl s
      · rename_i k _ _
        have e : Shr s (acceptPrep s k) :=
          shr_of_eq (k := k) (p := 0) (Or.inl (acceptPrep_lists s k).1) (Or.inr (acceptPrep_lists s k).2)
        split
        · exact e
        · split <;> exact e

theorem dr_closeOne (s : State) (p k : Nat) (h : Dr s) : Dr (closeOne s p k).1 := by
  unfold closeOne
  dsimp only
  split
  · split
    · exact h.shr (((shr_setPipe ..).trans (shr_setCtx ..)).trans (shr_ctxReset ..))
    · exact h.shr (((shr_setPipe ..).trans (shr_ctxReset ..)).trans (shr_setCtx ..))
  · split
    · split
      · exact h
      · exact runSendQueue_dr _
    · exact h

theorem dr_closeLoop (fuel : Nat) (s : State) (p : Nat) (h : Dr s) : Dr (closeLoop fuel s p).1 := by
  induction fuel generalizing s with
  | zero => exact h
  | succ n ih =>
    unfold closeLoop
    split
    · exact h
    · exact ih _ (dr_closeOne s p _ h)

theorem shr_pipeClosePrep (s : State) (p : Nat) : Shr s (pipeClosePrep s p) := by
  have : (pipeClosePrep s p).sendQueue = s.sendQueue ∧ (pipeClosePrep s p).readyPipes = s.readyPipes.erase p := by
    unfold pipeClosePrep
    dsimp only
    cases (s.pipe p).busy with
    | none => dsimp only; split <;> exact ⟨rfl, rfl⟩
    | some h =>
      dsimp only
      simp only [tranRelease, setMsg, flag, setPipe]
      (repeat' split) <;> exact ⟨rfl, rfl⟩
  exact shr_of_eq (k := 0) (p := p) (Or.inr this.1) (Or.inl this.2)

theorem dr_pipeClose (s : State) (p : Nat) (h : Dr s) : Dr (pipeClose s p).1 := by
  unfold pipeClose
  split
  · exact h
  · exact dr_closeLoop _ _ p (h.shr (shr_pipeClosePrep s p))

theorem dr_sendCb (s : State) (p : Nat) (h : Dr s) : Dr (sendCb s p).1 := by
  unfold sendCb
  split
  · exact h
  · exact runSendQueue_dr _

theorem dr_retryCb (s : State) (h : Dr s) : Dr (retryCb s).1 := by
  unfold retryCb
  split
  · exact h
  · split
    · exact runSendQueue_dr _
    · rename_i hd
      have he : s.retryQueue.filter (retryDue s) = [] := by
        cases hx : s.retryQueue.filter (retryDue s) with
        | nil => rfl
        | cons a l => rw [hx] at hd; simp at hd
      unfold retryPrep
      dsimp only
      rw [he]
      simp only [List.filter_nil, List.append_nil]
      split
      · unfold armTick; split <;> exact h
      · exact h

theorem shr_finiChain (s : State) (k e : Nat) : Shr s (finiChain s k e).1 := by
  unfold finiChain
  dsimp only
  refine Shr.trans ?_ (shr_ctxReset _ k)
  cases (s.ctx k).recvAio with
  | none =>
    dsimp only
    cases (s.ctx k).sendAio with
    | none => exact Shr.refl s
    | some ua => exact shr_dropSend s k
  | some ra =>
    dsimp only
    cases ((setCtx s k { s.ctx k with recvAio := none }).ctx k).sendAio with
    | none => exact shr_setCtx ..
    | some ua => exact (shr_setCtx ..).trans (shr_dropSend ..)

theorem dr_ctxSend (s : State) (k a : Nat) (m : WMsg) (mode : Mode) (h : Dr s) : Dr (ctxSend s k a m mode).1 := by
  unfold ctxSend
  split
  · exact h
  · dsimp only
    split
    · exact h.shr ((shr_finiChain s k Err.ecanceled).trans ⟨id, id⟩)
    · exact runSendQueue_dr _

theorem dr_ctxRecv (s : State) (k a : Nat) (mode : Mode) (h : Dr s) : Dr (ctxRecv s k a mode).1 := by
  unfold ctxRecv
  dsimp only
  split
  · split <;> exact h
  · split
    · split <;> exact h
    · split <;> exact h

theorem dr_cancelSend (s : State) (k rv : Nat) (h : Dr s) : Dr (cancelSend s k rv).1 := by
  unfold cancelSend
  split
  · exact h.shr ((shr_dropSend ..).trans (shr_ctxReset ..))
  · exact h

theorem dr_cancelRecv (s : State) (k rv : Nat) (h : Dr s) : Dr (cancelRecv s k rv).1 := by
  unfold cancelRecv
  split
  · exact h
  · dsimp only
    cases (s.ctx k).sendAio with
    | none => exact h.shr ((shr_setCtx ..).trans (shr_ctxReset ..))
    | some ua => exact h.shr (((shr_dropSend ..).trans (shr_setCtx ..)).trans (shr_ctxReset ..))

theorem dr_ctxFini (s : State) (k : Nat) (h : Dr s) : Dr (ctxFini s k).1 :=
  h.shr ((shr_finiChain s k Err.eclosed).trans (shr_setCtx ..))

theorem dr_expireOne (s : State) (k : Nat) (h : Dr s) : Dr (expireOne s k).1 := by
  unfold expireOne
  dsimp only
  have h1 : Dr (if dueAio s.now (s.ctx k).recvAio = true then cancelRecv s k Err.etimedout else (s, [])).1 := by
    split
    · exact dr_cancelRecv _ _ _ h
    · exact h
  generalize (if dueAio s.now (s.ctx k).recvAio = true then cancelRecv s k Err.etimedout else (s, [])) = r1 at h1 ⊢
  split
  · exact dr_cancelSend _ _ _ h1
  · exact h1

theorem dr_advance (s : State) (ms : Nat) (h : Dr s) : Dr (advance s ms).1 := by
  unfold advance
  dsimp only
  have h0 : Dr { s with now := s.now + ms } := h
  have h1 := foldSteps_ind Dr ctxKeys expireOne (fun s k hs => dr_expireOne s k hs) h0
  generalize foldSteps ctxKeys expireOne { s with now := s.now + ms } = r at h1 ⊢
  split
  · split
    · exact dr_retryCb _ h1
    · exact h1
  · exact h1

theorem dr_step (s : State) (ev : Ev) (h : Dr s) : Dr (step s ev).1 := by
  unfold step
  split
  · split
    · split <;> exact h
    · exact h
    · exact h
  · split
    · split <;> exact h
    · split
      · exact h
      · dsimp only
        split
        · exact h
        · exact runSendQueue_dr _
      · split
        · exact dr_pipeClose _ _ h
        · exact h
      · split
        · split
          · dsimp only
            have h1 : ∀ hh p pp, Dr (setPipe (tranRelease s hh) p pp) := by
              intro hh p pp
              have : (tranRelease s hh).sendQueue = s.sendQueue ∧ (tranRelease s hh).readyPipes = s.readyPipes := by
                simp only [tranRelease, setMsg, flag]; (repeat' split) <;> exact ⟨rfl, rfl⟩
              exact h.shr ⟨fun e => by show (tranRelease s hh).sendQueue = []; rw [this.1]; exact e,
                fun e => by show (tranRelease s hh).readyPipes = []; rw [this.2]; exact e⟩
            split
            · exact dr_pipeClose _ _ (h1 _ _ _)
            · exact dr_sendCb _ _ (h1 _ _ _)
          · exact h
        · exact h
      · split
        · dsimp only
          split
          · exact dr_pipeClose _ _ h
          · split
            · exact dr_pipeClose _ _ h
            · refine Dr.shr ?_ (shr_recvCb _ _ _)
              exact h
        · exact h
      · split
        · exact h
        · split
          · exact h
          · split
            · exact h
            · exact dr_ctxSend _ _ _ _ _ h
      · split
        · exact h
        · split
          · exact h
          · split
            · exact h
            · exact dr_ctxRecv _ _ _ _ h
      · split
        · exact dr_cancelRecv _ _ _ h
        · exact dr_cancelSend _ _ _ h
        · exact h
      · split
        · exact dr_cancelRecv _ _ _ h
        · exact dr_cancelSend _ _ _ h
        · exact h
      · exact dr_advance _ _ h
      · split
        · exact h
        · split <;> exact h
      · split
        · exact h
        · split
          · exact dr_ctxFini _ _ h
          · exact h
      · (repeat' split) <;> exact h
      · (repeat' split) <;> exact h
      · exact h
      · exact h
      · exact h
      · dsimp only
        have h1 := foldSteps_ind Dr ((List.range nCtxSlots).map (· + 1))
          (fun s k => if (s.ctx k).live then ctxFini s k else (s, []))
          (fun s k hs => by split; exact dr_ctxFini s k hs; exact hs) h
        generalize foldSteps ((List.range nCtxSlots).map (· + 1))
          (fun s k => if (s.ctx k).live then ctxFini s k else (s, [])) s = r1 at h1 ⊢
        have h2 := foldSteps_ind Dr (List.range r1.1.npipes) pipeClose (fun s k hs => dr_pipeClose s k hs) h1
        generalize foldSteps (List.range r1.1.npipes) pipeClose r1.1 = r2 at h2 ⊢
        have h3 : Dr { r2.1 with sClosed := true, tickAt := none } := h2
        exact dr_ctxFini _ 0 h3

theorem drained_reachable (evs : List Ev) : Dr (run {} evs).1 := by
  suffices ∀ s, Dr s → Dr (run s evs).1 from this {} (Or.inl rfl)
  induction evs with
  | nil => intro s h; exact h
  | cons e es ih => intro s h; unfold run; exact ih _ (dr_step s e h)

end Nng.Req
