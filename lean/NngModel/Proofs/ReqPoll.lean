/-
  The pollable flags of the REQ model: in every reachable state the receive pollable is raised
  exactly when the socket's own context (key 0) holds a stashed reply, and the send pollable is
  raised exactly when a pipe is ready (`poll_reachable`).  Every callback preserves this on its
  own, except req0_send_cb, which needs the "drained" fact of Proofs/ReqDrained.lean.
-/
import NngModel.Model.Req
import NngModel.Proofs.ReqDrained
namespace Nng.Req
open Nng Nng.Proto

/-- the pollable flags follow the stashed reply of the socket's own context / the ready pipes -/
structure PollInv (s : State) : Prop where
  rd : s.readable = (s.ctx 0).repMsg.isSome
  wr : s.writable = !s.readyPipes.isEmpty

theorem poll_init : PollInv ({} : State) := ⟨rfl, rfl⟩

/-- the part of the state `PollInv` talks about -/
def pv (s : State) : Bool × Bool × Bool × List Nat :=
  (s.readable, (s.ctx 0).repMsg.isSome, s.writable, s.readyPipes)

theorem poll_of_pv {s t : State} (e : pv t = pv s) (h : PollInv s) : PollInv t := by
  simp only [pv, Prod.mk.injEq] at e
  obtain ⟨e1, e2, e3, e4⟩ := e
  exact ⟨by rw [e1, e2]; exact h.rd, by rw [e3, e4]; exact h.wr⟩

/-- the same with the whole context table, for the helpers that do not touch any context -/
def pw (s : State) : Bool × (Nat → Ctx) × Bool × List Nat := (s.readable, s.ctx, s.writable, s.readyPipes)

theorem pv_of_pw {s t : State} (e : pw t = pw s) : pv t = pv s := by
  simp only [pw, Prod.mk.injEq] at e
  obtain ⟨e1, e2, e3, e4⟩ := e
  simp only [pv, e1, e2, e3, e4]

theorem ctx_of_pw {s t : State} (e : pw t = pw s) : t.ctx = s.ctx := congrArg (·.2.1) e

theorem pw_flag (s : State) (m : String) : pw (flag s m) = pw s := by
  unfold flag; split <;> rfl

theorem pw_setMsg (s : State) (h : Nat) (m : MsgObj) : pw (setMsg s h m) = pw s := rfl
theorem pw_setPipe (s : State) (p : Nat) (pp : Pipe) : pw (setPipe s p pp) = pw s := rfl

/-- a context update that keeps "context 0 holds a reply" -/
theorem pv_setCtx (s : State) (k : Nat) (c : Ctx) (h : k = 0 → c.repMsg.isSome = (s.ctx 0).repMsg.isSome) :
    pv (setCtx s k c) = pv s := by
  unfold pv setCtx
  dsimp only
  by_cases hk : k = 0
  · subst hk; rw [upd_same, h rfl]
  · rw [upd_other _ _ _ _ (Ne.symm hk)]

theorem pv_setCtx_same (s : State) (k : Nat) (c : Ctx) (h : c.repMsg = (s.ctx k).repMsg) :
    pv (setCtx s k c) = pv s := pv_setCtx s k c (fun e => by rw [h, e])

theorem poll_setCtx_same {s : State} (h : PollInv s) (k : Nat) (c : Ctx) (hc : c.repMsg = (s.ctx k).repMsg := by rfl) :
    PollInv (setCtx s k c) := poll_of_pv (pv_setCtx_same s k c hc) h

theorem pw_ctxRelease (s : State) (h : Nat) : pw (ctxRelease s h) = pw s := by
  unfold ctxRelease; dsimp only; split
  · rfl
  · exact pw_flag _ _

theorem pw_giveBack (s : State) (h : Nat) : pw (giveBack s h) = pw s := by
  unfold giveBack; dsimp only; split
  · rfl
  · exact pw_flag _ _

theorem pw_tranClone (s : State) (h : Nat) : pw (tranClone s h) = pw s := by
  unfold tranClone; dsimp only; split
  · rfl
  · exact pw_flag _ _

theorem pw_tranRelease (s : State) (h : Nat) : pw (tranRelease s h) = pw s := by
  unfold tranRelease; dsimp only; split
  · rfl
  · exact pw_flag _ _

theorem pw_wireIndex (s : State) (i : Nat) : pw (wireIndex s i).1 = pw s := by
  unfold wireIndex; split <;> rfl

theorem poll_of_pw {s t : State} (e : pw t = pw s) (h : PollInv s) : PollInv t := poll_of_pv (pv_of_pw e) h

theorem poll_flag {s : State} (h : PollInv s) (m : String) : PollInv (flag s m) := poll_of_pw (pw_flag s m) h
theorem poll_ctxRelease {s : State} (h : PollInv s) (x : Nat) : PollInv (ctxRelease s x) := poll_of_pw (pw_ctxRelease s x) h
theorem poll_giveBack {s : State} (h : PollInv s) (x : Nat) : PollInv (giveBack s x) := poll_of_pw (pw_giveBack s x) h
theorem poll_tranClone {s : State} (h : PollInv s) (x : Nat) : PollInv (tranClone s x) := poll_of_pw (pw_tranClone s x) h
theorem poll_tranRelease {s : State} (h : PollInv s) (x : Nat) : PollInv (tranRelease s x) := poll_of_pw (pw_tranRelease s x) h
theorem poll_wireIndex {s : State} (h : PollInv s) (i : Nat) : PollInv (wireIndex s i).1 := poll_of_pw (pw_wireIndex s i) h

/-! ### req0_run_send_queue -/

/-- a pipe leaves the ready list and the send pollable is lowered when the list became empty;
    the send pollable only has to be right before if some pipe stays ready -/
theorem poll_erase {s t : State} (hrd : s.readable = (s.ctx 0).repMsg.isSome) (p : Nat)
    (hwr : (s.readyPipes.erase p).isEmpty = false → s.writable = true) (e1 : t.readable = s.readable)
    (e2 : (t.ctx 0).repMsg.isSome = (s.ctx 0).repMsg.isSome) (e3 : t.readyPipes = s.readyPipes.erase p)
    (e4 : t.writable = if t.readyPipes.isEmpty then false else s.writable) : PollInv t := by
  refine ⟨by rw [e1, e2]; exact hrd, ?_⟩
  rw [e4]
  cases hx : t.readyPipes.isEmpty with
  | true => rfl
  | false =>
    rw [if_neg (by simp)]
    rw [e3] at hx
    exact hwr hx

theorem weak_of_poll {s : State} (h : PollInv s) (p : Nat) :
    (s.readyPipes.erase p).isEmpty = false → s.writable = true := by
  intro he
  rw [h.wr]
  cases hr : s.readyPipes with
  | nil => rw [hr] at he; simp at he
  | cons a l => rfl

theorem sendPrep_fields (s : State) (k p : Nat) (r : Int) :
    (sendPrep s k p r).readable = s.readable ∧ (sendPrep s k p r).ctx = s.ctx ∧
    (sendPrep s k p r).readyPipes = s.readyPipes.erase p ∧
    (sendPrep s k p r).writable = if (s.readyPipes.erase p).isEmpty then false else s.writable := by
  by_cases hE : (s.readyPipes.erase p).isEmpty = true <;> by_cases hr : r > 0 <;>
    simp [sendPrep, setPipe, hE, hr]

theorem poll_sendPrep_w {s : State} (hrd : s.readable = (s.ctx 0).repMsg.isSome) (k p : Nat)
    (hwr : (s.readyPipes.erase p).isEmpty = false → s.writable = true) (r : Int) : PollInv (sendPrep s k p r) := by
  obtain ⟨e1, e2, e3, e4⟩ := sendPrep_fields s k p r
  exact poll_erase hrd p hwr e1 (by rw [e2]) e3 (by rw [e3]; exact e4)

theorem poll_sendPrep {s : State} (h : PollInv s) (k p : Nat) (r : Int) : PollInv (sendPrep s k p r) :=
  poll_sendPrep_w h.rd k p (weak_of_poll h p) r

theorem pv_wire (s : State) (w : List (Nat × Nat × Bytes)) : pv { s with wire := w } = pv s := rfl

theorem poll_sendOne_w {s : State} (hrd : s.readable = (s.ctx 0).repMsg.isSome) (k p : Nat)
    (hwr : (s.readyPipes.erase p).isEmpty = false → s.writable = true) : PollInv (sendOne s k p).1 := by
  have h1 := poll_sendPrep_w hrd k p hwr (s.ctx k).retry
  have ec : (sendPrep s k p (s.ctx k).retry).ctx = s.ctx := (sendPrep_fields ..).2.1
  unfold sendOne
  dsimp only
  generalize sendPrep s k p (s.ctx k).retry = s1 at h1 ec ⊢
  split
  · exact poll_flag h1 _
  · rename_i hh _
    refine poll_of_pv ?_ h1
    have e2 : pw (wireIndex (setPipe (tranClone s1 hh) p { (tranClone s1 hh).pipe p with busy := some hh })
        (s.ctx k).requestId).1 = pw s1 := by
      rw [pw_wireIndex, pw_setPipe, pw_tranClone]
    refine (pv_wire _ _).trans ((pv_setCtx _ k _ ?_).trans (pv_of_pw e2))
    intro hk
    rw [ctx_of_pw e2, ec, hk]

theorem poll_sendOne {s : State} (h : PollInv s) (k p : Nat) : PollInv (sendOne s k p).1 :=
  poll_sendOne_w h.rd k p (weak_of_poll h p)

theorem poll_runQ (fuel : Nat) {s : State} (h : PollInv s) : PollInv (runQ fuel s).1 := by
  induction fuel generalizing s with
  | zero => exact h
  | succ n ih =>
    unfold runQ
    split
    · exact ih (poll_sendOne h _ _)
    · exact h

theorem poll_runSendQueue {s : State} (h : PollInv s) : PollInv (runSendQueue s).1 := poll_runQ _ h

/-- the only ready pipe is taken by the head of the send queue: whatever the send pollable was,
    it is right afterwards -/
theorem poll_runQ_one (n : Nat) {s : State} {k p : Nat} {t : List Nat} (hq : s.sendQueue = k :: t)
    (hr : s.readyPipes = [p]) (hrd : s.readable = (s.ctx 0).repMsg.isSome) : PollInv (runQ (n + 1) s).1 := by
  unfold runQ
  split
  · rename_i k1 _ p1 _ e1 e2
    refine poll_runQ _ (poll_sendOne_w hrd k1 p1 ?_)
    intro he
    rw [hr] at e2 he
    cases e2
    simp at he
  · rename_i hno
    exact absurd hr (hno _ _ _ _ hq)

/-! ### req0_ctx_reset -/

/-- req0_ctx_reset up to the point where the pollable is looked at -/
def resetHead (s : State) (k : Nat) : State :=
  let c := s.ctx k
  let s := { s with retryQueue := s.retryQueue.erase k, pipe := unlist s k, sendQueue := s.sendQueue.erase k }
  let s := if c.requestId != 0 then { s with idmap := upd s.idmap c.requestId none } else s
  match c.reqMsg with
  | some h => ctxRelease s h
  | none => s

/-- the rest: the pollable is lowered for a stashed reply of context 0, the context is wiped -/
def resetTail (s : State) (c : Ctx) (k : Nat) : State :=
  let s := if c.repMsg.isSome && k == 0 then { s with readable := false } else s
  setCtx s k { c with requestId := 0, reqMsg := none, repMsg := none, connReset := false,
                      wired := false, wireCount := 0, everRetry := false }

theorem ctxReset_split (s : State) (k : Nat) : ctxReset s k = resetTail (resetHead s k) (s.ctx k) k := rfl

theorem pw_resetHead (s : State) (k : Nat) : pw (resetHead s k) = pw s := by
  unfold resetHead
  dsimp only
  cases (s.ctx k).reqMsg with
  | none => dsimp only; split <;> rfl
  | some h => dsimp only; rw [pw_ctxRelease]; split <;> rfl

theorem poll_resetTail {s : State} (h : PollInv s) (c : Ctx) (k : Nat)
    (hc : k = 0 → c.repMsg.isSome = (s.ctx 0).repMsg.isSome) : PollInv (resetTail s c k) := by
  unfold resetTail
  dsimp only
  by_cases hk : k = 0
  · subst hk
    have hr := h.rd
    rw [← hc rfl] at hr
    cases hm : c.repMsg.isSome with
    | true =>
      rw [if_pos (by simp)]
      exact ⟨by simp [setCtx], h.wr⟩
    | false =>
      rw [if_neg (by simp)]
      rw [hm] at hr
      exact ⟨by simp [setCtx, hr], h.wr⟩
  · have hf : (c.repMsg.isSome && k == 0) = false := by simp [hk]
    rw [hf, if_neg (by simp)]
    exact poll_of_pv (pv_setCtx _ _ _ (fun e => absurd e hk)) h

theorem poll_ctxReset {s : State} (h : PollInv s) (k : Nat) : PollInv (ctxReset s k) := by
  rw [ctxReset_split]
  refine poll_resetTail (poll_of_pw (pw_resetHead s k) h) _ _ ?_
  intro hk
  rw [ctx_of_pw (pw_resetHead s k), hk]

theorem poll_armTick {s : State} (h : PollInv s) : PollInv (armTick s) := by
  unfold armTick; split <;> exact ⟨h.rd, h.wr⟩

/-! ### req0_pipe_close -/

theorem poll_pipeClosePrep {s : State} (h : PollInv s) (p : Nat) : PollInv (pipeClosePrep s p) := by
  have key : ∀ s0 : State, pw s0 = pw s → PollInv (
      let s1 := setPipe s0 p { s.pipe p with closed := true, busy := none, armed := false }
      let s2 := { s1 with readyPipes := s1.readyPipes.erase p, busyPipes := s1.busyPipes.erase p }
      if s2.readyPipes.isEmpty then { s2 with writable := false } else s2) := by
    intro s0 e0
    have h0 := poll_of_pw e0 h
    dsimp only [setPipe]
    split
    · rename_i he
      exact poll_erase h0.rd p (weak_of_poll h0 p) rfl rfl rfl (if_pos he).symm
    · rename_i he
      exact poll_erase h0.rd p (weak_of_poll h0 p) rfl rfl rfl (if_neg he).symm
  unfold pipeClosePrep
  dsimp only
  cases (s.pipe p).busy with
  | none => exact key s rfl
  | some x => exact key _ (pw_tranRelease s x)

theorem poll_closeOne {s : State} (h : PollInv s) (p k : Nat) : PollInv (closeOne s p k).1 := by
  unfold closeOne
  dsimp only
  have h0 : PollInv (setPipe s p { s.pipe p with ctxs := (s.pipe p).ctxs.erase k }) := poll_of_pw (pw_setPipe ..) h
  generalize setPipe s p { s.pipe p with ctxs := (s.pipe p).ctxs.erase k } = s0 at h0 ⊢
  split
  · split
    · exact poll_ctxReset (poll_setCtx_same h0 _ _) k
    · exact poll_setCtx_same (poll_ctxReset h0 k) _ _
  · have h1 : PollInv (setCtx s0 k { s0.ctx k with retryTime := s0.now + (s0.ctx k).retry.toNat }) :=
      poll_setCtx_same h0 _ _
    split
    · split
      · exact h1
      · exact poll_runSendQueue ⟨h1.rd, h1.wr⟩
    · exact h0

theorem poll_closeLoop (fuel : Nat) {s : State} (h : PollInv s) (p : Nat) : PollInv (closeLoop fuel s p).1 := by
  induction fuel generalizing s with
  | zero => exact h
  | succ n ih =>
    unfold closeLoop
    split
    · exact h
    · exact ih (poll_closeOne h p _)

theorem poll_pipeClose {s : State} (h : PollInv s) (p : Nat) : PollInv (pipeClose s p).1 := by
  unfold pipeClose
  split
  · exact h
  · exact poll_closeLoop _ (poll_pipeClosePrep h p) p

/-! ### req0_send_cb: the one callback that needs the drained send queue -/

theorem poll_sendCb {s : State} (h : PollInv s) (hD : Dr s) (p : Nat) : PollInv (sendCb s p).1 := by
  unfold sendCb
  split
  · exact h
  · dsimp only
    by_cases he : s.sendQueue.isEmpty = true
    · rw [if_pos he]
      exact poll_runSendQueue ⟨h.rd, by simp⟩
    · rw [if_neg he]
      obtain ⟨k, t, hq⟩ : ∃ k t, s.sendQueue = k :: t := by
        cases hq : s.sendQueue with
        | nil => rw [hq] at he; exact absurd rfl he
        | cons k t => exact ⟨k, t, rfl⟩
      have hr : s.readyPipes = [] := by
        rcases hD with e | e
        · rw [hq] at e; cases e
        · exact e
      have hl : s.sendQueue.length = t.length + 1 := by rw [hq]; rfl
      unfold runSendQueue
      dsimp only
      rw [hl]
      exact poll_runQ_one _ hq (by show s.readyPipes ++ [p] = [p]; rw [hr]; rfl) h.rd

/-! ### req0_recv_cb, req0_retry_cb -/

theorem pw_acceptPrep (s : State) (k : Nat) : pw (acceptPrep s k) = pw s := by
  unfold acceptPrep
  dsimp only
  cases (s.ctx k).reqMsg with
  | none => rfl
  | some h => dsimp only; rw [pw_ctxRelease]; rfl

theorem poll_acceptPrep {s : State} (h : PollInv s) (k : Nat) : PollInv (acceptPrep s k) :=
  poll_of_pw (pw_acceptPrep s k) h

/-- a reply is stashed in (`b = true`) or taken out of (`b = false`) context `k`; the receive
    pollable follows if it is the socket's own context -/
theorem poll_restash {s : State} (h : PollInv s) (k : Nat) (c : Ctx) (b : Bool) (hc : c.repMsg.isSome = b := by rfl) :
    PollInv (if (k == 0) = true then { setCtx s k c with readable := b } else setCtx s k c) := by
  by_cases hk : k = 0
  · subst hk
    rw [if_pos (by simp)]
    exact ⟨by simp [setCtx, hc], h.wr⟩
  · rw [if_neg (by simp [hk])]
    exact poll_of_pv (pv_setCtx _ _ _ (fun e => absurd e hk)) h

theorem pv_idmap (s : State) (m : Nat → Option Nat) : pv { s with idmap := m } = pv s := rfl
theorem pv_idmap_accepted (s : State) (m : Nat → Option Nat) (l : List Nat) :
    pv { s with idmap := m, accepted := l } = pv s := rfl
theorem pv_sendQueue (s : State) (q : List Nat) : pv { s with sendQueue := q } = pv s := rfl

theorem poll_recvCb {s : State} (h : PollInv s) (iid? : Option Nat) (body : Bytes) :
    PollInv (recvCb s iid? body).1 := by
  unfold recvCb
  split
  · exact h
  · split
    · exact h
    · dsimp only
      split
      · exact h
      · rename_i k _ _
        have h1 := poll_acceptPrep h k
        have ec : (acceptPrep s k).ctx = s.ctx := ctx_of_pw (pw_acceptPrep s k)
        generalize acceptPrep s k = s1 at h1 ec ⊢
        split
        · refine poll_of_pv ((pv_setCtx _ k _ ?_).trans (pv_idmap_accepted _ _ _)) h1
          intro hk
          show (s.ctx k).repMsg.isSome = (s1.ctx 0).repMsg.isSome
          rw [ec, hk]
        · exact poll_restash (poll_of_pv (pv_idmap_accepted s1 _ _) h1) k _ true

theorem poll_retryPrep {s : State} (h : PollInv s) : PollInv (retryPrep s) := by
  unfold retryPrep
  dsimp only
  split
  · exact poll_armTick ⟨h.rd, h.wr⟩
  · exact ⟨h.rd, h.wr⟩

theorem poll_retryCb {s : State} (h : PollInv s) : PollInv (retryCb s).1 := by
  unfold retryCb
  split
  · exact h
  · split
    · exact poll_runSendQueue (poll_retryPrep h)
    · exact poll_retryPrep h

/-! ### user operations -/

theorem pv_dropSend (s : State) (k : Nat) : pv (dropSend s k) = pv s := by
  unfold dropSend
  dsimp only
  cases (s.ctx k).reqMsg with
  | none =>
    dsimp only
    exact (pv_sendQueue _ _).trans (pv_setCtx_same s k _ rfl)
  | some h =>
    dsimp only
    refine (pv_sendQueue _ _).trans ((pv_setCtx_same _ k _ ?_).trans (pv_of_pw (pw_giveBack s h)))
    rw [ctx_of_pw (pw_giveBack s h)]

theorem poll_dropSend {s : State} (h : PollInv s) (k : Nat) : PollInv (dropSend s k) := poll_of_pv (pv_dropSend s k) h

theorem poll_finiChain {s : State} (h : PollInv s) (k e : Nat) : PollInv (finiChain s k e).1 := by
  unfold finiChain
  dsimp only
  apply poll_ctxReset
  cases (s.ctx k).recvAio with
  | none =>
    dsimp only
    cases (s.ctx k).sendAio with
    | none => exact h
    | some ua => exact poll_dropSend h k
  | some ra =>
    dsimp only
    have h1 : PollInv (setCtx s k { s.ctx k with recvAio := none }) := poll_setCtx_same h _ _
    cases ((setCtx s k { s.ctx k with recvAio := none }).ctx k).sendAio with
    | none => exact h1
    | some ua => exact poll_dropSend h1 k

theorem poll_ctxSendPrep {s : State} (h : PollInv s) (k : Nat) : PollInv (ctxSendPrep s k).1 :=
  poll_finiChain h k Err.ecanceled

theorem pw_armTick (s : State) : pw (armTick s) = pw s := by
  unfold armTick; split <;> rfl

theorem pw_installPrep (s : State) (k id : Nat) (body : Bytes) (b : Bool) : pw (installPrep s k id body b) = pw s := by
  unfold installPrep
  dsimp only
  split
  · split
    · rw [pw_armTick]; rfl
    · rfl
  · rfl

theorem poll_installPrep {s : State} (h : PollInv s) (k id : Nat) (body : Bytes) (b : Bool) :
    PollInv (installPrep s k id body b) := poll_of_pw (pw_installPrep s k id body b) h

theorem poll_installReq {s : State} (h : PollInv s) (k a : Nat) (m : WMsg) (mode : Mode) (id : Nat) :
    PollInv (installReq s k a m mode id) := by
  unfold installReq
  dsimp only
  have e1 := pw_installPrep s k id m.body (decide ((s.ctx k).retry > 0))
  refine poll_of_pv ((pv_setCtx _ k _ ?_).trans ((pv_idmap _ _).trans (pv_of_pw e1))) h
  intro hk
  show (s.ctx k).repMsg.isSome = ((installPrep s k id m.body (decide ((s.ctx k).retry > 0))).ctx 0).repMsg.isSome
  rw [ctx_of_pw e1, hk]

theorem poll_ctxSend {s : State} (h : PollInv s) (k a : Nat) (m : WMsg) (mode : Mode) :
    PollInv (ctxSend s k a m mode).1 := by
  unfold ctxSend
  split
  · exact h
  · dsimp only
    have hr := poll_ctxSendPrep h k
    generalize ctxSendPrep s k = r at hr ⊢
    have h1 : PollInv { r.1 with nalloc := r.1.nalloc + 1 } := ⟨hr.rd, hr.wr⟩
    split
    · exact h1
    · have h2 := poll_installReq h1 k a m mode (r.1.nalloc + 1)
      exact poll_runSendQueue ⟨h2.rd, h2.wr⟩

theorem poll_ctxRecv {s : State} (h : PollInv s) (k a : Nat) (mode : Mode) : PollInv (ctxRecv s k a mode).1 := by
  unfold ctxRecv
  dsimp only
  split
  · split
    · exact poll_setCtx_same h _ _
    · exact h
  · split
    · split
      · exact h
      · exact poll_setCtx_same h _ _
    · exact poll_restash h k _ false

theorem poll_cancelSend {s : State} (h : PollInv s) (k rv : Nat) : PollInv (cancelSend s k rv).1 := by
  unfold cancelSend
  split
  · exact poll_ctxReset (poll_dropSend h k) k
  · exact h

theorem poll_cancelRecv {s : State} (h : PollInv s) (k rv : Nat) : PollInv (cancelRecv s k rv).1 := by
  unfold cancelRecv
  split
  · exact h
  · dsimp only
    apply poll_ctxReset
    cases (s.ctx k).sendAio with
    | none => exact poll_setCtx_same h _ _
    | some ua => exact poll_setCtx_same (poll_dropSend h k) _ _

theorem poll_ctxFini {s : State} (h : PollInv s) (k : Nat) : PollInv (ctxFini s k).1 := by
  have e : ctxFini s k = (setCtx (finiChain s k Err.eclosed).1 k
      { (finiChain s k Err.eclosed).1.ctx k with live := false }, (finiChain s k Err.eclosed).2) := rfl
  rw [e]
  exact poll_setCtx_same (poll_finiChain h k Err.eclosed) _ _

theorem poll_expireOne {s : State} (h : PollInv s) (k : Nat) : PollInv (expireOne s k).1 := by
  unfold expireOne
  dsimp only
  have h1 : PollInv (if dueAio s.now (s.ctx k).recvAio = true then cancelRecv s k Err.etimedout else (s, [])).1 := by
    split
    · exact poll_cancelRecv h _ _
    · exact h
  generalize (if dueAio s.now (s.ctx k).recvAio = true then cancelRecv s k Err.etimedout else (s, [])) = r1 at h1 ⊢
  split
  · exact poll_cancelSend h1 _ _
  · exact h1

theorem poll_foldSteps (ks : List Nat) (f : State → Nat → State × List Out)
    (hf : ∀ s k, PollInv s → PollInv (f s k).1) {s : State} (h : PollInv s) : PollInv (foldSteps ks f s).1 :=
  foldSteps_ind PollInv ks f hf h

theorem poll_advance {s : State} (h : PollInv s) (ms : Nat) : PollInv (advance s ms).1 := by
  unfold advance
  dsimp only
  have h0 : PollInv { s with now := s.now + ms } := ⟨h.rd, h.wr⟩
  have h1 := poll_foldSteps ctxKeys expireOne (fun s k hs => poll_expireOne hs k) h0
  generalize foldSteps ctxKeys expireOne { s with now := s.now + ms } = r at h1 ⊢
  split
  · split
    · exact poll_retryCb ⟨h1.rd, h1.wr⟩
    · exact h1
  · exact h1

/-! ### harness events -/

theorem poll_sockRetry {s : State} (h : PollInv s) (v : Int) : PollInv { s with sockRetry := v } := ⟨h.rd, h.wr⟩


theorem poll_step {s : State} (h : PollInv s) (hD : Dr s) (ev : Ev) : PollInv (step s ev).1 := by
  unfold step
  split
  · split
    · split
      · exact h
      · refine ⟨?_, h.wr⟩
        show s.readable = (upd s.ctx 0 _ 0).repMsg.isSome
        rw [upd_same]; exact h.rd
    · exact ⟨h.rd, h.wr⟩
    · exact h
  · split
    · split
      · exact ⟨h.rd, h.wr⟩
      · exact h
    · split
      · exact h
      · dsimp only
        split
        · exact ⟨h.rd, h.wr⟩
        · exact poll_runSendQueue ⟨h.rd, by simp [setPipe]⟩
      · split
        · exact poll_pipeClose h _
        · exact h
      · split
        · split
          · dsimp only
            have h1 : ∀ hh p pp, PollInv (setPipe (tranRelease s hh) p pp) := by
              intro hh p pp
              exact poll_of_pw ((pw_setPipe ..).trans (pw_tranRelease s hh)) h
            have hD1 : ∀ hh p pp, Dr (setPipe (tranRelease s hh) p pp) := by
              intro hh p pp
              have e1 : pw (setPipe (tranRelease s hh) p pp) = pw s := (pw_setPipe ..).trans (pw_tranRelease s hh)
              have er : (setPipe (tranRelease s hh) p pp).readyPipes = s.readyPipes := congrArg (·.2.2.2) e1
              have hq : (setPipe (tranRelease s hh) p pp).sendQueue = s.sendQueue := by
                simp only [tranRelease, setPipe, setMsg, flag]; (repeat' split) <;> rfl
              unfold Dr
              rw [hq, er]
              exact hD
            split
            · exact poll_pipeClose (h1 _ _ _) _
            · exact poll_sendCb (h1 _ _ _) (hD1 _ _ _) _
          · exact h
        · exact h
      · split
        · dsimp only
          split
          · exact poll_pipeClose (poll_of_pw (pw_setPipe ..) h) _
          · split
            · exact poll_pipeClose (poll_of_pw (pw_setPipe ..) h) _
            · exact poll_recvCb (poll_of_pw (pw_setPipe ..) (poll_of_pw (pw_setPipe ..) h)) _ _
        · exact h
      · split
        · exact h
        · split
          · exact h
          · split
            · exact h
            · exact poll_ctxSend h _ _ _ _
      · split
        · exact h
        · split
          · exact h
          · split
            · exact h
            · exact poll_ctxRecv h _ _ _
      · split
        · exact poll_cancelRecv h _ _
        · exact poll_cancelSend h _ _
        · exact h
      · split
        · exact poll_cancelRecv h _ _
        · exact poll_cancelSend h _ _
        · exact h
      · exact poll_advance h _
      · split
        · exact h
        · split
          · exact h
          · refine poll_of_pv (pv_setCtx _ _ _ ?_) h
            intro e; cases e
      · split
        · exact h
        · split
          · exact poll_ctxFini h _
          · exact h
      · dsimp only
        (repeat' split) <;> first
          | exact h
          | exact ⟨h.rd, h.wr⟩
          | exact poll_setCtx_same h _ _
          | exact poll_setCtx_same (poll_sockRetry h _) _ _
      · (repeat' split) <;> exact h
      · exact h
      · exact h
      · exact h
      · dsimp only
        have h1 := poll_foldSteps ((List.range nCtxSlots).map (· + 1))
          (fun s k => if (s.ctx k).live then ctxFini s k else (s, []))
          (fun s k hs => by split; exact poll_ctxFini hs k; exact hs) h
        generalize foldSteps ((List.range nCtxSlots).map (· + 1))
          (fun s k => if (s.ctx k).live then ctxFini s k else (s, [])) s = r1 at h1 ⊢
        have h2 := poll_foldSteps (List.range r1.1.npipes) pipeClose (fun s k hs => poll_pipeClose hs k) h1
        generalize foldSteps (List.range r1.1.npipes) pipeClose r1.1 = r2 at h2 ⊢
        have h3 : PollInv { r2.1 with sClosed := true, tickAt := none } := ⟨h2.rd, h2.wr⟩
        have h4 := poll_ctxFini h3 0
        exact ⟨h4.rd, h4.wr⟩

theorem poll_reachable (evs : List Ev) : PollInv (run {} evs).1 := by
  suffices ∀ s, PollInv s → Dr s → PollInv (run s evs).1 from this {} poll_init (Or.inl rfl)
  induction evs with
  | nil => intro s h _; exact h
  | cons e es ih => intro s h hD; unfold run; exact ih _ (poll_step h hD e) (dr_step s e hD)

end Nng.Req
