/- the counting invariant is kept by the poller's own transitions, hence by every step of a
   contract-respecting run -/
import NngModel.Proofs.PfdCountInv
namespace Nng.Pfd
open Nng.PfdSpec

theorem counts_congr {s s' : State} (hlen : s'.cs.length = s.cs.length)
    (hb : ∀ u, indBusy (frameOf s' u) = indBusy (frameOf s u))
    (hst : ∀ u, indStop (frameOf s' u) (opOf s' u) = indStop (frameOf s u) (opOf s u)) :
    busyCount s' = busyCount s ∧ stopCount s' = stopCount s := by
  unfold busyCount stopCount
  rw [hlen]
  exact ⟨tsum_congr _ _ _ hb, tsum_congr _ _ _ hst⟩

theorem harvest_pfd_mem (g : G) (r : Evs) (w : Bool) (m : Evs) (h : BEv.pfd m ∈ harvest g r w) :
    m = deliver r g.mask ∧ (harvest g r w).any BEv.isPfd = true := by
  have hsh := harvest_shape g r w
  simp only at hsh
  rw [hsh] at h ⊢
  cases hr : g.reg <;> cases hen : g.en <;> by_cases he : 0 < g.evfd <;>
    by_cases hpe : (deliver r g.mask).isEmpty = true <;> cases w <;>
    simp_all [Evs.none_isEmpty, BEv.isPfd]

theorem afterEntry_ne_cbBegin (p : Poller) : afterEntry p ≠ .cbBegin := by
  unfold afterEntry
  (repeat' split) <;> simp

/-- frames and calls of the threads across a transition of the poller thread: nothing changes but
    stopSleep -> stopChk (a wake) and the callback's fresh script (its frame is idle) -/
theorem poll_threads {s s' : State} {ready : Evs} {wf : Bool} (hs : SInv s) (r : PollRel s ready wf s') :
    s'.cs.length = s.cs.length ∧
    (∀ u, frameOf s' u = frameOf s u ∨ (frameOf s u = .stopSleep ∧ frameOf s' u = .stopChk)) ∧
    (∀ u, opOf s' u = opOf s u ∨ (u = .p ∧ frameOf s u = .idle ∧ frameOf s' u = .idle)) := by
  have hidle : opOf s .p = none → s.p.frame = .idle := hs.pIdle
  have h3 := hs.notCb
  cases r with
  | harvest hpc hne => exact ⟨rfl, fun u => Or.inl (by simp only [frameOf_eq]), fun u => Or.inl (by simp only [opOf_eq])⟩
  | dispNil hpc hb => exact ⟨rfl, fun u => Or.inl (by simp only [frameOf_eq]), fun u => Or.inl (by simp only [opOf_eq])⟩
  | dispWake rest hpc hb => exact ⟨rfl, fun u => Or.inl (by simp only [frameOf_eq]), fun u => Or.inl (by simp only [opOf_eq])⟩
  | dispPfd m rest hpc hb => exact ⟨rfl, fun u => Or.inl (by simp only [frameOf_eq]), fun u => Or.inl (by simp only [opOf_eq])⟩
  | cbBegin hpc =>
    have hpf : s.p.frame = .idle := hidle (h3 (by rw [hpc]; decide))
    refine ⟨rfl, fun u => Or.inl (by simp only [frameOf_eq, hpf]), ?_⟩
    intro u
    cases u with
    | p => right; exact ⟨rfl, by simp [frameOf, hpf], by simp [frameOf]⟩
    | c i => left; simp [opOf]
  | cbEnd hpc hr =>
    have hpf : s.p.frame = .idle := hidle (by simp [opOf, hr])
    exact ⟨rfl, fun u => Or.inl (by simp only [frameOf_eq, hpf]), fun u => Or.inl (by simp only [opOf_eq])⟩
  | reap hpc hm =>
    have hpf : s.p.frame = .idle := hidle (h3 (by rw [hpc]; decide))
    refine ⟨by simp, ?_, fun u => Or.inl (by simp only [opOf_eq, opOfAux_wake])⟩
    intro u
    have hw := frameOfAux_wake s.cs u
    simp only [frameOf_eq, hpf]
    by_cases hsl : frameOfAux s.cs .idle u = .stopSleep
    · right; exact ⟨hsl, by rw [hw, if_pos hsl]⟩
    · left; rw [hw, if_neg hsl]

theorem ind_of_threads {s s' : State}
    (hf : ∀ u, frameOf s' u = frameOf s u ∨ (frameOf s u = .stopSleep ∧ frameOf s' u = .stopChk))
    (ho : ∀ u, opOf s' u = opOf s u ∨ (u = .p ∧ frameOf s u = .idle ∧ frameOf s' u = .idle)) :
    (∀ u, indBusy (frameOf s' u) = indBusy (frameOf s u)) ∧
    (∀ u, indStop (frameOf s' u) (opOf s' u) = indStop (frameOf s u) (opOf s u)) := by
  refine ⟨fun u => ?_, fun u => ?_⟩
  · rcases hf u with h | ⟨h1, h2⟩
    · rw [h]
    · simp [indBusy, h1, h2]
  · rcases ho u with ho | ⟨_, h1, h2⟩
    · rw [ho]
      rcases hf u with h | ⟨h1, h2⟩
      · rw [h]
      · simp [indStop, h1, h2]
    · simp [indStop, h1, h2]

theorem compat_of_threads {s s' : State} (hc : CInv s)
    (hf : ∀ u, frameOf s' u = frameOf s u ∨ (frameOf s u = .stopSleep ∧ frameOf s' u = .stopChk))
    (ho : ∀ u, opOf s' u = opOf s u ∨ (u = .p ∧ frameOf s u = .idle ∧ frameOf s' u = .idle)) :
    ∀ t op, opOf s' t = some op → compat (frameOf s' t) op := by
  intro t op h
  rcases ho t with ho | ⟨_, _, h2⟩
  · rw [ho] at h
    have := hc.compatF t op h
    rcases hf t with hf | ⟨h1, h2⟩
    · rw [hf]; exact this
    · rw [h1] at this; rw [h2]; exact this
  · rw [h2]; trivial

set_option maxHeartbeats 800000 in
theorem cinv_poll {s s' : State} {ready : Evs} {wf : Bool} (hs : SInv s) (hc : CInv s) (r : PollRel s ready wf s') : CInv s' := by
  obtain ⟨hlen, hf, ho⟩ := poll_threads hs r
  obtain ⟨hib, hist⟩ := ind_of_threads hf ho
  obtain ⟨hbc, hsc⟩ := counts_congr hlen hib hist
  have hcompat := compat_of_threads hc hf ho
  obtain ⟨c1, c2, c3, c4, c5, c6, c7, c8, c9, c10, c11, c12, c13, c14, c15⟩ := hc
  have hwb := hs.waitB
  cases r with
  | harvest hpc hne =>
    have hm := harvest_pfd_mem s.g ready wf
    refine ⟨hcompat, ?_, ?_, c4, c5, c6, c7, c8, c9, ?_, ?_, ?_, ?_, ?_, ?_⟩ <;> (try simp only [hbc, hsc]) <;> (try assumption)
    · intro m hmem
      have := hm m hmem
      simp [this.1, this.2]
    · intro h; cases h
  | dispNil hpc hb =>
    refine ⟨hcompat, ?_, ?_, c4, c5, c6, c7, c8, c9, ?_, ?_, ?_, ?_, c14, ?_⟩ <;> (try simp only [hbc, hsc]) <;> (try assumption)
    intro h; exact absurd h (afterEntry_ne_cbBegin _)
  | dispWake rest hpc hb =>
    refine ⟨hcompat, ?_, ?_, c4, c5, c6, c7, c8, c9, ?_, ?_, ?_, ?_, ?_, ?_⟩ <;> (try simp only [hbc, hsc]) <;> (try assumption)
    · intro m hmem; exact c14 m (by rw [hb]; exact List.mem_cons_of_mem _ hmem)
    · intro h; exact absurd h (afterEntry_ne_cbBegin _)
  | dispPfd m rest hpc hb =>
    refine ⟨hcompat, ?_, ?_, c4, c5, c6, c7, c8, c9, ?_, ?_, ?_, ?_, ?_, ?_⟩ <;> (try simp only [hbc, hsc]) <;> (try assumption)
    · intro m' hmem; exact c14 m' (by rw [hb]; exact List.mem_cons_of_mem _ hmem)
    · intro _; exact c14 m (by rw [hb]; exact List.mem_cons_self)
  | cbBegin hpc =>
    refine ⟨hcompat, ?_, ?_, c4, c5, c6, c7, c8, c9, ?_, ?_, ?_, ?_, c14, ?_⟩ <;> (try simp only [hbc, hsc]) <;> (try assumption)
    intro h; cases h
  | cbEnd hpc hr =>
    refine ⟨hcompat, ?_, ?_, c4, c5, c6, c7, c8, c9, ?_, ?_, ?_, ?_, c14, ?_⟩ <;> (try simp only [hbc, hsc]) <;> (try assumption)
    intro h; exact absurd h (afterEntry_ne_cbBegin _)
  | reap hpc hm =>
    refine ⟨hcompat, ?_, ?_, c4, c5, c6, c7, c8, c9, ?_, ?_, ?_, ?_, c14, ?_⟩ <;> (try simp only [hbc, hsc]) <;> (try assumption)
    intro h; cases h

theorem cinv_step {s : State} (hs : SInv s) (hk : KInv s) (hc : CInv s) (ch : Choice) (hal : allowed s ch = true) :
    CInv (step s ch) := by
  rcases step_cases s ch with e | ⟨f, op, r⟩ | r
  · rw [e]; exact hc
  · exact cinv_call hs hk hc r (fun hf => by subst hf; exact allowed_call r hal) (call_cur r).1
  · exact cinv_poll hs hc r

end Nng.Pfd
