/-
  C08, receive liveness of the PAIR machine (all variants): at the end of every step the attached
  pipe has its receive posted, unless a message is parked in it (`rd_ready`) — `Served`; and a
  message is parked only by an arrival that finds the receive buffer full — `recv_full`.
  These are the model facts behind the judge clause `pairLive` (Spec/Pair.lean).
-/
import NngModel.Proofs.PairStep
namespace Nng.Pair0
open Nng Nng.Proto List

/-- the attached pipe exists, and it is being read unless a message is parked in it -/
def Served (s : State) : Prop :=
  s.closed = false → ∀ p, s.cur = some p → ∃ pp ∈ s.pipes, pp.id = p ∧ (s.rdReady = true ∨ pp.armed = true)

/-- `Served`, except possibly for pipe `p` -/
def ServedBut (s : State) (p : Nat) : Prop :=
  s.closed = false → ∀ q, s.cur = some q → q ≠ p → ∃ pp ∈ s.pipes, pp.id = q ∧ (s.rdReady = true ∨ pp.armed = true)

theorem served_init : Served ({} : State) := by intro _ p h; simp at h

theorem Served.but {s : State} (h : Served s) (p : Nat) : ServedBut s p := fun hc q hq _ => h hc q hq

theorem servedBut_of_cur {s : State} {p : Nat} (h : s.cur = some p) : ServedBut s p := by
  intro _ q hq hne; rw [h] at hq; exact absurd (Option.some.inj hq).symm hne

/-- nothing that matters for `Served` got worse -/
def Keep (s s' : State) : Prop :=
  s'.closed = s.closed ∧ s'.cur = s.cur ∧ s'.rdReady = s.rdReady ∧
  ∀ pp ∈ s.pipes, ∃ pp' ∈ s'.pipes, pp'.id = pp.id ∧ (pp.armed = true → pp'.armed = true)

theorem Keep.refl (s : State) : Keep s s := ⟨rfl, rfl, rfl, fun pp h => ⟨pp, h, rfl, fun h => h⟩⟩

theorem Keep.trans {a b c : State} (h1 : Keep a b) (h2 : Keep b c) : Keep a c := by
  obtain ⟨a1, a2, a3, a4⟩ := h1
  obtain ⟨b1, b2, b3, b4⟩ := h2
  refine ⟨b1.trans a1, b2.trans a2, b3.trans a3, ?_⟩
  intro pp hpp
  obtain ⟨q, hq, hid, ha⟩ := a4 pp hpp
  obtain ⟨r, hr, hid2, ha2⟩ := b4 q hq
  exact ⟨r, hr, hid2.trans hid, fun h => ha2 (ha h)⟩

theorem Keep.served {s s' : State} (hk : Keep s s') (h : Served s) : Served s' := by
  obtain ⟨k1, k2, k3, k4⟩ := hk
  intro hc p hp
  rw [k1] at hc; rw [k2] at hp
  obtain ⟨pp, hm, hid, hor⟩ := h hc p hp
  obtain ⟨pp', hm', hid', ha⟩ := k4 pp hm
  refine ⟨pp', hm', hid'.trans hid, ?_⟩
  rcases hor with h | h
  · left; rw [k3]; exact h
  · right; exact ha h

/-- the state differs only in fields that `Served` does not read -/
theorem keep_of_eq {s s' : State} (h1 : s'.closed = s.closed) (h2 : s'.cur = s.cur) (h3 : s'.rdReady = s.rdReady)
    (h4 : s'.pipes = s.pipes) : Keep s s' :=
  ⟨h1, h2, h3, fun pp h => ⟨pp, h4 ▸ h, rfl, fun h => h⟩⟩

theorem mem_modPipe_fwd (s : State) (p : Nat) (f : Pipe → Pipe) {q : Pipe} (hq : q ∈ s.pipes) :
    (if q.id == p then f q else q) ∈ (modPipe s p f).pipes := by
  simp only [modPipe]
  exact List.mem_map.2 ⟨q, hq, rfl⟩

/-- a pipe update that keeps ids and never disarms -/
theorem keep_modPipe (s : State) (p : Nat) (f : Pipe → Pipe) (hid : ∀ q, (f q).id = q.id)
    (ha : ∀ q, q.armed = true → (f q).armed = true) : Keep s (modPipe s p f) := by
  refine ⟨rfl, rfl, rfl, ?_⟩
  intro pp hpp
  refine ⟨_, mem_modPipe_fwd s p f hpp, ?_, ?_⟩
  · split
    · exact hid pp
    · rfl
  · intro h; split
    · exact ha pp h
    · exact h

theorem pipeSend_keep (V : Variant) (s : State) (p : Nat) (gm : GMsg) : Keep s (pipeSend V s p gm).1 := by
  unfold pipeSend
  simp only
  exact (keep_modPipe s p (fun pp => { pp with busy := some ⟨gm.gid, V.txWire gm.m⟩ }) (fun _ => rfl)
    (fun _ h => h)).trans (keep_of_eq rfl rfl rfl rfl)

theorem sendSchedBody_keep (V : Variant) (s : State) (p : Nat) : Keep s (sendSchedBody V s p).1 := by
  unfold sendSchedBody
  split
  · rename_i m rest hw
    have h0 : Keep s { s with wmq := rest } := keep_of_eq rfl rfl rfl rfl
    have h1 := h0.trans (pipeSend_keep V { s with wmq := rest } p m)
    generalize pipeSend V { s with wmq := rest } p m = r at h1 ⊢
    obtain ⟨s1, o1⟩ := r
    simp only []
    split
    · exact h1.trans (keep_of_eq (by simp [wmqPutUnchecked]) (by simp [wmqPutUnchecked])
        (by simp [wmqPutUnchecked]) (by simp [wmqPutUnchecked]))
    · exact h1
  · split
    · rename_i a arest hw
      have h0 : Keep s { s with waq := arest, accepted := s.accepted ++ [a.msg] } := keep_of_eq rfl rfl rfl rfl
      have h1 := h0.trans (pipeSend_keep V { s with waq := arest, accepted := s.accepted ++ [a.msg] } p a.msg)
      generalize pipeSend V { s with waq := arest, accepted := s.accepted ++ [a.msg] } p a.msg = r at h1 ⊢
      obtain ⟨s1, o1⟩ := r
      exact h1
    · exact Keep.refl s

theorem sendSched_keep (V : Variant) (s : State) (p : Nat) : Keep s (sendSched V s p).1 := by
  unfold sendSched
  split
  · exact Keep.refl s
  · have h0 : Keep s { s with wrReady := true } := keep_of_eq rfl rfl rfl rfl
    have h1 := h0.trans (sendSchedBody_keep V { s with wrReady := true } p)
    generalize sendSchedBody V { s with wrReady := true } p = r at h1 ⊢
    obtain ⟨s1, o1⟩ := r
    exact h1.trans (keep_of_eq rfl rfl rfl rfl)

theorem failParked_keep (s : State) (a rv : Nat) : Keep s (failParked s a rv).1 := by
  unfold failParked
  split
  · exact keep_of_eq rfl rfl rfl rfl
  · split
    · exact keep_of_eq rfl rfl rfl rfl
    · exact Keep.refl s

theorem failMany_keep (as : List Nat) (rv : Nat) : ∀ (s0 s : State) (o : List Out), Keep s0 s →
    Keep s0 (as.foldl (fun (acc : State × List Out) a =>
      let (s', o') := failParked acc.1 a rv
      (s', acc.2 ++ o')) (s, o)).1 := by
  induction as with
  | nil => intro s0 s o h; exact h
  | cons a as ih =>
    intro s0 s o h
    simp only [List.foldl_cons]
    have := h.trans (failParked_keep s a rv)
    generalize failParked s a rv = r at this ⊢
    obtain ⟨s1, o1⟩ := r
    exact ih s0 s1 _ this

theorem expire_keep (s : State) : Keep s (expire s).1 := by
  unfold expire failMany
  exact failMany_keep _ _ s s [] (Keep.refl s)

theorem parkSend_keep (s : State) (a : Nat) (gm : GMsg) (mode : Mode) : Keep s (parkSend s a gm mode).1 := by
  unfold parkSend
  split <;> exact keep_of_eq rfl rfl rfl rfl

theorem sockSendLocked_keep (V : Variant) (s : State) (a : Nat) (gm : GMsg) (mode : Mode) :
    Keep s (sockSendLocked V s a gm mode).1 := by
  unfold sockSendLocked
  split
  · split
    · rename_i p hc
      simp only
      exact (keep_of_eq rfl rfl rfl rfl).trans (pipeSend_keep V _ p gm)
    · exact keep_of_eq rfl rfl rfl rfl
  · split
    · exact keep_of_eq rfl rfl rfl rfl
    · exact parkSend_keep s a gm mode

theorem sockSend_keep (V : Variant) (s : State) (a : Nat) (m : WMsg) (mode : Mode) :
    Keep s (sockSend V s a m mode).1 := by
  unfold sockSend
  split
  · exact keep_of_eq rfl rfl rfl rfl
  · have h0 : Keep s { s with nsend := s.nsend + 1 } := keep_of_eq rfl rfl rfl rfl
    exact h0.trans (sockSendLocked_keep V _ a _ mode)

/-- arming the attached pipe -/
theorem served_arm {s : State} {p : Nat} (hcur : s.cur = some p) (hex : ∃ pp ∈ s.pipes, pp.id = p) :
    Served (modPipe s p fun pp => { pp with armed := true }) := by
  intro _ q hq
  have hq' : s.cur = some q := hq
  rw [hcur] at hq'
  have hqp : p = q := Option.some.inj hq'
  subst hqp
  obtain ⟨pp, hm, hid⟩ := hex
  refine ⟨_, mem_modPipe_fwd s p _ hm, ?_, ?_⟩
  · simp [hid]
  · right; simp [hid]

/-- a state that agrees with a served one on what `Served` reads -/
theorem served_of_eq {s s' : State} (h : Served s) (h1 : s'.closed = s.closed) (h2 : s'.cur = s.cur)
    (h3 : s'.rdReady = s.rdReady) (h4 : s'.pipes = s.pipes) : Served s' :=
  (keep_of_eq h1 h2 h3 h4).served h

theorem pipeStop_served {s : State} {p : Nat} (h : ServedBut s p) : Served (pipeStop s p) := by
  unfold pipeStop
  split
  · rename_i hc
    have hc' : s.cur ≠ some p := by simpa using hc
    intro hcl q hq
    exact h hcl q hq (fun e => hc' (e ▸ hq))
  · intro _ q hq; simp at hq

theorem closePipe_served {s : State} {p : Nat} {pp : Pipe} (hg : getPipe s p = some pp) (hc : pp.closed = false)
    (h : ServedBut s p) : Served (closePipe s p).1 := by
  unfold closePipe
  simp only [hg, hc, Bool.false_eq_true, if_false]
  apply pipeStop_served
  intro hcl q hq hne
  obtain ⟨pq, hm, hid, hor⟩ := h hcl q hq hne
  have hne' : (pq.id == p) = false := by simpa [hid] using hne
  refine ⟨pq, ?_, hid, hor⟩
  have := mem_modPipe_fwd s p (fun q => { q with closed := true, busy := none, armed := false }) hm
  simpa [hne'] using this

theorem recvCbLocked_served {s : State} {p : Nat} (gm : GMsg) (hcur : s.cur = some p)
    (hex : ∃ pp ∈ s.pipes, pp.id = p) : Served (recvCbLocked s p gm).1 := by
  unfold recvCbLocked
  rw [if_neg (by simp [hcur])]
  split
  · exact served_arm (s := { s with raq := _, delivered := _ }) hcur hex
  · split
    · exact served_of_eq (served_arm (s := { s with rmq := s.rmq ++ [gm] }) hcur hex) rfl rfl rfl rfl
    · intro _ q hq
      have hq' : s.cur = some q := hq
      rw [hcur] at hq'
      obtain ⟨pp, hm, hid⟩ := hex
      exact ⟨pp, hm, hid.trans (Option.some.inj hq'), Or.inl rfl⟩

theorem recvCb_served (V : Variant) {s : State} {p : Nat} {pp : Pipe} (b : Bytes) (hcur : s.cur = some p)
    (hg : getPipe s p = some pp) (hc : pp.closed = false) : Served (recvCb V s p b).1 := by
  have hex : ∃ pp ∈ s.pipes, pp.id = p := ⟨pp, (getPipe_some hg).1, (getPipe_some hg).2⟩
  unfold recvCb
  split
  · have := closePipe_served (s := { s with malformed := s.malformed + 1 }) (p := p) hg hc (servedBut_of_cur hcur)
    generalize closePipe { s with malformed := s.malformed + 1 } p = r at this ⊢
    obtain ⟨s1, o1⟩ := r
    exact this
  · exact served_arm (s := { s with hopDropped := s.hopDropped + 1 }) hcur hex
  · exact recvCbLocked_served _ hcur hex

/-- re-arming the attached pipe of a served state (other fields may change too) -/
theorem served_rearm {s s' : State} {p : Nat} (h : Served s) (hcur : s.cur = some p) (h1 : s'.closed = s.closed)
    (h2 : s'.cur = s.cur) (h4 : s'.pipes = (modPipe s p fun pp => { pp with armed := true }).pipes) : Served s' := by
  intro hcl q hq
  rw [h1] at hcl; rw [h2, hcur] at hq
  have hqp : p = q := Option.some.inj hq
  subst hqp
  obtain ⟨pp, hm, hid, _⟩ := h hcl p hcur
  refine ⟨_, h4 ▸ mem_modPipe_fwd s p _ hm, ?_, ?_⟩
  · simp [hid]
  · right; simp [hid]

theorem sockRecv_served {s : State} (a : Nat) (mode : Mode) (h : Served s) (hi : Inv s) :
    Served (sockRecv s a mode).1 := by
  have h6 := hi.heldRd
  have h7 := hi.rdCur
  unfold sockRecv
  cases hq : s.rmq with
  | cons m rest =>
    by_cases hrd : s.rdReady = true
    · obtain ⟨p, gm, ht, hcp, hhp⟩ := takeHeld_of { s with rmq := rest, delivered := s.delivered ++ [m] }
        (h7 hrd) (by rw [← h6]; exact hrd)
      have hcp' : s.cur = some p := hcp
      have hhp' : s.held = some gm := hhp
      simp only [hrd, if_true, takeHeld, hcp', hhp']
      exact served_rearm h hcp' (by simp [modPipe, rmqPutUnchecked]) (by simp [modPipe, rmqPutUnchecked, hcp'])
        (by simp [modPipe, rmqPutUnchecked])
    · simp only [hrd]
      exact served_of_eq h (by simp) (by simp) (by simpa using hrd) (by simp)
  | nil =>
    by_cases hrd : s.rdReady = true
    · obtain ⟨p, gm, ht, hcp, hhp⟩ := takeHeld_of s (h7 hrd) (by rw [← h6]; exact hrd)
      simp only [hrd, if_true, takeHeld, hcp, hhp]
      exact served_rearm h hcp (by simp [modPipe]) (by simp [modPipe, hcp]) (by simp [modPipe])
    · simp only [hrd, Bool.false_eq_true, ↓reduceIte]
      cases mode with
      | nb => exact h
      | inf => exact served_of_eq h rfl rfl (by simpa using hrd) rfl
      | dflt => exact served_of_eq h rfl rfl (by simpa using hrd) rfl
      | ms n =>
        cases n with
        | zero => exact h
        | succ k => exact served_of_eq h rfl rfl (by simpa using hrd) rfl

theorem pipeStart_served (V : Variant) {s : State} (id peer : Nat) (h : Served s)
    (hex : ∃ pp ∈ s.pipes, pp.id = id) : Served (pipeStart V s id peer).1 := by
  unfold pipeStart
  split
  · exact (keep_modPipe s id (fun pp => { pp with closed := true }) (fun _ => rfl) (fun _ h => h)).served h
  · split
    · exact (keep_modPipe s id (fun pp => { pp with closed := true }) (fun _ => rfl) (fun _ h => h)).served h
    · simp only
      obtain ⟨k1, k2, k3, k4⟩ := sendSched_keep V { s with cur := some id, rdReady := false } id
      obtain ⟨pp, hm, hid⟩ := hex
      obtain ⟨pp', hm', hid', _⟩ := k4 pp hm
      exact served_arm (s := (sendSched V { s with cur := some id, rdReady := false } id).1) k2
        ⟨pp', hm', hid'.trans hid⟩

theorem step_served (V : Variant) (s : State) (ev : Ev) (hA : All V s) (h : Served s) : Served (step V s ev).1 := by
  obtain ⟨hi, hc, hp⟩ := hA
  unfold step
  split
  · split
    · intro _ p hp; simp at hp
    · exact served_of_eq h rfl rfl rfl rfl
    · exact h
  · split
    · split
      · exact served_of_eq h rfl rfl rfl rfl
      · exact h
    · split
      all_goals first
        | exact h
        | exact (failParked_keep _ _ _).served h
        | exact sockRecv_served _ _ h hi
        | exact (sockSend_keep _ _ _ _ _).served h
        | skip
      case h_2 peer =>
        simp only []
        have hk0 : Keep s { s with pipes := s.pipes ++ [{ id := s.pipes.length }] } :=
          ⟨rfl, rfl, rfl, fun pp hpp => ⟨pp, List.mem_append_left _ hpp, rfl, fun h => h⟩⟩
        have h0 : Served { s with pipes := s.pipes ++ [{ id := s.pipes.length }] } := hk0.served h
        have := pipeStart_served V (s := { s with pipes := s.pipes ++ [{ id := s.pipes.length }] }) s.pipes.length peer h0
          ⟨{ id := s.pipes.length }, by simp, rfl⟩
        generalize pipeStart V { s with pipes := s.pipes ++ [{ id := s.pipes.length }] } s.pipes.length peer = r at this ⊢
        obtain ⟨s1, o1⟩ := r
        exact this
      case h_3 p =>
        split
        · rename_i pp hg
          split
          · exact h
          · rename_i hcl
            have hcl' : pp.closed = false := by simpa using hcl
            have := closePipe_served hg hcl' (h.but p)
            generalize closePipe s p = r at this ⊢
            obtain ⟨s1, o1⟩ := r
            exact this
        · exact h
      case h_4 p rv =>
        split
        · rename_i pp hg
          split
          · exact h
          · rename_i hcb
            have hcl : pp.closed = false := by
              cases hx : pp.closed with
              | false => rfl
              | true => simp [hx] at hcb
            split
            · have := closePipe_served hg hcl (h.but p)
              generalize closePipe s p = r at this ⊢
              obtain ⟨s1, o1⟩ := r
              exact this
            · have hk := (keep_modPipe s p (fun q => { q with busy := none }) (fun _ => rfl) (fun _ h => h)).trans
                (sendSched_keep V (modPipe s p fun q => { q with busy := none }) p)
              simp only
              exact hk.served h
        · exact h
      case h_5 p r =>
        split
        · rename_i pp hg
          split
          · exact h
          · rename_i hca
            have hcl : pp.closed = false := by
              cases hx : pp.closed with
              | false => rfl
              | true => simp [hx] at hca
            have har : pp.armed = true := by
              cases hx : pp.armed with
              | true => rfl
              | false => simp [hx] at hca
            obtain ⟨hd, hcur⟩ := armed_facts hp hg hcl har
            have hg0 : getPipe (modPipe s p fun q => { q with armed := false }) p = some { pp with armed := false } := by
              unfold getPipe at hg ⊢
              simp only [modPipe]
              rw [List.find?_map]
              have : (fun q : Pipe => (if q.id == p then { q with armed := false } else q).id == p) = (fun q => q.id == p) := by
                funext q; by_cases hq : q.id = p <;> simp [hq]
              simp only [Function.comp_def, this, hg, Option.map_some, (getPipe_some hg).2, beq_self_eq_true, if_true]
            split
            · have := closePipe_served (s := modPipe s p fun q => { q with armed := false }) hg0 hcl
                (servedBut_of_cur hcur)
              simp only
              exact this
            · rename_i b
              have := recvCb_served V (s := modPipe s p fun q => { q with armed := false }) b hcur hg0 hcl
              simp only
              exact this
        · exact h
      case h_6 => split <;> first | exact h | exact (sockSend_keep _ _ _ _ _).served h
      case h_7 => split <;> first | exact h | exact sockRecv_served _ _ h hi
      case h_10 ms =>
        have h0 : Keep s { s with now := s.now + ms } := keep_of_eq rfl rfl rfl rfl
        exact (h0.trans (expire_keep _)).served h
      case h_13 => split <;> first | exact h | exact served_of_eq h (by simp [setSendBuf]) (by simp [setSendBuf]) (by simp [setSendBuf]) (by simp [setSendBuf])
      case h_14 => split <;> first | exact h | exact served_of_eq h (by simp [setRecvBuf]) (by simp [setRecvBuf]) (by simp [setRecvBuf]) (by simp [setRecvBuf])
      case h_15 =>
        split
        · exact h
        · split
          · exact h
          · exact served_of_eq h rfl rfl rfl rfl
      case h_19 => split <;> exact h
      case h_24 =>
        intro hcl; simp at hcl

theorem any_armed_modPipe {s : State} {p : Nat} (hex : ∃ pp ∈ s.pipes, pp.id = p) :
    (modPipe s p fun pp => { pp with armed := true }).pipes.any (·.armed) = true := by
  obtain ⟨pp, hm, hid⟩ := hex
  rw [List.any_eq_true]
  exact ⟨_, mem_modPipe_fwd s p _ hm, by simp [hid]⟩

theorem closePipe_cur_none {s : State} {p : Nat} {pp : Pipe} (hg : getPipe s p = some pp) (hc : pp.closed = false)
    (hcur : s.cur = some p) : (closePipe s p).1.cur = none := by
  unfold closePipe
  simp only [hg, hc, Bool.false_eq_true, if_false]
  unfold pipeStop
  simp [modPipe, hcur]

theorem armed_any_of_mem {l : List Pipe} {p : Nat} (hex : ∃ pp ∈ l, pp.id = p) :
    (l.map fun q => if q.id == p then { q with armed := true } else q).any (·.armed) = true := by
  obtain ⟨pp, hm, hid⟩ := hex
  rw [List.any_eq_true]
  exact ⟨_, List.mem_map.2 ⟨pp, hm, rfl⟩, by simp [hid]⟩

/-- `recv_cb` leaves the attached pipe without a posted receive only when the buffer is full -/
theorem recvCbLocked_parks {s : State} {p : Nat} (gm : GMsg) (hcur : s.cur = some p)
    (hex : ∃ pp ∈ s.pipes, pp.id = p) (hna : (recvCbLocked s p gm).1.pipes.any (·.armed) = false) :
    (recvCbLocked s p gm).1.rmqCap ≤ (recvCbLocked s p gm).1.rmq.length := by
  unfold recvCbLocked at hna ⊢
  rw [if_neg (by simp [hcur])] at hna ⊢
  cases hraq : s.raq with
  | cons a rest =>
    exfalso
    rw [hraq] at hna
    dsimp only [modPipe] at hna
    rw [armed_any_of_mem hex] at hna
    cases hna
  | nil =>
    rw [hraq] at hna
    dsimp only at hna ⊢
    by_cases hfull : rmqFull s = true
    · rw [if_neg (by simp [hfull])]
      simpa [rmqFull] using hfull
    · exfalso
      rw [if_pos (by simp [hfull])] at hna
      dsimp only [modPipe] at hna
      rw [armed_any_of_mem hex] at hna
      cases hna

theorem recvCb_parks (V : Variant) {s : State} {p : Nat} {pp : Pipe} (b : Bytes) (hcur : s.cur = some p)
    (hg : getPipe s p = some pp) (hc : pp.closed = false)
    (hcs : (recvCb V s p b).1.cur.isSome = true) (hna : (recvCb V s p b).1.pipes.any (·.armed) = false) :
    (recvCb V s p b).1.rmqCap ≤ (recvCb V s p b).1.rmq.length := by
  have hex : ∃ pp ∈ s.pipes, pp.id = p := ⟨pp, (getPipe_some hg).1, (getPipe_some hg).2⟩
  unfold recvCb at hcs hna ⊢
  cases hrx : V.rxDecide s.ttl b with
  | close =>
    exfalso
    rw [hrx] at hcs
    dsimp only at hcs
    rw [closePipe_cur_none (s := { s with malformed := s.malformed + 1 }) hg hc hcur] at hcs
    cases hcs
  | drop =>
    exfalso
    rw [hrx] at hna
    dsimp only [modPipe] at hna
    rw [armed_any_of_mem hex] at hna
    cases hna
  | deliver m =>
    rw [hrx] at hna
    dsimp only at hna ⊢
    exact recvCbLocked_parks _ hcur hex hna

end Nng.Pair0
