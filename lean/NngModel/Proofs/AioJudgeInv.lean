/- layer 4 of the aio invariants: facts that hold when the environment keeps to the contract
   `okL` (Proofs/AioJudgeDefs.lean): pending returns of start calls, stopped-late operations,
   the window between `nng_aio_stop`'s last look at the task and its return -/
import NngModel.Proofs.Aio
import NngModel.Proofs.AioB
import NngModel.Proofs.AioC
import NngModel.Proofs.AioJudgeDefs
set_option linter.unusedSimpArgs false
namespace Nng.Aio
open Nng.AioSpec

structure Inv4 (s : State) : Prop where
  retsOne : ∀ e, e ∈ s.subRets → s.subRets = [e]
  retsPc : s.subRets ≠ [] → s.subPc = 0
  retsKind : ∀ b v, (b, v) ∈ s.subRets → b = !isDirect s.subKind
  retsSkip : (false, 1) ∈ s.subRets → s.starts = s.reported + s.skips
  retsZero : ∀ b, (b, 0) ∈ s.subRets → s.opTok = false
  retsStarts : s.subRets ≠ [] → s.starts ≠ 0
  pc2Kind : s.subPc = 2 → isDirect s.subKind = false
  dirRv : ∀ rv, s.subKind = .direct rv → rv ≠ ETIMEDOUT
  eok : s.expireOk = false
  late : s.stoppedAt.isSome = true → s.parked = false ∧ s.pendFin = none ∧ s.expDispatch = false ∧
    (s.subPc = 0 → s.starts = s.reported + s.skips + 1 →
      isDirect s.subKind = true ∨ (s.result = ESTOPPED ∧ s.final = ESTOPPED))
  freedRets : s.freed = true → s.subRets = []
  win : s.stopPc = 5 → s.stopFree = true → s.inCb = 0
  freedFree : s.freed = true → s.stopFree = true
  pc5Free : s.stopPc = 5 → s.stopFree = true → s.freed = true
  pc5Stopped : s.stopPc = 5 → s.stoppedAt.isSome = true

theorem inv4_init : Inv4 ({} : State) := by
  constructor <;> simp [isDirect]

@[simp] theorem isDirect_gen : isDirect .gen = false := rfl
@[simp] theorem isDirect_ext : isDirect .ext = false := rfl
@[simp] theorem isDirect_slp (ms : Nat) : isDirect (.slp ms) = false := rfl
@[simp] theorem isDirect_direct (rv : Nat) : isDirect (.direct rv) = true := rfl

/-- nni_task_dispatch as one record update -/
theorem dispatch_eq (s : State) : dispatch s =
    { s with prep := false, busy := if s.prep then s.busy else s.busy + 1, queued := s.queued + 1 } := by
  unfold dispatch
  split <;> rename_i h <;> cases s <;> simp_all

/-- the expire thread letting go, as one record update -/
theorem release_eq (s : State) : release s =
    { s with expiring := false, expPc := 0, expDispatch := false,
             prep := if s.expDispatch then false else s.prep,
             busy := if s.expDispatch then (if s.prep then s.busy else s.busy + 1) else s.busy,
             queued := if s.expDispatch then s.queued + 1 else s.queued } := by
  unfold release
  split <;> rename_i h <;> simp only [dispatch_eq] <;> cases s <;> simp_all


/-- the generic provider's cancel function (test-and-remove), as one record update -/
theorem cancelGen_eq (s : State) (rv : Nat) : cancelCore s .gen rv =
    { s with parked := false, pendFin := if s.parked then some rv else s.pendFin } := by
  unfold cancelCore
  cases hp : s.parked <;> cases s <;> simp_all

/-- the first critical section of nni_sleep_cancel, as one record update -/
theorem cancelSlp_eq (s : State) (rv : Nat) : cancelCore s .slp rv =
    { s with sleep := false, onExp := if s.sleep then false else s.onExp,
             pendFin := if s.sleep then some rv else s.pendFin } := by
  unfold cancelCore
  cases hp : s.sleep <;> cases s <;> simp_all

macro "inv4_auto" : tactic => `(tactic| (
  rcases ‹Inv1 _› with ⟨h1,h2,h3,h4,h5,h6,h7,h8,h9,h10,h11,h12,h13,h14,h15,h16,h17,h18⟩
  rcases ‹Inv3 _› with ⟨k1,k2,k3,k4,k5,k6,k7,k8,k9⟩
  rcases ‹Inv4 _› with ⟨m1,m2,m3,m4,m4b,m4c,m5,m6,m7,m8,m9,m10,m11,m12,m13⟩
  constructor <;> (try dsimp only) <;> (try simp only [prov_gen_beq, List.mem_append, List.mem_singleton, List.mem_cons, Prod.mk.injEq, List.not_mem_nil, isDirect_gen, isDirect_ext, isDirect_direct]) <;> grind [b2n]))

macro "inv4_lab" hs:ident : tactic => `(tactic| (
  try simp only [step, Cfg.fixed, dispatch_eq, release_eq, cancelGen_eq, cancelSlp_eq, completed, finishCore, takeFn, Bool.true_and] at $hs:ident
  repeat' (split at $hs:ident)
  all_goals (try (cases $hs:ident))
  all_goals inv4_auto))

macro "inv4_labk" hs:ident hk:ident : tactic => `(tactic| (
  try simp only [step, $hk:ident, Cfg.fixed, dispatch_eq, release_eq, cancelGen_eq, cancelSlp_eq, completed, finishCore, takeFn, Bool.true_and] at $hs:ident
  repeat' (split at $hs:ident)
  all_goals (try (cases $hs:ident))
  all_goals inv4_auto))

/-- the labels of the submitting threads -/
def labA : Label → Bool
  | .tick _ | .setTimeout _ | .setExpire _ | .skipArm | .subCall _ _ | .prepare | .begin | .direct | .subRet _ _ => true
  | _ => false

/-- provider, abort, close, first half of stop -/
def labB : Label → Bool
  | .complete _ | .finish | .abortCall _ | .abortSec _ | .closeCall | .closeSec | .callCancel _ _
  | .stopCall _ | .stopMark | .stopTake => true
  | _ => false

set_option maxHeartbeats 1000000 in
theorem inv4_step_a {s s' : State} {g : G} {l : Label} (h : Inv1 s) (k : Inv3 s) (m : Inv4 s) (hl : NoSleepL l)
    (hc : okL s g l = true) (hs : step Cfg.fixed s l = some s') (ha : labA l = true) : Inv4 s' := by
  simp only [okL, Bool.and_eq_true, Bool.or_eq_true, Bool.not_eq_true', List.isEmpty_iff, bne_iff_ne, ne_eq] at hc
  cases l with
  | tick d => inv4_lab hs
  | setTimeout t => inv4_lab hs
  | setExpire e => inv4_lab hs
  | skipArm => inv4_lab hs
  | subCall k f => inv4_lab hs
  | prepare => cases hk : s.subKind <;> inv4_labk hs hk
  | begin => inv4_lab hs
  | direct => cases hk : s.subKind <;> inv4_labk hs hk
  | subRet g v => inv4_lab hs
  | _ => cases ha

set_option maxHeartbeats 1000000 in
theorem inv4_step_b {s s' : State} {l : Label} (h : Inv1 s) (k : Inv3 s) (m : Inv4 s)
    (hs : step Cfg.fixed s l = some s') (ha : labB l = true) : Inv4 s' := by
  cases l with
  | complete rv => inv4_lab hs
  | finish => inv4_lab hs
  | abortCall rv => inv4_lab hs
  | abortSec rv => inv4_lab hs
  | closeCall => inv4_lab hs
  | closeSec => inv4_lab hs
  | callCancel p rv => cases p <;> inv4_lab hs
  | stopCall f => inv4_lab hs
  | stopMark => inv4_lab hs
  | stopTake => inv4_lab hs
  | _ => cases ha

set_option maxHeartbeats 1000000 in
theorem inv4_step_c {s s' : State} {g : G} {l : Label} (h : Inv1 s) (k : Inv3 s) (m : Inv4 s)
    (hc : okL s g l = true) (hs : step Cfg.fixed s l = some s') (ha : labA l = false) (hb : labB l = false) :
    Inv4 s' := by
  cases l with
  | stopCancel =>
    cases hk : s.stopFn with
    | none => inv4_labk hs hk
    | some p => cases p <;> inv4_labk hs hk
  | stopWait =>
    simp only [okL] at hc
    have hb : s.busy = 0 := by
      simp only [step] at hs
      split at hs
      · rename_i hg; simp_all
      · cases hs
    obtain ⟨z1,z2,z3,z4,z5,z6,z7,z8,z9,z10⟩ := busy_zero h hb
    inv4_lab hs
  | stopRet => inv4_lab hs
  | expScan => inv4_lab hs
  | expTake => inv4_lab hs
  | expCall => cases hk : s.expFn <;> inv4_labk hs hk
  | expRelease => inv4_lab hs
  | pop => inv4_lab hs
  | cbRead => inv4_lab hs
  | cbDone => inv4_lab hs
  | peek => inv4_lab hs
  | _ => first | (cases ha; done) | (cases hb; done)

/-- every step of the repaired model that keeps to the contract preserves the layer-4 invariant -/
theorem inv4_step {s s' : State} {g : G} {l : Label} (h : Inv1 s) (k : Inv3 s) (m : Inv4 s) (hl : NoSleepL l)
    (hc : okL s g l = true) (hs : step Cfg.fixed s l = some s') : Inv4 s' := by
  cases ha : labA l
  · cases hb : labB l
    · exact inv4_step_c h k m hc hs ha hb
    · exact inv4_step_b h k m hs hb
  · exact inv4_step_a h k m hl hc hs ha

end Nng.Aio
