/-
  C08: pipe ids of the PAIR machine are the positions in the pipe table, over all event
  sequences; hence the attached pipe `s->p` always names an existing pipe.
-/
import NngModel.Proofs.PairStep
namespace Nng.Pair0
open Nng Nng.Proto

/-- pipe ids are the positions in the pipe table -/
def IdsInv (s : State) : Prop := s.pipes.map (·.id) = List.range s.pipes.length

/-- the list of pipe ids, in table order -/
def idsOf (s : State) : List Nat := s.pipes.map (·.id)

theorem idsInv_iff (s : State) : IdsInv s ↔ idsOf s = List.range (idsOf s).length := by
  simp [IdsInv, idsOf]

theorem ids_of_idsOf_eq {s s' : State} (he : idsOf s' = idsOf s) (h : IdsInv s) : IdsInv s' := by
  rw [idsInv_iff] at h ⊢
  rw [he]; exact h

theorem ids_of_pipes_eq {s s' : State} (he : s'.pipes = s.pipes) (h : IdsInv s) : IdsInv s' :=
  ids_of_idsOf_eq (by simp [idsOf, he]) h

theorem modPipe_idsOf (s : State) (p : Nat) (f : Pipe → Pipe) (hf : ∀ q, (f q).id = q.id) :
    idsOf (modPipe s p f) = idsOf s := by
  simp only [idsOf, modPipe, List.map_map]
  apply List.map_congr_left
  intro q _
  simp only [Function.comp]
  split
  · exact hf q
  · rfl

theorem modPipe_ids {s : State} {p : Nat} {f : Pipe → Pipe} (hf : ∀ q, (f q).id = q.id) (h : IdsInv s) :
    IdsInv (modPipe s p f) :=
  ids_of_idsOf_eq (modPipe_idsOf s p f hf) h

theorem ids_init : IdsInv ({} : State) := by
  simp [IdsInv]

theorem pipeSend_idsOf (V : Variant) (s : State) (p : Nat) (gm : GMsg) :
    idsOf (pipeSend V s p gm).1 = idsOf s := by
  unfold pipeSend
  exact modPipe_idsOf s p _ (fun _ => rfl)

theorem sendSchedBody_idsOf (V : Variant) (s : State) (p : Nat) :
    idsOf (sendSchedBody V s p).1 = idsOf s := by
  unfold sendSchedBody
  cases hq : s.wmq with
  | nil =>
    cases ha : s.waq with
    | nil => rfl
    | cons a ar =>
      simp only
      exact pipeSend_idsOf V { s with waq := ar, accepted := s.accepted ++ [a.msg] } p a.msg
  | cons m rest =>
    have h1 := pipeSend_idsOf V { s with wmq := rest } p m
    cases ha : s.waq with
    | nil =>
      simp only [pipeSend, ha] at h1 ⊢
      exact h1
    | cons a ar =>
      simp only [pipeSend, ha] at h1 ⊢
      exact h1

theorem sendSched_idsOf (V : Variant) (s : State) (p : Nat) :
    idsOf (sendSched V s p).1 = idsOf s := by
  unfold sendSched
  split
  · rfl
  · exact sendSchedBody_idsOf V { s with wrReady := true } p

theorem pipeStop_idsOf (s : State) (p : Nat) : idsOf (pipeStop s p) = idsOf s := by
  unfold pipeStop
  split <;> rfl

theorem closePipe_idsOf (s : State) (p : Nat) : idsOf (closePipe s p).1 = idsOf s := by
  unfold closePipe
  split
  · rfl
  · split
    · rfl
    · simp only
      rw [pipeStop_idsOf]
      exact modPipe_idsOf s p _ (fun _ => rfl)

theorem failParked_idsOf (s : State) (a rv : Nat) : idsOf (failParked s a rv).1 = idsOf s := by
  unfold failParked
  split
  · rfl
  · split <;> rfl

theorem failMany_idsOf (as : List Nat) (rv : Nat) (s : State) (o : List Out) :
    idsOf (as.foldl (fun (acc : State × List Out) a =>
      let (s', o) := failParked acc.1 a rv
      (s', acc.2 ++ o)) (s, o)).1 = idsOf s := by
  induction as generalizing s o with
  | nil => rfl
  | cons a rest ih =>
    simp only [List.foldl]
    rw [ih]
    exact failParked_idsOf s a rv

theorem expire_idsOf (s : State) : idsOf (expire s).1 = idsOf s := by
  unfold expire failMany
  exact failMany_idsOf _ _ _ _

theorem recvCbLocked_idsOf (s : State) (p : Nat) (gm : GMsg) : idsOf (recvCbLocked s p gm).1 = idsOf s := by
  unfold recvCbLocked
  split
  · rfl
  · split
    · exact modPipe_idsOf { s with raq := _, delivered := s.delivered ++ [gm] } p _ (fun _ => rfl)
    · split
      · exact modPipe_idsOf { s with rmq := s.rmq ++ [gm] } p _ (fun _ => rfl)
      · rfl

theorem recvCb_idsOf (V : Variant) (s : State) (p : Nat) (b : Bytes) : idsOf (recvCb V s p b).1 = idsOf s := by
  unfold recvCb
  split
  · exact closePipe_idsOf { s with malformed := s.malformed + 1 } p
  · exact modPipe_idsOf { s with hopDropped := s.hopDropped + 1 } p _ (fun _ => rfl)
  · exact recvCbLocked_idsOf _ p _

theorem parkSend_idsOf (s : State) (a : Nat) (gm : GMsg) (mode : Mode) : idsOf (parkSend s a gm mode).1 = idsOf s := by
  unfold parkSend
  split <;> rfl

theorem sockSendLocked_idsOf (V : Variant) (s : State) (a : Nat) (gm : GMsg) (mode : Mode) :
    idsOf (sockSendLocked V s a gm mode).1 = idsOf s := by
  unfold sockSendLocked
  split
  · split
    · exact pipeSend_idsOf V _ _ gm
    · rfl
  · split
    · rfl
    · exact parkSend_idsOf s a gm mode

theorem sockSend_idsOf (V : Variant) (s : State) (a : Nat) (m : WMsg) (mode : Mode) :
    idsOf (sockSend V s a m mode).1 = idsOf s := by
  unfold sockSend
  split
  · rfl
  · exact sockSendLocked_idsOf V { s with nsend := s.nsend + 1 } a _ mode

theorem sockRecv_idsOf (s : State) (a : Nat) (mode : Mode) : idsOf (sockRecv s a mode).1 = idsOf s := by
  unfold sockRecv
  split
  · simp only
    split
    · split
      · simp only [idsOf, modPipe, rmqPutUnchecked, List.map_map]
        apply List.map_congr_left
        intro q _
        simp only [Function.comp]
        split <;> rfl
      · rfl
    · rfl
  · split
    · split
      · simp only [idsOf, modPipe, List.map_map]
        apply List.map_congr_left
        intro q _
        simp only [Function.comp]
        split <;> rfl
      · rfl
    · split <;> rfl

theorem closeAll_idsOf (ps : List Pipe) (s : State) (o : List Out) :
    idsOf (ps.foldl (fun (acc : State × List Out) (pp : Pipe) =>
      let (s', o) := closePipe acc.1 pp.id
      (s', acc.2 ++ o)) (s, o)).1 = idsOf s := by
  induction ps generalizing s o with
  | nil => rfl
  | cons a rest ih =>
    simp only [List.foldl]
    rw [ih]
    exact closePipe_idsOf s a.id

theorem closeAllPipes_idsOf (s : State) : idsOf (closeAllPipes s).1 = idsOf s := by
  unfold closeAllPipes
  exact closeAll_idsOf _ _ _

theorem sockClose_idsOf (s : State) : idsOf (sockClose s).1 = idsOf s := rfl

theorem pipeStart_idsOf (V : Variant) (s : State) (id peer : Nat) : idsOf (pipeStart V s id peer).1 = idsOf s := by
  unfold pipeStart
  split
  · exact modPipe_idsOf s id _ (fun _ => rfl)
  · split
    · exact modPipe_idsOf s id _ (fun _ => rfl)
    · simp only
      refine Eq.trans (modPipe_idsOf _ id (fun pp => { pp with armed := true }) ?_)
        (sendSched_idsOf V { s with cur := some id, rdReady := false } id)
      intro _; rfl

theorem pipeAdd_ids (s : State) (h : IdsInv s) :
    IdsInv { s with pipes := s.pipes ++ [{ id := s.pipes.length }] } := by
  simp only [IdsInv] at h ⊢
  simp only [List.map_append, List.map_cons, List.map_nil, List.length_append, List.length_cons,
    List.length_nil, Nat.zero_add, List.range_succ, h]

theorem step_ids (V : Variant) (s : State) (ev : Ev) (h : IdsInv s) : IdsInv (step V s ev).1 := by
  unfold step
  split
  · split
    · simp [IdsInv]
    · exact ids_of_pipes_eq rfl h
    · exact h
  · split
    · split
      · exact ids_of_pipes_eq rfl h
      · exact h
    · split
      all_goals first
        | exact h
        | exact ids_of_idsOf_eq (failParked_idsOf _ _ _) h
        | exact ids_of_idsOf_eq (sockRecv_idsOf _ _ _) h
        | exact ids_of_idsOf_eq (sockSend_idsOf _ _ _ _ _) h
        | exact ids_of_pipes_eq rfl h
        | skip
      case h_2 peer =>
        exact ids_of_idsOf_eq (pipeStart_idsOf V _ _ peer) (pipeAdd_ids s h)
      case h_3 p =>
        split
        · split
          · exact h
          · exact ids_of_idsOf_eq (closePipe_idsOf _ _) h
        · exact h
      case h_4 p rv =>
        split
        · split
          · exact h
          · split
            · exact ids_of_idsOf_eq (closePipe_idsOf _ _) h
            · exact ids_of_idsOf_eq (sendSched_idsOf _ _ _) (modPipe_ids (fun _ => rfl) h)
        · exact h
      case h_5 p r =>
        split
        · split
          · exact h
          · split
            · exact ids_of_idsOf_eq (closePipe_idsOf _ _) (modPipe_ids (fun _ => rfl) h)
            · exact ids_of_idsOf_eq (recvCb_idsOf V _ p _) (modPipe_ids (fun _ => rfl) h)
        · exact h
      case h_6 => split <;> first | exact h | exact ids_of_idsOf_eq (sockSend_idsOf _ _ _ _ _) h
      case h_7 => split <;> first | exact h | exact ids_of_idsOf_eq (sockRecv_idsOf _ _ _) h
      case h_10 ms => exact ids_of_idsOf_eq (expire_idsOf _) (ids_of_pipes_eq rfl h)
      case h_13 => split <;> first | exact h | exact ids_of_pipes_eq rfl h
      case h_14 => split <;> first | exact h | exact ids_of_pipes_eq rfl h
      case h_15 =>
        split
        · exact h
        · split
          · exact h
          · exact ids_of_pipes_eq rfl h
      case h_19 => split <;> exact h
      case h_24 =>
        simp only
        exact ids_of_pipes_eq rfl (ids_of_idsOf_eq (closeAllPipes_idsOf s) h)

theorem run_ids (V : Variant) (evs : List Ev) (s : State) (h : IdsInv s) : IdsInv (run V s evs).1 := by
  induction evs generalizing s with
  | nil => exact h
  | cons e es ih =>
    simp only [run]
    exact ih _ (step_ids V s e h)

theorem ids_getPipe {s : State} (h : IdsInv s) (hP : PInv s) :
    ∀ p, s.cur = some p → ∃ pp, getPipe s p = some pp := by
  intro p hc
  have hlt : p < s.pipes.length := hP.curLt p hc
  have hid : (s.pipes[p]'hlt).id = p := by
    have := congrArg (·[p]?) h
    simp only [List.getElem?_map, List.getElem?_range hlt, List.getElem?_eq_getElem hlt, Option.map_some] at this
    exact Option.some.inj this
  have hs : (getPipe s p).isSome = true := by
    unfold getPipe
    rw [List.find?_isSome]
    exact ⟨s.pipes[p], List.getElem_mem hlt, by simp [hid]⟩
  cases hg : getPipe s p with
  | some pp => exact ⟨pp, rfl⟩
  | none => rw [hg] at hs; exact absurd hs (by simp)

end Nng.Pair0
