/-
  C08 judge simulation, part 4: pipe loss, the send scheduler, the locked half of the
  receive callback.
-/
import NngModel.Proofs.PairJudge3
namespace Nng.Pair0
open Nng Nng.Proto Nng.PairSpec

/-! ### list facts for the body bookkeeping -/

theorem nodup_move {α : Type} (P A B W : List α) (x : α) (h : (P ++ ((A ++ x :: B) ++ W)).Nodup) :
    (P ++ (B ++ (W ++ [x]))).Nodup := by
  have hp : (B ++ (W ++ [x])).Perm (x :: (B ++ W)) := by
    rw [← List.append_assoc]
    exact List.perm_append_singleton x (B ++ W)
  have hs : (x :: (B ++ W)).Sublist ((A ++ x :: B) ++ W) := by
    rw [List.append_assoc]
    exact List.sublist_append_right A _
  have h2 : (P ++ (x :: (B ++ W))).Nodup := h.sublist ((List.Sublist.refl P).append hs)
  exact (List.Perm.append_left P hp).nodup_iff.2 h2

theorem subset_move {α : Type} (P A B W : List α) (x : α) :
    ∀ b ∈ P ++ (B ++ (W ++ [x])), b ∈ P ++ ((A ++ x :: B) ++ W) := by
  intro b hb
  simp only [List.mem_append, List.mem_cons, List.mem_singleton, List.not_mem_nil, or_false] at hb ⊢
  rcases hb with h | h | h | h
  · exact Or.inl h
  · exact Or.inr (Or.inl (Or.inr (Or.inr h)))
  · exact Or.inr (Or.inr h)
  · exact Or.inr (Or.inl (Or.inr (Or.inl h)))

theorem nodup_accept {α : Type} (P U W : List α) (x : α) (h : ((x :: P) ++ (U ++ W)).Nodup) :
    (P ++ ((U ++ [x]) ++ W)).Nodup := by
  have hp : (P ++ ((U ++ [x]) ++ W)).Perm ((x :: P) ++ (U ++ W)) := by
    have : (P ++ ((U ++ [x]) ++ W)) = (P ++ U) ++ (x :: W) := by simp
    rw [this]
    have h2 : ((x :: P) ++ (U ++ W)) = x :: ((P ++ U) ++ W) := by simp
    rw [h2]
    exact List.perm_middle
  exact hp.nodup_iff.2 h

theorem subset_accept {α : Type} (P U W : List α) (x : α) :
    ∀ b ∈ P ++ ((U ++ [x]) ++ W), b ∈ (x :: P) ++ (U ++ W) := by
  intro b hb
  simp only [List.mem_append, List.mem_cons, List.mem_singleton, List.not_mem_nil, or_false] at hb ⊢
  rcases hb with h | (h | h) | h
  · exact Or.inl (Or.inr h)
  · exact Or.inr (Or.inl h)
  · exact Or.inl (Or.inl h)
  · exact Or.inr (Or.inr h)

theorem wireForm_body (v1 raw : Bool) (m : WMsg) : (wireForm v1 raw m).body = m.body := by
  unfold wireForm; cases v1 <;> cases raw <;> rfl

/-- `UR.pop` with the position made explicit -/
theorem UR.pop' {u : List Acc} {x : WMsg} {w : List WMsg} (h : UR u (x :: w)) (hn : (u.map (·.m)).Nodup) :
    ∃ i A b B, u = A ++ ⟨x, b⟩ :: B ∧ u.findIdx? (·.m == x) = some i ∧
      ((u.take i).any (fun a => !a.excused)) = false ∧ u.drop (i + 1) = B ∧ UR B w := by
  obtain ⟨i, h1, h2, h3⟩ := h.pop rfl hn
  have hi : i < u.length := by
    have := List.findIdx?_eq_some_iff_getElem.1 h1; exact this.1
  have hx : (u[i]).m = x := by
    have := (List.findIdx?_eq_some_iff_getElem.1 h1).2.1; simpa using this
  refine ⟨i, u.take i, (u[i]).excused, u.drop (i + 1), ?_, h1, h2, rfl, h3⟩
  have : u = u.take i ++ u[i] :: u.drop (i + 1) := by
    conv => lhs; rw [← List.take_append_drop i u]
    rw [List.drop_eq_getElem_cons hi]
  have he : u[i] = ⟨x, (u[i]).excused⟩ := by
    cases hu : u[i]; simp [hu] at hx ⊢; exact hx
  rw [← he]; exact this

/-! ### pipes -/

theorem any_armed_clear {s : State} (hP : PInv s) {p : Nat} (hc : s.cur = some p) (f : Pipe → Pipe)
    (hf : ∀ q, (f q).armed = false) : (modPipe s p f).pipes.any (·.armed) = false := by
  rw [List.any_eq_false]
  intro x hx
  obtain ⟨q, hq, h | h⟩ := mem_modPipe hx
  · rw [h.2, hf]; simp
  · rw [h.2]
    intro ha
    have hcl : q.closed = false := by
      cases hcq : q.closed with
      | false => rfl
      | true => have := (hP.closedInert q hq hcq).2; rw [ha] at this; cases this
    have := hP.single q hq hcl
    rw [hc] at this
    exact h.1 (Option.some.inj this).symm

theorem any_armed_same {s : State} {p : Nat} (f : Pipe → Pipe) (hf : ∀ q, (f q).armed = q.armed) :
    (modPipe s p f).pipes.any (·.armed) = s.pipes.any (·.armed) := by
  simp only [modPipe, List.any_map]
  congr 1
  funext q
  simp only [Function.comp]
  split <;> simp [hf]

theorem any_armed_list (ps : List Pipe) {p : Nat} (f : Pipe → Pipe) (hf : ∀ q, (f q).armed = q.armed) :
    (ps.map fun q => if q.id == p then f q else q).any (·.armed) = ps.any (·.armed) := by
  simp only [List.any_map]
  congr 1
  funext q
  simp only [Function.comp]
  split <;> simp [hf]

theorem any_armed_busy (ps : List Pipe) (p : Nat) (g : Option GMsg) :
    (ps.map fun q => if q.id == p then { q with busy := g } else q).any (·.armed) = ps.any (·.armed) :=
  any_armed_list ps (fun q => { q with busy := g }) (fun _ => rfl)

theorem any_armed_set {s : State} {p : Nat} {pp : Pipe} (hg : getPipe s p = some pp) (f : Pipe → Pipe)
    (hf : ∀ q, (f q).armed = true) : (modPipe s p f).pipes.any (·.armed) = true := by
  obtain ⟨hm, hid⟩ := getPipe_some hg
  rw [List.any_eq_true]
  refine ⟨f pp, ?_, hf pp⟩
  simp only [modPipe, List.mem_map]
  exact ⟨pp, hm, by simp [hid]⟩

/-- nobody attached: no pipe has a receive posted -/
theorem any_armed_none {s : State} (hP : PInv s) (hc : s.cur = none) : s.pipes.any (·.armed) = false := by
  rw [List.any_eq_false]
  intro q hq ha
  have hcl : q.closed = false := by
    cases hcq : q.closed with
    | false => rfl
    | true => have := (hP.closedInert q hq hcq).2; rw [ha] at this; cases this
  have := hP.single q hq hcl
  rw [hc] at this; cases this

def liveUpd (j : PairJ) (l : Option Nat) (b a : Bool) : PairJ := { j with live := l, busy := b, armed := a }

theorem liveUpd_eta (j : PairJ) : liveUpd j j.live j.busy j.armed = j := by cases j; rfl

/-! ### pipe loss -/

theorem closePipe_eq {s : State} {p : Nat} {pp : Pipe} (hg : getPipe s p = some pp) (hc : pp.closed = false) :
    closePipe s p =
      (pipeStop { (modPipe s p fun q => { q with closed := true, busy := none, armed := false }) with
          lostOnPipe := s.lostOnPipe ++ pp.busy.toList } p, [Out.pclosed p]) := by
  unfold closePipe
  simp [hg, hc, modPipe]

theorem closePipe_R {V : Variant} {v1 : Bool} {sS sR : List Bytes} {s : State} {j : PairJ}
    (hR : R V v1 sS sR s j) (hP : PInv s) (nb : Nb) {p : Nat} {pp : Pipe} (hg : getPipe s p = some pp)
    (hc : pp.closed = false) :
    (closePipe s p).2 = [Out.pclosed p] ∧ R V v1 sS sR (closePipe s p).1 (pairOut nb j (.pclosed p)) := by
  obtain ⟨hm, hid⟩ := getPipe_some hg
  have hcur : s.cur = some p := hid ▸ hP.single pp hm hc
  rw [closePipe_eq hg hc]
  refine ⟨rfl, ?_⟩
  rw [pairOut_pclosed_live (hR.live.trans hcur)]
  unfold pipeStop
  rw [if_neg (by simp [modPipe, hcur])]
  have harm := any_armed_clear hP hcur (fun q => { q with closed := true, busy := none, armed := false }) (fun _ => rfl)
  refine { hR with live := rfl, busy := rfl, armed := ?_, held := ?_, nodupR := ?_, subR := ?_ }
  · simp only [modPipe] at harm ⊢; exact harm.symm
  · apply hR.held.sub
    simp only [modPipe]
    apply List.Sublist.map
    apply (List.Sublist.refl _).append
    split <;> simp
  · simp only [excuseAll, List.map_map]
    exact hR.nodupR
  · intro e he
    simp only [excuseAll, List.mem_map] at he
    obtain ⟨e0, he0, rfl⟩ := he
    exact hR.subR e0 he0

/-! ### the judge on an accepted send and on a message handed to the pipe -/

theorem nodup_of_map {α β : Type} (f : α → β) {l : List α} (h : (l.map f).Nodup) : l.Nodup :=
  List.Pairwise.of_map f (fun _ _ hab e => hab (congrArg f e)) h

theorem nodup_mid {α : Type} {P U W : List α} (h : (P ++ (U ++ W)).Nodup) :
    U.Nodup ∧ ∀ a ∈ U, a ∉ W := by
  have h1 := (List.nodup_append.1 h).2.1
  have h2 := List.nodup_append.1 h1
  exact ⟨h2.1, fun a ha hw => h2.2.2 a ha a hw rfl⟩

theorem psend_step {j : PairJ} {p : Nat} {x : WMsg} {w : List WMsg} (nb : Nb) (hl : j.live = some p)
    (hb : j.busy = false) (hU : UR j.unsent (x :: w)) (hn : (allB j).Nodup) :
    ∃ B, pairOut nb j (.psend p x) = { j with unsent := B, wired := j.wired ++ [x], busy := true } ∧ UR B w ∧
      (allB { j with unsent := B, wired := j.wired ++ [x], busy := true }).Nodup ∧
      (∀ b ∈ allB { j with unsent := B, wired := j.wired ++ [x], busy := true }, b ∈ allB j) := by
  obtain ⟨hnu, hdis⟩ := nodup_mid hn
  have hnm : (j.unsent.map (·.m)).Nodup := by
    have : (j.unsent.map (·.m)).map (·.body) = j.unsent.map (·.m.body) := by simp
    exact nodup_of_map (·.body) (this ▸ hnu)
  obtain ⟨i, A, b, B, hu, h1, h2, h3, h4⟩ := hU.pop' hnm
  have hxw : x ∉ j.wired := by
    intro hw
    refine hdis x.body ?_ (List.mem_map.2 ⟨x, hw, rfl⟩)
    rw [hu]; simp
  refine ⟨B, ?_, h4, ?_, ?_⟩
  · rw [pairOut_psend hl hb hxw h1 h2, h3]
  · have := nodup_move (j.pendingS.map (·.2.body)) (A.map (·.m.body)) (B.map (·.m.body)) (j.wired.map (·.body)) x.body
      (by simpa [allB, hu] using hn)
    simpa [allB] using this
  · have := subset_move (j.pendingS.map (·.2.body)) (A.map (·.m.body)) (B.map (·.m.body)) (j.wired.map (·.body)) x.body
    intro b hb
    have := this b (by simpa [allB] using hb)
    simpa [allB, hu] using this

theorem filter_head_pend {x : Nat × WMsg} {l : List (Nat × WMsg)} (hn : ((x :: l).map (·.1)).Nodup) :
    (x :: l).filter (·.1 != x.1) = l := by
  simp only [List.map_cons, List.nodup_cons] at hn
  simp only [List.filter_cons, bne_self_eq_false, Bool.false_eq_true, if_false]
  rw [List.filter_eq_self]
  intro y hy
  have : y.1 ≠ x.1 := fun e => hn.1 (e ▸ List.mem_map.2 ⟨y, hy, rfl⟩)
  simpa using this

theorem accept_head {j : PairJ} {x : Nat × WMsg} {P' : List (Nat × WMsg)} {wf : WMsg} (nb : Nb)
    (hp : j.pendingS = x :: P')
    (hnd : (j.pendingS.map (·.1)).Nodup) (hbad : badHdr j.v1 j.raw x.2 = false) (hn : (allB j).Nodup)
    (hwf : wireForm j.v1 j.raw x.2 = wf) :
    pairOut nb j (.done x.1 0 none false) =
      { j with pendingS := P', unsent := j.unsent ++ [⟨wf, false⟩] } ∧
    (allB { j with pendingS := P', unsent := j.unsent ++ [⟨wf, false⟩] }).Nodup ∧
    (∀ b ∈ allB { j with pendingS := P', unsent := j.unsent ++ [⟨wf, false⟩] }, b ∈ allB j) := by
  subst hwf
  refine ⟨?_, ?_, ?_⟩
  · rw [pairOut_done_send (m := x.2) (Or.inl ⟨x.1, by simp [hp]⟩), sendCompletion_ok hbad]
    rw [hp] at hnd
    simp only [hp, filter_head_pend hnd]
  · have := nodup_accept (P'.map (·.2.body)) (j.unsent.map (·.m.body)) (j.wired.map (·.body)) x.2.body
      (by simpa [allB, hp] using hn)
    simpa [allB, wireForm_body] using this
  · have := subset_accept (P'.map (·.2.body)) (j.unsent.map (·.m.body)) (j.wired.map (·.body)) x.2.body
    intro b hb
    have := this b (by simpa [allB, wireForm_body] using hb)
    simpa [allB, hp] using this

/-! ### the send scheduler -/

theorem pend_cons {V : Variant} {v1 raw : Bool} {P : List (Nat × WMsg)} {a : PSend} {ar : List PSend}
    (h : P.map (fun x => (x.1, wireForm v1 raw x.2)) = (a :: ar).map (fun pk => (pk.aio, V.txWire pk.msg.m))) :
    ∃ x P', P = x :: P' ∧ x.1 = a.aio ∧ wireForm v1 raw x.2 = V.txWire a.msg.m ∧
      P'.map (fun x => (x.1, wireForm v1 raw x.2)) = ar.map (fun pk => (pk.aio, V.txWire pk.msg.m)) := by
  cases P with
  | nil => simp at h
  | cons x P' =>
    simp only [List.map_cons, List.cons.injEq, Prod.mk.injEq] at h
    exact ⟨x, P', rfl, h.1.1, h.1.2, h.2⟩

theorem fsts_of_pend {V : Variant} {v1 raw : Bool} {P : List (Nat × WMsg)} {W : List PSend}
    (h : P.map (fun x => (x.1, wireForm v1 raw x.2)) = W.map (fun pk => (pk.aio, V.txWire pk.msg.m))) :
    P.map (·.1) = W.map (·.aio) := by
  have := congrArg (List.map Prod.fst) h
  simpa [Function.comp_def] using this

theorem sendSchedBody_R {V : Variant} {v1 : Bool} {sS sR : List Bytes} {s : State} {j : PairJ} (nb : Nb)
    {p : Nat} (a0 : Bool) (hR : R V v1 sS sR s (liveUpd j (some p) false a0)) (hc : s.cur = some p)
    (hle : s.wmq.length ≤ s.wmqCap) :
    ∃ ps dn, (sendSchedBody V s p).2 = ps ++ dn ∧ (∀ o ∈ dn, isDone o = true ∧ tame o = true) ∧
      (ps = [] ∨ ∃ m, ps = [Out.psend p m]) ∧
      ((dn.foldl (pairOut nb) j).live = j.live ∧ (dn.foldl (pairOut nb) j).busy = j.busy ∧
        (dn.foldl (pairOut nb) j).armed = j.armed) ∧
      R V v1 sS sR (sendSchedBody V s p).1
        (ps.foldl (pairOut nb) (liveUpd (dn.foldl (pairOut nb) j) (some p) false a0)) := by
  have hjv : j.v1 = v1 := hR.jv1
  have hjr : j.raw = s.raw := hR.raw
  have hnd : (j.pendingS.map (·.1)).Nodup := by
    have h := fsts_of_pend hR.pend
    simp only [liveUpd] at h
    rw [h]; exact hR.waqNd
  have hnS : (allB j).Nodup := hR.nodupS
  unfold sendSchedBody
  cases hq : s.wmq with
  | nil =>
    cases ha : s.waq with
    | nil => exact ⟨[], [], rfl, by simp, Or.inl rfl, ⟨rfl, rfl, rfl⟩, hR⟩
    | cons a ar =>
      have hpend := hR.pend
      rw [ha] at hpend
      obtain ⟨x, P', hp, hx1, hx2, hP'⟩ := pend_cons hpend
      have hp' : j.pendingS = x :: P' := hp
      obtain ⟨e1, n1, s1⟩ := accept_head (wf := V.txWire a.msg.m) nb hp' hnd
        (by rw [hjv, hjr]; exact hR.pendOk x (by rw [hp]; simp)) hnS (by rw [hjv, hjr, hx2])
      have hU : UR (j.unsent ++ [⟨V.txWire a.msg.m, false⟩]) (V.txWire a.msg.m :: []) := by
        have := hR.unsent; rw [hq] at this; exact this.snoc _
      obtain ⟨B, e2, hB, n2, s2⟩ := psend_step (p := p) nb
        (j := liveUpd { j with pendingS := P', unsent := j.unsent ++ [⟨V.txWire a.msg.m, false⟩] } (some p) false a0)
        rfl rfl hU n1
      refine ⟨[Out.psend p (V.txWire a.msg.m)], [Out.done a.aio 0 none false], rfl, by simp [isDone, tame],
        Or.inr ⟨_, rfl⟩, by simp only [List.foldl_cons, List.foldl_nil, ← hx1, e1, and_self], ?_⟩
      simp only [List.foldl_cons, List.foldl_nil, ← hx1, e1, e2, pipeSend]
      refine { hR with busy := by simp [modPipe, hc], armed := ?_, pend := hP', pendOk := ?_, unsent := ?_, disj := ?_,
                       waqNd := ?_, nodupS := n2, subS := ?_ }
      · simp only [modPipe, any_armed_busy]; exact hR.armed
      · intro y hy; exact hR.pendOk y (by rw [hp]; exact List.mem_cons_of_mem _ hy)
      · simpa [modPipe, hq] using hB
      · intro pk hpk; exact hR.disj pk (by rw [ha]; exact List.mem_cons_of_mem _ hpk)
      · have := hR.waqNd; rw [ha] at this; simp only [List.map_cons, List.nodup_cons] at this; exact this.2
      · intro b hb; exact hR.subS b (s1 b (s2 b hb))
  | cons m rest =>
    have hU : UR j.unsent (V.txWire m.m :: rest.map (fun g => V.txWire g.m)) := by
      have := hR.unsent; rw [hq] at this; exact this
    cases ha : s.waq with
    | nil =>
      obtain ⟨B, e2, hB, n2, s2⟩ := psend_step (p := p) nb (j := liveUpd j (some p) false a0) rfl rfl hU hnS
      refine ⟨[Out.psend p (V.txWire m.m)], [], rfl, by simp, Or.inr ⟨_, rfl⟩, ⟨rfl, rfl, rfl⟩, ?_⟩
      simp only [pipeSend, modPipe, ha, List.foldl_cons, List.foldl_nil, e2]
      refine { hR with busy := by simp [modPipe, hc], armed := ?_, unsent := hB, nodupS := n2, subS := ?_,
                       pend := by simpa [ha] using hR.pend, disj := by simp, waqNd := by simp }
      · simp only [modPipe, any_armed_busy]; exact hR.armed
      · intro b hb; exact hR.subS b (s2 b hb)
    | cons a ar =>
      have hpend := hR.pend
      rw [ha] at hpend
      obtain ⟨x, P', hp, hx1, hx2, hP'⟩ := pend_cons hpend
      have hp' : j.pendingS = x :: P' := hp
      obtain ⟨e1, n1, s1⟩ := accept_head (wf := V.txWire a.msg.m) nb hp' hnd
        (by rw [hjv, hjr]; exact hR.pendOk x (by rw [hp]; simp)) hnS (by rw [hjv, hjr, hx2])
      have hU1 : UR (j.unsent ++ [⟨V.txWire a.msg.m, false⟩])
          (V.txWire m.m :: (rest.map (fun g => V.txWire g.m) ++ [V.txWire a.msg.m])) := hU.snoc _
      obtain ⟨B, e2, hB, n2, s2⟩ := psend_step (p := p) nb
        (j := liveUpd { j with pendingS := P', unsent := j.unsent ++ [⟨V.txWire a.msg.m, false⟩] } (some p) false a0)
        rfl rfl hU1 n1
      have hlen : rest.length < s.wmqCap := by rw [hq] at hle; simp at hle; omega
      refine ⟨[Out.psend p (V.txWire m.m)], [Out.done a.aio 0 none false], ?_, by simp [isDone, tame],
        Or.inr ⟨_, rfl⟩, by simp only [List.foldl_cons, List.foldl_nil, ← hx1, e1, and_self], ?_⟩
      · simp [pipeSend, modPipe, ha]
      simp only [pipeSend, modPipe, ha, wmqPutUnchecked, hlen, if_true, List.foldl_cons, List.foldl_nil, ← hx1, e1, e2]
      refine { hR with busy := by simp [modPipe, hc], armed := ?_, pend := hP', pendOk := ?_, unsent := ?_, disj := ?_,
                       waqNd := ?_, nodupS := n2, subS := ?_ }
      · simp only [modPipe, any_armed_busy]; exact hR.armed
      · intro y hy; exact hR.pendOk y (by rw [hp]; exact List.mem_cons_of_mem _ hy)
      · simpa using hB
      · intro pk hpk; exact hR.disj pk (by rw [ha]; exact List.mem_cons_of_mem _ hpk)
      · have := hR.waqNd; rw [ha] at this; simp only [List.map_cons, List.nodup_cons] at this; exact this.2
      · intro b hb; exact hR.subS b (s1 b (s2 b hb))

theorem sendSched_eq (V : Variant) {s : State} {p : Nat} (hc : s.cur = some p) :
    sendSched V s p =
      ({ (sendSchedBody V { s with wrReady := true } p).1 with
          writable := (sendSchedBody V { s with wrReady := true } p).1.writable ||
            (!wmqFull (sendSchedBody V { s with wrReady := true } p).1 ||
              (sendSchedBody V { s with wrReady := true } p).1.wrReady) },
       (sendSchedBody V { s with wrReady := true } p).2) := by
  unfold sendSched
  rw [if_neg (by simp [hc])]

theorem sendSched_R {V : Variant} {v1 : Bool} {sS sR : List Bytes} {s : State} {j : PairJ} (nb : Nb)
    {p : Nat} (a0 : Bool) (hc : s.cur = some p)
    (hR : R V v1 sS sR { s with wrReady := true } (liveUpd j (some p) false a0))
    (hle : s.wmq.length ≤ s.wmqCap) :
    ∃ ps dn, (sendSched V s p).2 = ps ++ dn ∧ (∀ o ∈ dn, isDone o = true ∧ tame o = true) ∧
      (ps = [] ∨ ∃ m, ps = [Out.psend p m]) ∧
      ((dn.foldl (pairOut nb) j).live = j.live ∧ (dn.foldl (pairOut nb) j).busy = j.busy ∧
        (dn.foldl (pairOut nb) j).armed = j.armed) ∧
      R V v1 sS sR (sendSched V s p).1
        (ps.foldl (pairOut nb) (liveUpd (dn.foldl (pairOut nb) j) (some p) false a0)) := by
  obtain ⟨ps, dn, h1, h2, h3, h4, h5⟩ := sendSchedBody_R nb a0 hR hc hle
  rw [sendSched_eq V hc]
  exact ⟨ps, dn, h1, h2, h3, h4, R_view (s := (sendSchedBody V { s with wrReady := true } p).1) rfl h5⟩

end Nng.Pair0
