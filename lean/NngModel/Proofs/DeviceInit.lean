/- lemmas about device_init (Model/Device.lean `deviceInit`) -/
import NngModel.Model.Device
import NngModel.Spec.Device
namespace Nng.Device
open Nng Nng.DeviceSpec

/-- the documentation's view of a socket, from what device_init reads -/
def descOf (info : Nat → SockInfo) (s : Nat) : SockDesc :=
  ⟨(info s).proto, (info s).peer, (info s).raw, (info s).canRecv⟩

def dirPairs (ds : List Dir) : List (Nat × Nat) := ds.map fun d => (d.src, d.dst)

theorem mkDirs_one (a b : Nat) : mkDirs a b 1 = [⟨a, b⟩] := by simp [mkDirs, List.range, List.range.loop]
theorem mkDirs_two (a b : Nat) : mkDirs a b 2 = [⟨a, b⟩, ⟨b, a⟩] := by simp [mkDirs, List.range, List.range.loop]

theorem normalise_cases (s1 s2 : Option Nat) :
    normalise s1 s2 =
      match s1, s2 with
      | none, none => (none, none)
      | some a, none => (some a, some a)
      | none, some b => (some b, some b)
      | some a, some b => (some a, some b) := by
  cases s1 <;> cases s2 <;> rfl

/-- device_init on two present sockets -/
def initAB (info : Nat → SockInfo) (a b : Nat) (allocOk : Bool) : Except Nat (List Dir) :=
  if (info a).peer != (info b).proto || (info b).peer != (info a).proto then .error eInval
  else if !(info a).raw then .error eInval
  else if !(info b).raw then .error eInval
  else
    let ab := swapRecv info a b
    let n := numPaths info ab.1 ab.2
    if !allocOk then .error eNomem
    else .ok (mkDirs ab.1 ab.2 n)

theorem deviceInit_eq (info : Nat → SockInfo) (s1 s2 : Option Nat) (allocOk : Bool) :
    deviceInit info s1 s2 allocOk =
      match s1, s2 with
      | none, none => .error eInval
      | some a, none => initAB info a a allocOk
      | none, some b => initAB info b b allocOk
      | some a, some b => initAB info a b allocOk := by
  unfold deviceInit
  rw [normalise_cases]
  cases s1 <;> cases s2 <;> rfl

/-- the result of device_init on present sockets, decision by decision -/
theorem initAB_eq (info : Nat → SockInfo) (a b : Nat) (allocOk : Bool) :
    initAB info a b allocOk =
      if (info a).peer = (info b).proto ∧ (info b).peer = (info a).proto ∧ (info a).raw = true ∧ (info b).raw = true then
        if allocOk = false then .error eNomem
        else if a = b then .ok [⟨a, a⟩]
        else if (info a).canRecv = true ∧ (info b).canRecv = true then .ok [⟨a, b⟩, ⟨b, a⟩]
        else if (info a).canRecv = true then .ok [⟨a, b⟩]
        else .ok [⟨b, a⟩]
      else .error eInval := by
  unfold initAB swapRecv numPaths
  have h2 : Nng.Generated.devInitPaths = 2 := rfl
  by_cases hp1 : (info a).peer = (info b).proto <;> by_cases hp2 : (info b).peer = (info a).proto <;>
    by_cases hr1 : (info a).raw = true <;> by_cases hr2 : (info b).raw = true <;>
    by_cases hm : allocOk = true <;> by_cases hab : a = b <;>
    by_cases hc1 : (info a).canRecv = true <;> by_cases hc2 : (info b).canRecv = true <;>
    simp_all [mkDirs_one, mkDirs_two]

/-- everything device_init decides when it succeeds -/
theorem initAB_ok (info : Nat → SockInfo) (a b : Nat) (m : Bool) (ds : List Dir) (h : initAB info a b m = .ok ds) :
    (info a).peer = (info b).proto ∧ (info b).peer = (info a).proto ∧ (info a).raw = true ∧ (info b).raw = true ∧
    m = true ∧
    ((a = b ∧ ds = [⟨a, a⟩]) ∨
     (a ≠ b ∧ (info a).canRecv = true ∧ (info b).canRecv = true ∧ ds = [⟨a, b⟩, ⟨b, a⟩]) ∨
     (a ≠ b ∧ (info a).canRecv = true ∧ (info b).canRecv = false ∧ ds = [⟨a, b⟩]) ∨
     (a ≠ b ∧ (info a).canRecv = false ∧ ds = [⟨b, a⟩])) := by
  rw [initAB_eq] at h
  by_cases hp1 : (info a).peer = (info b).proto <;> by_cases hp2 : (info b).peer = (info a).proto <;>
    by_cases hr1 : (info a).raw = true <;> by_cases hr2 : (info b).raw = true <;>
    by_cases hm : m = true <;> by_cases hab : a = b <;>
    by_cases hc1 : (info a).canRecv = true <;> by_cases hc2 : (info b).canRecv = true <;>
    simp_all

/-- ... and when it fails -/
theorem initAB_error (info : Nat → SockInfo) (a b : Nat) (m : Bool) (e : Nat) (h : initAB info a b m = .error e) :
    (e = eInval ∧ ¬ ((info a).peer = (info b).proto ∧ (info b).peer = (info a).proto ∧ (info a).raw = true ∧ (info b).raw = true)) ∨
    (e = eNomem ∧ m = false ∧ ∃ ds, initAB info a b true = .ok ds) := by
  rw [initAB_eq] at h
  rw [initAB_eq]
  by_cases hp1 : (info a).peer = (info b).proto <;> by_cases hp2 : (info b).peer = (info a).proto <;>
    by_cases hr1 : (info a).raw = true <;> by_cases hr2 : (info b).raw = true <;>
    by_cases hm : m = true <;> by_cases hab : a = b <;>
    by_cases hc1 : (info a).canRecv = true <;> by_cases hc2 : (info b).canRecv = true <;>
    simp_all

theorem initAB_rule (info : Nat → SockInfo) (a b : Nat) (m : Bool) :
    (initAB info a b m).map dirPairs = (rulePair (descOf info) a b m).map Shape.dirs := by
  rw [initAB_eq]
  unfold rulePair
  by_cases hp1 : (info a).peer = (info b).proto <;> by_cases hp2 : (info b).peer = (info a).proto <;>
    by_cases hr1 : (info a).raw = true <;> by_cases hr2 : (info b).raw = true <;>
    by_cases hm : m = true <;> by_cases hab : a = b <;>
    by_cases hc1 : (info a).canRecv = true <;> by_cases hc2 : (info b).canRecv = true <;>
    simp_all [descOf, Except.map, dirPairs, Shape.dirs, eInval, eNomem, EINVAL, ENOMEM]

end Nng.Device
