/-
  Lemmas for Props/C16Queue.lean, part 1: one ws_read_cb invocation of the queue model (Model/WsQueue.lean) against
  the same invocation of the frame-layer model with an always-posted receive (Model/Ws.lean), message mode.
-/
import NngModel.Model.WsQueue
import NngModel.Proofs.WsRx
set_option linter.unusedSimpArgs false
namespace Nng.WsQ
open Nng Nng.Ws

/-- messages the always-posted model delivered -/
def msgsOf : List Ev → List Bytes
  | [] => []
  | .msg b :: es => b :: msgsOf es
  | _ :: es => msgsOf es

/-- frames the always-posted model wrote -/
def txOf : List Ev → List Bytes
  | [] => []
  | .tx b :: es => b :: txOf es
  | _ :: es => txOf es

/-- frames the queue model wrote -/
def txOfQ : List Out → List Bytes
  | [] => []
  | .tx b :: os => b :: txOfQ os
  | _ :: os => txOfQ os

/-- the complete message waiting in rxq for a receive, if any -/
def held (q : QSt) : List Bytes :=
  if q.w.inmsg = false ∧ q.w.rxq ≠ [] then [q.w.rxq.flatten] else []

/-- the frame-layer state of the always-posted model that corresponds to a queue state: a complete message that
    waits in rxq has already been handed over there, and where the queue model pauses (or has not started) the
    always-posted model has its two-byte read outstanding -/
def absW (q : QSt) : St :=
  { q.w with
    rxq := if q.w.inmsg = true then q.w.rxq else [],
    phase := if q.w.want = 0 ∧ q.w.closed = false then .head else q.w.phase,
    want := if q.w.want = 0 ∧ q.w.closed = false then 2 else q.w.want,
    got := 0, accR := [] }

/-- invariants of the queue model (message mode, no user close) -/
structure Inv (q : QSt) : Prop where
  got : q.w.got = 0
  acc : q.w.accR = []
  rdframe : q.w.want ≠ 0 → q.rxframe = true
  framerd : q.rxframe = true → q.w.want ≠ 0 ∨ q.w.closed = true
  closedIdle : q.w.closed = true → q.recvq = [] ∧ q.w.want = 0
  heldPaused : q.w.inmsg = false → q.w.rxq ≠ [] → q.recvq = [] ∧ q.w.want = 0
  waitReads : q.w.closed = false → q.recvq ≠ [] → q.w.want ≠ 0
  rdphase : q.w.want ≠ 0 → q.w.phase ≠ .idle
  closedCur : q.w.closed = true → q.w.inmsg = false → q.w.rxq = []

/-- state inside ws_read_cb: the read completed (no read outstanding), rxframe is the frame just read -/
structure InCb (q : QSt) : Prop where
  got : q.w.got = 0
  acc : q.w.accR = []
  idle : q.w.want = 0
  open_ : q.w.closed = false
  frame : q.rxframe = true
  cur : q.w.inmsg = false → q.w.rxq = []

/-- what relates the two models after a step -/
structure R (rq : QSt × List Out) (rb : St × List Ev) : Prop where
  st : rb.1 = absW rq.1
  msgs : msgsOf rb.2 = delivered rq.2 ++ held rq.1
  tx : txOf rb.2 = txOfQ rq.2
  inv : Inv rq.1

theorem msgsOf_append (a b : List Ev) : msgsOf (a ++ b) = msgsOf a ++ msgsOf b := by
  induction a with
  | nil => rfl
  | cons x xs ih => cases x <;> simp [msgsOf, ih]

theorem msgsOf_tx (l : List Bytes) : msgsOf (l.map Ev.tx) = [] := by
  induction l with
  | nil => rfl
  | cons x xs ih => simpa [msgsOf] using ih

theorem txOf_append (a b : List Ev) : txOf (a ++ b) = txOf a ++ txOf b := by
  induction a with
  | nil => rfl
  | cons x xs ih => cases x <;> simp [txOf, ih]

theorem txOfQ_append (a b : List Out) : txOfQ (a ++ b) = txOfQ a ++ txOfQ b := by
  induction a with
  | nil => rfl
  | cons x xs ih => cases x <;> simp [txOfQ, ih]

theorem delivered_append (a b : List Out) : delivered (a ++ b) = delivered a ++ delivered b := by
  induction a with
  | nil => rfl
  | cons x xs ih =>
    cases x with
    | tx b => simp [delivered, ih]
    | done id rv d =>
      cases rv with
      | zero => simp [delivered, ih]
      | succ n => simp [delivered, ih]

theorem delivered_fails (l : List Rcv) : delivered (l.map fun r => Out.done r.id closeErr []) = [] := by
  induction l with
  | nil => rfl
  | cons x xs ih => simpa [delivered, closeErr] using ih

theorem txOfQ_fails (l : List Rcv) : txOfQ (l.map fun r => Out.done r.id closeErr []) = [] := by
  induction l with
  | nil => rfl
  | cons x xs ih => simp [txOfQ, ih]

end Nng.WsQ

namespace Nng.WsQ
open Nng Nng.Ws

theorem R_fail (cfg : Cfg) (q : QSt) (h : InCb q) (code : Nat) : R (qFail cfg q code) (fail cfg q.w code) := by
  have hc := h.open_
  have hcur := h.cur
  unfold qFail qClose fail wsClose
  simp only [hc, Bool.false_eq_true, if_false]
  cases he : encodeControl cfg.server q.w.rng opClose (beEncode 2 code) with
  | none =>
    refine ⟨?_, ?_, ?_, ?_⟩
    · simp only [absW]
      cases hi : q.w.inmsg <;> simp_all
    · simp [msgsOf, delivered_fails, held]
      intro hi; exact hcur hi
    · simp [txOf, txOfQ_fails]
    · constructor <;> simp_all
  | some p =>
    obtain ⟨fr, rng'⟩ := p
    refine ⟨?_, ?_, ?_, ?_⟩
    · simp only [absW]
      cases hi : q.w.inmsg <;> simp_all
    · simp [msgsOf, delivered_append, delivered_fails, delivered, held]
      intro hi; exact hcur hi
    · simp [txOf, txOfQ_append, txOfQ_fails, txOfQ]
    · constructor <;> simp_all

end Nng.WsQ

namespace Nng.WsQ
open Nng Nng.Ws

/-- ws_read_finish + ws_start_read after a frame was queued or dropped -/
theorem R_far (cfg : Cfg) (hst : cfg.isstream = false) (q : QSt) (o : List Out) (e : List Ev)
    (hg : q.w.got = 0) (ha : q.w.accR = []) (hi : q.w.want = 0) (hc : q.w.closed = false) (hf : q.rxframe = false)
    (hm : msgsOf e = delivered o) (ht : txOf e = txOfQ o) :
    R (qFinishAndRestart cfg q o) (finishAndRestart cfg q.w e) := by
  unfold qFinishAndRestart finishAndRestart qReadFinish readFinish
  simp only [hst, Bool.false_eq_true, if_false]
  unfold qReadFinishMsg readFinishMsg
  cases hr : q.recvq with
  | nil =>
    simp only [hc, Bool.or_false]
    cases hi2 : q.w.inmsg <;> cases hq : q.w.rxq <;>
      (refine ⟨?_, ?_, ?_, ?_⟩
       · simp [absW, qStartRead, startRead, hf, hc, hr, hi2, hq, hg, ha, hi]
       · simp [msgsOf_append, msgsOf, delivered_append, delivered, held, qStartRead, hf, hc, hr, hi2, hq, hm]
       · simp [txOf_append, txOf, txOfQ_append, txOfQ, ht]
       · constructor <;> simp_all [qStartRead])
  | cons r rest =>
    simp only [hc, Bool.or_false]
    cases hi2 : q.w.inmsg <;> cases hq : q.w.rxq <;>
      (refine ⟨?_, ?_, ?_, ?_⟩
       · simp [absW, qStartRead, startRead, hf, hc, hr, hi2, hq, hg, ha, hi]
       · simp [msgsOf_append, msgsOf, delivered_append, delivered, held, qStartRead, hf, hc, hr, hi2, hq, hm]
       · simp [txOf_append, txOf, txOfQ_append, txOfQ, ht]
       · constructor <;> simp_all [qStartRead])

end Nng.WsQ

namespace Nng.WsQ
open Nng Nng.Ws

theorem sendControl_sim (cfg : Cfg) (q : QSt) (op : Nat) (p : Bytes) :
    (qSendControl cfg q op p).1.w = (sendControl cfg q.w op p).1 ∧
    (qSendControl cfg q op p).1.recvq = q.recvq ∧ (qSendControl cfg q op p).1.rxframe = q.rxframe ∧
    (qSendControl cfg q op p).1.pend = q.pend ∧ (qSendControl cfg q op p).1.used = q.used ∧
    msgsOf (sendControl cfg q.w op p).2 = [] ∧ delivered (qSendControl cfg q op p).2 = [] ∧
    txOf (sendControl cfg q.w op p).2 = txOfQ (qSendControl cfg q op p).2 ∧
    (sendControl cfg q.w op p).1.got = q.w.got ∧ (sendControl cfg q.w op p).1.accR = q.w.accR ∧
    (sendControl cfg q.w op p).1.want = q.w.want ∧ (sendControl cfg q.w op p).1.closed = q.w.closed ∧
    (sendControl cfg q.w op p).1.inmsg = q.w.inmsg ∧ (sendControl cfg q.w op p).1.rxq = q.w.rxq := by
  unfold qSendControl sendControl
  cases hc : q.w.closed
  · cases he : encodeControl cfg.server q.w.rng op p with
    | none => simp [msgsOf, delivered, txOf, txOfQ, hc]
    | some x => obtain ⟨fr, rng'⟩ := x; simp [msgsOf, delivered, txOf, txOfQ, hc]
  · simp [msgsOf, delivered, txOf, txOfQ, hc]

theorem R_frameCb (cfg : Cfg) (hst : cfg.isstream = false) (q : QSt) (h : InCb q) (f : RxFrame) (p : Bytes) :
    R (qFrameCb cfg q f p) (frameCb cfg q.w f p) := by
  have hfar : ∀ im, R (qFinishAndRestart cfg (qAppend q im p) []) (finishAndRestart cfg { q.w with inmsg := im, rxq := q.w.rxq ++ [p] } []) :=
    fun im => R_far cfg hst (qAppend q im p) [] [] h.got h.acc h.idle h.open_ rfl rfl rfl
  unfold qFrameCb frameCb
  by_cases h0 : f.op = 0
  · simp only [h0, if_true]
    cases hi : q.w.inmsg
    · simpa using R_fail cfg q h 1002
    · simpa using hfar (if f.final then false else true)
  simp only [h0, if_false]
  have hdata : R (qDataFrame cfg q f p) (dataFrame cfg q.w f p) := by
    unfold qDataFrame dataFrame
    cases hi : q.w.inmsg
    · simpa using hfar (!f.final)
    · simpa using R_fail cfg q h 1002
  by_cases h1 : f.op = 1
  · simp only [h1, if_true]
    cases cfg.recvText
    · simpa using R_fail cfg q h 1003
    · simpa using hdata
  simp only [h1, if_false]
  by_cases h2 : f.op = 2
  · simp only [h2, if_true]; exact hdata
  simp only [h2, if_false]
  by_cases h9 : f.op = 9
  · simp only [h9, if_true]
    by_cases hl : f.len > 125
    · simp only [hl, if_true]; exact R_fail cfg q h 1002
    · simp only [hl, if_false]
      obtain ⟨e1, e2, e3, _, _, e6, e7, e8, e9, e10, e11, e12, _, _⟩ := sendControl_sim cfg q opPong p
      have := R_far cfg hst (qDrop (qSendControl cfg q opPong p).1) (qSendControl cfg q opPong p).2 (sendControl cfg q.w opPong p).2
        (by simp [qDrop, e1, e9, h.got]) (by simp [qDrop, e1, e10, h.acc]) (by simp [qDrop, e1, e11, h.idle])
        (by simp [qDrop, e1, e12, h.open_]) (by simp [qDrop]) (by rw [e6, e7]) e8
      simpa [qDrop, e1] using this
  simp only [h9, if_false]
  by_cases h10 : f.op = 10
  · simp only [h10, if_true]
    by_cases hl : f.len > 125
    · simp only [hl, if_true]; exact R_fail cfg q h 1002
    · simp only [hl, if_false]
      have := R_far cfg hst (qDrop q) [] [] (by simp [qDrop, h.got]) (by simp [qDrop, h.acc]) (by simp [qDrop, h.idle])
        (by simp [qDrop, h.open_]) (by simp [qDrop]) rfl rfl
      simpa [qDrop] using this
  simp only [h10, if_false]
  by_cases h8 : f.op = 8
  · simp only [h8, if_true]
    rw [if_neg (by simp [h.open_] : ¬ q.w.closed = true)]
    have hq : InCb { q with w := { q.w with peerClosed := true } } := ⟨h.got, h.acc, h.idle, h.open_, h.frame, h.cur⟩
    exact R_fail cfg _ hq 1000
  simp only [h8, if_false]
  exact R_fail cfg q h 1002

end Nng.WsQ

namespace Nng.WsQ
open Nng Nng.Ws

/-- ws_read_cb asks for more bytes of the same frame -/
theorem R_more (q : QSt) (h : InCb q) (ph : Phase) (n : Nat) (hn : n ≠ 0) (hph : ph ≠ .idle) :
    R ({ q with w := { q.w with phase := ph, want := n, got := 0, accR := [] } }, [])
      ({ q.w with phase := ph, want := n, got := 0, accR := [] }, []) := by
  have hcur := h.cur
  refine ⟨?_, ?_, ?_, ?_⟩
  · simp only [absW]
    cases hi : q.w.inmsg <;> simp_all
  · simp [msgsOf, delivered, held]; intro hi; exact hcur hi
  · rfl
  · constructor <;> simp_all [h.frame, h.open_]

theorem R_complete (cfg : Cfg) (hst : cfg.isstream = false) (q : QSt) (h : InCb q) (f : RxFrame) (p : Bytes) :
    R (qComplete cfg q f p) (complete cfg q.w f p) := R_frameCb cfg hst q h f _

theorem R_acceptHdr (cfg : Cfg) (hst : cfg.isstream = false) (q : QSt) (h : InCb q) (f0 : RxFrame) :
    R (qAcceptHdr cfg q f0) (acceptHdr cfg q.w f0) := by
  unfold qAcceptHdr acceptHdr
  by_cases hz : hdrLen f0 ≠ 0
  · rw [if_pos hz, if_pos hz]
    by_cases hb : hdrLen f0 ≥ 126 ∧ hdrLen f0 > cfg.allocLimit
    · rw [if_pos hb, if_pos hb]; exact R_fail cfg q h 1011
    · rw [if_neg hb, if_neg hb]; exact R_more q h _ _ hz (by intro h; cases h)
  · rw [if_neg hz, if_neg hz]; exact R_complete cfg hst q h _ _

theorem R_checks (cfg : Cfg) (hst : cfg.isstream = false) (q : QSt) (h : InCb q) (f0 : RxFrame) :
    R (qChecks cfg q f0) (checks cfg q.w f0) := by
  unfold qChecks checks
  by_cases c1 : f0.b1.toNat % 128 = 127 ∧ hdrLen f0 < 65536
  · simp only [c1, and_self, if_true]; exact R_fail cfg q h 1002
  simp only [c1, if_false]
  by_cases c2 : f0.b1.toNat % 128 = 126 ∧ hdrLen f0 < 126
  · simp only [c2, and_self, if_true]; exact R_fail cfg q h 1002
  simp only [c2, if_false]
  by_cases c3 : hdrLen f0 > cfg.maxframe ∧ cfg.maxframe > 0
  · simp only [c3, and_self, if_true]; exact R_fail cfg q h 1009
  simp only [c3, if_false]
  by_cases c4 : cfg.isstream = false ∧ cfg.recvmax > 0 ∧ (Generated.wsRecvmaxSkipsControl = false ∨ f0.op / 8 % 2 = 0) ∧
      totlen q.w (hdrLen f0) > cfg.recvmax
  · rw [if_pos c4, if_pos c4]; exact R_fail cfg q h 1009
  rw [if_neg c4, if_neg c4]
  by_cases c5 : f0.masked = true ∧ cfg.server = false
  · rw [if_pos c5, if_pos c5]; exact R_fail cfg q h 1002
  rw [if_neg c5, if_neg c5]
  by_cases c6 : f0.masked = false ∧ cfg.server = true
  · rw [if_pos c6, if_pos c6]; exact R_fail cfg q h 1002
  rw [if_neg c6, if_neg c6]
  exact R_acceptHdr cfg hst q h f0

theorem R_headCb (cfg : Cfg) (hst : cfg.isstream = false) (q : QSt) (h : InCb q) (b0 b1 : UInt8) :
    R (qHeadCb cfg q b0 b1) (headCb cfg q.w b0 b1) := by
  unfold qHeadCb headCb
  simp only []
  generalize hh : (2 + (if decide (b1.toNat ≥ 128) = true then 4 else 0) +
    (if b1.toNat % 128 = 127 then 8 else if b1.toNat % 128 = 126 then 2 else 0)) = hl
  have hge : 2 ≤ hl := by
    rw [← hh]; exact Nat.le_trans (Nat.le_add_right 2 _) (Nat.le_add_right _ _)
  by_cases hne : hl ≠ 2
  · rw [if_pos hne, if_pos hne]
    exact R_more q h _ _ (by omega) (by intro h; cases h)
  · rw [if_neg hne, if_neg hne]
    exact R_checks cfg hst q h _

theorem InCb_idle (q : QSt) (hi : Inv q) (hw : q.w.want ≠ 0) : InCb (qIdle q) := by
  have hc : q.w.closed = false := by
    cases hcl : q.w.closed
    · rfl
    · exact absurd (hi.closedIdle hcl).2 hw
  refine ⟨rfl, rfl, rfl, hc, hi.rdframe hw, ?_⟩
  intro him
  show q.w.rxq = []
  cases hq : q.w.rxq with
  | nil => rfl
  | cons x xs => exact absurd (hi.heldPaused him (by simp [hq])).2 hw

/-- one ws_read_cb of the queue model against one of the always-posted model, from the same frame-layer state -/
theorem R_readCb (cfg : Cfg) (hst : cfg.isstream = false) (q : QSt) (hi : Inv q) (hw : q.w.want ≠ 0) (bytes : Bytes) :
    R (qReadCb cfg q bytes) (readCb cfg q.w bytes) := by
  have h := InCb_idle q hi hw
  unfold qReadCb readCb
  cases hp : q.w.phase with
  | head => exact R_headCb cfg hst (qIdle q) h _ _
  | ext f => exact R_checks cfg hst (qIdle q) h _
  | data f => exact R_complete cfg hst (qIdle q) h f bytes
  | idle => exact absurd hp (hi.rdphase hw)

end Nng.WsQ
