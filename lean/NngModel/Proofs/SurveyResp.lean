/-
  Lemmas about the RESPONDENT model (Model/Respond.lean): the routing invariant behind S6.
-/
import NngModel.Model.Respond
namespace Nng.Respond
open Nng Nng.Proto

/-- per-context invariant -/
structure CtxR (c : Ctx) : Prop where
  /-- a pending survey's saved backtrace and pipe are those of the survey most recently
      handed to the context -/
  bt : c.btrace ≠ [] → ∃ p, c.pipeId = some p ∧ c.last = some (p, c.btrace)
  /-- a parked response carries the backtrace that was pending when it was submitted -/
  sa : ∀ ps, c.saio = some ps → ∃ p, ps.exp = some (p, ps.m.hdr)

/-- a wire hand-over is sound: header = backtrace of the survey the context had last
    received when it submitted the send; for a direct hand-over also pipe = that survey's -/
def WOK (w : Wire) : Prop := ∃ p, w.expected = some (p, w.m.hdr) ∧ (w.direct = true → p = w.pipe)

structure RInvCore (ctxs : List Ctx) (wire : List Wire) : Prop where
  ctxsOK : ∀ c ∈ ctxs, CtxR c
  wireOK : ∀ w ∈ wire, WOK w

def RInv (s : State) : Prop := RInvCore s.ctxs s.wire

theorem mem_setCtx {s : State} {c' q : Ctx} (h : q ∈ (setCtx s c').ctxs) : q = c' ∨ q ∈ s.ctxs := by
  simp only [setCtx, List.mem_map] at h
  obtain ⟨x, hx, rfl⟩ := h
  by_cases hk : (x.key == c'.key) = true
  · simp [hk]
  · simp [hk, hx]

theorem getCtx_mem {s : State} {k : Option Nat} {c : Ctx} (h : getCtx s k = some c) : c ∈ s.ctxs :=
  List.mem_of_find?_eq_some h

theorem rinv_setCtx {s : State} {c' : Ctx} (h : RInv s) (hc : CtxR c') : RInv (setCtx s c') := by
  refine ⟨?_, h.wireOK⟩
  intro q hq
  rcases mem_setCtx hq with rfl | hq
  · exact hc
  · exact h.ctxsOK q hq

theorem rinv_same {s s' : State} (h : RInv s) (h1 : s'.ctxs = s.ctxs) (h2 : s'.wire = s.wire) : RInv s' := by
  unfold RInv; rw [h1, h2]; exact h

theorem raiseWritableIf_rinv {s : State} (b : Bool) (h : RInv s) : RInv (raiseWritableIf s b) := by
  unfold raiseWritableIf; split <;> exact h

theorem setWritableFor_rinv {s : State} (k : Option Nat) (b : Bool) (h : RInv s) : RInv (setWritableFor s k b) := by
  unfold setWritableFor; split <;> exact h

theorem ctxR_clear_saio {c : Ctx} (h : CtxR c) : CtxR { c with saio := none } :=
  ⟨h.bt, by intro ps hps; simp at hps⟩

theorem ctxR_clear_raio {c : Ctx} (h : CtxR c) (r : Option PRecv) : CtxR { c with raio := r } :=
  ⟨h.bt, h.sa⟩

theorem ctxR_take {c : Ctx} (h : CtxR c) (p : Nat) (wm : WMsg) : CtxR (takeSurvey c p wm) :=
  ⟨fun _ => ⟨p, rfl, rfl⟩, h.sa⟩

theorem dropRecvPipe_fields (s : State) (p : Nat) :
    (dropRecvPipe s p).ctxs = s.ctxs ∧ (dropRecvPipe s p).wire = s.wire := by
  unfold dropRecvPipe; split <;> exact ⟨rfl, rfl⟩

theorem closePipe_rinv {s : State} (p : Nat) (h : RInv s) : RInv (closePipe s p).1 := by
  unfold closePipe
  split
  · exact h
  · split
    · exact h
    · rename_i pp _ _
      simp only
      obtain ⟨e1, e2⟩ := dropRecvPipe_fields s p
      have h1 : RInv (dropRecvPipe s p) := rinv_same h e1 e2
      generalize dropRecvPipe s p = s1 at h1 ⊢
      refine rinv_same (s := { s1 with ctxs := s1.ctxs.map fun c => if pp.sendq.contains c.key then { c with saio := none } else c }) ?_ ?_ ?_
      · refine ⟨?_, h1.wireOK⟩
        intro q hq
        simp only [List.mem_map] at hq
        obtain ⟨c, hc, rfl⟩ := hq
        split
        · exact ctxR_clear_saio (h1.ctxsOK c hc)
        · exact h1.ctxsOK c hc
      · simp only [setPipe, raiseWritableIf]; split <;> rfl
      · simp only [setPipe, raiseWritableIf]; split <;> rfl

theorem pipeRecv_rinv {s : State} (pp : Pipe) (wm : WMsg) (h : RInv s) : RInv (pipeRecv s pp wm).1 := by
  unfold pipeRecv
  split
  · exact h
  · split
    · exact h
    · rename_i c hg
      split
      · exact h
      · simp only
        apply setWritableFor_rinv
        apply rinv_setCtx (s := { s with recvq := _ }) h
        exact ctxR_take (ctxR_clear_raio (h.ctxsOK c (getCtx_mem hg)) none) _ _

theorem ctxRecv_rinv {s : State} {c : Ctx} (a : Nat) (mode : Mode) (h : RInv s) (hc : c ∈ s.ctxs) :
    RInv (ctxRecv s c a mode).1 := by
  have hok := h.ctxsOK c hc
  unfold ctxRecv
  split
  · split
    · exact h
    · split
      · exact h
      · simp only
        exact rinv_setCtx h (ctxR_clear_raio hok _)
  · split
    · exact h
    · split
      · exact h
      · simp only
        apply setWritableFor_rinv
        apply rinv_setCtx _ (ctxR_take hok _ _)
        apply rinv_same (s := s) h
        · simp only [setPipe]; split <;> rfl
        · simp only [setPipe]; split <;> rfl

theorem livePipe_id {s : State} {p : Nat} {pp : Pipe} (h : livePipe s (some p) = some pp) : pp.id = p := by
  unfold livePipe at h
  simp only at h
  split at h
  · rename_i q hq
    split at h
    · simp at h
    · simp only [Option.some.injEq] at h
      subst h
      have := List.find?_some hq
      simpa using this
  · simp at h

theorem handOver_fields (s : State) (pp : Pipe) (w : Wire) :
    (handOver s pp w).ctxs = s.ctxs ∧ (handOver s pp w).wire = s.wire ++ [w] := by
  unfold handOver
  simp only
  constructor
  · split <;> simp [setPipe]
  · split <;> simp [setPipe]

theorem ctxSend_rinv {s : State} {c : Ctx} (a : Nat) (m : WMsg) (mode : Mode) (h : RInv s) (hc : c ∈ s.ctxs) :
    RInv (ctxSend s c a m mode).1 := by
  have hok := h.ctxsOK c hc
  unfold ctxSend
  simp only
  have h0 : RInv (if c.key == none then { s with writable := false } else s) := by
    split <;> exact h
  generalize (if c.key == none then { s with writable := false } else s) = s0 at h0 ⊢
  split
  · exact h0
  · split
    · exact h0
    · split
      · exact h0
      · rename_i hbt
        have hc1 : CtxR { c with btrace := [], pipeId := none } := ⟨by simp, hok.sa⟩
        have h1 : RInv (setCtx s0 { c with btrace := [], pipeId := none }) := rinv_setCtx h0 hc1
        split
        · exact h1
        · rename_i pp hl
          have hne : c.btrace ≠ [] := by
            intro he; simp [he] at hbt
          obtain ⟨p, hp, hlast⟩ := hok.bt hne
          rw [hp] at hl
          have hid := livePipe_id hl
          split
          · obtain ⟨e1, e2⟩ := handOver_fields (setCtx s0 { c with btrace := [], pipeId := none }) pp
              ⟨pp.id, ⟨c.btrace, m.body⟩, c.key, c.last, true⟩
            unfold RInv
            simp only
            rw [e1, e2]
            refine ⟨h1.ctxsOK, ?_⟩
            intro w hw
            simp only [List.mem_append, List.mem_singleton] at hw
            rcases hw with hw | rfl
            · exact h1.wireOK w hw
            · exact ⟨p, hlast, fun _ => hid.symm⟩
          · apply rinv_same (s := setCtx (setCtx s0 { c with btrace := [], pipeId := none })
                { c with btrace := [], pipeId := none, saio := some ⟨a, ⟨c.btrace, m.body⟩, deadlineOf (setCtx s0 { c with btrace := [], pipeId := none }).now mode, pp.id, c.last⟩ })
            · apply rinv_setCtx h1
              refine ⟨by simp, ?_⟩
              intro ps hps
              simp only [Option.some.injEq] at hps
              subst hps
              exact ⟨p, hlast⟩
            · simp [setPipe]
            · simp [setPipe]

theorem pipeSent_rinv {s : State} (pp : Pipe) (h : RInv s) : RInv (pipeSent s pp).1 := by
  unfold pipeSent
  split
  · simp only
    apply raiseWritableIf_rinv
    exact rinv_same h (by simp [setPipe]) (by simp [setPipe])
  · split
    · exact h
    · rename_i c hg
      split
      · exact h
      · rename_i ps hps
        have hok := h.ctxsOK c (getCtx_mem hg)
        simp only
        refine ⟨?_, ?_⟩
        · intro q hq
          rcases mem_setCtx hq with rfl | hq
          · exact ctxR_clear_saio hok
          · exact h.ctxsOK q (by simpa [setPipe] using hq)
        · intro w hw
          simp only [setCtx, setPipe, List.mem_append, List.mem_singleton] at hw
          rcases hw with hw | rfl
          · exact h.wireOK w hw
          · obtain ⟨p, hp⟩ := hok.sa ps hps
            exact ⟨p, hp, by simp⟩

theorem cancelAio_rinv {s : State} (a rv : Nat) (h : RInv s) : RInv (cancelAio s a rv).1 := by
  unfold cancelAio
  split
  · rename_i c hf
    have hc : c ∈ s.ctxs := List.mem_of_find?_eq_some hf
    simp only
    exact rinv_setCtx (s := { s with pipes := _ }) h (ctxR_clear_saio (h.ctxsOK c hc))
  · split
    · rename_i c hf
      have hc : c ∈ s.ctxs := List.mem_of_find?_eq_some hf
      simp only
      exact rinv_setCtx (s := { s with recvq := _ }) h (ctxR_clear_raio (h.ctxsOK c hc) none)
    · exact h

theorem foldl_rinv {α : Type} (f : State → α → State × List Out) (hf : ∀ s x, RInv s → RInv (f s x).1)
    (xs : List α) (acc : State × List Out) (h : RInv acc.1) :
    RInv (xs.foldl (fun (acc : State × List Out) x => ((f acc.1 x).1, acc.2 ++ (f acc.1 x).2)) acc).1 := by
  induction xs generalizing acc with
  | nil => exact h
  | cons x rest ih => simp only [List.foldl_cons]; exact ih _ (hf _ _ h)

theorem expire_rinv {s : State} (h : RInv s) : RInv (expire s).1 := by
  unfold expire
  exact foldl_rinv (fun s a => cancelAio s a Err.etimedout) (fun s a h => cancelAio_rinv a _ h) _ (s, []) h

theorem closeCtx_rinv {s : State} {c : Ctx} (h : RInv s) (hc : c ∈ s.ctxs) : RInv (closeCtx s c).1 := by
  have hok := h.ctxsOK c hc
  unfold closeCtx
  simp only
  apply rinv_setCtx _ (ctxR_clear_raio (ctxR_clear_saio hok) none)
  apply rinv_same h
  · split <;> split <;> rfl
  · split <;> split <;> rfl

theorem closeCtxs_rinv {s : State} (sel : Ctx → Bool) (h : RInv s) : RInv (closeCtxs s sel).1 := by
  unfold closeCtxs
  generalize s.ctxs = xs
  have : ∀ (acc : State × List Out), RInv acc.1 →
      RInv (xs.foldl (fun (acc : State × List Out) c =>
        if sel c = true then
          match getCtx acc.1 c.key with
          | some c' => ((closeCtx acc.1 c').1, acc.2 ++ (closeCtx acc.1 c').2)
          | none => acc
        else acc) acc).1 := by
    induction xs with
    | nil => intro acc h; exact h
    | cons x rest ih =>
      intro acc h
      simp only [List.foldl_cons]
      apply ih
      split
      · split
        · rename_i c' hg
          exact closeCtx_rinv h (getCtx_mem hg)
        · exact h
      · exact h
  exact this (s, []) h

theorem closePipes_rinv {s : State} (h : RInv s) : RInv (closePipes s).1 := by
  unfold closePipes
  exact foldl_rinv (fun s (pp : Pipe) => closePipe s pp.id) (fun s pp h => closePipe_rinv pp.id h) _ (s, []) h

theorem closeAll_rinv {s : State} (h : RInv s) : RInv (closeAll s).1 := by
  unfold closeAll
  exact closeCtxs_rinv _ (closePipes_rinv (closeCtxs_rinv _ h))

theorem rinv_init : RInv ({} : State) := ⟨by simp, by simp⟩

theorem step_rinv (s : State) (ev : Ev) (h : RInv s) : RInv (step s ev).1 := by
  unfold step
  split
  · cases ev <;> try exact h
    case openSock p r =>
      refine ⟨?_, h.wireOK⟩
      intro q hq
      simp only [List.mem_singleton] at hq
      subst hq
      exact ⟨by simp, by simp⟩
  · split
    · cases ev <;> exact h
    · cases ev with
      | openSock _ _ => exact h
      | pipeAdd peer => simp only; split <;> exact h
      | pipeDrop p =>
        simp only
        split
        · split
          · exact h
          · exact closePipe_rinv p h
        · exact h
      | sendDone p rv =>
        simp only
        split
        · split
          · exact h
          · split
            · exact closePipe_rinv p h
            · exact pipeSent_rinv _ h
        · exact h
      | recvDone p r =>
        simp only
        split
        · split
          · exact h
          · split
            · exact closePipe_rinv p h
            · split
              · exact h
              · exact closePipe_rinv p h
              · exact pipeRecv_rinv _ _ h
        · exact h
      | send k a m mode =>
        simp only
        split
        · exact h
        · split
          · exact h
          · rename_i c hg
            exact ctxSend_rinv a m mode h (getCtx_mem hg)
      | recv k a mode =>
        simp only
        split
        · exact h
        · split
          · exact h
          · rename_i c hg
            exact ctxRecv_rinv a mode h (getCtx_mem hg)
      | cancel a => exact cancelAio_rinv a _ h
      | abort a rv => exact cancelAio_rinv a rv h
      | advance ms => exact expire_rinv (s := { s with now := s.now + ms }) h
      | ctxOpen k =>
        simp only
        split
        · exact h
        · split
          · exact h
          · refine ⟨?_, h.wireOK⟩
            intro q hq
            simp only [List.mem_append, List.mem_singleton] at hq
            rcases hq with hq | rfl
            · exact h.ctxsOK q hq
            · exact ⟨by simp, by simp⟩
      | ctxClose k =>
        simp only
        split
        · exact h
        · rename_i c hg
          have h1 := closeCtx_rinv h (getCtx_mem hg)
          refine ⟨?_, h1.wireOK⟩
          intro q hq
          exact h1.ctxsOK q (List.mem_filter.mp hq).1
      | setopt k name ty v =>
        simp only
        split
        · split <;> exact h
        · exact h
      | getopt k name ty => simp only; split <;> exact h
      | poll => exact h
      | sub _ _ => exact h
      | unsub _ _ => exact h
      | close => exact closeAll_rinv h

theorem run_rinv (s : State) (evs : List Ev) (h : RInv s) : RInv (run s evs).1 := by
  induction evs generalizing s with
  | nil => exact h
  | cons e es ih => simp only [run]; exact ih _ (step_rinv s e h)

end Nng.Respond
