/-
  Raw judges vs raw models: the simulation relation `R s j` between a state of the raw
  SURVEYOR / RESPONDENT model (`Model/RawSurv.lean`) and a state of the judge
  (`Spec/RawSurvey.lean: XJ`), frame lemmas, and the end-of-step checks.
-/
import NngModel.Proofs.RawJudgeHeld
import NngModel.Proofs.RawSurvStep
namespace Nng.RawSurv
open Nng Nng.Proto Nng.RawMq Nng.RawSurveySpec

/-- the relation does not look at the `armed` flag of a pipe -/
def strip (pp : Pipe) : Pipe := { pp with armed := false }

/-- what the judge expects on the wire of pipe `p`: exactly what waits in the pipe's send queue -/
def accOf (p : Nat) (pp : Pipe) : List Held :=
  if pp.closed then [] else pp.sq.items.map (fun m => ⟨p, m.hdr, m.body, false⟩)

/-- one pipe of the model vs what the judge knows about that pipe -/
structure PRel (j : XJ) (p : Nat) (pp : Pipe) : Prop where
  live : p ∈ j.live ↔ pp.closed = false
  busy : pp.closed = false → (p ∈ j.busy ↔ pp.busy = true)
  idle : pp.closed = false → (pp.busy = false ↔ pp.sq.getq ≠ [])
  acc : j.acc.filter (·.pipe == p) = accOf p pp
  wired : ∀ b, (p, b) ∈ j.wired → b ∈ pp.wired.map (·.body)

/-- the judge knows no pipe index ≥ `n` -/
structure POut (j : XJ) (n : Nat) : Prop where
  live : ∀ p ∈ j.live, p < n
  busy : ∀ p ∈ j.busy, p < n
  acc : ∀ a ∈ j.acc, a.pipe < n
  wired : ∀ x ∈ j.wired, x.1 < n

/-- the relation, without the clause about the remembered poll result -/
structure Rc (s : State) (j : XJ) : Prop where
  err : j.err = none
  jclosed : j.closed = false
  ttl : j.ttl = s.ttl
  liveN : j.live.Nodup
  pipes : ∀ p pp, s.pipes[p]? = some pp → PRel j p pp
  out : POut j s.pipes.length
  recvs : j.recvs = s.urq.getq.map (fun g => (g.tag, false))
  tags : (s.urq.getq.map (·.tag)).Nodup
  sends : j.sends = []
  held : ∃ ips, ips.length = s.urq.items.length ∧
    HR (fun p => p < s.pipes.length ∧ p ∉ j.live) j.held (pendP ips s.urq)
  heldN : (j.held.map (·.body)).Nodup
  heldA : ∀ h ∈ j.held, h.body ∈ s.accepted.map (·.m.body)
  heldP : ∀ h ∈ j.held, h.pipe < s.pipes.length

structure R (s : State) (j : XJ) : Prop where
  core : Rc s j
  polled : ∀ rd wr, j.polled = some (rd, wr) → rd = recvable s.urq ∧ wr = sendable s.uwq

theorem R_init : R ({} : State) ({} : XJ) := by
  refine ⟨⟨rfl, rfl, rfl, by simp, ?_, ⟨by simp, by simp, by simp, by simp⟩, rfl, by simp, rfl, ⟨[], rfl, .nil⟩, by simp, by simp, by simp⟩, ?_⟩
  · intro p pp h; simp at h
  · intro rd wr h; cases h

/-! ### frames -/

theorem strip_fields {pp pp1 : Pipe} (e : strip pp1 = strip pp) :
    pp1.closed = pp.closed ∧ pp1.busy = pp.busy ∧ pp1.sq = pp.sq ∧ pp1.wired = pp.wired := by
  have h1 : (strip pp1).closed = (strip pp).closed := by rw [e]
  have h2 : (strip pp1).busy = (strip pp).busy := by rw [e]
  have h3 : (strip pp1).sq = (strip pp).sq := by rw [e]
  have h4 : (strip pp1).wired = (strip pp).wired := by rw [e]
  exact ⟨h1, h2, h3, h4⟩

theorem PRel.congr {j : XJ} {p : Nat} {pp pp1 : Pipe} (h : PRel j p pp) (e : strip pp1 = strip pp) : PRel j p pp1 := by
  obtain ⟨e1, e2, e3, e4⟩ := strip_fields e
  refine ⟨?_, ?_, ?_, ?_, ?_⟩
  · rw [e1]; exact h.live
  · rw [e1, e2]; exact h.busy
  · rw [e1, e2, e3]; exact h.idle
  · have : accOf p pp1 = accOf p pp := by unfold accOf; rw [e1, e3]
    rw [this]; exact h.acc
  · rw [e4]; exact h.wired

theorem strip_get {ps ps1 : List Pipe} (e : ps1.map strip = ps.map strip) {p : Nat} {pp1 : Pipe} (h : ps1[p]? = some pp1) :
    ∃ pp, ps[p]? = some pp ∧ strip pp1 = strip pp := by
  have := congrArg (·[p]?) e
  simp only [List.getElem?_map, h, Option.map_some] at this
  cases hp : ps[p]? with
  | none => rw [hp] at this; cases this
  | some pp => rw [hp] at this; exact ⟨pp, rfl, by simpa using this⟩

/-- the model state changed only in parts the relation does not look at -/
theorem Rc.frame {s s1 : State} {j : XJ} (h : Rc s j) (ht : s1.ttl = s.ttl) (hp : s1.pipes.map strip = s.pipes.map strip)
    (hu : s1.urq = s.urq) (ha : s1.accepted = s.accepted) : Rc s1 j := by
  have hl : s1.pipes.length = s.pipes.length := by
    have := congrArg List.length hp; simpa using this
  refine ⟨h.err, h.jclosed, by rw [ht]; exact h.ttl, h.liveN, ?_, by rw [hl]; exact h.out, by rw [hu]; exact h.recvs,
    by rw [hu]; exact h.tags, h.sends, by rw [hu, hl]; exact h.held, h.heldN, by rw [ha]; exact h.heldA, by rw [hl]; exact h.heldP⟩
  intro p pp1 hg
  obtain ⟨pp, hg0, e⟩ := strip_get hp hg
  exact (h.pipes p pp hg0).congr e

theorem strip_set {ps : List Pipe} {p : Nat} {pp pp1 : Pipe} (hg : ps[p]? = some pp) (e : strip pp1 = strip pp) :
    (ps.set p pp1).map strip = ps.map strip := by
  apply List.ext_getElem?
  intro i
  simp only [List.getElem?_map, List.getElem?_set]
  by_cases hi : p = i
  · subst hi
    have hl : p < ps.length := by
      rcases Nat.lt_or_ge p ps.length with h | h
      · exact h
      · rw [List.getElem?_eq_none h] at hg; cases hg
    have hge : ps[p] = pp := by
      have := List.getElem?_eq_getElem hl
      rw [hg] at this; exact (Option.some.inj this).symm
    simp [hl, e, hge]
  · simp [hi]

theorem strip_armed (pp : Pipe) (b : Bool) : strip { pp with armed := b } = strip pp := rfl

theorem setPipe_armed_strip {s : State} {p : Nat} {pp : Pipe} (hg : getPipe s p = some pp) (b : Bool) :
    (setPipe s p { pp with armed := b }).pipes.map strip = s.pipes.map strip :=
  strip_set hg (strip_armed pp b)

theorem armPipe_strip (s : State) (p : Nat) : (armPipe s p).pipes.map strip = s.pipes.map strip := by
  unfold armPipe
  cases hg : getPipe s p with
  | none => rfl
  | some pp => exact setPipe_armed_strip hg true

theorem armPipe_rest (s : State) (p : Nat) :
    (armPipe s p).ttl = s.ttl ∧ (armPipe s p).urq = s.urq ∧ (armPipe s p).uwq = s.uwq ∧ (armPipe s p).accepted = s.accepted ∧
    (armPipe s p).sent = s.sent ∧ (armPipe s p).closed = s.closed ∧ (armPipe s p).opened = s.opened := by
  unfold armPipe
  cases getPipe s p <;> exact ⟨rfl, rfl, rfl, rfl, rfl, rfl, rfl⟩

/-- a batch of `queued` completions only re-arms receives and prints `parm` -/
theorem applyQueued_sim : ∀ (es : List MqEv) (s : State) (acc : List Out), (∀ e ∈ es, ∃ w, e = .queued w) →
    ∃ ps os, (es.foldl (fun (acc : State × List Out) e =>
      let (s', o) := urqEvent acc.1 e
      (s', acc.2 ++ o)) (s, acc)) = ({ s with pipes := ps }, acc ++ os) ∧ ps.map strip = s.pipes.map strip ∧
      ∀ o ∈ os, ∃ p, o = Out.parm p := by
  intro es
  induction es with
  | nil => intro s acc _; exact ⟨s.pipes, [], by simp, rfl, by simp⟩
  | cons e es ih =>
    intro s acc h
    obtain ⟨w, rfl⟩ := h e (by simp)
    simp only [List.foldl_cons, urqEvent_queued]
    obtain ⟨ps2, os2, e2, h2, h3⟩ := ih (armPipe s w.tag) (acc ++ [.parm w.tag]) (fun e he => h e (by simp [he]))
    obtain ⟨ps1, e1, _⟩ := armPipe_eq (fun _ _ => none) 0 s w.tag
    refine ⟨ps2, .parm w.tag :: os2, ?_, ?_, ?_⟩
    · rw [e2, e1]; simp
    · rw [h2]; exact armPipe_strip s w.tag
    · intro o ho
      simp only [List.mem_cons] at ho
      rcases ho with rfl | ho
      · exact ⟨_, rfl⟩
      · exact h3 o ho

/-! ### the judge state changed only in the remembered poll -/

theorem Rc.polled {s : State} {j : XJ} (h : Rc s j) (x : Option (Bool × Bool)) : Rc s { j with polled := x } :=
  ⟨h.err, h.jclosed, h.ttl, h.liveN, fun p pp hg => ⟨(h.pipes p pp hg).live, (h.pipes p pp hg).busy, (h.pipes p pp hg).idle,
    (h.pipes p pp hg).acc, (h.pipes p pp hg).wired⟩, ⟨h.out.live, h.out.busy, h.out.acc, h.out.wired⟩, h.recvs, h.tags, h.sends, h.held,
    h.heldN, h.heldA, h.heldP⟩

/-! ### the checks at the end of a judge step -/

theorem lt_of_get {α : Type} {l : List α} {p : Nat} {x : α} (h : l[p]? = some x) : p < l.length := by
  rcases Nat.lt_or_ge p l.length with h1 | h1
  · exact h1
  · rw [List.getElem?_eq_none h1] at h; cases h

theorem Rc.no_definite {s : State} {j : XJ} (h : Rc s j)
    (hq : s.urq.items = [] ∧ s.urq.putq = []) : j.held.any (fun h => !h.maybe) = false := by
  obtain ⟨ips, hl, hr⟩ := h.held
  rw [pendP_nil _ _ hq.1 hq.2] at hr
  exact hr.nil_maybe

theorem endChk_ok {k : Kind} {sel : Sel} {s : State} {j : XJ} (hI : Inv k sel s) (h : Rc s j) : endChk j = j := by
  unfold endChk
  rw [if_neg (by simp [h.jclosed])]
  have h1 : (!j.recvs.isEmpty && j.held.any (fun h => !h.maybe)) = false := by
    cases hg : s.urq.getq with
    | nil => rw [h.recvs, hg]; rfl
    | cons g gs =>
      have := hI.core.urq.rd (by rw [hg]; simp)
      rw [h.no_definite this]; simp
  rw [if_neg (by simp [h1])]
  have h2 : j.acc.find? (fun (a : Held) => j.live.contains a.pipe && !(j.busy.contains a.pipe)) = none := by
    rw [List.find?_eq_none]
    intro a ha
    have hlt := h.out.acc a ha
    obtain ⟨pp, hg⟩ : ∃ pp, s.pipes[a.pipe]? = some pp := by
      rw [List.getElem?_eq_getElem hlt]; exact ⟨_, rfl⟩
    have hp := h.pipes a.pipe pp hg
    have hm : a ∈ j.acc.filter (·.pipe == a.pipe) := List.mem_filter.2 ⟨ha, by simp⟩
    rw [hp.acc] at hm
    unfold accOf at hm
    by_cases hc : pp.closed = true
    · rw [if_pos hc] at hm; cases hm
    · rw [if_neg hc] at hm
      have hc : pp.closed = false := by simpa using hc
      have hne : pp.sq.items ≠ [] := by
        intro e; rw [e] at hm; cases hm
      have hgq : pp.sq.getq = [] := by
        cases hq : pp.sq.getq with
        | nil => rfl
        | cons r rs => exact absurd ((hI.core.pipes a.pipe pp hg).idle (by rw [hq]; simp)).1 hne
      have hb : pp.busy = true := by
        cases hb : pp.busy with
        | true => rfl
        | false => exact absurd hgq ((hp.idle hc).1 hb)
      have : a.pipe ∈ j.busy := (hp.busy hc).2 hb
      simp [this]
  rw [h2]

theorem nbChk_none (outs : List Out) (j : XJ) : nbChk none outs j = j := rfl

theorem nbChk_some (a : Nat) (outs : List Out) (j : XJ)
    (h : ∃ rv m mb, Out.done a rv m mb ∈ outs) : nbChk (some a) outs j = j := by
  unfold nbChk
  simp only []
  rw [if_pos]
  obtain ⟨rv, m, mb, hm⟩ := h
  rw [List.any_eq_true]
  exact ⟨_, List.mem_filter.2 ⟨hm, rfl⟩, by simp⟩

/-- end of a judge step -/
theorem finish {k : Kind} {sel : Sel} {s1 : State} {j1 : XJ} (hI : Inv k sel s1) (hR : Rc s1 j1) (nb : Option Nat)
    (outs : List Out) (hnb : nbChk nb outs j1 = j1) (hbl : outs.any isBlocked = false)
    (hp : ∀ rd wr, pollOf outs = some (rd, wr) → rd = recvable s1.urq ∧ wr = sendable s1.uwq) :
    R s1 (xPost nb outs j1) := by
  unfold xPost
  rw [hnb]
  unfold blockedChk
  rw [if_neg (by simp [hbl])]
  rw [endChk_ok hI (hR.polled _)]
  exact ⟨hR.polled _, hp⟩

end Nng.RawSurv
