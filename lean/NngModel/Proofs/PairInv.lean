/-
  C08: state invariant of the PAIR machine (Model/Pair0.lean, any variant) over all event
  sequences: buffer bounds, the `wr_ready` / `rd_ready` hand-off discipline, the pollable
  flags, and "the unchecked nni_lmq_put calls never fail".
-/
import NngModel.Model.Pair0
namespace Nng.Pair0
open Nng Nng.Proto

structure Inv (s : State) : Prop where
  wmqLe : s.wmq.length ≤ s.wmqCap
  rmqLe : s.rmq.length ≤ s.rmqCap
  /-- the pipe is idle only when nothing is buffered and nobody waits to send -/
  wrEmpty : s.wrReady = true → s.wmq = [] ∧ s.waq = []
  wrCur : s.wrReady = true → s.cur.isSome = true
  /-- receivers wait only when nothing is buffered or held -/
  raqEmpty : s.raq ≠ [] → s.rmq = [] ∧ s.rdReady = false
  heldRd : s.rdReady = s.held.isSome
  rdCur : s.rdReady = true → s.cur.isSome = true
  /-- (A6) the pollable flags of an open socket say exactly whether a non-blocking call would succeed -/
  writableEq : s.closed = false → s.writable = (s.wrReady || !wmqFull s)
  readableEq : s.closed = false → s.readable = (!s.rmq.isEmpty || s.rdReady)
  putOk : s.putFailed = []

macro "inv_auto" : tactic => `(tactic|
  (constructor <;>
   (try simp_all [pipeSend, wmqFull, rmqFull, modPipe, wmqPutUnchecked, rmqPutUnchecked]) <;>
   (try omega) <;> (try (split <;> simp_all <;> omega)) <;> (try grind)))

theorem inv_init : Inv ({} : State) := by
  constructor <;> simp [wmqFull]

theorem sendSched_inv (V : Variant) (s : State) (p : Nat) (h : Inv s) : Inv (sendSched V s p).1 := by
  obtain ⟨h1, h2, h3, h4, h5, h6, h7, h8, h9, h10⟩ := h
  unfold sendSched
  by_cases hc : (s.cur != some p) = true
  · rw [if_pos hc]; exact ⟨h1, h2, h3, h4, h5, h6, h7, h8, h9, h10⟩
  · rw [if_neg hc]
    have hcur : s.cur = some p := by simpa using hc
    unfold sendSchedBody
    cases hq : s.wmq with
    | nil =>
      cases ha : s.waq with
      | nil => inv_auto
      | cons a ar => inv_auto
    | cons m rest =>
      cases ha : s.waq with
      | nil => inv_auto
      | cons a ar => inv_auto

theorem pipeStop_inv (s : State) (p : Nat) (h : Inv s) : Inv (pipeStop s p) := by
  obtain ⟨h1, h2, h3, h4, h5, h6, h7, h8, h9, h10⟩ := h
  unfold pipeStop
  by_cases hc : (s.cur != some p) = true
  · rw [if_pos hc]; exact ⟨h1, h2, h3, h4, h5, h6, h7, h8, h9, h10⟩
  · rw [if_neg hc]
    inv_auto

theorem modPipe_inv (s : State) (p : Nat) (f : Pipe → Pipe) (h : Inv s) : Inv (modPipe s p f) := by
  obtain ⟨h1, h2, h3, h4, h5, h6, h7, h8, h9, h10⟩ := h
  inv_auto

theorem closePipe_inv (s : State) (p : Nat) (h : Inv s) : Inv (closePipe s p).1 := by
  unfold closePipe
  cases hg : getPipe s p with
  | none => exact h
  | some pp =>
    by_cases hc : pp.closed = true
    · simp [hc]; exact h
    · simp [hc]
      apply pipeStop_inv
      obtain ⟨h1, h2, h3, h4, h5, h6, h7, h8, h9, h10⟩ := h
      inv_auto

theorem failParked_inv (s : State) (a rv : Nat) (h : Inv s) : Inv (failParked s a rv).1 := by
  obtain ⟨h1, h2, h3, h4, h5, h6, h7, h8, h9, h10⟩ := h
  unfold failParked
  cases hf : s.waq.find? (·.aio == a) with
  | some pk => inv_auto
  | none =>
    by_cases hr : (s.raq.any (·.aio == a)) = true
    · rw [if_pos hr]
      have : s.raq ≠ [] := by intro e; simp [e] at hr
      inv_auto
    · rw [if_neg hr]; exact ⟨h1, h2, h3, h4, h5, h6, h7, h8, h9, h10⟩

theorem failMany_inv (as : List Nat) (rv : Nat) (s : State) (o : List Out) (h : Inv s) :
    Inv (as.foldl (fun (acc : State × List Out) a =>
      let (s', o) := failParked acc.1 a rv
      (s', acc.2 ++ o)) (s, o)).1 := by
  induction as generalizing s o with
  | nil => exact h
  | cons a rest ih =>
    simp only [List.foldl]
    exact ih _ _ (failParked_inv s a rv h)

theorem expire_inv (s : State) (h : Inv s) : Inv (expire s).1 := by
  unfold expire failMany
  exact failMany_inv _ _ _ _ h

theorem recvCbLocked_inv (s : State) (p : Nat) (gm : GMsg) (h : Inv s) :
    Inv (recvCbLocked s p gm).1 := by
  obtain ⟨h1, h2, h3, h4, h5, h6, h7, h8, h9, h10⟩ := h
  unfold recvCbLocked
  by_cases hcp : (s.cur != some p) = true
  · rw [if_pos hcp]; inv_auto
  · rw [if_neg hcp]
    have hcur : s.cur = some p := by simpa using hcp
    cases hr : s.raq with
    | cons a rest =>
      have : s.raq ≠ [] := by simp [hr]
      inv_auto
    | nil =>
      by_cases hf : (!rmqFull s) = true
      · simp only [hf, if_true]; inv_auto
      · simp only [hf]; inv_auto

theorem recvCb_inv (V : Variant) (s : State) (p : Nat) (b : Bytes) (h : Inv s) :
    Inv (recvCb V s p b).1 := by
  unfold recvCb
  cases V.rxDecide s.ttl b with
  | close =>
    simp only
    apply closePipe_inv
    obtain ⟨h1, h2, h3, h4, h5, h6, h7, h8, h9, h10⟩ := h
    inv_auto
  | drop =>
    obtain ⟨h1, h2, h3, h4, h5, h6, h7, h8, h9, h10⟩ := h
    inv_auto
  | deliver m =>
    simp only
    apply recvCbLocked_inv
    obtain ⟨h1, h2, h3, h4, h5, h6, h7, h8, h9, h10⟩ := h
    inv_auto

theorem sockSendLocked_inv (V : Variant) (s : State) (a : Nat) (gm : GMsg) (mode : Mode) (h : Inv s) :
    Inv (sockSendLocked V s a gm mode).1 := by
  obtain ⟨h1, h2, h3, h4, h5, h6, h7, h8, h9, h10⟩ := h
  unfold sockSendLocked
  by_cases hw : s.wrReady = true
  · rw [if_pos hw]
    cases hc : s.cur with
    | none => simp [hc, hw] at h4
    | some p => inv_auto
  · rw [if_neg hw]
    by_cases hl : s.wmq.length < s.wmqCap
    · rw [if_pos hl]; inv_auto
    · rw [if_neg hl]
      unfold parkSend
      cases mode with
      | nb => inv_auto
      | inf => inv_auto
      | dflt => inv_auto
      | ms n =>
        cases n with
        | zero => inv_auto
        | succ k => inv_auto

theorem sockSend_inv (V : Variant) (s : State) (a : Nat) (m : WMsg) (mode : Mode) (h : Inv s) :
    Inv (sockSend V s a m mode).1 := by
  unfold sockSend
  cases V.txPrep s.raw m with
  | error e =>
    obtain ⟨h1, h2, h3, h4, h5, h6, h7, h8, h9, h10⟩ := h
    inv_auto
  | ok m' =>
    simp only
    apply sockSendLocked_inv
    obtain ⟨h1, h2, h3, h4, h5, h6, h7, h8, h9, h10⟩ := h
    inv_auto

theorem takeHeld_some (s : State) (p : Nat) (gm : GMsg) (h : takeHeld s = some (p, gm)) :
    s.cur = some p ∧ s.held = some gm := by
  unfold takeHeld at h
  cases hc : s.cur <;> cases hh : s.held <;> simp_all

theorem takeHeld_of (s : State) (hc : s.cur.isSome = true) (hh : s.held.isSome = true) :
    ∃ p gm, takeHeld s = some (p, gm) ∧ s.cur = some p ∧ s.held = some gm := by
  unfold takeHeld
  cases h1 : s.cur with
  | none => simp [h1] at hc
  | some p =>
    cases h2 : s.held with
    | none => simp [h2] at hh
    | some gm => exact ⟨p, gm, rfl, rfl, rfl⟩

theorem sockRecv_inv (s : State) (a : Nat) (mode : Mode) (h : Inv s) : Inv (sockRecv s a mode).1 := by
  obtain ⟨h1, h2, h3, h4, h5, h6, h7, h8, h9, h10⟩ := h
  unfold sockRecv
  cases hq : s.rmq with
  | cons m rest =>
    have hraq : s.raq = [] := by
      by_cases e : s.raq = []
      · exact e
      · have := (h5 e).1; simp [hq] at this
    by_cases hrd : s.rdReady = true
    · obtain ⟨p, gm, ht, hcp, hhp⟩ := takeHeld_of { s with rmq := rest, delivered := s.delivered ++ [m] }
        (h7 hrd) (by rw [← h6]; exact hrd)
      simp only [hrd, if_true, ht]
      inv_auto
    · simp only [hrd]; inv_auto
  | nil =>
    by_cases hrd : s.rdReady = true
    · obtain ⟨p, gm, ht, hcp, hhp⟩ := takeHeld_of s (h7 hrd) (by rw [← h6]; exact hrd)
      simp only [hrd, if_true, ht]
      inv_auto
    · simp only [hrd]
      cases mode with
      | nb => inv_auto
      | inf => inv_auto
      | dflt => inv_auto
      | ms n =>
        cases n with
        | zero => inv_auto
        | succ k => inv_auto

theorem setSendBuf_inv (s : State) (cap : Nat) (h : Inv s) : Inv (setSendBuf s cap) := by
  obtain ⟨h1, h2, h3, h4, h5, h6, h7, h8, h9, h10⟩ := h
  unfold setSendBuf
  inv_auto

theorem setRecvBuf_inv (s : State) (cap : Nat) (h : Inv s) : Inv (setRecvBuf s cap) := by
  obtain ⟨h1, h2, h3, h4, h5, h6, h7, h8, h9, h10⟩ := h
  unfold setRecvBuf
  cases hq : s.rmq with
  | nil => inv_auto
  | cons m rest =>
    cases cap with
    | zero => cases hh : s.held <;> inv_auto
    | succ k => inv_auto

theorem closeAll_inv (ps : List Pipe) (s : State) (o : List Out) (h : Inv s) :
    Inv (ps.foldl (fun (acc : State × List Out) (pp : Pipe) =>
      let (s', o) := closePipe acc.1 pp.id
      (s', acc.2 ++ o)) (s, o)).1 := by
  induction ps generalizing s o with
  | nil => exact h
  | cons a rest ih =>
    simp only [List.foldl]
    exact ih _ _ (closePipe_inv s a.id h)

theorem sockClose_inv (s : State) (h : Inv s) : Inv { (sockClose s).1 with closed := true } := by
  obtain ⟨h1, h2, h3, h4, h5, h6, h7, h8, h9, h10⟩ := h
  unfold sockClose
  inv_auto

theorem pipeStart_inv (V : Variant) (s : State) (id peer : Nat) (h : Inv s) : Inv (pipeStart V s id peer).1 := by
  unfold pipeStart
  by_cases hp : (peer != V.peer) = true
  · rw [if_pos hp]; exact modPipe_inv _ _ _ h
  · rw [if_neg hp]
    by_cases hc : s.cur.isSome = true
    · rw [if_pos hc]; exact modPipe_inv _ _ _ h
    · rw [if_neg hc]
      simp only
      apply modPipe_inv
      apply sendSched_inv
      obtain ⟨h1, h2, h3, h4, h5, h6, h7, h8, h9, h10⟩ := h
      have hw : s.wrReady = false := by
        cases hw : s.wrReady with
        | false => rfl
        | true => exact absurd (h4 hw) hc
      have hr : s.rdReady = false := by
        cases hr : s.rdReady with
        | false => rfl
        | true => exact absurd (h7 hr) hc
      inv_auto

theorem step_inv (V : Variant) (hV : V.sendBufInit = 0) (s : State) (ev : Ev) (h : Inv s) : Inv (step V s ev).1 := by
  unfold step
  split
  · split
    · inv_auto
    · obtain ⟨h1, h2, h3, h4, h5, h6, h7, h8, h9, h10⟩ := h; inv_auto
    · exact h
  · split
    · split
      · obtain ⟨h1, h2, h3, h4, h5, h6, h7, h8, h9, h10⟩ := h; inv_auto
      · exact h
    · split
      all_goals first
        | exact h
        | exact failParked_inv _ _ _ h
        | exact sockRecv_inv _ _ _ h
        | exact sockSend_inv _ _ _ _ _ h
        | exact setSendBuf_inv _ _ h
        | exact setRecvBuf_inv _ _ h
        | skip
      case h_2 peer =>
        simp only
        apply pipeStart_inv
        obtain ⟨h1, h2, h3, h4, h5, h6, h7, h8, h9, h10⟩ := h; inv_auto
      case h_3 p =>
        split
        · split
          · exact h
          · exact closePipe_inv _ _ h
        · exact h
      case h_4 p rv =>
        split
        · split
          · exact h
          · split
            · exact closePipe_inv _ _ h
            · exact sendSched_inv _ _ _ (modPipe_inv _ _ _ h)
        · exact h
      case h_5 p r =>
        split
        · split
          · exact h
          · split
            · exact closePipe_inv _ _ (modPipe_inv _ _ _ h)
            · exact recvCb_inv _ _ _ _ (modPipe_inv _ _ _ h)
        · exact h
      case h_6 => split <;> first | exact h | exact sockSend_inv _ _ _ _ _ h
      case h_7 => split <;> first | exact h | exact sockRecv_inv _ _ _ h
      case h_10 ms =>
        apply expire_inv
        obtain ⟨h1, h2, h3, h4, h5, h6, h7, h8, h9, h10⟩ := h; inv_auto
      case h_13 => split <;> first | exact h | exact setSendBuf_inv _ _ h
      case h_14 => split <;> first | exact h | exact setRecvBuf_inv _ _ h
      case h_15 =>
        split
        · exact h
        · split
          · exact h
          · obtain ⟨h1, h2, h3, h4, h5, h6, h7, h8, h9, h10⟩ := h; inv_auto
      case h_19 => split <;> exact h
      case h_24 =>
        simp only
        apply sockClose_inv
        unfold closeAllPipes
        exact closeAll_inv _ _ _ h

theorem run_inv (V : Variant) (hV : V.sendBufInit = 0) (evs : List Ev) (s : State) (h : Inv s) :
    Inv (run V s evs).1 := by
  induction evs generalizing s with
  | nil => exact h
  | cons e es ih =>
    simp only [run]
    exact ih _ (step_inv V hV s e h)

end Nng.Pair0
