/- the open-addressing invariant (Proofs/IdTable.lean) is preserved by insertion, removal and
   overwriting; content of the table before/after -/
import NngModel.Proofs.IdTable
namespace Nng.IdHash

/-- overwriting the value of an occupied slot with a non-NULL value -/
theorem RawWF.overwrite {es : List Entry} {cap : Nat} {dist : Nat → Nat} {load cnt : Nat}
    (wf : RawWF es cap dist load cnt) {t v : Nat} (ht : (ent es t).val ≠ 0) (hv : v ≠ 0) :
    RawWF (es.set t ⟨(ent es t).key, (ent es t).skips, v⟩) cap dist load cnt ∧
    ∀ i, (ent (es.set t ⟨(ent es t).key, (ent es t).skips, v⟩) i).key = (ent es i).key ∧
         (ent (es.set t ⟨(ent es t).key, (ent es t).skips, v⟩) i).val = (if i = t then v else (ent es i).val) := by
  have htl : t < es.length := lt_of_val_ne_zero ht
  have hkey : ∀ i, (ent (es.set t ⟨(ent es t).key, (ent es t).skips, v⟩) i).key = (ent es i).key :=
    fun i => ent_set_key es t i _ rfl
  have hval : ∀ i, (ent (es.set t ⟨(ent es t).key, (ent es t).skips, v⟩) i).val = (if i = t then v else (ent es i).val) := by
    intro i
    rw [ent_set]
    by_cases h : t = i
    · subst h; simp [htl]
    · have : ¬ i = t := fun e => h e.symm
      simp [h, this]
  have hsk : ∀ i, (ent (es.set t ⟨(ent es t).key, (ent es t).skips, v⟩) i).skips = (ent es i).skips := by
    intro i
    rw [ent_set]
    by_cases h : t = i
    · subst h; simp [htl]
    · simp [h]
  have hlive : ∀ i, (ent (es.set t ⟨(ent es t).key, (ent es t).skips, v⟩) i).val ≠ 0 ↔ (ent es i).val ≠ 0 := by
    intro i
    rw [hval]
    by_cases h : i = t
    · subst h; simp [hv, ht]
    · simp [h]
  refine ⟨⟨by simp [wf.len], ?_, ?_, ?_, ?_, ?_, ?_, ?_⟩, fun i => ⟨hkey i, hval i⟩⟩
  · intro s hs; exact wf.dist_lt s ((hlive s).mp hs)
  · intro s hs; rw [hkey]; exact wf.dist_at s ((hlive s).mp hs)
  · intro s hs; rw [hkey]; exact wf.dist_first s ((hlive s).mp hs)
  · intro i
    rw [hsk, wf.skips]
    apply sumTo_congr
    intro s _
    unfold fSk
    simp only [hkey, hlive]
  · rw [wf.load]
    apply sumTo_congr
    intro s _
    unfold fLd
    simp only [hlive]
  · rw [wf.cnt]
    apply sumTo_congr
    intro s _
    unfold fCt
    simp only [hlive]
  · intro s s' hs hs' hk
    rw [hkey, hkey] at hk
    exact wf.distinct s s' ((hlive s).mp hs) ((hlive s').mp hs') hk

/-- inserting an absent key with a non-NULL value into a table that has a free slot -/
theorem RawWF.insert {es : List Entry} {cap : Nat} {dist : Nat → Nat} {load cnt : Nat}
    (wf : RawWF es cap dist load cnt) (hp : ProbeCovers cap) (hcap : 0 < cap) (hroom : cnt < cap)
    {id v : Nat} (hv : v ≠ 0) (habs : ∀ i, ¬ ((ent es i).key = id ∧ (ent es i).val ≠ 0))
    (f : Nat) (hf : cap ≤ f) :
    ∃ dist' t, RawWF (setLoop cap id v f es (idIndex cap id) load true).1 cap dist'
        (setLoop cap id v f es (idIndex cap id) load true).2.1 (cnt + 1) ∧
      (setLoop cap id v f es (idIndex cap id) load true).2.2 = true ∧ (ent es t).val = 0 ∧
      ∀ i, (ent (setLoop cap id v f es (idIndex cap id) load true).1 i).key = (if i = t then id else (ent es i).key) ∧
           (ent (setLoop cap id v f es (idIndex cap id) load true).1 i).val = (if i = t then v else (ent es i).val) := by
  have hh := idIndex_lt hcap id
  -- a free slot exists and the probe path reaches it
  obtain ⟨t0, ht0, hfree0⟩ := exists_zero_of_sumTo_lt (n := cap) (f := fCt es) (by rw [← wf.cnt]; exact hroom)
  have hv0 : (ent es t0).val = 0 := by
    unfold fCt at hfree0
    by_cases h : (ent es t0).val ≠ 0
    · rw [if_pos h] at hfree0; omega
    · simpa using h
  obtain ⟨k, hk, hkt⟩ := hp.2 (idIndex cap id) t0 hh ht0
  obtain ⟨d, hdk, hd0, hdmin⟩ := exists_least (fun j => (ent es (iter cap j (idIndex cap id))).val = 0) k
    (by show (ent es (iter cap k (idIndex cap id))).val = 0; rw [hkt]; exact hv0)
  obtain ⟨a, b, c, e⟩ := setLoop_spec cap id v hcap d f es (idIndex cap id) load wf.len hh (by omega) hdmin hd0
  generalize setLoop cap id v f es (idIndex cap id) load true = r at a b c e
  have htl : iter cap d (idIndex cap id) < cap := iter_lt hcap hh d
  refine ⟨fun s => if s = iter cap d (idIndex cap id) then d else dist s, iter cap d (idIndex cap id), ?_, b, hd0,
    fun i => ⟨(e i).2.1, (e i).2.2⟩⟩
  have hlive : ∀ s, (ent r.1 s).val ≠ 0 ↔ (s = iter cap d (idIndex cap id) ∨ (ent es s).val ≠ 0) := by
    intro s
    rw [(e s).2.2]
    by_cases h : s = iter cap d (idIndex cap id)
    · simp [h, hv]
    · simp [h]
  have hne : ∀ s, (ent es s).val ≠ 0 → s ≠ iter cap d (idIndex cap id) := by
    intro s hs h; rw [h] at hs; exact hs hd0
  refine ⟨c, ?_, ?_, ?_, ?_, ?_, ?_, ?_⟩
  · intro s hs
    by_cases h : s = iter cap d (idIndex cap id)
    · simp only [h, if_true]; omega
    · simp only [h, if_false]
      exact wf.dist_lt s (((hlive s).mp hs).resolve_left h)
  · intro s hs
    rw [(e s).2.1]
    by_cases h : s = iter cap d (idIndex cap id)
    · simp only [h, if_true]
    · simp only [h, if_false]
      exact wf.dist_at s (((hlive s).mp hs).resolve_left h)
  · intro s hs
    rw [(e s).2.1]
    by_cases h : s = iter cap d (idIndex cap id)
    · simp only [h, if_true]
      intro j hj hjeq
      exact hdmin j hj (by show (ent es (iter cap j (idIndex cap id))).val = 0; rw [hjeq]; exact hd0)
    · simp only [h, if_false]
      exact wf.dist_first s (((hlive s).mp hs).resolve_left h)
  · intro i
    rw [(e i).1, wf.skips]
    have hu := sumTo_update (n := cap) (s := iter cap d (idIndex cap id)) (f := fSk es cap dist i)
      (g := fSk r.1 cap (fun s => if s = iter cap d (idIndex cap id) then d else dist s) i) htl
      (fun s _ hs => by
        unfold fSk
        simp only [(e s).2.1, (e s).2.2, hs, if_false])
    have h1 : fSk es cap dist i (iter cap d (idIndex cap id)) = 0 := by
      unfold fSk; simp [hd0]
    have h2 : fSk r.1 cap (fun s => if s = iter cap d (idIndex cap id) then d else dist s) i (iter cap d (idIndex cap id))
        = cross cap (idIndex cap id) d i := by
      unfold fSk; simp [(e _).2.1, (e _).2.2, hv]
    omega
  · rw [a, wf.load]
    have hu := sumTo_update (n := cap) (s := iter cap d (idIndex cap id)) (f := fLd es dist)
      (g := fLd r.1 (fun s => if s = iter cap d (idIndex cap id) then d else dist s)) htl
      (fun s _ hs => by
        unfold fLd
        simp only [(e s).2.2, hs, if_false])
    have h1 : fLd es dist (iter cap d (idIndex cap id)) = 0 := by
      unfold fLd; simp [hd0]
    have h2 : fLd r.1 (fun s => if s = iter cap d (idIndex cap id) then d else dist s) (iter cap d (idIndex cap id))
        = d + 1 := by
      unfold fLd; simp [(e _).2.2, hv]
    omega
  · rw [wf.cnt]
    have hu := sumTo_update (n := cap) (s := iter cap d (idIndex cap id)) (f := fCt es) (g := fCt r.1) htl
      (fun s _ hs => by
        unfold fCt
        simp only [(e s).2.2, hs, if_false])
    have h1 : fCt es (iter cap d (idIndex cap id)) = 0 := by
      unfold fCt; simp [hd0]
    have h2 : fCt r.1 (iter cap d (idIndex cap id)) = 1 := by
      unfold fCt; simp [(e _).2.2, hv]
    omega
  · intro s s' hs hs' hkk
    rw [(e s).2.1, (e s').2.1] at hkk
    rcases (hlive s).mp hs with h | h <;> rcases (hlive s').mp hs' with h' | h'
    · rw [h, h']
    · have := hne s' h'
      simp only [h, this, if_true, if_false] at hkk
      exact absurd ⟨hkk.symm, h'⟩ (habs s')
    · have := hne s h
      simp only [h', this, if_true, if_false] at hkk
      exact absurd ⟨hkk, h⟩ (habs s)
    · simp only [hne s h, hne s' h', if_false] at hkk
      exact wf.distinct s s' h h' hkk

/-- removing the key stored in slot `t` -/
theorem RawWF.remove {es : List Entry} {cap : Nat} {dist : Nat → Nat} {load cnt : Nat}
    (wf : RawWF es cap dist load cnt) {t : Nat} (ht : (ent es t).val ≠ 0) (f : Nat) (hf : cap ≤ f) :
    RawWF (removeLoop cap t f es (idIndex cap (ent es t).key) load true).1 cap dist
        (removeLoop cap t f es (idIndex cap (ent es t).key) load true).2.1 (cnt - 1) ∧
      (removeLoop cap t f es (idIndex cap (ent es t).key) load true).2.2 = true ∧ 1 ≤ cnt ∧
      ∀ i, (ent (removeLoop cap t f es (idIndex cap (ent es t).key) load true).1 i).key = (if i = t then 0 else (ent es i).key) ∧
           (ent (removeLoop cap t f es (idIndex cap (ent es t).key) load true).1 i).val = (if i = t then 0 else (ent es i).val) := by
  have htc := wf.lt ht
  have hcap : 0 < cap := by omega
  have hh := idIndex_lt hcap (ent es t).key
  have hld : dist t + 1 ≤ load := by
    have h1 := sumTo_ge (n := cap) (s := t) (f := fLd es dist) htc
    have h2 : fLd es dist t = dist t + 1 := by unfold fLd; rw [if_pos ht]
    have := wf.load; omega
  have hct : 1 ≤ cnt := by
    have h1 := sumTo_ge (n := cap) (s := t) (f := fCt es) htc
    have h2 : fCt es t = 1 := by unfold fCt; rw [if_pos ht]
    have := wf.cnt; omega
  have hsk : ∀ i, cross cap (idIndex cap (ent es t).key) (dist t) i ≤ (ent es i).skips := by
    intro i
    rw [wf.skips]
    have h1 := sumTo_ge (n := cap) (s := t) (f := fSk es cap dist i) htc
    have h2 : fSk es cap dist i t = cross cap (idIndex cap (ent es t).key) (dist t) i := by unfold fSk; rw [if_pos ht]
    omega
  obtain ⟨a, b, c, e⟩ := removeLoop_spec cap hcap t (dist t) f es (idIndex cap (ent es t).key) load wf.len hh
    (by have := wf.dist_lt t ht; omega) hld (wf.dist_at t ht) (wf.dist_first t ht) hsk
  generalize removeLoop cap t f es (idIndex cap (ent es t).key) load true = r at a b c e
  refine ⟨?_, b, hct, fun i => ⟨(e i).2.1, (e i).2.2⟩⟩
  have hlive : ∀ s, (ent r.1 s).val ≠ 0 ↔ (s ≠ t ∧ (ent es s).val ≠ 0) := by
    intro s
    rw [(e s).2.2]
    by_cases h : s = t
    · simp [h]
    · simp [h]
  have hkey : ∀ s, s ≠ t → (ent r.1 s).key = (ent es s).key := by
    intro s hs; rw [(e s).2.1, if_neg hs]
  refine ⟨c, ?_, ?_, ?_, ?_, ?_, ?_, ?_⟩
  · intro s hs; exact wf.dist_lt s ((hlive s).mp hs).2
  · intro s hs
    obtain ⟨h1, h2⟩ := (hlive s).mp hs
    rw [hkey s h1]; exact wf.dist_at s h2
  · intro s hs
    obtain ⟨h1, h2⟩ := (hlive s).mp hs
    rw [hkey s h1]; exact wf.dist_first s h2
  · intro i
    rw [(e i).1, wf.skips]
    have hu := sumTo_update (n := cap) (s := t) (f := fSk es cap dist i) (g := fSk r.1 cap dist i) htc
      (fun s _ hs => by
        unfold fSk
        simp only [(e s).2.1, (e s).2.2, hs, if_false])
    have h1 : fSk es cap dist i t = cross cap (idIndex cap (ent es t).key) (dist t) i := by unfold fSk; rw [if_pos ht]
    have h2 : fSk r.1 cap dist i t = 0 := by unfold fSk; simp [(e _).2.2]
    omega
  · rw [a, wf.load]
    have hu := sumTo_update (n := cap) (s := t) (f := fLd es dist) (g := fLd r.1 dist) htc
      (fun s _ hs => by
        unfold fLd
        simp only [(e s).2.2, hs, if_false])
    have h1 : fLd es dist t = dist t + 1 := by unfold fLd; rw [if_pos ht]
    have h2 : fLd r.1 dist t = 0 := by unfold fLd; simp [(e _).2.2]
    omega
  · rw [wf.cnt]
    have hu := sumTo_update (n := cap) (s := t) (f := fCt es) (g := fCt r.1) htc
      (fun s _ hs => by
        unfold fCt
        simp only [(e s).2.2, hs, if_false])
    have h1 : fCt es t = 1 := by unfold fCt; rw [if_pos ht]
    have h2 : fCt r.1 t = 0 := by unfold fCt; simp [(e _).2.2]
    omega
  · intro s s' hs hs' hkk
    obtain ⟨h1, h2⟩ := (hlive s).mp hs
    obtain ⟨h1', h2'⟩ := (hlive s').mp hs'
    rw [hkey s h1, hkey s' h1'] at hkk
    exact wf.distinct s s' h2 h2' hkk

end Nng.IdHash
