/-
  The judge's handling of an error completion of a parked operation (`oldDone`) against the model's
  cancellation of that operation.
-/
import NngModel.Proofs.ReqJudgeOps
namespace Nng.ReqJ
open Nng Nng.Proto Nng.Req Nng.ReqSpec

theorem aioOf_key {rest : List Ev} {s : State} (hm : MI rest s) {k : Nat} {b : Bool} {a : Nat}
    (h : aioOf s k b = some a) : k ∈ keys := by
  rw [keys_mem]
  apply Nat.lt_of_not_le
  intro hk
  have := hm.dead k (hm.biglive k (by unfold nCtxSlots; omega))
  unfold aioOf at h
  cases b
  · simp [this.2.1] at h
  · simp [this.1] at h

/-- an aio parked in context `k` is mentioned by no other context's record -/
theorem oldC_other {rest : List Ev} {s : State} {j : J} (hM : R rest s j) {k x : Nat} {b : Bool} {a : Nat}
    (h : aioOf s k b = some a) (hx : x ≠ k) : oldC a (j.ctx x) = j.ctx x := by
  have hrc := hM.rc x (by simp)
  apply oldC_free
  · intro e
    have : aioOf s x false = some a := by unfold aioOf; simp only [Bool.false_eq_true, if_false]; rw [← hrc.rw]; exact e
    exact hx (hM.mi.park x false k b a this h).1
  · intro r hr hw e
    cases ha : r.answered with
    | true =>
      cases hp : (s.ctx x).repMsg with
      | some bb =>
        obtain ⟨r', a1, _, a3⟩ := hrc.ansd (by rw [hp]; rfl)
        rw [hr] at a1; cases a1
        rw [hw] at a3; cases a3
      | none =>
        cases hq : (s.ctx x).reqMsg with
        | none => rw [hrc.none hq hp] at hr; cases hr
        | some h' =>
          obtain ⟨r', a1, a2⟩ := hrc.req h' hq
          rw [hr] at a1; cases a1
          rw [a2.ans] at ha; cases ha
    | false =>
      obtain ⟨h', hq, hrq⟩ := hrc.held hr ha
      obtain ⟨dl, hs⟩ := hrq.unsent (by rw [← hrq.wired]; exact hw)
      have : aioOf s x true = some a := by unfold aioOf; simp [hs, e]
      exact hx (hM.mi.park x true k b a this h).1

theorem oldDone_local {rest : List Ev} {s : State} {j : J} (hM : R rest s j) {k : Nat} {b : Bool} {a : Nat} (rv : Nat)
    (h : aioOf s k b = some a) (c : CJ) : oldDone (setC j k c) a rv = setC j k (oldC a c) := by
  rw [oldDone_eq]
  have hk := aioOf_key hM.mi h
  cases j
  simp only [setC]
  congr
  funext x
  by_cases hx : x = k
  · subst hx; simp [hk]
  · simp only [hx, if_false]
    split
    · exact oldC_other hM h hx
    · rfl

theorem oldC_opened (a : Nat) (c : CJ) : (oldC a c).opened = c.opened := by
  unfold oldC; dsimp only; split <;> (try split) <;> (try split) <;> rfl

theorem oldC_retry (a : Nat) (c : CJ) : (oldC a c).retry = c.retry := by
  unfold oldC; dsimp only; split <;> (try split) <;> (try split) <;> rfl

theorem oldC_recvWait_none (a : Nat) (c : CJ) (h : c.recvWait = none) : (oldC a c).recvWait = none := by
  unfold oldC; dsimp only; split <;> (try split) <;> (try split) <;> simp_all

theorem oldDone_parked {rest : List Ev} {s : State} {j : J} (hM : R rest s j) {k : Nat} {b : Bool} {a : Nat} (rv : Nat)
    (h : aioOf s k b = some a) : oldDone j a rv = setC j k (oldC a (j.ctx k)) := by
  rw [oldDone_eq]
  have hk := aioOf_key hM.mi h
  cases j
  simp only [setC]
  congr
  funext x
  by_cases hx : x = k
  · subst hx; simp [hk]
  · simp only [hx, if_false]
    split
    · exact oldC_other hM h hx
    · rfl

/-- the parked send of context `k` fails -/
theorem oldC_send {rest : List Ev} {s : State} {j : J} (hM : R rest s j) {k a : Nat}
    (h : aioOf s k true = some a) : oldC a (j.ctx k) = wipeCJ (j.ctx k) false false := by
  have hrc := hM.rc k (by simp)
  have hs : (s.ctx k).sendAio.isSome = true := by
    unfold aioOf at h; simp only [if_true] at h
    cases hh : (s.ctx k).sendAio with
    | none => rw [hh] at h; cases h
    | some _ => rfl
  obtain ⟨hq, hw⟩ := hM.mi.sa k hs
  obtain ⟨h', hq⟩ := Option.isSome_iff_exists.1 hq
  obtain ⟨r, hr, hrq⟩ := hrc.req h' hq
  obtain ⟨dl, hsa⟩ := hrq.unsent hw
  have ha : r.sendAio = a := by unfold aioOf at h; simp [hsa] at h; exact h
  have hrw : (j.ctx k).recvWait ≠ some a := by
    intro e
    have : aioOf s k false = some a := by unfold aioOf; simp only [Bool.false_eq_true, if_false]; rw [← hrc.rw]; exact e
    have := (hM.mi.park k false k true a this h).2
    cases this
  have hst : (j.ctx k).stash = none := by
    rw [hrc.stash]
    cases hp : (s.ctx k).repMsg with
    | none => rfl
    | some _ => have := (hM.mi.rep k (by rw [hp]; rfl)).1; rw [hq] at this; cases this
  have hla : (j.ctx k).latched = false := by
    rw [hrc.latched]
    cases hc : (s.ctx k).connReset with
    | false => rfl
    | true => have := (hM.mi.creset k hc).1; rw [hq] at this; cases this
  unfold oldC wipeCJ
  have hwj : r.wired = false := by rw [hrq.wired]; exact hw
  simp only [hr, ha, hwj, beq_self_eq_true, Bool.not_false, Bool.and_self, if_true]
  have : ((j.ctx k).recvWait == some a) = false := by simpa using hrw
  simp only [this, Bool.false_eq_true, if_false]
  rw [← hst, ← hla]

/-- the parked receive of context `k` fails -/
theorem oldC_recv {rest : List Ev} {s : State} {j : J} (hM : R rest s j) {k a : Nat}
    (h : aioOf s k false = some a) : oldC a (j.ctx k) = wipeCJ (j.ctx k) true false := by
  have hrc := hM.rc k (by simp)
  have hrw : (j.ctx k).recvWait = some a := by
    rw [hrc.rw]; unfold aioOf at h; simpa using h
  have hra : (s.ctx k).recvAio.isSome = true := by
    unfold aioOf at h; simp only [Bool.false_eq_true, if_false] at h
    cases hh : (s.ctx k).recvAio with
    | none => rw [hh] at h; cases h
    | some _ => rfl
  have hla : (j.ctx k).latched = false := by
    rw [hrc.latched]
    cases hc : (s.ctx k).connReset with
    | false => rfl
    | true => have := (hM.mi.creset k hc).2.2.1; rw [this] at hra; cases hra
  unfold oldC wipeCJ
  cases hr : (j.ctx k).req with
  | none => simp [hrw, hla.symm]
  | some r =>
    simp only
    split <;> simp [hrw, hla.symm]

theorem wipeCJ_wipeCJ (cj : CJ) (dr dr' : Bool) : wipeCJ (wipeCJ cj dr false) (dr || dr') false = wipeCJ cj (dr || dr') false := by
  unfold wipeCJ; cases dr <;> cases dr' <;> simp

end Nng.ReqJ
