/-
  RESPONDENT judge simulation: auxiliary facts (fresh aios, list surgery, lookups after updates).
-/
import NngModel.Proofs.RespJudgeEvA
namespace Nng.RespJudge
open Nng Nng.Proto Nng.Respond Nng.SurveySpec

/-! ### lists -/

theorem find_append_fresh {α : Type} (p : α → Bool) (l : List α) (y : α) (h1 : ∀ x ∈ l, p x = false) (h2 : p y = true) :
    (l ++ [y]).find? p = some y := by
  rw [List.find?_append]
  have : l.find? p = none := by
    rw [List.find?_eq_none]; intro x hx; simp [h1 x hx]
  rw [this]
  simp [h2]

theorem filter_append_fresh {α : Type} (q : α → Bool) (l : List α) (y : α) (h1 : ∀ x ∈ l, q x = true) (h2 : q y = false) :
    (l ++ [y]).filter q = l := by
  rw [List.filter_append, List.filter_eq_self.2 h1]
  simp [h2]

theorem filter_ne_of_not_mem {l : List Nat} {p : Nat} (h : p ∉ l) : l.filter (· != p) = l := by
  rw [List.filter_eq_self]
  intro a ha
  simp only [bne_iff_ne, ne_eq]
  intro e; subst e; exact h ha

theorem mem_filter_ne {l : List Nat} {p q : Nat} : q ∈ l.filter (· != p) ↔ q ∈ l ∧ q ≠ p := by
  simp [List.mem_filter]

/-! ### aios -/

theorem aio_fresh {s : State} {j : RespJ} {used : List Bytes} (hc : RelCore s j used) {a : Nat} (hb : aioBusy s a = false) :
    (∀ x ∈ j.pendRecv, x.1 ≠ a) ∧ (∀ e ∈ j.pendSend, e.aio ≠ a) := by
  have hb' : ∀ c ∈ s.ctxs, (∀ ps, c.saio = some ps → ps.aio ≠ a) ∧ (∀ pr, c.raio = some pr → pr.aio ≠ a) := by
    intro c hcm
    unfold aioBusy at hb
    have := List.any_eq_false.1 hb c hcm
    constructor
    · intro ps hps
      rw [hps] at this
      simp only [Bool.or_eq_true, not_or] at this
      simpa using this.1
    · intro pr hpr
      rw [hpr] at this
      simp only [Bool.or_eq_true, not_or] at this
      simpa using this.2
  constructor
  · intro x hx e
    obtain ⟨c, hcm, r, hr, rfl⟩ := (hc.pr x).1 hx
    exact (hb' c hcm).2 r hr e
  · intro e he ea
    obtain ⟨c, hcm, p, hp, rfl⟩ := (hc.ps e).1 he
    exact (hb' c hcm).1 p hp ea

theorem aios_add_recv {j : RespJ} {x : Nat × Option Nat × Bool} (h : (aiosOf j).Nodup)
    (h1 : ∀ y ∈ j.pendRecv, y.1 ≠ x.1) (h2 : ∀ e ∈ j.pendSend, e.aio ≠ x.1) :
    (aiosOf { j with pendRecv := j.pendRecv ++ [x] }).Nodup := by
  unfold aiosOf at h ⊢
  simp only [List.map_append, List.map_cons, List.map_nil]
  obtain ⟨ha, hb, hd⟩ := List.nodup_append.1 h
  rw [List.nodup_append]
  refine ⟨?_, hb, ?_⟩
  · rw [List.nodup_append]
    refine ⟨ha, by simp, ?_⟩
    intro a ham b hbm
    simp only [List.mem_singleton] at hbm
    subst hbm
    obtain ⟨y, hy, rfl⟩ := List.mem_map.1 ham
    exact h1 y hy
  · intro a ham b hbm
    rcases List.mem_append.1 ham with ham | ham
    · exact hd a ham b hbm
    · simp only [List.mem_singleton] at ham
      subst ham
      obtain ⟨e, he, rfl⟩ := List.mem_map.1 hbm
      exact fun eq => h2 e he eq.symm

theorem aios_add_send {j : RespJ} {e : Expect} (h : (aiosOf j).Nodup)
    (h1 : ∀ y ∈ j.pendRecv, y.1 ≠ e.aio) (h2 : ∀ e' ∈ j.pendSend, e'.aio ≠ e.aio) :
    (aiosOf { j with pendSend := j.pendSend ++ [e] }).Nodup := by
  unfold aiosOf at h ⊢
  simp only [List.map_append, List.map_cons, List.map_nil]
  obtain ⟨ha, hb, hd⟩ := List.nodup_append.1 h
  rw [List.nodup_append]
  refine ⟨ha, ?_, ?_⟩
  · rw [List.nodup_append]
    refine ⟨hb, by simp, ?_⟩
    intro a ham b hbm
    simp only [List.mem_singleton] at hbm
    subst hbm
    obtain ⟨y, hy, rfl⟩ := List.mem_map.1 ham
    exact h2 y hy
  · intro a ham b hbm
    rcases List.mem_append.1 hbm with hbm | hbm
    · exact hd a ham b hbm
    · simp only [List.mem_singleton] at hbm
      subst hbm
      obtain ⟨y, hy, rfl⟩ := List.mem_map.1 ham
      exact h1 y hy

theorem aios_filter {j : RespJ} (h : (aiosOf j).Nodup) (p : Nat × Option Nat × Bool → Bool) (q : Expect → Bool) :
    (aiosOf { j with pendRecv := j.pendRecv.filter p, pendSend := j.pendSend.filter q }).Nodup := by
  unfold aiosOf at h ⊢
  exact List.Sublist.nodup (List.Sublist.append (List.Sublist.map _ List.filter_sublist)
    (List.Sublist.map _ List.filter_sublist)) h

/-- two parked operations of the judge with the same aio are the same -/
theorem send_aio_inj {j : RespJ} (h : (aiosOf j).Nodup) {e e' : Expect} (he : e ∈ j.pendSend) (he' : e' ∈ j.pendSend)
    (ea : e.aio = e'.aio) : e = e' := by
  unfold aiosOf at h
  exact nodup_map_inj (·.aio) j.pendSend (List.nodup_append.1 h).2.1 e he e' he' ea

theorem recv_aio_inj {j : RespJ} (h : (aiosOf j).Nodup) {x x' : Nat × Option Nat × Bool} (hx : x ∈ j.pendRecv)
    (hx' : x' ∈ j.pendRecv) (ea : x.1 = x'.1) : x = x' := by
  unfold aiosOf at h
  exact nodup_map_inj (·.1) j.pendRecv (List.nodup_append.1 h).1 x hx x' hx' ea

theorem recv_send_aio_ne {j : RespJ} (h : (aiosOf j).Nodup) {x : Nat × Option Nat × Bool} {e : Expect}
    (hx : x ∈ j.pendRecv) (he : e ∈ j.pendSend) : x.1 ≠ e.aio := by
  unfold aiosOf at h
  exact (List.nodup_append.1 h).2.2 x.1 (List.mem_map.2 ⟨x, hx, rfl⟩) e.aio (List.mem_map.2 ⟨e, he, rfl⟩)

/-! ### contexts -/

theorem abs_setCtx_same {s : State} (hk : (s.ctxs.map (·.key)).Nodup) {c c' : Ctx} (hc : c ∈ s.ctxs)
    (hkey : c'.key = c.key) (ha : absCtx c' = absCtx c) : (setCtx s c').ctxs.map absCtx = s.ctxs.map absCtx := by
  unfold setCtx
  simp only [List.map_map]
  apply List.map_congr_left
  intro q hq
  simp only [Function.comp]
  by_cases e : (q.key == c'.key) = true
  · rw [if_pos e]
    have : q.key = c.key := by rw [← hkey]; simpa using e
    rw [mem_of_keys hk hc hq this, ha]
  · rw [if_neg e]

/-! ### pipes -/

theorem closed_setPipe {s : State} {pp pp' : Pipe} (hg : getPipe s pp.id = some pp) (hi : pp'.id = pp.id)
    (hc : pp'.closed = pp.closed) (q : Nat) :
    (getPipe (setPipe s pp') q).map (·.closed) = (getPipe s q).map (·.closed) := by
  rw [getPipe_setPipe hg hi]
  by_cases e : q = pp.id
  · subst e; rw [if_pos rfl, hg]; simp [hc]
  · rw [if_neg e]

theorem busy_setPipe {s : State} {pp pp' : Pipe} (hg : getPipe s pp.id = some pp) (hi : pp'.id = pp.id)
    (hc : pp'.busy = pp.busy) (q : Nat) :
    (getPipe (setPipe s pp') q).map (·.busy) = (getPipe s q).map (·.busy) := by
  rw [getPipe_setPipe hg hi]
  by_cases e : q = pp.id
  · subst e; rw [if_pos rfl, hg]; simp [hc]
  · rw [if_neg e]

theorem arrOf_setPipe_held {s : State} {pp pp' : Pipe} (hg : getPipe s pp.id = some pp) (hi : pp'.id = pp.id)
    (hh : pp'.held = pp.held) (q : Nat) : arrOf (setPipe s pp') q = arrOf s q := by
  unfold arrOf
  rw [getPipe_setPipe hg hi]
  by_cases e : q = pp.id
  · subst e; rw [if_pos rfl, hg]; simp [hh]
  · rw [if_neg e]

/-! ### modes -/

theorem isZero_of_zeroRv_none {mode : Mode} (h : zeroRv mode = none) : isZeroMode mode = false := by
  cases mode with
  | nb => cases h
  | inf => rfl
  | dflt => rfl
  | ms n => cases n with
    | zero => cases h
    | succ n => rfl

theorem isZero_of_zeroRv_some {mode : Mode} {rv : Nat} (h : zeroRv mode = some rv) :
    isZeroMode mode = true ∧ (rv = Err.eagain ∨ rv = Err.etimedout) ∧ (mode = .nb → rv = Err.eagain) := by
  cases mode with
  | nb => simp only [zeroRv, Option.some.injEq] at h; subst h; exact ⟨rfl, Or.inl rfl, fun _ => rfl⟩
  | inf => cases h
  | dflt => cases h
  | ms n => cases n with
    | zero => simp only [zeroRv, Option.some.injEq] at h; subst h; exact ⟨rfl, Or.inr rfl, fun h => by cases h⟩
    | succ n => cases h

end Nng.RespJudge
