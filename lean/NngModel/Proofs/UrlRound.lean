/-
  C19 (f): print/parse round trip for the authority-form schemes.  Proved here: what the
  accepted host name looks like, that the text `nng_url_sprintf` writes for host and port splits
  back into the same host and port, decimal printing/parsing of the port, and that the
  canonicaliser's output starts a path/query/fragment.
-/
import NngModel.Proofs.UrlParse
import NngModel.Proofs.UrlDot
import NngModel.Generated.C19
set_option linter.unusedSimpArgs false
namespace Nng.UrlProofs
open Nng Nng.Url Nng.UrlSpec

/-! ### list helpers -/

theorem takeWhile_append_stop (p : UInt8 → Bool) (a c : Bytes) (ha : ∀ x ∈ a, p x = true)
    (hc : c.takeWhile p = []) : (a ++ c).takeWhile p = a := by
  induction a with
  | nil => simpa using hc
  | cons x r ih =>
    simp only [List.cons_append, List.takeWhile_cons, ha x (by simp), if_true]
    rw [ih (fun y hy => ha y (List.mem_cons_of_mem _ hy))]

theorem dropWhile_append_stop (p : UInt8 → Bool) (a c : Bytes) (ha : ∀ x ∈ a, p x = true)
    (hc : c.dropWhile p = c) : (a ++ c).dropWhile p = c := by
  induction a with
  | nil => simpa using hc
  | cons x r ih =>
    simp only [List.cons_append, List.dropWhile_cons, ha x (by simp), if_true]
    exact ih (fun y hy => ha y (List.mem_cons_of_mem _ hy))

theorem hasChr_false (s : Bytes) (c : UInt8) : hasChr s c = false ↔ c ∉ s := by
  simp [hasChr]

theorem hasChr_true (s : Bytes) (c : UInt8) : hasChr s c = true ↔ c ∈ s := by
  simp [hasChr]

theorem upTo_append (c : UInt8) (a t : Bytes) (h : c ∉ a) : upTo c (a ++ c :: t) = a := by
  unfold upTo
  apply takeWhile_append_stop
  · intro x hx; simp; intro e; subst e; exact h hx
  · simp

theorem upTo_all (c : UInt8) (a : Bytes) (h : c ∉ a) : upTo c a = a := by
  have := takeWhile_append_stop (fun x => decide (x ≠ c)) a []
    (by intro x hx; simp; intro e; subst e; exact h hx) rfl
  simpa [upTo] using this

theorem dropWhile_ne_append (c : UInt8) (a t : Bytes) (h : c ∉ a) :
    (a ++ c :: t).dropWhile (fun x => decide (x ≠ c)) = c :: t := by
  apply dropWhile_append_stop
  · intro x hx; simp; intro e; subst e; exact h hx
  · simp

theorem dropWhile_ne_all (c : UInt8) (a : Bytes) (h : c ∉ a) :
    a.dropWhile (fun x => decide (x ≠ c)) = [] := by
  have := dropWhile_append_stop (fun x => decide (x ≠ c)) a []
    (by intro x hx; simp; intro e; subst e; exact h hx) rfl
  simpa using this

theorem after_append (c : UInt8) (a t : Bytes) (h : c ∉ a) : after c (a ++ c :: t) = t := by
  unfold after; rw [dropWhile_ne_append c a t h]; rfl

theorem mem_upTo (c : UInt8) (s : Bytes) : ∀ x ∈ upTo c s, x ∈ s ∧ x ≠ c := by
  intro x hx
  induction s with
  | nil => simp [upTo] at hx
  | cons y r ih =>
    simp only [upTo, List.takeWhile_cons] at hx
    by_cases hy : y = c
    · simp [hy] at hx
    · simp only [hy, ne_eq, not_false_eq_true, decide_true, if_true] at hx
      rcases List.mem_cons.1 hx with hx | hx
      · subst hx; exact ⟨by simp, hy⟩
      · have := ih hx; exact ⟨List.mem_cons_of_mem _ this.1, this.2⟩

theorem mem_after (c : UInt8) (s : Bytes) : ∀ x ∈ after c s, x ∈ s := by
  intro x hx
  unfold after at hx
  exact (List.dropWhile_sublist _).subset (List.mem_of_mem_tail hx)

/-! ### the port: `%u` then the numeric branch of nni_get_port_by_name -/

/-- the byte of a decimal digit character -/
def chByte (c : Char) : UInt8 := UInt8.ofNat c.toNat

theorem decimal_eq (n : Nat) : decimal n = (Nat.toDigits 10 n).map chByte := rfl

theorem digitOf_digitChar (k : Nat) (hk : k < 10) : digitOf (chByte k.digitChar) = k := by
  unfold digitOf chByte
  rw [Nat.toNat_digitChar_of_lt_ten hk]
  simp; omega

theorem digitsVal_core : ∀ (fuel n : Nat) (ds : List Char), n < fuel →
    digitsVal 0 ((Nat.toDigitsCore 10 fuel n ds).map chByte) = digitsVal n (ds.map chByte) := by
  intro fuel
  induction fuel with
  | zero => intro n ds h; omega
  | succ fuel ih =>
    intro n ds h
    rw [Nat.toDigitsCore]
    by_cases h0 : n / 10 = 0
    · rw [if_pos h0]
      have hn : n < 10 := by omega
      simp only [List.map_cons, digitsVal]
      rw [Nat.mod_eq_of_lt hn, digitOf_digitChar n hn]
      congr 1; omega
    · rw [if_neg h0]
      rw [ih (n / 10) _ (by omega)]
      simp only [List.map_cons, digitsVal]
      rw [digitOf_digitChar _ (Nat.mod_lt _ (by decide))]
      congr 1; omega

theorem digitsVal_decimal (n : Nat) : digitsVal 0 (decimal n) = n := by
  rw [decimal_eq, Nat.toDigits, digitsVal_core _ _ _ (Nat.lt_succ_self n)]; rfl

theorem toDigitsCore_ne_nil (b : Nat) : ∀ (fuel n : Nat) (ds : List Char), (fuel ≠ 0 ∨ ds ≠ []) →
    Nat.toDigitsCore b fuel n ds ≠ [] := by
  intro fuel
  induction fuel with
  | zero => intro n ds h; rw [Nat.toDigitsCore]; rcases h with h | h; exact absurd rfl h; exact h
  | succ fuel ih =>
    intro n ds _
    rw [Nat.toDigitsCore]
    split
    · simp
    · exact ih _ _ (Or.inr (by simp))

theorem decimal_ne_nil (n : Nat) : decimal n ≠ [] := by
  rw [decimal_eq, Nat.toDigits]
  intro h
  exact toDigitsCore_ne_nil 10 (n + 1) n [] (Or.inl (by omega)) (List.map_eq_nil_iff.1 h)

theorem decimal_digits (n : Nat) : ∀ x ∈ decimal n, isDigit x = true := by
  intro x hx
  rw [decimal_eq] at hx
  obtain ⟨c, hc, rfl⟩ := List.mem_map.1 hx
  have hd := Nat.isDigit_of_mem_toDigits (by decide) (by decide) hc
  simp only [Char.isDigit, Bool.and_eq_true, decide_eq_true_eq] at hd
  have h1 : 48 ≤ c.toNat := by have := hd.1; simpa [UInt32.le_iff_toNat_le] using this
  have h2 : c.toNat ≤ 57 := by have := hd.2; simpa [UInt32.le_iff_toNat_le] using this
  simp only [isDigit, chByte, Bool.and_eq_true, decide_eq_true_eq, UInt8.le_iff_toNat_le]
  simp
  omega

/-- what is true of every digit byte -/
theorem digit_byte : ∀ x : UInt8, isDigit x = true →
    toLower x = x ∧ isAuthEnd x = false ∧ x ≠ AT ∧ x ≠ COLON ∧ isSpace x = false ∧
    x ≠ 0x2D ∧ x ≠ 0x2B ∧ isAlnum x = true ∧ x ≠ LBR := by
  apply forall_uint8; decide +kernel

theorem parsePort_decimal (n : Nat) (h : n ≤ 0xffff) : parsePort (decimal n) = some n := by
  have hne := decimal_ne_nil n
  have hdig := decimal_digits n
  have hval := digitsVal_decimal n
  generalize decimal n = d at hne hdig hval
  match d, hne with
  | x :: r, _ =>
    obtain ⟨_, _, _, _, hsp, hm, hp, hal, _⟩ := digit_byte x (hdig x (by simp))
    have hall : (x :: r).all isDigit = true := by
      rw [List.all_eq_true]; exact hdig
    unfold parsePort strtolFull
    simp only [List.headD_cons, hal, Bool.not_true, Bool.false_eq_true, if_false,
      List.dropWhile_cons, hsp, hm, hp, decide_false, Bool.or_false, hall, List.isEmpty_cons]
    simp [hval, h]

/-! ### the host name of an accepted URL -/

/-- a byte that may occur in an accepted host name: already lower case, does not end the
    authority, is not '@' -/
def GoodB (x : UInt8) : Prop := toLower x = x ∧ isAuthEnd x = false ∧ x ≠ AT
instance (x : UInt8) : Decidable (GoodB x) := by unfold GoodB; infer_instance

theorem goodB_lower : ∀ y : UInt8, isAuthEnd y = false → y ≠ AT → GoodB (toLower y) := by
  apply forall_uint8; decide +kernel

theorem goodB_digit (x : UInt8) (h : isDigit x = true) : GoodB x := by
  obtain ⟨a, b, c, _⟩ := digit_byte x h
  exact ⟨a, b, c⟩

/-- shape of the host name `splitHostPort` delivers: it never starts with '[', and if it
    contains a ':' (it then came from a bracketed literal) it contains neither ']' nor '[' -/
structure HostOk (name : Bytes) : Prop where
  head : name.headD 0 ≠ LBR
  br : COLON ∈ name → RBR ∉ name ∧ LBR ∉ name

theorem headD_ne_of_not_mem (l : Bytes) (c : UInt8) (hc : c ≠ 0) (h : c ∉ l) : l.headD 0 ≠ c := by
  cases l with
  | nil => simpa using Ne.symm hc
  | cons x t => simp only [List.headD_cons]; intro e; subst e; exact h (by simp)

theorem splitHostPort_name (h name : Bytes) (pt : Option Bytes)
    (hs : splitHostPort h = some (name, pt)) : (∀ x ∈ name, x ∈ h) ∧ HostOk name := by
  unfold splitHostPort at hs
  by_cases hb : h.headD 0 = LBR
  · rw [if_pos hb] at hs
    simp only at hs
    split at hs
    · cases hs
    · split at hs
      · cases hs
      · rename_i hl
        have hl' : LBR ∉ upTo RBR h.tail := by
          rw [← hasChr_false]; simpa using hl
        have hn : name = upTo RBR h.tail := by
          split at hs
          · injection hs with hs; injection hs with hs _; exact hs.symm
          · split at hs
            · injection hs with hs; injection hs with hs _; exact hs.symm
            · cases hs
        subst hn
        refine ⟨fun x hx => List.mem_of_mem_tail (mem_upTo _ _ x hx).1, ?_, ?_⟩
        · exact headD_ne_of_not_mem _ _ (by decide) hl'
        · intro _; exact ⟨fun hr => (mem_upTo _ _ _ hr).2 rfl, hl'⟩
  · rw [if_neg hb] at hs
    have hn : name = upTo COLON h := by
      split at hs
      · injection hs with hs; injection hs with hs _; exact hs.symm
      · injection hs with hs; injection hs with hs _; exact hs.symm
    subst hn
    refine ⟨fun x hx => (mem_upTo _ _ x hx).1, ?_, ?_⟩
    · cases h with
      | nil => simp only [upTo, List.takeWhile_nil, List.headD_nil]; decide
      | cons x t =>
        simp only [List.headD_cons] at hb
        simp only [upTo, List.takeWhile_cons]
        by_cases hx : x = COLON
        · subst hx; simp only [ne_eq, not_true_eq_false, decide_false, Bool.false_eq_true, if_false, List.headD_nil]; decide
        · simp [hx, hb]
    · intro hc; exact absurd rfl (mem_upTo _ _ _ hc).2

theorem finishParse_split (scheme : Bytes) (bufsz : Nat) (ui : Option Bytes) (host c : Bytes) (u : Url)
    (rv : Nat) (h : finishParse scheme bufsz ui host c = ⟨rv, some u⟩) :
    ∃ name pt, splitHostPort host = some (name, pt) ∧ u.hostname = some name := by
  unfold finishParse at h
  simp only [fail] at h
  split at h
  · cases h
  · rename_i name portText hsp
    refine ⟨name, portText, hsp, ?_⟩
    split at h
    · cases h
    · split at h
      · split at h
        · cases h
        · split at h
          · cases h
          · injection h with h1 h2; injection h2 with h2; subst h2; rfl
      · injection h with h1 h2; injection h2 with h2; subst h2; rfl

theorem mem_takeWhile_true (p : UInt8 → Bool) (l : Bytes) : ∀ x ∈ l.takeWhile p, p x = true := by
  induction l with
  | nil => simp
  | cons y t ih =>
    intro x hx
    rw [List.takeWhile_cons] at hx
    by_cases hy : p y = true
    · rw [if_pos hy] at hx
      rcases List.mem_cons.1 hx with hx | hx
      · subst hx; exact hy
      · exact ih x hx
    · rw [if_neg hy] at hx; cases hx

/-- the host name of an accepted authority-form URL -/
theorem parseAuthority_host (scheme : Bytes) (bufsz : Nat) (p : Bytes) (u : Url) (rv : Nat)
    (h : parseAuthority scheme bufsz p = ⟨rv, some u⟩) :
    ∃ name, u.hostname = some name ∧ (∀ x ∈ name, GoodB x) ∧ HostOk name := by
  unfold parseAuthority at h
  simp only [fail] at h
  split at h
  · cases h
  · rename_i hat
    split at h
    · cases h
    · obtain ⟨name, pt, hsp, hname⟩ := finishParse_split _ _ _ _ _ _ _ h
      obtain ⟨hsub, hok⟩ := splitHostPort_name _ _ _ hsp
      refine ⟨name, hname, ?_, hok⟩
      intro x hx
      obtain ⟨y, hy, rfl⟩ := List.mem_map.1 (hsub x hx)
      have hauth : ∀ z ∈ p.takeWhile (fun c => !isAuthEnd c), isAuthEnd z = false := by
        intro z hz; have := mem_takeWhile_true _ _ z hz; simpa using this
      by_cases ha : hasChr (p.takeWhile (fun c => !isAuthEnd c)) AT = true
      · rw [if_pos ha] at hy
        have hno : hasChr (after AT (p.takeWhile (fun c => !isAuthEnd c))) AT = false := by
          simpa [ha] using hat
        rw [hasChr_false] at hno
        exact goodB_lower y (hauth y (mem_after _ _ y hy)) (fun e => hno (e ▸ hy))
      · rw [if_neg ha] at hy
        have hno : AT ∉ p.takeWhile (fun c => !isAuthEnd c) := by
          rw [← hasChr_false]; simpa using ha
        exact goodB_lower y (hauth y hy) (fun e => hno (e ▸ hy))

/-! ### what nng_url_sprintf writes for host and port, and how it splits again -/

/-- host as printed: in brackets when it contains a ':' -/
def hostText (name : Bytes) : Bytes :=
  (if hasChr name COLON then [LBR] else []) ++ name ++ (if hasChr name COLON then [RBR] else [])

theorem split_hostText (name : Bytes) (hok : HostOk name) (P : Bytes)
    (hP : P = [] ∨ ∃ d, P = COLON :: d) :
    splitHostPort (hostText name ++ P) = some (name, match P with | [] => none | _ :: d => some d) := by
  by_cases hc : hasChr name COLON = true
  · obtain ⟨hr, hl⟩ := hok.br ((hasChr_true _ _).1 hc)
    have e : hostText name ++ P = LBR :: (name ++ RBR :: P) := by simp [hostText, hc]
    have h1 : hasChr (name ++ RBR :: P) RBR = true := by rw [hasChr_true]; simp
    have h2 : hasChr name LBR = false := by rw [hasChr_false]; exact hl
    rw [e]; unfold splitHostPort
    simp only [List.headD_cons, if_true, List.tail_cons, h1, upTo_append RBR name P hr, h2,
      after_append RBR name P hr, Bool.not_true, Bool.false_eq_true, if_false]
    rcases hP with rfl | ⟨d, rfl⟩
    · rfl
    · simp
  · have hc' : COLON ∉ name := by rw [← hasChr_false]; simpa using hc
    have e : hostText name ++ P = name ++ P := by simp [hostText, hc]
    rw [e]; unfold splitHostPort
    have hh : (name ++ P).headD 0 ≠ LBR := by
      cases name with
      | nil => rcases hP with rfl | ⟨d, rfl⟩ <;> simp <;> decide
      | cons x t => simpa using hok.head
    rw [if_neg hh]
    rcases hP with rfl | ⟨d, rfl⟩
    · simp only [List.append_nil]
      rw [dropWhile_ne_all COLON name hc', upTo_all COLON name hc']
    · rw [dropWhile_ne_append COLON name d hc', upTo_append COLON name d hc']

theorem goodB_hostText (name : Bytes) (hg : ∀ x ∈ name, GoodB x) : ∀ x ∈ hostText name, GoodB x := by
  intro x hx
  unfold hostText at hx
  simp only [List.mem_append] at hx
  rcases hx with (hx | hx) | hx
  · split at hx
    · simp at hx; subst hx; decide
    · cases hx
  · exact hg x hx
  · split at hx
    · simp at hx; subst hx; decide
    · cases hx

/-- consequences of all bytes being good for the second parse of the authority -/
theorem goodB_auth (a : Bytes) (hg : ∀ x ∈ a, GoodB x) :
    (∀ x ∈ a, (!isAuthEnd x) = true) ∧ hasChr a AT = false ∧ a.map toLower = a := by
  refine ⟨fun x hx => by simp [(hg x hx).2.1], ?_, ?_⟩
  · rw [hasChr_false]; intro h; exact (hg _ h).2.2 rfl
  · induction a with
    | nil => rfl
    | cons x t ih =>
      simp only [List.map_cons, (hg x (by simp)).1]
      rw [ih (fun y hy => hg y (List.mem_cons_of_mem _ hy))]

/-! ### the canonicaliser's output still starts a path, query or fragment -/

theorem isSegEnd_append (a b : Bytes) (h : a ≠ []) : isSegEnd (a ++ b) = isSegEnd a := by
  cases a with
  | nil => exact absurd rfl h
  | cons x t => rfl

theorem isSegEnd_cons (c : UInt8) (r : Bytes) : isSegEnd (c :: r) = segc c := rfl

theorem segc_ne_pct (c : UInt8) (h : segc c = true) : c ≠ PCT := by
  rcases segc_true c h with h | h | h <;> subst h <;> decide

theorem pass1_head (s a : Bytes) (hs : isSegEnd s = true) (h : pass1 s = some a) : isSegEnd a = true := by
  cases s with
  | nil => simp [pass1] at h; subst h; rfl
  | cons c rest =>
    rw [isSegEnd_cons] at hs
    rw [pass1_plain _ _ (segc_ne_pct c hs)] at h
    split at h
    · cases h
    · injection h with h; subst h; exact hs

theorem pass2_head (s : Bytes) (hs : isSegEnd s = true) : isSegEnd (pass2 false false s) = true := by
  cases s with
  | nil => rfl
  | cons c rest =>
    by_cases hc : c = SLASH
    · subst hc; simp [pass2, isSegEnd]
    · rw [isSegEnd_cons] at hs
      simp only [pass2, hc, decide_false, Bool.false_and, Bool.false_eq_true, if_false, isSegEnd_cons, hs]

theorem pass3_head (s : Bytes) (hs : isSegEnd s = true) : isSegEnd (pass3 false [] 0 s) = true := by
  refine pass3_ind
    (fun acc rest => (acc = [] → isSegEnd rest = true) ∧ (acc ≠ [] → isSegEnd acc.reverse = true))
    (fun out => isSegEnd out = true) ?_ ?_ ?_ ?_ ?_ ?_ s.length s [] (Nat.le_refl _)
    ⟨fun _ => hs, fun h => absurd rfl h⟩
  · intro acc c rest ⟨h1, h2⟩ hc he
    refine ⟨fun h => (by cases h), fun _ => ?_⟩
    by_cases ha : acc = []
    · have := h1 ha
      rw [isSegEnd_cons, segc_iff] at this
      rcases this with h | h
      · exact absurd h hc
      · rw [he] at h; cases h
    · rw [List.reverse_cons, isSegEnd_append _ _ (by simpa using ha)]; exact h2 ha
  · intro acc rest ⟨_, h2⟩ _ _
    refine ⟨fun h => (by cases h), fun _ => ?_⟩
    by_cases ha : acc = []
    · subst ha; rfl
    · rw [List.reverse_cons, isSegEnd_append _ _ (by simpa using ha)]; exact h2 ha
  · intro acc r ⟨_, h2⟩ hse
    exact ⟨fun _ => hse, h2⟩
  · intro acc r ⟨_, h2⟩ hse
    refine ⟨fun _ => hse, fun hne => ?_⟩
    rcases popSeg_spec acc with h0 | ⟨b, hb⟩
    · exact absurd h0 hne
    · have ha : acc ≠ [] := by intro e; subst e; exact hne rfl
      have := h2 ha
      rw [hb, isSegEnd_append _ _ (by simpa using hne)] at this
      exact this
  · intro acc ⟨_, h2⟩
    by_cases ha : acc = []
    · subst ha; rfl
    · exact h2 ha
  · intro acc c rest ⟨h1, h2⟩ _
    by_cases ha : acc = []
    · subst ha; simpa using h1 rfl
    · rw [isSegEnd_append _ _ (by simpa using ha)]; exact h2 ha

theorem canonify_head (s r : Bytes) (h : canonify s = some r) (hs : isSegEnd s = true) :
    isSegEnd r = true := by
  obtain ⟨a, ha, hr⟩ := canonify_passes s r h
  rw [hr]
  exact pass3_head _ (pass2_head _ (pass1_head s a hs ha))

theorem isSegEnd_iff_authEnd (c : Bytes) :
    isSegEnd c = true ↔ (c = [] ∨ ∃ x t, c = x :: t ∧ isAuthEnd x = true) := by
  cases c with
  | nil => simp [isSegEnd]
  | cons x t =>
    simp only [isSegEnd, isAuthEnd, Bool.or_eq_true, decide_eq_true_eq, List.cons_ne_nil, false_or,
      List.cons.injEq, exists_and_right]
    constructor
    · rintro ((h | h) | h)
      · exact ⟨x, ⟨t, rfl, rfl⟩, Or.inl (Or.inr h)⟩
      · exact ⟨x, ⟨t, rfl, rfl⟩, Or.inr h⟩
      · exact ⟨x, ⟨t, rfl, rfl⟩, Or.inl (Or.inl h)⟩
    · rintro ⟨y, ⟨t', hy, _⟩, h⟩
      subst hy
      rcases h with (h | h) | h
      · exact Or.inr h
      · exact Or.inl (Or.inl h)
      · exact Or.inl (Or.inr h)

theorem isSegEnd_dropWhile (p : Bytes) : isSegEnd (p.dropWhile (fun c => !isAuthEnd c)) = true := by
  rw [isSegEnd_iff_authEnd]
  cases hd : p.dropWhile (fun c => !isAuthEnd c) with
  | nil => left; rfl
  | cons x t =>
    right
    have := dropWhile_head_false _ p x t hd
    exact ⟨x, t, rfl, by simpa using this⟩

theorem takeWhile_segEnd (c : Bytes) (h : isSegEnd c = true) :
    c.takeWhile (fun x => !isAuthEnd x) = [] ∧ c.dropWhile (fun x => !isAuthEnd x) = c := by
  rw [isSegEnd_iff_authEnd] at h
  rcases h with rfl | ⟨x, t, rfl, hx⟩
  · exact ⟨rfl, rfl⟩
  · simp [hx]

/-- the canonicaliser is idempotent -/
theorem canonify_idem (s r : Bytes) (h : canonify s = some r) : canonify r = some r := by
  unfold canonify
  rw [canonPasses_fixed r (canonify_canonical s r h)]
  simp only
  rw [if_pos ((utf8Validate_iff r).2 (canonify_wellFormed s r h))]

/-! ### the scheme is found again -/

theorem schemeLen_append (s t : Bytes) (h : COLON ∉ s) : schemeLen (s ++ COLON :: t) = s.length := by
  induction s with
  | nil => simp [schemeLen]
  | cons x r ih =>
    have hx : x ≠ COLON := fun e => h (by simp [e])
    simp only [List.cons_append, schemeLen, hx, if_false, List.length_cons]
    rw [ih (fun hm => h (List.mem_cons_of_mem _ hm))]

theorem schemes_no_colon : ∀ e ∈ schemes, COLON ∉ e := by decide

theorem strncmpEq_self (s y : Bytes) (hz : (0 : UInt8) ∉ s) : strncmpEq (s ++ y) s s.length = true := by
  induction s with
  | nil => simp [strncmpEq]
  | cons x r ih =>
    have hx : x ≠ 0 := fun e => hz (by simp [e])
    simp only [List.cons_append, List.length_cons, strncmpEq, List.headD_cons, bne_self_eq_false,
      Bool.false_eq_true, if_false, beq_iff_eq, hx, List.tail_cons]
    exact ih (fun hm => hz (List.mem_cons_of_mem _ hm))

/-- `strncmpEq_take` needing only the compared prefix to be NUL-free -/
theorem strncmpEq_take' : ∀ (n : Nat) (a e : Bytes), (0 : UInt8) ∉ a.take n → n ≤ a.length →
    strncmpEq a e n = true → e.take n = a.take n ∧ n ≤ e.length := by
  intro n
  induction n with
  | zero => intro a e _ _ _; simp
  | succ n ih =>
    intro a e hz hl h
    cases a with
    | nil => simp at hl
    | cons x a' =>
      have hx : x ≠ 0 := fun hx => hz (by simp [hx])
      cases e with
      | nil => simp [strncmpEq, hx] at h
      | cons y e' =>
        by_cases hxy : x = y
        · subst hxy
          simp [strncmpEq, hx] at h
          have := ih a' e' (fun hm => hz (by simp [hm])) (by simpa using hl) h
          simp [this.1]; omega
        · simp [strncmpEq, hxy] at h

theorem lookupScheme_self (scheme x : Bytes) (hm : scheme ∈ schemes) :
    lookupScheme (scheme ++ x) scheme.length = some scheme := by
  have hz := schemes_nul_free scheme hm
  have hself : schemeMatches (scheme ++ x) scheme.length scheme = true := by
    simp [schemeMatches, strncmpEq_self scheme x hz]
  unfold lookupScheme
  cases hf : schemes.find? (schemeMatches (scheme ++ x) scheme.length) with
  | none =>
    have := List.find?_eq_none.1 hf scheme hm
    rw [hself] at this; exact absurd rfl this
  | some e =>
    have hem : e ∈ schemes := List.mem_of_find?_eq_some hf
    have hmt : schemeMatches (scheme ++ x) scheme.length e = true := List.find?_some hf
    simp only [schemeMatches, Bool.and_eq_true, decide_eq_true_eq] at hmt
    obtain ⟨h1, h2⟩ := hmt
    have htk : (scheme ++ x).take scheme.length = scheme := by simp
    obtain ⟨ht, hl⟩ := strncmpEq_take' _ (scheme ++ x) e (by rw [htk]; exact hz) (by simp) h1
    have hd : e.drop scheme.length = [] := by
      cases hdr : e.drop scheme.length with
      | nil => rfl
      | cons y t =>
        rw [hdr] at h2; simp at h2; subst h2
        exact absurd (List.mem_of_mem_drop (hdr ▸ List.mem_cons_self)) (schemes_nul_free e hem)
    have hlen : e.length ≤ scheme.length := by simpa using hd
    rw [htk] at ht
    rw [← ht, List.take_of_length_le hlen]

/-! ### parsing what was printed -/

/-- `parse` of scheme, "://", a printed authority `A` that splits into `name` and port text `pt`,
    then a canonical `c` -/
theorem reparse_core (scheme A c name : Bytes) (pt : Option Bytes) (port : Nat)
    (hm : scheme ∈ schemes) (hns : specialSchemes.contains scheme = false)
    (hA : ∀ x ∈ A, GoodB x) (hsp : splitHostPort A = some (name, pt))
    (hlen : name.length < Generated.urlHostMax)
    (hpt : match pt with
      | some d => d ≠ [] ∧ parsePort d = some port
      | none => defaultPort scheme = port)
    (hc : canonify c = some c) (hce : isSegEnd c = true) :
    parse (scheme ++ (sep ++ (A ++ c))) =
      ⟨0, some ⟨scheme, none, some name, port, (splitPQF c).1, (splitPQF c).2.1, (splitPQF c).2.2,
        if (sep ++ (A ++ c)).length ≥ Generated.urlInlineSize then (sep ++ (A ++ c)).length + 1 else 0⟩⟩ := by
  obtain ⟨g1, g2, g3⟩ := goodB_auth A hA
  obtain ⟨t1, t2⟩ := takeWhile_segEnd c hce
  have hlenS : schemeLen (scheme ++ (sep ++ (A ++ c))) = scheme.length :=
    schemeLen_append scheme _ (schemes_no_colon _ hm)
  have hdrop : (scheme ++ (sep ++ (A ++ c))).drop scheme.length = sep ++ (A ++ c) := by simp
  have hsep : strncmpEq (sep ++ (A ++ c)) sep 3 = true := by
    simp [strncmpEq, sep, COLON, SLASH]
  have hd3 : (sep ++ (A ++ c)).drop 3 = A ++ c := rfl
  have htw : (A ++ c).takeWhile (fun x => !isAuthEnd x) = A := takeWhile_append_stop _ A c g1 t1
  have hdw : (A ++ c).dropWhile (fun x => !isAuthEnd x) = c := dropWhile_append_stop _ A c g1 t2
  have hhost : ¬ name.length ≥ Generated.urlHostMax := by omega
  unfold parse
  simp only [hlenS, hdrop, hsep, Bool.not_true, Bool.false_eq_true, if_false,
    lookupScheme_self scheme _ hm, hns, hd3]
  unfold parseAuthority
  simp only [htw, hdw, g2, Bool.false_and, Bool.false_eq_true, if_false, hc, g3]
  unfold finishParse
  simp only [hsp, if_neg hhost]
  cases pt with
  | some d =>
    obtain ⟨hne, hp⟩ := hpt
    have : d.isEmpty = false := by cases d <;> simp_all
    simp only [this, Bool.false_eq_true, if_false, hp]
  | none => simp only [hpt]

/-- an accepted URL of an authority-form scheme went through `parseAuthority` -/
theorem parse_authority (raw : Bytes) (u : Url) (rv : Nat) (h : parse raw = ⟨rv, some u⟩)
    (hs : specialSchemes.contains u.scheme = false) :
    ∃ scheme bufsz rest, parseAuthority scheme bufsz rest = ⟨rv, some u⟩ := by
  unfold parse at h
  simp only [fail] at h
  split at h
  · cases h
  · split at h
    · cases h
    · split at h
      · rename_i hsp
        injection h with h1 h2; injection h2 with h2; subst h2
        simp only at hs; rw [hs] at hsp; cases hsp
      · exact ⟨_, _, _, h⟩

/-- Round trip for the authority-form schemes: what nng_url_sprintf prints for an accepted URL
    is accepted again and yields the same URL, except that the user info (which is not printed)
    is gone; `b` is the new buffer size. -/
theorem roundtrip_authority (raw : Bytes) (hz : (0 : UInt8) ∉ raw) (u : Url) (rv : Nat)
    (h : parse raw = ⟨rv, some u⟩) (hs : specialSchemes.contains u.scheme = false) :
    ∃ b, parse (sprintf u) = ⟨0, some { u with userinfo := none, bufsz := b }⟩ := by
  obtain ⟨_, hmem, _, _, _, _⟩ := parse_ok raw hz u rv h
  obtain ⟨scheme, bufsz, rest, hpa⟩ := parse_authority raw u rv h hs
  obtain ⟨_, hf⟩ := parseAuthority_ok _ _ _ _ _ hpa
  obtain ⟨name, hname, hgood, hok⟩ := parseAuthority_host _ _ _ _ _ hpa
  obtain ⟨c, hc, hsplit⟩ := hf.canon
  obtain ⟨n', hn', hlen⟩ := hf.host
  rw [hname] at hn'; injection hn' with hn'; subst hn'
  have hjoin := splitPQF_join c
  rw [hsplit] at hjoin
  simp only at hjoin
  have hcc := canonify_idem _ _ hc
  have hce := canonify_head _ _ hc (isSegEnd_dropWhile rest)
  have hport := hf.port
  by_cases hd : u.port ≠ 0 ∧ u.port = defaultPort u.scheme
  · -- the default port is not printed
    have hspr : sprintf u = u.scheme ++ (sep ++ ((hostText name ++ []) ++ c)) := by
      unfold sprintf hostText
      have : (!(decide (u.port ≠ 0) && decide (u.port = defaultPort u.scheme))) = false := by
        simp [hd.1, ← hd.2]
      simp only [hs, Bool.false_eq_true, if_false, hname, Option.getD_some, this, List.append_assoc,
        List.append_nil, List.nil_append]
      rw [← hjoin]; simp only [List.append_assoc]
    rw [hspr]
    have hr := reparse_core u.scheme (hostText name ++ []) c name none u.port hmem hs
      (by simpa using goodB_hostText name hgood)
      (split_hostText name hok [] (Or.inl rfl)) hlen hd.2.symm hcc hce
    have e1 : (splitPQF c).1 = u.path := by rw [hsplit]
    have e2 : (splitPQF c).2.1 = u.query := by rw [hsplit]
    have e3 : (splitPQF c).2.2 = u.fragment := by rw [hsplit]
    rw [e1, e2, e3, ← hname] at hr
    exact ⟨_, hr⟩
  · have hspr : sprintf u = u.scheme ++ (sep ++ ((hostText name ++ COLON :: decimal u.port) ++ c)) := by
      unfold sprintf hostText
      have : (!(decide (u.port ≠ 0) && decide (u.port = defaultPort u.scheme))) = true := by
        simp only [Bool.not_eq_true', Bool.and_eq_false_iff, decide_eq_false_iff_not]
        exact Classical.not_and_iff_not_or_not.mp hd
      simp only [hs, Bool.false_eq_true, if_false, hname, Option.getD_some, this, if_true,
        List.append_assoc, List.nil_append]
      rw [← hjoin]; simp only [List.append_assoc, List.cons_append]
    rw [hspr]
    have hA : ∀ x ∈ hostText name ++ COLON :: decimal u.port, GoodB x := by
      intro x hx
      rcases List.mem_append.1 hx with hx | hx
      · exact goodB_hostText name hgood x hx
      · rcases List.mem_cons.1 hx with hx | hx
        · subst hx; decide
        · exact goodB_digit x (decimal_digits _ x hx)
    have hr := reparse_core u.scheme (hostText name ++ COLON :: decimal u.port) c name
      (some (decimal u.port)) u.port hmem hs hA
      (split_hostText name hok _ (Or.inr ⟨_, rfl⟩)) hlen
      ⟨decimal_ne_nil _, parsePort_decimal _ hport⟩ hcc hce
    have e1 : (splitPQF c).1 = u.path := by rw [hsplit]
    have e2 : (splitPQF c).2.1 = u.query := by rw [hsplit]
    have e3 : (splitPQF c).2.2 = u.fragment := by rw [hsplit]
    rw [e1, e2, e3, ← hname] at hr
    exact ⟨_, hr⟩

end Nng.UrlProofs
