/-
  What the model's cancellation paths (req0_ctx_reset, dropping a parked send, req0_ctx_cancel_recv,
  req0_ctx_cancel_send, the common prefix of req0_ctx_send / req0_ctx_fini) do to the fields the
  judge relation reads (`mv`), and what they print.
-/
import NngModel.Proofs.ReqJudgeWipe
namespace Nng.ReqJ
open Nng Nng.Proto Nng.Req Nng.ReqSpec

theorem mv_flag (s : State) (m : String) : mv (flag s m) = mv s := by
  unfold flag; split <;> rfl

theorem mv_ctxRelease (s : State) (h : Nat) : mv (ctxRelease s h) = mv s := by
  unfold ctxRelease
  dsimp only
  split
  · simp only [mv, setMsg, MV.mk.injEq, true_and, and_true]
    funext x; simp only [upd]; split
    · rename_i e; rw [e]
    · rfl
  · exact mv_flag _ _

theorem mv_giveBack (s : State) (h : Nat) : mv (giveBack s h) = mv s := by
  unfold giveBack
  dsimp only
  split
  · simp only [mv, setMsg, MV.mk.injEq, true_and, and_true]
    funext x; simp only [upd]; split
    · rename_i e; rw [e]
    · rfl
  · exact mv_flag _ _

theorem mv_tranRelease (s : State) (h : Nat) : mv (tranRelease s h) = mv s := by
  unfold tranRelease
  dsimp only
  split
  · simp only [mv, setMsg, MV.mk.injEq, true_and, and_true]
    funext x; simp only [upd]; split
    · rename_i e; rw [e]
    · rfl
  · exact mv_flag _ _

/-- `mv` is a function of these projections -/
theorem mv_eq_of {s t : State} (h1 : s.ctx = t.ctx) (h2 : s.pipe = t.pipe) (h3 : s.sendQueue = t.sendQueue)
    (h4 : s.readyPipes = t.readyPipes) (h5 : s.alias = t.alias) (h6 : ∀ x, (s.msgs x).body = (t.msgs x).body)
    (h7 : s.now = t.now) (h8 : s.nalloc = t.nalloc) (h9 : s.npipes = t.npipes) (h10 : s.tickAt = t.tickAt)
    (h11 : s.tickNever = t.tickNever) (h12 : s.opened = t.opened) (h13 : s.gone = t.gone) (h14 : s.sClosed = t.sClosed)
    (h15 : s.retryTick = t.retryTick) (h16 : s.sockRetry = t.sockRetry) : mv s = mv t := by
  simp only [mv, MV.mk.injEq]
  exact ⟨h1, h2, h3, h4, h5, funext h6, h7, h8, h9, h10, h11, h12, h13, h14, h15, h16⟩

/-! ### the operations on the judged fields -/

def resetCtx (c : Ctx) : Ctx :=
  { c with requestId := 0, reqMsg := none, repMsg := none, connReset := false, wired := false, wireCount := 0,
           everRetry := false }

def resetV (v : MV) (k : Nat) : MV :=
  { v with sendQueue := v.sendQueue.erase k, pipe := eraseCtxs v.pipe k, ctx := upd v.ctx k (resetCtx (v.ctx k)) }

def dropV (v : MV) (k : Nat) : MV :=
  { v with sendQueue := v.sendQueue.erase k, ctx := upd v.ctx k { v.ctx k with sendAio := none, reqMsg := none } }

def setCtxV (v : MV) (k : Nat) (c : Ctx) : MV := { v with ctx := upd v.ctx k c }

def wipeV (v : MV) (k : Nat) (dr cr : Bool) : MV :=
  { v with sendQueue := v.sendQueue.erase k, pipe := eraseCtxs v.pipe k, ctx := upd v.ctx k (wipeCtx (v.ctx k) dr cr) }

theorem mv_wipeSt (s : State) (k : Nat) (dr cr : Bool) : mv (wipeSt s k dr cr) = wipeV (mv s) k dr cr := rfl
theorem mv_setCtx (s : State) (k : Nat) (c : Ctx) : mv (setCtx s k c) = setCtxV (mv s) k c := rfl

theorem upd_body (f : Nat → MsgObj) (h x : Nat) (m : MsgObj) (e : m.body = (f h).body) : (upd f h m x).body = (f x).body := by
  simp only [upd]; split
  · rename_i e'; rw [e, e']
  · rfl

macro "mv_brute" : tactic =>
  `(tactic| ((repeat' split) <;> (apply mv_eq_of <;> first | rfl | (intro x; first | rfl | (dsimp only <;> first | rfl | exact upd_body _ _ _ _ rfl)))))

theorem mv_ctxReset (s : State) (k : Nat) : mv (ctxReset s k) = resetV (mv s) k := by
  show _ = mv { s with sendQueue := s.sendQueue.erase k, pipe := eraseCtxs s.pipe k, ctx := upd s.ctx k (resetCtx (s.ctx k)) }
  unfold ctxReset ctxRelease flag
  simp only [setMsg, setCtx]
  mv_brute

theorem mv_dropSend (s : State) (k : Nat) : mv (dropSend s k) = dropV (mv s) k := by
  show _ = mv { s with sendQueue := s.sendQueue.erase k, ctx := upd s.ctx k { s.ctx k with sendAio := none, reqMsg := none } }
  unfold dropSend giveBack flag
  simp only [setMsg, setCtx]
  mv_brute

theorem erase_erase {l : List Nat} (hn : l.Nodup) (k : Nat) : (l.erase k).erase k = l.erase k :=
  List.erase_of_not_mem hn.not_mem_erase

theorem cancelSend_eq (s : State) (k rv : Nat) (ua : UAio) (hs : (s.ctx k).sendAio = some ua) (hn : s.sendQueue.Nodup) :
    mv (cancelSend s k rv).1 = wipeV (mv s) k false false ∧ (cancelSend s k rv).2 = [Out.done ua.aio rv none true] := by
  unfold cancelSend
  simp only [hs, and_true]
  rw [mv_ctxReset, mv_dropSend]
  simp only [resetV, dropV, wipeV, mv, MV.mk.injEq, true_and, and_true]
  refine ⟨?_, erase_erase hn k⟩
  funext x
  simp only [upd, resetCtx, wipeCtx]
  split <;> simp

theorem wipeV_ext (v : MV) (k : Nat) (dr cr : Bool) (c : Ctx) (sq : List Nat) (hc : c = wipeCtx (v.ctx k) dr cr)
    (hs : sq = v.sendQueue.erase k) :
    ({ v with sendQueue := sq, pipe := eraseCtxs v.pipe k, ctx := upd v.ctx k c } : MV) = wipeV v k dr cr := by
  subst hc; subst hs; rfl

theorem cancelRecv_eq (s : State) (k rv : Nat) (ra : UAio) (hr : (s.ctx k).recvAio = some ra) (hn : s.sendQueue.Nodup) :
    mv (cancelRecv s k rv).1 = wipeV (mv s) k true false ∧
    (cancelRecv s k rv).2 = (match (s.ctx k).sendAio with
      | some ua => [Out.done ua.aio Err.ecanceled none true] | none => []) ++ [Out.done ra.aio rv none false] := by
  unfold cancelRecv
  simp only [hr]
  cases hs : (s.ctx k).sendAio with
  | none =>
    simp only [List.nil_append, and_true]
    rw [mv_ctxReset, mv_setCtx]
    simp only [resetV, setCtxV, wipeV, mv, MV.mk.injEq, true_and, and_true, upd_upd, upd_same]
    congr 1
    simp [resetCtx, wipeCtx, hs]
  | some ua =>
    simp only [and_true]
    rw [mv_ctxReset, mv_setCtx, mv_dropSend, dropSend_ctx]
    simp only [resetV, setCtxV, dropV, wipeV, mv, MV.mk.injEq, true_and, and_true, upd_upd, upd_same]
    refine ⟨?_, erase_erase hn k⟩
    congr 1

theorem finiChain_eq (s : State) (k e : Nat) (hn : s.sendQueue.Nodup) :
    mv (finiChain s k e).1 = wipeV (mv s) k true false ∧
    (finiChain s k e).2 = (match (s.ctx k).recvAio with | some ra => [Out.done ra.aio e none false] | none => []) ++
      (match (s.ctx k).sendAio with | some ua => [Out.done ua.aio e none true] | none => []) := by
  unfold finiChain
  cases hr : (s.ctx k).recvAio with
  | none =>
    cases hs : (s.ctx k).sendAio with
    | none =>
      simp only [hs, List.nil_append, and_true]
      rw [mv_ctxReset]
      simp only [resetV, wipeV, mv, MV.mk.injEq, true_and, and_true]
      congr 1
      simp [resetCtx, wipeCtx, hs, hr]
    | some ua =>
      simp only [hs, List.nil_append, and_true]
      rw [mv_ctxReset, mv_dropSend]
      simp only [resetV, dropV, wipeV, mv, MV.mk.injEq, true_and, and_true, upd_upd, upd_same]
      refine ⟨?_, erase_erase hn k⟩
      congr 1
      simp [resetCtx, wipeCtx, hr]
  | some ra =>
    have e0 : ∀ c : Ctx, (setCtx s k c).ctx k = c := fun c => by simp [setCtx]
    cases hs : (s.ctx k).sendAio with
    | none =>
      simp only [e0, hs, List.append_nil, and_true]
      rw [mv_ctxReset, mv_setCtx]
      simp only [resetV, setCtxV, wipeV, mv, MV.mk.injEq, true_and, and_true, upd_upd, upd_same]
      congr 1
    | some ua =>
      simp only [e0, hs, and_true]
      rw [mv_ctxReset, mv_dropSend, mv_setCtx]
      simp only [resetV, setCtxV, dropV, wipeV, mv, MV.mk.injEq, true_and, and_true, upd_upd, upd_same]
      refine ⟨?_, erase_erase hn k⟩
      congr 1

theorem ctxFini_eq (s : State) (k : Nat) : ctxFini s k =
    (setCtx (finiChain s k Err.eclosed).1 k { (finiChain s k Err.eclosed).1.ctx k with live := false }, (finiChain s k Err.eclosed).2) := rfl

end Nng.ReqJ
