/- the probe sequence of idhash.c, `j ↦ (5j+1) & (cap-1)`: a kernel-checked computation shows that
   for cap = 8, 16, …, 4096 it is one cycle through all cells (so it returns to its start after
   exactly `cap` steps and reaches every cell from every cell in fewer than `cap` steps). -/
import NngModel.Proofs.IdHash
namespace Nng.IdHash

theorem iter_add (cap : Nat) (a b s : Nat) : iter cap (a + b) s = iter cap a (iter cap b s) := by
  induction a with
  | zero => simp [iter]
  | succ a ih => rw [Nat.succ_add]; simp only [iter, ih]

theorem iter_succ' (cap i s : Nat) : iter cap (i + 1) s = iter cap i (idNext cap s) := by
  have := iter_add cap i 1 s
  simpa [iter] using this

/-- bit set of the cells visited in `k` steps from `cur` -/
def orbitMask (cap : Nat) : Nat → Nat → Nat → Nat
  | 0, _, mask => mask
  | k + 1, cur, mask => orbitMask cap k (idNext cap cur) (mask ||| 2 ^ cur)

/-- executable certificate: the orbit of cell 0 closes after `cap` steps and covers cells 0..cap-1 -/
def probeCheck (cap : Nat) : Bool := iter cap cap 0 == 0 && orbitMask cap cap 0 0 == 2 ^ cap - 1

theorem orbitMask_testBit (cap : Nat) : ∀ (k cur mask t : Nat),
    (orbitMask cap k cur mask).testBit t = true ↔ mask.testBit t = true ∨ ∃ i, i < k ∧ iter cap i cur = t := by
  intro k
  induction k with
  | zero => intro cur mask t; simp [orbitMask]
  | succ k ih =>
    intro cur mask t
    rw [orbitMask, ih, Nat.testBit_or, Nat.testBit_two_pow]
    constructor
    · rintro (h | ⟨i, hi, he⟩)
      · simp only [Bool.or_eq_true, decide_eq_true_eq] at h
        rcases h with h | h
        · exact Or.inl h
        · exact Or.inr ⟨0, by omega, by simpa [iter] using h⟩
      · exact Or.inr ⟨i + 1, by omega, by rw [iter_succ']; exact he⟩
    · rintro (h | ⟨i, hi, he⟩)
      · exact Or.inl (by simp [h])
      · cases i with
        | zero => exact Or.inl (by simp only [iter] at he; simp [he])
        | succ i => exact Or.inr ⟨i, by omega, by rw [iter_succ'] at he; exact he⟩

/-- every cell is reached from every cell in fewer than `cap` steps, and the cycle closes -/
def ProbeCovers (cap : Nat) : Prop :=
  (∀ s, s < cap → iter cap cap s = s) ∧ (∀ s t, s < cap → t < cap → ∃ k, k < cap ∧ iter cap k s = t)

/-- it is enough that the orbit of cell 0 closes after `cap` steps and reaches every cell -/
theorem probeCovers_of_zero {cap : Nat} (hclose : iter cap cap 0 = 0)
    (hreach : ∀ t, t < cap → ∃ i, i < cap ∧ iter cap i 0 = t) : ProbeCovers cap := by
  have hcyc : ∀ s, s < cap → iter cap cap s = s := by
    intro s hs
    obtain ⟨i, _, hi⟩ := hreach s hs
    rw [← hi, ← iter_add, Nat.add_comm, iter_add, hclose]
  refine ⟨hcyc, ?_⟩
  intro s t hs ht
  obtain ⟨i, hi, his⟩ := hreach s hs
  obtain ⟨j, hj, hjt⟩ := hreach t ht
  by_cases hij : i ≤ j
  · exact ⟨j - i, by omega, by rw [← his, ← iter_add, show j - i + i = j by omega]; exact hjt⟩
  · refine ⟨cap - i + j, by omega, ?_⟩
    rw [← his, ← iter_add, show cap - i + j + i = j + cap by omega, iter_add, hclose]; exact hjt

theorem probeCheck_sound {cap : Nat} (h : probeCheck cap = true) : ProbeCovers cap := by
  simp only [probeCheck, Bool.and_eq_true, beq_iff_eq] at h
  obtain ⟨hclose, hmask⟩ := h
  have hreach : ∀ t, t < cap → ∃ i, i < cap ∧ iter cap i 0 = t := by
    intro t ht
    have := (orbitMask_testBit cap cap 0 0 t).mp (by rw [hmask, Nat.testBit_two_pow_sub_one]; simpa using ht)
    simpa using this
  exact probeCovers_of_zero hclose hreach

theorem ProbeCovers.cycle {cap : Nat} (h : ProbeCovers cap) : ProbeCycle cap := h.1

set_option maxRecDepth 100000 in
set_option exponentiation.threshold 5000 in
/-- kernel-checked: the probe covers the table for every capacity id_resize can choose up to 4096 -/
theorem probeCovers_small : ∀ n, n ∈ [3, 4, 5, 6, 7, 8, 9, 10, 11, 12] → ProbeCovers (2 ^ n) := by
  intro n hn
  have : ([3, 4, 5, 6, 7, 8, 9, 10, 11, 12].all fun n => probeCheck (2 ^ n)) = true := by decide
  exact probeCheck_sound (List.all_eq_true.mp this n hn)

end Nng.IdHash
