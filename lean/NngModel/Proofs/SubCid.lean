/- C05: context identities (ghost `cid`) are pairwise distinct in every reachable state -/
import NngModel.Proofs.SubInv
namespace Nng.Sub
open Nng Nng.Proto

def cids (s : State) : List Nat := s.ctxs.map (·.cid)

structure CidInv (s : State) : Prop where
  bound : ∀ k ∈ cids s, k ≤ s.nctx
  nodup : (cids s).Nodup

theorem setCtx_cids (s : State) (c : Ctx) : cids (setCtx s c) = cids s ∧ (setCtx s c).nctx = s.nctx := by
  unfold setCtx cids
  split
  · exact ⟨rfl, rfl⟩
  · refine ⟨?_, rfl⟩
    simp only [List.map_map]
    apply List.map_congr_left
    intro x _
    simp only [Function.comp]
    split
    · next h => simp at h; exact h.symm
    · rfl

theorem mapList_eq_map (f : Ctx → Ctx × List Out) : ∀ cs : List Ctx, (mapList f cs).1 = cs.map (fun c => (f c).1)
  | [] => rfl
  | c :: cs => by simp [mapList, mapList_eq_map f cs]

theorem mapAll_cids (s : State) (f : Ctx → Ctx × List Out) (hf : ∀ c, (f c).1.cid = c.cid) :
    cids (mapAll s f).1 = cids s ∧ (mapAll s f).1.nctx = s.nctx := by
  refine ⟨?_, rfl⟩
  show ((mapList f s.ctxs).1).map (·.cid) = s.ctxs.map (·.cid)
  rw [mapList_eq_map, List.map_map]
  apply List.map_congr_left
  intro x _; exact hf x

/-- an operation that keeps the identities and the counter -/
def Keeps (s s' : State) : Prop := cids s' = cids s ∧ s'.nctx = s.nctx

theorem Keeps.inv {s s' : State} (k : Keeps s s') (h : CidInv s) : CidInv s' :=
  ⟨by rw [k.1, k.2]; exact h.bound, by rw [k.1]; exact h.nodup⟩

theorem opRecv_keeps (s : State) (c : Option Nat) (a : Nat) (mode : Mode) : Keeps s (opRecv s c a mode).1 := by
  unfold opRecv
  split
  · exact ⟨rfl, rfl⟩
  · split
    · exact ⟨rfl, rfl⟩
    · simp only []
      split <;> exact setCtx_cids _ _

theorem opSub_keeps (s : State) (c : Option Nat) (t : Bytes) : Keeps s (opSub s c t).1 := by
  unfold opSub
  split
  · exact ⟨rfl, rfl⟩
  · exact setCtx_cids _ _

theorem opUnsub_keeps (s : State) (c : Option Nat) (t : Bytes) : Keeps s (opUnsub s c t).1 := by
  unfold opUnsub
  split
  · exact ⟨rfl, rfl⟩
  · split
    · exact ⟨rfl, rfl⟩
    · simp only []
      split <;> exact setCtx_cids _ _

theorem opSetopt_keeps (s : State) (c : Option Nat) (name ty : String) (v : Int) : Keeps s (opSetopt s c name ty v).1 := by
  unfold opSetopt
  split
  · split
    · exact ⟨rfl, rfl⟩
    · split
      · exact ⟨rfl, rfl⟩
      · simp only []
        split <;> exact setCtx_cids _ _
  · split
    · split
      · exact ⟨rfl, rfl⟩
      · simp only []
        split <;> exact setCtx_cids _ _
    · exact ⟨rfl, rfl⟩

theorem closePipe_keeps (s : State) (p : Nat) : Keeps s (closePipe s p).1 := by
  unfold closePipe
  split
  · exact ⟨rfl, rfl⟩
  · split <;> exact ⟨rfl, rfl⟩

theorem closePipes_keeps_aux : ∀ (l : List Pipe) (acc : State × List Out) (s : State), Keeps s acc.1 →
    Keeps s (l.foldl (fun (acc : State × List Out) pp =>
      let x := closePipe acc.1 pp.id
      (x.1, acc.2 ++ x.2)) acc).1
  | [], _, _, h => h
  | pp :: l, acc, s, h => by
    simp only [List.foldl_cons]
    refine closePipes_keeps_aux l _ s ?_
    have := closePipe_keeps acc.1 pp.id
    exact ⟨this.1.trans h.1, this.2.trans h.2⟩

theorem arrive_keeps (s : State) (p : Nat) (b : Bytes) : Keeps s (arrive s p b).1 := by
  refine ⟨?_, rfl⟩
  show ((arriveList ⟨s.narrive, p, b⟩ s.ctxs).1).map (·.cid) = s.ctxs.map (·.cid)
  rw [arriveList_eq_map, List.map_map]
  apply List.map_congr_left
  intro x _; exact arriveCtx_cid _ x

theorem stepOpen_cid {s : State} (ev : Ev) (h : CidInv s) : CidInv (stepOpen s ev).1 := by
  cases ev with
  | openSock _ _ => exact h
  | pipeAdd peer => show CidInv (opPipeAdd s peer).1; unfold opPipeAdd; split <;> exact ⟨h.bound, h.nodup⟩
  | pipeDrop p =>
    show CidInv (opPipeDrop s p).1
    unfold opPipeDrop
    split
    · split
      · exact h
      · exact (closePipe_keeps s p).inv h
    · exact h
  | sendDone _ _ => exact h
  | recvDone p r =>
    show CidInv (opRecvDone s p r).1
    unfold opRecvDone
    split
    · split
      · exact h
      · split
        · exact (closePipe_keeps s p).inv h
        · exact (arrive_keeps s p _).inv h
    · exact h
  | send c a m mode => show CidInv (opSend s c a).1; rw [opSend_state]; exact h
  | recv c a mode => exact (opRecv_keeps s c a mode).inv h
  | cancel a => exact Keeps.inv (mapAll_cids s _ (failCtx_cid a _)) h
  | abort a rv => exact Keeps.inv (mapAll_cids s _ (failCtx_cid a rv)) h
  | advance ms =>
    show CidInv (mapAll { s with now := s.now + ms } (expireCtx (s.now + ms))).1
    exact Keeps.inv (s := { s with now := s.now + ms }) (mapAll_cids _ _ (expireCtx_cid _)) ⟨h.bound, h.nodup⟩
  | ctxOpen k =>
    show CidInv (opCtxOpen s k).1
    unfold opCtxOpen
    have hold : (s.ctxs.map fun x => if x.handle == some k then { x with handle := none } else x).map (·.cid) = cids s := by
      unfold cids
      rw [List.map_map]
      apply List.map_congr_left
      intro x _
      simp only [Function.comp]
      split <;> rfl
    refine ⟨?_, ?_⟩
    · intro j hj
      simp only [cids, List.map_append, List.mem_append, List.map_cons, List.map_nil, List.mem_singleton] at hj
      rcases hj with hj | rfl
      · rw [hold] at hj; exact Nat.le_succ_of_le (h.bound j hj)
      · exact Nat.le_refl _
    · show (List.map (fun (x : Ctx) => x.cid) (s.ctxs.map _ ++ [_])).Nodup
      rw [List.map_append, hold, List.nodup_append]
      refine ⟨h.nodup, by simp, ?_⟩
      intro a ha b hb
      simp only [List.map_cons, List.map_nil, List.mem_singleton] at hb
      subst hb
      have := h.bound a ha
      omega
  | ctxClose k =>
    show CidInv (opCtxClose s k).1
    unfold opCtxClose
    split
    · exact h
    · next cx _ =>
      have hsub : ((s.ctxs.filter (·.cid != cx.cid)).map (·.cid)).Sublist (cids s) :=
        List.Sublist.map _ List.filter_sublist
      exact ⟨fun j hj => h.bound j (hsub.subset hj), h.nodup.sublist hsub⟩
  | setopt c name ty v => exact (opSetopt_keeps s c name ty v).inv h
  | getopt c name ty => show CidInv (opGetopt s c name ty).1; rw [opGetopt_state]; exact h
  | poll => exact h
  | sub c t => exact (opSub_keeps s c t).inv h
  | unsub c t => exact (opUnsub_keeps s c t).inv h
  | close =>
    show CidInv (closeAll s).1
    unfold closeAll
    have h1 : Keeps s (mapAll s closeCtx).1 := mapAll_cids s _ closeCtx_cid
    have h2 : Keeps s (closePipes (mapAll s closeCtx).1).1 :=
      closePipes_keeps_aux _ ((mapAll s closeCtx).1, []) s h1
    exact ⟨by
        show ∀ j ∈ cids (closePipes (mapAll s closeCtx).1).1, j ≤ (closePipes (mapAll s closeCtx).1).1.nctx
        rw [h2.1, h2.2]; exact h.bound,
      by show (cids (closePipes (mapAll s closeCtx).1).1).Nodup
         rw [h2.1]; exact h.nodup⟩

theorem step_cid {s : State} (ev : Ev) (h : CidInv s) : CidInv (step s ev).1 := by
  unfold step
  split
  · split
    · exact ⟨h.bound, h.nodup⟩
    · exact ⟨h.bound, h.nodup⟩
    · exact h
  · split
    · split
      · exact ⟨h.bound, h.nodup⟩
      · exact h
    · exact stepOpen_cid ev h

theorem foldl_cid : ∀ (evs : List Ev) (s : State), CidInv s → CidInv (evs.foldl (fun s e => (step s e).1) s)
  | [], _, h => h
  | e :: es, s, h => by simp only [List.foldl_cons]; exact foldl_cid es _ (step_cid e h)

/-- in every reachable state the open contexts have pairwise distinct identities, all
    different from the socket-level context's identity 0 -/
theorem reach_cid (evs : List Ev) : CidInv (reach evs) :=
  foldl_cid evs {} ⟨(by intro k hk; cases hk), List.nodup_nil⟩

end Nng.Sub
