/-
  C09: the BUS model satisfies the executable trace predicate `busJudge` (Spec/Bus.lean)
  on every event sequence: simulation between the model state and the judge state.
-/
import NngModel.Proofs.BusStep
import NngModel.Spec.Bus
import NngModel.Generated.C09
namespace Nng.Bus
open Nng Nng.Proto Nng.BusSpec

/-- the trace (event, outputs) the model produces from state `s` -/
def traceOf (s : State) : List Ev → List (Ev × List Out)
  | [] => []
  | e :: es => (e, (step s e).2) :: traceOf (step s e).1 es

/-! ### `busStep` cut into named pieces (definitionally the same function) -/

def busEv (j : BusJ) (ev : Ev) (outs : List Out) : BusJ × List (Nat × Nat) × Option Nat :=
  let ok := outs.contains (.rv 0)
  match ev with
  | .openSock _ raw =>
    if ok then ({ j with opened := true, raw := raw, sendBuf := Nng.Generated.busSendBufInit,
                         rcap := Nng.Generated.busRecvBufInit }, [], none)
    else (j, [], none)
  | .pipeAdd peer =>
    match outs.findSome? (fun o => match o with | .pipe p => some p | _ => none) with
    | some p =>
      if p < 0 then (j, [], none)
      else if p.toNat != j.pipes.length then (j.fail "unexpected pipe index", [], none)
      else
        let rejected := outs.contains (.pclosed p.toNat)
        let j := { j with pipes := j.pipes ++ [{ conn := true, cap := j.sendBuf }] }
        if peer != Nng.Generated.protoBus && !rejected then (j.fail "a peer of another protocol was accepted", [], none)
        else if peer == Nng.Generated.protoBus && rejected then (j.fail "a BUS peer was rejected", [], none)
        else if !rejected && !(outs.contains (.parm p.toNat)) then (j.fail "no receive posted on the new pipe", [], none)
        else (j, [], none)
    | none => (j, [], none)
  | .send _ a m _ =>
    let sn := expectWire j j.sends.length m
    let j := { j with sends := j.sends ++ [sn] }
    let (j, exp) := offerAll j sn
    (j, exp, some a)
  | .sendDone p rv =>
    let pj := j.getP p
    if ok && rv == 0 && pj.conn && pj.inflight then
      match pj.q with
      | h :: t => (j.setP p { pj with q := t, inflight := false }, [(p, h)], none)
      | [] => (j.setP p { pj with inflight := false }, [], none)
    else (j, [], none)
  | .recvDone p (.ok b) =>
    if ok then
      let pj := j.getP p
      if !pj.armed then (j.fail s!"pipe {p} accepted a message with no receive armed", [], none)
      else
        let j := j.setP p { pj with armed := false }
        let h : Held := ⟨p, j.narr, b⟩
        let j := { j with narr := j.narr + 1 }
        if !j.waiting.isEmpty || j.held.length < j.rcap then ({ j with held := j.held ++ [h] }, [], none)
        else (j, [], none)
    else (j, [], none)
  | .recvDone p (.error _) =>
    if ok then (j.setP p { j.getP p with armed := false }, [], none) else (j, [], none)
  | .recv _ a mode =>
    match mode with
    | .nb => (j, [], none)
    | _ => ({ j with waiting := j.waiting ++ [a] }, [], none)
  | .setopt none "send-buffer" "int" v =>
    if ok then
      let c := v.toNat
      ({ j with sendBuf := c,
                pipes := j.pipes.map fun pj => if pj.conn then { pj with cap := c, q := pj.q.take c } else pj }, [], none)
    else (j, [], none)
  | .setopt none "recv-buffer" "int" v =>
    if ok then ({ j with rcap := v.toNat, held := j.held.take v.toNat }, [], none) else (j, [], none)
  | .close => ({ j with closed := true }, [], none)
  | _ => (j, [], none)

def busExp (x : BusJ × List (Nat × Nat)) : BusJ :=
  match x.2 with
  | (p, _) :: _ => x.1.fail s!"pipe {p} did not get a message although it is connected and its queue had room"
  | [] => x.1

def busTail (ev : Ev) (outs : List Out) (heldBefore : Bool) (j : BusJ) : BusJ :=
  match ev with
  | .send _ a _ _ =>
    if hasDone outs a then j else j.fail s!"send {a} did not complete at once: BUS send never blocks"
  | .recv _ a .nb =>
    if !(hasDone outs a) then j.fail s!"non-blocking receive {a} did not complete at once"
    else if heldBefore && !(outs.any fun o => match o with | .done a' 0 (some _) _ => a' == a | _ => false) then
      j.fail s!"non-blocking receive {a} failed although a message is queued"
    else j
  | .poll =>
    match outs.findSome? (fun o => match o with | .poll r w => some (r, w) | _ => none) with
    | some (r, w) =>
      if w != some true then j.fail "BUS socket not reported writable"
      else if r != some (!j.held.isEmpty) then j.fail "receive pollable disagrees with the receive queue"
      else j
    | none => j
  | _ => j

def busFinal (j : BusJ) : BusJ :=
  if !j.closed && !j.waiting.isEmpty && !j.held.isEmpty then
    j.fail "a receiver is kept waiting although a message is held"
  else j

theorem busStep_eq (j : BusJ) (ev : Ev) (outs : List Out) (he : j.err = none)
    (hn : notExecuted outs = false) :
    busStep j ev outs =
      busFinal (busTail ev outs (!j.held.isEmpty)
        (busExp (outs.foldl (onOut (busEv j ev outs).2.2) ((busEv j ev outs).1, (busEv j ev outs).2.1)))) := by
  have h1 : ¬ (j.err.isSome = true) := by simp [he]
  have h2 : ¬ (notExecuted outs = true) := by simp [hn]
  unfold busStep
  rw [if_neg h1, if_neg h2]
  rfl

theorem busStep_skip (j : BusJ) (ev : Ev) (outs : List Out) (hn : notExecuted outs = true) :
    busStep j ev outs = j := by
  unfold busStep
  by_cases h : j.err.isSome = true
  · rw [if_pos h]
  · rw [if_neg h, if_pos hn]

/-! ### `getP` / `setP` -/

theorem getP_setP_self {j : BusJ} {p : Nat} (x : PipeJ) (h : p < j.pipes.length) : (j.setP p x).getP p = x := by
  simp [BusJ.getP, BusJ.setP, h]

theorem getP_setP_ne {j : BusJ} {p i : Nat} (x : PipeJ) (h : p ≠ i) : (j.setP p x).getP i = j.getP i := by
  simp [BusJ.getP, BusJ.setP, List.getD_eq_getElem?_getD, List.getElem?_set_ne h]

theorem getP_setP_oob {j : BusJ} {p : Nat} (x : PipeJ) (h : ¬ p < j.pipes.length) : j.setP p x = j := by
  have : j.pipes.set p x = j.pipes := List.set_eq_of_length_le (by omega)
  simp [BusJ.setP, this]

theorem setP_len (j : BusJ) (p : Nat) (x : PipeJ) : (j.setP p x).pipes.length = j.pipes.length := by
  simp [BusJ.setP]

theorem getP_of_getElem? {j : BusJ} {p : Nat} {x : PipeJ} (h : j.pipes[p]? = some x) : j.getP p = x := by
  simp [BusJ.getP, List.getD_eq_getElem?_getD, h]

theorem getP_eq_getElem {j : BusJ} {p : Nat} (h : p < j.pipes.length) : j.pipes[p]? = some (j.getP p) := by
  simp [BusJ.getP, List.getD_eq_getElem?_getD, h]

theorem pid_ne_zero (i : Nat) : pid i ≠ 0 := by
  unfold pid pidBase; simp [Nng.Generated.busCanonPidBase]

theorem pid_inj {i k : Nat} (h : pid i = pid k) : i = k := by
  unfold pid at h; omega

/-! ### the simulation relation -/

/-- what the judge knows of pipe `i` -/
structure PR (sends : List Sent) (i : Nat) (pp : Pipe) (pj : PipeJ) : Prop where
  conn : pj.conn = !pp.closed
  inflight : pj.inflight = pp.busy.isSome
  q : pj.q = pp.sq.map (·.gid)
  cap : pj.cap = pp.sqCap
  armed : pj.armed = pp.armed
  wired : pj.wired = pp.wire.map (·.gid)
  id : pj.id = none ∨ pj.id = some (pid i)
  sqok : ∀ gm ∈ pp.sq, ∃ sn, sends[gm.gid]? = some sn ∧ sn.m = gm.m ∧ sn.excl ≠ some i

/-- the pipe lists; `k`: the pipes whose library id the judge has been told -/
structure RP (k : List Nat) (pipes : List Pipe) (jp : List PipeJ) (sends : List Sent) : Prop where
  len : jp.length = pipes.length
  pipes : ∀ i pp, pipes[i]? = some pp → PR sends i pp (jp.getD i {})
  known : ∀ i ∈ k, (jp.getD i {}).id = some (pid i)

/-- the judge's list of sends -/
structure RS (nsend : Nat) (sends : List Sent) : Prop where
  len : sends.length = nsend
  idx : ∀ (n : Nat) (sn : Sent), sends[n]? = some sn → sn.idx = n
  dist : (sends.map (·.m.body)).Nodup

def heldOf (r : RMsg) : Held := ⟨r.pipe, r.gid, r.m.body⟩

/-- the receive side -/
structure RQ (rq : List RMsg) (rwait : List Parked) (narrive : Nat)
    (narr : Nat) (held : List Held) (waiting : List Nat) : Prop where
  narr : narr = narrive
  held : held = rq.map heldOf
  waiting : waiting = rwait.map (·.aio)
  nodup : (rwait.map (·.aio)).Nodup

structure Unopened (s : State) : Prop where
  pipes : s.pipes = []
  rq : s.rq = []
  rwait : s.rwait = []
  nsend : s.nsend = 0
  narrive : s.narrive = 0
  closed : s.closed = false
  raw : s.raw = false

structure R (k : List Nat) (s : State) (j : BusJ) : Prop where
  err : j.err = none
  closed : j.closed = s.closed
  raw : j.raw = s.raw
  sendBuf : j.sendBuf = s.sendBuf
  rcap : j.rcap = s.recvCap
  rp : RP k s.pipes j.pipes j.sends
  rs : RS s.nsend j.sends
  rq : RQ s.rq s.rwait s.narrive j.narr j.held j.waiting
  un : s.opened = false → Unopened s

theorem R_init : R [] ({} : State) ({} : BusJ) := by
  refine ⟨rfl, rfl, rfl, rfl, rfl, ⟨rfl, ?_, ?_⟩, ⟨rfl, ?_, ?_⟩, ⟨rfl, rfl, rfl, ?_⟩, fun _ => ⟨rfl, rfl, rfl, rfl, rfl, rfl, rfl⟩⟩
  · intro i pp h; simp at h
  · intro i h; simp at h
  · intro n sn h; simp at h
  · simp
  · simp

/-! ### the judge on single outputs -/

theorem onOut_rv (sa : Option Nat) (j : BusJ) (exp : List (Nat × Nat)) (n : Int) :
    onOut sa (j, exp) (.rv n) = (j, exp) := rfl
theorem onOut_rv2 (sa : Option Nat) (j : BusJ) (exp : List (Nat × Nat)) (n v : Int) :
    onOut sa (j, exp) (.rv2 n v) = (j, exp) := rfl
theorem onOut_pipe (sa : Option Nat) (j : BusJ) (exp : List (Nat × Nat)) (n : Int) :
    onOut sa (j, exp) (.pipe n) = (j, exp) := rfl
theorem onOut_poll (sa : Option Nat) (j : BusJ) (exp : List (Nat × Nat)) (r w : Option Bool) :
    onOut sa (j, exp) (.poll r w) = (j, exp) := rfl

def closeJ (pj : PipeJ) : PipeJ := { pj with conn := false, inflight := false, q := [], armed := false }

theorem onOut_pclosed (sa : Option Nat) (j : BusJ) (exp : List (Nat × Nat)) (p : Nat) :
    onOut sa (j, exp) (.pclosed p) = (j.setP p (closeJ (j.getP p)), exp.filter (·.1 != p)) := rfl

theorem onOut_parm (sa : Option Nat) (j : BusJ) (exp : List (Nat × Nat)) (p : Nat)
    (h : (j.getP p).armed = false) :
    onOut sa (j, exp) (.parm p) = (j.setP p { j.getP p with armed := true }, exp) := by
  simp [onOut, h]

theorem onOut_fail (sa : Option Nat) (j : BusJ) (exp : List (Nat × Nat)) (a rv : Nat) (mb : Bool)
    (hsa : sa ≠ some a) (hrv : rv ≠ 0) :
    onOut sa (j, exp) (.done a rv none mb) = ({ j with waiting := j.waiting.filter (· != a) }, exp) := by
  have h : (sa == some a) = false := by simpa using hsa
  unfold onOut
  simp only [h]
  cases rv with
  | zero => exact absurd rfl hrv
  | succ n => simp

theorem onOut_sent (j : BusJ) (exp : List (Nat × Nat)) (a : Nat) :
    onOut (some a) (j, exp) (.done a 0 none false) = (j, exp) := by
  simp [onOut]

theorem onOut_deliver (sa : Option Nat) (j : BusJ) (exp : List (Nat × Nat)) (a : Nat) (m : WMsg) (mb : Bool)
    (hsa : sa ≠ some a) :
    onOut sa (j, exp) (.done a 0 (some m) mb) = (onDelivered j a m, exp) := by
  have h : (sa == some a) = false := by simpa using hsa
  unfold onOut
  simp only [h]
  simp

/-! ### finishing one judge step -/

theorem busFinal_R {k : List Nat} {s : State} {j : BusJ} (hR : R k s j) (hI : Inv s) : busFinal j = j := by
  unfold busFinal
  by_cases hw : s.rwait = []
  · have : j.waiting = [] := by rw [hR.rq.waiting, hw]; rfl
    simp [this]
  · have : j.held = [] := by rw [hR.rq.held, hI.recv.wait_empty hw]; rfl
    simp [this]

theorem finish {k : List Nat} {s' : State} {j j' j1 : BusJ} {ev : Ev} {outs : List Out} {sa : Option Nat}
    {exp : List (Nat × Nat)}
    (he : j.err = none) (hn : notExecuted outs = false)
    (hev : busEv j ev outs = (j1, exp, sa))
    (hfold : outs.foldl (onOut sa) (j1, exp) = (j', []))
    (htail : busTail ev outs (!j.held.isEmpty) j' = j')
    (hR : R k s' j') (hI : Inv s') : R k s' (busStep j ev outs) := by
  rw [busStep_eq j ev outs he hn, hev]
  simp only [hfold, busExp, htail, busFinal_R hR hI]
  exact hR

theorem R_frame {k : List Nat} {s s' : State} {j : BusJ} (hR : R k s j)
    (h1 : s'.closed = s.closed) (h2 : s'.raw = s.raw) (h3 : s'.sendBuf = s.sendBuf)
    (h4 : s'.recvCap = s.recvCap) (h5 : s'.pipes = s.pipes) (h6 : s'.nsend = s.nsend)
    (h7 : s'.rq = s.rq) (h8 : s'.rwait = s.rwait) (h9 : s'.narrive = s.narrive)
    (h10 : s'.opened = s.opened) : R k s' j := by
  obtain ⟨a, b, c, d, e, f, g, h, i⟩ := hR
  refine ⟨a, ?_, ?_, ?_, ?_, ?_, ?_, ?_, ?_⟩
  · rw [h1]; exact b
  · rw [h2]; exact c
  · rw [h3]; exact d
  · rw [h4]; exact e
  · rw [h5]; exact f
  · rw [h6]; exact g
  · rw [h7, h8, h9]; exact h
  · intro ho
    rw [h10] at ho
    obtain ⟨u1, u2, u3, u4, u5, u6, u7⟩ := i ho
    exact ⟨h5.trans u1, h7.trans u2, h8.trans u3, h6.trans u4, h9.trans u5, h1.trans u6, h2.trans u7⟩

/-- an executed event that changes neither state and whose outputs the judge ignores -/
theorem step_plain {k : List Nat} {s : State} {j : BusJ} {ev : Ev} {outs : List Out}
    (hR : R k s j) (hI : Inv s) (hn : notExecuted outs = false)
    (hev : busEv j ev outs = (j, [], none))
    (hfold : outs.foldl (onOut none) (j, []) = (j, []))
    (htail : busTail ev outs (!j.held.isEmpty) j = j) : R k s (busStep j ev outs) :=
  finish hR.err hn hev hfold htail hR hI

/-! ### rebuilding `R` after a change of one part -/

theorem un_of_open' {s : State} (h : s.opened = true) : s.opened = false → Unopened s := by
  intro h'; rw [h] at h'; cases h'

theorem R_rq {k : List Nat} {s s' : State} {j : BusJ} (hR : R k s j) (ho' : s'.opened = true)
    (h1 : s'.closed = s.closed) (h2 : s'.raw = s.raw) (h3 : s'.sendBuf = s.sendBuf)
    (h4 : s'.recvCap = s.recvCap) (h5 : s'.pipes = s.pipes) (h6 : s'.nsend = s.nsend)
    {narr' : Nat} {held' : List Held} {waiting' : List Nat}
    (h : RQ s'.rq s'.rwait s'.narrive narr' held' waiting') :
    R k s' { j with narr := narr', held := held', waiting := waiting' } := by
  obtain ⟨a, b, c, d, e, f, g, _, _⟩ := hR
  refine ⟨a, ?_, ?_, ?_, ?_, ?_, ?_, h, un_of_open' ho'⟩
  · rw [h1]; exact b
  · rw [h2]; exact c
  · rw [h3]; exact d
  · rw [h4]; exact e
  · rw [h5]; exact f
  · rw [h6]; exact g

theorem R_rp {k : List Nat} {s s' : State} {j : BusJ} (hR : R k s j) (ho' : s'.opened = true)
    (h1 : s'.closed = s.closed) (h2 : s'.raw = s.raw) (h3 : s'.sendBuf = s.sendBuf)
    (h4 : s'.recvCap = s.recvCap) (h6 : s'.nsend = s.nsend)
    (h7 : s'.rq = s.rq) (h8 : s'.rwait = s.rwait) (h9 : s'.narrive = s.narrive)
    {jp' : List PipeJ} (h : RP k s'.pipes jp' j.sends) :
    R k s' { j with pipes := jp' } := by
  obtain ⟨a, b, c, d, e, _, g, q, _⟩ := hR
  refine ⟨a, ?_, ?_, ?_, ?_, h, ?_, ?_, un_of_open' ho'⟩
  · rw [h1]; exact b
  · rw [h2]; exact c
  · rw [h3]; exact d
  · rw [h4]; exact e
  · rw [h6]; exact g
  · rw [h7, h8, h9]; exact q

theorem RP_set {k : List Nat} {pipes : List Pipe} {jp : List PipeJ} {sends : List Sent}
    (h : RP k pipes jp sends) (p : Nat) (pp' : Pipe) (x : PipeJ)
    (hpr : PR sends p pp' x) (hid : x.id = (jp.getD p {}).id) :
    RP k (pipes.set p pp') (jp.set p x) sends := by
  refine ⟨by simp [h.len], ?_, ?_⟩
  · intro i pp hi
    by_cases hpi : p = i
    · subst hpi
      have hlt : p < pipes.length := by
        by_cases hl : p < pipes.length
        · exact hl
        · rw [List.getElem?_eq_none (by simp; omega)] at hi; cases hi
      rw [List.getElem?_set_self hlt] at hi
      cases hi
      have : (jp.set p x).getD p {} = x := by
        simp [List.getD_eq_getElem?_getD, h.len, hlt]
      rw [this]; exact hpr
    · rw [List.getElem?_set_ne hpi] at hi
      have : (jp.set p x).getD i {} = jp.getD i {} := by
        simp [List.getD_eq_getElem?_getD, List.getElem?_set_ne hpi]
      rw [this]; exact h.pipes i pp hi
  · intro i hi
    by_cases hpi : p = i
    · subst hpi
      have hk := h.known p hi
      by_cases hl : p < jp.length
      · have : (jp.set p x).getD p {} = x := by simp [List.getD_eq_getElem?_getD, hl]
        rw [this, hid]; exact hk
      · rw [List.set_eq_of_length_le (by omega)]; exact hk
    · have : (jp.set p x).getD i {} = jp.getD i {} := by
        simp [List.getD_eq_getElem?_getD, List.getElem?_set_ne hpi]
      rw [this]; exact h.known i hi

theorem RP.id_cases {k : List Nat} {pipes : List Pipe} {jp : List PipeJ} {sends : List Sent}
    (h : RP k pipes jp sends) (i : Nat) : (jp.getD i {}).id = none ∨ (jp.getD i {}).id = some (pid i) := by
  by_cases hl : i < pipes.length
  · exact (h.pipes i pipes[i] (by simp [hl])).id
  · left
    have : jp[i]? = none := List.getElem?_eq_none (by rw [h.len]; omega)
    simp [List.getD_eq_getElem?_getD, this]

theorem PR_closeP {sends : List Sent} {i : Nat} {pp : Pipe} {pj : PipeJ} (h : PR sends i pp pj) :
    PR sends i (closeP pp) (closeJ pj) := by
  refine ⟨rfl, rfl, rfl, h.cap, rfl, h.wired, h.id, ?_⟩
  intro gm hg; simp [closeP] at hg

theorem setP_setP (j : BusJ) (p : Nat) (x y : PipeJ) : (j.setP p x).setP p y = j.setP p y := by
  simp [BusJ.setP]

theorem closePipe_eq {s : State} {p : Nat} {pp : Pipe} (hx : s.pipes[p]? = some pp) (hcl : pp.closed = false) :
    closePipe s p = ({ s with pipes := s.pipes.set p (closeP pp) }, [Out.pclosed p]) := by
  simp [closePipe, hx, hcl]

theorem closePipe_R {k : List Nat} {s : State} {j : BusJ} (hR : R k s j) (ho : s.opened = true)
    {p : Nat} {pp : Pipe} (hx : s.pipes[p]? = some pp) (hcl : pp.closed = false) :
    R k (closePipe s p).1 (j.setP p (closeJ (j.getP p))) := by
  rw [closePipe_eq hx hcl]
  exact R_rp (s' := { s with pipes := s.pipes.set p (closeP pp) }) hR ho rfl rfl rfl rfl rfl rfl rfl rfl
    (RP_set hR.rp p _ _ (PR_closeP (hR.rp.pipes p pp hx)) rfl)

theorem lt_of_getElem? {α : Type} {l : List α} {p : Nat} {x : α} (h : l[p]? = some x) : p < l.length := by
  by_cases hl : p < l.length
  · exact hl
  · rw [List.getElem?_eq_none (by omega)] at h; cases h

/-! ### pipe events -/

theorem pipeDrop_R {k : List Nat} {s : State} {j : BusJ} (hI : Inv s) (hR : R k s j) (ho : s.opened = true) (p : Nat) :
    R k (onPipeDrop s p).1 (busStep j (.pipeDrop p) (onPipeDrop s p).2) := by
  have hbad : R k s (busStep j (.pipeDrop p) [.rv (-1)]) :=
    step_plain hR hI (by simp [notExecuted]) rfl rfl rfl
  cases hx : s.pipes[p]? with
  | none => simpa [onPipeDrop, hx] using hbad
  | some pp =>
    cases hcl : pp.closed with
    | true => simpa [onPipeDrop, hx, hcl] using hbad
    | false =>
      have he : onPipeDrop s p = ((closePipe s p).1, [.rv 0, .pclosed p]) := by
        simp [onPipeDrop, hx, hcl, closePipe_eq hx hcl]
      have hI' := inv_onPipeDrop p hI
      rw [he] at hI' ⊢
      exact finish (j1 := j) (exp := []) (sa := none) hR.err (by simp [notExecuted]) rfl
        (by simp [onOut_rv, onOut_pclosed]) rfl (closePipe_R hR ho hx hcl) hI'

theorem protoBus_eq : protoBus = Nng.Generated.protoBus := rfl

theorem RP_snoc {k : List Nat} {pipes : List Pipe} {jp : List PipeJ} {sends : List Sent}
    (h : RP k pipes jp sends) (pp' : Pipe) (x : PipeJ)
    (hpr : PR sends pipes.length pp' x) : RP k (pipes ++ [pp']) (jp ++ [x]) sends := by
  refine ⟨by simp [h.len], ?_, ?_⟩
  · intro i pp hi
    by_cases hl : i < pipes.length
    · rw [List.getElem?_append_left hl] at hi
      have : (jp ++ [x]).getD i {} = jp.getD i {} := by
        simp [List.getD_eq_getElem?_getD, List.getElem?_append_left (h.len ▸ hl)]
      rw [this]; exact h.pipes i pp hi
    · have hlt := lt_of_getElem? hi
      simp at hlt
      have hil : i = pipes.length := by omega
      subst hil
      simp at hi; subst hi
      have : (jp ++ [x]).getD pipes.length {} = x := by
        simp [List.getD_eq_getElem?_getD, ← h.len]
      rw [this]; exact hpr
  · intro i hi
    have hk := h.known i hi
    have hl : i < jp.length := by
      by_cases hl : i < jp.length
      · exact hl
      · have : jp[i]? = none := List.getElem?_eq_none (by omega)
        simp [List.getD_eq_getElem?_getD, this] at hk
    have : (jp ++ [x]).getD i {} = jp.getD i {} := by
      simp [List.getD_eq_getElem?_getD, List.getElem?_append_left hl]
    rw [this]; exact hk

theorem pipeAdd_R {k : List Nat} {s : State} {j : BusJ} (hI : Inv s) (hR : R k s j) (ho : s.opened = true) (peer : Nat) :
    R k (onPipeAdd s peer).1 (busStep j (.pipeAdd peer) (onPipeAdd s peer).2) := by
  have hI' := inv_onPipeAdd peer hI
  unfold onPipeAdd at hI' ⊢
  by_cases hm : s.pipes.length ≥ maxPipes
  · rw [if_pos hm]
    exact step_plain hR hI (by simp [notExecuted]) (by simp [busEv]) rfl rfl
  · rw [if_neg hm] at hI' ⊢
    have hlen := hR.rp.len
    have hneg : ¬ ((s.pipes.length : Int) < 0) := by omega
    by_cases hp : (peer != protoBus) = true
    · rw [if_pos hp] at hI' ⊢
      have hp' : (peer != Nng.Generated.protoBus) = true := hp
      have hp'' : (peer == Nng.Generated.protoBus) = false := by simpa [protoBus] using hp
      let x : PipeJ := { conn := true, cap := j.sendBuf }
      have hev : busEv j (.pipeAdd peer) [.pipe s.pipes.length, .pclosed s.pipes.length] =
          ({ j with pipes := j.pipes ++ [x] }, [], none) := by
        simp [busEv, List.findSome?, hlen, hp', hp'', x, hneg]
      refine finish (j' := { j with pipes := j.pipes ++ [closeJ x] }) hR.err (by simp [notExecuted]) hev ?_ rfl ?_ hI'
      · simp only [List.foldl_cons, List.foldl_nil, onOut_pipe, onOut_pclosed]
        simp [BusJ.setP, BusJ.getP, ← hlen]
      · refine R_rp (s' := { s with pipes := s.pipes ++ [{ closed := true, sqCap := s.sendBuf }] }) hR ho
          rfl rfl rfl rfl rfl rfl rfl rfl (RP_snoc hR.rp _ _ ?_)
        exact ⟨rfl, rfl, rfl, hR.sendBuf, rfl, rfl, Or.inl rfl, by simp⟩
    · rw [if_neg hp] at hI' ⊢
      have hp' : (peer != Nng.Generated.protoBus) = false := by simpa [protoBus] using hp
      have hp'' : (peer == Nng.Generated.protoBus) = true := by simpa [protoBus] using hp
      let x : PipeJ := { conn := true, cap := j.sendBuf }
      have hev : busEv j (.pipeAdd peer) [.pipe s.pipes.length, .parm s.pipes.length] =
          ({ j with pipes := j.pipes ++ [x] }, [], none) := by
        simp [busEv, List.findSome?, hlen, hp', hp'', x, hneg]
      refine finish (j' := { j with pipes := j.pipes ++ [{ x with armed := true }] }) hR.err (by simp [notExecuted]) hev ?_ rfl ?_ hI'
      · have harm : (BusJ.getP { j with pipes := j.pipes ++ [x] } s.pipes.length).armed = false := by
          simp [BusJ.getP, ← hlen, x]
        simp only [List.foldl_cons, List.foldl_nil, onOut_pipe]
        rw [onOut_parm _ _ _ _ harm]
        simp [BusJ.setP, BusJ.getP, ← hlen]
      · refine R_rp (s' := { s with pipes := s.pipes ++ [{ armed := true, sqCap := s.sendBuf }] }) hR ho
          rfl rfl rfl rfl rfl rfl rfl rfl (RP_snoc hR.rp _ _ ?_)
        exact ⟨rfl, rfl, rfl, hR.sendBuf, rfl, rfl, Or.inl rfl, by simp⟩

/-! ### receive side -/

theorem filter_ne_self {l : List Nat} {a : Nat} (h : a ∉ l) : l.filter (· != a) = l := by
  rw [List.filter_eq_self]; intro x hx; simp; intro hxa; exact h (hxa ▸ hx)

theorem filter_snoc_self {l : List Nat} {a : Nat} (h : a ∉ l) : (l ++ [a]).filter (· != a) = l := by
  simp [List.filter_append, filter_ne_self h]

theorem not_parked {s : State} {a : Nat} (hf : ¬ (s.rwait.any (·.aio == a)) = true) : a ∉ s.rwait.map (·.aio) := by
  intro hm
  obtain ⟨pk, hpk, rfl⟩ := List.mem_map.1 hm
  exact hf (List.any_eq_true.2 ⟨pk, hpk, by simp⟩)

theorem failParked_R {k : List Nat} {s : State} {j : BusJ} (hR : R k s j) (ho : s.opened = true)
    (sa : Option Nat) (exp : List (Nat × Nat)) (a rv : Nat) (hrv : rv ≠ 0) (hsa : sa ≠ some a) :
    ∃ j', (failParked s a rv).2.foldl (onOut sa) (j, exp) = (j', exp) ∧ R k (failParked s a rv).1 j' ∧
      (failParked s a rv).1.opened = true ∧ notExecuted (failParked s a rv).2 = false := by
  unfold failParked
  by_cases hx : (s.rwait.any (·.aio == a)) = true
  · rw [if_pos hx]
    refine ⟨{ j with waiting := j.waiting.filter (· != a) }, ?_, ?_, ho, by simp [notExecuted]⟩
    · simp only [List.foldl_cons, List.foldl_nil, onOut_fail sa j exp a rv false hsa hrv]
    · refine R_rq (s' := { s with rwait := s.rwait.filter (·.aio != a) }) (narr' := j.narr) (held' := j.held) hR ho
        rfl rfl rfl rfl rfl rfl ⟨hR.rq.narr, hR.rq.held, ?_, ?_⟩
      · rw [hR.rq.waiting, List.filter_map]; rfl
      · exact hR.rq.nodup.sublist (List.Sublist.map _ List.filter_sublist)
  · rw [if_neg hx]
    exact ⟨j, rfl, hR, ho, by simp [notExecuted]⟩

theorem cancel_R {k : List Nat} {s : State} {j : BusJ} (hI : Inv s) (hR : R k s j) (ho : s.opened = true)
    (ev : Ev) (a rv : Nat) (hrv : rv ≠ 0) (hev : ∀ outs, busEv j ev outs = (j, [], none))
    (htail : ∀ outs hb j', busTail ev outs hb j' = j') :
    R k (failParked s a rv).1 (busStep j ev (failParked s a rv).2) := by
  obtain ⟨j', h1, h2, _, h4⟩ := failParked_R hR ho none [] a rv hrv (by simp)
  exact finish hR.err h4 (hev _) h1 (htail _ _ _) h2 (inv_failParked a rv hI)

theorem expire_fold_R {k : List Nat} : ∀ (due : List Parked) (s : State) (outs0 : List Out) (j : BusJ),
    R k s j → s.opened = true →
    ∃ extra j', (due.foldl (fun (acc : State × List Out) pk =>
        let (s', o) := failParked acc.1 pk.aio Err.etimedout
        (s', acc.2 ++ o)) (s, outs0)).2 = outs0 ++ extra ∧
      extra.foldl (onOut none) (j, []) = (j', []) ∧ notExecuted extra = false ∧
      R k (due.foldl (fun (acc : State × List Out) pk =>
        let (s', o) := failParked acc.1 pk.aio Err.etimedout
        (s', acc.2 ++ o)) (s, outs0)).1 j'
  | [], s, outs0, j, hR, _ => ⟨[], j, by simp, rfl, by simp [notExecuted], hR⟩
  | pk :: due, s, outs0, j, hR, ho => by
    obtain ⟨j1, h1, h2, h3, h4⟩ := failParked_R hR ho none [] pk.aio Err.etimedout (by decide) (by simp)
    obtain ⟨extra, j', e1, e2, e3, e4⟩ :=
      expire_fold_R due (failParked s pk.aio Err.etimedout).1 (outs0 ++ (failParked s pk.aio Err.etimedout).2) j1 h2 h3
    refine ⟨(failParked s pk.aio Err.etimedout).2 ++ extra, j', ?_, ?_, ?_, ?_⟩
    · simp only [List.foldl_cons]; rw [e1, List.append_assoc]
    · rw [List.foldl_append, h1, e2]
    · simp only [notExecuted, List.any_append, Bool.or_eq_false_iff] at h4 e3 ⊢
      exact ⟨h4, e3⟩
    · simp only [List.foldl_cons]; exact e4

theorem advance_R {k : List Nat} {s : State} {j : BusJ} (hI : Inv s) (hR : R k s j) (ho : s.opened = true) (ms : Nat) :
    R k (expire { s with now := s.now + ms }).1 (busStep j (.advance ms) (expire { s with now := s.now + ms }).2) := by
  have hR0 : R k { s with now := s.now + ms } j := R_frame hR rfl rfl rfl rfl rfl rfl rfl rfl rfl rfl
  have hI' := inv_expire (inv_now (s.now + ms) hI)
  unfold expire at hI' ⊢
  obtain ⟨extra, j', e1, e2, e3, e4⟩ := expire_fold_R _ _ [] j hR0 ho
  rw [List.nil_append] at e1
  rw [e1]
  exact finish hR.err e3 rfl e2 rfl e4 hI'

theorem poll_R {k : List Nat} {s : State} {j : BusJ} (hI : Inv s) (hR : R k s j) :
    R k { s with writable := true } (busStep j .poll [.poll (some s.readable) (some true)]) := by
  have hR' : R k { s with writable := true } j := R_frame hR rfl rfl rfl rfl rfl rfl rfl rfl rfl rfl
  refine finish hR.err (by simp [notExecuted]) rfl rfl ?_ hR' ⟨hI.send, hI.recv, hI.npipes⟩
  have : s.readable = !j.held.isEmpty := by
    rw [hI.recv.readable_iff, hR.rq.held]; simp
  simp [busTail, List.findSome?, this]

theorem setRecvBuf_R {k : List Nat} {s : State} {j : BusJ} (hI : Inv s) (hR : R k s j) (ho : s.opened = true) (v : Int) :
    R k (onSetRecvBuf s v).1 (busStep j (.setopt none "recv-buffer" "int" v) (onSetRecvBuf s v).2) := by
  have hI' := inv_onSetRecvBuf v hI
  unfold onSetRecvBuf at hI' ⊢
  by_cases hv : (v < bufMin || v > bufMax) = true
  · rw [if_pos hv]
    exact step_plain hR hI (by simp [notExecuted]) (by simp [busEv, Err.einval]) rfl rfl
  · rw [if_neg hv] at hI' ⊢
    refine finish (j' := { j with rcap := v.toNat, held := j.held.take v.toNat }) (sa := none) (exp := [])
      hR.err (by simp [notExecuted]) (by simp [busEv]) rfl rfl ?_ hI'
    obtain ⟨a, b, c, d, e, f, g, q, _⟩ := hR
    exact ⟨a, b, c, d, rfl, f, g, ⟨q.narr, by rw [q.held, List.map_take], q.waiting, q.nodup⟩, un_of_open' ho⟩

/-- the judge's header clause for a delivered message -/
def hdrOK (j : BusJ) (pipe : Nat) (m : WMsg) : Prop :=
  if j.raw then
    match (j.getP pipe).id with
    | some id => m.hdr = beEncode 4 id
    | none => m.hdr.length = 4
  else m.hdr = []

theorem onDelivered_head (j : BusJ) (a : Nat) (m : WMsg) (h : Held) (rest : List Held)
    (hh : j.held = h :: rest) (hb : h.body = m.body) (hn : ∀ x ∈ rest, x.n ≠ h.n)
    (hhdr : hdrOK j h.pipe m) :
    onDelivered j a m = { j with waiting := j.waiting.filter (· != a), held := rest } := by
  have hf : (h :: rest).filter (fun x => x.n != h.n) = rest := by
    rw [List.filter_cons]
    simp only [bne_self_eq_false, Bool.false_eq_true, if_false]
    rw [List.filter_eq_self]; intro x hx; simpa using hn x hx
  unfold hdrOK at hhdr
  unfold onDelivered
  simp only [hh, List.find?_cons, hb, beq_self_eq_true, bne_self_eq_false, Bool.false_eq_true, if_false, hf]
  cases hr : j.raw with
  | false =>
    simp only [hr, Bool.false_eq_true, if_false] at hhdr ⊢
    simp [hhdr]
  | true =>
    simp only [hr, if_true, BusJ.getP] at hhdr ⊢
    cases hid : (j.pipes.getD h.pipe {}).id with
    | none => simp only [hid] at hhdr; simp [hhdr]
    | some id => simp only [hid] at hhdr; simp [hhdr]

theorem hdrOK_of_id {j : BusJ} {raw : Bool} (hraw : j.raw = raw) (pipe : Nat) (m : WMsg)
    (hid : (j.getP pipe).id = none ∨ (j.getP pipe).id = some (pid pipe))
    (h : m.hdr = stampHdr raw pipe) : hdrOK j pipe m := by
  unfold hdrOK
  rw [hraw, h]
  cases hr : raw with
  | false => simp [stampHdr]
  | true =>
    simp only [if_true, stampHdr]
    rcases hid with hid | hid
    · simp only [hid]; simp
    · simp only [hid]

theorem hdrOK_R {k : List Nat} {s : State} {j : BusJ} {sends : List Sent} (hraw : j.raw = s.raw)
    (hrp : RP k s.pipes j.pipes sends) (pipe : Nat) (m : WMsg)
    (h : m.hdr = stampHdr s.raw pipe) : hdrOK j pipe m :=
  hdrOK_of_id hraw pipe m (hrp.id_cases pipe) h

theorem list_rearm (l : List PipeJ) (p : Nat) (h : (l.getD p {}).armed = true) :
    (l.set p { l.getD p {} with armed := false }).set p
      { (l.set p { l.getD p {} with armed := false }).getD p {} with armed := true } = l := by
  by_cases hl : p < l.length
  · have h1 : (l.set p { l.getD p {} with armed := false }).getD p {} = { l.getD p {} with armed := false } := by
      simp [List.getD_eq_getElem?_getD, hl]
    rw [h1, List.set_set]
    have h2 : ({ ({ l.getD p {} with armed := false } : PipeJ) with armed := true } : PipeJ) = l.getD p {} := by
      generalize l.getD p {} = x at h
      cases x; simp_all
    rw [h2]
    apply List.ext_getElem?
    intro i
    by_cases hi : p = i
    · subst hi; simp [List.getD_eq_getElem?_getD, hl]
    · rw [List.getElem?_set_ne hi]
  · rw [List.set_eq_of_length_le (by simp; omega), List.set_eq_of_length_le (by omega)]

theorem held_n_ne {s : State} (hI : Inv s) {gm : RMsg} {rest : List RMsg} (hq : s.rq = gm :: rest) :
    ∀ x ∈ rest.map heldOf, x.n ≠ (heldOf gm).n := by
  intro x hx
  obtain ⟨r, hr, rfl⟩ := List.mem_map.1 hx
  have hsub : (gm :: rest).Sublist s.arrived := by
    rw [← hq]; exact (List.sublist_append_right _ _).trans hI.recv.sub
  have hp := List.Pairwise.sublist (hsub.map (·.gid)) hI.recv.sortedA
  simp only [List.map_cons, List.pairwise_cons] at hp
  have := hp.1 r.gid (List.mem_map.2 ⟨r, hr, rfl⟩)
  simp only [heldOf]; omega

theorem recv_R {k : List Nat} {s : State} {j : BusJ} (hI : Inv s) (hR : R k s j) (ho : s.opened = true)
    (c : Option Nat) (a : Nat) (mode : Mode) (hf : ¬ (s.rwait.any (·.aio == a)) = true) :
    R k (onRecv s a mode).1 (busStep j (.recv c a mode) (onRecv s a mode).2) := by
  have hna := not_parked hf
  have hnw : a ∉ j.waiting := by rw [hR.rq.waiting]; exact hna
  cases hq : s.rq with
  | nil =>
    have hheld : j.held = [] := by rw [hR.rq.held, hq]; rfl
    have hfail : ∀ (rv : Nat) (mode : Mode) (w1 : List Nat), rv ≠ 0 → w1.filter (· != a) = j.waiting →
        busEv j (.recv c a mode) [.done a rv none false] = ({ j with waiting := w1 }, [], none) →
        busTail (.recv c a mode) [.done a rv none false] (!j.held.isEmpty)
          { j with waiting := w1.filter (· != a) } = { j with waiting := w1.filter (· != a) } →
        R k s (busStep j (.recv c a mode) [.done a rv none false]) := by
      intro rv mode w1 hrv hw hev htail
      refine finish (j' := { j with waiting := w1.filter (· != a) }) hR.err (by simp [notExecuted]) hev
        (by simp only [List.foldl_cons, List.foldl_nil, onOut_fail none _ [] a rv false (by simp) hrv]) htail ?_ hI
      exact R_rq (s' := s) (narr' := j.narr) (held' := j.held) hR ho rfl rfl rfl rfl rfl rfl
        ⟨hR.rq.narr, hR.rq.held, by rw [hw]; exact hR.rq.waiting, hR.rq.nodup⟩
    have hpark : ∀ (mode : Mode), parksRecv mode = true →
        busEv j (.recv c a mode) [] = ({ j with waiting := j.waiting ++ [a] }, [], none) →
        busTail (.recv c a mode) [] (!j.held.isEmpty) { j with waiting := j.waiting ++ [a] } = { j with waiting := j.waiting ++ [a] } →
        R k (onRecv s a mode).1 (busStep j (.recv c a mode) (onRecv s a mode).2) := by
      intro mode hm hev htail
      have hI' := inv_onRecv a mode hI
      rw [onRecv_park hq hm] at hI' ⊢
      refine finish hR.err (by simp [notExecuted]) hev rfl htail ?_ hI'
      refine R_rq (s' := { s with rwait := s.rwait ++ [⟨a, deadlineOf s.now mode⟩] }) (narr' := j.narr) (held' := j.held)
        hR ho rfl rfl rfl rfl rfl rfl ⟨hR.rq.narr, hR.rq.held, ?_, ?_⟩
      · rw [hR.rq.waiting]; simp
      · rw [List.map_append, List.nodup_append]
        refine ⟨hR.rq.nodup, by simp, ?_⟩
        intro x hx y hy
        simp at hy; subst hy
        intro hxy; subst hxy; exact hna hx
    cases mode with
    | nb =>
      simp only [onRecv, hq]
      refine hfail Err.eagain .nb j.waiting (by decide) (filter_ne_self hnw) rfl ?_
      simp [busTail, hasDone, hheld]
    | inf => exact hpark .inf rfl rfl rfl
    | dflt => exact hpark .dflt rfl rfl rfl
    | ms n =>
      cases n with
      | zero =>
        simp only [onRecv, hq]
        exact hfail Err.etimedout (.ms 0) (j.waiting ++ [a]) (by decide) (filter_snoc_self hnw) rfl rfl
      | succ n => exact hpark (.ms (n + 1)) rfl rfl rfl
  | cons gm rest =>
    have hI' := inv_onRecv a mode hI
    rw [onRecv_deliver hq] at hI' ⊢
    have hheld : j.held = heldOf gm :: rest.map heldOf := by rw [hR.rq.held, hq]; rfl
    have hhdr : gm.m.hdr = stampHdr s.raw gm.pipe :=
      hI.recv.hdr gm (hI.recv.sub.subset (by rw [hq]; simp))
    have hdel : ∀ (mode : Mode) (w1 : List Nat), w1.filter (· != a) = j.waiting →
        busEv j (.recv c a mode) [.done a 0 (some gm.m) false] = ({ j with waiting := w1 }, [], none) →
        busTail (.recv c a mode) [.done a 0 (some gm.m) false] (!j.held.isEmpty)
          { j with waiting := w1.filter (· != a), held := rest.map heldOf } =
          { j with waiting := w1.filter (· != a), held := rest.map heldOf } →
        R k { s with rq := rest, delivered := s.delivered ++ [gm], readable := if rest.isEmpty then false else s.readable }
          (busStep j (.recv c a mode) [.done a 0 (some gm.m) false]) := by
      intro mode w1 hw hev htail
      have hd := onDelivered_head { j with waiting := w1 } a gm.m (heldOf gm) (rest.map heldOf) hheld rfl
        (held_n_ne hI hq) (hdrOK_R (s := s) hR.raw hR.rp gm.pipe gm.m hhdr)
      refine finish (j' := { j with waiting := w1.filter (· != a), held := rest.map heldOf }) hR.err
        (by simp [notExecuted]) hev
        (by simp only [List.foldl_cons, List.foldl_nil, onOut_deliver none _ [] a gm.m false (by simp), hd]) htail ?_ hI'
      refine R_rq (narr' := j.narr) hR ?_ ?_ ?_ ?_ ?_ ?_ ?_ ?_
      · exact ho
      · rfl
      · rfl
      · rfl
      · rfl
      · rfl
      · rfl
      · exact ⟨hR.rq.narr, rfl, by rw [hw]; exact hR.rq.waiting, hR.rq.nodup⟩
    cases mode with
    | nb =>
      refine hdel .nb j.waiting (filter_ne_self hnw) rfl ?_
      simp [busTail, hasDone]
    | inf => exact hdel .inf _ (filter_snoc_self hnw) rfl rfl
    | dflt => exact hdel .dflt _ (filter_snoc_self hnw) rfl rfl
    | ms n => exact hdel (.ms n) _ (filter_snoc_self hnw) rfl rfl

theorem recvDone_R {k : List Nat} {s : State} {j : BusJ} (hI : Inv s) (hR : R k s j) (ho : s.opened = true)
    (p : Nat) (r : Except Nat Bytes) :
    R k (onRecvDone s p r).1 (busStep j (.recvDone p r) (onRecvDone s p r).2) := by
  have hI' := inv_onRecvDone p r hI
  have hbad : ∀ r, R k s (busStep j (.recvDone p r) [.rv (-1)]) := by
    intro r
    refine step_plain hR hI (by simp [notExecuted]) ?_ rfl ?_
    · cases r <;> simp [busEv]
    · cases r <;> rfl
  cases hx : s.pipes[p]? with
  | none => simpa [onRecvDone, hx] using hbad r
  | some pp =>
    cases hc : (pp.closed || !pp.armed) with
    | true => rw [onRecvDone_refused hx hc]; exact hbad r
    | false =>
      have hcl : pp.closed = false := by cases h : pp.closed <;> simp_all
      have harm : pp.armed = true := by cases h : pp.armed <;> simp_all
      have hpr := hR.rp.pipes p pp hx
      have hplt : p < j.pipes.length := by rw [hR.rp.len]; exact lt_of_getElem? hx
      have hjarm : (j.getP p).armed = true := by rw [BusJ.getP, hpr.armed]; exact harm
      cases r with
      | error e =>
        rw [onRecvDone_error hx hc] at hI' ⊢
        have hcr := closePipe_R hR ho hx hcl
        rw [closePipe_eq hx hcl] at hI' hcr ⊢
        refine finish (j1 := j.setP p { j.getP p with armed := false }) (exp := []) (sa := none) hR.err
          (by simp [notExecuted]) (by simp [busEv]) ?_ rfl hcr hI'
        simp only [List.cons_append, List.nil_append, List.foldl_cons, List.foldl_nil, onOut_rv, onOut_pclosed,
          getP_setP_self _ hplt, setP_setP, List.filter_nil]
        rfl
      | ok b =>
        have hrearm : ∀ (n : Nat) (H : List Held) (W : List Nat),
            onOut none ({ j with pipes := j.pipes.set p { j.getP p with armed := false }, narr := n, held := H, waiting := W }, []) (.parm p) =
              ({ j with narr := n, held := H, waiting := W }, []) := by
          intro n H W
          rw [onOut_parm]
          · simp only [BusJ.setP, BusJ.getP]
            rw [list_rearm j.pipes p hjarm]
          · simp [BusJ.getP, List.getD_eq_getElem?_getD, hplt]
        cases hw : s.rwait with
        | cons a rest =>
          rw [onRecvDone_waiter hx hc hw] at hI' ⊢
          have hq : s.rq = [] := hI.recv.wait_empty (by simp [hw])
          have hheld : j.held = [] := by rw [hR.rq.held, hq]; rfl
          have hwait : j.waiting = a.aio :: rest.map (·.aio) := by rw [hR.rq.waiting, hw]; rfl
          have hnd := hR.rq.nodup
          rw [hw, List.map_cons, List.nodup_cons] at hnd
          refine finish (j' := { j with narr := j.narr + 1, held := [], waiting := rest.map (·.aio) })
            (j1 := { j with pipes := j.pipes.set p { j.getP p with armed := false }, narr := j.narr + 1, held := [⟨p, j.narr, b⟩], waiting := j.waiting }) (exp := []) (sa := none) hR.err
            (by simp [notExecuted]) ?_ ?_ rfl ?_ hI'
          · simp [busEv, hjarm, hwait, hheld, BusJ.setP]
          · have hok' : hdrOK { j with pipes := j.pipes.set p { j.getP p with armed := false }, narr := j.narr + 1, held := [⟨p, j.narr, b⟩], waiting := j.waiting } p (arrival s p b).m := by
              refine hdrOK_of_id (raw := s.raw) ?_ p (arrival s p b).m ?_ rfl
              · exact hR.raw
              have := hR.rp.id_cases p
              simpa [BusJ.getP, List.getD_eq_getElem?_getD, hplt] using this
            have hd := onDelivered_head { j with pipes := j.pipes.set p { j.getP p with armed := false }, narr := j.narr + 1, held := [⟨p, j.narr, b⟩], waiting := j.waiting } a.aio (arrival s p b).m ⟨p, j.narr, b⟩ [] rfl rfl
              (by simp) hok'
            simp only [List.foldl_cons, List.foldl_nil, onOut_rv, onOut_deliver none _ [] a.aio _ false (by simp), hd]
            have hfw : j.waiting.filter (· != a.aio) = rest.map (·.aio) := by
              rw [hwait, List.filter_cons]
              simp only [bne_self_eq_false, Bool.false_eq_true, if_false]
              exact filter_ne_self hnd.1
            rw [hfw]
            exact hrearm _ _ _
          · refine R_rq hR ?_ ?_ ?_ ?_ ?_ ?_ ?_ ?_
            · exact ho
            · rfl
            · rfl
            · rfl
            · rfl
            · rfl
            · rfl
            · exact ⟨by rw [hR.rq.narr], by rw [hq]; rfl, rfl, hnd.2⟩
        | nil =>
          have hwait : j.waiting = [] := by rw [hR.rq.waiting, hw]; rfl
          have hlen : j.held.length = s.rq.length := by rw [hR.rq.held]; simp
          by_cases hl : s.rq.length < s.recvCap
          · rw [onRecvDone_queued hx hc hw hl] at hI' ⊢
            refine finish (j' := { j with narr := j.narr + 1, held := j.held ++ [⟨p, j.narr, b⟩], waiting := j.waiting })
              (j1 := { j with pipes := j.pipes.set p { j.getP p with armed := false }, narr := j.narr + 1, held := j.held ++ [⟨p, j.narr, b⟩], waiting := j.waiting }) (exp := []) (sa := none) hR.err
              (by simp [notExecuted]) ?_ ?_ rfl ?_ hI'
            · simp [busEv, hjarm, hwait, hlen, hR.rcap, hl, BusJ.setP]
            · simp only [List.foldl_cons, List.foldl_nil, onOut_rv]
              exact hrearm _ _ _
            · refine R_rq hR ?_ ?_ ?_ ?_ ?_ ?_ ?_ ?_
              · exact ho
              · rfl
              · rfl
              · rfl
              · rfl
              · rfl
              · rfl
              · refine ⟨by rw [hR.rq.narr], ?_, by rw [hw]; exact hwait, by rw [hw]; simp⟩
                rw [hR.rq.held, hR.rq.narr]; simp [heldOf, arrival]
          · rw [onRecvDone_full hx hc hw hl] at hI' ⊢
            refine finish (j' := { j with narr := j.narr + 1, held := j.held, waiting := j.waiting })
              (j1 := { j with pipes := j.pipes.set p { j.getP p with armed := false }, narr := j.narr + 1, held := j.held, waiting := j.waiting }) (exp := []) (sa := none) hR.err
              (by simp [notExecuted]) ?_ ?_ rfl ?_ hI'
            · simp [busEv, hjarm, hwait, hlen, hR.rcap, hl, BusJ.setP]
            · simp only [List.foldl_cons, List.foldl_nil, onOut_rv]
              exact hrearm _ _ _
            · refine R_rq hR ?_ ?_ ?_ ?_ ?_ ?_ ?_ ?_
              · exact ho
              · rfl
              · rfl
              · rfl
              · rfl
              · rfl
              · rfl
              · exact ⟨by rw [hR.rq.narr], hR.rq.held, hR.rq.waiting, hR.rq.nodup⟩

/-! ### wire hand-offs -/

def wireJ (idx : Nat) (pj : PipeJ) : PipeJ := { pj with inflight := true, wired := pj.wired ++ [idx] }

/-- everything `onWire` checks before it accepts message `m` (send number `idx`) on pipe `p` -/
def WireOK (J : BusJ) (p : Nat) (m : WMsg) (idx : Nat) : Prop :=
  ∃ sn : Sent, J.sends.find? (·.m.body == m.body) = some sn ∧ sn.m.hdr = m.hdr ∧ sn.idx = idx ∧
    sn.excl ≠ some p ∧ (∀ x ∈ (J.getP p).wired, x < idx) ∧ (J.getP p).conn = true ∧ (J.getP p).inflight = false

theorem onWire_ok {J : BusJ} {p : Nat} {m : WMsg} {idx : Nat} (h : WireOK J p m idx) (rest : List (Nat × Nat)) :
    onWire ((p, idx) :: rest) J p m = (J.setP p (wireJ idx (J.getP p)), rest) := by
  obtain ⟨sn, h1, h2, h3, h4, h5, h6, h7⟩ := h
  have hc : (J.getP p).wired.contains idx = false := by
    rw [List.contains_eq_mem]; simp only [decide_eq_false_iff_not]
    intro hm; exact Nat.lt_irrefl _ (h5 idx hm)
  have ha : (J.getP p).wired.any (· > idx) = false := by
    rw [List.any_eq_false]; intro x hx; have := h5 x hx; simp; omega
  have he : (sn.excl == some p) = false := by simpa using h4
  unfold onWire
  simp only [h1, h2, h3, he, hc, ha, h6, h7, bne_self_eq_false, Bool.false_eq_true, if_false, Bool.not_true,
    List.contains_cons, beq_self_eq_true, Bool.true_or, List.erase_cons_head, wireJ]

theorem find_by_body : ∀ (sends : List Sent) (n : Nat) (sn : Sent), (sends.map (·.m.body)).Nodup →
    sends[n]? = some sn → sends.find? (·.m.body == sn.m.body) = some sn
  | [], _, _, _, h => by simp at h
  | x :: xs, n, sn, hd, h => by
    rw [List.map_cons, List.nodup_cons] at hd
    cases n with
    | zero => simp at h; subst h; simp
    | succ n =>
      simp at h
      have hmem : sn ∈ xs := List.mem_of_getElem? h
      have hne : (x.m.body == sn.m.body) = false := by
        rw [beq_eq_false_iff_ne]; intro he
        exact hd.1 (he ▸ List.mem_map.2 ⟨sn, hmem, rfl⟩)
      rw [List.find?_cons, hne]
      exact find_by_body xs n sn hd.2 h

theorem onSendDone_bad {s : State} {p rv : Nat} {pp : Pipe} (hx : s.pipes[p]? = some pp)
    (h : (pp.closed || pp.busy.isNone) = true) : onSendDone s p rv = (s, [.rv (-1)]) := by
  simp [onSendDone, hx, h]

theorem sendDone_R {k : List Nat} {s : State} {j : BusJ} (hI : Inv s) (hR : R k s j) (ho : s.opened = true)
    (p rv : Nat) :
    R k (onSendDone s p rv).1 (busStep j (.sendDone p rv) (onSendDone s p rv).2) := by
  have hI' := inv_onSendDone p rv hI
  have hbad : R k s (busStep j (.sendDone p rv) [.rv (-1)]) :=
    step_plain hR hI (by simp [notExecuted]) (by simp [busEv]) rfl rfl
  cases hx : s.pipes[p]? with
  | none => simpa [onSendDone, hx] using hbad
  | some pp =>
    cases hc : (pp.closed || pp.busy.isNone) with
    | true => rw [onSendDone_bad hx hc]; exact hbad
    | false =>
      have hcl : pp.closed = false := by cases h : pp.closed <;> simp_all
      have hbusy : pp.busy.isSome = true := by cases h : pp.busy <;> simp_all
      have hpr := hR.rp.pipes p pp hx
      have hplt : p < j.pipes.length := by rw [hR.rp.len]; exact lt_of_getElem? hx
      have hconn : (j.getP p).conn = true := by rw [BusJ.getP, hpr.conn, hcl]; rfl
      have hinf : (j.getP p).inflight = true := by rw [BusJ.getP, hpr.inflight, hbusy]
      by_cases hrv : (rv != 0) = true
      · have he : onSendDone s p rv = ((closePipe s p).1, [.rv 0, .pclosed p]) := by
          simp [onSendDone, hx, hc, hrv, closePipe_eq hx hcl]
        have hrv' : (rv == 0) = false := by simpa using hrv
        rw [he] at hI' ⊢
        exact finish (j1 := j) (exp := []) (sa := none) hR.err (by simp [notExecuted]) (by simp [busEv, hrv'])
          (by simp [onOut_rv, onOut_pclosed]) rfl (closePipe_R hR ho hx hcl) hI'
      · have hrv0 : rv = 0 := by simpa using hrv
        subst hrv0
        have he : onSendDone s p 0 = ({ s with pipes := s.pipes.set p (sendCb p pp).1 }, [.rv 0] ++ (sendCb p pp).2) := by
          simp [onSendDone, hx, hc]
        rw [he] at hI' ⊢
        cases hsq : pp.sq with
        | nil =>
          rw [sendCb_nil hsq] at hI' ⊢
          have hq : (j.getP p).q = [] := by rw [BusJ.getP, hpr.q, hsq]; rfl
          refine finish (j1 := j.setP p { j.getP p with inflight := false }) (exp := []) (sa := none) hR.err
            (by simp [notExecuted]) (by simp [busEv, hconn, hinf, hq]) rfl rfl ?_ hI'
          refine R_rp (s' := { s with pipes := s.pipes.set p { pp with busy := none } }) hR ho rfl rfl rfl rfl rfl rfl rfl rfl
            (RP_set hR.rp p _ _ ?_ rfl)
          exact ⟨hpr.conn, rfl, hpr.q, hpr.cap, hpr.armed, hpr.wired, hpr.id, hpr.sqok⟩
        | cons m rest =>
          rw [sendCb_cons hsq] at hI' ⊢
          have hq : (j.getP p).q = m.gid :: rest.map (·.gid) := by rw [BusJ.getP, hpr.q, hsq]; rfl
          obtain ⟨sn, hs1, hs2, hs3⟩ := hpr.sqok m (by rw [hsq]; simp)
          have hpi := hI.send p pp hx
          have hlt : ∀ x ∈ pp.wire.map (·.gid), x < m.gid := by
            have := hpi.sorted
            rw [hsq, List.map_append, List.pairwise_append] at this
            intro x hx'
            exact this.2.2 x hx' m.gid (by simp)
          let J1 := j.setP p { j.getP p with q := rest.map (·.gid), inflight := false }
          have hw : WireOK J1 p m.m m.gid := by
            refine ⟨sn, ?_, by rw [hs2], hR.rs.idx _ _ hs1, hs3, ?_, ?_, ?_⟩
            · show j.sends.find? _ = _
              rw [← hs2]; exact find_by_body _ _ _ hR.rs.dist hs1
            · rw [getP_setP_self _ hplt]
              show ∀ x ∈ (j.getP p).wired, _
              rw [BusJ.getP, hpr.wired]; exact hlt
            · rw [getP_setP_self _ hplt]; exact hconn
            · rw [getP_setP_self _ hplt]
          refine finish (j' := J1.setP p (wireJ m.gid (J1.getP p))) (j1 := J1) (exp := [(p, m.gid)]) (sa := none) hR.err
            (by simp [notExecuted]) (by simp [busEv, hconn, hinf, hq, J1]) ?_ rfl ?_ hI'
          · simp only [List.cons_append, List.nil_append, List.foldl_cons, List.foldl_nil, onOut_rv]
            show onWire _ J1 p m.m = _
            rw [onWire_ok hw]
          · rw [getP_setP_self _ hplt, setP_setP]
            refine R_rp (s' := { s with pipes := s.pipes.set p { pp with sq := rest, busy := some m, wire := pp.wire ++ [m] } })
              hR ho rfl rfl rfl rfl rfl rfl rfl rfl (RP_set hR.rp p _ _ ?_ rfl)
            refine ⟨hpr.conn, rfl, rfl, hpr.cap, hpr.armed, ?_, hpr.id, ?_⟩
            · show (j.getP p).wired ++ [m.gid] = _
              rw [BusJ.getP, hpr.wired]; simp
            · intro gm hg
              exact hpr.sqok gm (by rw [hsq]; exact List.mem_cons_of_mem _ hg)

/-! ### updating a set of pipes -/

def updL (f : PipeJ → PipeJ) (L : List Nat) (J : BusJ) : BusJ :=
  L.foldl (fun J p => J.setP p (f (J.getP p))) J

theorem updL_spec (f : PipeJ → PipeJ) : ∀ (L : List Nat) (J : BusJ), L.Nodup → (∀ p ∈ L, p < J.pipes.length) →
    (updL f L J).pipes.length = J.pipes.length ∧
    (∀ i, (updL f L J).getP i = if i ∈ L then f (J.getP i) else J.getP i) ∧
    updL f L J = { J with pipes := (updL f L J).pipes }
  | [], J, _, _ => ⟨rfl, fun i => by simp [updL], rfl⟩
  | p :: L, J, hnd, hr => by
    rw [List.nodup_cons] at hnd
    have hp : p < J.pipes.length := hr p (by simp)
    obtain ⟨h1, h2, h3⟩ := updL_spec f L (J.setP p (f (J.getP p))) hnd.2
      (fun q hq => by rw [setP_len]; exact hr q (by simp [hq]))
    have he : updL f (p :: L) J = updL f L (J.setP p (f (J.getP p))) := rfl
    rw [he]
    refine ⟨by rw [h1, setP_len], ?_, ?_⟩
    · intro i
      rw [h2 i]
      by_cases hip : i = p
      · subst hip
        simp [hnd.1, getP_setP_self _ hp]
      · have : p ≠ i := fun h => hip h.symm
        simp [hip, getP_setP_ne _ this]
    · rw [h3]; rfl

theorem fold_pclosed (sa : Option Nat) : ∀ (L : List Nat) (J : BusJ),
    (L.map Out.pclosed).foldl (onOut sa) (J, []) = (updL closeJ L J, [])
  | [], _ => rfl
  | p :: L, J => by
    rw [List.map_cons, List.foldl_cons, onOut_pclosed, List.filter_nil]
    exact fold_pclosed sa L _

theorem fold_psend (sa : Option Nat) (m : WMsg) (idx : Nat) : ∀ (L : List Nat) (J : BusJ), L.Nodup →
    (∀ p ∈ L, p < J.pipes.length) → (∀ p ∈ L, WireOK J p m idx) →
    (L.map (fun p => Out.psend p m)).foldl (onOut sa) (J, L.map (fun p => (p, idx))) = (updL (wireJ idx) L J, [])
  | [], _, _, _, _ => rfl
  | p :: L, J, hnd, hr, hw => by
    rw [List.nodup_cons] at hnd
    rw [List.map_cons, List.map_cons, List.foldl_cons]
    have h1 : onOut sa (J, (p, idx) :: L.map (fun p => (p, idx))) (.psend p m) =
        (J.setP p (wireJ idx (J.getP p)), L.map (fun p => (p, idx))) := by
      show onWire _ J p m = _
      exact onWire_ok (hw p (by simp)) _
    rw [h1]
    refine fold_psend sa m idx L _ hnd.2 (fun q hq => by rw [setP_len]; exact hr q (by simp [hq])) ?_
    intro q hq
    have hne : p ≠ q := fun h => hnd.1 (h ▸ hq)
    obtain ⟨sn, a1, a2, a3, a4, a5, a6, a7⟩ := hw q (by simp [hq])
    exact ⟨sn, a1, a2, a3, a4, by rw [getP_setP_ne _ hne]; exact a5, by rw [getP_setP_ne _ hne]; exact a6,
      by rw [getP_setP_ne _ hne]; exact a7⟩

/-- the model's per-pipe output lists, as a list of pipe numbers -/
theorem mapIdx_flatten_off {α β : Type} (c : Nat → α → Bool) (g : Nat → β) : ∀ (l : List α) (off : Nat),
    (l.mapIdx (fun i x => if c (i + off) x = true then [g (i + off)] else [])).flatten =
      ((List.range' off l.length).filter (fun i => ((l[i - off]?).map (c i)).getD false)).map g
  | [], _ => rfl
  | x :: l, off => by
    rw [List.mapIdx_cons, List.flatten_cons, List.length_cons, List.range'_succ, List.filter_cons]
    have e : (fun i x => if c (i + 1 + off) x = true then [g (i + 1 + off)] else []) =
        (fun i x => if c (i + (off + 1)) x = true then [g (i + (off + 1))] else []) := by
      funext i x; rw [Nat.add_assoc, Nat.add_comm 1 off]
    rw [e, mapIdx_flatten_off c g l (off + 1)]
    have hf : (List.range' (off + 1) l.length).filter (fun i => (((x :: l)[i - off]?).map (c i)).getD false) =
        (List.range' (off + 1) l.length).filter (fun i => ((l[i - (off + 1)]?).map (c i)).getD false) := by
      apply List.filter_congr
      intro i hi
      have := (List.mem_range'_1.1 hi).1
      have h2 : i - off = (i - (off + 1)) + 1 := by omega
      rw [h2, List.getElem?_cons_succ]
    rw [hf]
    by_cases hc : c off x = true
    · simp [hc]
    · simp [hc]

theorem mapIdx_flatten_range {α β : Type} (c : Nat → α → Bool) (g : Nat → β) (l : List α) :
    (l.mapIdx (fun i x => if c i x = true then [g i] else [])).flatten =
      ((List.range l.length).filter (fun i => ((l[i]?).map (c i)).getD false)).map g := by
  have := mapIdx_flatten_off c g l 0
  simpa [List.range_eq_range'] using this

/-! ### close -/

theorem closeW : ∀ (l : List Parked) (J : BusJ), J.waiting = l.map (·.aio) → (l.map (·.aio)).Nodup →
    (l.map fun pk => Out.done pk.aio Err.eclosed none false).foldl (onOut none) (J, []) =
      ({ J with waiting := [] }, [])
  | [], J, hw, _ => by
    simp only [List.map_nil, List.foldl_nil]
    rw [List.map_nil] at hw
    rw [← hw]
  | pk :: l, J, hw, hnd => by
    rw [List.map_cons, List.nodup_cons] at hnd
    rw [List.map_cons, List.foldl_cons, onOut_fail none J [] pk.aio Err.eclosed false (by simp) (by decide)]
    have hw' : (J.waiting.filter (· != pk.aio)) = l.map (·.aio) := by
      rw [hw, List.map_cons, List.filter_cons]
      simp only [bne_self_eq_false, Bool.false_eq_true, if_false]
      exact filter_ne_self hnd.1
    exact closeW l { J with waiting := J.waiting.filter (· != pk.aio) } hw' hnd.2

def openIdx (pipes : List Pipe) : List Nat :=
  (List.range pipes.length).filter (fun i => ((pipes[i]?).map (fun pp => !pp.closed)).getD false)

theorem openIdx_nodup (pipes : List Pipe) : (openIdx pipes).Nodup :=
  List.nodup_range.sublist List.filter_sublist

theorem mem_openIdx {pipes : List Pipe} {i : Nat} :
    i ∈ openIdx pipes ↔ ∃ pp, pipes[i]? = some pp ∧ pp.closed = false := by
  unfold openIdx
  rw [List.mem_filter, List.mem_range]
  constructor
  · rintro ⟨hl, h⟩
    refine ⟨pipes[i], by simp [hl], ?_⟩
    simpa [hl] using h
  · rintro ⟨pp, hx, hc⟩
    exact ⟨lt_of_getElem? hx, by simp [hx, hc]⟩

theorem onClose_outs2 (pipes : List Pipe) :
    (pipes.mapIdx fun i pp => if pp.closed then [] else [Out.pclosed i]).flatten = (openIdx pipes).map Out.pclosed := by
  have e : (fun (i : Nat) (pp : Pipe) => if pp.closed then [] else [Out.pclosed i]) =
      (fun i pp => if (fun (_ : Nat) (pp : Pipe) => !pp.closed) i pp = true then [Out.pclosed i] else []) := by
    funext i pp; cases h : pp.closed <;> simp [h]
  rw [e, mapIdx_flatten_range]
  rfl

theorem close_R {k : List Nat} {s : State} {j : BusJ} (hI : Inv s) (hR : R k s j) (ho : s.opened = true) :
    R k (onClose s).1 (busStep j .close (onClose s).2) := by
  have hI' := inv_onClose hI
  unfold onClose at hI' ⊢
  simp only [onClose_outs2] at hI' ⊢
  have hr : ∀ p ∈ openIdx s.pipes, p < (BusJ.pipes { j with closed := true, waiting := [] }).length := by
    intro p hp
    obtain ⟨pp, hx, _⟩ := mem_openIdx.1 hp
    show p < j.pipes.length
    rw [hR.rp.len]; exact lt_of_getElem? hx
  obtain ⟨h1, h2, h3⟩ := updL_spec closeJ (openIdx s.pipes) { j with closed := true, waiting := [] }
    (openIdx_nodup _) hr
  refine finish (j' := updL closeJ (openIdx s.pipes) { j with closed := true, waiting := [] })
    (j1 := { j with closed := true }) (exp := []) (sa := none) hR.err ?_ rfl ?_ rfl ?_ hI'
  · simp [notExecuted]
  · rw [List.foldl_append, closeW s.rwait { j with closed := true } hR.rq.waiting hR.rq.nodup]
    exact fold_pclosed none _ _
  · rw [h3]
    refine ⟨hR.err, rfl, hR.raw, hR.sendBuf, hR.rcap, ⟨?_, ?_, ?_⟩, hR.rs,
      ⟨hR.rq.narr, hR.rq.held, rfl, by simp⟩, un_of_open' ho⟩
    · rw [h1]; simp [hR.rp.len]
    · intro i pp' hi
      rw [List.getElem?_map] at hi
      cases hx : s.pipes[i]? with
      | none => simp [hx] at hi
      | some pp =>
        simp only [hx, Option.map_some, Option.some.injEq] at hi
        have hg := h2 i
        simp only [BusJ.getP] at hg
        show PR j.sends i pp' (List.getD _ i {})
        rw [hg]
        cases hcl : pp.closed with
        | true =>
          have hni : i ∉ openIdx s.pipes := by
            intro hm; obtain ⟨pp2, hx2, hc2⟩ := mem_openIdx.1 hm
            rw [hx] at hx2; cases hx2; simp [hcl] at hc2
          simp only [hcl, if_true] at hi
          subst hi
          simp only [hni, if_false]
          exact hR.rp.pipes i pp hx
        | false =>
          have hni : i ∈ openIdx s.pipes := mem_openIdx.2 ⟨pp, hx, hcl⟩
          simp only [hcl, Bool.false_eq_true, if_false] at hi
          subst hi
          simp only [hni, if_true]
          exact PR_closeP (hR.rp.pipes i pp hx)
    · intro i hi
      have hg := h2 i
      simp only [BusJ.getP] at hg
      show PipeJ.id (List.getD _ i {}) = _
      rw [hg]
      have := hR.rp.known i hi
      by_cases hm : i ∈ openIdx s.pipes
      · simp only [hm, if_true]; exact this
      · simp only [hm, if_false]; exact this

/-! ### send-buffer resize -/

theorem RP.known_lt {k : List Nat} {pipes : List Pipe} {jp : List PipeJ} {sends : List Sent}
    (h : RP k pipes jp sends) {i : Nat} (hi : i ∈ k) : i < jp.length := by
  have hk := h.known i hi
  by_cases hl : i < jp.length
  · exact hl
  · have : jp[i]? = none := List.getElem?_eq_none (by omega)
    simp [List.getD_eq_getElem?_getD, this] at hk

theorem RP_map {k : List Nat} {pipes : List Pipe} {jp : List PipeJ} {sends : List Sent}
    (h : RP k pipes jp sends) (f : Pipe → Pipe) (g : PipeJ → PipeJ)
    (hpr : ∀ i pp pj, PR sends i pp pj → PR sends i (f pp) (g pj)) (hid : ∀ pj, (g pj).id = pj.id) :
    RP k (pipes.map f) (jp.map g) sends := by
  have hget : ∀ i, i < jp.length → (jp.map g).getD i {} = g (jp.getD i {}) := by
    intro i hl; simp [List.getD_eq_getElem?_getD, hl]
  refine ⟨by simp [h.len], ?_, ?_⟩
  · intro i pp' hi
    rw [List.getElem?_map] at hi
    cases hx : pipes[i]? with
    | none => simp [hx] at hi
    | some pp =>
      simp only [hx, Option.map_some, Option.some.injEq] at hi
      subst hi
      rw [hget i (by rw [h.len]; exact lt_of_getElem? hx)]
      exact hpr i pp _ (h.pipes i pp hx)
  · intro i hi
    rw [hget i (h.known_lt hi), hid]
    exact h.known i hi

theorem setSendBuf_R {k : List Nat} {s : State} {j : BusJ} (hI : Inv s) (hR : R k s j) (ho : s.opened = true) (v : Int) :
    R k (onSetSendBuf s v).1 (busStep j (.setopt none "send-buffer" "int" v) (onSetSendBuf s v).2) := by
  have hI' := inv_onSetSendBuf v hI
  unfold onSetSendBuf at hI' ⊢
  by_cases hv : (v < bufMin || v > bufMax) = true
  · rw [if_pos hv]
    exact step_plain hR hI (by simp [notExecuted]) (by simp [busEv, Err.einval]) rfl rfl
  · rw [if_neg hv] at hI' ⊢
    refine finish (j' := { j with sendBuf := v.toNat, pipes := j.pipes.map fun pj => if pj.conn then { pj with cap := v.toNat, q := pj.q.take v.toNat } else pj }) (sa := none) (exp := [])
      hR.err (by simp [notExecuted]) (by simp [busEv]) rfl rfl ?_ hI'
    refine ⟨hR.err, hR.closed, hR.raw, rfl, hR.rcap, ?_, hR.rs, hR.rq, un_of_open' ho⟩
    refine RP_map hR.rp _ _ ?_ ?_
    · intro i pp pj hp
      cases hcl : pp.closed with
      | true =>
        have : pj.conn = false := by rw [hp.conn, hcl]; rfl
        rw [resizeP_detached hcl]; simp only [this, Bool.false_eq_true, if_false]; exact hp
      | false =>
        have : pj.conn = true := by rw [hp.conn, hcl]; rfl
        rw [resizeP_attached hcl]; simp only [this, if_true]
        refine ⟨by simp [hcl], hp.inflight, ?_, rfl, hp.armed, hp.wired, hp.id, ?_⟩
        · show pj.q.take _ = _
          rw [hp.q, List.map_take]
        · intro gm hg
          exact hp.sqok gm (List.mem_of_mem_take hg)
    · intro pj; by_cases h : pj.conn = true <;> simp [h]

/-! ### send: what the judge expects -/

theorem expectWire_m {j : BusJ} {s : State} (hraw : j.raw = s.raw) (m : WMsg) (n : Nat) :
    (expectWire j n m).idx = n ∧ (expectWire j n m).m = (sendMsg s m).m := by
  unfold expectWire sendMsg parseSender
  rw [hraw]
  cases hr : s.raw with
  | false => simp
  | true => by_cases hl : m.hdr.length ≥ 4 <;> simp [hl]

theorem expectWire_excl {k : List Nat} {s : State} {j : BusJ} (hR : R k s j) (m : WMsg) (n : Nat)
    (horigin : s.raw = true → m.hdr.length ≥ 4 → ∀ i pp, s.pipes[i]? = some pp → pp.closed = false →
      beDecode (m.hdr.take 4) = pid i → i ∈ k)
    (i : Nat) (pp : Pipe) (hx : s.pipes[i]? = some pp) (hcl : pp.closed = false) :
    ((expectWire j n m).excl == some i) = (s.raw && pid i == (sendMsg s m).excl) := by
  unfold expectWire sendMsg parseSender
  rw [hR.raw]
  cases hr : s.raw with
  | false => simp
  | true =>
    by_cases hl : m.hdr.length ≥ 4
    · simp only [hl, if_true, Bool.true_and]
      by_cases hpid : pid i = beDecode (m.hdr.take 4)
      · have hik : i ∈ k := horigin hr hl i pp hx hcl hpid.symm
        have hil : i < j.pipes.length := hR.rp.known_lt hik
        have hkn := hR.rp.known i hik
        have hfi : j.pipes.findIdx? (fun pj => pj.id == some (beDecode (m.hdr.take 4))) = some i := by
          rw [List.findIdx?_eq_some_iff_getElem]
          refine ⟨hil, ?_, ?_⟩
          · have : j.pipes[i] = j.pipes.getD i {} := by simp [List.getD_eq_getElem?_getD, hil]
            rw [this, hkn, hpid]; simp
          · intro i' hi' hp
            have hl' : i' < j.pipes.length := by omega
            have : j.pipes[i'] = j.pipes.getD i' {} := by simp [List.getD_eq_getElem?_getD, hl']
            rw [this] at hp
            rcases hR.rp.id_cases i' with h0 | h0
            · rw [h0] at hp; simp at hp
            · rw [h0, ← hpid] at hp
              simp at hp
              have := pid_inj hp; omega
        rw [hfi]; simp [hpid]
      · have hne : (pid i == beDecode (m.hdr.take 4)) = false := by simpa using hpid
        rw [hne]
        rw [beq_eq_false_iff_ne]
        intro hfi
        rw [List.findIdx?_eq_some_iff_getElem] at hfi
        obtain ⟨hil, hp, _⟩ := hfi
        have : j.pipes[i] = j.pipes.getD i {} := by simp [List.getD_eq_getElem?_getD, hil]
        rw [this] at hp
        rcases hR.rp.id_cases i with h0 | h0
        · rw [h0] at hp; simp at hp
        · rw [h0] at hp; simp at hp; exact hpid hp
    · simp only [hl, if_false, Bool.true_and]
      have : (pid i == 0) = false := by simpa using pid_ne_zero i
      simp [this]

/-! ### `offerAll` -/

def offerF (sn : Sent) (acc : BusJ × List (Nat × Nat)) (p : Nat) : BusJ × List (Nat × Nat) :=
  let j := acc.1
  let pj := j.getP p
  if !pj.conn || sn.excl == some p then acc
  else if !pj.inflight then (j, acc.2 ++ [(p, sn.idx)])
  else if pj.q.length < pj.cap then (j.setP p { pj with q := pj.q ++ [sn.idx] }, acc.2)
  else acc

theorem offerAll_eq (j : BusJ) (sn : Sent) :
    offerAll j sn = (List.range j.pipes.length).foldl (offerF sn) (j, []) := rfl

def offerJ (sn : Sent) (p : Nat) (pj : PipeJ) : PipeJ :=
  if !pj.conn || sn.excl == some p then pj
  else if !pj.inflight then pj
  else if pj.q.length < pj.cap then { pj with q := pj.q ++ [sn.idx] }
  else pj

def wantsJ (sn : Sent) (p : Nat) (pj : PipeJ) : Bool :=
  !(!pj.conn || sn.excl == some p) && !pj.inflight

theorem offerAll_spec (j : BusJ) (sn : Sent) : ∀ m, m ≤ j.pipes.length →
    ((List.range m).foldl (offerF sn) (j, [])).1.pipes.length = j.pipes.length ∧
    (∀ i, ((List.range m).foldl (offerF sn) (j, [])).1.getP i =
      if i < m then offerJ sn i (j.getP i) else j.getP i) ∧
    ((List.range m).foldl (offerF sn) (j, [])).1 =
      { j with pipes := ((List.range m).foldl (offerF sn) (j, [])).1.pipes } ∧
    ((List.range m).foldl (offerF sn) (j, [])).2 =
      ((List.range m).filter (fun p => wantsJ sn p (j.getP p))).map (fun p => (p, sn.idx))
  | 0, _ => ⟨rfl, fun i => by simp, rfl, rfl⟩
  | m + 1, hm => by
    obtain ⟨h1, h2, h3, h4⟩ := offerAll_spec j sn m (by omega)
    rw [List.range_succ, List.foldl_append]
    generalize (List.range m).foldl (offerF sn) (j, []) = r at h1 h2 h3 h4
    simp only [List.foldl_cons, List.foldl_nil, List.filter_append, List.map_append]
    have hpm : r.1.getP m = j.getP m := by rw [h2 m]; simp
    have hml : m < r.1.pipes.length := by omega
    unfold offerF
    simp only [hpm]
    by_cases hA : (!(j.getP m).conn || sn.excl == some m) = true
    · rw [if_pos hA]
      refine ⟨h1, ?_, h3, ?_⟩
      · intro i
        rw [h2 i]
        by_cases him : i = m
        · subst him; simp [offerJ, hA]
        · by_cases hlt : i < m
          · simp [hlt, Nat.lt_succ_of_lt hlt]
          · have : ¬ i < m + 1 := by omega
            simp [hlt, this]
      · rw [h4]; simp [wantsJ, hA, List.filter]
    · rw [if_neg hA]
      by_cases hB : (!(j.getP m).inflight) = true
      · rw [if_pos hB]
        refine ⟨h1, ?_, h3, ?_⟩
        · intro i
          show r.1.getP i = _
          rw [h2 i]
          by_cases him : i = m
          · subst him; simp [offerJ, hA, hB]
          · by_cases hlt : i < m
            · simp [hlt, Nat.lt_succ_of_lt hlt]
            · have : ¬ i < m + 1 := by omega
              simp [hlt, this]
        · show r.2 ++ _ = _
          rw [h4]
          have hA' : (!(j.getP m).conn || sn.excl == some m) = false := by simpa using hA
          simp [wantsJ, hA', hB, List.filter]
      · rw [if_neg hB]
        by_cases hC : (j.getP m).q.length < (j.getP m).cap
        · rw [if_pos hC]
          refine ⟨by rw [setP_len]; exact h1, ?_, ?_, ?_⟩
          · intro i
            by_cases him : i = m
            · subst him
              rw [getP_setP_self _ hml]
              simp [offerJ, hA, hB, hC]
            · have hne : m ≠ i := fun h => him h.symm
              show (r.1.setP m _).getP i = _
              rw [getP_setP_ne _ hne, h2 i]
              by_cases hlt : i < m
              · simp [hlt, Nat.lt_succ_of_lt hlt]
              · have : ¬ i < m + 1 := by omega
                simp [hlt, this]
          · show r.1.setP m _ = _
            rw [h3]; rfl
          · show r.2 = _
            rw [h4]
            have hB' : (!(j.getP m).inflight) = false := by simpa using hB
            simp [wantsJ, hB', List.filter]
        · rw [if_neg hC]
          refine ⟨h1, ?_, h3, ?_⟩
          · intro i
            rw [h2 i]
            by_cases him : i = m
            · subst him; simp [offerJ, hA, hB, hC]
            · by_cases hlt : i < m
              · simp [hlt, Nat.lt_succ_of_lt hlt]
              · have : ¬ i < m + 1 := by omega
                simp [hlt, this]
          · rw [h4]
            have hB' : (!(j.getP m).inflight) = false := by simpa using hB
            simp [wantsJ, hB', List.filter]

/-! ### send: the model's hand-offs -/

def eligB (raw : Bool) (gm : SMsg) (i : Nat) (pp : Pipe) : Bool :=
  !pp.closed && !(raw && pid i == gm.excl) && pp.busy.isNone

theorem offer_snd (raw : Bool) (gm : SMsg) (i : Nat) (pp : Pipe) :
    (offer raw gm i pp).2 = if eligB raw gm i pp = true then [Out.psend i gm.m] else [] := by
  unfold eligB
  cases hc : pp.closed with
  | true => simp [offer_detached hc]
  | false =>
  cases he : (raw && pid i == gm.excl) with
  | true => simp [offer_origin he]
  | false =>
  cases hb : pp.busy.isNone with
  | true =>
    have hbn : pp.busy = none := by simpa using hb
    simp [offer_direct hc he hbn]
  | false =>
    by_cases hq : pp.sq.length < pp.sqCap
    · simp [offer_queued hc he hb hq]
    · simp [offer_full hc he hb hq]

def sendIdx (s : State) (m : WMsg) : List Nat :=
  (List.range s.pipes.length).filter (fun i => ((s.pipes[i]?).map (eligB s.raw (sendMsg s m) i)).getD false)

theorem sendWire_eq (s : State) (m : WMsg) :
    sendWire s m = (sendIdx s m).map (fun p => Out.psend p (sendMsg s m).m) := by
  unfold sendWire sendIdx
  have e : (fun i pp => (offer s.raw (sendMsg s m) i pp).2) =
      (fun i pp => if eligB s.raw (sendMsg s m) i pp = true then [Out.psend i (sendMsg s m).m] else []) := by
    funext i pp; exact offer_snd _ _ _ _
  rw [e, mapIdx_flatten_range]

theorem mem_sendIdx {s : State} {m : WMsg} {i : Nat} :
    i ∈ sendIdx s m ↔ ∃ pp, s.pipes[i]? = some pp ∧ eligB s.raw (sendMsg s m) i pp = true := by
  unfold sendIdx
  rw [List.mem_filter, List.mem_range]
  constructor
  · rintro ⟨hl, h⟩
    refine ⟨s.pipes[i], by simp [hl], ?_⟩
    simpa [hl] using h
  · rintro ⟨pp, hx, hc⟩
    exact ⟨lt_of_getElem? hx, by simp [hx, hc]⟩

theorem PR.mono {sends : List Sent} {i : Nat} {pp : Pipe} {pj : PipeJ} (h : PR sends i pp pj) (l : List Sent) :
    PR (sends ++ l) i pp pj := by
  refine ⟨h.conn, h.inflight, h.q, h.cap, h.armed, h.wired, h.id, ?_⟩
  intro gm hg
  obtain ⟨sn, h1, h2, h3⟩ := h.sqok gm hg
  refine ⟨sn, ?_, h2, h3⟩
  rw [List.getElem?_append_left (lt_of_getElem? h1)]; exact h1

theorem send_R {k : List Nat} {s : State} {j : BusJ} (hI : Inv s) (hR : R k s j) (ho : s.opened = true)
    (c : Option Nat) (a : Nat) (m : WMsg) (mode : Mode)
    (hfresh : m.body ∉ j.sends.map (·.m.body))
    (horigin : s.raw = true → m.hdr.length ≥ 4 → ∀ i pp, s.pipes[i]? = some pp → pp.closed = false →
      beDecode (m.hdr.take 4) = pid i → i ∈ k) :
    R k (onSend s a m).1 (busStep j (.send c a m mode) (onSend s a m).2) := by
  have hI' := inv_onSend a m hI
  obtain ⟨hm1, hm2⟩ := expectWire_m hR.raw m j.sends.length
  have hexcl := expectWire_excl hR m j.sends.length horigin
  have hbody : (sendMsg s m).m.body = m.body := rfl
  have hgid : (sendMsg s m).gid = s.nsend := rfl
  have hlen : j.sends.length = s.nsend := hR.rs.len
  -- the judge's bookkeeping
  have hev : ∀ outs, busEv j (.send c a m mode) outs =
      ((offerAll { j with sends := j.sends ++ [expectWire j j.sends.length m] } (expectWire j j.sends.length m)).1,
       (offerAll { j with sends := j.sends ++ [expectWire j j.sends.length m] } (expectWire j j.sends.length m)).2,
       some a) := fun _ => rfl
  generalize hsn : expectWire j j.sends.length m = sn at hm1 hm2 hexcl hev
  obtain ⟨o1, o2, o3, o4⟩ := offerAll_spec { j with sends := j.sends ++ [sn] } sn j.pipes.length (Nat.le_refl _)
  rw [offerAll_eq] at hev
  generalize (List.range (BusJ.pipes { j with sends := j.sends ++ [sn] }).length).foldl (offerF sn)
    ({ j with sends := j.sends ++ [sn] }, []) = r at o1 o2 o3 o4 hev
  have o1' : r.1.pipes.length = j.pipes.length := o1
  have o2' : ∀ i, i < j.pipes.length → r.1.getP i = offerJ sn i (j.getP i) := by
    intro i hi; rw [o2 i, if_pos hi]; rfl
  have hsends : r.1.sends = j.sends ++ [sn] := by rw [o3]
  -- the wire hand-offs the judge expects are the model's
  have hexp : r.2 = (sendIdx s m).map (fun p => (p, s.nsend)) := by
    rw [o4, hm1, hlen]
    congr 1
    unfold sendIdx
    rw [hR.rp.len]
    apply List.filter_congr
    intro p hp
    have hpl : p < s.pipes.length := List.mem_range.1 hp
    have hx : s.pipes[p]? = some s.pipes[p] := by simp [hpl]
    have hpr := hR.rp.pipes p _ hx
    show wantsJ sn p (j.getP p) = _
    simp only [hx, Option.map_some, Option.getD_some, wantsJ, eligB, BusJ.getP, hpr.conn, hpr.inflight]
    cases hcl : (s.pipes[p]).closed with
    | true => simp
    | false =>
      rw [hexcl p _ hx hcl]
      cases (s.pipes[p]).busy <;> simp
  have hLn : (sendIdx s m).Nodup := List.nodup_range.sublist List.filter_sublist
  have hLr : ∀ p ∈ sendIdx s m, p < r.1.pipes.length := by
    intro p hp
    obtain ⟨pp, hx, _⟩ := mem_sendIdx.1 hp
    rw [o1', hR.rp.len]; exact lt_of_getElem? hx
  -- a pipe the model hands the message to passes every check of `onWire`
  have helig : ∀ p ∈ sendIdx s m, ∃ pp, s.pipes[p]? = some pp ∧ pp.closed = false ∧
      (sn.excl == some p) = false ∧ pp.busy = none ∧ r.1.getP p = j.getP p := by
    intro p hp
    obtain ⟨pp, hx, he⟩ := mem_sendIdx.1 hp
    unfold eligB at he
    simp only [Bool.and_eq_true, Bool.not_eq_true'] at he
    obtain ⟨⟨h1, h2⟩, h3⟩ := he
    have hpr := hR.rp.pipes p pp hx
    have hb : pp.busy = none := by simpa using h3
    have hexc : (sn.excl == some p) = false := by rw [hexcl p pp hx h1]; exact h2
    refine ⟨pp, hx, h1, hexc, hb, ?_⟩
    rw [o2' p (by rw [hR.rp.len]; exact lt_of_getElem? hx)]
    have hinf : (j.getP p).inflight = false := by rw [BusJ.getP, hpr.inflight, hb]; rfl
    simp [offerJ, hinf]
  have hw : ∀ p ∈ sendIdx s m, WireOK r.1 p (sendMsg s m).m s.nsend := by
    intro p hp
    obtain ⟨pp, hx, hcl, hexc, hb, hget⟩ := helig p hp
    have hpr := hR.rp.pipes p pp hx
    refine ⟨sn, ?_, by rw [hm2], by rw [hm1, hlen], by simpa using hexc, ?_, ?_, ?_⟩
    · rw [hsends, List.find?_append]
      have hnone : j.sends.find? (fun x => x.m.body == (sendMsg s m).m.body) = none := by
        rw [List.find?_eq_none]
        intro x hx' hb'
        exact hfresh (List.mem_map.2 ⟨x, hx', by simpa [hbody] using hb'⟩)
      rw [hnone]
      simp [hm2]
    · rw [hget, BusJ.getP, hpr.wired]
      intro x hx'
      obtain ⟨g, hg, rfl⟩ := List.mem_map.1 hx'
      exact (hI.send p pp hx).bound g (List.mem_append_left _ hg)
    · rw [hget, BusJ.getP, hpr.conn, hcl]; rfl
    · rw [hget, BusJ.getP, hpr.inflight, hb]; rfl
  obtain ⟨u1, u2, u3⟩ := updL_spec (wireJ s.nsend) (sendIdx s m) r.1 hLn hLr
  rw [onSend_outs, sendWire_eq]
  refine finish (j' := updL (wireJ s.nsend) (sendIdx s m) r.1) hR.err ?_ (hev _) ?_ ?_ ?_ hI'
  · simp [notExecuted]
  · rw [List.foldl_append, hexp, fold_psend (some a) _ _ _ _ hLn hLr hw]
    simp only [List.foldl_cons, List.foldl_nil, onOut_sent]
  · simp [busTail, hasDone]
  · have o3' : r.1 = { j with sends := j.sends ++ [sn], pipes := r.1.pipes } := o3
    have u3' : updL (wireJ s.nsend) (sendIdx s m) r.1 =
        { j with sends := j.sends ++ [sn], pipes := (updL (wireJ s.nsend) (sendIdx s m) r.1).pipes } :=
      u3.trans (congrArg (fun y : BusJ => { y with pipes := (updL (wireJ s.nsend) (sendIdx s m) r.1).pipes }) o3')
    rw [u3']
    have hrs : RS (s.nsend + 1) (j.sends ++ [sn]) := by
      refine ⟨by simp [hlen], ?_, ?_⟩
      · intro n x hn
        by_cases hl : n < j.sends.length
        · rw [List.getElem?_append_left hl] at hn; exact hR.rs.idx n x hn
        · have := lt_of_getElem? hn
          simp at this
          have hnl : n = j.sends.length := by omega
          subst hnl
          simp at hn; subst hn; exact hm1
      · rw [List.map_append, List.nodup_append]
        refine ⟨hR.rs.dist, by simp, ?_⟩
        intro x hx' y hy
        simp at hy; subst hy
        intro hxy; subst hxy
        rw [hm2] at hx'
        exact hfresh hx'
    refine ⟨hR.err, hR.closed, hR.raw, hR.sendBuf, hR.rcap, ⟨?_, ?_, ?_⟩, hrs, hR.rq, un_of_open' ho⟩
    · show (updL (wireJ s.nsend) (sendIdx s m) r.1).pipes.length = _
      rw [u1, o1', hR.rp.len]; simp [onSend]
    · intro i pp' hi
      rw [onSend_pipes, List.getElem?_mapIdx] at hi
      cases hx : s.pipes[i]? with
      | none => simp [hx] at hi
      | some pp =>
        simp only [hx, Option.map_some, Option.some.injEq] at hi
        have hil : i < j.pipes.length := by rw [hR.rp.len]; exact lt_of_getElem? hx
        have hg := u2 i
        rw [o2' i hil] at hg
        simp only [BusJ.getP] at hg
        show PR (j.sends ++ [sn]) i pp' (List.getD _ i {})
        rw [hg]
        have hpr := (hR.rp.pipes i pp hx).mono [sn]
        have hpi := hI.send i pp hx
        subst hi
        cases hcl : pp.closed with
        | true =>
          have hni : i ∉ sendIdx s m := by
            intro hm; obtain ⟨pp2, hx2, hc2, _⟩ := helig i hm
            rw [hx] at hx2; cases hx2; simp [hcl] at hc2
          have hc : (j.pipes.getD i {}).conn = false := by rw [hpr.conn, hcl]; rfl
          rw [offer_detached hcl]
          simp only [hni, if_false, offerJ, hc, Bool.not_false, Bool.true_or, if_true]
          exact hpr
        | false =>
          have hc : (j.pipes.getD i {}).conn = true := by rw [hpr.conn, hcl]; rfl
          cases he : (s.raw && pid i == (sendMsg s m).excl) with
          | true =>
            have hexc : (sn.excl == some i) = true := by rw [hexcl i pp hx hcl]; exact he
            have hni : i ∉ sendIdx s m := by
              intro hm; obtain ⟨pp2, hx2, _, hc2, _⟩ := helig i hm
              rw [hexc] at hc2; cases hc2
            rw [offer_origin he]
            simp only [hni, if_false, offerJ, hc, hexc, Bool.or_true, if_true]
            exact hpr
          | false =>
            have hexc : (sn.excl == some i) = false := by rw [hexcl i pp hx hcl]; exact he
            cases hb : pp.busy.isNone with
            | true =>
              have hbn : pp.busy = none := by simpa using hb
              have hin : i ∈ sendIdx s m := mem_sendIdx.2 ⟨pp, hx, by simp [eligB, hcl, he, hb]⟩
              have hinf : (j.pipes.getD i {}).inflight = false := by rw [hpr.inflight, hbn]; rfl
              rw [offer_direct hcl he hbn]
              simp only [hin, if_true, offerJ, hc, hexc, hinf, Bool.not_true, Bool.or_false, Bool.false_eq_true,
                if_false, Bool.not_false, wireJ]
              refine ⟨by simp [hcl], rfl, hpr.q, hpr.cap, hpr.armed, ?_, hpr.id, hpr.sqok⟩
              show (j.pipes.getD i {}).wired ++ [s.nsend] = _
              rw [hpr.wired, List.map_append]; rfl
            | false =>
              have hbs : pp.busy.isSome = true := by
                cases h : pp.busy with
                | none => rw [h] at hb; simp at hb
                | some x => rfl
              have hni : i ∉ sendIdx s m := by
                intro hm; obtain ⟨pp2, hx2, _, _, hc2, _⟩ := helig i hm
                rw [hx] at hx2; cases hx2; rw [hc2] at hbs; cases hbs
              have hinf : (j.pipes.getD i {}).inflight = true := by rw [hpr.inflight, hbs]
              have hql : (j.pipes.getD i {}).q.length = pp.sq.length := by rw [hpr.q]; simp
              by_cases hq : pp.sq.length < pp.sqCap
              · rw [offer_queued hcl he hb hq]
                have hq' : (j.pipes.getD i {}).q.length < (j.pipes.getD i {}).cap := by rw [hql, hpr.cap]; exact hq
                simp only [hni, if_false, offerJ, hc, hexc, hinf, Bool.not_true, Bool.or_false, Bool.false_eq_true,
                  hq', if_true]
                refine ⟨by simp [hcl], by simp [hbs], ?_, hpr.cap, hpr.armed, hpr.wired, hpr.id, ?_⟩
                · show (j.pipes.getD i {}).q ++ [sn.idx] = _
                  rw [hpr.q, hm1, hlen, List.map_append]; rfl
                · intro gm hg
                  rcases List.mem_append.1 hg with hg | hg
                  · exact hpr.sqok gm hg
                  · simp at hg; subst hg
                    refine ⟨sn, ?_, hm2, by simpa using hexc⟩
                    rw [hgid, ← hlen]; simp
              · rw [offer_full hcl he hb hq]
                have hq' : ¬ (j.pipes.getD i {}).q.length < (j.pipes.getD i {}).cap := by rw [hql, hpr.cap]; exact hq
                simp only [hni, if_false, offerJ, hc, hexc, hinf, Bool.not_true, Bool.or_false, Bool.false_eq_true,
                  hq']
                exact ⟨hpr.conn, hpr.inflight, hpr.q, hpr.cap, hpr.armed, hpr.wired, hpr.id, hpr.sqok⟩
    · intro i hi
      have hil : i < j.pipes.length := hR.rp.known_lt hi
      have hg := u2 i
      rw [o2' i hil] at hg
      simp only [BusJ.getP] at hg
      show PipeJ.id (List.getD _ i {}) = _
      rw [hg]
      have hk := hR.rp.known i hi
      have hoj : (offerJ sn i (j.pipes.getD i {})).id = (j.pipes.getD i {}).id := by
        unfold offerJ; split
        · rfl
        · split
          · rfl
          · split <;> rfl
      by_cases hm : i ∈ sendIdx s m
      · simp only [hm, if_true, wireJ]; rw [hoj]; exact hk
      · simp only [hm, if_false]; rw [hoj]; exact hk

/-! ### hypotheses on one event -/

structure EvOK (k : List Nat) (s : State) (j : BusJ) (ev : Ev) : Prop where
  /-- `abort aio 0` completes a parked receive "successfully" without a message (harness-only misuse) -/
  noabort : ∀ a, ev ≠ .abort a 0
  /-- message identity: bodies of sends are pairwise distinct -/
  fresh : ∀ c a m mode, ev = .send c a m mode → m.body ∉ j.sends.map (·.m.body)
  /-- a raw header that names an attached pipe names one whose id the judge has been told -/
  origin : ∀ c a m mode, ev = .send c a m mode → s.raw = true → m.hdr.length ≥ 4 →
    ∀ i pp, s.pipes[i]? = some pp → pp.closed = false → beDecode (m.hdr.take 4) = pid i → i ∈ k


theorem stepOpen_R {k : List Nat} {s : State} {j : BusJ} (ev : Ev) (hI : Inv s) (hR : R k s j)
    (hok : EvOK k s j ev) (ho : s.opened = true) :
    R k (stepOpen s ev).1 (busStep j ev (stepOpen s ev).2) := by
  have hskip : ∀ (t : String) (e : Ev), R k s (busStep j e [.other t]) := by
    intro t e; rw [busStep_skip _ _ _ (by simp [notExecuted])]; exact hR
  unfold stepOpen
  split
  · exact hskip _ _
  · exact pipeAdd_R hI hR ho _
  · exact pipeDrop_R hI hR ho _
  · exact sendDone_R hI hR ho _ _
  · exact recvDone_R hI hR ho _ _
  · rename_i c a m mode
    by_cases hf : (s.rwait.any (·.aio == a)) = true
    · rw [if_pos hf]; exact hskip _ _
    · rw [if_neg hf]
      exact send_R hI hR ho c a m mode (hok.fresh c a m mode rfl) (hok.origin c a m mode rfl)
  · rename_i c a mode
    by_cases hf : (s.rwait.any (·.aio == a)) = true
    · rw [if_pos hf]; exact hskip _ _
    · rw [if_neg hf]; exact recv_R hI hR ho c a mode hf
  · exact cancel_R hI hR ho _ _ Err.ecanceled (by decide) (fun _ => rfl) (fun _ _ _ => rfl)
  · rename_i a rv
    have hrv : rv ≠ 0 := fun h => hok.noabort a (by rw [h])
    exact cancel_R hI hR ho _ _ rv hrv (fun _ => rfl) (fun _ _ _ => rfl)
  · exact advance_R hI hR ho _
  · exact step_plain hR hI (by simp [notExecuted]) rfl rfl rfl
  · exact step_plain hR hI (by simp [notExecuted]) rfl rfl rfl
  · exact setSendBuf_R hI hR ho _
  · exact setRecvBuf_R hI hR ho _
  · exact hskip _ _
  · exact step_plain hR hI (by simp [notExecuted]) rfl rfl rfl
  · exact step_plain hR hI (by simp [notExecuted]) rfl rfl rfl
  · exact hskip _ _
  · exact poll_R hI hR
  · exact hskip _ _
  · exact hskip _ _
  · exact close_R hI hR ho

/-! ### one step from any state -/

theorem step_R {k : List Nat} {s : State} {j : BusJ} (ev : Ev) (hI : Inv s) (hR : R k s j)
    (hok : EvOK k s j ev) : R k (step s ev).1 (busStep j ev (step s ev).2) := by
  have hI' := inv_step s ev hI
  have hnosock : R k s (busStep j ev [.other "nosock"]) := by
    rw [busStep_skip _ _ _ (by simp [notExecuted])]; exact hR
  have hadv : ∀ ms, Inv { s with now := s.now + ms } →
      R k { s with now := s.now + ms } (busStep j (.advance ms) []) := by
    intro ms hi
    exact finish (j1 := j) (exp := []) (sa := none) hR.err (by simp [notExecuted]) rfl rfl rfl
      (R_frame hR rfl rfl rfl rfl rfl rfl rfl rfl rfl rfl) hi
  unfold step at hI' ⊢
  by_cases ho : s.opened = true
  · have h1 : ¬ ((!s.opened) = true) := by simp [ho]
    rw [if_neg h1] at hI' ⊢
    by_cases hc : s.closed = true
    · rw [if_pos hc] at hI' ⊢
      cases ev with
      | advance ms => exact hadv ms hI'
      | _ => exact hnosock
    · rw [if_neg hc]; exact stepOpen_R ev hI hR hok ho
  · have ho' : s.opened = false := by simpa using ho
    have h1 : (!s.opened) = true := by simp [ho']
    rw [if_pos h1] at hI' ⊢
    obtain ⟨u1, u2, u3, u4, u5, u6, u7⟩ := hR.un ho'
    cases ev with
    | advance ms => exact hadv ms hI'
    | openSock pr raw =>
      refine finish (j' := { j with opened := true, raw := raw, sendBuf := Nng.Generated.busSendBufInit, rcap := Nng.Generated.busRecvBufInit })
        (exp := []) (sa := none) hR.err (by simp [notExecuted]) (by simp [busEv]) rfl rfl ?_ hI'
      refine ⟨hR.err, ?_, rfl, rfl, rfl, ⟨?_, ?_, hR.rp.known⟩, ⟨?_, hR.rs.idx, hR.rs.dist⟩, ⟨?_, ?_, ?_, by simp⟩,
        fun h => by simp at h⟩
      · show j.closed = false
        rw [hR.closed, u6]
      · show j.pipes.length = 0
        rw [hR.rp.len, u1]; rfl
      · intro i pp hi; simp at hi
      · show j.sends.length = 0
        rw [hR.rs.len, u4]
      · show j.narr = 0
        rw [hR.rq.narr, u5]
      · show j.held = []
        rw [hR.rq.held, u2]; rfl
      · show j.waiting = []
        rw [hR.rq.waiting, u3]; rfl
    | _ => exact hnosock

/-! ### the `pipe_id` probe -/

theorem learn_R {k : List Nat} {s : State} {j : BusJ} (hR : R k s j) (p : Nat) :
    R (if pipeIdOf s p = 0 then k else p :: k) s (learnId j p (pipeIdOf s p)) := by
  have hcases : pipeIdOf s p = 0 ∨ (pipeIdOf s p = pid p ∧ ∃ pp, s.pipes[p]? = some pp) := by
    unfold pipeIdOf
    cases hx : s.pipes[p]? with
    | none => left; rfl
    | some pp =>
      by_cases hc : (pp.closed || s.closed || !s.opened) = true
      · left; simp only [hc, if_true]
      · right; simp only [hc]; exact ⟨rfl, pp, rfl⟩
  rcases hcases with h0 | ⟨h1, pp, hx⟩
  · rw [h0]; simp only [if_true, learnId, beq_self_eq_true]; exact hR
  · rw [h1, if_neg (pid_ne_zero p)]
    have hpl : p < j.pipes.length := by rw [hR.rp.len]; exact lt_of_getElem? hx
    have hne : (pid p == 0) = false := by simpa using pid_ne_zero p
    unfold learnId
    simp only [hne, Bool.false_eq_true, if_false, hpl, if_true]
    obtain ⟨a, b, c, d, e, f, g, q, u⟩ := hR
    refine ⟨a, b, c, d, e, ⟨by simp [BusJ.setP, f.len], ?_, ?_⟩, g, q, u⟩
    · intro i pp' hi
      show PR j.sends i pp' ((j.setP p _).getP i)
      by_cases hpi : p = i
      · subst hpi
        rw [getP_setP_self _ hpl]
        have h0 := f.pipes p pp' hi
        exact ⟨h0.conn, h0.inflight, h0.q, h0.cap, h0.armed, h0.wired, Or.inr rfl, h0.sqok⟩
      · rw [getP_setP_ne _ hpi]; exact f.pipes i pp' hi
    · intro i hi
      show PipeJ.id ((j.setP p _).getP i) = _
      by_cases hpi : p = i
      · subst hpi
        rw [getP_setP_self _ hpl]
      · rw [getP_setP_ne _ hpi]
        rcases List.mem_cons.1 hi with h | h
        · exact absurd h.symm hpi
        · exact f.known i h

/-! ### traces with `pipe_id` probes (what Driver/Bus.lean feeds the judge) -/

/-- one harness line: an event, or the `pipe_id <p>` probe -/
inductive Item
  | ev (e : Ev)
  | probe (p : Nat)

/-- one line of the judged trace: an event with its outputs, or `pipe_id p => rv 0 id` -/
inductive TItem
  | step (e : Ev) (outs : List Out)
  | probe (p id : Nat)

/-- the judge component of Driver/Bus.lean on one line -/
def judgeItem (j : BusJ) : TItem → BusJ
  | .step e outs => busStep j e outs
  | .probe p id => learnId j p id

/-- the judge over a trace with probes (`busJudge` when there are none) -/
def busJudgeP (tr : List TItem) : Option String := (tr.foldl judgeItem ({} : BusJ)).err

/-- the trace of the model component of Driver/Bus.lean (a probe answers `pipeIdOf`) -/
def traceP (s : State) : List Item → List TItem
  | [] => []
  | .ev e :: r => .step e (step s e).2 :: traceP (step s e).1 r
  | .probe p :: r => .probe p (pipeIdOf s p) :: traceP s r

def evBodies : Ev → List Bytes
  | .send _ _ m _ => [m.body]
  | _ => []

def itemBodies : Item → List Bytes
  | .ev e => evBodies e
  | .probe _ => []

def isAbort0 : Ev → Bool
  | .abort _ 0 => true
  | _ => false

def itemAbort0 : Item → Bool
  | .ev e => isAbort0 e
  | .probe _ => false

/-- a raw send whose header names an attached pipe names one whose id was probed while it
    was attached (`k`: the pipes probed so far) -/
def originKnown (k : List Nat) (s : State) : Ev → Prop
  | .send _ _ m _ => s.raw = true → m.hdr.length ≥ 4 → ∀ i pp, s.pipes[i]? = some pp → pp.closed = false →
      beDecode (m.hdr.take 4) = pid i → i ∈ k
  | _ => True

def OriginsKnown : List Nat → State → List Item → Prop
  | _, _, [] => True
  | k, s, .ev e :: r => originKnown k s e ∧ OriginsKnown k (step s e).1 r
  | k, s, .probe p :: r => OriginsKnown (if pipeIdOf s p = 0 then k else p :: k) s r

@[simp] theorem fail_sends (j : BusJ) (msg : String) : (j.fail msg).sends = j.sends := by
  unfold BusJ.fail; split <;> rfl

@[simp] theorem setP_sends (j : BusJ) (p : Nat) (x : PipeJ) : (j.setP p x).sends = j.sends := rfl

theorem onWire_sends (exp : List (Nat × Nat)) (j : BusJ) (p : Nat) (m : WMsg) :
    (onWire exp j p m).1.sends = j.sends := by
  unfold onWire
  repeat' split
  all_goals simp [apply_ite Prod.fst, apply_ite BusJ.sends]

theorem ite_sends {c : Prop} [Decidable c] {a b : BusJ} {l : List Sent} (ha : a.sends = l) (hb : b.sends = l) :
    (if c then a else b).sends = l := by split <;> assumption

theorem onDelivered_sends (j : BusJ) (a : Nat) (m : WMsg) : (onDelivered j a m).sends = j.sends := by
  unfold onDelivered
  simp only []
  cases List.find? (fun x => x.body == m.body) (List.filter (fun x => x != a) j.waiting, j.held).2 with
  | none => simp
  | some h =>
    simp only []
    cases List.find? (fun x => x.pipe == h.pipe) j.held with
    | none => rfl
    | some h0 =>
      simp only []
      refine ite_sends (by simp) (ite_sends ?_ (ite_sends rfl (by simp)))
      split
      · exact ite_sends rfl (by simp)
      · exact ite_sends rfl (by simp)

theorem onOut_sends (sa : Option Nat) (acc : BusJ × List (Nat × Nat)) (o : Out) :
    (onOut sa acc o).1.sends = acc.1.sends := by
  obtain ⟨j, exp⟩ := acc
  unfold onOut
  cases o with
  | psend p m => exact onWire_sends exp j p m
  | done a rv msg mb =>
    simp only []
    repeat' split
    all_goals simp [onDelivered_sends]
  | parm p => simp only []; split <;> simp
  | _ => simp

theorem fold_sends (sa : Option Nat) : ∀ (outs : List Out) (acc : BusJ × List (Nat × Nat)),
    (outs.foldl (onOut sa) acc).1.sends = acc.1.sends
  | [], _ => rfl
  | o :: outs, acc => by rw [List.foldl_cons, fold_sends sa outs, onOut_sends]

theorem offerF_sends (sn : Sent) (acc : BusJ × List (Nat × Nat)) (p : Nat) :
    (offerF sn acc p).1.sends = acc.1.sends := by
  unfold offerF
  simp only []
  repeat' split
  all_goals simp

theorem offerAll_sends (j : BusJ) (sn : Sent) : (offerAll j sn).1.sends = j.sends := by
  rw [offerAll_eq]
  generalize List.range j.pipes.length = l
  have : ∀ (l : List Nat) (acc : BusJ × List (Nat × Nat)), (l.foldl (offerF sn) acc).1.sends = acc.1.sends := by
    intro l
    induction l with
    | nil => intro acc; rfl
    | cons p l ih => intro acc; rw [List.foldl_cons, ih, offerF_sends]
  exact this l _

theorem expectWire_body (j : BusJ) (n : Nat) (m : WMsg) : (expectWire j n m).m.body = m.body := by
  unfold expectWire
  repeat' split
  all_goals rfl

theorem busEv_sends (j : BusJ) (ev : Ev) (outs : List Out) :
    (busEv j ev outs).1.sends.map (·.m.body) = j.sends.map (·.m.body) ∨
    (busEv j ev outs).1.sends.map (·.m.body) = j.sends.map (·.m.body) ++ evBodies ev := by
  unfold busEv
  simp only []
  split
  case h_3 c a m mode =>
    right
    show (offerAll _ _).1.sends.map _ = _
    rw [offerAll_sends]
    simp [evBodies, expectWire_body]
  all_goals left
  all_goals repeat' split
  all_goals simp

theorem busStep_sends (j : BusJ) (ev : Ev) (outs : List Out) :
    (busStep j ev outs).sends.map (·.m.body) = j.sends.map (·.m.body) ∨
    (busStep j ev outs).sends.map (·.m.body) = j.sends.map (·.m.body) ++ evBodies ev := by
  by_cases he : j.err = none
  · by_cases hn : notExecuted outs = true
    · left; rw [busStep_skip _ _ _ hn]
    · have hn' : notExecuted outs = false := by simpa using hn
      rw [busStep_eq j ev outs he hn']
      have h1 : ∀ x : BusJ, (busFinal x).sends = x.sends := by
        intro x; unfold busFinal; split <;> simp
      have h2 : ∀ (hb : Bool) (x : BusJ), (busTail ev outs hb x).sends = x.sends := by
        intro hb x; unfold busTail
        repeat' split
        all_goals simp
      have h3 : ∀ x : BusJ × List (Nat × Nat), (busExp x).sends = x.1.sends := by
        intro x; unfold busExp; split <;> simp
      rw [h1, h2, h3, fold_sends]
      exact busEv_sends j ev outs
  · left
    unfold busStep
    have : j.err.isSome = true := by
      cases h : j.err with
      | none => exact absurd h he
      | some _ => rfl
    rw [if_pos this]

theorem judge_from : ∀ (items : List Item) (k : List Nat) (s : State) (j : BusJ), Inv s → R k s j →
    (j.sends.map (·.m.body) ++ items.flatMap itemBodies).Nodup → (∀ it ∈ items, itemAbort0 it = false) →
    OriginsKnown k s items → ((traceP s items).foldl judgeItem j).err = none
  | [], _, _, _, _, hR, _, _, _ => hR.err
  | .probe p :: r, k, s, j, hI, hR, hd, ha, hk => by
    simp only [traceP, List.foldl_cons, judgeItem]
    refine judge_from r _ s _ hI (learn_R hR p) ?_ (fun it hit => ha it (by simp [hit])) hk
    have : (learnId j p (pipeIdOf s p)).sends = j.sends := by
      unfold learnId BusJ.setP; split
      · rfl
      · split <;> rfl
    rw [this]
    simpa [List.flatMap_cons, itemBodies] using hd
  | .ev e :: r, k, s, j, hI, hR, hd, ha, hk => by
    simp only [traceP, List.foldl_cons, judgeItem]
    simp only [List.flatMap_cons, itemBodies] at hd
    have hd' := List.nodup_append.1 hd
    have hok : EvOK k s j e := by
      refine ⟨?_, ?_, ?_⟩
      · intro a he
        have := ha (.ev e) (by simp)
        rw [he] at this; simp [itemAbort0, isAbort0] at this
      · intro c a m mode he hm
        subst he
        exact hd'.2.2 _ hm _ (by simp [evBodies]) rfl
      · intro c a m mode he
        subst he
        exact hk.1
    refine judge_from r k _ _ (inv_step s e hI) (step_R e hI hR hok) ?_ (fun it hit => ha it (by simp [hit])) hk.2
    rcases busStep_sends j e (step s e).2 with h | h
    · rw [h]
      have hsub : (j.sends.map (·.m.body) ++ r.flatMap itemBodies).Sublist
          (j.sends.map (·.m.body) ++ (evBodies e ++ r.flatMap itemBodies)) :=
        List.Sublist.append_left (List.sublist_append_right _ _) _
      exact hd.sublist hsub
    · rw [h, List.append_assoc]; exact hd

/-! ### the judge theorems -/

/-- message identity: the bodies of the sends of a case are pairwise distinct (the check
    generates them so; the judge identifies a wire message with a send by its body) -/
def DistinctBodiesI (items : List Item) : Prop := (items.flatMap itemBodies).Nodup

/-- no `abort aio 0`: the harness-only misuse that completes a parked receive "successfully"
    without a message -/
def NoAbort0I (items : List Item) : Prop := ∀ it ∈ items, itemAbort0 it = false

/-- JUDGE with probes: the judge of Driver/Bus.lean (trace predicate + `pipe_id` lines)
    accepts the trace of the model component on every line sequence -/
theorem bus_judge_probed_ok (items : List Item) (hd : DistinctBodiesI items) (hn : NoAbort0I items)
    (hk : OriginsKnown [] {} items) : busJudgeP (traceP {} items) = none :=
  judge_from items [] {} {} inv_init R_init (by simpa [DistinctBodiesI] using hd) hn hk

def sendBodies (evs : List Ev) : List Bytes := evs.flatMap evBodies
def DistinctBodies (evs : List Ev) : Prop := (sendBodies evs).Nodup
def NoAbort0 (evs : List Ev) : Prop := ∀ ev ∈ evs, isAbort0 ev = false

/-- without probes the judge knows no pipe id: no raw send may name an attached pipe -/
def noLiveOrigin (s : State) : Ev → Prop
  | .send _ _ m _ => s.raw = true → m.hdr.length ≥ 4 → ∀ i pp, s.pipes[i]? = some pp → pp.closed = false →
      beDecode (m.hdr.take 4) ≠ pid i
  | _ => True

def NoLiveOrigin : State → List Ev → Prop
  | _, [] => True
  | s, e :: r => noLiveOrigin s e ∧ NoLiveOrigin (step s e).1 r

theorem traceP_ev : ∀ (evs : List Ev) (s : State),
    traceP s (evs.map Item.ev) = (traceOf s evs).map (fun x => TItem.step x.1 x.2)
  | [], _ => rfl
  | e :: es, s => by simp only [List.map_cons, traceP, traceOf, traceP_ev es]

theorem busJudgeP_plain (tr : List (Ev × List Out)) :
    busJudgeP (tr.map (fun x => TItem.step x.1 x.2)) = busJudge tr := by
  unfold busJudgeP busJudge
  rw [List.foldl_map]
  rfl

theorem originsKnown_of_noLive : ∀ (evs : List Ev) (s : State) (k : List Nat), NoLiveOrigin s evs →
    OriginsKnown k s (evs.map Item.ev)
  | [], _, _, _ => trivial
  | e :: es, s, k, h => by
    refine ⟨?_, originsKnown_of_noLive es _ k h.2⟩
    have h1 := h.1
    cases e with
    | send c a m mode =>
      intro hr hl i pp hx hc hp
      exact absurd hp (h1 hr hl i pp hx hc)
    | _ => trivial

/-- JUDGE (BUS): the executable C09 trace predicate accepts the trace of the model on every
    event sequence -/
theorem bus_judge_ok (evs : List Ev) (hd : DistinctBodies evs) (hn : NoAbort0 evs)
    (ho : NoLiveOrigin {} evs) : busJudge (traceOf {} evs) = none := by
  rw [← busJudgeP_plain, ← traceP_ev]
  refine bus_judge_probed_ok _ ?_ ?_ (originsKnown_of_noLive evs {} [] ho)
  · unfold DistinctBodiesI
    have : (evs.map Item.ev).flatMap itemBodies = sendBodies evs := by
      unfold sendBodies; rw [List.flatMap_map]; rfl
    rw [this]; exact hd
  · intro it hit
    obtain ⟨e, he, rfl⟩ := List.mem_map.1 hit
    exact hn e he

theorem traceOf_eq_zip : ∀ (evs : List Ev) (s : State), traceOf s evs = evs.zip (run s evs).2
  | [], _ => rfl
  | e :: es, s => by simp only [traceOf, run, List.zip_cons_cons, traceOf_eq_zip es]

end Nng.Bus
