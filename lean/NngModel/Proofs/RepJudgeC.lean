/-
  Judge simulation for REP, part C: a pipe goes away (rep0_pipe_close): pipe_drop, failed transport
  completions, a malformed request.
-/
import NngModel.Proofs.RepJudgeG
namespace Nng.RepProofs
open Nng Nng.Proto Nng.Rep Nng.RepSpec

theorem dropHeld_recvpipes_eq (s : State) (p : Nat) : (dropHeld s p).recvpipes = s.recvpipes.filter (·.pipe != p) := by
  unfold dropHeld
  split
  · dsimp only; split <;> rfl
  · rename_i h
    symm; rw [List.filter_eq_self]
    intro r hr
    have : ¬ (s.recvpipes.any (·.pipe == p) = true) := h
    rw [List.any_eq_true] at this
    cases hrp : (r.pipe != p) with
    | true => rfl
    | false => exact absurd ⟨r, hr, by simpa using hrp⟩ this

theorem closePipe_frameC (s : State) (p : Nat) (hl : livePipe s p = true) :
    (closePipe s p).1.recvpipes = s.recvpipes.filter (·.pipe != p) ∧ (closePipe s p).1.ttl = s.ttl ∧
    (closePipe s p).2 = (s.pipe p).sendq.map (fun e => Out.done e.aio 0 none false) ++ [Out.pclosed p] := by
  unfold closePipe
  rw [hl]
  rw [if_neg (by simp)]
  dsimp only
  have hf := clearSaio_frame (s.pipe p).sendq (dropHeld s p)
  have hd := dropHeld_frame s p
  have hr := raiseIfSock_frame (addDiscarded (clearSaio (dropHeld s p) (s.pipe p).sendq) ((s.pipe p).sendq.map (wireOf p))) p
  refine ⟨?_, ?_, rfl⟩
  · rw [setPipe_recvpipes, hr.2.2.2.2.2.2.1]; show (clearSaio _ _).recvpipes = _; rw [hf.recvpipes]
    exact dropHeld_recvpipes_eq s p
  · rw [setPipe_ttl, hr.2.2.2.2.2.2.2.2.1]; show (clearSaio _ _).ttl = _; rw [hf.ttl, hd.2.2.2.2.2.2.2.1]

/-- the completions (result 0) of the contexts that were waiting for a closing pipe -/
def closeDones (l : List PSend) : List Out := l.map (fun e => Out.done e.aio 0 none false)

theorem closeDones_fold (p : Nat) : ∀ (l : List PSend) (j : RepJ),
    (l.map (·.aio)).Nodup →
    (∀ e ∈ l, ∀ r ∈ j.waiting, r.aio ≠ e.aio) →
    (∀ e ∈ l, ∃ x ∈ j.sends, x.aio = e.aio) →
    (∀ e ∈ l, ∀ x ∈ j.sends, x.aio = e.aio → x.ctxOpen = true ∧ x.body = e.body ∧
        ∃ u, x.snap = some u ∧ u.pipe = p ∧ u.hdr = e.hdr) →
    (closeDones l).foldl doneStep j =
      { j with sends := j.sends.filter (fun x => !(l.map (·.aio)).contains x.aio),
               acc := j.acc ++ l.map (fun e => ⟨p, e.hdr, e.body⟩) } := by
  intro l
  induction l with
  | nil =>
    intro j _ _ _ _
    have : j.sends.filter (fun _ => true) = j.sends := List.filter_eq_self.2 (fun _ _ => rfl)
    simp [closeDones, this]
  | cons e l ih =>
    intro j hnd hw hs hp
    rw [List.map_cons, List.nodup_cons] at hnd
    obtain ⟨sd, hf, hsd, hsda⟩ := find_some_mem (l := j.sends) (q := (·.aio == e.aio)) (by
      obtain ⟨x, hx, hxa⟩ := hs e (by simp); exact ⟨x, hx, by simpa using hxa⟩)
    have hsda' : sd.aio = e.aio := by simpa using hsda
    obtain ⟨ho, hb, u, hsn, hup, huh⟩ := hp e (by simp) sd hsd hsda'
    have hwf : j.waiting.find? (·.aio == e.aio) = none := by
      rw [List.find?_eq_none]; intro r hr; simpa using hw e (by simp) r hr
    have h1 : doneStep j (Out.done e.aio 0 none false) =
        { j with sends := j.sends.filter (·.aio != e.aio), acc := j.acc ++ [⟨p, e.hdr, e.body⟩] } := by
      show repDone j e.aio 0 none false = _
      rw [repDone_send_ok hwf hf ho hsn, hup, huh, hb]
    show (closeDones l).foldl doneStep (doneStep j (Out.done e.aio 0 none false)) = _
    rw [h1, ih _ hnd.2]
    · simp only [List.filter_filter, List.map_cons, List.append_assoc, List.singleton_append]
      congr 1
      apply List.filter_congr
      intro x _
      simp only [List.contains_cons]
      cases h1 : (x.aio == e.aio) <;> simp [h1, bne]
    · intro e' he' r hr; exact hw e' (by simp [he']) r hr
    · intro e' he'
      obtain ⟨x, hx, hxa⟩ := hs e' (by simp [he'])
      refine ⟨x, List.mem_filter.2 ⟨hx, ?_⟩, hxa⟩
      have : e'.aio ≠ e.aio := by
        intro h; exact hnd.1 (h ▸ List.mem_map.2 ⟨e', he', rfl⟩)
      simpa [hxa] using this
    · intro e' he' x hx hxa
      exact hp e' (by simp [he']) x (List.mem_filter.1 hx).1 hxa

theorem nodup_map_of_inj {α β γ : Type} (f : α → β) (g : α → γ) : ∀ (l : List α), (l.map f).Nodup →
    (∀ a ∈ l, ∀ b ∈ l, g a = g b → f a = f b) → (l.map g).Nodup := by
  intro l
  induction l with
  | nil => intro _ _; exact List.nodup_nil
  | cons x l ih =>
    intro hnd hinj
    rw [List.map_cons, List.nodup_cons] at hnd ⊢
    refine ⟨?_, ih hnd.2 (fun a ha b hb => hinj a (by simp [ha]) b (by simp [hb]))⟩
    intro hmem
    obtain ⟨y, hy, hyx⟩ := List.mem_map.1 hmem
    exact hnd.1 (List.mem_map.2 ⟨y, hy, hinj y (by simp [hy]) x (by simp) hyx⟩)

/-- the contexts waiting for a closing pipe complete with 0: the judge's books of parked operations follow -/
theorem closePipe_ops {s : State} {j : RepJ} {used : List Bytes} (hops : OpsRel s j) (h5 : Inv5 s used) (p : Nat)
    (hl : livePipe s p = true) :
    (closeDones (s.pipe p).sendq).foldl doneStep j =
      { j with sends := j.sends.filter (fun x => !((s.pipe p).sendq.map (·.aio)).contains x.aio),
               acc := j.acc ++ (s.pipe p).sendq.map (fun e => ⟨p, e.hdr, e.body⟩) } ∧
    OpsRel (closePipe s p).1
      { j with sends := j.sends.filter (fun x => !((s.pipe p).sendq.map (·.aio)).contains x.aio),
               acc := j.acc ++ (s.pipe p).sendq.map (fun e => ⟨p, e.hdr, e.body⟩) } := by
  obtain ⟨_, _, hslot, _, _, hctx, hpipe⟩ := closePipe_frame5 s p hl
  have hnd : ((s.pipe p).sendq.map (·.aio)).Nodup := by
    refine nodup_map_of_inj (fun e : PSend => e.ctx) (fun e : PSend => e.aio) _ (h5.sqnd p) ?_
    intro a ha b hb hab
    rw [(entry_unique h5 ha hb hab).2]
  refine ⟨closeDones_fold p _ j hnd ?_ ?_ ?_, ?_⟩
  · intro e he r hr
    obtain ⟨_, k, pk, hk, ha, _⟩ := hops.w1 r hr
    rw [ha]; intro h
    exact h5.rs k e.ctx pk hk (h ▸ (h5.sq p e he).2.1)
  · intro e he; exact hops.s2 p e he
  · intro e he x hx hxa
    obtain ⟨_, ho, p', e', u, he', ha', _, hb, hsn, hup, huh⟩ := hops.s1 x hx
    obtain ⟨hpp, hee⟩ := entry_unique h5 he he' (by rw [← hxa, ha'])
    subst hpp; subst hee
    exact ⟨ho, hb, u, hsn, hup, huh⟩
  · have hraio : ∀ k, ((closePipe s p).1.ctx k).raio = (s.ctx k).raio := by
      intro k; rw [hctx]; split <;> rfl
    have hres : ∀ c, resolve (closePipe s p).1 c = resolve s c := fun c => resolve_congr hslot c
    have hsq : ∀ p', p' ≠ p → ((closePipe s p).1.pipe p').sendq = (s.pipe p').sendq := by
      intro p' hp'; rw [hpipe, upd_other _ _ hp']
    have hsqp : ((closePipe s p).1.pipe p).sendq = [] := by rw [hpipe, upd_same]
    refine ⟨?_, ?_, ?_, ?_⟩
    · intro r hr
      obtain ⟨x, k, pk, hk, y, z⟩ := hops.w1 r hr
      exact ⟨x, k, pk, by rw [hraio]; exact hk, y, by rw [hres]; exact z⟩
    · intro k pk hk; rw [hraio] at hk; exact hops.w2 k pk hk
    · intro x hx
      have hm := List.mem_filter.1 hx
      obtain ⟨o1, o2, p', e', u, he', ha', r1, r2⟩ := hops.s1 x hm.1
      have hpp : p' ≠ p := by
        intro h; subst h
        have : ((s.pipe p').sendq.map (·.aio)).contains x.aio = true := by
          rw [List.contains_iff_mem, ha']; exact List.mem_map.2 ⟨e', he', rfl⟩
        rw [this] at hm; exact absurd hm.2 (by simp)
      exact ⟨o1, o2, p', e', u, by rw [hsq p' hpp]; exact he', ha', by rw [hres]; exact r1, r2⟩
    · intro p' e' he'
      have hpp : p' ≠ p := by
        intro h; subst h; rw [hsqp] at he'; cases he'
      rw [hsq p' hpp] at he'
      obtain ⟨x, hx, hxa⟩ := hops.s2 p' e' he'
      refine ⟨x, List.mem_filter.2 ⟨hx, ?_⟩, hxa⟩
      have : x.aio ∉ (s.pipe p).sendq.map (·.aio) := by
        intro h
        obtain ⟨e, he, hea⟩ := List.mem_map.1 h
        exact hpp (entry_unique h5 he he' (by rw [hea, hxa])).1.symm
      simpa using this

/-- a live pipe closes: completions of the waiting contexts, then `pclosed p`.  `A` is the judge's armed list,
    which may already have lost `p` (a failed / malformed receive) -/
theorem closePipe_R0 {s : State} {j : RepJ} {used : List Bytes} (h0 : R0 s j) (hacc : j.acc = []) (h5 : Inv5 s used) (p : Nat)
    (hl : livePipe s p = true) (A : List Nat) (hA : ∀ p', p' ≠ p → (p' ∈ A ↔ p' ∈ j.armed)) :
    R0 (closePipe s p).1 (repOut ((closeDones (s.pipe p).sendq).foldl doneStep { j with armed := A }) (.pclosed p)) ∧
    (∀ x ∈ (repOut ((closeDones (s.pipe p).sendq).foldl doneStep { j with armed := A }) (.pclosed p)).acc,
      x.pipe ∉ (repOut ((closeDones (s.pipe p).sendq).foldl doneStep { j with armed := A }) (.pclosed p)).live) := by
  obtain ⟨a, b, c1, d, e, f, g⟩ := h0
  have hopsA : OpsRel s { j with armed := A } := ⟨e.w1, e.w2, e.s1, e.s2⟩
  obtain ⟨hfold, hops'⟩ := closePipe_ops hopsA h5 p hl
  rw [hfold, repOut_pclosed]
  obtain ⟨_, hnp, hslot, hwire, _, hctx, hpipe⟩ := closePipe_frame5 s p hl
  obtain ⟨hrp, httl, _⟩ := closePipe_frameC s p hl
  have hlive : ∀ p', livePipe (closePipe s p).1 p' = (livePipe s p' && (p' != p)) := by
    intro p'; unfold livePipe; rw [hnp, hpipe, upd_apply]
    by_cases hpp : p' = p
    · subst hpp; simp
    · simp [hpp]
  refine ⟨⟨a, by rw [httl]; exact b, c1, ⟨?_, ?_, ?_, ?_⟩, ⟨hops'.w1, hops'.w2, hops'.s1, hops'.s2⟩, ?_, by rw [hwire]; exact g⟩, ?_⟩
  · intro p'; show p' ∈ j.live.filter _ ↔ _
    rw [List.mem_filter, hlive, d.live p']; simp
  · intro p'; show p' ∈ j.busy.filter _ ↔ _
    rw [List.mem_filter, hlive, d.busy p', hpipe, upd_apply]
    by_cases hpp : p' = p
    · subst hpp; simp
    · simp [hpp]
  · intro p'; show p' ∈ A.filter _ ↔ _
    rw [List.mem_filter, hlive, hpipe, upd_apply]
    by_cases hpp : p' = p
    · subst hpp; simp
    · simp only [hpp, if_false]; rw [hA p' hpp, d.armed p']; simp [hpp]
  · show j.held.filter _ = _
    rw [hrp, d.held, List.filter_map]; rfl
  · refine CurRel.congr (s := s) f ?_ ?_ hslot rfl rfl
    · intro k; rw [hctx]; split <;> rfl
    · intro k; rw [hctx]; split <;> rfl
  · intro x hx
    show x.pipe ∉ j.live.filter _
    have hx' : x ∈ j.acc ++ (s.pipe p).sendq.map (fun e => (⟨p, e.hdr, e.body⟩ : Acc)) := hx
    rw [hacc, List.nil_append] at hx'
    obtain ⟨e', _, rfl⟩ := List.mem_map.1 hx'
    simp [List.mem_filter]

theorem closeDones_isDone (l : List PSend) : ∀ o ∈ closeDones l, isDone o = true := by
  intro o ho; obtain ⟨e, _, rfl⟩ := List.mem_map.1 ho; rfl

theorem closeDones_tame (l : List PSend) : ∀ o ∈ closeDones l, isBlocked o = false ∧ isPollOut o = false ∧ isPipeOut o = false := by
  intro o ho; obtain ⟨e, _, rfl⟩ := List.mem_map.1 ho; exact ⟨rfl, rfl, rfl⟩

theorem closeOuts_R {s : State} {j0 : RepJ} {used : List Bytes} (h0 : R0 s j0) (hacc : j0.acc = []) (h5 : Inv5 s used) (p : Nat)
    (hl : livePipe s p = true) (A : List Nat) (hA : ∀ p', p' ≠ p → (p' ∈ A ↔ p' ∈ j0.armed))
    (h3' : Inv3 (closePipe s p).1) :
    R (closePipe s p).1 (repPost none ([.rv 0] ++ (closePipe s p).2)
      (procOuts ([.rv 0] ++ (closePipe s p).2) { j0 with armed := A })) := by
  obtain ⟨_, _, houts⟩ := closePipe_frameC s p hl
  rw [houts]
  have hd := closeDones_isDone (s.pipe p).sendq
  have hshape : ([Out.rv 0] ++ ((s.pipe p).sendq.map (fun e => Out.done e.aio 0 none false) ++ [Out.pclosed p])) =
      [Out.rv 0] ++ (closeDones (s.pipe p).sendq ++ [Out.pclosed p]) := rfl
  rw [hshape]
  have hf1 : (closeDones (s.pipe p).sendq).filter isDone = closeDones (s.pipe p).sendq :=
    List.filter_eq_self.2 hd
  have hf2 : (closeDones (s.pipe p).sendq).filter (fun o => !isDone o) = [] := by
    rw [List.filter_eq_nil_iff]; intro o ho; simp [hd o ho]
  have ht := closeDones_tame (s.pipe p).sendq
  have hi1 : isDone (Out.rv 0) = false := rfl
  have hi2 : isDone (Out.pclosed p) = false := rfl
  have hproc : procOuts ([Out.rv 0] ++ (closeDones (s.pipe p).sendq ++ [Out.pclosed p])) { j0 with armed := A } =
      repOut ((closeDones (s.pipe p).sendq).foldl doneStep { j0 with armed := A }) (.pclosed p) := by
    rw [procOuts_nopipe]
    · simp only [List.filter_append, hf1, hf2, List.filter_cons, List.filter_nil, hi1, hi2, Bool.not_false, if_true,
        Bool.false_eq_true, if_false, List.nil_append, List.append_nil,
        List.foldl_append, List.foldl_cons, List.foldl_nil, repOut_rv]
    · intro o ho
      rcases List.mem_append.1 ho with h | h
      · simp at h; subst h; rfl
      · rcases List.mem_append.1 h with h | h
        · exact (ht o h).2.2
        · simp at h; subst h; rfl
  rw [hproc]
  obtain ⟨hR0, haccs⟩ := closePipe_R0 h0 hacc h5 p hl A hA
  refine post_R hR0 h3' haccs (Or.inl rfl) ?_ ?_
  · rw [List.any_eq_false]; intro o ho
    simp only [Bool.not_eq_true]
    rcases List.mem_append.1 ho with h | h
    · simp at h; subst h; rfl
    · rcases List.mem_append.1 h with h | h
      · exact (ht o h).1
      · simp at h; subst h; rfl
  · intro o ho
    rcases List.mem_append.1 ho with h | h
    · simp at h; subst h; rfl
    · rcases List.mem_append.1 h with h | h
      · exact (ht o h).2.1
      · simp at h; subst h; rfl

theorem closeOuts_exec (s : State) (p : Nat) (hl : livePipe s p = true) :
    notExecuted ([.rv 0] ++ (closePipe s p).2) = false ∧ ([Out.rv 0] ++ (closePipe s p).2).contains (.rv 0) = true ∧
    hasPclosed ([.rv 0] ++ (closePipe s p).2) p = true := by
  obtain ⟨_, _, houts⟩ := closePipe_frameC s p hl
  rw [houts]
  refine ⟨?_, by simp, by simp [hasPclosed]⟩
  unfold notExecuted
  rw [List.any_eq_false]; intro o ho
  rcases List.mem_append.1 ho with h | h
  · simp at h; subst h; simp
  · rcases List.mem_append.1 h with h | h
    · obtain ⟨e, _, rfl⟩ := List.mem_map.1 h; simp
    · simp at h; subst h; simp

/-- `pipe_drop p` on a live pipe -/
theorem pipeDrop_sim {s : State} {j : RepJ} {used : List Bytes} (hR : R s j) (h5 : Inv5 s used) (p : Nat)
    (hl : livePipe s p = true) (h3' : Inv3 (closePipe s p).1) :
    R (closePipe s p).1 (repStep j (.pipeDrop p) ([.rv 0] ++ (closePipe s p).2)) := by
  rw [repStep_eq hR.r0.err (closeOuts_exec s p hl).1]
  have hpre : repPre (unfresh j) (.pipeDrop p) ([.rv 0] ++ (closePipe s p).2) = ({ unfresh j with armed := (unfresh j).armed }, none) := rfl
  rw [hpre]
  exact closeOuts_R (R0_unfresh hR.r0) hR.acc h5 p hl _ (fun _ _ => Iff.rfl) h3'

/-- `send_done p rv` with an error on a live busy pipe -/
theorem sendErr_sim {s : State} {j : RepJ} {used : List Bytes} (hR : R s j) (h5 : Inv5 s used) (p rv : Nat) (hrv : rv ≠ 0)
    (hl : livePipe s p = true) (h3' : Inv3 (closePipe s p).1) :
    R (closePipe s p).1 (repStep j (.sendDone p rv) ([.rv 0] ++ (closePipe s p).2)) := by
  rw [repStep_eq hR.r0.err (closeOuts_exec s p hl).1]
  have hpre : repPre (unfresh j) (.sendDone p rv) ([.rv 0] ++ (closePipe s p).2) = ({ unfresh j with armed := (unfresh j).armed }, none) := by
    have : (rv == 0) = false := by simpa using hrv
    simp [repPre, this]
  rw [hpre]
  exact closeOuts_R (R0_unfresh hR.r0) hR.acc h5 p hl _ (fun _ _ => Iff.rfl) h3'

/-- `recv_done p !err` on a live armed pipe -/
theorem recvErr_sim {s : State} {j : RepJ} {used : List Bytes} (hR : R s j) (h5 : Inv5 s used) (p e : Nat)
    (hl : livePipe s p = true) (h3' : Inv3 (closePipe s p).1) :
    R (closePipe s p).1 (repStep j (.recvDone p (.error e)) ([.rv 0] ++ (closePipe s p).2)) := by
  rw [repStep_eq hR.r0.err (closeOuts_exec s p hl).1]
  have hpre : repPre (unfresh j) (.recvDone p (.error e)) ([.rv 0] ++ (closePipe s p).2) =
      ({ unfresh j with armed := (unfresh j).armed.filter (· != p) }, none) := by
    simp only [repPre, (closeOuts_exec s p hl).2.1, if_true]
  rw [hpre]
  refine closeOuts_R (R0_unfresh hR.r0) hR.acc h5 p hl _ ?_ h3'
  intro p' hp'; simp [List.mem_filter, hp']

/-- `recv_done p <bytes>` with a malformed request on a live armed pipe -/
theorem recvMalformed_sim {s : State} {j : RepJ} {used : List Bytes} (hR : R s j) (h5 : Inv5 s used) (p : Nat) (b : Bytes)
    (hl : livePipe s p = true) (ha : (s.pipe p).armed = true) (hm : parseBacktrace s.ttl b = .malformed)
    (h3' : Inv3 (pipeRecv s p b).1) :
    R (pipeRecv s p b).1 (repStep j (.recvDone p (.ok b)) ([.rv 0] ++ (pipeRecv s p b).2)) := by
  have heq : pipeRecv s p b = closePipe (setPipe s p { s.pipe p with armed := false }) p := by
    unfold pipeRecv; simp only [setPipe_ttl, hm]
  rw [heq] at h3' ⊢
  generalize hs0 : setPipe s p { s.pipe p with armed := false } = s0 at h3' ⊢
  have hpipe0 : s0.pipe = upd s.pipe p { s.pipe p with armed := false } := by rw [← hs0]; rfl
  have hl0 : ∀ p', livePipe s0 p' = livePipe s p' := by
    intro p'; rw [← hs0]; unfold livePipe; rw [setPipe_npipes, setPipe_pipe, upd_apply]; split
    · rename_i h; subst h; rfl
    · rfl
  have h50 : Inv5 s0 used := by
    rw [← hs0]
    refine inv5_weaken h5 rfl rfl rfl rfl (fun _ => Or.inl rfl) (fun _ => rfl) (fun _ => rfl) ?_ ?_ ?_ h5.heldnd
    · intro p'; rw [setPipe_pipe, upd_apply]; split
      · rename_i h; subst h; rfl
      · rfl
    · intro p'; rw [setPipe_pipe, upd_apply]; split
      · rename_i h; subst h; rfl
      · rfl
    · intro r hr
      rw [setPipe_pipe, upd_apply]; split
      · rfl
      · exact h5.held r hr
  have hl0p := (hl0 p).trans hl
  have hex := closeOuts_exec s0 p hl0p
  rw [repStep_eq hR.r0.err hex.1]
  have hu := R0_unfresh hR.r0
  have hacc : (unfresh j).acc = [] := hR.acc
  generalize unfresh j = j0 at hu hacc
  have hparm : j0.armed.contains p = true := by
    simpa using (hu.pipes.armed p).2 ⟨hl, ha⟩
  have hcl : classify j0.ttl b = .malformed := by
    rw [hu.ttl, ← parse_eq_classify, hm]; rfl
  have hpre : repPre j0 (.recvDone p (.ok b)) ([.rv 0] ++ (closePipe s0 p).2) =
      ({ j0 with armed := j0.armed.filter (· != p) }, none) := by
    simp only [repPre, hex.2.1, if_true, hparm, Bool.not_true, Bool.false_eq_true, if_false, hcl, hex.2.2]
  rw [hpre]
  have h00 : R0 s0 { j0 with armed := j0.armed.filter (· != p) } := by
    obtain ⟨a, b1, c1, d, e, f, g⟩ := hu
    refine ⟨a, by rw [← hs0]; exact b1, c1, ⟨?_, ?_, ?_, ?_⟩, ?_, ?_, by rw [← hs0]; exact g⟩
    · intro p'; rw [hl0]; exact d.live p'
    · intro p'; rw [hl0, hpipe0, upd_apply]
      have := d.busy p'
      split
      · rename_i h; subst h; exact this
      · exact this
    · intro p'; show p' ∈ j0.armed.filter _ ↔ _
      rw [List.mem_filter, hl0, hpipe0, upd_apply, d.armed p']
      by_cases hpp : p' = p
      · subst hpp; simp
      · simp [hpp]
    · rw [← hs0]; exact d.held
    · refine OpsRel.congr (s := s) e (fun _ => by rw [← hs0]; rfl) ?_ (by rw [← hs0]; rfl) rfl rfl
      intro p'; rw [hpipe0, upd_apply]; split
      · rename_i h; subst h; rfl
      · rfl
    · exact CurRel.congr (s := s) f (fun _ => by rw [← hs0]; rfl) (fun _ => by rw [← hs0]; rfl) (by rw [← hs0]; rfl) rfl rfl
  have := closeOuts_R h00 hacc h50 p hl0p (j0.armed.filter (· != p)) (fun _ _ => Iff.rfl) h3'
  exact this

end Nng.RepProofs
