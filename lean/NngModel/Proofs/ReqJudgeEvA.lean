/-
  Simulation, event by event (1): the end-of-step check, events that the model refuses, poll, options,
  contexts.
-/
import NngModel.Proofs.ReqJudgeOld
import NngModel.Proofs.ReqJudgeOut
import NngModel.Proofs.ReqPoll
namespace Nng.ReqJ
open Nng Nng.Proto Nng.Req Nng.ReqSpec

def resetAbort : Ev → Bool
  | .abort _ rv => rv == Err.econnreset
  | _ => false

/-- the outcome of one event: the relation holds again and the judge did not complain -/
def Sim (rest : List Ev) (s' : State) (j j' : J) (ev : Ev) : Prop :=
  R rest s' j' ∧ j'.err04 = j.err04 ∧ (resetAbort ev = false → j'.err12 = j.err12)

theorem idle_empty {s : State} {j : J} (hg : G s j) : j.idle = [] ↔ s.readyPipes = [] := by
  constructor
  · intro e
    cases hr : s.readyPipes with
    | nil => rfl
    | cons p t => have := (hg.idle p).2 (by rw [hr]; simp); rw [e] at this; cases this
  · intro e
    cases hr : j.idle with
    | nil => rfl
    | cons p t => have := (hg.idle p).1 (by rw [hr]; simp); rw [e] at this; cases this

theorem quiescent_R {rest : List Ev} {s : State} {j : J} (hM : R rest s j) (hD : Dr s) : quiescent j = j := by
  apply quiescent_eq
  intro hi k hk r hr ha
  have hrd : s.readyPipes ≠ [] := fun e => hi ((idle_empty hM.g).2 e)
  have hsq : s.sendQueue = [] := by
    rcases hD with a | a
    · exact a
    · exact absurd a hrd
  obtain ⟨h, hq, hrq⟩ := (hM.rc k (by simp)).held hr ha
  constructor
  · cases hn : r.needTx with
    | false => rfl
    | true => have := hrq.need hn; rw [hsq] at this; cases this
  · rw [hrq.wired]
    cases hw : (s.ctx k).wired with
    | true => rfl
    | false => have := (hM.mi.unw k h hq hw).2.1; rw [hsq] at this; cases this

theorem R.weaken {ev : Ev} {rest : List Ev} {s : State} {j : J} (hM : R (ev :: rest) s j) : R rest s j := by
  have sub : ∀ b, b ∈ sendBodies rest → b ∈ sendBodies (ev :: rest) := by
    intro b hb
    unfold sendBodies at hb ⊢
    rw [List.filterMap_cons]
    split
    · exact hb
    · exact List.mem_cons_of_mem _ hb
  have len : (sendBodies rest).length ≤ (sendBodies (ev :: rest)).length := by
    unfold sendBodies
    rw [List.filterMap_cons]
    split
    · exact Nat.le_refl _
    · simp
  refine ⟨{ hM.mi with fresh := fun h hl hb => hM.mi.fresh h hl (sub _ hb), bound := by have := hM.mi.bound; omega },
    hM.g, hM.rc, hM.rl⟩

/-- an event the harness refuses leaves everything as it was -/
theorem sim_refused {rest : List Ev} {s : State} {j : J} (ev : Ev) (msg : String) (hM : R (ev :: rest) s j) :
    Sim rest s j (ReqSpec.step j ev [.other msg]) ev := by
  have : ReqSpec.step j ev [.other msg] = j := by
    rw [step_eq]; simp [notExecuted]
  rw [this]
  exact ⟨hM.weaken, rfl, fun _ => rfl⟩

theorem sim_poll {rest : List Ev} {s : State} {j : J} (hM : R (.poll :: rest) s j) (hD : Dr s) (hP : PollInv s) :
    Sim rest s j (ReqSpec.step j .poll [.poll (some s.readable) (some s.writable)]) .poll := by
  have hM' := hM.weaken
  have e1 : (s.readable == (j.ctx 0).stash.isSome) = true := by
    rw [(hM.rc 0 (by simp)).stash, hP.rd]; simp
  have e2 : (s.writable == !j.idle.isEmpty) = true := by
    rw [hP.wr]
    have := idle_empty hM.g
    cases hi : j.idle with
    | nil => rw [this.1 hi]; rfl
    | cons p t =>
      cases hr : s.readyPipes with
      | nil => rw [this.2 hr] at hi; cases hi
      | cons _ _ => rfl
  have : ReqSpec.step j .poll [.poll (some s.readable) (some s.writable)] = j := by
    rw [step_eq]
    simp only [notExecuted, List.any_cons, List.any_nil, Bool.or_false, Bool.false_eq_true, if_false, hM.g.closed]
    simp only [phRest, phEv, phA, evAioOf, List.foldl_cons, List.foldl_nil, phPipe, phClosed, phReset, psF, phDone,
      phPoll, phOver, phBlocked, List.any_cons, List.any_nil, Bool.or_false, hM.g.closed, Bool.false_eq_true, if_false,
      e1, e2, if_true]
    exact quiescent_R hM' hD
  rw [this]
  exact ⟨hM', rfl, fun _ => rfl⟩

/-- the judge's step for an event whose outputs are one `rv` line -/
theorem step_rv (j : J) (ev : Ev) (n : Int) (hc : j.closed = false) (hev : ∀ ms, ev ≠ .advance ms)
    (hcl : (phEv j ev [.rv n] (decide (n = 0))).1.closed = false) :
    ReqSpec.step j ev [.rv n] = quiescent (phEv j ev [.rv n] (decide (n = 0))).1 := by
  rw [step_eq]
  have e0 : ([Out.rv n].contains (.rv 0)) = decide (n = 0) := by
    by_cases h : n = 0
    · subst h; rfl
    · simp [h]; intro e; exact h e.symm
  simp only [notExecuted, List.any_cons, List.any_nil, Bool.or_false, Bool.false_eq_true, if_false, hc, e0]
  simp only [phRest, phA, List.foldl_cons, List.foldl_nil, phPipe, phClosed, phReset, psF, phDone,
    phPoll, phBlocked, List.any_cons, List.any_nil, Bool.or_false, hcl, Bool.false_eq_true, if_false]
  cases ev <;> first | rfl | exact absurd rfl (hev _)

theorem step_rv2 (j : J) (c : Option Nat) (a b : String) (n v : Int) (hc : j.closed = false) :
    ReqSpec.step j (.getopt c a b) [.rv2 n v] = quiescent j := by
  rw [step_eq]
  simp only [notExecuted, List.any_cons, List.any_nil, Bool.or_false, Bool.false_eq_true, if_false, hc]
  simp only [phRest, phEv, phA, List.foldl_cons, List.foldl_nil, phPipe, phClosed, phReset, psF, phDone,
    phPoll, phBlocked, phOver, List.any_cons, List.any_nil, Bool.or_false, hc, Bool.false_eq_true, if_false]

theorem sim_same_rv2 {rest : List Ev} {s : State} {j : J} (c : Option Nat) (a b : String) (n v : Int)
    (hM : R (.getopt c a b :: rest) s j) (hD : Dr s) :
    Sim rest s j (ReqSpec.step j (.getopt c a b) [.rv2 n v]) (.getopt c a b) := by
  rw [step_rv2 j c a b n v hM.g.closed, quiescent_R hM.weaken hD]
  exact ⟨hM.weaken, rfl, fun _ => rfl⟩

theorem sim_getopt {rest : List Ev} {s : State} {j : J} (c : Option Nat) (a b : String)
    (hM : R (.getopt c a b :: rest) s j) (hD : Dr s) :
    Sim rest (Req.step s (.getopt c a b)).1 j (ReqSpec.step j (.getopt c a b) (Req.step s (.getopt c a b)).2) (.getopt c a b) := by
  unfold Req.step
  rw [if_neg (by simp [hM.mi.open_]), if_neg (by simp [hM.mi.notgone])]
  dsimp only
  split
  · exact sim_refused _ _ hM
  split
  · split
    · exact sim_same_rv2 c a b _ _ hM hD
    split
    · exact sim_same_rv2 c a b _ _ hM hD
    · exact sim_same_rv2 c a b _ _ hM hD
  split
  · split
    · split
      · exact sim_same_rv2 _ a b _ _ hM hD
      · exact sim_same_rv2 _ a b _ _ hM hD
    · split
      · exact sim_same_rv2 _ a b _ _ hM hD
      · exact sim_same_rv2 _ a b _ _ hM hD
  · exact sim_refused _ _ hM

/-- the fields of a context that `MI` reads -/
def SameMI (c c' : Ctx) : Prop :=
  c'.live = c.live ∧ c'.sendAio = c.sendAio ∧ c'.recvAio = c.recvAio ∧ c'.reqMsg = c.reqMsg ∧ c'.repMsg = c.repMsg ∧
  c'.connReset = c.connReset ∧ c'.wired = c.wired ∧ c'.wireCount = c.wireCount ∧ c'.requestId = c.requestId

theorem MI.setCtx_same {rest : List Ev} {s : State} (hm : MI rest s) (k : Nat) (c' : Ctx) (e : SameMI (s.ctx k) c') :
    MI rest (setCtx s k c') := by
  obtain ⟨e1, e2, e3, e4, e5, e6, e7, e8, e9⟩ := e
  have hc : ∀ x, x ≠ k → (setCtx s k c').ctx x = s.ctx x := fun x hx => by simp [setCtx, hx]
  have hk : (setCtx s k c').ctx k = c' := by simp [setCtx]
  have hl : ∀ x, LiveH (setCtx s k c') x → LiveH s x := by
    intro x hx
    rcases hx with hx | ⟨k', hx⟩
    · exact Or.inl hx
    · by_cases e : k' = k
      · subst e; rw [hk, e4] at hx; exact Or.inr ⟨k', hx⟩
      · rw [hc _ e] at hx; exact Or.inr ⟨k', hx⟩
  have ha : ∀ x b, aioOf (setCtx s k c') x b = aioOf s x b := by
    intro x b
    unfold aioOf
    by_cases e : x = k
    · subst e; rw [hk, e2, e3]
    · rw [hc _ e]
  constructor
  · intro x hx
    by_cases e : x = k
    · subst e; rw [hk, e1]; exact hm.biglive x hx
    · rw [hc _ e]; exact hm.biglive x hx
  · intro x hx
    by_cases e : x = k
    · subst e; rw [hk] at hx ⊢; rw [e1] at hx; rw [e2, e3, e4, e5, e6]; exact hm.dead x hx
    · rw [hc _ e] at hx ⊢; exact hm.dead x hx
  · intro k1 b1 k2 b2 a h1 h2
    rw [ha] at h1 h2; exact hm.park k1 b1 k2 b2 a h1 h2
  · intro x hx
    by_cases e : x = k
    · subst e; rw [hk] at hx ⊢; rw [e6] at hx; rw [e2, e3, e4, e5]; exact hm.creset x hx
    · rw [hc _ e] at hx ⊢; exact hm.creset x hx
  · intro x hx
    by_cases e : x = k
    · subst e; rw [hk] at hx ⊢; rw [e5] at hx; rw [e2, e4]; exact hm.rep x hx
    · rw [hc _ e] at hx ⊢; exact hm.rep x hx
  · intro x q hx
    have hx' : x ∈ (s.pipe q).ctxs := hx
    by_cases e : x = k
    · subst e; rw [hk, e4, e7]; exact hm.onp x q hx'
    · rw [hc _ e]; exact hm.onp x q hx'
  · intro x h hr hw
    by_cases e : x = k
    · subst e; rw [hk] at hr hw ⊢; rw [e4] at hr; rw [e7] at hw; rw [e2, e8]; exact hm.wir x h hr hw
    · rw [hc _ e] at hr hw ⊢; exact hm.wir x h hr hw
  · intro x h hr hw
    by_cases e : x = k
    · subst e; rw [hk] at hr hw ⊢; rw [e4] at hr; rw [e7] at hw; rw [e2, e8]; exact hm.unw x h hr hw
    · rw [hc _ e] at hr hw ⊢; exact hm.unw x h hr hw
  · intro x hs
    by_cases e : x = k
    · subst e; rw [hk] at hs ⊢; rw [e2] at hs; rw [e4, e7]; exact hm.sa x hs
    · rw [hc _ e] at hs ⊢; exact hm.sa x hs
  · intro x hs
    by_cases e : x = k
    · subst e; rw [hk] at hs ⊢; rw [e9] at hs; rw [e4, e9]; exact hm.rid x hs
    · rw [hc _ e] at hs ⊢; exact hm.rid x hs
  · exact hm.al_nodup
  · exact hm.al_le
  · intro h hh; exact hm.fresh h (hl h hh)
  · intro h1 h2 l1 l2; exact hm.inj h1 h2 (hl h1 l1) (hl h2 l2)
  · exact hm.bound
  · exact hm.open_
  · exact hm.notgone
  · exact hm.notclosed

/-- other contexts do not notice an update of context `k` -/
theorem setCtx_frame {s : State} {j j' : J} (k x : Nat) (c' : Ctx) {cj : CJ} (hx : x ≠ k)
    (hjs : j'.tickStable = j.tickStable) (hjt : j'.tick = j.tick) (h0 : RCx s j x cj) : RCx (setCtx s k c') j' x cj :=
  RCx.frame (s := s) (s' := setCtx s k c') (j := j) (by simp [setCtx, hx]) (fun _ _ => rfl) (fun _ _ _ hi => hi)
    (Nat.le_refl _) (fun _ => Iff.rfl) (fun _ _ hc => hc) Iff.rfl (Nat.le_refl _) (Or.inl rfl) hjs hjt h0

theorem G.setCtx {s : State} {j : J} (hg : G s j) (k : Nat) (c' : Ctx) (hq : c'.reqMsg = (s.ctx k).reqMsg) :
    G (setCtx s k c') j := by
  refine { hg with nosend := fun hn => ?_ }
  obtain ⟨a, b, c⟩ := hg.nosend hn
  refine ⟨fun x => ?_, b, c⟩
  by_cases e : x = k
  · subst e; show (upd s.ctx x c' x).reqMsg = none; rw [upd_same, hq]; exact a x
  · show (upd s.ctx k c' x).reqMsg = none; rw [upd_other _ _ _ _ e]; exact a x

theorem G.setC {s : State} {j : J} (hg : G s j) (k : Nat) (c : CJ) : G s (setC j k c) :=
  ⟨hg.now, hg.idle, hg.busy, hg.sock, hg.closed, hg.seen, hg.tick, hg.tkle, hg.tknv, hg.nosend, hg.stab⟩

theorem sock_R {rest : List Ev} {s : State} {j : J} (v : Int) (hM : R rest s j) :
    R rest { s with sockRetry := v } { j with sockRetry := v } := by
  refine ⟨⟨hM.mi.biglive, hM.mi.dead, hM.mi.park, hM.mi.creset, hM.mi.rep, hM.mi.onp, hM.mi.wir, hM.mi.unw, hM.mi.sa,
    hM.mi.rid,
    hM.mi.al_nodup, hM.mi.al_le, hM.mi.fresh, hM.mi.inj, hM.mi.bound, hM.mi.open_, hM.mi.notgone, hM.mi.notclosed⟩,
    { hM.g with sock := rfl }, fun k hk => ?_, fun k hk => by cases hk⟩
  exact RCx.frame (s := s) (j := j) rfl (fun _ _ => rfl) (fun _ _ _ hi => hi) (Nat.le_refl _) (fun _ => Iff.rfl) (fun _ _ hc => hc)
    Iff.rfl (Nat.le_refl _) (Or.inl rfl) rfl rfl (hM.rc k hk)

/-- `setopt req:resend-time` on a live context -/
theorem retime_R {rest : List Ev} {s : State} {j : J} (k : Nat) (v : Int) (hM : R rest s j) :
    R rest (setCtx s k { s.ctx k with retry := v, everRetry := (s.ctx k).everRetry || decide (v > 0) })
      (setC j k { j.ctx k with retry := v, req := (j.ctx k).req.map fun r =>
        { r with clean := false, everRetry := r.everRetry || decide (v > 0) } }) := by
  have h0 := hM.rc k (by simp)
  have hG := hM.g.setCtx k { s.ctx k with retry := v, everRetry := (s.ctx k).everRetry || decide (v > 0) } rfl
  refine ⟨hM.mi.setCtx_same k _ ⟨rfl, rfl, rfl, rfl, rfl, rfl, rfl, rfl, rfl⟩, hG.setC k _, fun x _ => ?_,
    fun x hx => by cases hx⟩
  by_cases e : x = k
  · subst e
    rw [setC_ctx_same]
    have hk : ∀ c', (setCtx s x c').ctx x = c' := fun c' => by simp [setCtx]
    constructor
    · rw [hk]; exact h0.opened
    · rw [hk]; intro _; rfl
    · rw [hk]; exact h0.rw
    · rw [hk]; exact h0.stash
    · rw [hk]; exact h0.latched
    · rw [hk]; intro a b; show Option.map _ _ = none; rw [h0.none a b]; rfl
    · rw [hk]; intro a
      obtain ⟨r, b, c, d⟩ := h0.ansd a
      exact ⟨{ r with clean := false, everRetry := r.everRetry || decide (v > 0) }, by show Option.map _ _ = _; rw [b]; rfl, c, d⟩
    · rw [hk]; intro h a
      obtain ⟨r, b, c⟩ := h0.req h a
      refine ⟨{ r with clean := false, everRetry := r.everRetry || decide (v > 0) }, by show Option.map _ _ = _; rw [b]; rfl, ?_⟩
      constructor
      · exact c.ans
      · exact c.body
      · rw [hk]; exact c.wired
      · rw [hk]; exact c.unsent
      · rw [hk]; exact c.id
      · rw [hk]; exact c.lp
      · rw [hk]; exact c.cnt
      · rw [hk]; show (r.everRetry || _) = _; rw [c.ever]
      · rw [hk]; exact c.dl
      · intro f; cases f
      · exact c.need
      · rw [hk]; exact c.early
      · intro _ _ _ f; cases f
  · rw [setC_ctx_other _ _ _ _ e]
    exact setCtx_frame (j := j) k x _ e rfl rfl (hM.rc x (by simp))

/-- `setopt req:resend-tick` on the socket -/
theorem retick_R {rest : List Ev} {s : State} {j : J} (v : Int) (hM : R rest s j) :
    R rest { s with retryTick := v } { j with tick := v, tickStable := !j.anySend } := by
  have hno : (!j.anySend) = true → (∀ k, (s.ctx k).reqMsg = none) ∧ s.tickAt = none ∧ s.tickNever = false := by
    intro h; exact hM.g.nosend (by simpa using h)
  refine ⟨⟨hM.mi.biglive, hM.mi.dead, hM.mi.park, hM.mi.creset, hM.mi.rep, hM.mi.onp, hM.mi.wir, hM.mi.unw, hM.mi.sa,
    hM.mi.rid,
    hM.mi.al_nodup, hM.mi.al_le, hM.mi.fresh, hM.mi.inj, hM.mi.bound, hM.mi.open_, hM.mi.notgone, hM.mi.notclosed⟩,
    ⟨hM.g.now, hM.g.idle, hM.g.busy, hM.g.sock, hM.g.closed, hM.g.seen, rfl, ?_, ?_, hM.g.nosend, ?_⟩,
    fun k hk => ?_, fun k hk => by cases hk⟩
  · intro h T hT; rw [(hno h).2.1] at hT; cases hT
  · intro h _; exact (hno h).2.2
  · intro h; show (!j.anySend) = true; rw [h]; rfl
  · have h0 := hM.rc k hk
    refine ⟨h0.opened, h0.retry, h0.rw, h0.stash, h0.latched, h0.none, h0.ansd, fun h hm => ?_⟩
    obtain ⟨r, a, b⟩ := h0.req h hm
    refine ⟨r, a, ⟨b.ans, b.body, b.wired, b.unsent, b.id, b.lp, b.cnt, b.ever, b.dl, b.clean, b.need, b.early, ?_⟩⟩
    intro hs
    have := (hno hs).1 k
    rw [hm] at this; cases this

theorem keyOf_eq (c : Option Nat) : ReqSpec.keyOf c = Req.keyOf c := by cases c <;> rfl

theorem sim_setopt_fail {rest : List Ev} {s : State} {j : J} (c : Option Nat) (name ty : String) (v n : Int) (hn : n ≠ 0)
    (hM : R (.setopt c name ty v :: rest) s j) (hD : Dr s) :
    Sim rest s j (ReqSpec.step j (.setopt c name ty v) [.rv n]) (.setopt c name ty v) := by
  have e0 : decide (n = 0) = false := by simp [hn]
  have e1 : (phEv j (.setopt c name ty v) [.rv n] (decide (n = 0))).1 = j := by
    simp [phEv, evSetopt, e0]
  rw [step_rv j _ n hM.g.closed (fun _ => by simp) (by rw [e1]; exact hM.g.closed), e1, quiescent_R hM.weaken hD]
  exact ⟨hM.weaken, rfl, fun _ => rfl⟩

theorem sim_setopt {rest : List Ev} {s : State} {j : J} (c : Option Nat) (name ty : String) (v : Int)
    (hM : R (.setopt c name ty v :: rest) s j) (hD : Dr s) :
    Sim rest (Req.step s (.setopt c name ty v)).1 j
      (ReqSpec.step j (.setopt c name ty v) (Req.step s (.setopt c name ty v)).2) (.setopt c name ty v) := by
  unfold Req.step
  rw [if_neg (by simp [hM.mi.open_]), if_neg (by simp [hM.mi.notgone])]
  dsimp only
  split
  · exact sim_refused _ _ hM
  split
  · rename_i hname
    split
    · exact sim_setopt_fail c name ty v _ (by decide) hM hD
    split
    · exact sim_setopt_fail c name ty v _ (by decide) hM hD
    split
    · exact sim_setopt_fail c name ty v _ (by decide) hM hD
    · rename_i hty _
      have hty' : (ty == "ms") = true := by simpa using hty
      have hname' : (name == "req:resend-time") = true := hname
      have e1 : (phEv j (.setopt c name ty v) [.rv 0] (decide ((0 : Int) = 0))).1 =
          (if c.isNone then { (setC j (Req.keyOf c) { j.ctx (Req.keyOf c) with retry := v, req := (j.ctx (Req.keyOf c)).req.map fun r =>
            { r with clean := false, everRetry := r.everRetry || decide (v > 0) } }) with sockRetry := v }
           else (setC j (Req.keyOf c) { j.ctx (Req.keyOf c) with retry := v, req := (j.ctx (Req.keyOf c)).req.map fun r =>
            { r with clean := false, everRetry := r.everRetry || decide (v > 0) } })) := by
        simp only [phEv, evSetopt, hty', hname', keyOf_eq, decide_true, Bool.and_self, if_true]
      have hR := retime_R (Req.keyOf c) v hM.weaken
      have hfin : R rest (setCtx (if c.isNone then { s with sockRetry := v } else s) (Req.keyOf c)
            { s.ctx (Req.keyOf c) with retry := v, everRetry := (s.ctx (Req.keyOf c)).everRetry || decide (v > 0) })
          (phEv j (.setopt c name ty v) [.rv 0] (decide ((0 : Int) = 0))).1 := by
        rw [e1]
        cases c with
        | none => exact sock_R v hR
        | some _ => exact hR
      rw [step_rv j _ 0 hM.g.closed (fun _ => by simp) hfin.g.closed]
      have hD' : Dr (setCtx (if c.isNone then { s with sockRetry := v } else s) (Req.keyOf c)
            { s.ctx (Req.keyOf c) with retry := v, everRetry := (s.ctx (Req.keyOf c)).everRetry || decide (v > 0) }) := by
        cases c <;> exact hD
      rw [quiescent_R hfin hD']
      refine ⟨hfin, ?_, fun _ => ?_⟩ <;> (rw [e1]; cases c <;> rfl)
  split
  · split
    · split
      · exact sim_setopt_fail _ name ty v _ (by decide) hM hD
      · exact sim_setopt_fail _ name ty v _ (by decide) hM hD
    · split
      · exact sim_setopt_fail _ name ty v _ (by decide) hM hD
      split
      · exact sim_setopt_fail _ name ty v _ (by decide) hM hD
      · rename_i hname1 hname _ _ hty _
        have hty' : (ty == "ms") = true := by simpa using hty
        have hname' : (name == "req:resend-tick") = true := hname
        have hname1' : (name == "req:resend-time") = false := by
          cases h : name == "req:resend-time" with
          | false => rfl
          | true => exact absurd h hname1
        have e1 : (phEv j (.setopt none name ty v) [.rv 0] (decide ((0 : Int) = 0))).1 =
            { j with tick := v, tickStable := !j.anySend } := by
          simp [phEv, evSetopt, hty', hname', hname1']
        have hfin := retick_R v hM.weaken
        rw [step_rv j _ 0 hM.g.closed (fun _ => by simp) (by rw [e1]; exact hM.g.closed), e1]
        rw [quiescent_R hfin hD]
        exact ⟨hfin, rfl, fun _ => rfl⟩
  · exact sim_refused _ _ hM

end Nng.ReqJ
