/- the counting invariant: calls begun and not returned = threads inside a call, stop calls begun and
   not returned = threads inside stop (at most one), the flags the judge derives from the counters are the
   model's, and the mask handed to the callback is the one harvested -/
import NngModel.Proofs.PfdCount
namespace Nng.Pfd
open Nng.PfdSpec

structure CInv (s : State) : Prop where
  compatF : ∀ t op, opOf s t = some op → compat (frameOf s t) op
  nbEq : s.g.n.nb = s.g.n.nr + busyCount s
  sbEq : s.g.n.sb = s.g.n.sr + stopCount s
  csEq : 0 < s.g.n.kb + s.g.n.sb → s.g.closeStarted = true
  frEq : 0 < s.g.n.fr ↔ s.g.finiDone = true
  xrEq : 0 < s.g.n.xr → s.g.freed = true
  stEq : 0 < s.g.n.sb → s.g.stopped = true
  pbEq : s.g.n.pb = 0
  synSr : s.g.synced = true → 1 ≤ s.g.n.sr
  cnt1 : stopCount s ≤ 1
  cnt0 : s.g.stopped = false → stopCount s = 0
  cntS : s.g.synced = true → stopCount s = 0
  winner : s.g.stopped = true → s.g.synced = true ∨ 1 ≤ stopCount s
  hmB : ∀ m, BEv.pfd m ∈ s.p.batch → m = s.g.hm
  hmC : s.p.pc = .cbBegin → s.p.cur = s.g.hm

theorem opOf_init_compat (progs scripts : List (List Op)) (t : Tid) (op : Op) : compat (frameOf (init progs scripts) t) op := by
  rw [frameOf_init]; trivial

theorem cinv_init (progs scripts : List (List Op)) : CInv (init progs scripts) := by
  have hb : busyCount (init progs scripts) = 0 := tsum_zero _ _ (fun u => by simp [frameOf_init, indBusy])
  have hs : stopCount (init progs scripts) = 0 := tsum_zero _ _ (fun u => by simp [frameOf_init, indStop])
  refine ⟨fun t op _ => opOf_init_compat progs scripts t op, ?_, ?_, ?_, ?_, ?_, ?_, ?_, ?_, ?_, ?_, ?_, ?_, ?_, ?_⟩
  all_goals (first | (simp [hb, hs, init, G.init]; done) | (simp [hb, hs]; done) | (rw [hb]; rfl) | (rw [hs]; rfl))

theorem call_cur {s : State} {ch : Choice} {f : Frame} {op : Op} (r : CallRel s (step s ch) ch.tid f op) :
    (step s ch).p.cur = s.p.cur ∧ (step s ch).p.scripts = s.p.scripts := by
  rcases ch with ⟨tid, rdy, wf⟩
  cases tid with
  | c i =>
    simp only [step]
    cases hc : s.cs[i]? with
    | none => exact ⟨rfl, rfl⟩
    | some c =>
      simp only [cstep]
      cases c.prog <;> exact ⟨rfl, rfl⟩
  | p =>
    have hpc := r.tp rfl
    have hop := r.hop
    simp only [opOf] at hop
    cases hr : s.p.rem with
    | nil => rw [hr] at hop; cases hop
    | cons o rest => simp [step, pstep, hpc, hr]

theorem tid_ok {s : State} {t : Tid} {op : Op} (h : opOf s t = some op) : tidOk s.cs.length t := by
  cases t with
  | p => trivial
  | c i =>
    simp only [opOf] at h
    simp only [tidOk]
    rcases Nat.lt_or_ge i s.cs.length with hlt | hge
    · exact hlt
    · rw [List.getElem?_eq_none hge] at h; cases h

set_option maxHeartbeats 1600000 in
theorem cinv_call {s s' : State} {t : Tid} {f : Frame} {op : Op} (hs : SInv s) (hk : KInv s) (hc : CInv s)
    (r : CallRel s s' t f op) (hal : f = .idle → opAllowed s t op = true)
    (hcur : s'.p.cur = s.p.cur) : CInv s' := by
  have hcomp : compat f op := by have := hc.compatF t op r.hop; rwa [r.hf] at this
  have hfin_idle := callStep_fin_idle s.g t f op
  -- the thread's own indicator terms
  have hop' : (if (callStep s.g t f op).fin then opOf s' t else some op) = opOf s' t := by
    cases hfin : (callStep s.g t f op).fin with
    | true => rfl
    | false => simp [r.ot hfin]
  have hb := call_busy s.g t f op hcomp
  have hst := call_stop s.g t f op (opOf s' t) hcomp
  rw [hop'] at hst
  have hbc : busyCount s' + indBusy f = busyCount s + indBusy (callStep s.g t f op).frame := by
    have := tsum_update s.cs.length (fun u => indBusy (frameOf s u)) (fun u => indBusy (frameOf s' u)) t (tid_ok r.hop)
      (fun u hu => by simp only [r.fo u hu])
    simp only [busyCount, r.len]
    simpa [r.hf, r.hf'] using this
  have hsc : stopCount s' + indStop f (some op) = stopCount s + indStop (callStep s.g t f op).frame (opOf s' t) := by
    have := tsum_update s.cs.length (fun u => indStop (frameOf s u) (opOf s u)) (fun u => indStop (frameOf s' u) (opOf s' u)) t
      (tid_ok r.hop) (fun u hu => by simp only [r.fo u hu, r.oo u hu])
    simp only [stopCount, r.len]
    simpa [r.hf, r.hf', r.hop] using this
  have e_nb := acct_nb (callStep s.g t f op).g t f op (callStep s.g t f op).fin
  have e_nr := acct_nr (callStep s.g t f op).g t f op (callStep s.g t f op).fin
  have e_sb := acct_sb (callStep s.g t f op).g t f op (callStep s.g t f op).fin
  have e_sr := acct_sr (callStep s.g t f op).g t f op (callStep s.g t f op).fin
  have e_kb := acct_kb (callStep s.g t f op).g t f op (callStep s.g t f op).fin
  have e_fr := acct_fr (callStep s.g t f op).g t f op (callStep s.g t f op).fin
  have e_xr := acct_xr (callStep s.g t f op).g t f op (callStep s.g t f op).fin
  have e_pb := acct_pb (callStep s.g t f op).g t f op (callStep s.g t f op).fin
  rw [← r.hg] at e_nb e_nr e_sb e_sr e_kb e_fr e_xr e_pb
  have hn : (callStep s.g t f op).g.n = s.g.n := call_n s.g t f op
  rw [hn] at e_nb e_nr e_sb e_sr e_kb e_fr e_xr e_pb
  have f_st := call_stopped s.g t f op
  have f_sy := call_synced s.g t f op
  have f_cs := call_closeStarted s.g t f op
  have f_fd := call_finiDone s.g t f op
  have f_fr := call_freed s.g t f op
  have g_st : s'.g.stopped = (s.g.stopped || (f == .idle && op == .stop)) := by rw [r.hg]; simpa using f_st
  have g_sy : s'.g.synced = (s.g.synced || ((callStep s.g t f op).fin && (f == .stopWrite || f == .stopChk))) := by
    rw [r.hg]; simpa using f_sy
  have g_cs : s'.g.closeStarted = (s.g.closeStarted || (f == .idle && (op == .close || op == .stop))) := by
    rw [r.hg]; simpa using f_cs
  have g_fd : s'.g.finiDone = (s.g.finiDone || (f == .idle && op == .fini)) := by rw [r.hg]; simpa using f_fd
  have g_fr : s'.g.freed = (s.g.freed || (f == .idle && op == .free)) := by rw [r.hg]; simpa using f_fr
  have g_hm : s'.g.hm = s.g.hm := by rw [r.hg]; simp [call_hm]
  have hcc := call_compat s.g t f op hcomp
  have hsi := call_stop_idle s.g t
  have hsf := call_stop_fin_synced s.g t f op hcomp
  have hff := call_fin_idle_op s.g t op
  have k_stopOp := hk.stopOp t
  have k_syn := hk.syn
  rw [r.hf, r.hop] at k_stopOp
  obtain ⟨c1, c2, c3, c4, c5, c6, c7, c8, c9, c10, c11, c12, c13, c14, c15⟩ := hc
  obtain ⟨hf, hop, hg, hf', fo, oo, ot, pc, batch, reap, tp, len⟩ := r
  simp only [opAllowed] at hal
  refine ⟨?_, ?_, ?_, ?_, ?_, ?_, ?_, ?_, ?_, ?_, ?_, ?_, ?_, ?_, ?_⟩
  · intro u op' hu
    by_cases hut : u = t
    · subst hut
      rw [hf']
      cases hfin : (callStep s.g u f op).fin with
      | true => rw [hfin_idle hfin]; trivial
      | false =>
        rw [ot hfin] at hu
        cases hu
        exact hcc hfin
    · rw [fo u hut]; exact c1 u op' (by rw [← oo u hut]; exact hu)
  · omega
  · omega
  all_goals (try simp only [pc, batch, hcur, g_hm])
  all_goals (try (simp only [indStop, indBusy] at hst hsc hb hbc; grind [compat, Op.isArm]))
  all_goals (
    by_cases hfi : f = .idle
    · subst hfi
      cases op <;>
        simp [indStop, indBusy] at e_nb e_nr e_sb e_sr e_kb e_fr e_xr e_pb g_st g_sy g_cs g_fd g_fr hb hst hsc hbc hal hsi hff <;>
        grind
    · have hne := compat_busy f op hcomp hfi
      simp [hfi, indStop, indBusy] at e_nb e_nr e_sb e_sr e_kb e_fr e_xr e_pb g_st g_sy g_cs g_fd g_fr hb hst hsc hbc
      cases hfin : (callStep s.g t f op).fin <;>
        simp [hfin, hne] at e_nr e_sr e_fr e_xr g_sy hb hst hsc hbc hsf <;> grind [compat, Op.isArm])

end Nng.Pfd
