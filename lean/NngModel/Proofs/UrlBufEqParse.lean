/-
  C19, buffer model = functional model, part 7: putting the stages together.
  `finish` (the caller reading every field as the C string at the offset the parser computed),
  `afterCanon`, `afterUser`, `parseAuthorityF`, `parseMem`, `parseWith`: what the in-place parser
  returns and leaves readable in the buffer is exactly what the functional model computes.
-/
import NngModel.Proofs.UrlBufEqCanon3
import NngModel.Proofs.UrlBufEqHostPort
set_option linter.unusedSimpArgs false
set_option linter.unusedVariables false
namespace Nng.UrlBufEq
open Nng Nng.Url Nng.UrlBuf Nng.UrlBufProofs Nng.UrlProofs

/-- the part of `finishParse` after the host/port split -/
def finishFn (scheme : Bytes) (bufsz : Nat) (ui : Option Bytes) (name : Bytes) (portText : Option Bytes)
    (path : Bytes) (q f : Option Bytes) : Url.R :=
  if name.length ≥ Generated.urlHostMax then fail Err.einval
  else
    match portText with
    | some pt =>
      if pt.isEmpty then fail Err.einval
      else
        match parsePort pt with
        | none => fail Err.einval
        | some port => ⟨0, some ⟨scheme, ui, some name, port, path, q, f, bufsz⟩⟩
    | none => ⟨0, some ⟨scheme, ui, some name, defaultPort scheme, path, q, f, bufsz⟩⟩

theorem finishParse_eq (scheme : Bytes) (bufsz : Nat) (ui : Option Bytes) (host c : Bytes) :
    finishParse scheme bufsz ui host c =
      match splitHostPort host with
      | none => fail Err.einval
      | some (name, pt) => finishFn scheme bufsz ui name pt (splitPQF c).1 (splitPQF c).2.1 (splitPQF c).2.2 := by
  unfold finishParse finishFn
  cases splitHostPort host with
  | none => rfl
  | some np => obtain ⟨name, pt⟩ := np; rfl

theorem optStr_frame' {lo len : Nat} {m m' : Mem} {oi : Option Nat} {ol : Option Bytes}
    (h : OptStr lo len m oi ol)
    (hf : ∀ i l, oi = some i → ol = some l → ∀ j, i ≤ j → j ≤ i + l.length → m'.rd j = m.rd j) :
    OptStr lo len m' oi ol := by
  match oi, ol, h with
  | none, none, _ => trivial
  | some i, some l, h => exact ⟨h.1, cstr_frame h.2 (hf i l rfl rfl)⟩

theorem optStr_read {lo len : Nat} (fuel : Nat) (m : Mem) (oi : Option Nat) (ol : Option Bytes)
    (h : Inv len m) (hs : OptStr lo len m oi ol) (hf : len < fuel) :
    (optStr fuel m oi).2 = ol ∧ (optStr fuel m oi).1.buf = m.buf ∧ Inv len (optStr fuel m oi).1 := by
  match oi, ol, hs with
  | none, none, _ => exact ⟨rfl, rfl, h⟩
  | some i, some l, hs =>
    obtain ⟨a, b, c⟩ := cstr_all l fuel m i h hs.2 hf
    exact ⟨by simp only [optStr]; rw [a], b, c⟩

/-! ### the caller reads the fields -/

theorem finish_eq {lo len : Nat} (fuel : Nat) (scheme : Bytes) (bufsz : Nat) (m : Mem) (ui : Option Nat)
    (p : Nat) (q f : Option Nat) (hostI : Nat) (portI : Option Nat) (U : Option Bytes) (name : Bytes)
    (pt : Option Bytes) (path : Bytes) (Q F : Option Bytes) (h : Inv len m) (hf : len < fuel)
    (hU : OptStr 0 len m ui U) (hname : CStr len m hostI name) (hpt : OptStr 0 len m portI pt)
    (hpath : CStr len m p path) (hQ : OptStr lo len m q Q) (hF : OptStr lo len m f F) :
    (finish fuel scheme bufsz m ui p q f hostI portI).view = finishFn scheme bufsz U name pt path Q F := by
  unfold finish finishFn
  simp only
  obtain ⟨n1, n2, n3⟩ := cstr_all name fuel m hostI h hname hf
  generalize cstr fuel m hostI = nm at *
  obtain ⟨nmm, nml⟩ := nm
  simp only at n1 n2 n3 ⊢
  subst n1
  by_cases hlen : nml.length ≥ Generated.urlHostMax
  · rw [if_pos hlen, if_pos hlen]; rfl
  · rw [if_neg hlen, if_neg hlen]
    -- the port
    have hpr : ∃ pm, (portOf fuel scheme nmm portI).1 = pm ∧ pm.buf = m.buf ∧ Inv len pm ∧
        (portOf fuel scheme nmm portI).2 =
          (match pt with
           | some t => if t.isEmpty then none else parsePort t
           | none => some (defaultPort scheme)) := by
      match portI, pt, hpt with
      | none, none, _ => exact ⟨_, rfl, n2, n3, rfl⟩
      | some pi, some t, hpt =>
        obtain ⟨a, b, c⟩ := cstr_all t fuel nmm pi n3 (cstr_buf hpt.2 n2) hf
        refine ⟨_, rfl, ?_, ?_, ?_⟩
        · simp only [portOf]; split <;> (rw [b]; exact n2)
        · simp only [portOf]; split <;> exact c
        · simp only [portOf, a]; split <;> rfl
    obtain ⟨pm, e1, pb, pinv, e2⟩ := hpr
    generalize portOf fuel scheme nmm portI = pr at *
    obtain ⟨prm, prv⟩ := pr
    simp only at e1 e2 ⊢
    subst e1; subst e2
    have hfin : ∀ port : Nat,
        (let uiS := optStr fuel prm ui
         let pathS := cstr fuel uiS.1 p
         let qS := optStr fuel pathS.1 q
         let fS := optStr fuel qS.1 f
         (⟨0, some ⟨scheme, uiS.2, some nml, port, pathS.2, qS.2, fS.2, bufsz⟩, fS.1⟩ : UrlBuf.R)).view =
        ⟨0, some ⟨scheme, U, some nml, port, path, Q, F, bufsz⟩⟩ := by
      intro port
      simp only
      obtain ⟨u1, u2, u3⟩ := optStr_read fuel prm ui U pinv (optStr_frame hU (fun i _ => rd_buf pb i)) hf
      generalize optStr fuel prm ui = us at *
      obtain ⟨usm, usl⟩ := us
      simp only at u1 u2 u3 ⊢
      subst u1
      have ub : usm.buf = m.buf := by rw [u2, pb]
      obtain ⟨p1, p2, p3⟩ := cstr_all path fuel usm p u3 (cstr_buf hpath ub) hf
      generalize cstr fuel usm p = ps at *
      obtain ⟨psm, psl⟩ := ps
      simp only at p1 p2 p3 ⊢
      subst p1
      have pb' : psm.buf = m.buf := by rw [p2, ub]
      obtain ⟨q1, q2, q3⟩ := optStr_read fuel psm q Q p3 (optStr_frame hQ (fun i _ => rd_buf pb' i)) hf
      generalize optStr fuel psm q = qs at *
      obtain ⟨qsm, qsl⟩ := qs
      simp only at q1 q2 q3 ⊢
      subst q1
      have qb : qsm.buf = m.buf := by rw [q2, pb']
      obtain ⟨f1, _, _⟩ := optStr_read fuel qsm f F q3 (optStr_frame hF (fun i _ => rd_buf qb i)) hf
      simp only [R.view, f1]
    match pt with
    | none => exact hfin _
    | some t =>
      simp only
      by_cases ht : t.isEmpty = true
      · rw [if_pos ht, if_pos ht]; rfl
      · rw [if_neg ht, if_neg ht]
        cases hp : parsePort t with
        | none => rfl
        | some port => exact hfin port

/-! ### after the canonicaliser -/

theorem afterCanon_eq {len : Nat} (fuel : Nat) (scheme : Bytes) (bufsz : Nat) (m : Mem) (ui : Option Nat)
    (host p : Nat) (U : Option Bytes) (H c : Bytes) (h : Inv len m) (hf : len < fuel)
    (hU : OptStr 0 len m ui U) (hUlt : ∀ i l, ui = some i → U = some l → i + l.length < host)
    (hH : CStr len m host H) (hHp : host + H.length < p) (hc : CStr len m p c) :
    (afterCanon fuel scheme bufsz m ui host p).view = finishParse scheme bufsz U H c := by
  obtain ⟨q1, q2, q3, q4, q5⟩ := stageQF_eq fuel c m p h hc hf
  unfold afterCanon
  simp only
  generalize stageQF fuel m p = qf at *
  obtain ⟨qm, qq, qfr⟩ := qf
  simp only at q1 q2 q3 q4 q5 ⊢
  have hH' : CStr len qm host H := cstr_frame hH (fun i _ hi => q5 i (by omega))
  rw [finishParse_eq]
  rcases stageHostPort_eq fuel H qm host q1 hH' hf with ⟨e1, e2⟩ | ⟨name, pt, hi, pi, e1, e2, e3, e4, e5, e6⟩
  · rw [e1]
    generalize stageHostPort fuel qm host = hp at *
    obtain ⟨hpm, hpv⟩ := hp
    simp only at e2 ⊢
    subst e2
    rfl
  · rw [e1]
    generalize stageHostPort fuel qm host = hp at *
    obtain ⟨hpm, hpv⟩ := hp
    simp only at e2 e3 e4 e5 e6 ⊢
    subst e2
    simp only
    refine finish_eq (lo := p) fuel scheme bufsz hpm ui p qq qfr hi pi U name pt _ _ _ e3 hf ?_ e4 e5 ?_ ?_ ?_
    · refine optStr_frame' hU (fun i l a b j _ hj => ?_)
      have := hUlt i l a b
      rw [e6 j (Or.inl (by omega)), q5 j (by omega)]
    · exact cstr_frame q2 (fun i a _ => e6 i (Or.inr (by omega)))
    · exact optStr_frame q3 (fun i a => e6 i (Or.inr (by omega)))
    · exact optStr_frame q4 (fun i a => e6 i (Or.inr (by omega)))

theorem afterUser_eq {len : Nat} (fuel : Nat) (scheme : Bytes) (bufsz : Nat) (m : Mem) (ui : Option Nat)
    (host p : Nat) (U : Option Bytes) (H pqf : Bytes) (h : Inv len m) (hf : len < fuel)
    (hU : OptStr 0 len m ui U) (hUlt : ∀ i l, ui = some i → U = some l → i + l.length < host)
    (hH : CStr len m host H) (hHp : host + H.length < p) (hc : CStr len m p pqf) :
    (afterUser fuel scheme bufsz m ui host p).view =
      match canonify pqf with
      | none => fail Err.einval
      | some c => finishParse scheme bufsz U H c := by
  unfold afterUser
  simp only
  rcases canonifyAt_eq fuel pqf m p h hc hf with ⟨e1, e2⟩ | ⟨c, e1, e2, e3, e4, e5⟩
  · rw [e1, if_pos (by simp [e2])]; rfl
  · rw [e1, if_neg (by simp [e2])]
    simp only
    exact afterCanon_eq fuel scheme bufsz _ ui host p U H c e3 hf
      (optStr_frame' hU (fun i l a b j _ hj => by have := hUlt i l a b; exact e5 j (by omega)))
      hUlt (cstr_frame hH (fun i _ hi => e5 i (by omega))) hHp e4

/-! ### the authority-form parse -/

theorem parseAuthorityF_eq {len : Nat} (fuel : Nat) (scheme : Bytes) (bufsz : Nat) (m : Mem) (p : Bytes)
    (h : Inv len m) (hs : CStr len m 3 p) (hf : len < fuel) :
    (parseAuthorityF fuel scheme bufsz m).view = Url.parseAuthority scheme bufsz p := by
  obtain ⟨s1, s2, s3, s4⟩ := stageHost_eq fuel p m h hs hf
  unfold parseAuthorityF Url.parseAuthority
  simp only
  generalize p.takeWhile (fun c => !isAuthEnd c) = auth at *
  generalize p.dropWhile (fun c => !isAuthEnd c) = pqf at *
  generalize stageHost fuel m = sh at *
  obtain ⟨hm, hp⟩ := sh
  simp only at s1 s2 s3 s4 ⊢
  subst s1
  rcases stageUser_eq fuel auth hm s2 s3 hf with ⟨a1, a2, a3⟩ | ⟨a1, a2, a3, a4, a5, a6, a7, a8⟩ | ⟨a1, a3, a4, a5, a8⟩
  · rw [a1, a2, if_pos (by simp)]
    generalize stageUser fuel hm = su at *
    obtain ⟨sum, suv⟩ := su
    simp only at a3 ⊢
    subst a3
    rfl
  · rw [a1, a2, if_neg (by simp)]
    generalize stageUser fuel hm = su at *
    obtain ⟨sum, suv⟩ := su
    simp only at a3 a4 a5 a6 a8 ⊢
    subst a3
    simp only [if_true]
    refine afterUser_eq fuel scheme bufsz sum (some 0) _ _ (some (upTo AT auth)) _ pqf a4 hf
      ⟨Nat.zero_le _, a5⟩ ?_ a6 ?_ ?_
    · intro i l e1 e2
      injection e1 with e1; injection e2 with e2
      subst e1; subst e2; omega
    · simp only [List.length_map]; omega
    · exact cstr_frame s4 (fun i a _ => a8 i (by omega))
  · rw [a1, if_neg (by simp)]
    generalize stageUser fuel hm = su at *
    obtain ⟨sum, suv⟩ := su
    simp only at a3 a4 a5 a8 ⊢
    subst a3
    simp only [Bool.false_eq_true, if_false]
    refine afterUser_eq fuel scheme bufsz sum none 0 _ none _ pqf a4 hf trivial ?_ a5 ?_ ?_
    · intro i l e1; cases e1
    · simp only [List.length_map]; omega
    · exact cstr_frame s4 (fun i a _ => a8 i (by omega))

/-! ### nng_url_parse -/

theorem parseMem_eq (raw : Bytes) (m : Mem) (hinv : Inv (raw.drop (schemeLen raw)).length m)
    (hs : CStr (raw.drop (schemeLen raw)).length m 0 (raw.drop (schemeLen raw))) :
    (parseMem raw m).view = Url.parse raw := by
  unfold parseMem Url.parse
  simp only
  by_cases hsep : strncmpEq (raw.drop (schemeLen raw)) sep 3 = true
  · have hb : (!strncmpEq (raw.drop (schemeLen raw)) sep 3) = false := by rw [hsep]; rfl
    rw [hb]
    simp only [Bool.false_eq_true, if_false]
    obtain ⟨rest, hrest⟩ := strncmp_sep _ hsep
    have hsz := hinv.2.1
    generalize raw.drop (schemeLen raw) = s at *
    subst hrest
    have h3 : CStr (sep ++ rest).length m 3 rest := cstr_suffix sep rest (p := 0) hs
    have hd3 : (sep ++ rest).drop 3 = rest := by simp [sep]
    cases hlk : lookupScheme raw (schemeLen raw) with
    | none => rfl
    | some scheme =>
      simp only
      by_cases hsp : specialSchemes.contains scheme = true
      · rw [if_pos hsp, if_pos hsp]
        obtain ⟨a, _, _⟩ := cstr_all rest (m.buf.size + 1) m 3 hinv h3 (by omega)
        simp only [R.view, a, hd3]
      · rw [if_neg hsp, if_neg hsp, hd3]
        exact parseAuthorityF_eq _ scheme _ m rest hinv h3 (by omega)
  · have hb : (!strncmpEq (raw.drop (schemeLen raw)) sep 3) = true := by simpa using hsep
    rw [hb]
    simp only [if_true]
    rfl

/-- the in-place parser and the functional model agree on every C string, whatever follows the
    copied string in the allocation -/
theorem parseWith_eq (raw pad : Bytes) (hz : (0 : UInt8) ∉ raw) :
    (parseWith raw pad).view = Url.parse raw :=
  parseMem_eq raw _ (init_inv _ pad)
    (init_cstr _ pad (fun hm => hz (List.mem_of_mem_drop hm)))

end Nng.UrlBufEq
