/- the handlers of one entry on wrapper-built buffers, the table walkers, the layering: model = specification -/
import NngModel.Proofs.Options
namespace Nng.Opt
open Nng Nng.OptSpec

theorem load_enc (n x : Nat) : load (leEncode n x) n = (leEncode n x, true) := by
  have := load_exact (leEncode n x)
  simpa using this

theorem dec_enc_i32 (i : Int) (h : -2147483648 ≤ i ∧ i < 2147483648) :
    toI32 (leDecode (leEncode 4 (ofI32 i))) = i := by
  rw [leDecode_leEncode]
  exact toI32_ofI32 i h

theorem dec_enc_u64 (n : Nat) (h : n < 18446744073709551616) : leDecode (leEncode 8 n) = n := by
  rw [leDecode_leEncode]
  exact Nat.mod_eq_of_lt h

theorem dec_enc_bool (b : Bool) : (leDecode (leEncode 1 (if b then 1 else 0)) != 0) = b := by
  cases b <;> decide

/-! ### strings -/

theorem strnlen_terminated (s rest : Bytes) (h : s.contains 0 = false) (n : Nat) (hn : s.length < n) :
    strnlen (s ++ 0 :: rest) n = (s.length, true) := by
  induction s generalizing n with
  | nil =>
    cases n with
    | zero => omega
    | succ n => simp [strnlen]
  | cons x xs ih =>
    cases n with
    | zero => simp at hn
    | succ n =>
      have hx : x ≠ 0 := by
        intro hx; subst hx; simp at h
      have hxs : xs.contains 0 = false := by
        simp only [List.contains_cons, Bool.or_eq_false_iff] at h
        exact h.2
      have := ih hxs n (by simpa using hn)
      simp [strnlen, hx, this]

theorem cstr_terminated (s rest : Bytes) (h : s.contains 0 = false) : cstr (s ++ 0 :: rest) = s := by
  induction s with
  | nil => simp [cstr]
  | cons x xs ih =>
    have hx : x ≠ 0 := by
      intro hx; subst hx; simp at h
    have hxs : xs.contains 0 = false := by
      simp only [List.contains_cons, Bool.or_eq_false_iff] at h
      exact h.2
    simp [cstr, hx, ih hxs]

/-! ### one entry -/

/-- what the specification says about a set that reached this entry -/
def specRow (r : Row) (st : Store) (v : Val) : R Store :=
  if r.tag = .none then ⟨rvUnmodelled, st, true⟩
  else if v.tag ≠ r.tag then ⟨Err.ebadtype, st, true⟩
  else if !inRange r v then ⟨Err.einval, st, true⟩
  else ⟨0, st.put r.name v, true⟩

theorem rowSet_int (g : Bool) (r : Row) (st : Store) (i : Int) (hr : r.tag = .int)
    (hw : -2147483648 ≤ i ∧ i < 2147483648) :
    rowSet g r st false (encodeVal (.int i)) (encodeVal (.int i)).length Tag.int = specRow r st (.int i) := by
  simp only [rowSet, hr, specRow, encodeVal, Val.tag, inRange, copyinInt, ne_eq, not_true_eq_false, if_false,
    load_enc, csize_int, dec_enc_i32 i hw, reduceCtorEq]
  by_cases h1 : i > r.hi
  · have : ¬ (r.lo ≤ i ∧ i ≤ r.hi) := by omega
    simp [h1, this, Err.einval]
  · by_cases h2 : i < r.lo
    · have : ¬ (r.lo ≤ i ∧ i ≤ r.hi) := by omega
      simp [h1, h2, this, Err.einval]
    · have : r.lo ≤ i ∧ i ≤ r.hi := by omega
      simp [h1, h2, this]

theorem rowSet_ms (g : Bool) (r : Row) (st : Store) (i : Int) (hr : r.tag = .ms)
    (hw : -2147483648 ≤ i ∧ i < 2147483648) :
    rowSet g r st false (encodeVal (.ms i)) (encodeVal (.ms i)).length Tag.ms = specRow r st (.ms i) := by
  simp only [rowSet, hr, specRow, encodeVal, Val.tag, inRange, copyinMs, ne_eq, not_true_eq_false, if_false,
    load_enc, csize_ms, dec_enc_i32 i hw, reduceCtorEq]
  by_cases h1 : i < -1
  · have : ¬ (-1 ≤ i) := by omega
    simp [h1, this, Err.einval]
  · have : -1 ≤ i := by omega
    simp [h1, this]

theorem rowSet_size (g : Bool) (r : Row) (st : Store) (n : Nat) (hr : r.tag = .size)
    (hw : n < 18446744073709551616) :
    rowSet g r st false (encodeVal (.size n)) (encodeVal (.size n)).length Tag.size = specRow r st (.size n) := by
  simp only [rowSet, hr, specRow, encodeVal, Val.tag, inRange, copyinSize, ne_eq, not_true_eq_false, if_false,
    load_enc, csize_size, dec_enc_u64 n hw, reduceCtorEq]
  by_cases h1 : n > r.hi.toNat ∨ n < r.lo.toNat
  · have : ¬ (r.lo.toNat ≤ n ∧ n ≤ r.hi.toNat) := by omega
    rw [if_pos h1]
    simp [Err.einval] <;> omega
  · have : r.lo.toNat ≤ n ∧ n ≤ r.hi.toNat := by omega
    rw [if_neg h1]
    simp <;> omega

theorem rowSet_bool (g : Bool) (r : Row) (st : Store) (b : Bool) (hr : r.tag = .bool) :
    rowSet g r st false (encodeVal (.bool b)) (encodeVal (.bool b)).length Tag.bool = specRow r st (.bool b) := by
  simp only [rowSet, hr, specRow, encodeVal, Val.tag, inRange, copyinBool, ne_eq, not_true_eq_false, if_false,
    load_enc, csize_bool, dec_enc_bool, reduceCtorEq]
  simp

theorem rowSet_addr (g : Bool) (r : Row) (st : Store) (a : Bytes) (hr : r.tag = .addr)
    (hw : a.length = csize .addr) :
    rowSet g r st false (encodeVal (.addr a)) (encodeVal (.addr a)).length Tag.addr = specRow r st (.addr a) := by
  have he : a.take (csize .addr) ++ List.replicate (csize .addr - a.length) 0 = a := by
    rw [← hw]; simp
  simp only [rowSet, hr, specRow, encodeVal, Val.tag, inRange, copyinSockaddr, ne_eq, not_true_eq_false, if_false,
    he, reduceCtorEq]
  rw [← hw, load_exact]
  simp

theorem rowSet_str (r : Row) (st : Store) (s : Bytes) (hr : r.tag = .str) (hw : s.contains 0 = false) :
    rowSet true r st false (encodeVal (.str s)) (encodeVal (.str s)).length Tag.str = specRow r st (.str s) := by
  have h1 := strnlen_terminated s [] hw (s.length + 1) (by omega)
  have h2 := cstr_terminated s [] hw
  simp only [rowSet, hr, specRow, encodeVal, Val.tag, inRange, checkString, ne_eq, not_true_eq_false, if_false,
    List.length_append, List.length_cons, List.length_nil, h1, h2, reduceCtorEq]
  have h3 : ¬ (s.length + 1 ≤ s.length) := by omega
  simp [h3]

/-- the o_set handler of ANY entry on the buffer a typed wrapper builds for ANY representable value is the
    specification's verdict for that entry, and no access leaves the buffer -/
theorem rowSet_wrap (r : Row) (st : Store) (v : Val) (hw : wfVal v = true) :
    rowSet true r st false (encodeVal v) (encodeVal v).length v.tag = specRow r st v := by
  by_cases hm : v.tag = r.tag
  · cases v with
    | bool b => exact rowSet_bool true r st b hm.symm
    | int i => exact rowSet_int true r st i hm.symm (by simpa [wfVal] using hw)
    | size n => exact rowSet_size true r st n hm.symm (by simpa [wfVal] using hw)
    | ms d => exact rowSet_ms true r st d hm.symm (by simpa [wfVal] using hw)
    | str s => exact rowSet_str r st s hm.symm (by simpa [wfVal] using hw)
    | addr a => exact rowSet_addr true r st a hm.symm (by simpa [wfVal] using hw)
  · -- the tag is tested before anything is read
    have hm' : ¬ (r.tag = v.tag) := fun h => hm h.symm
    cases hr : r.tag with
    | none => simp [rowSet, specRow, hr]
    | int => simp [rowSet, specRow, hr, copyinInt_badtype _ _ _ _ _ _ (hr ▸ hm), hm, Err.ebadtype, hr ▸ hm]
    | size => simp [rowSet, specRow, hr, copyinSize_badtype _ _ _ _ _ _ (hr ▸ hm), Err.ebadtype, hr ▸ hm]
    | ms => simp [rowSet, specRow, hr, copyinMs_badtype _ _ _ _ (hr ▸ hm), Err.ebadtype, hr ▸ hm]
    | bool => simp [rowSet, specRow, hr, copyinBool_badtype _ _ _ _ (hr ▸ hm), Err.ebadtype, hr ▸ hm]
    | addr => simp [rowSet, specRow, hr, copyinSockaddr_badtype _ _ _ (hr ▸ hm), Err.ebadtype, hr ▸ hm]
    | str => simp [rowSet, specRow, hr, checkString, Err.ebadtype, hr ▸ hm]


/-! ### walkers and layering -/

theorem specRow_safe (r : Row) (st : Store) (v : Val) : (specRow r st v).safe = true := by
  unfold specRow; split
  · rfl
  · split
    · rfl
    · split <;> rfl

theorem specRow_rv_ne (r : Row) (st : Store) (v : Val) : (specRow r st v).rv ≠ Err.enotsup := by
  unfold specRow; split
  · (simp [Err.enotsup, Err.ebadtype, Err.einval, Err.ereadonly, rvUnmodelled])
  · split
    · (simp [Err.enotsup, Err.ebadtype, Err.einval, Err.ereadonly, rvUnmodelled])
    · split <;> (simp [Err.enotsup, Err.ebadtype, Err.einval, Err.ereadonly, rvUnmodelled])

/-- the specification's answer for a name, as a result record -/
def specSetR (layers : List Table) (st : Store) (nm : String) (v : Val) : R Store :=
  match findRow layers nm with
  | none => ⟨Err.enotsup, st, true⟩
  | some r => if !r.hasSet then ⟨Err.ereadonly, st, true⟩ else specRow r st v

def specTab (tb : Table) (st : Store) (nm : String) (v : Val) : R Store :=
  match tb.find? (fun r => r.name == nm) with
  | none => ⟨Err.enotsup, st, true⟩
  | some r => if !r.hasSet then ⟨Err.ereadonly, st, true⟩ else specRow r st v

theorem setopt_wrap (tb : Table) (nm : String) (st : Store) (v : Val) (hw : wfVal v = true) :
    setopt true tb nm st false (encodeVal v) (encodeVal v).length v.tag = specTab tb st nm v := by
  induction tb with
  | nil => simp [setopt, specTab]
  | cons r rest ih =>
    by_cases h : (r.name == nm) = true
    · simp only [setopt, specTab, List.find?_cons, h, if_true]
      rw [rowSet_wrap r st v hw]
    · have h' : (r.name == nm) = false := by simpa using h
      simp only [setopt, specTab, List.find?_cons, h']
      simpa [specTab] using ih

theorem specTab_found (tb : Table) (st : Store) (nm : String) (v : Val) (r : Row)
    (h : tb.find? (fun r => r.name == nm) = some r) : (specTab tb st nm v).rv ≠ Err.enotsup := by
  simp only [specTab, h]
  split
  · (simp [Err.enotsup, Err.ebadtype, Err.einval, Err.ereadonly, rvUnmodelled])
  · exact specRow_rv_ne r st v

theorem setLayers_wrap (layers : List Table) (nm : String) (st : Store) (v : Val) (hw : wfVal v = true) :
    setLayers true layers nm st false (encodeVal v) (encodeVal v).length v.tag = specSetR layers st nm v := by
  induction layers with
  | nil => simp [setLayers, specSetR, findRow]
  | cons tb rest ih =>
    simp only [setLayers, setopt_wrap tb nm st v hw]
    cases hf : tb.find? (fun r => r.name == nm) with
    | some r =>
      have hne := specTab_found tb st nm v r hf
      rw [if_pos hne]
      simp [specTab, specSetR, findRow, List.find?_append, hf]
    | none =>
      have h0 : specTab tb st nm v = ⟨Err.enotsup, st, true⟩ := by simp [specTab, hf]
      rw [h0, ih]
      simp [specSetR, findRow, List.find?_append, hf]

theorem specSetR_eq (layers : List Table) (st : Store) (nm : String) (v : Val) :
    (specSetR layers st nm v).safe = true ∧
    ((specSetR layers st nm v).rv, (specSetR layers st nm v).val) = OptSpec.set layers st nm v := by
  unfold specSetR OptSpec.set
  cases hf : findRow layers nm with
  | none => simp
  | some r =>
    have hn : r.name = nm := by
      have := List.find?_some hf
      simpa using this
    by_cases h1 : r.hasSet = true
    · simp only [h1, Bool.not_true, Bool.false_eq_true, if_false, specRow]
      by_cases h2 : r.tag = .none
      · simp [h2]
      · by_cases h3 : v.tag ≠ r.tag
        · simp [h2, h3]
        · by_cases h4 : inRange r v = true
          · simp [h2, h3, h4, hn]
          · simp [h2, h3, h4]
    · simp [h1]

/-! ### NULL passed for a string -/

theorem rowSet_null (r : Row) (st : Store) :
    rowSet true r st true [] 0 Tag.str =
      (if r.tag = .none then ⟨rvUnmodelled, st, true⟩
       else if r.tag ≠ .str then ⟨Err.ebadtype, st, true⟩ else ⟨Err.einval, st, true⟩) := by
  cases hr : r.tag <;> simp [rowSet, hr, copyinInt, copyinSize, copyinMs, copyinBool, copyinSockaddr, checkString, Err.ebadtype, Err.einval]

def specNullR (layers : List Table) (st : Store) (nm : String) : R Store :=
  match findRow layers nm with
  | none => ⟨Err.enotsup, st, true⟩
  | some r =>
    if !r.hasSet then ⟨Err.ereadonly, st, true⟩
    else if r.tag = .none then ⟨rvUnmodelled, st, true⟩
    else if r.tag ≠ .str then ⟨Err.ebadtype, st, true⟩ else ⟨Err.einval, st, true⟩

theorem setopt_null (tb : Table) (nm : String) (st : Store) :
    setopt true tb nm st true [] 0 Tag.str =
      (match tb.find? (fun r => r.name == nm) with
       | none => ⟨Err.enotsup, st, true⟩
       | some r =>
         if !r.hasSet then ⟨Err.ereadonly, st, true⟩
         else if r.tag = .none then ⟨rvUnmodelled, st, true⟩
         else if r.tag ≠ .str then ⟨Err.ebadtype, st, true⟩ else ⟨Err.einval, st, true⟩) := by
  induction tb with
  | nil => simp [setopt]
  | cons r rest ih =>
    by_cases h : (r.name == nm) = true
    · simp only [setopt, List.find?_cons, h, if_true, rowSet_null]
    · have h' : (r.name == nm) = false := by simpa using h
      simp only [setopt, List.find?_cons, h']
      simpa using ih

theorem setLayers_null (layers : List Table) (nm : String) (st : Store) :
    setLayers true layers nm st true [] 0 Tag.str = specNullR layers st nm := by
  induction layers with
  | nil => simp [setLayers, specNullR, findRow]
  | cons tb rest ih =>
    simp only [setLayers, setopt_null]
    cases hf : tb.find? (fun r => r.name == nm) with
    | some r =>
      have hne : (if (!r.hasSet) = true then (⟨Err.ereadonly, st, true⟩ : R Store)
          else if r.tag = .none then ⟨rvUnmodelled, st, true⟩
          else if r.tag ≠ .str then ⟨Err.ebadtype, st, true⟩ else ⟨Err.einval, st, true⟩).rv ≠ Err.enotsup := by
        split
        · (simp [Err.enotsup, Err.ebadtype, Err.einval, Err.ereadonly, rvUnmodelled])
        · split
          · (simp [Err.enotsup, Err.ebadtype, Err.einval, Err.ereadonly, rvUnmodelled])
          · split <;> (simp [Err.enotsup, Err.ebadtype, Err.einval, Err.ereadonly, rvUnmodelled])
      simp only []
      rw [if_pos hne]
      simp [specNullR, findRow, List.find?_append, hf]
    | none =>
      simp only []
      rw [ih]
      simp [specNullR, findRow, List.find?_append, hf]

end Nng.Opt

namespace Nng.Opt
open Nng Nng.OptSpec

/-! ### get -/

/-- model result `r` of a get with tag `t` into `dst` agrees with the specification's answer `spec` -/
def GetOk (r : R Bytes) (spec : Nat × Option Val) (t : Tag) (dst : Bytes) (strs : Store) (nm : String) : Prop :=
  r.safe = true ∧ r.rv = spec.1 ∧ (r.rv ≠ 0 → r.val = dst) ∧
  (r.rv = 0 → r.val.length = dst.length ∧ r.val.drop (csize t) = dst.drop (csize t) ∧
    ∀ v, spec.2 = some v → v.tag = t → wfVal v = true → decodeVal t r.val strs nm = some v)

def specRowGet (r : Row) (st : Store) (t : Tag) : Nat × Option Val :=
  if r.tag = .none then (rvUnmodelled, none)
  else if t ≠ r.tag then (Err.ebadtype, none)
  else (0, st.get r.name)

theorem take_enc (n x : Nat) (rest : Bytes) : (leEncode n x ++ rest).take n = leEncode n x := by
  have := List.take_left' (l₁ := leEncode n x) (l₂ := rest) (leEncode_length n x)
  exact this

theorem drop_enc (n x : Nat) (rest : Bytes) : (leEncode n x ++ rest).drop n = rest := by
  have := List.drop_left' (l₁ := leEncode n x) (l₂ := rest) (leEncode_length n x)
  exact this

theorem enc_len (n x : Nat) (dst : Bytes) (h : n ≤ dst.length) : (leEncode n x ++ dst.drop n).length = dst.length := by
  simp; omega

theorem specRowGet_match (r : Row) (st : Store) (t : Tag) (hr : r.tag = t) (hn : t ≠ .none) :
    specRowGet r st t = (0, st.get r.name) := by
  subst hr; simp [specRowGet, hn]

theorem specRowGet_mismatch (r : Row) (st : Store) (t : Tag) (hr : r.tag ≠ .none) (ht : t ≠ r.tag) :
    specRowGet r st t = (Err.ebadtype, none) := by
  simp [specRowGet, hr, ht]

theorem getOk_badtype (dst : Bytes) (t : Tag) (strs : Store) (nm : String) :
    GetOk ⟨Err.ebadtype, dst, true⟩ (Err.ebadtype, none) t dst strs nm := by
  refine ⟨rfl, rfl, fun _ => rfl, fun h => ?_⟩
  simp [Err.ebadtype] at h

theorem rowGet_ok (r : Row) (st : Store) (dst : Bytes) (t : Tag) (hd : csize t ≤ dst.length) :
    GetOk (rowGet r st dst t) (specRowGet r st t) t dst st r.name := by
  cases hr : r.tag with
  | none =>
    have h1 : rowGet r st dst t = ⟨rvUnmodelled, dst, true⟩ := by simp [rowGet, hr]
    have h2 : specRowGet r st t = (rvUnmodelled, none) := by simp [specRowGet, hr]
    rw [h1, h2]
    refine ⟨rfl, rfl, fun _ => rfl, fun h => ?_⟩
    simp [rvUnmodelled] at h
  | int =>
    have h1 : rowGet r st dst t = copyoutInt (storedInt st r.name) dst t := by simp [rowGet, hr]
    rw [h1]
    by_cases ht : t = .int
    · subst ht
      rw [specRowGet_match r st _ hr (by decide), copyoutInt_ok _ _ hd]
      refine ⟨rfl, rfl, fun h => absurd rfl h, fun _ => ⟨enc_len _ _ _ hd, drop_enc _ _ _, ?_⟩⟩
      intro v hv hvt hw
      replace hv : st.get r.name = some v := hv
      cases v <;> simp [Val.tag] at hvt
      rename_i i
      have hi : storedInt st r.name = i := by simp only [storedInt, hv]
      have hw' : -2147483648 ≤ i ∧ i < 2147483648 := by simpa [wfVal] using hw
      simp only [decodeVal, take_enc, hi, csize_int, dec_enc_i32 i hw']
    · rw [specRowGet_mismatch r st t (by simp [hr]) (by simp [hr, ht]), copyout_badtype.2.1 _ _ _ ht]
      exact getOk_badtype _ _ _ _
  | ms =>
    have h1 : rowGet r st dst t = copyoutMs (storedMs st r.name) dst t := by simp [rowGet, hr]
    rw [h1]
    by_cases ht : t = .ms
    · subst ht
      rw [specRowGet_match r st _ hr (by decide), copyoutMs_ok _ _ hd]
      refine ⟨rfl, rfl, fun h => absurd rfl h, fun _ => ⟨enc_len _ _ _ hd, drop_enc _ _ _, ?_⟩⟩
      intro v hv hvt hw
      replace hv : st.get r.name = some v := hv
      cases v <;> simp [Val.tag] at hvt
      rename_i i
      have hi : storedMs st r.name = i := by simp only [storedMs, hv]
      have hw' : -2147483648 ≤ i ∧ i < 2147483648 := by simpa [wfVal] using hw
      simp only [decodeVal, take_enc, hi, csize_ms, dec_enc_i32 i hw']
    · rw [specRowGet_mismatch r st t (by simp [hr]) (by simp [hr, ht]), copyout_badtype.2.2.1 _ _ _ ht]
      exact getOk_badtype _ _ _ _
  | size =>
    have h1 : rowGet r st dst t = copyoutSize (storedSize st r.name) dst t := by simp [rowGet, hr]
    rw [h1]
    by_cases ht : t = .size
    · subst ht
      rw [specRowGet_match r st _ hr (by decide), copyoutSize_ok _ _ hd]
      refine ⟨rfl, rfl, fun h => absurd rfl h, fun _ => ⟨enc_len _ _ _ hd, drop_enc _ _ _, ?_⟩⟩
      intro v hv hvt hw
      replace hv : st.get r.name = some v := hv
      cases v <;> simp [Val.tag] at hvt
      rename_i n
      have hi : storedSize st r.name = n := by simp only [storedSize, hv]
      have hw' : n < 18446744073709551616 := by simpa [wfVal] using hw
      simp only [decodeVal, take_enc, hi, csize_size, dec_enc_u64 n hw']
    · rw [specRowGet_mismatch r st t (by simp [hr]) (by simp [hr, ht]), copyout_badtype.2.2.2.1 _ _ _ ht]
      exact getOk_badtype _ _ _ _
  | bool =>
    have h1 : rowGet r st dst t = copyoutBool (storedBool st r.name) dst t := by simp [rowGet, hr]
    rw [h1]
    by_cases ht : t = .bool
    · subst ht
      rw [specRowGet_match r st _ hr (by decide), copyoutBool_ok _ _ hd]
      refine ⟨rfl, rfl, fun h => absurd rfl h, fun _ => ⟨enc_len _ _ _ hd, drop_enc _ _ _, ?_⟩⟩
      intro v hv hvt hw
      replace hv : st.get r.name = some v := hv
      cases v <;> simp [Val.tag] at hvt
      rename_i b
      have hi : storedBool st r.name = b := by simp only [storedBool, hv]
      simp only [decodeVal, take_enc, hi, csize_bool, dec_enc_bool]
    · rw [specRowGet_mismatch r st t (by simp [hr]) (by simp [hr, ht]), copyout_badtype.1 _ _ _ ht]
      exact getOk_badtype _ _ _ _
  | str =>
    have h1 : rowGet r st dst t = copyoutStr strPtr dst t := by simp [rowGet, hr]
    rw [h1]
    by_cases ht : t = .str
    · subst ht
      rw [specRowGet_match r st _ hr (by decide), copyoutStr_ok _ _ hd]
      refine ⟨rfl, rfl, fun h => absurd rfl h, fun _ => ⟨enc_len _ _ _ hd, drop_enc _ _ _, ?_⟩⟩
      intro v hv hvt hw
      replace hv : st.get r.name = some v := hv
      cases v <;> simp [Val.tag] at hvt
      simp only [decodeVal, hv]
    · rw [specRowGet_mismatch r st t (by simp [hr]) (by simp [hr, ht]), copyout_badtype.2.2.2.2.2 _ _ _ ht]
      exact getOk_badtype _ _ _ _
  | addr =>
    have h1 : rowGet r st dst t = copyoutSockaddr (storedAddr st r.name) dst t := by simp [rowGet, hr]
    rw [h1]
    by_cases ht : t = .addr
    · subst ht
      have hl := addrBytes_length (storedAddr st r.name)
      rw [specRowGet_match r st _ hr (by decide), copyoutSockaddr_ok _ _ hd]
      refine ⟨rfl, rfl, fun h => absurd rfl h, fun _ => ⟨?_, List.drop_left' hl, ?_⟩⟩
      · simp only [List.length_append, hl, List.length_drop]; omega
      intro v hv hvt hw
      replace hv : st.get r.name = some v := hv
      cases v <;> simp [Val.tag] at hvt
      rename_i a
      have hi : storedAddr st r.name = a := by simp only [storedAddr, hv]
      have hw' : a.length = csize .addr := by simpa [wfVal] using hw
      have he : a.take (csize .addr) ++ List.replicate (csize .addr - a.length) 0 = a := by
        rw [← hw']; simp
      simp only [decodeVal, hi, he]
      rw [List.take_left' hw']
    · rw [specRowGet_mismatch r st t (by simp [hr]) (by simp [hr, ht]), copyout_badtype.2.2.2.2.1 _ _ _ ht]
      exact getOk_badtype _ _ _ _

def specTabGet (tb : Table) (st : Store) (nm : String) (t : Tag) : Nat × Option Val :=
  match tb.find? (fun r => r.name == nm) with
  | none => (Err.enotsup, none)
  | some r => if !r.hasGet then (Err.ewriteonly, none) else specRowGet r st t

theorem specRowGet_ne (r : Row) (st : Store) (t : Tag) : (specRowGet r st t).1 ≠ Err.enotsup := by
  unfold specRowGet
  split
  · simp [rvUnmodelled, Err.enotsup]
  · split <;> simp [Err.ebadtype, Err.enotsup]

theorem getopt_ok (tb : Table) (nm : String) (st : Store) (dst : Bytes) (t : Tag) (hd : csize t ≤ dst.length) :
    GetOk (getopt tb nm st dst t) (specTabGet tb st nm t) t dst st nm := by
  induction tb with
  | nil =>
    simp only [getopt, specTabGet, List.find?_nil]
    refine ⟨rfl, rfl, fun _ => rfl, fun h => ?_⟩
    simp [Err.enotsup] at h
  | cons r rest ih =>
    by_cases h : (r.name == nm) = true
    · have hn : r.name = nm := by simpa using h
      simp only [getopt, specTabGet, List.find?_cons, h, if_true]
      by_cases hg : r.hasGet = true
      · simp only [hg, Bool.not_true, Bool.false_eq_true, if_false]
        have := rowGet_ok r st dst t hd
        rw [hn] at this
        exact this
      · have hg' : r.hasGet = false := by simpa using hg
        simp only [hg', Bool.not_false, if_true]
        refine ⟨rfl, rfl, fun _ => rfl, fun h => ?_⟩
        simp [Err.ewriteonly] at h
    · have h' : (r.name == nm) = false := by simpa using h
      simp only [getopt, specTabGet, List.find?_cons, h']
      simpa [specTabGet] using ih

theorem getLayers_ok (layers : List GLayer) (nm : String) (own parent : Store) (dst : Bytes) (t : Tag)
    (hd : csize t ≤ dst.length) :
    GetOk (getLayers layers nm own parent dst t) (OptSpec.get layers own parent nm t) t dst
      (whichStore layers nm own parent) nm := by
  induction layers with
  | nil =>
    simp only [getLayers, OptSpec.get, findG]
    refine ⟨rfl, rfl, fun _ => rfl, fun h => ?_⟩
    simp [Err.enotsup] at h
  | cons l rest ih =>
    obtain ⟨par, tb⟩ := l
    have hk := getopt_ok tb nm (if par then parent else own) dst t hd
    cases hf : tb.find? (fun r => r.name == nm) with
    | some row =>
      have hn : row.name = nm := by
        have := List.find?_some hf
        simpa using this
      have hspec : specTabGet tb (if par then parent else own) nm t = OptSpec.get ((par, tb) :: rest) own parent nm t := by
        simp only [specTabGet, hf, OptSpec.get, findG, specRowGet, hn]
      have hne : (getopt tb nm (if par then parent else own) dst t).rv ≠ Err.enotsup := by
        rw [hk.2.1]
        simp only [specTabGet, hf]
        split
        · simp [Err.ewriteonly, Err.enotsup]
        · exact specRowGet_ne _ _ _
      simp only [getLayers, whichStore, hf]
      rw [if_pos hne, ← hspec]
      exact hk
    | none =>
      have h0 : specTabGet tb (if par then parent else own) nm t = (Err.enotsup, none) := by simp [specTabGet, hf]
      rw [h0] at hk
      have hrv : (getopt tb nm (if par then parent else own) dst t).rv = Err.enotsup := hk.2.1
      have hspec : OptSpec.get ((par, tb) :: rest) own parent nm t = OptSpec.get rest own parent nm t := by
        simp [OptSpec.get, findG, hf]
      simp only [getLayers, whichStore, hf]
      rw [if_neg (by simp [hrv]), hspec]
      refine ⟨?_, ih.2.1, ih.2.2.1, ih.2.2.2⟩
      simp [hk.1, ih.1]

theorem findG_prefix (setL : List Table) (rest : List GLayer) (nm : String) (r : Row)
    (h : findRow setL nm = some r) :
    findG (setL.map (fun t => (false, t)) ++ rest) nm = some (false, r) ∧
    ∀ own parent, whichStore (setL.map (fun t => (false, t)) ++ rest) nm own parent = own := by
  induction setL with
  | nil => simp [findRow] at h
  | cons tb tbs ih =>
    simp only [findRow, List.flatten_cons, List.find?_append] at h
    cases hf : tb.find? (fun r => r.name == nm) with
    | some r' =>
      simp only [hf, Option.some_or] at h
      cases h
      simp [findG, whichStore, hf]
    | none =>
      simp only [hf, Option.none_or] at h
      obtain ⟨i1, i2⟩ := ih (by simpa [findRow] using h)
      simp only [List.map_cons, List.cons_append, findG, whichStore, hf]
      exact ⟨i1, i2⟩

theorem store_get_put (st : Store) (nm : String) (v : Val) : (st.put nm v).get nm = some v := by
  simp [Store.put, Store.get, List.lookup]


end Nng.Opt
