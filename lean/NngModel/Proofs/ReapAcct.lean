/- accounting invariants of Model/Reap.lean: every submitted object is queued, in the worker's batch, inside its reap
   function or finalised - exactly one of these; nothing is submitted twice when the program names each object once -/
import NngModel.Proofs.ReapInv
set_option linter.unusedSimpArgs false
namespace Nng.Reap

def childIds (n : Node) : List Nat := match n.child with | some (_, c) => [c] | none => []
def nodesFuture (ns : List Node) : List Nat := ns.flatMap childIds
def opIds : Op → List Nat
  | .reap _ n => [n.id] ++ childIds n
  | _ => []
def Client.prog : Client → List Op
  | .ready p => p
  | .drainSleep _ p => p
  | .joining p => p
def clientFuture (c : Client) : List Nat := c.prog.flatMap opIds
def Worker.future : Worker → List Nat
  | .run b _ => nodesFuture b
  | .nest _ _ c rest _ => [c] ++ nodesFuture rest
  | _ => []
def listFuture (rl : RList) : List Nat := nodesFuture rl.nodes
def listIds (rl : RList) : List Nat := nodeIds rl.nodes
/-- ids that may still be handed to nni_reap -/
def future (s : State) : List Nat :=
  s.clients.flatMap clientFuture ++ s.lists.flatMap listFuture ++ s.worker.future

theorem queuedIds_eq (s : State) : queuedIds s = s.lists.flatMap listIds := rfl

theorem count_flatMap_set {α : Type} (f : α → List Nat) (x : Nat) (ls : List α) (l : Nat) (a a' : α)
    (h : ls[l]? = some a) :
    List.count x ((ls.set l a').flatMap f) + List.count x (f a) = List.count x (ls.flatMap f) + List.count x (f a') := by
  induction ls generalizing l with
  | nil => simp at h
  | cons b t ih =>
    cases l with
    | zero =>
      simp at h; subst h
      simp only [List.set_cons_zero, List.flatMap_cons, List.count_append]; omega
    | succ k =>
      simp at h
      have := ih k h
      simp only [List.set_cons_succ, List.flatMap_cons, List.count_append]; omega

theorem nodeIds_cons (n : Node) (ns : List Node) : nodeIds (n :: ns) = [n.id] ++ nodeIds ns := rfl
theorem nodesFuture_cons (n : Node) (ns : List Node) : nodesFuture (n :: ns) = childIds n ++ nodesFuture ns := by
  simp [nodesFuture]

theorem inFunc_run (b : List Node) (p : List Nat) : (Worker.run b p).inFunc = [] := rfl
theorem inFunc_nest (i l c : Nat) (r : List Node) (p : List Nat) : (Worker.nest i l c r p).inFunc = [i] := rfl
theorem inFunc_relock (p : List Nat) : (Worker.relock p).inFunc = [] := rfl
theorem batchIds_run (b : List Node) (p : List Nat) : (Worker.run b p).batchIds = nodeIds b := rfl
theorem batchIds_nest (i l c : Nat) (r : List Node) (p : List Nat) : (Worker.nest i l c r p).batchIds = nodeIds r := rfl
theorem batchIds_relock (p : List Nat) : (Worker.relock p).batchIds = [] := rfl
theorem future_run (b : List Node) (p : List Nat) : (Worker.run b p).future = nodesFuture b := rfl
theorem future_nest (i l c : Nat) (r : List Node) (p : List Nat) : (Worker.nest i l c r p).future = [c] ++ nodesFuture r := rfl
theorem future_relock (p : List Nat) : (Worker.relock p).future = [] := rfl
theorem nodeIds_nil : nodeIds [] = [] := rfl
theorem nodesFuture_nil : nodesFuture [] = [] := rfl

structure Acct (tot : List Nat) (s : State) : Prop where
  A : ∀ x, List.count x s.subm =
        List.count x s.fin + List.count x s.worker.inFunc + List.count x (queuedIds s) + List.count x s.worker.batchIds
  D : ∀ x, List.count x s.subm + List.count x (future s) ≤ List.count x tot
  doneEq : s.done = s.fin ++ s.worker.inFunc

theorem acct_init (nl : Nat) (progs : List (List Op)) : Acct (future (init nl progs)) (init nl progs) := by
  refine ⟨?_, ?_, ?_⟩
  · intro x
    have : queuedIds (init nl progs) = [] := by
      simp [queuedIds, init, nodeIds]
    rw [this]; simp [init]; rfl
  · intro x; simp [init]
  · simp [init, Worker.inFunc]


theorem wakeWorker_inFunc (w : Worker) : (wakeWorker w).inFunc = w.inFunc := by cases w <;> rfl
theorem wakeWorker_batchIds (w : Worker) : (wakeWorker w).batchIds = w.batchIds := by cases w <;> rfl
theorem wakeWorker_future (w : Worker) : (wakeWorker w).future = w.future := by cases w <;> rfl

theorem afterNode_inFunc (rest : List Node) (pos : List Nat) : (afterNode rest pos).inFunc = [] := by
  unfold afterNode; split <;> rfl
theorem afterNode_batchIds (rest : List Node) (pos : List Nat) : (afterNode rest pos).batchIds = nodeIds rest := by
  unfold afterNode; split
  · next h => simp at h; subst h; rfl
  · rfl
theorem afterNode_future (rest : List Node) (pos : List Nat) : (afterNode rest pos).future = nodesFuture rest := by
  unfold afterNode; split
  · next h => simp at h; subst h; rfl
  · rfl

/-- the parts of the state that the accounting reads -/
structure Parts (x : Nat) where
  subm : Nat
  fin : Nat
  inF : Nat
  q : Nat
  batch : Nat
  cf : Nat
  lf : Nat
  wf : Nat

def parts (s : State) (x : Nat) : Parts x :=
  { subm := List.count x s.subm, fin := List.count x s.fin, inF := List.count x s.worker.inFunc,
    q := List.count x (s.lists.flatMap listIds), batch := List.count x s.worker.batchIds,
    cf := List.count x (s.clients.flatMap clientFuture), lf := List.count x (s.lists.flatMap listFuture),
    wf := List.count x s.worker.future }

theorem acct_iff (tot : List Nat) (s : State) :
    Acct tot s ↔ (∀ x, (parts s x).subm = (parts s x).fin + (parts s x).inF + (parts s x).q + (parts s x).batch) ∧
      (∀ x, (parts s x).subm + ((parts s x).cf + (parts s x).lf + (parts s x).wf) ≤ List.count x tot) ∧
      s.done = s.fin ++ s.worker.inFunc := by
  constructor
  · intro h
    refine ⟨fun x => by have := h.A x; simpa [parts, queuedIds_eq] using this,
            fun x => by have := h.D x; simp only [parts, future, List.count_append] at this ⊢; omega, h.doneEq⟩
  · intro h
    refine ⟨fun x => by have := h.1 x; simpa [parts, queuedIds_eq] using this,
            fun x => by have := h.2.1 x; simp only [parts, future, List.count_append] at this ⊢; omega, h.2.2⟩

theorem reapBody_none {s : State} {l : Nat} (n : Node) (h : s.lists[l]? = none) : reapBody s l n = s := by
  unfold reapBody; rw [h]

theorem reapBody_parts {s : State} {l : Nat} {rl : RList} (n : Node) (h : s.lists[l]? = some rl) (x : Nat) :
    let s' := reapBody s l n
    (parts s' x).subm = (parts s x).subm + List.count x [n.id] ∧ (parts s' x).fin = (parts s x).fin ∧
    (parts s' x).inF = (parts s x).inF ∧ (parts s' x).q = (parts s x).q + List.count x [n.id] ∧
    (parts s' x).batch = (parts s x).batch ∧ (parts s' x).cf = (parts s x).cf ∧
    (parts s' x).lf = (parts s x).lf + List.count x (childIds n) ∧ (parts s' x).wf = (parts s x).wf ∧
    s'.done = s.done ∧ s'.fin = s.fin ∧ s'.worker.inFunc = s.worker.inFunc ∧ s'.clients = s.clients := by
  have hq := count_flatMap_set listIds x s.lists l rl { nodes := n :: rl.nodes, inited := true } h
  have hf := count_flatMap_set listFuture x s.lists l rl { nodes := n :: rl.nodes, inited := true } h
  simp only [listIds, listFuture, nodeIds_cons, nodesFuture_cons, List.count_append] at hq hf
  unfold reapBody; rw [h]
  simp only [parts, List.count_append, wakeWorker_inFunc, wakeWorker_batchIds, wakeWorker_future]
  refine ⟨trivial, trivial, trivial, ?_, trivial, trivial, ?_, trivial, trivial, trivial, trivial, trivial⟩ <;> omega


def Worker.quiet (w : Worker) : Prop := w.inFunc = [] ∧ w.batchIds = [] ∧ w.future = []

theorem clearList_eq {lists : List RList} {l : Nat} {rl : RList} (h : lists[l]? = some rl) :
    clearList lists l = lists.set l { rl with nodes := [] } := by
  unfold clearList; rw [h]

theorem take_acct {tot : List Nat} {s : State} (h : Acct tot s) (hq : s.worker.quiet)
    {pos : List Nat} {l : Nat} {b : List Node} {rest : List Nat} (hf : findBatch s.lists pos = some (l, b, rest)) :
    Acct tot { s with lists := clearList s.lists l, worker := .run b rest } := by
  obtain ⟨rl, hrl, hb, _⟩ := findBatch_some hf
  obtain ⟨h1, h2, h3⟩ := hq
  rw [acct_iff] at h ⊢
  obtain ⟨hA, hD, hE⟩ := h
  rw [clearList_eq hrl]
  refine ⟨fun x => ?_, fun x => ?_, ?_⟩
  · have a := hA x
    have c1 := count_flatMap_set listIds x s.lists l rl { rl with nodes := [] } hrl
    simp only [parts, h1, h2, h3, listIds, hb, nodeIds_nil, List.count_nil, inFunc_run, inFunc_nest, inFunc_relock, batchIds_run, batchIds_nest, batchIds_relock] at a c1 ⊢
    omega
  · have a := hD x
    have c2 := count_flatMap_set listFuture x s.lists l rl { rl with nodes := [] } hrl
    simp only [parts, h1, h2, h3, listFuture, hb, nodesFuture_nil, List.count_nil, future_run, future_nest, future_relock] at a c2 ⊢
    omega
  · simpa [inFunc_run, h1] using hE

theorem clientFuture_wake (c : Client) : clientFuture (wakeDrainer c) = clientFuture c := by cases c <;> rfl

theorem flatMap_wake (cs : List Client) : (cs.map wakeDrainer).flatMap clientFuture = cs.flatMap clientFuture := by
  induction cs with
  | nil => rfl
  | cons c t ih => simp [List.flatMap_cons, clientFuture_wake, ih]

theorem passEmpty_acct {tot : List Nat} {s : State} (h : Acct tot s) (hq : s.worker.quiet) : Acct tot (passEmpty s) := by
  obtain ⟨h1, h2, h3⟩ := hq
  rw [acct_iff] at h ⊢
  obtain ⟨hA, hD, hE⟩ := h
  have hw : ∀ w : Worker, w = (if s.exit = true then Worker.fin else Worker.asleep false) →
      w.inFunc = [] ∧ w.batchIds = [] ∧ w.future = [] := by
    intro w hw; subst hw; split <;> exact ⟨rfl, rfl, rfl⟩
  obtain ⟨w1, w2, w3⟩ := hw _ rfl
  unfold passEmpty
  refine ⟨fun x => ?_, fun x => ?_, ?_⟩
  · have a := hA x
    simp only [parts, h1, h2, w1, w2] at a ⊢; exact a
  · have a := hD x
    simp only [parts, h3, w3, flatMap_wake] at a ⊢; exact a
  · simpa [w1, h1] using hE

theorem scan_acct {tot : List Nat} {s : State} (h : Acct tot s) (hq : s.worker.quiet) (pos : List Nat) (r : Bool) :
    Acct tot (scan s pos r) := by
  unfold scan
  cases hf : findBatch s.lists pos with
  | some t => obtain ⟨l, b, rest⟩ := t; exact take_acct h hq hf
  | none =>
    dsimp only
    split
    · cases hf2 : findBatch s.lists s.order with
      | some t => obtain ⟨l, b, rest⟩ := t; exact take_acct h hq hf2
      | none => exact passEmpty_acct h hq
    · exact passEmpty_acct h hq

theorem workerStep_acct {tot : List Nat} {s : State} (h : Acct tot s) : Acct tot (workerStep s) := by
  unfold workerStep
  split
  · next hw => exact scan_acct h (by rw [Worker.quiet, hw]; exact ⟨rfl, rfl, rfl⟩) _ _
  · next hw => exact scan_acct h (by rw [Worker.quiet, hw]; exact ⟨rfl, rfl, rfl⟩) _ _
  · exact h
  · exact h
  · next pos hw => exact scan_acct h (by rw [Worker.quiet, hw]; exact ⟨rfl, rfl, rfl⟩) _ _
  · next pos hw =>
    rw [acct_iff] at h ⊢
    obtain ⟨hA, hD, hE⟩ := h
    refine ⟨fun x => ?_, fun x => ?_, ?_⟩
    · have a := hA x; simp only [parts, hw, inFunc_run, inFunc_nest, inFunc_relock, batchIds_run, batchIds_nest, batchIds_relock] at a ⊢; exact a
    · have a := hD x; simp only [parts, hw, future_run, future_nest, future_relock] at a ⊢; exact a
    · simpa [hw, inFunc_run, inFunc_relock] using hE
  · next n rest pos hw =>
    rw [acct_iff] at h
    obtain ⟨hA, hD, hE⟩ := h
    split
    · next hc =>
      rw [acct_iff]
      refine ⟨fun x => ?_, fun x => ?_, ?_⟩
      · have a := hA x
        simp only [parts, hw, inFunc_run, inFunc_nest, inFunc_relock, batchIds_run, batchIds_nest, batchIds_relock, nodeIds_cons, List.count_append, afterNode_inFunc,
          afterNode_batchIds, List.count_nil] at a ⊢
        omega
      · have a := hD x
        simp only [parts, hw, future_run, future_nest, future_relock, nodesFuture_cons, List.count_append, afterNode_future] at a ⊢
        omega
      · simp only [afterNode_inFunc, List.append_nil]
        rw [hE, hw]; simp [inFunc_run, inFunc_nest, inFunc_relock]
    · next l c hc =>
      rw [acct_iff]
      refine ⟨fun x => ?_, fun x => ?_, ?_⟩
      · have a := hA x
        simp only [parts, hw, inFunc_run, inFunc_nest, inFunc_relock, batchIds_run, batchIds_nest, batchIds_relock, nodeIds_cons, List.count_append, List.count_nil] at a ⊢
        omega
      · have a := hD x
        simp only [parts, hw, future_run, future_nest, future_relock, nodesFuture_cons, List.count_append, childIds, hc] at a ⊢
        omega
      · rw [hE, hw]; simp [inFunc_run, inFunc_nest, inFunc_relock]
  · next id l c rest pos hw =>
    rw [acct_iff] at h
    obtain ⟨hA, hD, hE⟩ := h
    cases hl : s.lists[l]? with
    | none =>
      rw [reapBody_none _ (by simpa using hl), acct_iff]
      refine ⟨fun x => ?_, fun x => ?_, ?_⟩
      · have a := hA x
        simp only [parts, hw, inFunc_run, inFunc_nest, inFunc_relock, batchIds_run, batchIds_nest, batchIds_relock, List.count_append, afterNode_inFunc,
          afterNode_batchIds, List.count_nil] at a ⊢
        omega
      · have a := hD x
        simp only [parts, hw, future_run, future_nest, future_relock, List.count_append, afterNode_future] at a ⊢
        omega
      · simp only [afterNode_inFunc, List.append_nil]
        rw [hE, hw]; simp [inFunc_run, inFunc_nest, inFunc_relock]
    | some rl =>
      rw [acct_iff]
      have hl' : ({ s with worker := afterNode rest pos } : State).lists[l]? = some rl := hl
      refine ⟨fun x => ?_, fun x => ?_, ?_⟩
      · have a := hA x
        obtain ⟨r1, r2, r3, r4, r5, r6, r7, r8, r9, r10, r11, r12⟩ := reapBody_parts { id := c } hl' x
        simp only [parts, hw, inFunc_run, inFunc_nest, inFunc_relock, batchIds_run, batchIds_nest, batchIds_relock, List.count_append, afterNode_inFunc,
          afterNode_batchIds, List.count_nil] at a r1 r2 r3 r4 r5 r6 r7 r8 ⊢
        rw [r10]
        simp only [List.count_append]
        omega
      · have a := hD x
        obtain ⟨r1, r2, r3, r4, r5, r6, r7, r8, r9, r10, r11, r12⟩ := reapBody_parts { id := c } hl' x
        simp only [parts, hw, future_run, future_nest, future_relock, List.count_append, afterNode_future, childIds, List.count_nil] at a r1 r6 r7 r8 ⊢
        omega
      · obtain ⟨r1, r2, r3, r4, r5, r6, r7, r8, r9, r10, r11, r12⟩ := reapBody_parts { id := c } hl' 0
        simp only at r9 r10 r11
        simp only [r9, r10, r11, afterNode_inFunc, List.append_nil]
        rw [hE, hw]; simp [inFunc_run, inFunc_nest, inFunc_relock]


theorem setClient_acct {tot : List Nat} {s : State} (h : Acct tot s) {i : Nat} {c : Client} (hc : s.clients[i]? = some c)
    (c' : Client) (hle : ∀ x, List.count x (clientFuture c') ≤ List.count x (clientFuture c)) :
    Acct tot { s with clients := s.clients.set i c' } := by
  rw [acct_iff] at h ⊢
  obtain ⟨hA, hD, hE⟩ := h
  refine ⟨hA, fun x => ?_, hE⟩
  have a := hD x
  have c1 := count_flatMap_set clientFuture x s.clients i c c' hc
  have := hle x
  simp only [parts] at a ⊢
  omega

theorem acct_ghost {tot : List Nat} {s : State} (h : Acct tot s) (r : List (List Bool)) (e ex : Bool) :
    Acct tot { s with res := r, empty := e, exit := ex } := by
  rw [acct_iff] at h ⊢; exact h

theorem acct_wake {tot : List Nat} {s : State} (h : Acct tot s) : Acct tot { s with worker := wakeWorker s.worker } := by
  rw [acct_iff] at h ⊢
  obtain ⟨hA, hD, hE⟩ := h
  refine ⟨fun x => ?_, fun x => ?_, ?_⟩
  · have a := hA x; simp only [parts, wakeWorker_inFunc, wakeWorker_batchIds] at a ⊢; exact a
  · have a := hD x; simp only [parts, wakeWorker_future] at a ⊢; exact a
  · simpa [wakeWorker_inFunc] using hE

theorem clientFuture_cons (op : Op) (p : List Op) (c : Client) (hc : c.prog = op :: p) :
    clientFuture c = opIds op ++ clientFuture (.ready p) := by
  unfold clientFuture; rw [hc]; simp [Client.prog]

theorem clientStep_acct {tot : List Nat} {s : State} (h : Acct tot s) (i : Nat) : Acct tot (clientStep s i) := by
  unfold clientStep
  split
  · exact h
  · exact h
  · next l n p hc =>
    have hcf := clientFuture_cons (.reap l n) p (.ready (.reap l n :: p)) rfl
    cases hl : s.lists[l]? with
    | none =>
      rw [reapBody_none _ hl]
      exact setClient_acct h hc _ (by intro x; rw [hcf]; simp [List.count_append])
    | some rl =>
      have hAcc := h
      rw [acct_iff] at h ⊢
      obtain ⟨hA, hD, hE⟩ := h
      refine ⟨fun x => ?_, fun x => ?_, ?_⟩
      · have a := hA x
        obtain ⟨r1, r2, r3, r4, r5, r6, r7, r8, r9, r10, r11, r12⟩ := reapBody_parts n hl x
        simp only [parts] at a r1 r2 r3 r4 r5 ⊢
        omega
      · have a := hD x
        obtain ⟨r1, r2, r3, r4, r5, r6, r7, r8, r9, r10, r11, r12⟩ := reapBody_parts n hl x
        have r12 : (reapBody s l n).clients = s.clients := r12
        have c1 := count_flatMap_set clientFuture x s.clients i _ (.ready p) hc
        rw [hcf] at c1
        simp only [parts, r12, opIds, List.count_append] at a r1 r7 r8 c1 ⊢
        omega
      · obtain ⟨r1, r2, r3, r4, r5, r6, r7, r8, r9, r10, r11, r12⟩ := reapBody_parts n hl 0
        have r9 : (reapBody s l n).done = s.done := r9
        have r10 : (reapBody s l n).fin = s.fin := r10
        have r11 : (reapBody s l n).worker.inFunc = s.worker.inFunc := r11
        simp only [r9, r10, r11]; exact hE
  · next p hc =>
    have hcf := clientFuture_cons .drain p (.ready (.drain :: p)) rfl
    split
    · exact acct_ghost (setClient_acct h hc (.ready p) (by intro x; rw [hcf]; simp [opIds])) _ s.empty s.exit
    · exact setClient_acct h hc (.drainSleep false p) (by intro x; rw [hcf]; simp [opIds, clientFuture, Client.prog])
  · next p hc =>
    have hcf := clientFuture_cons .fini p (.ready (.fini :: p)) rfl
    have h1 : Acct tot { s with worker := wakeWorker s.worker } := acct_wake h
    have h2 := setClient_acct h1 (i := i) hc (.joining p) (by intro x; rw [hcf]; simp [opIds, clientFuture, Client.prog])
    exact acct_ghost h2 s.res s.empty true
  · exact h
  · next p hc =>
    split
    · exact acct_ghost (setClient_acct h hc (.ready p) (by intro x; simp [clientFuture, Client.prog])) _ s.empty s.exit
    · exact setClient_acct h hc (.drainSleep false p) (by intro x; simp [clientFuture, Client.prog])
  · next p hc =>
    split
    · exact setClient_acct h hc (.ready p) (by intro x; simp [clientFuture, Client.prog])
    · exact h

theorem step_acct {tot : List Nat} {s : State} (h : Acct tot s) (t : Tid) : Acct tot (step s t) := by
  cases t with
  | w => exact workerStep_acct h
  | c i => exact clientStep_acct h i

theorem run_acct {tot : List Nat} {s : State} (h : Acct tot s) (sched : List Tid) : Acct tot (run s sched) := by
  induction sched generalizing s with
  | nil => exact h
  | cons t r ih => exact ih (step_acct h t)

end Nng.Reap
