/- the extended trace `traceX` is the model's trace `Nng.Aio.trace` with `cbEnd` / `abortRet`
   observations inserted, nothing else -/
import NngModel.Proofs.AioJudgeDefs
namespace Nng.Aio
open Nng.AioSpec

/-- the observations `traceX` adds -/
def isExtra : Obs → Bool
  | .cbEnd | .abortRet => true
  | _ => false

theorem obsOf_not_extra {s : State} {l : Label} {o : Obs} (h : obsOf s l = some o) : isExtra o = false := by
  cases l with
  | callCancel p rv => cases p <;> simp only [obsOf] at h <;> cases h <;> rfl
  | stopCall f => simp only [obsOf] at h; cases h; cases f <;> rfl
  | stopRet => simp only [obsOf] at h; cases h; cases s.stopFree <;> rfl
  | stopCancel => simp only [obsOf] at h; split at h <;> cases h; rfl
  | expCall => simp only [obsOf] at h; split at h <;> cases h; rfl
  | _ => simp only [obsOf] at h <;> cases h <;> rfl

theorem obsExtra_all_extra (s : State) (g : G) (l : Label) : ∀ o ∈ obsExtra s g l, isExtra o = true := by
  intro o ho
  cases l with
  | cbDone => simp only [obsExtra, List.mem_singleton] at ho; subst ho; rfl
  | abortSec rv =>
    simp only [obsExtra] at ho
    split at ho
    · simp only [List.mem_singleton] at ho; subst ho; rfl
    · cases ho
  | callCancel p rv =>
    simp only [obsExtra] at ho
    split at ho
    · simp only [List.mem_singleton] at ho; subst ho; rfl
    · cases ho
  | _ => simp only [obsExtra] at ho <;> cases ho

theorem obsX_filter (s : State) (g : G) (l : Label) :
    (obsX s g l).filter (fun o => !isExtra o) = (match obsOf s l with | some o => [o] | none => []) := by
  unfold obsX
  rw [List.filter_append]
  have h2 : (obsExtra s g l).filter (fun o => !isExtra o) = [] := by
    rw [List.filter_eq_nil_iff]
    intro o ho
    simp [obsExtra_all_extra s g l o ho]
  rw [h2, List.append_nil]
  cases h : obsOf s l with
  | none => rfl
  | some o => simp [obsOf_not_extra h]

/-- erasing the added observations gives back the model's own trace -/
theorem traceX_filter (cfg : Cfg) (ls : List Label) : ∀ (s : State) (g : G),
    (traceX cfg s g ls).filter (fun o => !isExtra o) = trace cfg s ls := by
  induction ls with
  | nil => intro s g; rfl
  | cons l ls ih =>
    intro s g
    cases h : step cfg s l with
    | none => simp only [traceX, trace, h, List.filter_nil]
    | some s' =>
      simp only [traceX, trace, h, List.filter_append, obsX_filter, ih]
      cases obsOf s l <;> rfl

@[simp] theorem isExtra_cbEnd : isExtra .cbEnd = true := rfl
@[simp] theorem isExtra_abortRet : isExtra .abortRet = true := rfl

theorem obsCore_filter (s : State) (l : Label) :
    (obsCore s l).filter (fun o => !isExtra o) = (match obsOf s l with | some o => [o] | none => []) := by
  unfold obsCore
  cases h : obsOf s l with
  | none => cases l <;> simp
  | some o =>
    have hx := obsOf_not_extra h
    cases l <;> simp [hx]

theorem obsP_filter (pol : RetPolicy) (s : State) (g : G) (l : Label) :
    (obsP pol s g l).filter (fun o => !isExtra o) = (match obsOf s l with | some o => [o] | none => []) := by
  unfold obsP
  rw [List.filter_append, obsCore_filter]
  have h2 : (List.replicate (retNow pol s g l) Obs.abortRet).filter (fun o => !isExtra o) = [] := by
    rw [List.filter_eq_nil_iff]
    intro o ho
    rw [List.eq_of_mem_replicate ho]
    simp
  rw [h2, List.append_nil]

/-- the same for the traces with delayed returns -/
theorem traceP_filter (cfg : Cfg) (pol : RetPolicy) (ls : List Label) : ∀ (s : State) (g : G),
    (traceP cfg pol s g ls).filter (fun o => !isExtra o) = trace cfg s ls := by
  induction ls with
  | nil => intro s g; rfl
  | cons l ls ih =>
    intro s g
    cases h : step cfg s l with
    | none => simp only [traceP, trace, h, List.filter_nil]
    | some s' =>
      simp only [traceP, trace, h, List.filter_append, obsP_filter, ih]
      cases obsOf s l <;> rfl

end Nng.Aio
