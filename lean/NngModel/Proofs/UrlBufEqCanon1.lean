/-
  C19, buffer model = functional model, part 2: the first canonicaliser pass (percent escapes).
  `canon1` (src/dst indices, in place) computes `pass1` of the C string at `src` and leaves it,
  NUL-terminated, at `dst`; nothing below `dst` changes.
-/
import NngModel.Proofs.UrlBufEqBase
set_option linter.unusedSimpArgs false
set_option linter.unusedVariables false
namespace Nng.UrlBufEq
open Nng Nng.Url Nng.UrlBuf Nng.UrlBufProofs Nng.UrlProofs

/-! ### one lemma per branch of the loop body: which memory the loop continues with -/

theorem canon1_end (fuel : Nat) (m : Mem) (src dst : Nat) (h0 : m.rd src = 0) :
    canon1 (fuel + 1) m src dst = ((m.chk src).wr dst 0, true) := by
  unfold canon1
  simp only
  rw [if_pos (show (m.chk src).rd src = 0 from h0)]

theorem canon1_bad1 (fuel : Nat) (m : Mem) (src dst : Nat) (h0 : m.rd src = PCT)
    (h1 : isXDigit (m.rd (src + 1)) = false) : (canon1 (fuel + 1) m src dst).2 = false := by
  unfold canon1
  simp only
  rw [if_neg (show ¬ (m.chk src).rd src = 0 from by rw [rd_chk, h0]; decide),
    if_pos (show (m.chk src).rd src = PCT from h0),
    if_pos (show (!isXDigit (((m.chk src).chk (src + 1)).rd (src + 1))) = true from by simp [h1])]

theorem canon1_bad2 (fuel : Nat) (m : Mem) (src dst : Nat) (h0 : m.rd src = PCT)
    (h1 : isXDigit (m.rd (src + 1)) = true) (h2 : isXDigit (m.rd (src + 2)) = false) :
    (canon1 (fuel + 1) m src dst).2 = false := by
  unfold canon1
  simp only
  rw [if_neg (show ¬ (m.chk src).rd src = 0 from by rw [rd_chk, h0]; decide),
    if_pos (show (m.chk src).rd src = PCT from h0),
    if_neg (show ¬ (!isXDigit (((m.chk src).chk (src + 1)).rd (src + 1))) = true from by simp [h1]),
    if_pos (show (!isXDigit ((((m.chk src).chk (src + 1)).chk (src + 2)).rd (src + 2))) = true from by simp [h2])]

theorem canon1_plain {len : Nat} (fuel : Nat) (m : Mem) (src dst : Nat) (h : Inv len m) (hs : src < len)
    (hd : dst ≤ src) (h0 : m.rd src ≠ 0) (hp : m.rd src ≠ PCT) :
    ∃ m', canon1 (fuel + 1) m src dst = canon1 fuel m' (src + 1) (dst + 1) ∧ Inv len m' ∧
      ∀ j, m'.rd j = if dst = j then m.rd src else m.rd j := by
  have hc := chk_inv h (i := src) (by omega)
  refine ⟨(m.chk src).wr dst (m.rd src), ?_, wr_lt hc (by omega), fun j => rd_wr_inv hc (by omega) j _⟩
  rw [canon1.eq_2]
  simp only
  rw [if_neg (show ¬ (m.chk src).rd src = 0 from h0), if_neg (show ¬ (m.chk src).rd src = PCT from hp)]
  simp only [rd_chk]

theorem canon1_safe {len : Nat} (fuel : Nat) (m : Mem) (src dst : Nat) (h : Inv len m) (hs : src + 2 < len)
    (hd : dst ≤ src) (h0 : m.rd src = PCT) (h1 : isXDigit (m.rd (src + 1)) = true)
    (h2 : isXDigit (m.rd (src + 2)) = true)
    (hv : isSafe (Url.hexVal (m.rd (src + 1)) * 16 + Url.hexVal (m.rd (src + 2))) = true) :
    ∃ m', canon1 (fuel + 1) m src dst = canon1 fuel m' (src + 3) (dst + 1) ∧ Inv len m' ∧
      ∀ j, m'.rd j = if dst = j then Url.hexVal (m.rd (src + 1)) * 16 + Url.hexVal (m.rd (src + 2))
        else m.rd j := by
  have hc : Inv len (((m.chk src).chk (src + 1)).chk (src + 2)) :=
    chk_inv (chk_inv (chk_inv h (i := src) (by omega)) (i := src + 1) (by omega)) (i := src + 2) (by omega)
  refine ⟨(((m.chk src).chk (src + 1)).chk (src + 2)).wr dst
    (Url.hexVal (m.rd (src + 1)) * 16 + Url.hexVal (m.rd (src + 2))), ?_, wr_lt hc (by omega),
    fun j => rd_wr_inv hc (by omega) j _⟩
  rw [canon1.eq_2]
  simp only
  rw [if_neg (show ¬ (m.chk src).rd src = 0 from by rw [rd_chk, h0]; decide),
    if_pos (show (m.chk src).rd src = PCT from h0),
    if_neg (show ¬ (!isXDigit (((m.chk src).chk (src + 1)).rd (src + 1))) = true from by simp [h1]),
    if_neg (show ¬ (!isXDigit ((((m.chk src).chk (src + 1)).chk (src + 2)).rd (src + 2))) = true from by simp [h2]),
    if_pos (show isSafe (Url.hexVal ((((m.chk src).chk (src + 1)).chk (src + 2)).rd (src + 1)) * 16 +
      Url.hexVal ((((m.chk src).chk (src + 1)).chk (src + 2)).rd (src + 2))) = true from hv)]
  simp only [rd_chk]

theorem canon1_unsafe {len : Nat} (fuel : Nat) (m : Mem) (src dst : Nat) (h : Inv len m) (hs : src + 2 < len)
    (hd : dst ≤ src) (h0 : m.rd src = PCT) (h1 : isXDigit (m.rd (src + 1)) = true)
    (h2 : isXDigit (m.rd (src + 2)) = true)
    (hv : isSafe (Url.hexVal (m.rd (src + 1)) * 16 + Url.hexVal (m.rd (src + 2))) = false) :
    ∃ m', canon1 (fuel + 1) m src dst = canon1 fuel m' (src + 3) (dst + 3) ∧ Inv len m' ∧
      ∀ j, m'.rd j = if dst + 2 = j then toUpper (m.rd (src + 2)) else if dst + 1 = j then toUpper (m.rd (src + 1))
        else if dst = j then PCT else m.rd j := by
  have hc : Inv len (((m.chk src).chk (src + 1)).chk (src + 2)) :=
    chk_inv (chk_inv (chk_inv h (i := src) (by omega)) (i := src + 1) (by omega)) (i := src + 2) (by omega)
  have ha := wr_lt (v := PCT) hc (i := dst) (by omega)
  have ra : ∀ j, ((((m.chk src).chk (src + 1)).chk (src + 2)).wr dst PCT).rd j = if dst = j then PCT else m.rd j :=
    fun j => rd_wr_inv hc (by omega) j _
  have hac := chk_inv ha (i := src + 1) (by omega)
  have e1 : ((((m.chk src).chk (src + 1)).chk (src + 2)).wr dst PCT).rd (src + 1) = m.rd (src + 1) := by
    rw [ra, if_neg (by omega)]
  have hb := wr_lt (v := toUpper (m.rd (src + 1))) hac (i := dst + 1) (by omega)
  have rb : ∀ j, ((((((m.chk src).chk (src + 1)).chk (src + 2)).wr dst PCT).chk (src + 1)).wr (dst + 1)
      (toUpper (m.rd (src + 1)))).rd j = if dst + 1 = j then toUpper (m.rd (src + 1)) else
        if dst = j then PCT else m.rd j := by
    intro j; rw [rd_wr_inv hac (by omega)]; simp only [rd_chk, ra]
  have hbc := chk_inv hb (i := src + 2) (by omega)
  have e2 : ((((((m.chk src).chk (src + 1)).chk (src + 2)).wr dst PCT).chk (src + 1)).wr (dst + 1)
      (toUpper (m.rd (src + 1)))).rd (src + 2) = m.rd (src + 2) := by
    rw [rb, if_neg (by omega), if_neg (by omega)]
  refine ⟨((((((m.chk src).chk (src + 1)).chk (src + 2)).wr dst PCT).chk (src + 1)).wr (dst + 1)
      (toUpper (m.rd (src + 1)))).chk (src + 2) |>.wr (dst + 2) (toUpper (m.rd (src + 2))), ?_,
      wr_lt hbc (by omega), ?_⟩
  · rw [canon1.eq_2]
    simp only
    rw [if_neg (show ¬ (m.chk src).rd src = 0 from by rw [rd_chk, h0]; decide),
      if_pos (show (m.chk src).rd src = PCT from h0),
      if_neg (show ¬ (!isXDigit (((m.chk src).chk (src + 1)).rd (src + 1))) = true from by simp [h1]),
      if_neg (show ¬ (!isXDigit ((((m.chk src).chk (src + 1)).chk (src + 2)).rd (src + 2))) = true from by simp [h2]),
      if_neg (show ¬ isSafe (Url.hexVal ((((m.chk src).chk (src + 1)).chk (src + 2)).rd (src + 1)) * 16 +
        Url.hexVal ((((m.chk src).chk (src + 1)).chk (src + 2)).rd (src + 2))) = true from by
          simp only [rd_chk, hv]; simp)]
    simp only [rd_chk]
    rw [e1, e2]
  · intro j; rw [rd_wr_inv hbc (by omega)]; simp only [rd_chk, rb]

/-! ### properties of the functional pass needed to keep the output a C string -/

theorem safe_nz : ∀ v : UInt8, isSafe v = true → v ≠ 0 := by
  apply forall_uint8; decide +kernel
theorem toUpper_xdigit_nz : ∀ v : UInt8, isXDigit v = true → toUpper v ≠ 0 := by
  apply forall_uint8; decide +kernel

/-! ### the loop -/

/-- `canon1` on the C string `l` at `src`, writing from `dst ≤ src`: fails exactly when `pass1 l`
    fails; otherwise `pass1 l` is the C string at `dst` afterwards and nothing below `dst` moved -/
theorem canon1_eq {len : Nat} : ∀ (fuel : Nat) (l : Bytes) (m : Mem) (src dst : Nat), Inv len m →
    CStr len m src l → dst ≤ src → len < src + fuel →
    (pass1 l = none ∧ (canon1 fuel m src dst).2 = false) ∨
    (∃ a, pass1 l = some a ∧ (canon1 fuel m src dst).2 = true ∧
      Inv len (canon1 fuel m src dst).1 ∧ CStr len (canon1 fuel m src dst).1 dst a ∧
      ∀ i, i < dst → (canon1 fuel m src dst).1.rd i = m.rd i) := by
  intro fuel
  induction fuel with
  | zero => intro l m src dst _ hs _ hf; have := hs.le; omega
  | succ fuel ih =>
    intro l m src dst h hs hd hf
    have hle := hs.le
    have hhead := cstr_head l hs
    match l, hs, hle, hhead with
    | [], hs, hle, hhead =>
      right
      simp only [List.headD_nil] at hhead
      have hc := chk_inv h (i := src) (by omega)
      rw [canon1_end fuel m src dst hhead]
      refine ⟨[], rfl, rfl, wr_zero hc (by omega), ⟨trivial, ?_, by simp, by simp; omega⟩, ?_⟩
      · simpa using rd_wr_same hc (by omega) 0
      · intro i hi; rw [rd_wr_ne hc (by omega) _ (by omega)]; rfl
    | c :: rest, hs, hle, hhead =>
      simp only [List.headD_cons] at hhead
      simp only [List.length_cons] at hle
      have hc0 : c ≠ 0 := fun e => hs.nz (by simp [e])
      have hrest := cstr_tail c rest hs
      by_cases hp : c = PCT
      · subst hp
        match rest, hs, hle, hrest with
        | [], hs, hle, hrest =>
          left
          have r1 : m.rd (src + 1) = 0 := by simpa using hrest.term
          exact ⟨by simp [pass1], canon1_bad1 fuel m src dst hhead (by rw [r1]; decide)⟩
        | [h1], hs, hle, hrest =>
          left
          have r1 : m.rd (src + 1) = h1 := hrest.seg.1
          have r2 : m.rd (src + 2) = 0 := by simpa using hrest.term
          refine ⟨by simp [pass1], ?_⟩
          by_cases hx : isXDigit h1 = true
          · exact canon1_bad2 fuel m src dst hhead (by rw [r1]; exact hx) (by rw [r2]; decide)
          · exact canon1_bad1 fuel m src dst hhead (by rw [r1]; simpa using hx)
        | h1 :: h2 :: rest', hs, hle, hrest =>
          simp only [List.length_cons] at hle
          have r1 : m.rd (src + 1) = h1 := hrest.seg.1
          have r2 : m.rd (src + 2) = h2 := hrest.seg.2.1
          have hr' : CStr len m (src + 3) rest' := cstr_suffix [PCT, h1, h2] rest' hs
          rw [pass1_triple]
          by_cases hx1 : isXDigit h1 = true
          · by_cases hx2 : isXDigit h2 = true
            · rw [if_pos (by simp [hx1, hx2])]
              by_cases hv : isSafe (Url.hexVal h1 * 16 + Url.hexVal h2) = true
              · obtain ⟨m', e, hi', hrd⟩ := canon1_safe fuel m src dst h (by omega) hd hhead
                  (by rw [r1]; exact hx1) (by rw [r2]; exact hx2) (by rw [r1, r2]; exact hv)
                rw [r1, r2] at hrd
                rw [e]
                have hs' : CStr len m' (src + 3) rest' :=
                  cstr_frame hr' (fun i a _ => by rw [hrd, if_neg (by omega)])
                rcases ih rest' m' (src + 3) (dst + 1) hi' hs' (by omega) (by omega) with ⟨hn, hb⟩ | ⟨a, ha, hb, hinv, hcs, hfr⟩
                · left; rw [hn]; exact ⟨rfl, hb⟩
                · right
                  rw [ha, if_pos hv]
                  refine ⟨_, rfl, hb, hinv, ⟨⟨?_, hcs.seg⟩, ?_, ?_, ?_⟩, ?_⟩
                  · rw [hfr dst (by omega), hrd, if_pos rfl]
                  · have := hcs.term
                    simp only [List.singleton_append, List.length_cons]
                    rw [show dst + (a.length + 1) = dst + 1 + a.length by omega]; exact this
                  · simp only [List.singleton_append, List.mem_cons, not_or]
                    exact ⟨fun e0 => safe_nz _ hv e0.symm, hcs.nz⟩
                  · have := hcs.le; simp only [List.singleton_append, List.length_cons]; omega
                  · intro i hi; rw [hfr i (by omega), hrd, if_neg (by omega)]
              · have hv' : isSafe (Url.hexVal h1 * 16 + Url.hexVal h2) = false := by simpa using hv
                obtain ⟨m', e, hi', hrd⟩ := canon1_unsafe fuel m src dst h (by omega) hd hhead
                  (by rw [r1]; exact hx1) (by rw [r2]; exact hx2) (by rw [r1, r2]; exact hv')
                rw [r1, r2] at hrd
                rw [e]
                have hs' : CStr len m' (src + 3) rest' :=
                  cstr_frame hr' (fun i a _ => by
                    rw [hrd, if_neg (by omega), if_neg (by omega), if_neg (by omega)])
                rcases ih rest' m' (src + 3) (dst + 3) hi' hs' (by omega) (by omega) with ⟨hn, hb⟩ | ⟨a, ha, hb, hinv, hcs, hfr⟩
                · left; rw [hn]; exact ⟨rfl, hb⟩
                · right
                  rw [ha, if_neg hv]
                  refine ⟨_, rfl, hb, hinv, ⟨⟨?_, ?_, ?_, hcs.seg⟩, ?_, ?_, ?_⟩, ?_⟩
                  · rw [hfr dst (by omega), hrd, if_neg (by omega), if_neg (by omega), if_pos rfl]
                  · rw [hfr (dst + 1) (by omega), hrd, if_neg (by omega), if_pos rfl]
                  · rw [hfr (dst + 1 + 1) (by omega), hrd, if_pos rfl]
                  · have := hcs.term
                    simp only [List.cons_append, List.nil_append, List.length_cons]
                    rw [show dst + (a.length + 1 + 1 + 1) = dst + 3 + a.length by omega]; exact this
                  · simp only [List.cons_append, List.nil_append, List.mem_cons, not_or]
                    exact ⟨by decide, fun e0 => toUpper_xdigit_nz _ hx1 e0.symm,
                      fun e0 => toUpper_xdigit_nz _ hx2 e0.symm, hcs.nz⟩
                  · have := hcs.le
                    simp only [List.cons_append, List.nil_append, List.length_cons]; omega
                  · intro i hi
                    rw [hfr i (by omega), hrd, if_neg (by omega), if_neg (by omega), if_neg (by omega)]
            · left
              rw [if_neg (by simp [hx2])]
              exact ⟨rfl, canon1_bad2 fuel m src dst hhead (by rw [r1]; exact hx1) (by rw [r2]; simpa using hx2)⟩
          · left
            rw [if_neg (by simp [hx1])]
            exact ⟨rfl, canon1_bad1 fuel m src dst hhead (by rw [r1]; simpa using hx1)⟩
      · obtain ⟨m', e, hi', hrd⟩ := canon1_plain fuel m src dst h (by omega) hd (by rw [hhead]; exact hc0)
          (by rw [hhead]; exact hp)
        rw [hhead] at hrd
        rw [e, pass1_plain c rest hp]
        have hs' : CStr len m' (src + 1) rest :=
          cstr_frame hrest (fun i a _ => by rw [hrd, if_neg (by omega)])
        rcases ih rest m' (src + 1) (dst + 1) hi' hs' (by omega) (by omega) with ⟨hn, hb⟩ | ⟨a, ha, hb, hinv, hcs, hfr⟩
        · left; rw [hn]; exact ⟨rfl, hb⟩
        · right
          rw [ha]
          refine ⟨_, rfl, hb, hinv, ⟨⟨?_, hcs.seg⟩, ?_, ?_, ?_⟩, ?_⟩
          · rw [hfr dst (by omega), hrd, if_pos rfl]
          · have := hcs.term
            simp only [List.length_cons]
            rw [show dst + (a.length + 1) = dst + 1 + a.length by omega]; exact this
          · simp only [List.mem_cons, not_or]
            exact ⟨fun e0 => hc0 e0.symm, hcs.nz⟩
          · have := hcs.le; simp only [List.length_cons]; omega
          · intro i hi; rw [hfr i (by omega), hrd, if_neg (by omega)]

end Nng.UrlBufEq
