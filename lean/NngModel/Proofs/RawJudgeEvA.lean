/-
  Raw judges vs raw models: the simple events (refused operations, poll, options, contexts,
  pipe_add, pipe_drop, open) preserve the relation.
-/
import NngModel.Proofs.RawJudgeClose
namespace Nng.RawSurv
open Nng Nng.Proto Nng.RawMq Nng.RawSurveySpec

attribute [local simp] xOut_rv xOut_rv2 xOut_parm xOut_pipe

/-! ### outputs the judge does nothing with -/

def inert : Out → Bool
  | .rv _ => true
  | .rv2 _ _ => true
  | .parm _ => true
  | _ => false

theorem fold_pipe_inert (X : List Out) : ∀ (outs : List Out) (j : XJ), (∀ o ∈ outs, inert o = true) →
    outs.foldl (pipeStep X) j = j := by
  intro outs
  induction outs with
  | nil => intro j _; rfl
  | cons o os ih =>
    intro j h
    have ho := h o (by simp)
    simp only [List.foldl_cons]
    cases o <;> simp [inert] at ho <;> exact ih _ (fun o ho => h o (by simp [ho]))

theorem fold_out_inert (resp : Bool) : ∀ (outs : List Out) (j : XJ), (∀ o ∈ outs, inert o = true) →
    outs.foldl (xOut resp) j = j := by
  intro outs
  induction outs with
  | nil => intro j _; rfl
  | cons o os ih =>
    intro j h
    have ho := h o (by simp)
    simp only [List.foldl_cons]
    cases o <;> simp [inert] at ho <;> exact ih _ (fun o ho => h o (by simp [ho]))

theorem filter_done_inert : ∀ (outs : List Out), (∀ o ∈ outs, inert o = true) → outs.filter isDone = [] := by
  intro outs h
  rw [List.filter_eq_nil_iff]
  intro o ho
  have := h o ho
  cases o <;> simp [inert] at this <;> simp [isDone]

theorem procOuts_inert (resp : Bool) (outs : List Out) (j : XJ) (h : ∀ o ∈ outs, inert o = true) :
    procOuts resp outs j = j := by
  unfold procOuts
  rw [fold_pipe_inert _ _ _ h, filter_done_inert _ h]
  simp only [List.foldl_nil]
  exact fold_out_inert resp _ _ (fun o ho => h o (List.mem_filter.1 ho).1)

theorem notExecuted_inert (outs : List Out) (h : ∀ o ∈ outs, inert o = true) : notExecuted outs = false := by
  unfold notExecuted
  rw [List.any_eq_false]
  intro o ho
  have := h o ho
  cases o <;> simp [inert] at this <;> simp

theorem blocked_inert (outs : List Out) (h : ∀ o ∈ outs, inert o = true) : outs.any isBlocked = false := by
  rw [List.any_eq_false]
  intro o ho
  have := h o ho
  cases o <;> simp [inert] at this <;> simp [isBlocked]

theorem pollOf_inert (outs : List Out) (h : ∀ o ∈ outs, inert o = true) : pollOf outs = none := by
  unfold pollOf
  rw [List.findSome?_eq_none_iff]
  intro o ho
  have := h o ho
  cases o <;> simp [inert] at this <;> rfl

/-! ### finishing a judge step -/

theorem step_finish {k : Kind} {sel : Sel} {resp : Bool} {s1 : State} {j : XJ} {ev : Ev} {outs : List Out}
    (hI : Inv k sel s1) (herr : j.err = none) (hne : notExecuted outs = false)
    (hR : Rc s1 (procOuts resp outs (xPre resp j ev outs).1))
    (hnb : nbChk (xPre resp j ev outs).2 outs (procOuts resp outs (xPre resp j ev outs).1) =
      procOuts resp outs (xPre resp j ev outs).1)
    (hbl : outs.any isBlocked = false)
    (hp : ∀ rd wr, pollOf outs = some (rd, wr) → rd = recvable s1.urq ∧ wr = sendable s1.uwq) :
    R s1 (xStep resp j ev outs) := by
  rw [xStep_eq herr hne]
  exact finish hI hR _ outs hnb hbl hp

/-- a step whose outputs the judge ignores and whose bookkeeping does nothing -/
theorem step_inert {k : Kind} {sel : Sel} {resp : Bool} {s1 : State} {j : XJ} {ev : Ev} {outs : List Out}
    (hI : Inv k sel s1) (hR : Rc s1 j) (hin : ∀ o ∈ outs, inert o = true) (hpre : xPre resp j ev outs = (j, none)) :
    R s1 (xStep resp j ev outs) := by
  refine step_finish hI hR.err (notExecuted_inert _ hin) ?_ ?_ (blocked_inert _ hin) ?_
  · rw [hpre, procOuts_inert _ _ _ hin]; exact hR
  · rw [hpre]; rfl
  · intro rd wr h; rw [pollOf_inert _ hin] at h; cases h

/-- an operation the model refuses (`nosock`, `bad-op`, `aio-busy`, unmodelled option) -/
theorem step_refused {resp : Bool} {s : State} {j : XJ} {ev : Ev} (hR : R s j) (msg : String) :
    R s (xStep resp j ev [.other msg]) := by
  rw [xStep_refused (by simp [notExecuted])]
  exact hR

/-! ### poll -/

theorem ev_poll {k : Kind} {sel : Sel} {resp : Bool} {s : State} {j : XJ} (hI : Inv k sel s) (hR : R s j) :
    R s (xStep resp j .poll [.poll (some (recvable s.urq)) (some (sendable s.uwq))]) := by
  have hc := hR.core
  have hx : xOut resp j (.poll (some (recvable s.urq)) (some (sendable s.uwq))) = j := by
    obtain ⟨ips, hl, hr⟩ := hc.held
    apply xOut_poll _ _ _ _ hc.jclosed
    · intro h
      apply hc.no_definite
      simp only [recvable, Bool.or_eq_false_iff, bne_eq_false_iff_eq, Bool.not_eq_false',
        List.isEmpty_iff, List.length_eq_zero_iff] at h
      exact h
    · intro h
      cases hpe : pendP ips s.urq with
      | nil =>
        obtain ⟨a, b⟩ := pendP_eq_nil hl hpe
        simp [recvable, a, b] at h
      | cons x ms => rw [hpe] at hr; exact hr.ne_nil
  refine step_finish hI hc.err (by simp [notExecuted]) ?_ ?_ (by simp [isBlocked]) ?_
  · have : procOuts resp [.poll (some (recvable s.urq)) (some (sendable s.uwq))] (xPre resp j .poll [.poll (some (recvable s.urq)) (some (sendable s.uwq))]).1 = j := by
      simp [procOuts, isDone, pipeStep, xPre, hx]
    rw [this]; exact hc
  · rfl
  · intro rd wr h
    simp only [pollOf, List.findSome?_cons, Option.some.injEq, Prod.mk.injEq] at h
    exact ⟨h.1.symm, h.2.symm⟩

/-! ### options, contexts -/

theorem ev_setopt {k : Kind} {sel : Sel} {resp : Bool} {s : State} {j : XJ} (hk : KindOK k sel) (hI : Inv k sel s) (hR : R s j)
    (ho : s.opened = true) (hc : s.closed = false) (c : Option Nat) (name ty : String) (v : Int) :
    R (setOpt k s c name ty v).1 (xStep resp j (.setopt c name ty v) (setOpt k s c name ty v).2) := by
  have hI1 : Inv k sel (setOpt k s c name ty v).1 := by
    have := step_inv hk s (.setopt c name ty v) hI
    unfold step at this
    simpa [ho, hc] using this
  revert hI1
  unfold setOpt
  by_cases h1 : (c == none && name == "ttl-max" && ty == "int") = true
  · rw [if_pos h1]
    simp only [Bool.and_eq_true, beq_iff_eq] at h1
    obtain ⟨⟨rfl, rfl⟩, rfl⟩ := h1
    by_cases h2 : (v < (k.ttlMin : Int) || v > (Nng.Generated.maxMaxTtl : Int)) = true
    · rw [if_pos h2]
      intro hI1
      exact step_inert hI1 hR.core (by simp [inert]) (by simp [xPre, Err.einval])
    · rw [if_neg h2]
      intro hI1
      refine step_finish hI1 hR.core.err (by simp [notExecuted]) ?_ (by rfl) (by simp [isBlocked]) (by simp [pollOf])
      have : procOuts resp [Out.rv 0] (xPre resp j (.setopt none "ttl-max" "int" v) [Out.rv 0]).1 = { j with ttl := v.toNat } := by
        simp [procOuts, isDone, pipeStep, xPre]
      rw [this]
      have h := hR.core
      exact ⟨h.err, h.jclosed, rfl, h.liveN, fun p pp hg => ⟨(h.pipes p pp hg).live, (h.pipes p pp hg).busy, (h.pipes p pp hg).idle,
        (h.pipes p pp hg).acc, (h.pipes p pp hg).wired⟩, ⟨h.out.live, h.out.busy, h.out.acc, h.out.wired⟩, h.recvs, h.tags, h.sends, h.held,
        h.heldN, h.heldA, h.heldP⟩
  · rw [if_neg h1]
    intro _
    exact step_refused hR _

theorem ev_getopt {k : Kind} {sel : Sel} {resp : Bool} {s : State} {j : XJ} (hI : Inv k sel s) (hR : R s j)
    (c : Option Nat) (name ty : String) :
    R (getOpt s c name ty).1 (xStep resp j (.getopt c name ty) (getOpt s c name ty).2) := by
  unfold getOpt
  split
  · exact step_inert hI hR.core (by simp [inert]) rfl
  · exact step_refused hR _

/-! ### pipe_drop -/

theorem ev_pipeDrop {k : Kind} {sel : Sel} {resp : Bool} {s : State} {j : XJ} (hI : Inv k sel s) (hR : R s j) (p : Nat) :
    R (if livePipe s p then ((closePipe s p).1, [Out.rv 0] ++ (closePipe s p).2) else (s, [Out.rv (-1)])).1
      (xStep resp j (.pipeDrop p) (if livePipe s p then ((closePipe s p).1, [Out.rv 0] ++ (closePipe s p).2) else (s, [Out.rv (-1)])).2) := by
  by_cases hl : livePipe s p = true
  · rw [if_pos hl]
    unfold livePipe at hl
    cases hg : getPipe s p with
    | none => rw [hg] at hl; cases hl
    | some pp =>
      rw [hg] at hl
      have hc : pp.closed = false := by simpa using hl
      have hI1 := closePipe_inv s p hI
      have hR1 := closePipe_Rc (resp := resp) hR.core hg hc
      have e : (closePipe s p).2 = [.pclosed p] := by rw [closePipe_eq hg hc]
      rw [e]
      refine step_finish hI1 hR.core.err (by simp [notExecuted]) ?_ (by rfl) (by simp [isBlocked]) (by simp [pollOf])
      have : procOuts resp ([Out.rv 0] ++ [.pclosed p]) (xPre resp j (.pipeDrop p) ([Out.rv 0] ++ [.pclosed p])).1 = xOut resp j (.pclosed p) := by
        simp [procOuts, isDone, pipeStep, xPre]
      rw [this]; exact hR1
  · rw [if_neg hl]
    exact step_inert hI hR.core (by simp [inert]) rfl

/-! ### pipe_add -/

theorem POut.mono {j : XJ} {n n1 : Nat} (h : POut j n) (hn : n ≤ n1) : POut j n1 :=
  ⟨fun p hp => Nat.lt_of_lt_of_le (h.live p hp) hn, fun p hp => Nat.lt_of_lt_of_le (h.busy p hp) hn,
   fun a ha => Nat.lt_of_lt_of_le (h.acc a ha) hn, fun x hx => Nat.lt_of_lt_of_le (h.wired x hx) hn⟩

theorem filter_none_of_out {j : XJ} {n : Nat} (h : POut j n) : j.acc.filter (·.pipe == n) = [] := by
  rw [List.filter_eq_nil_iff]
  intro a ha
  have := h.acc a ha
  simp; omega

/-- the relation for a pipe just created: the judge knows nothing about its index yet, except
    (if it was accepted) that it is connected -/
theorem PRel.fresh {j : XJ} {n : Nat} (h : POut j n) (pp : Pipe) (live : List Nat)
    (hl : n ∈ live ↔ pp.closed = false) (hb : pp.busy = false) (hq : pp.closed = false → pp.sq.getq ≠ [])
    (hi : pp.sq.items = []) : PRel { j with live := live } n pp := by
  refine ⟨hl, ?_, ?_, ?_, ?_⟩
  · intro _
    rw [hb]
    constructor
    · intro hm; exact absurd (h.busy n hm) (Nat.lt_irrefl _)
    · intro hx; cases hx
  · intro hc; rw [hb]; simp [hq hc]
  · show j.acc.filter (·.pipe == n) = _
    rw [filter_none_of_out h]; unfold accOf; rw [hi]; simp
  · intro b hm
    exact absurd (h.wired _ hm) (Nat.lt_irrefl _)

theorem Rc.addPipe {s : State} {j : XJ} (h : Rc s j) (pp : Pipe) (live : List Nat)
    (hlv : live = j.live ∨ live = j.live ++ [s.pipes.length])
    (hnew : PRel { j with live := live } s.pipes.length pp) :
    Rc { s with pipes := s.pipes ++ [pp] } { j with live := live } := by
  have hnl : s.pipes.length ∉ j.live := fun hm => Nat.lt_irrefl _ (h.out.live _ hm)
  have hmem : ∀ q, q < s.pipes.length → (q ∈ live ↔ q ∈ j.live) := by
    intro q hq
    rcases hlv with rfl | rfl
    · exact Iff.rfl
    · simp; omega
  have hsub : ∀ q ∈ live, q < s.pipes.length + 1 := by
    intro q hq
    rcases hlv with rfl | rfl
    · have := h.out.live q hq; omega
    · rcases List.mem_append.1 hq with hq | hq
      · have := h.out.live q hq; omega
      · simp at hq; omega
  refine ⟨h.err, h.jclosed, h.ttl, ?_, ?_, ?_, h.recvs, h.tags, h.sends, ?_, h.heldN, h.heldA, ?_⟩
  · show live.Nodup
    rcases hlv with rfl | rfl
    · exact h.liveN
    · rw [List.nodup_append]
      refine ⟨h.liveN, by simp, ?_⟩
      intro a ha b hb
      simp only [List.mem_singleton] at hb
      subst hb
      intro e; subst e; exact hnl ha
  · intro q pp1 hg
    simp only [] at hg
    by_cases hlt : q < s.pipes.length
    · rw [List.getElem?_append_left hlt] at hg
      have hp := h.pipes q pp1 hg
      exact ⟨(hmem q hlt).trans hp.live, hp.busy, hp.idle, hp.acc, hp.wired⟩
    · have hq1 : q = s.pipes.length := by
        have := lt_of_get hg
        simp at this; omega
      subst hq1
      simp at hg
      subst hg
      exact hnew
  · simp only [List.length_append, List.length_cons, List.length_nil]
    exact ⟨hsub, (h.out.mono (Nat.le_succ _)).busy, (h.out.mono (Nat.le_succ _)).acc, (h.out.mono (Nat.le_succ _)).wired⟩
  · obtain ⟨ips, hl, hr⟩ := h.held
    refine ⟨ips, hl, hr.mono ?_⟩
    intro q hq
    simp only [List.length_append, List.length_cons, List.length_nil]
    exact ⟨by omega, fun hm => hq.2 ((hmem q hq.1).1 hm)⟩
  · intro x hx
    simp only [List.length_append, List.length_cons, List.length_nil]
    have := h.heldP x hx; omega

theorem ev_pipeAdd {k : Kind} {sel : Sel} {resp : Bool} {s : State} {j : XJ} (hk : KindOK k sel) (hI : Inv k sel s) (hR : R s j)
    (ho : s.opened = true) (hc : s.closed = false) (peer : Nat) :
    R (step k s (.pipeAdd peer)).1 (xStep resp j (.pipeAdd peer) (step k s (.pipeAdd peer)).2) := by
  have hI1 := step_inv hk s (.pipeAdd peer) hI
  revert hI1
  unfold step
  rw [if_neg (by simp [ho]), if_neg (by simp [hc])]
  simp only []
  have hc0 := hR.core
  have hnl : s.pipes.length ∉ j.live := fun hm => Nat.lt_irrefl _ (hc0.out.live _ hm)
  by_cases hp : (peer != k.peer) = true
  · rw [if_pos hp]
    intro hI1
    refine step_finish hI1 hc0.err (by simp [notExecuted]) ?_ (by rfl) (by simp [isBlocked]) (by simp [pollOf])
    have e : procOuts resp [Out.pipe (s.pipes.length : Nat), .pclosed s.pipes.length]
        (xPre resp j (.pipeAdd peer) [Out.pipe (s.pipes.length : Nat), .pclosed s.pipes.length]).1 =
        xOut resp { j with live := j.live } (.pclosed s.pipes.length) := by
      simp [procOuts, isDone, pipeStep, xPre]
    rw [e]
    have h1 : Rc { s with pipes := s.pipes ++ [{ closed := true, sq := RawMq.close { cap := k.sqCap } }] } { j with live := j.live } := by
      apply hc0.addPipe _ _ (Or.inl rfl)
      exact PRel.fresh hc0.out _ _ (by simp [hnl]) rfl (by simp) rfl
    -- the judge's `pclosed` of an index it does not know changes nothing
    have h2 : xOut resp { j with live := j.live } (.pclosed s.pipes.length) = { j with live := j.live } := by
      rw [xOut_pclosed]
      have a1 : j.live.filter (· != s.pipes.length) = j.live := by
        rw [List.filter_eq_self]; intro a ha; have := hc0.out.live a ha; simp; omega
      have a2 : j.busy.filter (· != s.pipes.length) = j.busy := by
        rw [List.filter_eq_self]; intro a ha; have := hc0.out.busy a ha; simp; omega
      have a3 : j.acc.filter (·.pipe != s.pipes.length) = j.acc := by
        rw [List.filter_eq_self]; intro a ha; have := hc0.out.acc a ha; simp; omega
      have a4 : j.held.map (fun h => if h.pipe == s.pipes.length then { h with maybe := true } else h) = j.held := by
        conv => rhs; rw [← List.map_id j.held]
        apply List.map_congr_left
        intro a ha
        have := hc0.heldP a ha
        have : (a.pipe == s.pipes.length) = false := by simp; omega
        simp [this]
      simp only [a1, a2, a3, a4]
    rw [h2]; exact h1
  · rw [if_neg hp]
    intro hI1
    refine step_finish hI1 hc0.err (by simp [notExecuted]) ?_ (by rfl) (by simp [isBlocked]) (by simp [pollOf])
    have e : procOuts resp [Out.pipe (s.pipes.length : Nat), .parm s.pipes.length]
        (xPre resp j (.pipeAdd peer) [Out.pipe (s.pipes.length : Nat), .parm s.pipes.length]).1 =
        { j with live := j.live ++ [s.pipes.length] } := by
      simp [procOuts, isDone, pipeStep, xPre]
    rw [e]
    apply hc0.addPipe _ _ (Or.inr rfl)
    refine PRel.fresh hc0.out _ _ (by simp) rfl ?_ ?_
    · intro _; rw [aioGet_noreader _ _ rfl]; simp
    · rw [aioGet_noreader _ _ rfl]

end Nng.RawSurv
