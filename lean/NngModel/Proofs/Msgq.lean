/- lemmas: the msgq model (Model/Msgq.lean) refines the FIFO channel (Spec/Queues.lean) -/
import NngModel.Model.Msgq
import NngModel.Proofs.Ring
namespace Nng.Msgq
open Nng.Ring Nng.QSpec

/-- the ring fields represent the queued messages `l` (oldest first) -/
structure RR (msgs : List (Option Msg)) (alloc cap len get put : Nat) (l : List Msg) : Prop where
  alloc_eq : msgs.length = alloc
  spare_ok : cap + spare ≤ alloc
  get_lt : get < alloc
  put_eq : put = idx alloc get len
  len_eq : l.length = len
  len_cap : len ≤ cap + 1
  slots : ∀ i, i < len → msgs[idx alloc get i]? = (l[i]?).map some

def RingRep (q : Msgq) (l : List Msg) : Prop := RR q.msgs q.alloc q.cap q.len q.get q.put l

/-- the abstract channel a model state stands for -/
def chanOf (q : Msgq) (l : List Msg) : Chan := ⟨q.cap, l, q.putq, q.getq, q.closed⟩

structure Sim (r : Res) (s : CRes) : Prop where
  safe : r.safe = true
  rv : r.rv = s.rv
  evs : r.evs = s.evs
  freed : r.freed = s.freed
  rep : ∃ l, RingRep r.q l ∧ s.c = chanOf r.q l

theorem spare_two : spare = 2 := rfl

theorem enq_spec {q : Msgq} {l : List Msg} (h : RingRep q l) (hc : q.len < q.cap) (m : Msg) :
    (enq q m).2 = true ∧ RingRep (enq q m).1 (l ++ [m]) ∧ (enq q m).1.cap = q.cap ∧
    (enq q m).1.putq = q.putq ∧ (enq q m).1.getq = q.getq ∧ (enq q m).1.closed = q.closed := by
  have hg := h.get_lt
  have hsp := h.spare_ok
  rw [spare_two] at hsp
  have hlen : q.len < q.alloc := by omega
  have hput : q.put < q.alloc := by rw [h.put_eq]; exact idx_lt hg (by omega)
  have hput' : q.put < q.msgs.length := by rw [h.alloc_eq]; exact hput
  have hw : wr q.msgs q.put m = (q.msgs.set q.put (some m), true) := by simp [wr, hput']
  unfold enq
  rw [hw]
  refine ⟨rfl, ?_, rfl, rfl, rfl, rfl⟩
  refine ⟨by simpa using h.alloc_eq, h.spare_ok, hg, ?_, by simp [h.len_eq], by simp; omega, ?_⟩
  · show (if q.put + 1 = q.alloc then 0 else q.put + 1) = idx q.alloc q.get (q.len + 1)
    rw [idx_succ hg hlen, ← h.put_eq]; unfold next; split <;> split <;> omega
  · intro i hi
    have hle := h.len_eq
    show (q.msgs.set q.put (some m))[idx q.alloc q.get i]? = _
    rw [List.getElem?_set]
    by_cases hil : i < q.len
    · have hne : q.put ≠ idx q.alloc q.get i := by rw [h.put_eq]; exact (idx_ne hg hil hlen).symm
      rw [if_neg hne, h.slots i hil, List.getElem?_append_left (by omega)]
    · have : i = q.len := by simp at hi; omega
      subst this
      rw [if_pos h.put_eq, if_pos hput', List.getElem?_append_right (by omega)]
      simp [hle]

/-- common part of the two dequeue forms -/
theorem deq_core {q : Msgq} {m : Msg} {l : List Msg} (h : RingRep q (m :: l)) :
    rd q.msgs q.get = (m, true) ∧
    RR (q.msgs.set q.get none) q.alloc q.cap (q.len - 1) (next q.alloc q.get) q.put l := by
  have hg := h.get_lt
  have hsp := h.spare_ok
  rw [spare_two] at hsp
  have hle := h.len_eq
  simp at hle
  have hlen : 0 < q.len := by omega
  have hln : q.len < q.alloc := by have := h.len_cap; omega
  have h0 := h.slots 0 hlen
  rw [idx_zero hg] at h0
  simp at h0
  refine ⟨by simp [rd, h0], ?_⟩
  refine ⟨by simpa using h.alloc_eq, h.spare_ok, next_lt (by omega), ?_, by omega, by have := h.len_cap; omega, ?_⟩
  · rw [h.put_eq]
    have : q.len = (q.len - 1) + 1 := by omega
    rw [this, ← idx_next hg (by omega)]; simp
  · intro i hi
    rw [idx_next hg (by omega), List.getElem?_set]
    have hne : q.get ≠ idx q.alloc q.get (i + 1) := by
      have := idx_ne hg (show 0 < i + 1 by omega) (show i + 1 < q.alloc by omega)
      rw [idx_zero hg] at this; exact this
    rw [if_neg hne, h.slots (i + 1) (by omega)]; simp

theorem deqEq_spec {q : Msgq} {m : Msg} {l : List Msg} (h : RingRep q (m :: l)) :
    (deqEq q).2 = (m, true) ∧ RingRep (deqEq q).1 l ∧ (deqEq q).1.cap = q.cap ∧
    (deqEq q).1.putq = q.putq ∧ (deqEq q).1.getq = q.getq ∧ (deqEq q).1.closed = q.closed := by
  obtain ⟨hr, hrr⟩ := deq_core h
  have hg := h.get_lt
  unfold deqEq
  refine ⟨by simp [hr], ?_, rfl, rfl, rfl, rfl⟩
  have : (if q.get + 1 = q.alloc then 0 else q.get + 1) = next q.alloc q.get := by
    unfold next; split <;> split <;> omega
  show RR _ _ _ _ (if q.get + 1 = q.alloc then 0 else q.get + 1) _ _
  rw [this]; exact hrr

theorem deqGe_spec {q : Msgq} {m : Msg} {l : List Msg} (h : RingRep q (m :: l)) :
    (deqGe q).2 = (m, true) ∧ RingRep (deqGe q).1 l ∧ (deqGe q).1.cap = q.cap ∧
    (deqGe q).1.putq = q.putq ∧ (deqGe q).1.getq = q.getq ∧ (deqGe q).1.closed = q.closed ∧
    (deqGe q).1.alloc = q.alloc := by
  obtain ⟨hr, hrr⟩ := deq_core h
  have hg := h.get_lt
  unfold deqGe
  refine ⟨by simp [hr], ?_, rfl, rfl, rfl, rfl, rfl⟩
  have : (if q.get + 1 ≥ q.alloc then 0 else q.get + 1) = next q.alloc q.get := by
    unfold next; split <;> split <;> omega
  show RR _ _ _ _ (if q.get + 1 ≥ q.alloc then 0 else q.get + 1) _ _
  rw [this]; exact hrr

theorem len_pos_of_cons {q : Msgq} {m : Msg} {l : List Msg} (h : RingRep q (m :: l)) : q.len ≠ 0 := by
  have := h.len_eq; simp at this; omega

theorem len_zero_of_nil {q : Msgq} (h : RingRep q []) : q.len = 0 := by
  have := h.len_eq; simpa using this.symm

/-- run_putq is pumpPut on the represented list -/
theorem runPutq_spec : ∀ (ps : List (Nat × Msg)) (q : Msgq) (l : List Msg) (evs : List Ev), RingRep q l →
    ∃ q' l' evs', runPutq ps q evs true = (q', evs', true) ∧
      pumpPut q.cap ps l q.getq evs = (q'.putq, l', q'.getq, evs') ∧
      RingRep q' l' ∧ q'.cap = q.cap ∧ q'.closed = q.closed := by
  intro ps
  induction ps with
  | nil => intro q l evs h; exact ⟨{ q with putq := [] }, l, evs, by simp [runPutq], by simp [pumpPut], h, rfl, rfl⟩
  | cons p ps ih =>
    intro q l evs h
    obtain ⟨w, m⟩ := p
    cases hgq : q.getq with
    | cons r gs =>
      obtain ⟨q', l', evs', he, hp, hr, hc, hcl⟩ := ih { q with getq := gs } l (evs ++ [(r, 0, some m), (w, 0, none)]) h
      refine ⟨q', l', evs', ?_, ?_, hr, hc, hcl⟩
      · simp only [runPutq, hgq]; exact he
      · simp only [pumpPut]; exact hp
    | nil =>
      by_cases hlt : q.len < q.cap
      · obtain ⟨hs, hr, hc, _, hgq', hcl⟩ := enq_spec h hlt m
        obtain ⟨q', l', evs', he, hp, hr', hc', hcl'⟩ := ih (enq q m).1 (l ++ [m]) (evs ++ [(w, 0, none)]) hr
        rw [hc, hgq', hgq] at hp
        refine ⟨q', l', evs', ?_, ?_, hr', by rw [hc', hc], by rw [hcl', hcl]⟩
        · simp only [runPutq, hgq, if_pos hlt, hs, Bool.and_true]; exact he
        · simp only [pumpPut, if_pos hlt, h.len_eq]; exact hp
      · refine ⟨{ q with putq := (w, m) :: ps }, l, evs, ?_, ?_, h, rfl, rfl⟩
        · simp only [runPutq, hgq, if_neg hlt]
        · simp only [pumpPut, if_neg hlt, h.len_eq, hgq]

/-- run_getq is pumpGet on the represented list -/
theorem runGetq_spec : ∀ (gs : List Nat) (q : Msgq) (l : List Msg) (evs : List Ev), RingRep q l →
    ∃ q' l' evs', runGetq gs q evs true = (q', evs', true) ∧
      pumpGet gs l q.putq evs = (q'.getq, l', q'.putq, evs') ∧
      RingRep q' l' ∧ q'.cap = q.cap ∧ q'.closed = q.closed := by
  intro gs
  induction gs with
  | nil => intro q l evs h; exact ⟨{ q with getq := [] }, l, evs, by simp [runGetq], by simp [pumpGet], h, rfl, rfl⟩
  | cons r gs ih =>
    intro q l evs h
    cases l with
    | cons m l =>
      have hne := len_pos_of_cons h
      obtain ⟨hd, hr, hc, hpq, _, hcl⟩ := deqEq_spec h
      obtain ⟨q', l', evs', he, hp, hr', hc', hcl'⟩ := ih (deqEq q).1 l (evs ++ [(r, 0, some m)]) hr
      rw [hpq] at hp
      refine ⟨q', l', evs', ?_, ?_, hr', by rw [hc', hc], by rw [hcl', hcl]⟩
      · simp only [runGetq, if_pos hne, hd, Bool.and_true]; exact he
      · simp only [pumpGet]; exact hp
    | nil =>
      have hz := len_zero_of_nil h
      cases hpq : q.putq with
      | cons p ps =>
        obtain ⟨w, m⟩ := p
        obtain ⟨q', l', evs', he, hp, hr', hc', hcl'⟩ := ih { q with putq := ps } [] (evs ++ [(w, 0, none), (r, 0, some m)]) h
        have hne : ¬ (q.len ≠ 0) := by simp [hz]
        refine ⟨q', l', evs', ?_, ?_, hr', hc', hcl'⟩
        · rw [runGetq, if_neg hne]; simp only [hpq]; exact he
        · simp only [pumpGet]; exact hp
      | nil =>
        have hne : ¬ (q.len ≠ 0) := by simp [hz]
        refine ⟨{ q with getq := r :: gs }, [], evs, ?_, ?_, h, rfl, rfl⟩
        · rw [runGetq, if_neg hne]; simp only [hpq]
        · simp [pumpGet, hpq]

theorem tryput_sim {q : Msgq} {l : List Msg} (h : RingRep q l) (m : Msg) :
    Sim (tryput q m) ((chanOf q l).tryput m) := by
  unfold tryput Chan.tryput chanOf
  by_cases hc : q.closed = true
  · simp only [hc, if_true]; exact ⟨rfl, rfl, rfl, rfl, l, h, by simp [chanOf, hc]⟩
  · have hcf : q.closed = false := by simpa using hc
    simp only [hc, if_false, Bool.false_eq_true]
    cases hgq : q.getq with
    | cons r gs => exact ⟨rfl, rfl, rfl, rfl, l, h, by simp [chanOf]⟩
    | nil =>
      by_cases hlt : q.len < q.cap
      · obtain ⟨hs, hr, hcap, hpq, hgq', hcl⟩ := enq_spec h hlt m
        simp only [if_pos hlt, h.len_eq]
        exact ⟨hs, rfl, rfl, rfl, l ++ [m], hr, by simp [chanOf, hcap, hpq, hgq', hcl, hgq, hcf]⟩
      · simp only [if_neg hlt, h.len_eq]
        exact ⟨rfl, rfl, rfl, rfl, l, h, by simp [chanOf, hgq, hcf]⟩

theorem aioPut_sim {q : Msgq} {l : List Msg} (h : RingRep q l) (a : Nat) (m : Msg) :
    Sim (aioPut q a m) ((chanOf q l).aioPut a m) := by
  obtain ⟨q', l', evs', he, hp, hr, hc, hcl⟩ := runPutq_spec (q.putq ++ [(a, m)]) q l [] h
  unfold aioPut Chan.aioPut chanOf
  simp only [he, hp]
  exact ⟨rfl, rfl, rfl, rfl, l', hr, by simp [chanOf, hc, hcl]⟩

theorem aioGet_sim {q : Msgq} {l : List Msg} (h : RingRep q l) (a : Nat) :
    Sim (aioGet q a) ((chanOf q l).aioGet a) := by
  obtain ⟨q', l', evs', he, hp, hr, hc, hcl⟩ := runGetq_spec (q.getq ++ [a]) q l [] h
  unfold aioGet Chan.aioGet chanOf
  simp only [he, hp]
  exact ⟨rfl, rfl, rfl, rfl, l', hr, by simp [chanOf, hc, hcl]⟩

theorem cancel_sim {q : Msgq} {l : List Msg} (h : RingRep q l) (a rv : Nat) :
    Sim (cancel q a rv) ((chanOf q l).cancel a rv) := by
  unfold cancel Chan.cancel chanOf
  by_cases hc : q.getq.contains a = true ∨ (q.putq.map (·.1)).contains a = true
  · simp only [if_pos hc]; exact ⟨rfl, rfl, rfl, rfl, l, h, rfl⟩
  · simp only [if_neg hc]; exact ⟨rfl, rfl, rfl, rfl, l, h, rfl⟩

/-- drain loop of close / fini -/
theorem drainLoop_spec : ∀ (f : Nat) (q : Msgq) (l fr : List Msg), RingRep q l → l.length ≤ f →
    ∃ q', drainLoop f q fr true = (q', fr ++ l, true) ∧ RingRep q' [] ∧ q'.cap = q.cap ∧ q'.closed = q.closed := by
  intro f
  induction f with
  | zero =>
    intro q l fr h hl
    have : l = [] := by cases l <;> simp_all
    subst this
    exact ⟨q, by simp [drainLoop, len_zero_of_nil h], h, rfl, rfl⟩
  | succ f ih =>
    intro q l fr h hl
    cases l with
    | nil => exact ⟨q, by simp [drainLoop, len_zero_of_nil h], h, rfl, rfl⟩
    | cons m l =>
      have hp : q.len > 0 := Nat.pos_of_ne_zero (len_pos_of_cons h)
      obtain ⟨hd, hr, hc, _, _, hcl, _⟩ := deqGe_spec h
      obtain ⟨q', he, hr', hc', hcl'⟩ := ih _ l (fr ++ [m]) hr (by simpa using hl)
      refine ⟨q', ?_, hr', by rw [hc', hc], by rw [hcl', hcl]⟩
      simp only [drainLoop, if_pos hp, hd, Bool.and_true]
      rw [he]; simp

theorem close_sim {q : Msgq} {l : List Msg} (h : RingRep q l) : Sim (close q) ((chanOf q l).close) := by
  have h' : RingRep { q with closed := true } l := h
  obtain ⟨q', he, hr, hc, hcl⟩ := drainLoop_spec q.len { q with closed := true } l [] h' (by rw [h.len_eq]; exact Nat.le_refl _)
  unfold close Chan.close chanOf
  simp only [he]
  exact ⟨rfl, rfl, rfl, by simp, [], hr, by simp [chanOf, hc, hcl]⟩

/-- drop loop of resize: discards the oldest messages until at most `cap + 1` are left -/
theorem dropLoop_spec (cap : Nat) : ∀ (f : Nat) (q : Msgq) (l fr : List Msg), RingRep q l → l.length ≤ f →
    ∃ q', dropLoop cap f q fr true = (q', fr ++ l.take (l.length - (cap + 1)), true) ∧
      RR q'.msgs q'.alloc q.cap q'.len q'.get q'.put (l.drop (l.length - (cap + 1))) ∧ q'.len ≤ cap + 1 ∧
      q'.alloc = q.alloc ∧ q'.putq = q.putq ∧ q'.getq = q.getq ∧ q'.closed = q.closed := by
  intro f
  induction f with
  | zero =>
    intro q l fr h hl
    have : l = [] := by cases l <;> simp_all
    subst this
    have hz := len_zero_of_nil h
    exact ⟨q, by simp [dropLoop, hz], (by simpa [RingRep] using h), by omega, rfl, rfl, rfl, rfl⟩
  | succ f ih =>
    intro q l fr h hl
    by_cases hgt : q.len > cap + 1
    · cases l with
      | nil => have := len_zero_of_nil h; omega
      | cons m l =>
        obtain ⟨hd, hr, hc, hpq, hgq, hcl, hal⟩ := deqGe_spec h
        obtain ⟨q', he, hr', hle, hal', hpq', hgq', hcl'⟩ := ih _ l (fr ++ [m]) hr (by simpa using hl)
        have hlen := h.len_eq
        simp only [List.length_cons] at hlen
        have hk : (m :: l).length - (cap + 1) = (l.length - (cap + 1)) + 1 := by simp only [List.length_cons]; omega
        refine ⟨q', ?_, ?_, hle, by rw [hal', hal], by rw [hpq', hpq], by rw [hgq', hgq], by rw [hcl', hcl]⟩
        · simp only [dropLoop, if_pos hgt, hd, Bool.and_true]
          rw [he, hk, List.take_succ_cons]; simp
        · rw [hk, List.drop_succ_cons]; rw [hc] at hr'; exact hr'
    · have hk : l.length - (cap + 1) = 0 := by rw [h.len_eq]; omega
      refine ⟨q, ?_, by rw [hk]; exact h, by omega, rfl, rfl, rfl, rfl⟩
      simp [dropLoop, if_neg hgt, hk]

/-- copy loop of resize (growing): the surviving messages land at the front of the new array -/
theorem copyLoop_spec (oldq : List (Option Msg)) (oa a : Nat) : ∀ (f : Nat) (l : List Msg) (nq : List (Option Msg))
    (k og : Nat), nq.length = a → og < oa → k + l.length < a → l.length ≤ f → l.length ≤ oa →
    (∀ i, i < l.length → oldq[idx oa og i]? = (l[i]?).map some) →
    ∃ nq', copyLoop oldq oa a f nq k k og l.length true = (nq', k + l.length, k + l.length, true) ∧
      nq'.length = a ∧ (∀ j, j < k → nq'[j]? = nq[j]?) ∧ (∀ j, j < l.length → nq'[k + j]? = (l[j]?).map some) := by
  intro f
  induction f with
  | zero =>
    intro l nq k og hn hog hk hl hlo hs
    have : l = [] := by cases l <;> simp_all
    subst this
    exact ⟨nq, by simp [copyLoop], hn, fun _ _ => rfl, by simp⟩
  | succ f ih =>
    intro l nq k og hn hog hk hl hlo hs
    cases l with
    | nil => exact ⟨nq, by simp [copyLoop], hn, fun _ _ => rfl, by simp⟩
    | cons m l =>
      have h0 := hs 0 (by simp)
      rw [idx_zero hog] at h0
      simp at h0
      have hkl : k < nq.length := by simp only [List.length_cons] at hk; omega
      have hnext : (if og + 1 = oa then 0 else og + 1) = next oa og := by unfold next; split <;> split <;> omega
      have hput : (if k + 1 = a then 0 else k + 1) = k + 1 := by
        simp only [List.length_cons] at hk; rw [if_neg (by omega)]
      obtain ⟨nq', he, hn', hpre, hnew⟩ := ih l (nq.set k (some m)) (k + 1) (next oa og) (by simpa using hn)
        (next_lt (by omega)) (by simp only [List.length_cons] at hk; omega) (by simpa using hl)
        (by simp only [List.length_cons] at hlo; omega) (by
          intro i hi
          simp only [List.length_cons] at hlo
          rw [idx_next hog (by omega)]; have := hs (i + 1) (by simpa using hi); simpa using this)
      refine ⟨nq', ?_, hn', ?_, ?_⟩
      · simp only [copyLoop, List.length_cons, Nat.succ_ne_zero, ne_eq, not_false_eq_true, if_true, rd, h0, wr, hkl,
          Bool.and_true, hnext, hput, Nat.add_sub_cancel]
        rw [he]; simp only [Prod.mk.injEq, and_true, true_and]; omega
      · intro j hj; rw [hpre j (by omega), List.getElem?_set, if_neg (by omega)]
      · intro j hj
        cases j with
        | zero => rw [Nat.add_zero, hpre k (by omega), List.getElem?_set]; simp [hkl]
        | succ j =>
          have := hnew j (by simpa using hj)
          rw [show k + (j + 1) = k + 1 + j by omega, this]; simp

theorem resize_sim {q : Msgq} {l : List Msg} (h : RingRep q l) (cap : Nat) :
    Sim (resize q cap true) ((chanOf q l).resize cap) := by
  obtain ⟨q1, he, hr, hle, hal, hpq, hgq, hcl⟩ := dropLoop_spec cap q.len q l [] h (by rw [h.len_eq]; exact Nat.le_refl _)
  unfold resize Chan.resize chanOf
  simp only [Bool.not_true, Bool.and_false, Bool.false_eq_true, if_false, he, List.nil_append]
  by_cases hg : cap + spare > q.alloc
  · simp only [hg, decide_true, Bool.not_true, Bool.false_eq_true, if_false]
    have hsp : cap + 2 > q.alloc := hg
    have hlen1 := hr.len_eq
    obtain ⟨nq', hc, hn', _, hnew⟩ := copyLoop_spec q1.msgs q1.alloc (cap + spare) q1.len
      (l.drop (l.length - (cap + 1))) (List.replicate (cap + spare) none) 0 q1.get (by simp) hr.get_lt
      (by rw [hlen1, spare_two]; omega) (by rw [hlen1]; exact Nat.le_refl _)
      (by have h1 := hr.spare_ok; rw [spare_two] at h1; have h2 := hr.len_cap; omega) (by rw [hlen1]; exact hr.slots)
    rw [hlen1] at hc
    simp only [Nat.zero_add] at hc hnew
    simp only [hc]
    refine ⟨rfl, rfl, rfl, rfl, l.drop (l.length - (cap + 1)), ?_, by simp [chanOf, hpq, hgq, hcl]⟩
    have hrr : RR nq' (cap + spare) cap q1.len 0 q1.len (l.drop (l.length - (cap + 1))) := by
      refine ⟨hn', Nat.le_refl _, by rw [spare_two]; omega, ?_, hlen1, hle, ?_⟩
      · unfold idx; rw [spare_two]; split <;> omega
      · intro i hi
        have : idx (cap + spare) 0 i = i := by unfold idx; rw [spare_two]; split <;> omega
        rw [this]; exact hnew i (by rw [hlen1]; exact hi)
    exact hrr
  · simp only [hg, decide_false, Bool.not_false, if_true]
    refine ⟨rfl, rfl, rfl, rfl, l.drop (l.length - (cap + 1)), ?_, by simp [chanOf, hpq, hgq, hcl]⟩
    have hrr : RR q1.msgs q1.alloc cap q1.len q1.get q1.put (l.drop (l.length - (cap + 1))) :=
      ⟨hr.alloc_eq, by rw [hal]; omega, hr.get_lt, hr.put_eq, hr.len_eq, hle, hr.slots⟩
    exact hrr

/-- a failed allocation (only attempted when growing) changes nothing; when not growing no
    allocation is attempted -/
theorem resize_enomem (q : Msgq) (cap : Nat) :
    (cap + spare > q.alloc → resize q cap false = { q, rv := Err.enomem }) ∧
    (¬ cap + spare > q.alloc → resize q cap false = resize q cap true) := by
  unfold resize
  constructor
  · intro hg; simp [hg]
  · intro hg; simp [hg]

theorem init_rep (cap : Nat) : RingRep (init cap) [] ∧ chanOf (init cap) [] = Chan.init cap := by
  refine ⟨⟨by simp [init], by simp [init], by simp [init, spare_two], by simp [init, idx, spare_two], rfl, by simp [init],
    by intro i hi; simp [init] at hi⟩, rfl⟩

end Nng.Msgq
