/-
  Simulation, event by event (7): send on an open context (req0_ctx_send).
-/
import NngModel.Proofs.ReqJudgeEvF
namespace Nng.ReqJ
open Nng Nng.Proto Nng.Req Nng.ReqSpec

theorem aioOf_wipeV {s s' : State} {k : Nat} {dr : Bool} (e : mv s' = wipeV (mv s) k dr false) {x : Nat} {b : Bool} {a : Nat}
    (h : aioOf s' x b = some a) : aioOf s x b = some a := by
  have hc : s'.ctx = upd s.ctx k (wipeCtx (s.ctx k) dr false) := congrArg MV.ctx e
  unfold aioOf at h ⊢
  rw [hc] at h
  by_cases ex : x = k
  · subst ex
    rw [upd_same] at h
    cases b with
    | true => simp [wipeCtx] at h
    | false =>
      simp only [wipeCtx, Bool.false_eq_true, if_false] at h ⊢
      split at h
      · cases h
      · exact h
  · rw [upd_other _ _ _ _ ex] at h; exact h

/-- the judge's record of context `k` after the cancellations of req0_ctx_send keeps what `evSend` reads -/
theorem phAC_fini {rest : List Ev} {s : State} {j : J} (hM : R rest s j) (k a e : Nat) (tail : List Out)
    (hp : ∀ k' b, aioOf s k' b ≠ some a) (hn : s.sendQueue.Nodup) (he0 : e ≠ 0) (he19 : e ≠ Err.econnreset)
    (htail : ∀ x, x ∈ tail → (∃ p m, x = .psend p m) ∨ (∃ rv mb, x = .done a rv none mb) ∨ (∃ a', x = .done a' 0 none false)) :
    (phAC (some a) ((finiChain s k e).2 ++ tail) (j.ctx k)).recvWait = none := by
  have h0 := hM.rc k (by simp)
  have htl : ∀ c, phAC (some a) tail c = c := by
    intro c
    unfold phAC
    apply foldl_id
    intro x hx c'
    rcases htail x hx with ⟨p, m, rfl⟩ | ⟨rv, mb, rfl⟩ | ⟨a', rfl⟩
    · rfl
    · simp [phACf]
    · simp [phACf]
  unfold phAC at htl ⊢
  rw [List.foldl_append, htl, (finiChain_eq s k e hn).2, List.foldl_append]
  cases hr : (s.ctx k).recvAio with
  | none =>
    have hrw : (j.ctx k).recvWait = none := by rw [h0.rw, hr]; rfl
    simp only [List.foldl_nil]
    cases hs : (s.ctx k).sendAio with
    | none => exact hrw
    | some ua =>
      simp only [List.foldl_cons, List.foldl_nil, phACf]
      split
      · exact oldC_recvWait_none _ _ hrw
      · exact hrw
  | some ra =>
    have hrw : (j.ctx k).recvWait = some ra.aio := by rw [h0.rw, hr]; rfl
    have hne : ra.aio ≠ a := fun e' => hp k false (by rw [aioOf_recv hr, e'])
    have h1 : (oldC ra.aio (j.ctx k)).recvWait = none := by
      unfold oldC
      dsimp only
      split <;> (try split) <;> simp_all
    have hcond : (some ra.aio != some a && e != 0 && e != Err.econnreset) = true := by simp [hne, he0, he19]
    simp only [List.foldl_cons, List.foldl_nil, phACf, hcond, if_true]
    cases hs : (s.ctx k).sendAio with
    | none => exact h1
    | some ua =>
      simp only [List.foldl_cons, List.foldl_nil]
      unfold phACf
      dsimp only
      split
      · exact oldC_recvWait_none _ _ h1
      · exact h1

theorem phDone_send_skip (c : Option Nat) (a : Nat) (m : WMsg) (mode : Mode) (o : List Out) (j : J)
    (h : ∀ x, x ∈ o → (∃ p w, x = .psend p w) ∨ (∃ a' rv mb, x = .done a' rv none mb ∧ (a' ≠ a ∨ rv = 0))) :
    phDone (.send c a m mode) (some a) [] o j = j := by
  unfold phDone
  apply foldl_id
  intro x hx jx
  rcases h x hx with ⟨p, w, rfl⟩ | ⟨a', rv, mb, rfl, hh⟩
  · rfl
  · rcases hh with hh | hh
    · simp [hh]
    · simp [hh]

theorem sim_ctxSend {rest : List Ev} {s : State} {j : J} (c : Option Nat) (a : Nat) (m : WMsg) (mode : Mode)
    (hM : R (.send c a m mode :: rest) s j) (hI2 : Inv2 none none s) (hD : Dr s)
    (hnd : (sendBodies (.send c a m mode :: rest)).Nodup)
    (hl : (s.ctx (Req.keyOf c)).live = true) (hp : aioParked s a = none) :
    Sim rest (ctxSend s (Req.keyOf c) a m mode).1 j
      (ReqSpec.step j (.send c a m mode) (ctxSend s (Req.keyOf c) a m mode).2) (.send c a m mode) := by
  have hkk0 := keyOf_eq c
  generalize hk : Req.keyOf c = k at *
  have hsq : s.sendQueue.Nodup := hI2.sq_nodup
  have hpk := aioParked_none hM.mi hp
  have h0 := hM.rc k (by simp)
  have hk8 : k ≤ nCtxSlots := by
    apply Nat.le_of_not_lt; intro hlt
    have := hM.mi.biglive k hlt
    rw [hl] at this; cases this
  unfold ctxSend
  rw [if_neg (by simp [hM.mi.notclosed])]
  dsimp only
  rw [ctxSendPrep_eq]
  obtain ⟨e1, e2⟩ := finiChain_eq s k Err.ecanceled hsq
  obtain ⟨hI2r, _, _, _, hnal, _, _⟩ := inv2_finiChain k Err.ecanceled hI2
  have hmid := inv2_ctxSend_mid k a m mode hI2 hM.mi.open_
  have hRw := hM.wipe k true hI2 e1
  have hRb := bump_R c a m mode hRw
  have hpar := finiChain_parked s k Err.ecanceled hsq
  have hfdn := finiChain_dn s k Err.ecanceled hsq (by decide)
  generalize hr : finiChain s k Err.ecanceled = r at *
  -- facts about the wiped context
  have hrc : r.1.ctx = upd s.ctx k (wipeCtx (s.ctx k) true false) := congrArg MV.ctx e1
  have hrk : r.1.ctx k = wipeCtx (s.ctx k) true false := by rw [hrc, upd_same]
  have hrsq : r.1.sendQueue = s.sendQueue.erase k := congrArg MV.sendQueue e1
  have hrpipe : r.1.pipe = eraseCtxs s.pipe k := congrArg MV.pipe e1
  have hrready : r.1.readyPipes = s.readyPipes := congrArg MV.readyPipes e1
  -- the judge's side
  let JS : J := setC { j with anySend := true } k
    { opened := (j.ctx k).opened, retry := (j.ctx k).retry, req := some (newRJ m.body a (j.ctx k).retry j.now),
      stash := none, recvWait := none, latched := false }
  have hev : ∀ tail : List Out,
      (∀ x, x ∈ tail → (∃ p w, x = .psend p w) ∨ (∃ rv mb, x = .done a rv none mb) ∨ (∃ a', x = .done a' 0 none false)) →
      evSend (phA (some a) (r.2 ++ tail) j) c a m (r.2 ++ tail) = (JS, []) := by
    intro tail htail
    have hall : ∀ x, x ∈ r.2 ++ tail → ∀ a' rv mb, x = .done a' rv none mb → (∃ b, aioOf s k b = some a') ∨ a' = a ∨ rv = 0 := by
      intro x hx a' rv mb hxe
      rcases List.mem_append.1 hx with hx | hx
      · exact Or.inl (hpar x hx a' rv mb hxe)
      · rcases htail x hx with ⟨p, w, e⟩ | ⟨rv', mb', e⟩ | ⟨a'', e⟩
        · rw [e] at hxe; cases hxe
        · rw [e] at hxe; cases hxe; exact Or.inr (Or.inl rfl)
        · rw [e] at hxe; cases hxe; exact Or.inr (Or.inr rfl)
    -- completions of the event's own aio and successful ones are skipped by `phA`
    have hA : phA (some a) (r.2 ++ tail) (setC j k (j.ctx k)) = setC j k (phAC (some a) (r.2 ++ tail) (j.ctx k)) := by
      generalize (j.ctx k) = cj0
      generalize hL : r.2 ++ tail = L at hall
      clear hL
      induction L generalizing cj0 with
      | nil => rfl
      | cons x t ih =>
        rw [phA_cons]
        have e1 : phAf (some a) (setC j k cj0) x = setC j k (phACf (some a) cj0 x) := by
          unfold phAf phACf
          cases x with
          | done a' rv mm mb =>
            cases mm with
            | some _ => rfl
            | none =>
              dsimp only
              split
              · rename_i hc
                rcases hall _ (by simp) a' rv mb rfl with ⟨b, hb⟩ | h | h
                · exact oldDone_local hM.weaken rv hb cj0
                · subst h; simp at hc
                · subst h; simp at hc
              · rfl
          | _ => rfl
        rw [e1, ih _ (fun y hy => hall y (by simp [hy]))]
        rfl
    rw [setC_self] at hA
    rw [hA]
    have hrw : ((setC j k (phAC (some a) (r.2 ++ tail) (j.ctx k))).ctx (ReqSpec.keyOf c)).recvWait = none := by
      rw [hkk0, setC_ctx_same, ← hr]
      exact phAC_fini hM.weaken k a Err.ecanceled tail hpk hsq (by decide) (by decide) htail
    rw [evSend_eq _ c a m _ hrw]
    simp only [hkk0, setC_ctx_same, phAC_opened, phAC_retry, setC_now]
    congr 1
    exact setC_anySend_setC j k _ _
  split
  · -- the send fails at once (no pipe ready, non-blocking)
    rename_i rv hfail
    have hrv : rv ≠ 0 ∧ rv ≠ Err.econnreset := by
      split at hfail
      · unfold startFails at hfail
        split at hfail <;> simp at hfail <;> (subst hfail; exact ⟨by decide, by decide⟩)
      · cases hfail
    have htail : ∀ x, x ∈ [Out.done a rv none true] →
        (∃ p w, x = .psend p w) ∨ (∃ rv mb, x = .done a rv none mb) ∨ (∃ a', x = .done a' 0 none false) := by
      intro x hx; simp at hx; subst hx; exact Or.inr (Or.inl ⟨_, _, rfl⟩)
    have hsd : ∀ x, x ∈ r.2 ++ [Out.done a rv none true] → isSd x = true := by
      intro x hx
      rcases List.mem_append.1 hx with hx | hx
      · rcases isDn_shape (hfdn x hx) with ⟨a', rv', mb, rfl, _⟩ | ⟨n, rfl⟩
        · have := hfdn _ hx
          rw [e2] at hx
          rcases List.mem_append.1 hx with hx | hx
          · cases hra : (s.ctx k).recvAio with
            | none => simp [hra] at hx
            | some ra => simp [hra] at hx; simp [isSd, hx.2.1, Err.ecanceled, Err.econnreset]
          · cases hsa : (s.ctx k).sendAio with
            | none => simp [hsa] at hx
            | some ua => simp [hsa] at hx; simp [isSd, hx.2.1, Err.ecanceled, Err.econnreset]
        · rw [e2] at hx
          rcases List.mem_append.1 hx with hx | hx
          · cases hra : (s.ctx k).recvAio <;> simp [hra] at hx
          · cases hsa : (s.ctx k).sendAio <;> simp [hsa] at hx
      · simp at hx; subst hx; simpa [isSd] using hrv.2
    rw [step_send hsd j c a m mode hM.g.closed (by rw [hev _ htail]; exact hM.g.closed), hev _ htail]
    have hps : psF (r.2 ++ [Out.done a rv none true]) JS = JS := by
      rw [psF_app, psF_dn hfdn]; rfl
    rw [hps]
    have hfinJ : phDone (.send c a m mode) (some a) [] (r.2 ++ [Out.done a rv none true]) JS =
        { wipeJ j k true false with anySend := true } := by
      rw [phDone_append, phDone_send_skip c a m mode r.2 JS]
      · have h7 : (some a == some a && rv != 0) = true := by simp [hrv.1]
        simp only [phDone, List.foldl_cons, List.foldl_nil, h7, if_true, hkk0]
        show setC JS k { JS.ctx k with req := none } = _
        simp only [JS, setC_ctx_same, setC_setC, wipeJ, wipeCJ, if_true]
        simp only [setC]
      · intro x hx
        rcases isDn_shape (hfdn x hx) with ⟨a', rv', mb, rfl, _⟩ | ⟨n, rfl⟩
        · right
          obtain ⟨b, hb⟩ := hpar _ hx a' rv' mb rfl
          exact ⟨a', rv', mb, rfl, Or.inl (fun e => hpk k b (by rw [← e]; exact hb))⟩
        · rw [e2] at hx
          rcases List.mem_append.1 hx with hx | hx
          · cases hra : (s.ctx k).recvAio <;> simp [hra] at hx
          · cases hsa : (s.ctx k).sendAio <;> simp [hsa] at hx
    rw [hfinJ]
    have hfin := anySend_R hRb
    have hD' : Dr { r.1 with nalloc := r.1.nalloc + 1 } := dr_wipe (s' := r.1) k true hD e1
    rw [quiescent_R hfin hD']
    exact ⟨hfin, rfl, fun _ => rfl⟩
  · -- the request is installed and the send queue runs
    rename_i hnofail
    have hs1c : ({ r.1 with nalloc := r.1.nalloc + 1 } : State).ctx k = wipeCtx (s.ctx k) true false := hrk
    have hinst := install_R (rest := rest) (s := { r.1 with nalloc := r.1.nalloc + 1 })
      (s' := { installReq { r.1 with nalloc := r.1.nalloc + 1 } k a m mode (r.1.nalloc + 1) with
        sendQueue := (installReq { r.1 with nalloc := r.1.nalloc + 1 } k a m mode (r.1.nalloc + 1)).sendQueue ++ [k] })
      (j := wipeJ j k true false) k a m mode (r.1.nalloc + 1) hRb
      (installReq_ctx _ k a m mode _) (installReq_body _ k a m mode _)
      (by
        have h := installReq_same { r.1 with nalloc := r.1.nalloc + 1 } k a m mode (r.1.nalloc + 1)
        exact ⟨h.1, by show _ ++ [k] = _ ++ [k]; rw [h.2.1], h.2.2.1, h.2.2.2.1, h.2.2.2.2.1, h.2.2.2.2.2.1, h.2.2.2.2.2.2.1,
          h.2.2.2.2.2.2.2.1, h.2.2.2.2.2.2.2.2.1, h.2.2.2.2.2.2.2.2.2.1, h.2.2.2.2.2.2.2.2.2.2.1, h.2.2.2.2.2.2.2.2.2.2.2⟩)
      (installReq_tick _ k a m mode _)
      (by
        intro hact x hx hpos
        have : r.1.retryActive = true := hI2r.rq_active x hx hpos
        have hact' : r.1.retryActive = false := hact
        rw [this] at hact'; cases hact')
      (by rw [QuietCtx, hs1c]; exact ⟨rfl, rfl, rfl⟩) (by rw [hs1c]; rfl) (by rw [hs1c]; rfl)
      (by rw [hs1c]; exact hl)
      (by show k ∉ r.1.sendQueue; rw [hrsq]; exact hsq.not_mem_erase)
      (by intro q; show k ∉ (r.1.pipe q).ctxs; rw [hrpipe]; exact (hI2.pc_nodup q).not_mem_erase)
      (by
        intro k' b hb
        exact hpk k' b (aioOf_wipeV (s' := r.1) e1 hb))
      (by
        intro hlv
        have hle : r.1.nalloc + 1 ≤ r.1.nalloc := by
          rcases hlv with hlv | ⟨k', hlv⟩
          · exact (hRw.mi.al_le _ hlv).2
          · exact (hI2r.req_id k' _ hlv).2.2
        omega)
      (Nat.succ_ne_zero _) (Nat.le_refl _)
      (by
        intro h hlv hbe
        have := hRw.mi.fresh h hlv
        rw [sendBodies_cons_send] at this
        exact this (by rw [hbe]; simp))
      (by
        rw [sendBodies_cons_send] at hnd
        exact (List.nodup_cons.1 hnd).1)
    have hJS : setC { wipeJ j k true false with anySend := true } k
        { opened := ((wipeJ j k true false).ctx k).opened, retry := ((wipeJ j k true false).ctx k).retry,
          req := some (newRJ m.body a ((wipeJ j k true false).ctx k).retry (wipeJ j k true false).now),
          stash := none, recvWait := none, latched := false } = JS := by
      unfold wipeJ
      rw [setC_anySend_setC, setC_ctx_same]
      rfl
    rw [hJS] at hinst
    obtain ⟨hfin, he04, he12⟩ := runSendQueue_M hmid hinst (Or.inr (fun _ h => by cases h))
    generalize hq : runSendQueue { installReq { r.1 with nalloc := r.1.nalloc + 1 } k a m mode (r.1.nalloc + 1) with
        sendQueue := (installReq { r.1 with nalloc := r.1.nalloc + 1 } k a m mode (r.1.nalloc + 1)).sendQueue ++ [k] } = q
      at hfin he04 he12 ⊢
    have hqtx : ∀ x, x ∈ q.2 → isTx x = true := by rw [← hq]; exact runSendQueue_tx _
    have hqdr : Dr q.1 := by rw [← hq]; exact runSendQueue_dr _
    have htail : ∀ x, x ∈ q.2 →
        (∃ p w, x = .psend p w) ∨ (∃ rv mb, x = .done a rv none mb) ∨ (∃ a', x = .done a' 0 none false) := by
      intro x hx
      rcases isTx_shape (hqtx x hx) with ⟨p, w, e⟩ | ⟨a', e⟩
      · exact Or.inl ⟨p, w, e⟩
      · exact Or.inr (Or.inr ⟨a', e⟩)
    have hsd : ∀ x, x ∈ r.2 ++ q.2 → isSd x = true := by
      intro x hx
      rcases List.mem_append.1 hx with hx | hx
      · rw [e2] at hx
        rcases List.mem_append.1 hx with hx | hx
        · cases hra : (s.ctx k).recvAio with
          | none => simp [hra] at hx
          | some ra => simp [hra] at hx; subst hx; simp [isSd, Err.ecanceled, Err.econnreset]
        · cases hsa : (s.ctx k).sendAio with
          | none => simp [hsa] at hx
          | some ua => simp [hsa] at hx; subst hx; simp [isSd, Err.ecanceled, Err.econnreset]
      · rcases isTx_shape (hqtx x hx) with ⟨p, w, rfl⟩ | ⟨a', rfl⟩
        · rfl
        · simp [isSd, Err.econnreset]
    rw [step_send hsd j c a m mode hM.g.closed (by rw [hev _ htail]; exact hM.g.closed), hev _ htail]
    have hps : psF (r.2 ++ q.2) JS = psF q.2 JS := by rw [psF_app, psF_dn hfdn]
    rw [hps, phDone_send_skip c a m mode (r.2 ++ q.2), quiescent_R hfin hqdr]
    · exact ⟨hfin, he04, fun _ => he12⟩
    · intro x hx
      rcases List.mem_append.1 hx with hx | hx
      · rcases isDn_shape (hfdn x hx) with ⟨a', rv', mb, rfl, _⟩ | ⟨n, rfl⟩
        · right
          obtain ⟨b, hb⟩ := hpar _ hx a' rv' mb rfl
          exact ⟨a', rv', mb, rfl, Or.inl (fun e => hpk k b (by rw [← e]; exact hb))⟩
        · rw [e2] at hx
          rcases List.mem_append.1 hx with hx | hx
          · cases hra : (s.ctx k).recvAio <;> simp [hra] at hx
          · cases hsa : (s.ctx k).sendAio <;> simp [hsa] at hx
      · rcases isTx_shape (hqtx x hx) with ⟨p, w, rfl⟩ | ⟨a', rfl⟩
        · exact Or.inl ⟨p, w, rfl⟩
        · exact Or.inr ⟨a', 0, false, rfl, Or.inr rfl⟩

theorem sim_send {rest : List Ev} {s : State} {j : J} (c : Option Nat) (a : Nat) (m : WMsg) (mode : Mode)
    (hM : R (.send c a m mode :: rest) s j) (hI2 : Inv2 none none s) (hD : Dr s)
    (hnd : (sendBodies (.send c a m mode :: rest)).Nodup) :
    Sim rest (Req.step s (.send c a m mode)).1 j (ReqSpec.step j (.send c a m mode) (Req.step s (.send c a m mode)).2)
      (.send c a m mode) := by
  unfold Req.step
  rw [if_neg (by simp [hM.mi.open_]), if_neg (by simp [hM.mi.notgone])]
  dsimp only
  split
  · exact sim_refused _ _ hM
  split
  · exact sim_refused _ _ hM
  split
  · rename_i hl
    exact sim_send_dead c a m mode hM hD (by simpa using hl)
  · rename_i hp hl
    exact sim_ctxSend c a m mode hM hI2 hD hnd (by simpa using hl) (by simpa using hp)

end Nng.ReqJ
