/-
  C08 judge simulation, part 5: the shape of the judge's output processing on the model's
  output lists; pipe events (drop, send completion).
-/
import NngModel.Proofs.PairJudge4
namespace Nng.Pair0
open Nng Nng.Proto Nng.PairSpec

theorem step_general {V : Variant} {v1 : Bool} {sS sR sS' sR' : List Bytes} {s s' : State} {j j1 jm : PairJ}
    {ev : Ev} {outs : List Out} {nb : Nb}
    (hR : R' V v1 sS sR s j) (hne : notExecuted outs = false)
    (hpre : pairPre false { j with lastPoll := none } ev outs = (j1, nb))
    (hmid : pairMid false nb ev outs j1 = jm)
    (hpost : pairPost false j.lastPoll nb ev outs jm = jm)
    (hA' : All V s') (hRm : R V v1 sS' sR' s' jm) : R' V v1 sS' sR' s' (pairStepOld j ev outs) := by
  rw [pairStep_eq (j := j) hR.1.err hne, hpre]
  simp only []
  rw [hmid, hpost]
  exact finish hA' hRm

theorem filter_dn {dn : List Out} (h : ∀ o ∈ dn, isDone o = true) :
    dn.filter isDone = dn ∧ dn.filter (fun o => !isDone o) = [] := by
  constructor
  · rw [List.filter_eq_self]; exact h
  · rw [List.filter_eq_nil_iff]; intro o ho; simp [h o ho]

theorem pairMid_shape {nb : Nb} {ev : Ev} {outs dn ps gn : List Out} {j : PairJ} {p : Nat}
    (hr : j.racing = false) (hev : isPipeAdd ev = false) (hl : j.live = some p)
    (h1 : outs.filter isDone = dn)
    (h2 : (outs.filter (fun o => !isDone o)).filter (onOld (some p)) = ps)
    (h3 : (outs.filter (fun o => !isDone o)).filter (oldGone (some p)) = gn)
    (h4 : ∀ o ∈ (outs.filter (fun o => !isDone o)).filter (fun o => !onOld (some p) o && !oldGone (some p) o),
      neutral o = true) :
    pairMid false nb ev outs j = gn.foldl (pairOut nb) (ps.foldl (pairOut nb) (dn.foldl (pairOut nb) j)) := by
  rw [pairMid_eq hr hev, hl, h1, h2, h3, fold_neutral nb _ h4]

theorem pairMid_shape_none {nb : Nb} {ev : Ev} {outs : List Out} {j : PairJ}
    (hr : j.racing = false) (hev : isPipeAdd ev = false) (hl : j.live = none) :
    pairMid false nb ev outs j =
      (outs.filter (fun o => !isDone o)).foldl (pairOut nb) ((outs.filter isDone).foldl (pairOut nb) j) := by
  rw [pairMid_eq hr hev, hl]
  have e1 : ∀ l : List Out, l.filter (onOld none) = [] := by
    intro l; rw [List.filter_eq_nil_iff]; intro o _; cases o <;> simp [onOld]
  have e2 : ∀ l : List Out, l.filter (oldGone none) = [] := by
    intro l; rw [List.filter_eq_nil_iff]; intro o _; cases o <;> simp [oldGone]
  have e3 : ∀ l : List Out, l.filter (fun o => !onOld none o && !oldGone none o) = l := by
    intro l; rw [List.filter_eq_self]; intro o _; cases o <;> simp [onOld, oldGone]
  rw [e1, e2, e3]; rfl

theorem pairMid_neutral {nb : Nb} {ev : Ev} {outs : List Out} {j : PairJ}
    (hr : j.racing = false) (hev : isPipeAdd ev = false) (h : ∀ o ∈ outs, neutral o = true) :
    pairMid false nb ev outs j = j := by
  rw [pairMid_eq hr hev]
  have h0 : outs.filter isDone = [] := by
    rw [List.filter_eq_nil_iff]; intro o ho; have := h o ho; cases o <;> simp_all [neutral, isDone]
  have hn : ∀ q : Out → Bool, ∀ o ∈ (outs.filter (fun o => !isDone o)).filter q, neutral o = true := by
    intro q o ho; exact h o (List.mem_filter.1 (List.mem_filter.1 ho).1).1
  rw [h0, fold_neutral nb _ (hn _), fold_neutral nb _ (hn _), fold_neutral nb _ (hn _)]
  rfl

theorem neutral_tame {outs : List Out} (h : ∀ o ∈ outs, neutral o = true) : ∀ o ∈ outs, tame o = true := by
  intro o ho; have := h o ho; cases o <;> simp_all [neutral, tame]

/-- an executed event that changes nothing the relation looks at, the judge does no
    bookkeeping for, and whose outputs the judge ignores -/
theorem step_plain {V : Variant} {v1 : Bool} {sS sR : List Bytes} {s s' : State} {j : PairJ} {ev : Ev}
    {outs : List Out} (hR : R' V v1 sS sR s j) (hA' : All V s') (hv : view s' = view s)
    (hpre : ∀ j0 : PairJ, pairPre false j0 ev outs = (j0, .none))
    (hev : isPipeAdd ev = false) (hp : isPoll ev = false)
    (ho : ∀ o ∈ outs, neutral o = true) : R' V v1 sS sR s' (pairStepOld j ev outs) := by
  have ht := tame_all (neutral_tame ho)
  exact step_general hR ht.1 (hpre _) (pairMid_neutral hR.1.racing hev ho)
    (pairPost_none hp ht.2 hR.1.racing) hA' (R_view hv hR.1)

/-- the attached pipe is lost -/
theorem pairMid_lost {nb : Nb} {ev : Ev} {j : PairJ} {p : Nat}
    (hr : j.racing = false) (hev : isPipeAdd ev = false) (hl : j.live = some p) :
    pairMid false nb ev [.rv 0, .pclosed p] j = pairOut nb j (.pclosed p) := by
  rw [pairMid_shape (dn := []) (ps := []) (gn := [.pclosed p]) hr hev hl]
  · rfl
  · simp [isDone]
  · simp [isDone, onOld]
  · simp [isDone, oldGone]
  · simp [isDone, onOld, oldGone, neutral]

theorem step_lost {V : Variant} {v1 : Bool} {sS sR : List Bytes} {s s1 : State} {j j1 : PairJ} {ev : Ev}
    {p : Nat} {pp : Pipe} (hR : R' V v1 sS sR s j)
    (hpre : pairPre false { j with lastPoll := none } ev [.rv 0, .pclosed p] = (j1, .none))
    (hev : isPipeAdd ev = false) (hp : isPoll ev = false)
    (hR1 : R V v1 sS sR s1 j1) (hP : PInv s1) (hg : getPipe s1 p = some pp) (hc : pp.closed = false)
    (hA' : All V (closePipe s1 p).1) :
    R' V v1 sS sR (closePipe s1 p).1 (pairStepOld j ev [.rv 0, .pclosed p]) := by
  obtain ⟨_, hR2⟩ := closePipe_R hR1 hP .none hg hc
  have hcur : s1.cur = some p := by
    obtain ⟨hm, hid⟩ := getPipe_some hg; exact hid ▸ hP.single pp hm hc
  refine step_general hR (by simp [notExecuted]) hpre
    (pairMid_lost hR1.racing hev (hR1.live.trans hcur))
    (pairPost_none hp (by simp [noBlocked, isBlocked]) hR2.racing) hA' hR2

/-- `step` on an open socket -/
def stepLive (V : Variant) (s : State) (ev : Ev) : State × List Out :=
  match ev with
  | .openSock _ _ => (s, [.other "bad-op"])
  | .pipeAdd peer =>
    let id := s.pipes.length
    let s := { s with pipes := s.pipes ++ [{ id := id }] }
    let (s, o) := pipeStart V s id peer
    (s, [.pipe id] ++ o)
  | .pipeDrop p =>
    match getPipe s p with
    | some pp =>
      if pp.closed then (s, [.rv (-1)])
      else let (s, o) := closePipe s p; (s, [.rv 0] ++ o)
    | none => (s, [.rv (-1)])
  | .sendDone p rv =>
    match getPipe s p with
    | some pp =>
      if pp.closed || pp.busy.isNone then (s, [.rv (-1)])
      else if rv != 0 then
        -- pair*_pipe_send_cb: free the message, close the pipe
        let (s, o) := closePipe s p
        (s, [.rv 0] ++ o)
      else
        let s := modPipe s p fun q => { q with busy := none }
        let (s, o) := sendSched V s p
        (s, [.rv 0] ++ o)
    | none => (s, [.rv (-1)])
  | .recvDone p r =>
    match getPipe s p with
    | some pp =>
      if pp.closed || !pp.armed then (s, [.rv (-1)])
      else
        let s := modPipe s p fun q => { q with armed := false }
        match r with
        | .error _ => let (s, o) := closePipe s p; (s, [.rv 0] ++ o)
        | .ok b => let (s, o) := recvCb V s p b; (s, [.rv 0] ++ o)
    | none => (s, [.rv (-1)])
  | .send _ a m mode =>
    if aioBusy s a then (s, [.other "aio-busy"]) else sockSend V s a m mode
  | .recv _ a mode =>
    if aioBusy s a then (s, [.other "aio-busy"]) else sockRecv s a mode
  | .cancel a => failParked s a Err.ecanceled
  | .abort a rv => failParked s a rv
  | .advance ms => expire { s with now := s.now + ms }
  | .ctxOpen _ => (s, [.rv Err.enotsup])
  | .ctxClose _ => (s, [.rv (-1)])
  | .setopt none "send-buffer" "int" v =>
    if v < 0 || v > V.sendBufMax then (s, [.rv Err.einval]) else (setSendBuf s v.toNat, [.rv 0])
  | .setopt none "recv-buffer" "int" v =>
    if v < 0 || v > V.recvBufMax then (s, [.rv Err.einval]) else (setRecvBuf s v.toNat, [.rv 0])
  | .setopt none "ttl-max" "int" v =>
    if !V.hasTtl then (s, [.other "unmodelled-option"])
    else if v < V.ttlMin || v > V.ttlMax then (s, [.rv Err.einval])
    else ({ s with ttl := v.toNat }, [.rv 0])
  | .setopt _ _ _ _ => (s, [.other "unmodelled-option"])
  | .getopt none "send-buffer" "int" => (s, [.rv2 0 s.wmqCap])
  | .getopt none "recv-buffer" "int" => (s, [.rv2 0 s.rmqCap])
  | .getopt none "ttl-max" "int" =>
    if V.hasTtl then (s, [.rv2 0 s.ttl]) else (s, [.other "unmodelled-option"])
  | .getopt _ _ _ => (s, [.other "unmodelled-option"])
  | .poll => (s, [.poll (some s.readable) (some s.writable)])
  | .sub _ _ => (s, [.other "bad-op"])
  | .unsub _ _ => (s, [.other "bad-op"])
  | .close =>
    -- the core closes every pipe and waits for them, then calls pair*_sock_close
    let (s, o1) := closeAllPipes s
    let (s, o2) := sockClose s
    ({ s with closed := true }, o1 ++ o2)

theorem step_live (V : Variant) {s : State} (ho : s.opened = true) (hc : s.closed = false) (ev : Ev) :
    step V s ev = stepLive V s ev := by
  unfold step stepLive
  rw [if_neg (by simp [ho]), if_neg (by simp [hc])]
  rfl

end Nng.Pair0
