/- every step of the poller-layer model is a stutter, a step of the call machine (`CallRel`: a client or
   the running callback moves inside a call of the pfd API) or one of the six transitions of the poller
   thread itself (`PollRel`) -/
import NngModel.Proofs.PfdBasic
namespace Nng.Pfd
open Nng.PfdSpec

/-- thread `t`, at frame `f` of call `op`, performs one step of the call machine -/
structure CallRel (s s' : State) (t : Tid) (f : Frame) (op : Op) : Prop where
  hf : frameOf s t = f
  hop : opOf s t = some op
  hg : s'.g = acct (callStep s.g t f op).g t f op (callStep s.g t f op).fin
  hf' : frameOf s' t = (callStep s.g t f op).frame
  fo : ∀ u, u ≠ t → frameOf s' u = frameOf s u
  oo : ∀ u, u ≠ t → opOf s' u = opOf s u
  ot : (callStep s.g t f op).fin = false → opOf s' t = some op
  pc : s'.p.pc = s.p.pc
  batch : s'.p.batch = s.p.batch
  reap : s'.p.reap = s.p.reap
  tp : t = .p → s.p.pc = .inCb
  len : s'.cs.length = s.cs.length

theorem cstep_rel {s : State} {i : Nat} {c : Client} {op : Op} {rest : List Op}
    (h : s.cs[i]? = some c) (hp : c.prog = op :: rest) : CallRel s (cstep s i c) (.c i) c.frame op := by
  have hi : i < s.cs.length := by
    rcases Nat.lt_or_ge i s.cs.length with hlt | hge
    · exact hlt
    · rw [List.getElem?_eq_none hge] at h; cases h
  refine ⟨frameOf_c h, by rw [opOf_c h, hp]; rfl, ?_, ?_, ?_, ?_, ?_, ?_, ?_, ?_, ?_, ?_⟩
  · simp [cstep, hp]
  · simp [cstep, hp, frameOf, hi]
  · intro u hu
    cases u with
    | p => simp [cstep, hp, frameOf]
    | c j =>
      have hij : i ≠ j := fun e => hu (by rw [e])
      simp [cstep, hp, frameOf, List.getElem?_set_ne hij]
  · intro u hu
    cases u with
    | p => simp [cstep, hp, opOf]
    | c j =>
      have hij : i ≠ j := fun e => hu (by rw [e])
      simp [cstep, hp, opOf, List.getElem?_set_ne hij]
  · intro hfin
    simp [cstep, hp, opOf, hi, hfin]
  · simp [cstep, hp]
  · simp [cstep, hp]
  · simp [cstep, hp]
  · intro e; cases e
  · simp [cstep, hp]

theorem pcall_rel {s : State} {op : Op} {rest : List Op} {r : Evs} {w : Bool}
    (hpc : s.p.pc = .inCb) (hr : s.p.rem = op :: rest) : CallRel s (pstep s r w) .p s.p.frame op := by
  refine ⟨rfl, by simp [opOf, hr], ?_, ?_, ?_, ?_, ?_, ?_, ?_, ?_, ?_, ?_⟩
  · simp [pstep, hpc, hr]
  · simp [pstep, hpc, hr, frameOf]
  · intro u hu
    cases u with
    | p => exact absurd rfl hu
    | c j => simp [pstep, hpc, hr, frameOf]
  · intro u hu
    cases u with
    | p => exact absurd rfl hu
    | c j => simp [pstep, hpc, hr, opOf]
  · intro hfin
    simp [pstep, hpc, hr, opOf, hfin]
  · simp [pstep, hpc, hr]
  · simp [pstep, hpc, hr]
  · simp [pstep, hpc, hr]
  · intro _; exact hpc
  · simp [pstep, hpc, hr]

/-- the transitions of the poller thread outside the calls of the callback -/
inductive PollRel (s : State) (ready : Evs) (wf : Bool) : State → Prop
  | harvest (hpc : s.p.pc = .wait) (hne : (harvest s.g ready wf).isEmpty = false) :
      PollRel s ready wf
        { s with g := { s.g with en := s.g.en && !(harvest s.g ready wf).any BEv.isPfd,
                                 harvested := s.g.harvested + (if (harvest s.g ready wf).any BEv.isPfd then 1 else 0),
                                 lastArm := if (harvest s.g ready wf).any BEv.isPfd then Evs.none else s.g.lastArm,
                                 hm := if (harvest s.g ready wf).any BEv.isPfd then deliver ready s.g.mask else s.g.hm },
                 p := { s.p with pc := .disp, batch := harvest s.g ready wf, reap := false } }
  | dispNil (hpc : s.p.pc = .disp) (hb : s.p.batch = []) :
      PollRel s ready wf { s with p := { s.p with pc := afterEntry s.p } }
  | dispWake (rest : List BEv) (hpc : s.p.pc = .disp) (hb : s.p.batch = .wake :: rest) :
      PollRel s ready wf
        { s with g := { s.g with evfd := 0 },
                 p := { s.p with batch := rest, reap := true, pc := afterEntry { s.p with batch := rest, reap := true } } }
  | dispPfd (m : Evs) (rest : List BEv) (hpc : s.p.pc = .disp) (hb : s.p.batch = .pfd m :: rest) :
      PollRel s ready wf
        { s with g := { touch s.g with events := (touch s.g).events.diff m },
                 p := { s.p with batch := rest, cur := m, pc := .cbBegin } }
  | cbBegin (hpc : s.p.pc = .cbBegin) :
      PollRel s ready wf
        { s with g := { touch s.g with inCb := true, cm := s.p.cur, cbBegun := (touch s.g).cbBegun + 1,
                                        late := (touch s.g).late || (touch s.g).synced || (touch s.g).finiDone,
                                        badfd := (touch s.g).badfd || !(touch s.g).fdOpen,
                                        cbAfterClose := (touch s.g).cbAfterClose + (if (touch s.g).closeDone then 1 else 0) },
                 p := { s.p with pc := .inCb, rem := s.p.scripts.headD [], scripts := s.p.scripts.tail, frame := .idle } }
  | cbEnd (hpc : s.p.pc = .inCb) (hr : s.p.rem = []) :
      PollRel s ready wf
        { s with g := { s.g with inCb := false, cbEnded := s.g.cbEnded + 1 },
                 p := { s.p with pc := afterEntry s.p, frame := .idle } }
  | reap (hpc : s.p.pc = .reapLock) (hm : s.g.mtx = none) :
      PollRel s ready wf
        { s with g := { s.g with onReap := false, uaf := s.g.uaf || (s.g.onReap && s.g.freed) },
                 cs := s.cs.map wakeClient,
                 p := { s.p with pc := .wait, reap := false } }

/-- the three kinds of steps -/
theorem step_cases (s : State) (ch : Choice) :
    step s ch = s ∨ (∃ f op, CallRel s (step s ch) ch.tid f op) ∨ PollRel s ch.ready ch.wakeFirst (step s ch) := by
  rcases ch with ⟨tid, ready, wf⟩
  cases tid with
  | c i =>
    simp only [step]
    cases h : s.cs[i]? with
    | none => left; rfl
    | some c =>
      simp only
      cases hp : c.prog with
      | nil => left; simp [cstep, hp]
      | cons op rest => right; left; exact ⟨c.frame, op, cstep_rel h hp⟩
  | p =>
    simp only [step]
    cases hpc : s.p.pc with
    | wait =>
      by_cases hne : (harvest s.g ready wf).isEmpty = true
      · left; simp [pstep, hpc, hne]
      · right; right
        have := PollRel.harvest (s := s) (ready := ready) (wf := wf) hpc (by simpa using hne)
        simpa [pstep, hpc, hne] using this
    | disp =>
      cases hb : s.p.batch with
      | nil =>
        right; right
        have := PollRel.dispNil (s := s) (ready := ready) (wf := wf) hpc hb
        simpa [pstep, hpc, hb] using this
      | cons b rest =>
        cases b with
        | wake =>
          right; right
          have := PollRel.dispWake (s := s) (ready := ready) (wf := wf) rest hpc hb
          simpa [pstep, hpc, hb] using this
        | pfd m =>
          right; right
          have := PollRel.dispPfd (s := s) (ready := ready) (wf := wf) m rest hpc hb
          simpa [pstep, hpc, hb] using this
    | cbBegin =>
      right; right
      have := PollRel.cbBegin (s := s) (ready := ready) (wf := wf) hpc
      simpa [pstep, hpc] using this
    | inCb =>
      cases hr : s.p.rem with
      | nil =>
        right; right
        have := PollRel.cbEnd (s := s) (ready := ready) (wf := wf) hpc hr
        simpa [pstep, hpc, hr] using this
      | cons op rest => right; left; exact ⟨s.p.frame, op, pcall_rel hpc hr⟩
    | reapLock =>
      by_cases hm : s.g.mtx.isSome = true
      · left; simp [pstep, hpc, hm]
      · right; right
        have hm' : s.g.mtx = none := by simpa using hm
        have := PollRel.reap (s := s) (ready := ready) (wf := wf) hpc hm'
        simpa [pstep, hpc, hm'] using this

end Nng.Pfd
