/- the ghost list `subm` of a path is exactly what the device's calls to nni_sock_send carried -/
import NngModel.Proofs.DeviceFrame
namespace Nng.Device
open Nng
set_option linter.unusedSimpArgs false

/-- the messages of the `nni_sock_send` calls made for path `j`, in order -/
def sendsOf (j : Nat) : List Act → List Msg
  | [] => []
  | .sockSend _ i (some m) :: as => if i == j then m :: sendsOf j as else sendsOf j as
  | _ :: as => sendsOf j as

theorem sendsOf_append (j : Nat) (a b : List Act) : sendsOf j (a ++ b) = sendsOf j a ++ sendsOf j b := by
  induction a with
  | nil => rfl
  | cons x xs ih =>
    cases x with
    | sockSend s i m =>
      cases m with
      | none => simp [sendsOf, ih]
      | some m => by_cases h : (i == j) = true <;> simp [sendsOf, ih, h]
    | _ => simp [sendsOf, ih]

theorem sendsOf_flatten_nil (j : Nat) (l : List (List Act)) (h : ∀ x ∈ l, sendsOf j x = []) :
    sendsOf j l.flatten = [] := by
  induction l with
  | nil => rfl
  | cons x xs ih =>
    simp only [List.flatten_cons, sendsOf_append]
    rw [h x (by simp), ih (fun y hy => h y (by simp [hy]))]
    rfl

theorem abortPaths_sends (j : Nat) (skip : Option Nat) (rv : Nat) (ps : List Path) :
    sendsOf j (abortPaths skip rv ps).2 = [] := by
  unfold abortPaths
  apply sendsOf_flatten_nil
  intro x hx
  rcases List.mem_iff_getElem.mp hx with ⟨k, hk, hxk⟩
  rw [List.getElem_mapIdx] at hxk
  rw [← hxk]
  split <;> rfl

theorem map_sockClose_sends (j : Nat) (l : List Nat) : sendsOf j (l.map Act.sockClose) = [] := by
  induction l with
  | nil => rfl
  | cons x xs ih => simp [sendsOf, ih]

theorem cbFinish_sends (j : Nat) (d : Dev) : sendsOf j (cbFinish d).2 = [] := by
  unfold cbFinish deviceClose
  by_cases ho : d.owned = true <;> by_cases hu : d.user = true <;>
    simp [ho, hu, sendsOf_append, sendsOf, map_sockClose_sends]

theorem cbFail_sends (j : Nat) (d : Dev) (i : Nat) (p1 : Path) (rv : Nat) : sendsOf j (cbFail d i p1 rv).2 = [] := by
  unfold cbFail
  simp only
  split
  · simp [sendsOf_append, abortPaths_sends, cbFinish_sends]
  · exact abortPaths_sends _ _ _ _

theorem cbPath_sends (j drv i : Nat) (p : Path) :
    sendsOf j (cbPath drv i p).2.2 = [] ∧ (cbPath drv i p).1.subm = p.subm ∧
    ((cbPath drv i p).2.1 = 0 → (cbPath drv i p).1.amsg = p.amsg) := by
  cases hs : p.state <;> by_cases h1 : p.ares = 0 <;> by_cases h2 : drv = 0 <;>
    simp [cbPath, freeMsg, hs, h1, h2, sendsOf]

theorem advance_sends (j i : Nat) (p : Path) :
    (advance i p).1.subm = p.subm ++ (if p.state = .recv then p.amsg.toList else []) ∧
    sendsOf j (advance i p).2 = if p.state = .recv ∧ i = j then p.amsg.toList else [] := by
  unfold advance
  cases hs : p.state <;> simp [sendsOf]
  cases p.amsg with
  | none => simp [sendsOf]
  | some m => by_cases h : i = j <;> simp [sendsOf, h]

theorem abortPaths_subm (skip : Option Nat) (rv : Nat) (ps : List Path) (j : Nat) :
    ((abortPaths skip rv ps).1[j]?).map (·.subm) = (ps[j]?).map (·.subm) := by
  simp only [abortPaths, List.getElem?_mapIdx]
  cases ps[j]? with
  | none => rfl
  | some q =>
    simp only [Option.map_some]
    split <;> rfl

theorem deviceCb_subm (d : Dev) (i : Nat) (p p0 : Path) (hp0 : d.paths[i]? = some p0) (hpi : p.subm = p0.subm)
    (j : Nat) :
    ((deviceCb { d with paths := d.paths.set i p } i).1.paths[j]?).map (·.subm) =
      (d.paths[j]?).map (fun q => q.subm ++ sendsOf j (deviceCb { d with paths := d.paths.set i p } i).2) := by
  have hi : i < d.paths.length := by
    rcases List.getElem?_eq_some_iff.mp hp0 with ⟨h, _⟩; exact h
  have hget : ({ d with paths := d.paths.set i p } : Dev).paths[i]? = some p := by simp [hi]
  have hf := deviceCb_frame d i p hi
  simp only at hf
  have hcs := cbPath_sends j d.rv i p
  by_cases hrv : (cbPath d.rv i p).2.1 = 0
  · have hne : ¬ ((cbPath d.rv i p).2.1 != 0) = true := by simp [hrv]
    have hr : deviceCb { d with paths := d.paths.set i p } i =
        ((cbCont { d with paths := d.paths.set i p } i (cbPath d.rv i p).1).1,
         (cbPath d.rv i p).2.2 ++ (cbCont { d with paths := d.paths.set i p } i (cbPath d.rv i p).1).2) := by
      unfold deviceCb
      simp only [hget]
      rw [if_neg hne]
    have hpaths := (hf.2 hrv).1
    have hadv := advance_sends j i (cbPath d.rv i p).1
    have hacts : sendsOf j (deviceCb { d with paths := d.paths.set i p } i).2 =
        sendsOf j (advance i (cbPath d.rv i p).1).2 := by
      rw [hr]; simp only [sendsOf_append, hcs.1, cbCont]; rfl
    rw [hacts, hpaths, List.getElem?_set]
    by_cases hij : i = j
    · subst hij
      simp only [if_true, hi, hp0, Option.map_some]
      rw [hadv.1, hadv.2, hcs.2.1, hpi]
      by_cases hs : (cbPath d.rv i p).1.state = .recv <;> simp [hs]
    · simp only [hij, if_false]
      rw [hadv.2]
      simp [hij]
  · have hne : ((cbPath d.rv i p).2.1 != 0) = true := by simp [hrv]
    have hr : deviceCb { d with paths := d.paths.set i p } i =
        ((cbFail { d with paths := d.paths.set i p } i (cbPath d.rv i p).1 (cbPath d.rv i p).2.1).1,
         (cbPath d.rv i p).2.2 ++ (cbFail { d with paths := d.paths.set i p } i (cbPath d.rv i p).1 (cbPath d.rv i p).2.1).2) := by
      unfold deviceCb
      simp only [hget]
      rw [if_pos hne]
    have hpaths := (hf.1 hrv).1
    have hacts : sendsOf j (deviceCb { d with paths := d.paths.set i p } i).2 = [] := by
      rw [hr]; simp only [sendsOf_append, hcs.1, cbFail_sends]; rfl
    rw [hacts, hpaths, abortPaths_subm, List.getElem?_set]
    by_cases hij : i = j
    · subst hij
      simp only [if_true, hi, hp0, Option.map_some, List.append_nil]
      rw [hcs.2.1, hpi]
    · simp only [hij, if_false, List.append_nil]

theorem step_subm (d : Dev) (e : DEv) (j : Nat) :
    ((step d e).1.paths[j]?).map (·.subm) = (d.paths[j]?).map (fun q => q.subm ++ sendsOf j (step d e).2) := by
  have hnoop : (d.paths[j]?).map (·.subm) = (d.paths[j]?).map (fun q => q.subm ++ sendsOf j []) := by
    simp [sendsOf]
  cases e with
  | recvDone i r =>
    rw [step_recv_eq]
    cases hp : d.paths[i]? with
    | none => exact hnoop
    | some p =>
      simp only
      by_cases hc : (p.state == .recv && okRes r) = true
      · rw [if_pos hc]
        apply deviceCb_subm d i _ p hp _ j
        cases r <;> simp [completeRecv]
      · rw [if_neg hc]; exact hnoop
  | sendDone i rv =>
    rw [step_send_eq]
    cases hp : d.paths[i]? with
    | none => exact hnoop
    | some p =>
      simp only
      by_cases hc : (p.state == .send) = true
      · rw [if_pos hc]
        apply deviceCb_subm d i _ p hp _ j
        unfold completeSend; split <;> rfl
      · rw [if_neg hc]; exact hnoop
  | cancel rv =>
    rw [step_cancel_eq]
    by_cases h0 : (rv == 0) = true
    · rw [if_pos h0]; exact hnoop
    · rw [if_neg h0]
      unfold deviceCancel
      by_cases hu : d.user = true
      · simp only [hu, if_true]
        rw [abortPaths_subm, abortPaths_sends]
        simp
      · simp only [hu, if_false]; exact hnoop

theorem run_subm (evs : List DEv) : ∀ (d : Dev) (j : Nat),
    ((run d evs).1.paths[j]?).map (·.subm) = (d.paths[j]?).map (fun q => q.subm ++ sendsOf j (run d evs).2) := by
  induction evs with
  | nil => intro d j; simp [run, sendsOf]
  | cons e es ih =>
    intro d j
    show ((run (step d e).1 es).1.paths[j]?).map (·.subm) =
      (d.paths[j]?).map (fun q => q.subm ++ sendsOf j ((step d e).2 ++ (run (step d e).1 es).2))
    rw [ih (step d e).1 j]
    have h1 := step_subm d e j
    cases hq : (step d e).1.paths[j]? with
    | none =>
      rw [hq] at h1
      cases hd : d.paths[j]? with
      | none => rfl
      | some q => rw [hd] at h1; simp at h1
    | some q1 =>
      rw [hq] at h1
      cases hd : d.paths[j]? with
      | none => rw [hd] at h1; simp at h1
      | some q =>
        rw [hd] at h1
        simp only [Option.map_some, Option.some.injEq] at h1 ⊢
        rw [h1, sendsOf_append, List.append_assoc]

end Nng.Device
