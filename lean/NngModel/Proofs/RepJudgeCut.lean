/-
  The REP judge (`Spec/Rep.lean: repStep`) cut into named pieces, equality with the real step
  function, and the judge on single outputs (`repDone_*`, `repOut_*`).  Used by the simulation
  proof in Proofs/RepJudge.lean.
-/
import NngModel.Spec.Rep
namespace Nng.RepSpec
open Nng Nng.Proto

/-! ### the pieces of `repStep` -/

def unfresh (j : RepJ) : RepJ := { j with waiting := j.waiting.map (fun r => { r with fresh := false }) }

def isNbMode : Mode → Bool | .nb => true | _ => false
def isZeroMode : Mode → Bool | .ms 0 => true | _ => false

def repPre (j : RepJ) (ev : Ev) (outs : List Out) : RepJ × Option Nat :=
  let ok0 := outs.contains (.rv 0)
  match ev with
  | .recv c a mode =>
    let second := j.waiting.any (·.ctx == c)
    let isNb := match mode with | .nb => true | _ => false
    let isZero := match mode with | .ms 0 => true | _ => false
    ({ j with waiting := j.waiting ++ [⟨a, c, second, isNb, isZero, true⟩] }, if isNb then some a else none)
  | .send c a m mode =>
    let isNb := match mode with | .nb => true | _ => false
    let sd : PendS := ⟨a, c, curOf j c, j.sends.any (·.ctx == c), ctxIsOpen j c, m.body⟩
    let j := { j with sends := j.sends ++ [sd] }
    (setCur j c none, if isNb then some a else none)
  | .recvDone p (.ok b) =>
    if ok0 then
      if !(j.armed.contains p) then (j.fail s!"pipe {p} accepted a message with no receive armed", none)
      else
        let j := { j with armed := j.armed.filter (· != p) }
        match classify j.ttl b with
        | .ok hdr body => ({ j with held := j.held ++ [⟨p, hdr, body⟩] }, none)
        | .malformed =>
          if hasPclosed outs p then (j, none)
          else (j.fail s!"a request with fewer than 4 bytes before its terminator did not close pipe {p}", none)
        | .tooManyHops =>
          if hasPclosed outs p then (j.fail s!"a request with too many hops closed pipe {p}", none) else (j, none)
    else (j, none)
  | .recvDone p (.error _) =>
    if ok0 then ({ j with armed := j.armed.filter (· != p) }, none) else (j, none)
  | .sendDone p rv =>
    if ok0 && rv == 0 then ({ j with busy := j.busy.filter (· != p) }, none) else (j, none)
  | .setopt none "ttl-max" "int" v => if ok0 then ({ j with ttl := v.toNat }, none) else (j, none)
  | .ctxOpen c => if ok0 then (setCur { j with slots := j.slots.filter (· != c) ++ [c] } (some c) none, none) else (j, none)
  | .ctxClose c => if ok0 then (setCur { j with slots := j.slots.filter (· != c) } (some c) none, none) else (j, none)
  | .close => ({ j with closed := true }, none)
  | _ => (j, none)

def pipeStep (outs : List Out) (j : RepJ) (o : Out) : RepJ :=
  match o with
  | .pipe p => if p ≥ 0 && !(hasPclosed outs p.toNat) then { j with live := j.live ++ [p.toNat] } else j
  | _ => j

def doneStep (j : RepJ) (o : Out) : RepJ :=
  match o with | .done a rv m mb => repDone j a rv m mb | _ => j

def accChk (j : RepJ) : RepJ :=
  match j.acc.find? (fun a => j.live.contains a.pipe) with
  | some a => j.fail s!"a reply was accepted for connected pipe {a.pipe} but neither sent nor queued behind a send in flight"
  | none => { j with acc := [] }

def secondChk (j : RepJ) : RepJ :=
  if j.waiting.any (fun r => r.second && r.fresh) then j.fail "a second concurrent receive on one context was queued" else j

def isDoneOf (a : Nat) : Out → Bool | .done a' _ _ _ => a' == a | _ => false

def nbChk (nb : Option Nat) (outs : List Out) (j : RepJ) : RepJ :=
  match nb with
  | some a => if (outs.filter isDone).any (fun o => match o with | .done a' _ _ _ => a' == a | _ => false) then j
              else j.fail s!"non-blocking call {a} did not complete at once"
  | none => j

def blockedChk (outs : List Out) (j : RepJ) : RepJ :=
  if outs.any isBlocked then j.fail "a non-blocking call blocked" else j

def pollStep (j : RepJ) (o : Out) : RepJ :=
  match o with
  | .poll (some r) w =>
    let j := if r != !j.held.isEmpty then
        j.fail (if r then "receive descriptor readable but no request is waiting (a non-blocking receive returns NNG_EAGAIN)"
                else "a request is waiting but the receive descriptor is not readable") else j
    match w, sockSendVerdict j with
    | some false, some true => j.fail "a non-blocking send on the socket would succeed but the send descriptor is not readable"
    | some true, some false => j.fail "send descriptor readable but a non-blocking send on the socket returns NNG_EAGAIN"
    | _, _ => j
  | _ => j

def quietChk (j : RepJ) : RepJ :=
  if !j.closed && !j.waiting.isEmpty && !j.held.isEmpty then
    j.fail "a receiver is kept waiting although a well-formed request has arrived"
  else j

def repPost (nb : Option Nat) (outs : List Out) (j : RepJ) : RepJ :=
  quietChk (outs.foldl pollStep (blockedChk outs (nbChk nb outs (secondChk (accChk j)))))

def procOuts (outs : List Out) (j : RepJ) : RepJ :=
  (outs.filter (fun o => !isDone o)).foldl repOut ((outs.filter isDone).foldl doneStep (outs.foldl (pipeStep outs) j))

theorem repStep_eq {j : RepJ} {ev : Ev} {outs : List Out} (herr : j.err = none) (hne : notExecuted outs = false) :
    repStep j ev outs =
      repPost (repPre (unfresh j) ev outs).2 outs (procOuts outs (repPre (unfresh j) ev outs).1) := by
  unfold repStep
  rw [if_neg (by simp [herr]), if_neg (by simp [hne])]
  cases ev <;> try rfl

theorem repStep_refused {j : RepJ} {ev : Ev} {outs : List Out} (hne : notExecuted outs = true) :
    repStep j ev outs = j := by
  unfold repStep; simp [hne]

/-! ### `curOf` / `setCur` -/

theorem find_key_other (l : List (CtxKey × Cur)) {c c' : CtxKey} (h : c' ≠ c) :
    (l.filter (·.1 != c)).find? (·.1 == c') = l.find? (·.1 == c') := by
  rw [List.find?_filter]
  congr 1
  funext x
  by_cases hx : x.1 = c'
  · simp [hx, h]
  · simp [hx]

theorem find_key_self (l : List (CtxKey × Cur)) (c : CtxKey) :
    (l.filter (·.1 != c)).find? (·.1 == c) = none := by
  rw [List.find?_eq_none]; intro x hx
  have := (List.mem_filter.1 hx).2
  simpa using this

theorem curOf_setCur (j : RepJ) (c c' : CtxKey) (v : Option Cur) :
    curOf (setCur j c v) c' = if c' = c then v else curOf j c' := by
  unfold curOf setCur
  by_cases h : c' = c
  · subst h
    cases v with
    | none => simp only [find_key_self]; rfl
    | some x => simp only [List.find?_append, find_key_self]; simp
  · cases v with
    | none => simp [h, find_key_other _ h]
    | some x =>
      have : (c == c') = false := by simp; exact fun h' => h h'.symm
      simp [h, List.find?_append, find_key_other _ h, this]

@[simp] theorem setCur_err (j : RepJ) (c : CtxKey) (v : Option Cur) : (setCur j c v).err = j.err := rfl
@[simp] theorem setCur_ttl (j : RepJ) (c : CtxKey) (v : Option Cur) : (setCur j c v).ttl = j.ttl := rfl
@[simp] theorem setCur_live (j : RepJ) (c : CtxKey) (v : Option Cur) : (setCur j c v).live = j.live := rfl
@[simp] theorem setCur_busy (j : RepJ) (c : CtxKey) (v : Option Cur) : (setCur j c v).busy = j.busy := rfl
@[simp] theorem setCur_armed (j : RepJ) (c : CtxKey) (v : Option Cur) : (setCur j c v).armed = j.armed := rfl
@[simp] theorem setCur_held (j : RepJ) (c : CtxKey) (v : Option Cur) : (setCur j c v).held = j.held := rfl
@[simp] theorem setCur_waiting (j : RepJ) (c : CtxKey) (v : Option Cur) : (setCur j c v).waiting = j.waiting := rfl
@[simp] theorem setCur_sends (j : RepJ) (c : CtxKey) (v : Option Cur) : (setCur j c v).sends = j.sends := rfl
@[simp] theorem setCur_slots (j : RepJ) (c : CtxKey) (v : Option Cur) : (setCur j c v).slots = j.slots := rfl
@[simp] theorem setCur_acc (j : RepJ) (c : CtxKey) (v : Option Cur) : (setCur j c v).acc = j.acc := rfl
@[simp] theorem setCur_wired (j : RepJ) (c : CtxKey) (v : Option Cur) : (setCur j c v).wired = j.wired := rfl
@[simp] theorem setCur_closed (j : RepJ) (c : CtxKey) (v : Option Cur) : (setCur j c v).closed = j.closed := rfl

theorem fail_of_err {j : RepJ} {e : String} (msg : String) (h : j.err = some e) : j.fail msg = j := by
  unfold RepJ.fail; rw [h]

/-! ### the judge on single completions -/

theorem repDone_recv_fail {j : RepJ} {a rv : Nat} {mb : Bool} {r : PendR}
    (hf : j.waiting.find? (·.aio == a) = some r) (hs : r.second = false) (h0 : rv ≠ 0) (he : rv ≠ Err.estate) :
    repDone j a rv none mb = { j with waiting := j.waiting.filter (·.aio != a) } := by
  unfold repDone
  simp [hf, hs, h0, he]

theorem repDone_recv_second {j : RepJ} {a rv : Nat} {mb : Bool} {r : PendR}
    (hf : j.waiting.find? (·.aio == a) = some r) (hs : r.second = true) (h0 : rv ≠ 0)
    (hok : rv = Err.estate ∨ (r.nb = true ∧ rv = Err.eagain) ∨ (r.zero = true ∧ rv = Err.etimedout)) :
    repDone j a rv none mb = { j with waiting := j.waiting.filter (·.aio != a) } := by
  unfold repDone
  simp only [hf, hs]
  rcases hok with h | ⟨h1, h2⟩ | ⟨h1, h2⟩
  · subst h; simp [Err.estate]
  · subst h2; simp [h1, Err.eagain]
  · subst h2; simp [h1, Err.etimedout]

theorem repDone_recv_ok {j : RepJ} {a : Nat} {mb : Bool} {r : PendR} {h : Held} {rest : List Held}
    (hf : j.waiting.find? (·.aio == a) = some r) (hs : r.second = false) (hh : j.held = h :: rest) :
    repDone j a 0 (some ⟨[], h.body⟩) mb =
      setCur { j with waiting := j.waiting.filter (·.aio != a), held := rest,
                      deliveredBodies := j.deliveredBodies ++ [h.body] } r.ctx (some ⟨h.pipe, h.hdr, false⟩) := by
  unfold repDone
  simp [hf, hs, hh, List.find?_cons]

theorem repDone_send_ok {j : RepJ} {a : Nat} {sd : PendS} {c : Cur}
    (hw : j.waiting.find? (·.aio == a) = none) (hf : j.sends.find? (·.aio == a) = some sd)
    (ho : sd.ctxOpen = true) (hsn : sd.snap = some c) :
    repDone j a 0 none false =
      { j with sends := j.sends.filter (·.aio != a), acc := j.acc ++ [⟨c.pipe, c.hdr, sd.body⟩] } := by
  unfold repDone
  simp [hw, hf, ho, hsn]

/-- a send that fails with something else than NNG_ESTATE, the message comes back -/
theorem repDone_send_fail {j : RepJ} {a rv : Nat} {sd : PendS} {c : Cur}
    (hw : j.waiting.find? (·.aio == a) = none) (hf : j.sends.find? (·.aio == a) = some sd)
    (h0 : rv ≠ 0) (he : rv ≠ Err.estate) (hsn : sd.snap = some c) :
    repDone j a rv none true =
      if (curOf { j with sends := j.sends.filter (·.aio != a) } sd.ctx).isNone && sd.ctxOpen then
        setCur { j with sends := j.sends.filter (·.aio != a) } sd.ctx (some { c with maybe := true })
      else { j with sends := j.sends.filter (·.aio != a) } := by
  unfold repDone
  simp [hw, hf, h0, he, hsn]

theorem repDone_send_fail_none {j : RepJ} {a rv : Nat} {sd : PendS}
    (hw : j.waiting.find? (·.aio == a) = none) (hf : j.sends.find? (·.aio == a) = some sd)
    (h0 : rv ≠ 0) (he : rv ≠ Err.estate) (hsn : sd.snap = none) (hc : sd.ctxOpen = false ∨ sd.overlap = true) :
    repDone j a rv none true = { j with sends := j.sends.filter (·.aio != a) } := by
  unfold repDone
  rcases hc with hc | hc <;> simp [hw, hf, h0, he, hsn, hc]

theorem repDone_send_estate_none {j : RepJ} {a : Nat} {sd : PendS}
    (hw : j.waiting.find? (·.aio == a) = none) (hf : j.sends.find? (·.aio == a) = some sd)
    (hsn : sd.snap = none) :
    repDone j a Err.estate none true = { j with sends := j.sends.filter (·.aio != a) } := by
  unfold repDone
  simp [hw, hf, hsn, Err.estate]

theorem repDone_send_estate_overlap {j : RepJ} {a : Nat} {sd : PendS} {c : Cur}
    (hw : j.waiting.find? (·.aio == a) = none) (hf : j.sends.find? (·.aio == a) = some sd)
    (hsn : sd.snap = some c) (ho : sd.overlap = true) :
    repDone j a Err.estate none true =
      if (curOf { j with sends := j.sends.filter (·.aio != a) } sd.ctx).isNone then
        setCur { j with sends := j.sends.filter (·.aio != a) } sd.ctx (some { c with maybe := true })
      else { j with sends := j.sends.filter (·.aio != a) } := by
  unfold repDone
  simp [hw, hf, hsn, ho, Err.estate]

theorem repDone_send_estate_maybe {j : RepJ} {a : Nat} {sd : PendS} {c : Cur}
    (hw : j.waiting.find? (·.aio == a) = none) (hf : j.sends.find? (·.aio == a) = some sd)
    (hsn : sd.snap = some c) (ho : sd.overlap = false) (hm : c.maybe = true) :
    repDone j a Err.estate none true = { j with sends := j.sends.filter (·.aio != a) } := by
  unfold repDone
  simp [hw, hf, hsn, ho, hm, Err.estate]

/-! ### the judge on the other outputs -/

theorem repOut_rv (j : RepJ) (n : Int) : repOut j (.rv n) = j := rfl
theorem repOut_rv2 (j : RepJ) (n v : Int) : repOut j (.rv2 n v) = j := rfl
theorem repOut_pipe (j : RepJ) (n : Int) : repOut j (.pipe n) = j := rfl
theorem repOut_poll (j : RepJ) (r w : Option Bool) : repOut j (.poll r w) = j := rfl
theorem repOut_pclosed (j : RepJ) (p : Nat) :
    repOut j (.pclosed p) =
      { j with live := j.live.filter (· != p), busy := j.busy.filter (· != p), armed := j.armed.filter (· != p),
               held := j.held.filter (·.pipe != p) } := rfl

theorem repOut_parm {j : RepJ} {p : Nat} (h : p ∉ j.armed) :
    repOut j (.parm p) = { j with armed := j.armed ++ [p] } := by
  unfold repOut; simp [h]

theorem repOut_psend {j : RepJ} {p : Nat} {m : WMsg} (h1 : m.body ∉ j.wired) (h2 : p ∈ j.live) (h3 : p ∉ j.busy)
    (h4 : j.acc = [⟨p, m.hdr, m.body⟩]) :
    repOut j (.psend p m) = { j with acc := [], wired := j.wired ++ [m.body], busy := j.busy ++ [p] } := by
  unfold repOut; simp [h1, h2, h3, h4]

end Nng.RepSpec
