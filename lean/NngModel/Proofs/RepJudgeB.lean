/-
  Judge simulation for REP, part B: the `send` event (rep0_ctx_send).
-/
import NngModel.Proofs.RepJudgeA
namespace Nng.RepProofs
open Nng Nng.Proto Nng.Rep Nng.RepSpec

/-- two model states the relation cannot tell apart -/
structure Sim (s s' : State) : Prop where
  ttl : s'.ttl = s.ttl
  npipes : s'.npipes = s.npipes
  pipe : s'.pipe = s.pipe
  recvpipes : s'.recvpipes = s.recvpipes
  ctx : s'.ctx = s.ctx
  slot : s'.slot = s.slot
  wire : s'.wire = s.wire

theorem R0_sim {s s' : State} {j : RepJ} (h : Sim s s') (h0 : R0 s j) : R0 s' j := by
  obtain ⟨a, b, c, d, e, f, g⟩ := h0
  have hl : ∀ p, livePipe s' p = livePipe s p := by intro p; unfold livePipe; rw [h.npipes, h.pipe]
  exact ⟨a, by rw [h.ttl]; exact b, c,
    PipesRel.congr d hl (fun _ => by rw [h.pipe]) (fun _ => by rw [h.pipe]) h.recvpipes rfl rfl rfl rfl,
    OpsRel.congr e (fun _ => by rw [h.ctx]) (fun _ => by rw [h.pipe]) h.slot rfl rfl,
    CurRel.congr f (fun _ => by rw [h.ctx]) (fun _ => by rw [h.ctx]) h.slot rfl rfl,
    by rw [h.wire]; exact g⟩

theorem overlap_iff {s : State} {j : RepJ} {used : List Bytes} (h0 : R0 s j) (h5 : Inv5 s used) {c : Option Nat} {k : Nat}
    (hres : resolve s c = some k) : j.sends.any (·.ctx == c) = true ↔ (s.ctx k).saio.isSome = true := by
  constructor
  · intro h
    obtain ⟨x, hx, hc⟩ := List.any_eq_true.1 h
    have hc' : x.ctx = c := by simpa using hc
    obtain ⟨_, _, p, e, u, he, _, hr, _⟩ := h0.ops.s1 x hx
    rw [hc', hres] at hr; injection hr with hr
    rw [hr, (h5.sq p e he).2.1]; rfl
  · intro h
    cases hk : (s.ctx k).saio with
    | none => rw [hk] at h; cases h
    | some a' =>
      obtain ⟨p, _, e, he, hek, hea⟩ := h5.sa k a' hk
      obtain ⟨x, hx, hxa⟩ := h0.ops.s2 p e he
      obtain ⟨_, _, p', e', u, he', hxa', hr, _⟩ := h0.ops.s1 x hx
      have := (entry_unique h5 he he' (by rw [← hxa, hxa'])).2
      subst this
      rw [hek] at hr
      rw [List.any_eq_true]
      exact ⟨x, hx, by simpa using resolve_inj h5 hr hres⟩

theorem overlap_unresolved {s : State} {j : RepJ} (h0 : R0 s j) {c : Option Nat}
    (hres : resolve s c = none) : j.sends.any (·.ctx == c) = false := by
  rw [List.any_eq_false]
  intro x hx hc
  have hc' : x.ctx = c := by simpa using hc
  obtain ⟨_, _, p, e, u, _, _, hr, _⟩ := h0.ops.s1 x hx
  rw [hc', hres] at hr; cases hr

theorem ctxIsOpen_iff {s : State} {j : RepJ} (h0 : R0 s j) (c : Option Nat) :
    ctxIsOpen j c = (resolve s c).isSome := by
  cases c with
  | none => rfl
  | some c0 =>
    show j.slots.contains c0 = (s.slot c0).isSome
    have := h0.curs.slots c0
    cases h : (s.slot c0).isSome with
    | true => rw [h] at this; simpa using this.2 rfl
    | false =>
      rw [h] at this
      cases hc : j.slots.contains c0 with
      | false => rfl
      | true => have := this.1 (by simpa using hc); cases this

/-- the judge states agree on everything the relation reads, except `cur` -/
structure JSame (j J : RepJ) : Prop where
  err : J.err = j.err
  ttl : J.ttl = j.ttl
  closed : J.closed = j.closed
  live : J.live = j.live
  busy : J.busy = j.busy
  armed : J.armed = j.armed
  held : J.held = j.held
  waiting : J.waiting = j.waiting
  sends : J.sends = j.sends
  slots : J.slots = j.slots
  wired : J.wired = j.wired

/-- the context behind key `c` has used up its saved request (or keeps it), the judge's `cur c` becomes `V` -/
theorem R0_cur_update {s : State} {j J : RepJ} {used : List Bytes} (h0 : R0 s j) (h5 : Inv5 s used) (hJ : JSame j J)
    {c : Option Nat} {k : Nat} (hres : resolve s c = some k) (cx : Ctx) (V : Option Cur)
    (hr : cx.raio = (s.ctx k).raio) (hcur : ∀ c', curOf J c' = if c' = c then V else curOf j c')
    (hV : CurOK V cx) : R0 (setCtx s k cx) J := by
  obtain ⟨a, b, c1, d, e, f, g⟩ := h0
  have hl : ∀ p, livePipe (setCtx s k cx) p = livePipe s p := fun _ => rfl
  refine ⟨by rw [hJ.err]; exact a, by rw [hJ.ttl]; exact b, by rw [hJ.closed]; exact c1,
    PipesRel.congr d hl (fun _ => rfl) (fun _ => rfl) rfl hJ.live hJ.busy hJ.armed hJ.held,
    OpsRel.congr e ?_ (fun _ => rfl) rfl hJ.waiting hJ.sends, ⟨?_, ?_⟩, by rw [hJ.wired]; exact g⟩
  · intro k'; rw [setCtx_ctx, upd_apply]; split
    · rename_i h; subst h; exact hr
    · rfl
  · intro c' k' hk'
    have hk'' : resolve s c' = some k' := hk'
    rw [hcur, setCtx_ctx, upd_apply]
    by_cases hc : c' = c
    · subst hc
      rw [hres] at hk''; injection hk'' with hk''; subst hk''
      simp only [if_true]; exact hV
    · have hkk : k' ≠ k := by intro h; subst h; exact hc (resolve_inj h5 hk'' hres)
      rw [if_neg hc, if_neg hkk]; exact f.cur c' k' hk''
  · intro c'; rw [hJ.slots]; exact f.slots c'

theorem sim_setW (s : State) (b c : Bool) : Sim s (if c = true then setW s b else s) := by
  split <;> exact ⟨rfl, rfl, rfl, rfl, rfl, rfl, rfl⟩

/-! ### `ctxSend` cut into pieces -/

/-- the saved request is used up -/
def consume (s : State) (k : Nat) : State :=
  let s1 := setCtx s k { s.ctx k with btrace := [], pipeId := none }
  if k == 0 then setW s1 false else s1

def markBusy (s : State) (p : Nat) : State :=
  let s := setPipe s p { s.pipe p with busy := true }
  if (s.ctx 0).pipeId == some p then setW s false else s

def sendTail (c : Ctx) (s : State) (k a : Nat) (m : WMsg) (mode : Mode) : State × List Out :=
  if c.btrace.length == 0 then (s, [.done a Err.estate none true]) else
  match c.pipeId with
  | none => (s, [.done a 0 none false])
  | some p =>
    if !livePipe s p then
      ({ s with discarded := s.discarded ++ [⟨p, c.btrace, m.body, k, c.greq, s.delivered.length⟩] }, [.done a 0 none false])
    else if !(s.pipe p).busy then
      ({ markBusy s p with wire := (markBusy s p).wire ++ [⟨p, c.btrace, m.body, k, c.greq, s.delivered.length⟩] },
        [.psend p ⟨c.btrace, m.body⟩, .done a 0 none false])
    else
      match mode with
      | .nb => (s, [.done a Err.eagain none true])
      | .ms 0 => (s, [.done a Err.etimedout none true])
      | _ =>
        (setPipe (setCtx s k { s.ctx k with saio := some a, spipe := some p }) p
          { (s.pipe p) with sendq := (s.pipe p).sendq ++
              [⟨k, a, c.btrace, m.body, deadlineOf s.now mode, c.greq, s.delivered.length⟩] }, [])

theorem ctxSend_eq (s : State) (k a : Nat) (m : WMsg) (mode : Mode) :
    ctxSend s k a m mode =
      if (s.ctx k).saio.isSome then (s, [.done a Err.estate none true])
      else sendTail (s.ctx k) (consume s k) k a m mode := by
  unfold ctxSend sendTail consume markBusy
  rfl

theorem consume_sim (s : State) (k : Nat) :
    Sim (setCtx s k { s.ctx k with btrace := [], pipeId := none }) (consume s k) := by
  unfold consume; exact sim_setW _ _ _

theorem markBusy_sim (s : State) (p : Nat) :
    Sim (setPipe s p { s.pipe p with busy := true }) (markBusy s p) := by
  unfold markBusy; exact sim_setW _ _ _

theorem send_sim {s : State} {j : RepJ} {used : List Bytes} (hR : R s j) (h1 : Inv1 s) (h2 : Inv2 s) (h3 : Inv3 s)
    (h5 : Inv5 s used) (c : Option Nat) (a : Nat) (m : WMsg) (mode : Mode) (hf : AioFree s a) (hb : m.body ∉ used)
    (h3' : ∀ k, Inv3 (ctxSend s k a m mode).1) :
    match resolve s c with
    | none => R s (repStep j (.send c a m mode) [.done a Err.eclosed none true])
    | some k => R (ctxSend s k a m mode).1 (repStep j (.send c a m mode) (ctxSend s k a m mode).2) := by
  have hu := R0_unfresh hR.r0
  have hacc : (unfresh j).acc = [] := hR.acc
  have herr := hR.r0.err
  generalize hj0 : unfresh j = j0 at hu hacc
  have hwa := waiting_no_aio hu hf
  have hsa := sends_no_aio hu h5 hf
  generalize hsd : (⟨a, c, curOf j0 c, j0.sends.any (·.ctx == c), ctxIsOpen j0 c, m.body⟩ : PendS) = sd
  have hpre : ∀ outs, repPre j0 (.send c a m mode) outs =
      (setCur { j0 with sends := j0.sends ++ [sd] } c none, if isNbMode mode then some a else none) := by
    intro outs; rw [← hsd]; cases mode <;> rfl
  have hsda : sd.aio = a := by rw [← hsd]
  have hsdc : sd.ctx = c := by rw [← hsd]
  have hsdb : sd.body = m.body := by rw [← hsd]
  generalize hj1 : setCur { j0 with sends := j0.sends ++ [sd] } c none = j1 at hpre
  have hwf : j1.waiting.find? (·.aio == a) = none := by
    rw [← hj1, List.find?_eq_none]; intro r hr; simpa using hwa r hr
  have hsf : j1.sends.find? (·.aio == a) = some sd := by
    rw [← hj1]
    exact find_snoc_new _ _ _ (by intro y hy; simpa using hsa y hy) (by simp [hsda])
  have hfilt : j1.sends.filter (·.aio != a) = j0.sends := by
    rw [← hj1]
    exact filter_snoc_new _ _ _ (by intro y hy; simpa using hsa y hy) (by simp [hsda])
  have hcur1 : ∀ c', curOf j1 c' = if c' = c then none else curOf j0 c' := by
    intro c'; rw [← hj1, curOf_setCur]; rfl
  have hsame1 : JSame j0 { j1 with sends := j1.sends.filter (·.aio != a) } := by
    refine ⟨?_, ?_, ?_, ?_, ?_, ?_, ?_, ?_, hfilt, ?_, ?_⟩ <;> (rw [← hj1]; rfl)
  have hnbok : ∀ rv mb, NbOK (if isNbMode mode = true then some a else none) [.done a rv none mb] := by
    intro rv mb
    by_cases hm : isNbMode mode = true
    · right; exact ⟨a, rv, none, mb, by simp [hm], by simp⟩
    · left; simp [hm]
  -- a send that completes at once: the judge ends in `J`
  have hfin : ∀ (s' : State) (rv : Nat) (mb : Bool) (J : RepJ), Inv3 s' → repDone j1 a rv none mb = J → R0 s' J →
      (∀ x ∈ J.acc, x.pipe ∉ J.live) →
      R s' (repStep j (.send c a m mode) [.done a rv none mb]) := by
    intro s' rv mb J h3s hJ hR0 hJacc
    rw [repStep_eq herr rfl, hj0, hpre]
    have hp : procOuts [.done a rv none mb] j1 = J := by
      rw [procOuts_nopipe (by simp [isPipeOut])]
      simp only [List.filter, isDone, Bool.not_true, List.foldl_cons, List.foldl_nil, doneStep]
      exact hJ
    rw [hp]
    exact post_R hR0 h3s hJacc (hnbok _ _) rfl (by simp [isPollOut])
  have hacc1 : j1.acc = [] := by rw [← hj1]; exact hacc
  have hnoacc : ∀ (J : RepJ), J.acc = [] → ∀ x ∈ J.acc, x.pipe ∉ J.live := by
    intro J h x hx; rw [h] at hx; cases hx
  have hcurJ : ∀ V c', curOf (setCur { j1 with sends := j1.sends.filter (·.aio != a) } c V) c' =
      if c' = c then V else curOf j0 c' := by
    intro V c'; rw [curOf_setCur]
    by_cases hc : c' = c
    · rw [if_pos hc, if_pos hc]
    · rw [if_neg hc, if_neg hc]; show curOf j1 c' = _; rw [hcur1, if_neg hc]
  have hsameJ : ∀ V, JSame j0 (setCur { j1 with sends := j1.sends.filter (·.aio != a) } c V) := by
    intro V
    exact ⟨hsame1.err, hsame1.ttl, hsame1.closed, hsame1.live, hsame1.busy, hsame1.armed, hsame1.held,
      hsame1.waiting, hsame1.sends, hsame1.slots, hsame1.wired⟩
  cases hres : resolve s c with
  | none =>
    simp only
    have hop : sd.ctxOpen = false := by rw [← hsd]; simp only; rw [ctxIsOpen_iff hu, hres]; rfl
    have hJ : repDone j1 a Err.eclosed none true = { j1 with sends := j1.sends.filter (·.aio != a) } := by
      cases hsn : sd.snap with
      | none => exact repDone_send_fail_none hwf hsf (by simp [Err.eclosed]) (by simp [Err.eclosed, Err.estate]) hsn (Or.inl hop)
      | some u =>
        rw [repDone_send_fail hwf hsf (by simp [Err.eclosed]) (by simp [Err.eclosed, Err.estate]) hsn]
        simp [hop]
    refine hfin s _ _ _ h3 hJ ?_ (hnoacc _ hacc1)
    obtain ⟨a1, b, c1, d, e, f, g⟩ := hu
    refine ⟨by rw [hsame1.err]; exact a1, by rw [hsame1.ttl]; exact b, by rw [hsame1.closed]; exact c1,
      PipesRel.congr d (fun _ => rfl) (fun _ => rfl) (fun _ => rfl) rfl hsame1.live hsame1.busy hsame1.armed hsame1.held,
      OpsRel.congr e (fun _ => rfl) (fun _ => rfl) rfl hsame1.waiting hsame1.sends, ⟨?_, ?_⟩, by rw [hsame1.wired]; exact g⟩
    · intro c' k' hk'
      have hcc : c' ≠ c := by intro h; subst h; rw [hres] at hk'; cases hk'
      have : curOf { j1 with sends := j1.sends.filter (·.aio != a) } c' = curOf j0 c' := by
        show curOf j1 c' = _
        rw [hcur1, if_neg hcc]
      rw [this]; exact f.cur c' k' hk'
    · intro c'; rw [hsame1.slots]; exact f.slots c'
  | some k =>
    simp only
    have hov := overlap_iff hu h5 hres
    have hop : sd.ctxOpen = true := by rw [← hsd]; simp only; rw [ctxIsOpen_iff hu, hres]; rfl
    have hsnap : sd.snap = curOf j0 c := by rw [← hsd]
    have hcok := hu.curs.cur c k hres
    have h3k := h3' k
    rw [ctxSend_eq] at h3k ⊢
    have hupdself : Sim (setCtx s k (s.ctx k)) s := by
      refine ⟨rfl, rfl, rfl, rfl, ?_, rfl, rfl⟩
      funext x; show s.ctx x = upd s.ctx k (s.ctx k) x
      rw [upd_apply]; split
      · rename_i h; rw [h]
      · rfl
    by_cases hsaio : (s.ctx k).saio.isSome = true
    · -- the previous reply is still queued: refused, nothing changes
      rw [if_pos hsaio] at h3k ⊢
      have hovl : sd.overlap = true := by rw [← hsd]; exact hov.2 hsaio
      cases hsn : curOf j0 c with
      | none =>
        have hJ := repDone_send_estate_none hwf hsf (hsnap.trans hsn)
        refine hfin s _ _ _ h3 hJ ?_ (hnoacc _ hacc1)
        exact R0_sim hupdself (R0_cur_update hu h5 hsame1 hres (s.ctx k) none rfl (by
          intro c'; show curOf j1 c' = _; rw [hcur1]) (by rw [hsn] at hcok; exact hcok))
      | some u =>
        have hJ := repDone_send_estate_overlap hwf hsf (hsnap.trans hsn) hovl
        have hnone : (curOf { j1 with sends := j1.sends.filter (·.aio != a) } sd.ctx).isNone = true := by
          show (curOf j1 sd.ctx).isNone = true
          rw [hsdc, hcur1, if_pos rfl]; rfl
        rw [if_pos hnone, hsdc] at hJ
        refine hfin s _ _ _ h3 hJ ?_ (hnoacc _ hacc1)
        refine R0_sim hupdself (R0_cur_update hu h5 (hsameJ _) hres (s.ctx k) _ rfl (hcurJ _) ?_)
        rw [hsn] at hcok
        unfold CurOK at hcok ⊢
        rcases hcok with ⟨_, h⟩ | h
        · exact Or.inl ⟨rfl, h⟩
        · exact Or.inr h
    · rw [if_neg hsaio] at h3k ⊢
      have hovl : sd.overlap = false := by
        rw [← hsd]
        cases hh : j0.sends.any (·.ctx == c) with
        | false => rfl
        | true => exact absurd (hov.1 hh) hsaio
      have hcs := consume_sim s k
      generalize hs2 : consume s k = s2 at h3k hcs ⊢
      have hlive2 : ∀ p, livePipe s2 p = livePipe s p := by
        intro p; unfold livePipe; rw [hcs.npipes, hcs.pipe]; rfl
      -- the relation after the saved request was used up, the judge's `cur c` being `V`
      have hbase : ∀ V, CurOK V { s.ctx k with btrace := [], pipeId := none } →
          R0 s2 (setCur { j1 with sends := j1.sends.filter (·.aio != a) } c V) := by
        intro V hV
        exact R0_sim hcs (R0_cur_update hu h5 (hsameJ V) hres _ V rfl (hcurJ V) hV)
      have hbase0 : R0 s2 { j1 with sends := j1.sends.filter (·.aio != a) } := by
        exact R0_sim hcs (R0_cur_update hu h5 hsame1 hres _ none rfl (by
          intro c'; show curOf j1 c' = _; rw [hcur1]) rfl)
      unfold sendTail at h3k ⊢
      by_cases hbt : ((s.ctx k).btrace.length == 0) = true
      · -- nothing to answer
        rw [if_pos hbt] at h3k ⊢
        have hbt0 : (s.ctx k).btrace = [] := by
          have : (s.ctx k).btrace.length = 0 := by simpa using hbt
          exact List.eq_nil_of_length_eq_zero this
        have hJ : repDone j1 a Err.estate none true = { j1 with sends := j1.sends.filter (·.aio != a) } := by
          cases hsn : curOf j0 c with
          | none => exact repDone_send_estate_none hwf hsf (hsnap.trans hsn)
          | some u =>
            refine repDone_send_estate_maybe hwf hsf (hsnap.trans hsn) hovl ?_
            rw [hsn] at hcok
            rcases hcok with ⟨h, _⟩ | ⟨_, h⟩
            · exact h
            · exact absurd hbt0 (h2.B k u.pipe h).2
        exact hfin s2 _ _ _ h3k hJ hbase0 (hnoacc _ hacc1)
      · rw [if_neg hbt] at h3k ⊢
        have hbtne : (s.ctx k).btrace ≠ [] := by
          intro h; rw [h] at hbt; exact hbt rfl
        obtain ⟨rq, _, _, hpid⟩ := h1.ctxOK k hbtne
        -- the judge knows the request
        obtain ⟨u, hsn, hum, huh, hup⟩ : ∃ u, curOf j0 c = some u ∧ True ∧ (s.ctx k).btrace = u.hdr ∧
            (s.ctx k).pipeId = some u.pipe := by
          cases hsn : curOf j0 c with
          | none => rw [hsn] at hcok; exact absurd hcok hbtne
          | some u =>
            rw [hsn] at hcok
            rcases hcok with ⟨_, h⟩ | h
            · exact absurd h hbtne
            · exact ⟨u, rfl, trivial, h.1, h.2⟩
        have hpu : u.pipe = rq.pipe := by rw [hpid] at hup; injection hup with hup; exact hup.symm
        generalize rq.pipe = p at hpid hpu
        rw [hpid] at h3k ⊢
        simp only at h3k ⊢
        have hJok : repDone j1 a 0 none false =
            { j1 with sends := j1.sends.filter (·.aio != a), acc := [⟨p, (s.ctx k).btrace, m.body⟩] } := by
          rw [repDone_send_ok hwf hsf hop (hsnap.trans hsn), hacc1, hpu, ← huh, hsdb]; rfl
        have hJfail : ∀ rv, rv ≠ 0 → rv ≠ Err.estate → repDone j1 a rv none true =
            setCur { j1 with sends := j1.sends.filter (·.aio != a) } c (some { u with maybe := true }) := by
          intro rv h0 he
          rw [repDone_send_fail hwf hsf h0 he (hsnap.trans hsn)]
          have hnone : (curOf { j1 with sends := j1.sends.filter (·.aio != a) } sd.ctx).isNone = true := by
            show (curOf j1 sd.ctx).isNone = true
            rw [hsdc, hcur1, if_pos rfl]; rfl
          rw [hnone, hop, hsdc]; rfl
        by_cases hlv : (!livePipe s2 p) = true
        · -- the pipe is gone: accepted and discarded
          rw [if_pos hlv] at h3k ⊢
          refine hfin _ _ _ _ h3k hJok ?_ ?_
          · exact R0_sim (s := s2) ⟨rfl, rfl, rfl, rfl, rfl, rfl, rfl⟩ (R0_acc hbase0 _)
          · intro x hx
            simp only [List.mem_singleton] at hx; subst hx
            show p ∉ j1.live
            rw [hsame1.live, hu.pipes.live p, ← hlive2]
            simpa using hlv
        · rw [if_neg hlv] at h3k ⊢
          have hlp : livePipe s p = true := by rw [← hlive2]; simpa using hlv
          by_cases hbz : (!(s2.pipe p).busy) = true
          · -- the pipe is idle: on the wire
            rw [if_pos hbz] at h3k ⊢
            have hidle : (s2.pipe p).busy = false := by simpa using hbz
            have hmb := markBusy_sim s2 p
            generalize markBusy s2 p = s4 at h3k hmb ⊢
            rw [repStep_eq herr rfl, hj0, hpre]
            have hpnb : p ∉ j1.busy := by
              rw [hsame1.busy]; intro h
              have := ((hu.pipes.busy p).1 h).2
              rw [hcs.pipe] at hidle
              rw [show (s.pipe p).busy = false from hidle] at this; cases this
            have hfresh : m.body ∉ j1.wired := by
              rw [hsame1.wired, hu.wired]; intro h
              obtain ⟨w, hw, hwb⟩ := List.mem_map.1 h
              exact hb (hwb ▸ h5.wu w hw)
            have hp : procOuts [.psend p ⟨(s.ctx k).btrace, m.body⟩, .done a 0 none false] j1 =
                { j1 with sends := j1.sends.filter (·.aio != a), acc := [], wired := j1.wired ++ [m.body],
                          busy := j1.busy ++ [p] } := by
              rw [procOuts_nopipe (by simp [isPipeOut])]
              simp only [List.filter, isDone, Bool.not_true, Bool.not_false, List.foldl_cons, List.foldl_nil, doneStep]
              rw [hJok, repOut_psend (m := ⟨(s.ctx k).btrace, m.body⟩) (j := { j1 with sends := j1.sends.filter (·.aio != a), acc := [⟨p, (s.ctx k).btrace, m.body⟩] })
                hfresh (by show p ∈ j1.live; rw [hsame1.live]; exact (hu.pipes.live p).2 hlp) hpnb rfl]
            rw [hp]
            refine post_R ?_ h3k (hnoacc _ rfl) ?_ rfl (by simp [isPollOut])
            · obtain ⟨a1, b, c1, d, e, f, g⟩ := hbase0
              have hpipe4 : s4.pipe = upd s2.pipe p { s2.pipe p with busy := true } := hmb.pipe
              have hl4 : ∀ p', livePipe { s4 with wire := s4.wire ++ [⟨p, (s.ctx k).btrace, m.body, k, (s.ctx k).greq, s2.delivered.length⟩] } p' =
                  livePipe s2 p' := by
                intro p'; unfold livePipe
                show (decide (p' < s4.npipes) && !(s4.pipe p').closed) = _
                rw [hmb.npipes, hpipe4, upd_apply]; split
                · rename_i h; subst h; rfl
                · rfl
              refine ⟨a1, by show _ = s4.ttl; rw [hmb.ttl]; exact b, c1, ⟨?_, ?_, ?_, ?_⟩, ?_, ?_, ?_⟩
              · intro p'; rw [hl4]; exact d.live p'
              · intro p'; rw [hl4]
                show p' ∈ j1.busy ++ [p] ↔ _ ∧ (s4.pipe p').busy = true
                rw [hpipe4, upd_apply, List.mem_append, List.mem_singleton]
                by_cases hpp : p' = p
                · subst hpp; simp [hlive2, hlp]
                · simp only [hpp, or_false, if_false]; exact d.busy p'
              · intro p'; rw [hl4]
                show p' ∈ j1.armed ↔ _ ∧ (s4.pipe p').armed = true
                rw [hpipe4, upd_apply]
                by_cases hpp : p' = p
                · subst hpp; simp only [if_true]; exact d.armed p'
                · simp only [hpp, if_false]; exact d.armed p'
              · show j1.held = s4.recvpipes.map heldOf
                rw [hmb.recvpipes]; exact d.held
              · refine OpsRel.congr (s := s2) e (fun k' => by show (s4.ctx k').raio = _; rw [hmb.ctx]; rfl) ?_ hmb.slot rfl rfl
                intro p'; show (s4.pipe p').sendq = _
                rw [hpipe4, upd_apply]; split
                · rename_i h; subst h; rfl
                · rfl
              · exact CurRel.congr (s := s2) f (fun k' => by show (s4.ctx k').btrace = _; rw [hmb.ctx]; rfl)
                  (fun k' => by show (s4.ctx k').pipeId = _; rw [hmb.ctx]; rfl) hmb.slot rfl rfl
              · show j1.wired ++ [m.body] = (s4.wire ++ [(⟨p, (s.ctx k).btrace, m.body, k, (s.ctx k).greq, s2.delivered.length⟩ : WireRec)]).map (fun w => w.body)
                rw [hmb.wire, List.map_append]
                show _ = s2.wire.map (fun w => w.body) ++ [m.body]
                rw [show j1.wired = s2.wire.map (fun w => w.body) from g]
            · by_cases hm : isNbMode mode = true
              · right; exact ⟨a, 0, none, false, by simp [hm], by simp⟩
              · left; simp [hm]
          · rw [if_neg hbz] at h3k ⊢
            have hbusy : (s.pipe p).busy = true := by
              have : (s2.pipe p).busy = true := by simpa using hbz
              rw [hcs.pipe] at this; exact this
            have hres2 : resolve s2 c = some k := by rw [resolve_congr hcs.slot]; exact hres
            -- parked behind the send in flight
            have hpark : isNbMode mode = false →
                Inv3 (setPipe (setCtx s2 k { s2.ctx k with saio := some a, spipe := some p }) p
                  { (s2.pipe p) with sendq := (s2.pipe p).sendq ++
                    [⟨k, a, (s.ctx k).btrace, m.body, deadlineOf s2.now mode, (s.ctx k).greq, s2.delivered.length⟩] }) →
                R (setPipe (setCtx s2 k { s2.ctx k with saio := some a, spipe := some p }) p
                  { (s2.pipe p) with sendq := (s2.pipe p).sendq ++
                    [⟨k, a, (s.ctx k).btrace, m.body, deadlineOf s2.now mode, (s.ctx k).greq, s2.delivered.length⟩] })
                  (repStep j (.send c a m mode) []) := by
              intro hnb h3p
              rw [repStep_eq herr rfl, hj0, hpre]
              have hp : procOuts [] j1 = j1 := rfl
              rw [hp]
              refine post_R ?_ h3p (hnoacc _ hacc1) (Or.inl (by simp [hnb])) rfl (by simp)
              obtain ⟨a1, b, c1, d, e, f, g⟩ := hbase0
              have hsends : j1.sends = j0.sends ++ [sd] := by rw [← hj1]; rfl
              refine ⟨a1, b, c1, ?_, ⟨?_, ?_, ?_, ?_⟩, ?_, g⟩
              · refine PipesRel.congr (s := s2) d ?_ ?_ ?_ rfl rfl rfl rfl rfl
                · intro p'; unfold livePipe
                  show (decide (p' < s2.npipes) && !((upd s2.pipe p _) p').closed) = _
                  rw [upd_apply]; split
                  · rename_i h; subst h; rfl
                  · rfl
                · intro p'; show ((upd s2.pipe p _) p').busy = _
                  rw [upd_apply]; split
                  · rename_i h; subst h; rfl
                  · rfl
                · intro p'; show ((upd s2.pipe p _) p').armed = _
                  rw [upd_apply]; split
                  · rename_i h; subst h; rfl
                  · rfl
              · intro r hr
                obtain ⟨x, k', pk, hk', y, z⟩ := e.w1 r hr
                refine ⟨x, k', pk, ?_, y, z⟩
                show ((upd s2.ctx k _) k').raio = _
                rw [upd_apply]; split
                · rename_i h; subst h; exact hk'
                · exact hk'
              · intro k' pk hk'
                have hk'' : ((upd s2.ctx k { s2.ctx k with saio := some a, spipe := some p }) k').raio = some pk := hk'
                rw [upd_apply] at hk''
                refine e.w2 k' pk ?_
                split at hk''
                · rename_i h; subst h; exact hk''
                · exact hk''
              · intro x hx
                rw [hsends] at hx
                rcases List.mem_append.1 hx with hx | hx
                · obtain ⟨o1, o2, p', e', u', he', r1, r2, r3⟩ := e.s1 x (by show x ∈ j1.sends.filter _; rw [hfilt]; exact hx)
                  refine ⟨o1, o2, p', e', u', ?_, r1, r2, r3⟩
                  show e' ∈ ((upd s2.pipe p _) p').sendq
                  rw [upd_apply]; split
                  · rename_i h; subst h; exact List.mem_append.2 (Or.inl he')
                  · exact he'
                · simp only [List.mem_singleton] at hx; subst hx
                  refine ⟨hovl, hop, p, ⟨k, a, (s.ctx k).btrace, m.body, deadlineOf s2.now mode, (s.ctx k).greq, s2.delivered.length⟩, u, ?_, hsda, ?_, hsdb, hsnap.trans hsn, hpu, huh.symm⟩
                  · show _ ∈ ((upd s2.pipe p _) p).sendq
                    simp
                  · rw [hsdc]; exact hres2
              · intro p' e' he'
                have he'' : e' ∈ ((upd s2.pipe p { (s2.pipe p) with sendq := (s2.pipe p).sendq ++
                    [⟨k, a, (s.ctx k).btrace, m.body, deadlineOf s2.now mode, (s.ctx k).greq, s2.delivered.length⟩] }) p').sendq := he'
                rw [upd_apply] at he''
                rw [hsends]
                have hold : ∀ q, e' ∈ (s2.pipe q).sendq → ∃ x ∈ j0.sends ++ [sd], x.aio = e'.aio := by
                  intro q hq
                  obtain ⟨x, hx, hxa⟩ := e.s2 q e' hq
                  have hx' : x ∈ j1.sends.filter (·.aio != a) := hx
                  rw [hfilt] at hx'
                  exact ⟨x, List.mem_append.2 (Or.inl hx'), hxa⟩
                split at he''
                · rename_i h; subst h
                  rcases List.mem_append.1 he'' with h | h
                  · exact hold _ h
                  · simp only [List.mem_singleton] at h; subst h
                    exact ⟨sd, List.mem_append.2 (Or.inr (List.mem_singleton.2 rfl)), hsda⟩
                · exact hold _ he''
              · refine CurRel.congr (s := s2) f ?_ ?_ rfl rfl rfl
                · intro k'; show ((upd s2.ctx k _) k').btrace = _
                  rw [upd_apply]; split
                  · rename_i h; subst h; rfl
                  · rfl
                · intro k'; show ((upd s2.ctx k _) k').pipeId = _
                  rw [upd_apply]; split
                  · rename_i h; subst h; rfl
                  · rfl
            cases mode with
            | nb =>
              have hJ := hJfail Err.eagain (by simp [Err.eagain]) (by simp [Err.eagain, Err.estate])
              exact hfin s2 _ _ _ h3k hJ (hbase _ (Or.inl ⟨rfl, rfl⟩)) (hnoacc _ hacc1)
            | ms n =>
              cases n with
              | zero =>
                have hJ := hJfail Err.etimedout (by simp [Err.etimedout]) (by simp [Err.etimedout, Err.estate])
                exact hfin s2 _ _ _ h3k hJ (hbase _ (Or.inl ⟨rfl, rfl⟩)) (hnoacc _ hacc1)
              | succ n => exact hpark rfl h3k
            | inf => exact hpark rfl h3k
            | dflt => exact hpark rfl h3k

end Nng.RepProofs
