/-
  C19, buffer model: every component the in-place parser hands out was read as a C string, so it
  contains no NUL; hence what nng_url_sprintf prints for it is again a C string (needed to feed
  the printed URL back to the parser in the round-trip theorem for the buffer model).
-/
import NngModel.Proofs.UrlBufEqParse
set_option linter.unusedSimpArgs false
set_option linter.unusedVariables false
namespace Nng.UrlBufEq
open Nng Nng.Url Nng.UrlBuf Nng.UrlBufProofs Nng.UrlProofs

structure NulFree (u : Url) : Prop where
  path : (0 : UInt8) ∉ u.path
  ui : ∀ l, u.userinfo = some l → (0 : UInt8) ∉ l
  host : ∀ l, u.hostname = some l → (0 : UInt8) ∉ l
  query : ∀ l, u.query = some l → (0 : UInt8) ∉ l
  fragment : ∀ l, u.fragment = some l → (0 : UInt8) ∉ l

theorem cstr_nz : ∀ (fuel : Nat) (m : Mem) (p : Nat), (0 : UInt8) ∉ (cstr fuel m p).2 := by
  intro fuel
  induction fuel with
  | zero => intro m p; simp [cstr]
  | succ fuel ih =>
    intro m p
    unfold cstr
    split
    · simp
    · rename_i hne
      simp only [List.mem_cons, not_or]
      exact ⟨fun e => hne e.symm, ih _ _⟩

theorem optStr_nz (fuel : Nat) (m : Mem) (o : Option Nat) (l : Bytes) (h : (optStr fuel m o).2 = some l) :
    (0 : UInt8) ∉ l := by
  cases o with
  | none => simp [optStr] at h
  | some i => simp only [optStr] at h; injection h with h; subst h; exact cstr_nz _ _ _

theorem finish_nz (fuel : Nat) (scheme : Bytes) (bufsz : Nat) (m : Mem) (ui : Option Nat) (p : Nat)
    (q f : Option Nat) (hostI : Nat) (portI : Option Nat) (u : Url)
    (h : (finish fuel scheme bufsz m ui p q f hostI portI).url = some u) : u.scheme = scheme ∧ NulFree u := by
  unfold finish at h
  simp only at h
  split at h
  · cases h
  · split at h
    · cases h
    · simp only at h
      injection h with h; subst h
      exact ⟨rfl, ⟨cstr_nz _ _ _, fun l hl => optStr_nz _ _ _ l hl,
        fun l hl => by injection hl with hl; subst hl; exact cstr_nz _ _ _,
        fun l hl => optStr_nz _ _ _ l hl, fun l hl => optStr_nz _ _ _ l hl⟩⟩

theorem parseAuthorityF_nz (fuel : Nat) (scheme : Bytes) (bufsz : Nat) (m : Mem) (u : Url)
    (h : (parseAuthorityF fuel scheme bufsz m).url = some u) : u.scheme = scheme ∧ NulFree u := by
  unfold parseAuthorityF at h
  simp only at h
  split at h
  · cases h
  · unfold afterUser at h
    simp only at h
    split at h
    · cases h
    · unfold afterCanon at h
      simp only at h
      split at h
      · cases h
      · exact finish_nz _ _ _ _ _ _ _ _ _ _ u h

theorem parseMem_nz (raw : Bytes) (m : Mem) (u : Url) (h : (parseMem raw m).url = some u) :
    u.scheme ∈ schemes ∧ NulFree u := by
  unfold parseMem at h
  simp only at h
  split at h
  · cases h
  · split at h
    · cases h
    · rename_i scheme hlk
      have hmem : scheme ∈ schemes := List.mem_of_find?_eq_some hlk
      split at h
      · simp only at h
        injection h with h; subst h
        exact ⟨hmem, ⟨cstr_nz _ _ _, fun l hl => (by cases hl), fun l hl => (by cases hl),
          fun l hl => (by cases hl), fun l hl => (by cases hl)⟩⟩
      · obtain ⟨a, b⟩ := parseAuthorityF_nz _ _ _ _ u h
        exact ⟨a ▸ hmem, b⟩

theorem digit_nz : ∀ x : UInt8, isDigit x = true → x ≠ 0 := by
  apply forall_uint8; decide +kernel

theorem optPart_nz (c : UInt8) (hc : c ≠ 0) (o : Option Bytes) (h : ∀ l, o = some l → (0 : UInt8) ∉ l) :
    (0 : UInt8) ∉ optPart c o := by
  cases o with
  | none => simp [optPart]
  | some l =>
    simp only [optPart, List.mem_cons, not_or]
    exact ⟨fun e => hc e.symm, h l rfl⟩

/-- what nng_url_sprintf prints for a URL with NUL-free components is NUL-free -/
theorem sprintf_nz (u : Url) (hs : (0 : UInt8) ∉ u.scheme) (hn : NulFree u) : (0 : UInt8) ∉ sprintf u := by
  have hsep : (0 : UInt8) ∉ sep := by decide
  have hhost : (0 : UInt8) ∉ u.hostname.getD [] := by
    cases hh : u.hostname with
    | none => simp
    | some l => simpa using hn.host l hh
  have hdec : (0 : UInt8) ∉ decimal u.port := fun hm => digit_nz 0 (decimal_digits u.port 0 hm) rfl
  have hq := optPart_nz QM (by decide) u.query hn.query
  have hf := optPart_nz HASH (by decide) u.fragment hn.fragment
  unfold sprintf
  split
  · simp only [List.mem_append, not_or]
    exact ⟨⟨hs, hsep⟩, hn.path⟩
  · simp only [List.mem_append, not_or]
    refine ⟨⟨⟨⟨⟨⟨⟨⟨hs, hsep⟩, ?_⟩, hhost⟩, ?_⟩, ?_⟩, hn.path⟩, hq⟩, hf⟩
    · split
      · simp only [List.mem_singleton]; decide
      · simp
    · split
      · simp only [List.mem_singleton]; decide
      · simp
    · split
      · simp only [List.mem_cons, not_or]; exact ⟨by decide, hdec⟩
      · simp

/-- the URL the in-place parser returns prints as a C string -/
theorem parseWith_sprintf_nz (raw pad : Bytes) (u : Url) (h : (parseWith raw pad).url = some u) :
    (0 : UInt8) ∉ sprintf u := by
  obtain ⟨a, b⟩ := parseMem_nz raw _ u h
  exact sprintf_nz u (schemes_nul_free _ a) b

end Nng.UrlBufEq

namespace Nng.UrlBuf
/-- nni_url_canonify_uri run in place on `s`, stored NUL-terminated at the start of a buffer and
    followed by `pad`; then the result is read back as a C string.  `none` = NNG_EINVAL. -/
def canonifyBuf (s pad : Bytes) : Option Bytes :=
  if (canonifyAt ((s ++ 0 :: pad).toArray.size + 1) ⟨(s ++ 0 :: pad).toArray, true⟩ 0).2 then
    some (cstr ((s ++ 0 :: pad).toArray.size + 1)
      (canonifyAt ((s ++ 0 :: pad).toArray.size + 1) ⟨(s ++ 0 :: pad).toArray, true⟩ 0).1 0).2
  else none
end Nng.UrlBuf

namespace Nng.UrlBufEq
open Nng Nng.Url Nng.UrlBuf Nng.UrlBufProofs Nng.UrlProofs

/-- the in-place canonicaliser computes `canonify` -/
theorem canonifyBuf_eq (s pad : Bytes) (hz : (0 : UInt8) ∉ s) : canonifyBuf s pad = canonify s := by
  have hsz : s.length < (s ++ 0 :: pad).toArray.size + 1 := by simp; omega
  unfold canonifyBuf
  rcases canonifyAt_eq (len := s.length) ((s ++ 0 :: pad).toArray.size + 1) s _ 0 (init_inv s pad)
    (init_cstr s pad hz) hsz with ⟨e1, e2⟩ | ⟨r, e1, e2, e3, e4, _⟩
  · rw [e1, e2]; rfl
  · rw [e1, e2]
    obtain ⟨a, _, _⟩ := cstr_all r _ _ 0 e3 e4 hsz
    simp only [if_true, a]

theorem canonifyBuf_nz (s pad r : Bytes) (h : canonifyBuf s pad = some r) : (0 : UInt8) ∉ r := by
  unfold canonifyBuf at h
  split at h
  · injection h with h; subst h; exact cstr_nz _ _ _
  · cases h

end Nng.UrlBufEq
