/-
  SURVEYOR judge accepts the model, part M: one step of the live socket (all events), the phases
  (not opened / open / closed) and the induction over the event list.
-/
import NngModel.Proofs.SurvJudgeJ
import NngModel.Proofs.SurvJudgeK
import NngModel.Proofs.SurvJudgeL
namespace Nng.SurvProofs
open Nng Nng.Proto Nng.Survey Nng.SurveySpec Nng.SurvJudge

/-! ### hypotheses on event lists -/

/-- `abort aio 0`: harness-only misuse, the parked receive "succeeds" without a message -/
def badAbort : Ev → Bool
  | .abort _ rv => rv == 0
  | _ => false

/-- a response for a registered survey finds that context's receive queue full: the protocol drops it (the corrected
    judge does not count such a response, provided it knows the survey's id) -/
def overflowAt (s : State) : Ev → Bool
  | .recvDone _ (.ok b) =>
    match lookup s (beDecode (b.take 4)) with
    | some c => decide (4 ≤ b.length) && decide (c.recvQ.length ≥ c.recvCap)
    | none => false
  | _ => false

/-- does the judge know (from a wire or a delivery) the survey id an arriving response carries -/
def knowsAt (j : SurvJ) : Ev → Bool
  | .recvDone _ (.ok b) => j.knownId (b.take 4)
  | _ => true

def isClose : Ev → Bool
  | .close => true
  | _ => false

/-! ### one step of the live socket -/

theorem stepLive_sim {s : State} {j : SurvJ} (hR : R s j) (hm : MInv s) (ho : s.opened = true) (hc : s.closed = false)
    (ev : Ev) (hab : badAbort ev = false) (hjk : (keysOf j).Nodup)
    (hbl : overflowAt s ev = true → knowsAt j ev = true) (hok : StepOK s ev)
    (hbody : ∀ b, evBody ev = some b → ∀ e ∈ j.sent, e.1 ≠ b) :
    if isClose ev then Rc (survStep j ev (step s ev).2) else R (step s ev).1 (survStep j ev (step s ev).2) := by
  have hm' := step_minv ev hm hok
  generalize hst : step s ev = res at hm' ⊢
  unfold step at hst
  rw [if_neg (by simp [ho]), if_neg (by simp [hc])] at hst
  cases ev with
  | openSock _ _ => subst hst; exact refused_R hR _ _
  | pipeAdd peer =>
    simp only at hst
    split at hst
    · subst hst
      exact plain_sim hR hm' rfl rfl rfl rfl
        (by intro pp hpp m hmm
            simp only [List.mem_append, List.mem_singleton] at hpp
            rcases hpp with hpp | rfl
            · exact ⟨pp, hpp, hmm⟩
            · cases hmm)
        rfl (by simp [inertB]) (fun _ => rfl) (fun _ => pollClause_other (by intro a h; cases h) (by intro a m h; cases h)) rfl
    · subst hst
      exact plain_sim hR hm' rfl rfl rfl rfl
        (by intro pp hpp m hmm
            simp only [List.mem_append, List.mem_singleton] at hpp
            rcases hpp with hpp | rfl
            · exact ⟨pp, hpp, hmm⟩
            · cases hmm)
        rfl (by simp [inertB]) (fun _ => rfl) (fun _ => pollClause_other (by intro a h; cases h) (by intro a m h; cases h)) rfl
  | pipeDrop p =>
    simp only at hst
    split at hst
    · split at hst
      · subst hst
        exact plain_sim hR hm' rfl rfl rfl rfl (fun pp hpp m hmm => ⟨pp, hpp, hmm⟩) rfl (by simp [inertB]) (fun _ => rfl)
          (fun _ => pollClause_other (by intro a h; cases h) (by intro a m h; cases h)) rfl
      · subst hst
        exact closePipe_sim p [.rv 0] hR hm' (fun _ => rfl) (by simp [inertB]) (fun _ _ => rfl)
          (fun _ _ => pollClause_other (by intro a h; cases h) (by intro a m h; cases h)) (fun _ => rfl)
    · subst hst
      exact plain_sim hR hm' rfl rfl rfl rfl (fun pp hpp m hmm => ⟨pp, hpp, hmm⟩) rfl (by simp [inertB]) (fun _ => rfl)
        (fun _ => pollClause_other (by intro a h; cases h) (by intro a m h; cases h)) rfl
  | sendDone p rv =>
    simp only at hst
    split at hst
    · rename_i pp hpp
      split at hst
      · subst hst
        exact plain_sim hR hm' rfl rfl rfl rfl (fun pp hpp m hmm => ⟨pp, hpp, hmm⟩) rfl (by simp [inertB]) (fun _ => rfl)
          (fun _ => pollClause_other (by intro a h; cases h) (by intro a m h; cases h)) rfl
      · split at hst
        · subst hst
          exact closePipe_sim p [.rv 0] hR hm' (fun _ => rfl) (by simp [inertB]) (fun _ _ => rfl)
            (fun _ _ => pollClause_other (by intro a h; cases h) (by intro a m h; cases h)) (fun _ => rfl)
        · split at hst
          · rename_i m rest hq
            subst hst
            exact sendNext_sim hR hm p rv pp m rest hpp hq hm'
          · rename_i hq
            subst hst
            exact plain_sim hR hm' rfl rfl rfl rfl
              (setPipe_sendQ (by intro m hmm; exact ⟨pp, getPipe_mem hpp, hmm⟩))
              rfl (by simp [inertB]) (fun _ => rfl)
              (fun _ => pollClause_other (by intro a h; cases h) (by intro a m h; cases h)) rfl
    · subst hst
      exact plain_sim hR hm' rfl rfl rfl rfl (fun pp hpp m hmm => ⟨pp, hpp, hmm⟩) rfl (by simp [inertB]) (fun _ => rfl)
        (fun _ => pollClause_other (by intro a h; cases h) (by intro a m h; cases h)) rfl
  | recvDone p r =>
    simp only at hst
    split at hst
    · split at hst
      · subst hst
        exact plain_sim hR hm' rfl rfl rfl rfl (fun pp hpp m hmm => ⟨pp, hpp, hmm⟩)
          (by cases r <;> simp [survPre]) (by simp [inertB]) (fun _ => rfl)
          (fun _ => pollClause_other (by intro a h; cases h) (by intro a m h; cases h)) rfl
      · split at hst
        · subst hst
          exact closePipe_sim p [.rv 0] hR hm' (fun _ => rfl) (by simp [inertB]) (fun _ _ => rfl)
            (fun _ _ => pollClause_other (by intro a h; cases h) (by intro a m h; cases h)) (fun _ => rfl)
        · rename_i b
          subst hst
          apply pipeRecv_sim hR hm p b hjk _ hm'
          intro h4 c hl hge
          have : overflowAt s (.recvDone p (.ok b)) = true := by
            simp only [overflowAt, hl]
            simp only [Bool.and_eq_true, decide_eq_true_eq]
            exact ⟨by omega, hge⟩
          exact hbl this
    · subst hst
      exact plain_sim hR hm' rfl rfl rfl rfl (fun pp hpp m hmm => ⟨pp, hpp, hmm⟩)
        (by cases r <;> simp [survPre]) (by simp [inertB]) (fun _ => rfl)
        (fun _ => pollClause_other (by intro a h; cases h) (by intro a m h; cases h)) rfl
  | send k a m md =>
    simp only at hst
    split at hst
    · subst hst; exact refused_R hR _ _
    · rename_i hbusy
      split at hst
      · rename_i hg
        subst hst
        exact send_closed_sim hR hm ho k a m md hg
      · rename_i c hg
        subst hst
        exact ctxSend_sim hR hm ho k c a m md hg (by simpa using hbusy) hok (hbody m.body rfl) hm'
  | recv k a md =>
    simp only at hst
    split at hst
    · subst hst; exact refused_R hR _ _
    · rename_i hbusy
      split at hst
      · rename_i hg
        subst hst
        exact recv_closed_sim hR hm k a md hg (by simpa using hbusy)
      · rename_i c hg
        subst hst
        exact ctxRecv_sim hR hm k c a md hg (by simpa using hbusy) hm'
  | cancel a =>
    subst hst
    exact cancelAio_sim hR hm (.cancel a) a Err.ecanceled (Or.inl ⟨rfl, rfl⟩) (by decide) hm'
  | abort a rv =>
    subst hst
    exact cancelAio_sim hR hm (.abort a rv) a rv (Or.inr rfl) (by simpa [badAbort] using hab) hm'
  | advance ms =>
    subst hst
    exact expire_sim hR hm ms hm'
  | ctxOpen k =>
    simp only at hst
    split at hst
    · subst hst; exact refused_R hR _ _
    · split at hst
      · subst hst; exact refused_R hR _ _
      · rename_i hfree
        split at hst
        · rename_i c0 h0
          subst hst
          have hnone : getCtx s (some k) = none := by
            cases hg : getCtx s (some k) with
            | none => rfl
            | some x => rw [hg] at hfree; simp at hfree
          exact ctxOpen_sim hR k c0 h0 hnone hm'
        · subst hst; exact refused_R hR _ _
  | ctxClose k =>
    simp only at hst
    split at hst
    · subst hst
      exact plain_sim hR hm' rfl rfl rfl rfl (fun pp hpp m hmm => ⟨pp, hpp, hmm⟩) rfl (by simp [inertB])
        (fun j => by simp [survPostA])
        (fun _ => pollClause_other (by intro a h; cases h) (by intro a m h; cases h)) rfl
    · rename_i c hg
      subst hst
      exact ctxClose_sim hR hm k c hg hm'
  | setopt k name ty v =>
    simp only at hst
    split at hst
    · rename_i hcond
      have hname : name = Nng.Survey.surveyTimeOpt ∧ ty = "ms" := by simpa using hcond
      obtain ⟨rfl, rfl⟩ := hname
      split at hst
      · subst hst
        exact plain_sim hR hm' rfl rfl rfl rfl (fun pp hpp m hmm => ⟨pp, hpp, hmm⟩)
          (by simp [survPre, Err.eclosed]) (by simp [inertB]) (fun _ => rfl)
          (fun _ => pollClause_other (by intro a h; cases h) (by intro a m h; cases h)) rfl
      · rename_i c hg
        split at hst
        · subst hst
          exact plain_sim hR hm' rfl rfl rfl rfl (fun pp hpp m hmm => ⟨pp, hpp, hmm⟩)
            (by simp [survPre, Err.einval]) (by simp [inertB]) (fun _ => rfl)
            (fun _ => pollClause_other (by intro a h; cases h) (by intro a m h; cases h)) rfl
        · subst hst
          exact setopt_sim hR k c v hg hm'
    · rename_i hcond
      have hpre : ∀ outs, survPre j (.setopt k name ty v) outs = (j, none) := by
        intro outs
        have : (name == Nng.SurveySpec.surveyTimeOpt && ty == "ms") = false := by
          have e : Nng.SurveySpec.surveyTimeOpt = Nng.Survey.surveyTimeOpt := rfl
          rw [e]; simpa using hcond
        simp only [survPre, Bool.and_assoc, this, Bool.and_false, Bool.false_eq_true, if_false]
      split at hst
      · split at hst
        · subst hst
          exact plain_sim hR hm' rfl rfl rfl rfl (fun pp hpp m hmm => ⟨pp, hpp, hmm⟩) (hpre _) (by simp [inertB]) (fun _ => rfl)
            (fun _ => pollClause_other (by intro a h; cases h) (by intro a m h; cases h)) rfl
        · subst hst
          exact plain_sim hR hm' rfl rfl rfl rfl (fun pp hpp m hmm => ⟨pp, hpp, hmm⟩) (hpre _) (by simp [inertB]) (fun _ => rfl)
            (fun _ => pollClause_other (by intro a h; cases h) (by intro a m h; cases h)) rfl
      · subst hst; exact refused_R hR _ _
  | getopt k name ty =>
    simp only at hst
    split at hst
    · split at hst
      · subst hst
        exact plain_sim hR hm' rfl rfl rfl rfl (fun pp hpp m hmm => ⟨pp, hpp, hmm⟩) rfl (by simp [inertB]) (fun _ => rfl)
          (fun _ => pollClause_other (by intro a h; cases h) (by intro a m h; cases h)) rfl
      · subst hst
        exact plain_sim hR hm' rfl rfl rfl rfl (fun pp hpp m hmm => ⟨pp, hpp, hmm⟩) rfl (by simp [inertB]) (fun _ => rfl)
          (fun _ => pollClause_other (by intro a h; cases h) (by intro a m h; cases h)) rfl
    · split at hst
      · subst hst
        exact plain_sim hR hm' rfl rfl rfl rfl (fun pp hpp m hmm => ⟨pp, hpp, hmm⟩) rfl (by simp [inertB]) (fun _ => rfl)
          (fun _ => pollClause_other (by intro a h; cases h) (by intro a m h; cases h)) rfl
      · subst hst; exact refused_R hR _ _
  | poll => subst hst; exact poll_sim hR hm
  | sub _ _ => subst hst; exact refused_R hR _ _
  | unsub _ _ => subst hst; exact refused_R hR _ _
  | close => subst hst; exact close_sim hR hm

end Nng.SurvProofs
