import NngModel.Model.HttpChunk
namespace Nng.Chunk

def hexDigitVal (c : UInt8) : Option Nat :=
  if isDigit c then some (c.toNat - 48)
  else if isUpperHex c then some (c.toNat - 65 + 10)
  else if isLowerHex c then some (c.toNat - 97 + 10)
  else none

theorem ingestLen_bad (s : St) (c : UInt8) (h : hexDigitVal c = none) (h1 : c ≠ 59) (h2 : c ≠ CR) :
    ingestLen s c = (s, rvProto) := by
  unfold hexDigitVal at h
  unfold ingestLen
  by_cases a : isDigit c = true
  · simp [a] at h
  · by_cases b : isUpperHex c = true
    · simp [a, b] at h
    · by_cases d : isLowerHex c = true
      · simp [a, b, d] at h
      · simp [a, b, d, h1, h2]

theorem ingestLen_digit (s : St) (c : UInt8) (d : Nat) (h : hexDigitVal c = some d) :
    ingestLen s c = addDigit s d := by
  unfold hexDigitVal at h
  unfold ingestLen
  by_cases a : isDigit c = true
  · simp [a] at h; simp [a, h]
  · by_cases b : isUpperHex c = true
    · simp [a, b] at h; simp [a, b, h]
    · by_cases e : isLowerHex c = true
      · simp [a, b, e] at h; simp [a, b, e, h]
      · simp [a, b, e] at h

theorem addDigit_overflow (s : St) (d : Nat) (h : s.size * 16 + d > sizeMax) (hd : d < 16) :
    addDigit s d = (s, rvMsgSize) := by
  unfold addDigit
  have : s.size > (sizeMax - d) / 16 := by unfold sizeMax at *; omega
  simp [this]

theorem addDigit_ok (s : St) (d : Nat) (h : s.size * 16 + d ≤ sizeMax) (hd : d < 16) :
    addDigit s d = ({ s with size := s.size * 16 + d }, rvOk) := by
  unfold addDigit
  have : ¬ s.size > (sizeMax - d) / 16 := by unfold sizeMax at *; omega
  simp [this]

theorem ingestNewline_too_big (s : St) (hs : s.size ≠ 0) (hm : s.maxsz > 0) (h : s.total + s.size > s.maxsz) :
    ingestNewline s LF = (s, rvMsgSize) := by
  unfold ingestNewline
  have : s.size > sizeMax - 2 ∨ s.size > sizeMax - s.total ∨ (s.maxsz > 0 ∧ (s.total > s.maxsz ∨ s.size > s.maxsz - s.total)) := by
    right; right; exact ⟨hm, by omega⟩
  simp [hs, this]

theorem ingestNewline_accepts (s : St) (hs : s.size ≠ 0) (h1 : s.size + 2 ≤ sizeMax) (h2 : s.total + s.size ≤ sizeMax)
    (hm : s.maxsz = 0 ∨ s.total + s.size ≤ s.maxsz) (ha : s.size + 2 ≤ s.allocLimit) :
    (ingestNewline s LF).2 = rvOk ∧ (ingestNewline s LF).1.total = s.total + s.size ∧ (ingestNewline s LF).1.state = .data := by
  unfold ingestNewline
  have : ¬ (s.size > sizeMax - 2 ∨ s.size > sizeMax - s.total ∨ (s.maxsz > 0 ∧ (s.total > s.maxsz ∨ s.size > s.maxsz - s.total))) := by
    intro h; rcases h with h | h | h <;> omega
  have a : ¬ s.size + 2 > s.allocLimit := by omega
  simp [hs, this, a]

/-- chunk_ingest_data never stores outside the chunk buffer: the stored prefix grows by exactly the
    bytes consumed and never beyond c_alloc -/
theorem ingestData_in_bounds (s : St) (c : Chunk) (rest : List Chunk) (blk : Bytes) (hc : s.chunksR = c :: rest)
    (hinv : c.dataR.length + c.resid = c.alloc) :
    (ingestData s blk).2.1 ≤ blk.length ∧
    match (ingestData s blk).1.chunksR with
    | c' :: _ => c'.dataR.length + c'.resid = c'.alloc ∧ c'.alloc = c.alloc
    | [] => False := by
  unfold ingestData
  rw [hc]
  by_cases h : blk.length ≥ c.resid
  · simp only [h, if_true]
    by_cases k : crlfOk c ((blk.take c.resid).reverse ++ c.dataR) = true
    · simp [k, h, hc]; omega
    · simp [k, h, hc, hinv]
  · simp only [h, if_false]
    simp; omega

end Nng.Chunk
