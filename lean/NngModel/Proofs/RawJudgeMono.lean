/-
  Raw models: the ghost histories `sent` and `accepted` only grow (by at most one record per
  step), and an opened socket stays opened.
-/
import NngModel.Proofs.RawSurvStep
namespace Nng.RawSurv
open Nng Nng.Proto Nng.RawMq

/-- `s1` is a later state than `s`, nothing was sent or accepted in between -/
structure Same (s s1 : State) : Prop where
  opened : s.opened = true → s1.opened = true
  sent : s1.sent = s.sent
  accepted : s1.accepted = s.accepted

theorem Same.refl (s : State) : Same s s := ⟨id, rfl, rfl⟩

theorem Same.trans {a b c : State} (h1 : Same a b) (h2 : Same b c) : Same a c :=
  ⟨fun h => h2.opened (h1.opened h), h2.sent.trans h1.sent, h2.accepted.trans h1.accepted⟩

/-- the fields `Same` looks at are the same -/
theorem Same.of_eq {s s1 : State} (h1 : s1.opened = s.opened) (h2 : s1.sent = s.sent) (h3 : s1.accepted = s.accepted) : Same s s1 :=
  ⟨fun h => by rw [h1]; exact h, h2, h3⟩

theorem closePipe_same (s : State) (p : Nat) : Same s (closePipe s p).1 := by
  unfold closePipe
  cases getPipe s p with
  | none => exact Same.refl s
  | some pp =>
    simp only []
    split
    · exact Same.refl s
    · exact Same.of_eq rfl rfl rfl

theorem armPipe_same (s : State) (p : Nat) : Same s (armPipe s p) := by
  unfold armPipe
  cases getPipe s p with
  | none => exact Same.refl s
  | some pp => exact Same.of_eq rfl rfl rfl

theorem urqEvent_same (s : State) (e : MqEv) : Same s (urqEvent s e).1 := by
  cases e with
  | handed w g =>
    rw [urqEvent_handed]
    exact (armPipe_same s w.tag).trans (Same.of_eq rfl rfl rfl)
  | queued w => rw [urqEvent_queued]; exact armPipe_same s w.tag
  | got g m => exact Same.of_eq rfl rfl rfl

theorem applyEvents_same : ∀ (es : List MqEv) (s : State) (acc : List Out),
    Same s (es.foldl (fun (acc : State × List Out) e =>
      let (s', o) := urqEvent acc.1 e
      (s', acc.2 ++ o)) (s, acc)).1 := by
  intro es
  induction es with
  | nil => intro s acc; exact Same.refl s
  | cons e es ih =>
    intro s acc
    simp only [List.foldl_cons]
    exact (urqEvent_same s e).trans (ih _ _)

theorem failAio_same (s : State) (a rv : Nat) : Same s (failAio s a rv).1 := by
  unfold failAio
  split
  · exact Same.of_eq rfl rfl rfl
  · split
    · exact Same.of_eq rfl rfl rfl
    · exact Same.refl s

theorem expire_same (s : State) : Same s (expire s).1 := by
  unfold expire
  simp only []
  generalize (List.map (·.tag) (List.filter _ s.urq.getq) ++ List.map (·.tag) (List.filter _ s.uwq.putq)) = as
  generalize ([] : List Out) = acc
  have : ∀ (as : List Nat) (s0 : State) (acc : List Out), Same s0 (as.foldl (fun (acc : State × List Out) a =>
      let (s', o) := failAio acc.1 a Err.etimedout
      (s', acc.2 ++ o)) (s0, acc)).1 := by
    intro as
    induction as with
    | nil => intro s0 acc; exact Same.refl s0
    | cons a as ih =>
      intro s0 acc
      simp only [List.foldl_cons]
      exact (failAio_same s0 a Err.etimedout).trans (ih _ _)
  exact this as s acc

theorem closeAll_same : ∀ (n : Nat) (s : State), Same s (closeAll s n).1 := by
  intro n
  induction n with
  | zero => intro s; exact Same.refl s
  | succ n ih =>
    intro s
    simp only [closeAll]
    exact (ih s).trans (closePipe_same _ n)

theorem sockClose_same (s : State) : Same s (sockClose s).1 := by
  unfold sockClose
  simp only []
  refine Same.trans (b := { s with lost := s.lost ++ s.urq.items ++ s.urq.putq.map (·.msg), urq := RawMq.close s.urq, uwq := RawMq.close s.uwq })
    (Same.of_eq rfl rfl rfl) ?_
  exact (closeAll_same _ _).trans (Same.of_eq rfl rfl rfl)

theorem sockRecv_same (s : State) (a : Nat) (mode : Mode) : Same s (sockRecv s a mode).1 := by
  unfold sockRecv
  split
  · exact Same.refl s
  · unfold applyEvents
    exact Same.trans (b := { s with urq := (aioGet s.urq ⟨a, deadlineOf s.now mode⟩).1 }) (Same.of_eq rfl rfl rfl) (applyEvents_same _ _ _)

/-- recv_cb: opened and `sent` as before; `accepted` as before or one record longer -/
theorem pipeRecv_grow (k : Kind) (s : State) (p : Nat) (pp : Pipe) (b : Bytes) :
    (s.opened = true → (pipeRecv k s p pp b).1.opened = true) ∧ (pipeRecv k s p pp b).1.sent = s.sent ∧
    ((pipeRecv k s p pp b).1.accepted = s.accepted ∨
      ∃ hd pl, (pipeRecv k s p pp b).1.accepted = s.accepted ++ [⟨p, s.ttl, b, ⟨hd, pl⟩⟩]) := by
  unfold pipeRecv
  simp only []
  have h0 : Same s (setPipe s p { pp with armed := false }) := Same.of_eq rfl rfl rfl
  split
  · rename_i hdr body _
    unfold applyEvents
    have h1 := applyEvents_same (aioPut (setPipe s p { pp with armed := false }).urq ⟨p, ⟨hdr, body⟩, none⟩).2 { setPipe s p { pp with armed := false } with urq := (aioPut (setPipe s p { pp with armed := false }).urq ⟨p, ⟨hdr, body⟩, none⟩).1, accepted := (setPipe s p { pp with armed := false }).accepted ++ [⟨p, (setPipe s p { pp with armed := false }).ttl, b, ⟨hdr, body⟩⟩] } []
    exact ⟨h1.opened, h1.sent, Or.inr ⟨hdr, body, h1.accepted⟩⟩
  · exact ⟨id, rfl, Or.inl rfl⟩
  · exact ⟨id, rfl, Or.inl rfl⟩
  · have := h0.trans (closePipe_same (setPipe s p { pp with armed := false }) p)
    exact ⟨this.opened, this.sent, Or.inl this.accepted⟩
  · exact ⟨id, rfl, Or.inl rfl⟩

theorem pipeSent_same (s : State) (p : Nat) (pp : Pipe) : Same s (pipeSent s p pp).1 := by
  unfold pipeSent
  simp only []
  split <;> exact Same.of_eq rfl rfl rfl

/-- `s1` is a later state than `s` -/
structure Mono (s s1 : State) : Prop where
  opened : s.opened = true → s1.opened = true
  sent : s.sent <+: s1.sent
  accepted : s.accepted <+: s1.accepted

theorem Mono.refl (s : State) : Mono s s := ⟨id, List.prefix_refl _, List.prefix_refl _⟩

theorem Mono.trans {a b c : State} (h1 : Mono a b) (h2 : Mono b c) : Mono a c :=
  ⟨fun h => h2.opened (h1.opened h), h1.sent.trans h2.sent, h1.accepted.trans h2.accepted⟩

theorem Same.mono {s s1 : State} (h : Same s s1) : Mono s s1 :=
  ⟨h.opened, by rw [h.sent]; exact List.prefix_refl _, by rw [h.accepted]; exact List.prefix_refl _⟩

theorem sockSend_mono (k : Kind) (s : State) (a : Nat) (m : WMsg) (mode : Mode) : Mono s (sockSend k s a m mode).1 := by
  unfold sockSend
  split
  · exact Mono.refl s
  · simp only []
    split
    · split
      · exact ⟨id, List.prefix_append _ _, List.prefix_refl _⟩
      · exact Same.mono (Same.of_eq rfl rfl rfl)
    · exact Same.mono (Same.of_eq rfl rfl rfl)
    · exact Same.mono (Same.of_eq rfl rfl rfl)

/-- every step except a send on the socket and an arrival leaves `sent` and `accepted` as they are -/
theorem step_same (k : Kind) (s : State) (ev : Ev) (h : ∀ a m mode, ev ≠ .send none a m mode)
    (h2 : ∀ p b, ev ≠ .recvDone p (.ok b)) : Same s (step k s ev).1 := by
  unfold step
  split
  · cases ev <;> first | exact Same.refl s | exact Same.of_eq rfl rfl rfl | exact ⟨fun _ => rfl, rfl, rfl⟩
  · split
    · cases ev <;> first | exact Same.refl s | exact Same.of_eq rfl rfl rfl
    · cases ev with
      | openSock _ _ => exact Same.refl s
      | pipeAdd peer => simp only []; split <;> exact Same.of_eq rfl rfl rfl
      | pipeDrop p => simp only []; split <;> first | exact closePipe_same s p | exact Same.refl s
      | sendDone p rv =>
        simp only []
        cases getPipe s p with
        | none => exact Same.refl s
        | some pp =>
          simp only []
          split
          · exact Same.refl s
          · split
            · exact closePipe_same s p
            · exact pipeSent_same s p pp
      | recvDone p r =>
        simp only []
        cases getPipe s p with
        | none => exact Same.refl s
        | some pp =>
          simp only []
          split
          · exact Same.refl s
          · cases r with
            | error e => exact closePipe_same s p
            | ok b => exact absurd rfl (h2 p b)
      | send c a m mode =>
        simp only []
        split
        · exact Same.refl s
        · cases c with
          | some _ => exact Same.refl s
          | none => exact absurd rfl (h a m mode)
      | recv c a mode =>
        simp only []
        split
        · exact Same.refl s
        · cases c with
          | some _ => exact Same.refl s
          | none => exact sockRecv_same s a mode
      | cancel a => exact failAio_same s a _
      | abort a rv => exact failAio_same s a rv
      | advance ms => exact Same.trans (b := { s with now := s.now + ms }) (Same.of_eq rfl rfl rfl) (expire_same _)
      | ctxOpen _ => exact Same.refl s
      | ctxClose _ => exact Same.refl s
      | setopt c name ty v =>
        simp only [setOpt]
        split
        · split
          · exact Same.refl s
          · exact Same.of_eq rfl rfl rfl
        · exact Same.refl s
      | getopt c name ty =>
        simp only [getOpt]
        split <;> exact Same.refl s
      | poll => exact Same.refl s
      | sub _ _ => exact Same.refl s
      | unsub _ _ => exact Same.refl s
      | close => exact sockClose_same s

/-- an arrival: `sent` as before, `accepted` as before or one record longer -/
theorem step_recvDone (k : Kind) (s : State) (p : Nat) (b : Bytes) :
    (s.opened = true → (step k s (.recvDone p (.ok b))).1.opened = true) ∧ (step k s (.recvDone p (.ok b))).1.sent = s.sent ∧
    ((step k s (.recvDone p (.ok b))).1.accepted = s.accepted ∨
      ∃ hd pl, (step k s (.recvDone p (.ok b))).1.accepted = s.accepted ++ [⟨p, s.ttl, b, ⟨hd, pl⟩⟩]) := by
  unfold step
  split
  · exact ⟨id, rfl, Or.inl rfl⟩
  · split
    · exact ⟨id, rfl, Or.inl rfl⟩
    · simp only []
      cases getPipe s p with
      | none => exact ⟨id, rfl, Or.inl rfl⟩
      | some pp =>
        simp only []
        split
        · exact ⟨id, rfl, Or.inl rfl⟩
        · exact pipeRecv_grow k s p pp b

theorem step_mono (k : Kind) (s : State) (ev : Ev) : Mono s (step k s ev).1 := by
  by_cases h : ∃ a m mode, ev = .send none a m mode
  · obtain ⟨a, m, mode, rfl⟩ := h
    unfold step
    split
    · exact Mono.refl s
    · split
      · exact Mono.refl s
      · simp only []
        split
        · exact Mono.refl s
        · exact sockSend_mono k s a m mode
  · by_cases h2 : ∃ p b, ev = .recvDone p (.ok b)
    · obtain ⟨p, b, rfl⟩ := h2
      obtain ⟨a1, a2, a3⟩ := step_recvDone k s p b
      refine ⟨a1, by rw [a2]; exact List.prefix_refl _, ?_⟩
      rcases a3 with a3 | ⟨hd, pl, a3⟩
      · rw [a3]; exact List.prefix_refl _
      · rw [a3]; exact List.prefix_append _ _
    · exact (step_same k s ev (fun a m mode e => h ⟨a, m, mode, e⟩) (fun p b e => h2 ⟨p, b, e⟩)).mono

/-- what a step may add to `accepted`: nothing, or the record of the arrival it is -/
theorem step_accepted (k : Kind) (s : State) (ev : Ev) :
    (step k s ev).1.accepted = s.accepted ∨
      ∃ p b hd pl, ev = .recvDone p (.ok b) ∧ (step k s ev).1.accepted = s.accepted ++ [⟨p, s.ttl, b, ⟨hd, pl⟩⟩] := by
  by_cases h2 : ∃ p b, ev = .recvDone p (.ok b)
  · obtain ⟨p, b, rfl⟩ := h2
    rcases (step_recvDone k s p b).2.2 with a3 | ⟨hd, pl, a3⟩
    · exact Or.inl a3
    · exact Or.inr ⟨p, b, hd, pl, rfl, a3⟩
  · by_cases h : ∃ a m mode, ev = .send none a m mode
    · obtain ⟨a, m, mode, rfl⟩ := h
      left
      unfold step
      split
      · rfl
      · split
        · rfl
        · simp only []
          split
          · rfl
          · unfold sockSend
            split
            · rfl
            · simp only []
              split
              · split <;> rfl
              · rfl
              · rfl
    · exact Or.inl (step_same k s ev (fun a m mode e => h ⟨a, m, mode, e⟩) (fun p b e => h2 ⟨p, b, e⟩)).accepted

theorem run_cons (k : Kind) (s : State) (e : Ev) (es : List Ev) :
    run k s (e :: es) = ((run k (step k s e).1 es).1, (step k s e).2 :: (run k (step k s e).1 es).2) := rfl

theorem run_mono (k : Kind) : ∀ (evs : List Ev) (s : State), Mono s (run k s evs).1 := by
  intro evs
  induction evs with
  | nil => intro s; exact Mono.refl s
  | cons e es ih =>
    intro s
    rw [run_cons]
    exact (step_mono k s e).trans (ih _)

end Nng.RawSurv
