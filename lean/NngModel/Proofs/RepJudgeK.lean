/-
  The REP model's `closed` flag is only set by the `close` event (frame lemmas, copied from the `opened` ones of
  Proofs/RepJudgeInv.lean).
-/
import NngModel.Proofs.RepJudgeInv
namespace Nng.RepProofs
open Nng Nng.Proto Nng.Rep

theorem dropHeld_closed (s : State) (p : Nat) : (dropHeld s p).closed = s.closed := by
  unfold dropHeld
  split
  · dsimp only; split <;> rfl
  · rfl

theorem raiseIfSock_closed (s : State) (p : Nat) : (raiseIfSock s p).closed = s.closed := by
  unfold raiseIfSock; split <;> rfl

theorem closePipe_closed (s : State) (p : Nat) : (closePipe s p).1.closed = s.closed := by
  unfold closePipe
  split
  · rfl
  · dsimp only
    rw [setPipe_closed, raiseIfSock_closed]
    show (clearSaio _ _).closed = _
    rw [(clearSaio_frame _ _).closed, dropHeld_closed s p]

theorem deliver_closed (s : State) (k : Nat) (r : Req) : (deliver s k r).closed = s.closed := by
  unfold deliver recvWritable; split <;> rfl

theorem pipeRecv_closed (s : State) (p : Nat) (b : Bytes) : (pipeRecv s p b).1.closed = s.closed := by
  unfold pipeRecv
  dsimp only
  split
  · rfl
  · rw [closePipe_closed]; rfl
  · split
    · rfl
    · split
      · rfl
      · dsimp only
        rw [deliver_closed]; rfl

theorem ctxRecv_closed (s : State) (k a : Nat) (mode : Mode) : (ctxRecv s k a mode).1.closed = s.closed := by
  unfold ctxRecv
  split
  · split
    · rfl
    · rfl
    · split <;> rfl
  · dsimp only
    rw [deliver_closed]
    split <;> rfl

theorem ctxSend_closed (s : State) (k a : Nat) (m : WMsg) (mode : Mode) : (ctxSend s k a m mode).1.closed = s.closed := by
  have h2 : (if (k == 0) = true then setW (setCtx s k { s.ctx k with btrace := [], pipeId := none }) false
                  else setCtx s k { s.ctx k with btrace := [], pipeId := none }).closed = s.closed := by
    split <;> rfl
  unfold ctxSend
  dsimp only
  split
  · rfl
  · generalize (if (k == 0) = true then setW (setCtx s k { s.ctx k with btrace := [], pipeId := none }) false
                  else setCtx s k { s.ctx k with btrace := [], pipeId := none }) = s2 at h2 ⊢
    rw [← h2]
    split
    · rfl
    · split
      · rfl
      · split
        · rfl
        · split
          · dsimp only
            split <;> rfl
          · split <;> rfl

theorem pipeSent_closed (s : State) (p : Nat) : (pipeSent s p).1.closed = s.closed := by
  unfold pipeSent
  dsimp only
  split
  · dsimp only
    split <;> rfl
  · rfl

theorem failAio_closed (s : State) (a rv : Nat) : (failAio s a rv).1.closed = s.closed := by
  unfold failAio
  split
  · rfl
  · split
    · dsimp only
      rw [setCtx_closed]
      split <;> rfl
    · rfl

theorem ctxCloseParked_closed (s : State) (k : Nat) : (ctxCloseParked s k).1.closed = s.closed := by
  have h1 : (ctxCloseSend s k).1.closed = s.closed := by
    unfold ctxCloseSend
    split
    · dsimp only
      rw [setCtx_closed]
      split <;> rfl
    · rfl
  have h2 : ∀ s1 : State, (ctxCloseRecv s1 k).1.closed = s1.closed := by
    intro s1
    unfold ctxCloseRecv
    split <;> rfl
  unfold ctxCloseParked
  dsimp only
  rw [setCtx_closed, h2, h1]

def isClose : Ev → Bool | .close => true | _ => false

theorem step_closed (s : State) (ev : Ev) (ho : s.opened = true) (hc : s.closed = false) (hev : ev ≠ .close) :
    (step s ev).1.closed = false := by
  unfold step
  split
  · rename_i hno
    rw [ho] at hno; simp at hno
  · split
    · rename_i hcl
      rw [hc] at hcl; simp at hcl
    · split
      · exact hc
      · dsimp only
        split <;> exact hc
      · split
        · rw [← hc]; exact closePipe_closed s _
        · exact hc
      · split
        · exact hc
        · split
          · rw [← hc]; exact closePipe_closed s _
          · rw [← hc]; exact pipeSent_closed s _
      · split
        · exact hc
        · split
          · rw [← hc]; exact closePipe_closed s _
          · rw [← hc]; exact pipeRecv_closed s _ _
      · split
        · exact hc
        · split
          · exact hc
          · rw [← hc]; exact ctxSend_closed s _ _ _ _
      · split
        · exact hc
        · split
          · exact hc
          · rw [← hc]; exact ctxRecv_closed s _ _ _
      · rw [← hc]; exact failAio_closed s _ _
      · rw [← hc]; exact failAio_closed s _ _
      · unfold expire failAll
        exact foldl_pres' (fun s => s.closed = false) (fun s a => failAio s a Err.etimedout)
          (fun s a h => by rw [failAio_closed]; exact h) _ _ [] hc
      · split
        · exact hc
        · exact hc
      · split
        · exact hc
        · split
          · exact hc
          · show (ctxCloseParked s _).1.closed = false
            rw [ctxCloseParked_closed]; exact hc
      · split
        · exact hc
        · exact hc
      · exact hc
      · exact hc
      · exact hc
      · exact hc
      · exact hc
      · exact hc
      · exact absurd rfl hev

theorem step_closed_idle (s : State) (ev : Ev) (ho : s.opened = false) : (step s ev).1.closed = s.closed := by
  unfold step
  rw [if_pos (by simp [ho])]
  split <;> rfl

theorem step_closed_closed (s : State) (ev : Ev) (hc : s.closed = true) : (step s ev).1.closed = true := by
  unfold step
  split
  · split <;> exact hc
  · split <;> exact hc

end Nng.RepProofs
