import NngModel.Model.Ws
import NngModel.Spec.Ws
import NngModel.Proofs.WsMask
import NngModel.Proofs.BytesLemmas
namespace Nng.Ws

open Nng.Msg (length_beEncode beDecode_beEncode)

/-- the 7-bit length code and the extended length bytes -/
def lenCode (len : Nat) : Nat := if len < 126 then len else if len < 65536 then 126 else 127
def extOf (len : Nat) : Bytes := if len < 126 then [] else if len < 65536 then beEncode 2 (len % 65536) else beEncode 8 len

theorem lenBytes_eq (len : Nat) : lenBytes len = UInt8.ofNat (lenCode len) :: extOf len := by
  unfold lenBytes lenCode extOf
  by_cases h1 : len < 126
  · simp [h1, Nat.mod_eq_of_lt (show len < 128 by omega)]
  · by_cases h2 : len < 65536 <;> simp [h1, h2]

theorem lenCode_lt (len : Nat) : lenCode len < 128 := by unfold lenCode; split <;> (try split) <;> omega

theorem extOf_length (len : Nat) :
    (extOf len).length = if lenCode len = 127 then 8 else if lenCode len = 126 then 2 else 0 := by
  unfold extOf lenCode
  by_cases h1 : len < 126
  · have a : len ≠ 127 := by omega
    have b : len ≠ 126 := by omega
    simp [h1, a, b]
  · by_cases h2 : len < 65536 <;> simp [h1, h2]

/-- the value the extended length decodes to -/
theorem extOf_decode (len : Nat) (h : len < 2 ^ 64) :
    (if lenCode len = 127 then beDecode ((extOf len).take 8) else if lenCode len = 126 then beDecode ((extOf len).take 2) else lenCode len) = len := by
  unfold extOf lenCode
  by_cases h1 : len < 126
  · have a : len ≠ 127 := by omega
    have b : len ≠ 126 := by omega
    simp [h1, a, b]
  · by_cases h2 : len < 65536
    · have : List.take 2 (beEncode 2 (len % 65536)) = beEncode 2 (len % 65536) := List.take_of_length_le (by simp)
      simp only [h1, h2, if_true, if_false, this, beDecode_beEncode]
      simp; omega
    · have : List.take 8 (beEncode 8 len) = beEncode 8 len := List.take_of_length_le (by simp)
      simp only [h1, h2, if_true, if_false, this, beDecode_beEncode]
      have e : (256:Nat) ^ 8 = 2 ^ 64 := by decide
      simp; omega

def keyBytes (server : Bool) (key : Bytes) : Bytes := if server then [] else key
def wireBody (server : Bool) (key payload : Bytes) : Bytes := if server then payload else applyMask key payload
def byte1 (server : Bool) (len : Nat) : UInt8 := UInt8.ofNat (lenCode len + (if server then 0 else 128))

theorem encode_shape (server : Bool) (key : Bytes) (op : Nat) (fin : Bool) (payload : Bytes) :
    encode server key op fin payload =
      head0 op fin :: byte1 server payload.length :: (extOf payload.length ++ (keyBytes server key ++ wireBody server key payload)) := by
  have hl := lenCode_lt payload.length
  cases server
  · simp only [encode, header, lenBytes_eq, setMaskBit, keyBytes, wireBody, byte1, Bool.false_eq_true, if_false]
    simp only [List.cons_append, List.cons.injEq, true_and]
    constructor
    · congr 1
      have : (UInt8.ofNat (lenCode payload.length)).toNat = lenCode payload.length := by
        simp [UInt8.toNat_ofNat']; omega
      rw [this]; omega
    · simp
  · simp [encode, header, lenBytes_eq, keyBytes, wireBody, byte1]

theorem byte1_toNat (server : Bool) (len : Nat) :
    (byte1 server len).toNat = lenCode len + (if server then 0 else 128) := by
  have := lenCode_lt len
  unfold byte1
  cases server <;> simp [UInt8.toNat_ofNat'] <;> omega

theorem head0_toNat (op : Nat) (fin : Bool) : (head0 op fin).toNat = op % 128 + (if fin then 128 else 0) := by
  unfold head0
  cases fin <;> simp [UInt8.toNat_ofNat'] <;> omega

end Nng.Ws

namespace Nng.Ws
open Nng.WsSpec

theorem unmask_eq_maskFrom_aux (key : Bytes) (l : Bytes) (n : Nat) :
    (l.zipIdx n).map (fun (p : UInt8 × Nat) => p.1 ^^^ key.getD (p.2 % 4) 0) = maskFrom key n l := by
  induction l generalizing n with
  | nil => rfl
  | cons x xs ih => simp only [List.zipIdx_cons, List.map_cons, maskFrom, ih]

theorem unmask_eq_maskFrom (key l : Bytes) : unmask key l = maskFrom key 0 l := by
  unfold unmask; exact unmask_eq_maskFrom_aux key l 0

theorem unmask_applyMask (key payload : Bytes) (hk : key.length = 4) : unmask key (applyMask key payload) = payload := by
  rw [unmask_eq_maskFrom, applyMask_eq_bytewise key hk]; exact maskFrom_involutive ..

/-- the wire format read back: a frame laid out as b0 b1 ext key body parses to its parts -/
theorem parseFrame_shape (b0 b1 : UInt8) (ext kb body rest : Bytes)
    (hext : ext.length = if b1.toNat % 128 = 127 then 8 else if b1.toNat % 128 = 126 then 2 else 0)
    (hkb : kb.length = if b1.toNat ≥ 128 then 4 else 0)
    (hbody : body.length = if ext.length = 0 then b1.toNat % 128 else beDecode ext) :
    parseFrame (b0 :: b1 :: (ext ++ (kb ++ body)) ++ rest) =
      some ({ fin := decide (b0.toNat ≥ 128), rsv := b0.toNat / 16 % 8, opcode := b0.toNat % 16, masked := decide (b1.toNat ≥ 128),
              lenCode := b1.toNat % 128, len := body.length, key := kb,
              payload := if decide (b1.toNat ≥ 128) then unmask kb body else body }, rest) := by
  simp only [List.cons_append, parseFrame]
  rw [← hext]
  have e1 : ¬ (ext ++ (kb ++ body) ++ rest).length < ext.length := by simp
  rw [if_neg e1]
  simp only [List.append_assoc]
  rw [List.take_left' rfl, List.drop_left' rfl]
  have hk' : (if decide (b1.toNat ≥ 128) = true then 4 else 0) = kb.length := by rw [hkb]; simp
  rw [hk']
  have e2 : ¬ (kb ++ (body ++ rest)).length < kb.length := by simp
  rw [if_neg e2, List.take_left' rfl, List.drop_left' rfl, ← hbody]
  have e3 : ¬ (body ++ rest).length < body.length := by simp
  rw [if_neg e3, List.take_left' rfl, List.drop_left' rfl]

theorem parseFrame_encode (server : Bool) (key : Bytes) (op : Nat) (fin : Bool) (payload rest : Bytes)
    (hk : server = false → key.length = 4) (hlen : payload.length < 2 ^ 64) :
    parseFrame (encode server key op fin payload ++ rest) =
      some ({ fin := fin, rsv := op % 128 / 16, opcode := op % 16, masked := !server, lenCode := lenCode payload.length,
              len := payload.length, key := keyBytes server key, payload := payload }, rest) := by
  rw [encode_shape]
  have hb1 := byte1_toNat server payload.length
  have hb0 := head0_toNat op fin
  have hlc := lenCode_lt payload.length
  have hm : (byte1 server payload.length).toNat % 128 = lenCode payload.length := by rw [hb1]; cases server <;> simp <;> omega
  have hmask : decide ((byte1 server payload.length).toNat ≥ 128) = !server := by rw [hb1]; cases server <;> simp <;> omega
  have hwl : (wireBody server key payload).length = payload.length := by
    unfold wireBody; cases server
    · simp [applyMask_length key (hk rfl)]
    · simp
  have := parseFrame_shape (head0 op fin) (byte1 server payload.length) (extOf payload.length) (keyBytes server key)
    (wireBody server key payload) rest (by rw [hm]; exact extOf_length _)
    (by rw [hb1]; unfold keyBytes; cases server
        · simp [hk rfl]
        · simp; omega)
    (by rw [hwl, hm]
        have := extOf_decode payload.length hlen
        have hl := extOf_length payload.length
        by_cases c1 : lenCode payload.length = 127
        · simp only [c1, if_true] at this hl ⊢
          rw [List.take_of_length_le (by omega)] at this
          simp [hl, this]
        · by_cases c2 : lenCode payload.length = 126
          · have ne : ¬ ((126:Nat) = 127) := by decide
            simp only [c2, ne, if_true, if_false] at this hl ⊢
            rw [List.take_of_length_le (by omega)] at this
            simp [hl, this]
          · simp only [c1, c2, if_false] at this hl ⊢
            simp [hl, this])
  rw [this, hmask, hwl, hm]
  have f1 : decide ((head0 op fin).toNat ≥ 128) = fin := by rw [hb0]; cases fin <;> simp <;> omega
  have f2 : (head0 op fin).toNat / 16 % 8 = op % 128 / 16 := by rw [hb0]; cases fin <;> simp <;> omega
  have f3 : (head0 op fin).toNat % 16 = op % 16 := by rw [hb0]; cases fin <;> simp <;> omega
  rw [f1, f2, f3]
  have f4 : (if (!server) = true then unmask (keyBytes server key) (wireBody server key payload) else wireBody server key payload) = payload := by
    cases server
    · simp [keyBytes, wireBody, unmask_applyMask key payload (hk rfl)]
    · simp [wireBody]
  rw [f4]

end Nng.Ws
