import NngModel.Proofs.IdRefine
/-
  nni_id_map_fini (Model/IdHash.lean `mapFini`): the finite map is emptied, the id cursor survives.
-/
namespace Nng.IdHash
open Nng.QSpec

theorem mapFini_fields (m : IdMap) :
    (mapFini m).dynVal = m.dynVal ∧ (mapFini m).minVal = m.minVal ∧ (mapFini m).maxVal = m.maxVal ∧
    (mapFini m).random = m.random := by
  unfold mapFini; split <;> simp

theorem mapFini_empty (m : IdMap) (hlen : m.entries.length = m.cap) (hc : m.cap = 0 → m.count = 0 ∧ m.load = 0) :
    (mapFini m).entries = [] ∧ (mapFini m).cap = 0 ∧ (mapFini m).count = 0 ∧ (mapFini m).load = 0 := by
  unfold mapFini
  by_cases h : m.cap = 0
  · rw [if_pos h]
    refine ⟨?_, h, (hc h).1, (hc h).2⟩
    exact List.eq_nil_of_length_eq_zero (by rw [hlen, h])
  · rw [if_neg h]; simp

theorem not_has_nil (k v : Nat) : ¬ Has [] k v := by
  rintro ⟨t, _, hv, hv0⟩
  have : ent ([] : List Entry) t = default := ent_out (by simp)
  rw [this] at hv
  exact hv0 hv.symm

/-- fini keeps the representation: the model state after nni_id_map_fini represents the EMPTY finite map with the SAME
    cursor, bounds and flags -/
theorem mapFini_rep {m : IdMap} {s : IdSpec} (h : Rep m s) : Rep (mapFini m) s.fini := by
  obtain ⟨dist, wf⟩ := h.wf
  have hz : m.cap = 0 → m.count = 0 ∧ m.load = 0 := by
    intro h0
    have c := wf.raw.cnt
    have l := wf.raw.load
    rw [h0] at c l
    exact ⟨c, l⟩
  obtain ⟨e1, e2, e3, e4⟩ := mapFini_empty m wf.raw.len hz
  obtain ⟨f1, f2, f3, f4⟩ := mapFini_fields m
  have hml : (mapFini m).maxLoad = 0 := by
    unfold mapFini
    by_cases h0 : m.cap = 0
    · rw [if_pos h0]; exact wf.capz h0
    · rw [if_neg h0]
  refine ⟨⟨fun _ => 0, ?_, fun _ => hml, fun hp => absurd hp (by rw [e2]; omega)⟩, h.curwf.of_eq f1 f2 f3, ?_, ?_, ?_,
    by rw [f2]; exact h.lo, by rw [f3]; exact h.hi, by rw [f1]; exact h.cur, by rw [f4]; exact h.random⟩
  · rw [e1, e2, e3, e4]
    have := rawWF_fresh 0
    simpa using this
  · intro k v
    rw [e1]
    exact ⟨fun hm => by simp [IdSpec.fini] at hm, fun hh => absurd hh (not_has_nil k v)⟩
  · simp [IdSpec.fini, KeysNodup]
  · rw [e3]; simp [IdSpec.fini]

end Nng.IdHash
