/-
  Simulation, event by event (6): send (req0_ctx_send).
-/
import NngModel.Proofs.ReqJudgeEvE
namespace Nng.ReqJ
open Nng Nng.Proto Nng.Req Nng.ReqSpec

/-- the context after req0_ctx_send installed request `id` -/
def newCtx (c : Ctx) (now a : Nat) (mode : Mode) (id : Nat) : Ctx :=
  { c with requestId := id, reqMsg := some id, sendAio := some ⟨a, deadlineOf now mode⟩,
           retryAtSend := c.retry, everRetry := decide (c.retry > 0), wired := false, wireCount := 0,
           retryTime := if c.retry > 0 then now + c.retry.toNat else c.retryTime }

theorem installPrep_fields (s : State) (k id : Nat) (body : Bytes) (rp : Bool) :
    let s' := installPrep s k id body rp
    s'.ctx = s.ctx ∧ s'.msgs = upd s.msgs id { body := body, ctxRef := true } ∧
    s'.pipe = s.pipe ∧ s'.sendQueue = s.sendQueue ∧ s'.readyPipes = s.readyPipes ∧ s'.alias = s.alias ∧ s'.now = s.now ∧
    s'.nalloc = s.nalloc ∧ s'.npipes = s.npipes ∧ s'.opened = s.opened ∧ s'.gone = s.gone ∧ s'.sClosed = s.sClosed ∧
    s'.retryTick = s.retryTick ∧ s'.sockRetry = s.sockRetry ∧
    ((s'.tickAt = s.tickAt ∧ s'.tickNever = s.tickNever) ∨
      (s.retryActive = false ∧ rp = true ∧
        ((s.retryTick < 0 ∧ s'.tickAt = none ∧ s'.tickNever = true) ∨
         (0 ≤ s.retryTick ∧ s'.tickAt = some (s.now + s.retryTick.toNat) ∧ s'.tickNever = false)))) := by
  unfold installPrep
  cases rp with
  | false => simp [setMsg]
  | true =>
    cases ha : s.retryActive with
    | true => simp [setMsg, ha]
    | false =>
      unfold armTick
      by_cases ht : s.retryTick < 0
      · simp [setMsg, ha, ht]
      · simp [setMsg, ha, ht]; omega

theorem installReq_ctx (s : State) (k a : Nat) (m : WMsg) (mode : Mode) (id : Nat) :
    (installReq s k a m mode id).ctx = upd s.ctx k (newCtx (s.ctx k) s.now a mode id) := by
  unfold installReq
  have h := installPrep_fields s k id m.body (decide ((s.ctx k).retry > 0))
  simp only [setCtx, h.1, newCtx]

theorem installReq_body (s : State) (k a : Nat) (m : WMsg) (mode : Mode) (id x : Nat) :
    ((installReq s k a m mode id).msgs x).body = if x = id then m.body else (s.msgs x).body := by
  unfold installReq
  have h := installPrep_fields s k id m.body (decide ((s.ctx k).retry > 0))
  simp only [setCtx, h.2.1, upd]
  split <;> rfl

theorem installReq_same (s : State) (k a : Nat) (m : WMsg) (mode : Mode) (id : Nat) :
    let s' := installReq s k a m mode id
    s'.pipe = s.pipe ∧ s'.sendQueue = s.sendQueue ∧ s'.readyPipes = s.readyPipes ∧ s'.alias = s.alias ∧ s'.now = s.now ∧
    s'.nalloc = s.nalloc ∧ s'.npipes = s.npipes ∧ s'.opened = s.opened ∧ s'.gone = s.gone ∧ s'.sClosed = s.sClosed ∧
    s'.retryTick = s.retryTick ∧ s'.sockRetry = s.sockRetry := by
  unfold installReq
  have h := installPrep_fields s k id m.body (decide ((s.ctx k).retry > 0))
  exact ⟨h.2.2.1, h.2.2.2.1, h.2.2.2.2.1, h.2.2.2.2.2.1, h.2.2.2.2.2.2.1, h.2.2.2.2.2.2.2.1, h.2.2.2.2.2.2.2.2.1,
    h.2.2.2.2.2.2.2.2.2.1, h.2.2.2.2.2.2.2.2.2.2.1, h.2.2.2.2.2.2.2.2.2.2.2.1, h.2.2.2.2.2.2.2.2.2.2.2.2.1,
    h.2.2.2.2.2.2.2.2.2.2.2.2.2.1⟩

theorem installReq_tick (s : State) (k a : Nat) (m : WMsg) (mode : Mode) (id : Nat) :
    let s' := installReq s k a m mode id
    (s'.tickAt = s.tickAt ∧ s'.tickNever = s.tickNever) ∨
      (s.retryActive = false ∧ 0 < (s.ctx k).retry ∧
        ((s.retryTick < 0 ∧ s'.tickAt = none ∧ s'.tickNever = true) ∨
         (0 ≤ s.retryTick ∧ s'.tickAt = some (s.now + s.retryTick.toNat) ∧ s'.tickNever = false))) := by
  unfold installReq
  have h := installPrep_fields s k id m.body (decide ((s.ctx k).retry > 0))
  rcases h.2.2.2.2.2.2.2.2.2.2.2.2.2.2 with a | ⟨a, b, c⟩
  · exact Or.inl a
  · exact Or.inr ⟨a, by simpa using b, c⟩

/-- the judge's record of a request that was just submitted -/
def newRJ (body : Bytes) (a : Nat) (retry : Int) (now : Nat) : RJ :=
  { body := body, sendAio := a, deadline := if retry > 0 then some (now + retry.toNat) else none,
    everRetry := decide (retry > 0) }

/-- req0_ctx_send installs a request in a context that was wiped; the context joins the send queue -/
theorem install_R {rest : List Ev} {s s' : State} {j : J} (k a : Nat) (m : WMsg) (mode : Mode) (id : Nat)
    (hM : R rest s j)
    (hctx : s'.ctx = upd s.ctx k (newCtx (s.ctx k) s.now a mode id))
    (hbody : ∀ x, (s'.msgs x).body = if x = id then m.body else (s.msgs x).body)
    (hsame : s'.pipe = s.pipe ∧ s'.sendQueue = s.sendQueue ++ [k] ∧ s'.readyPipes = s.readyPipes ∧ s'.alias = s.alias ∧
      s'.now = s.now ∧ s'.nalloc = s.nalloc ∧ s'.npipes = s.npipes ∧ s'.opened = s.opened ∧ s'.gone = s.gone ∧
      s'.sClosed = s.sClosed ∧ s'.retryTick = s.retryTick ∧ s'.sockRetry = s.sockRetry)
    (htick : (s'.tickAt = s.tickAt ∧ s'.tickNever = s.tickNever) ∨
      (s.retryActive = false ∧ 0 < (s.ctx k).retry ∧
        ((s.retryTick < 0 ∧ s'.tickAt = none ∧ s'.tickNever = true) ∨
         (0 ≤ s.retryTick ∧ s'.tickAt = some (s.now + s.retryTick.toNat) ∧ s'.tickNever = false))))
    (hact : s.retryActive = false → ∀ x, (s.ctx x).reqMsg.isSome = true → ¬ 0 < (s.ctx x).retryAtSend)
    (hq : QuietCtx (s.ctx k)) (hrep : (s.ctx k).repMsg = none) (hcr : (s.ctx k).connReset = false)
    (hlive : (s.ctx k).live = true) (hnsq : k ∉ s.sendQueue) (hnp : ∀ q, k ∉ (s.pipe q).ctxs)
    (hpark : ∀ k' b, aioOf s k' b ≠ some a)
    (hid : ¬ LiveH s id) (hid0 : id ≠ 0) (hidle : id ≤ s.nalloc)
    (hb1 : ∀ h, LiveH s h → (s.msgs h).body ≠ m.body) (hb2 : m.body ∉ sendBodies rest) :
    R rest s' (setC { j with anySend := true } k
      { opened := (j.ctx k).opened, retry := (j.ctx k).retry, req := some (newRJ m.body a (j.ctx k).retry j.now),
        stash := none, recvWait := none, latched := false }) := by
  obtain ⟨e1, e2, e3, e4, e5, e6, e7, e8, e9, e10, e11, e12⟩ := hsame
  obtain ⟨q1, q2, q3⟩ := hq
  have hk : s'.ctx k = newCtx (s.ctx k) s.now a mode id := by rw [hctx, upd_same]
  have hc : ∀ x, x ≠ k → s'.ctx x = s.ctx x := fun x hx => by rw [hctx, upd_other _ _ _ _ hx]
  have h0 := hM.rc k (by simp)
  have hretry : (j.ctx k).retry = (s.ctx k).retry := h0.retry hlive
  have hlv : ∀ x, LiveH s' x → x = id ∨ LiveH s x := by
    intro x hx
    rcases hx with hx | ⟨k', hx⟩
    · rw [e4] at hx; exact Or.inr (Or.inl hx)
    · by_cases e : k' = k
      · subst e; rw [hk] at hx; simp only [newCtx, Option.some.injEq] at hx; exact Or.inl hx.symm
      · rw [hc _ e] at hx; exact Or.inr (Or.inr ⟨k', hx⟩)
  have hbo : ∀ x, LiveH s x → (s'.msgs x).body = (s.msgs x).body := by
    intro x hx
    rw [hbody, if_neg]
    intro e; subst e; exact hid hx
  have hbid : (s'.msgs id).body = m.body := by rw [hbody, if_pos rfl]
  have ha : ∀ x b a', aioOf s' x b = some a' → aioOf s x b = some a' ∨ (x = k ∧ b = true ∧ a' = a) := by
    intro x b a' h
    unfold aioOf at h ⊢
    by_cases e : x = k
    · subst e; rw [hk] at h
      cases b with
      | false => left; exact h
      | true => right; simp [newCtx] at h; exact ⟨rfl, rfl, h.symm⟩
    · rw [hc _ e] at h; left; exact h
  have hmi : MI rest s' := by
    constructor
    · intro x hx
      by_cases e : x = k
      · subst e; rw [hk]; exact hM.mi.biglive x hx
      · rw [hc _ e]; exact hM.mi.biglive x hx
    · intro x hx
      by_cases e : x = k
      · subst e; rw [hk] at hx
        have : (s.ctx x).live = false := hx
        rw [hlive] at this; cases this
      · rw [hc _ e] at hx ⊢; exact hM.mi.dead x hx
    · intro k1 b1 k2 b2 a' h1 h2
      rcases ha _ _ _ h1 with g1 | ⟨g1, g2, g3⟩
      · rcases ha _ _ _ h2 with f1 | ⟨f1, f2, f3⟩
        · exact hM.mi.park k1 b1 k2 b2 a' g1 f1
        · rw [f3] at g1; exact absurd g1 (hpark _ _)
      · rcases ha _ _ _ h2 with f1 | ⟨f1, f2, f3⟩
        · rw [g3] at f1; exact absurd f1 (hpark _ _)
        · exact ⟨by rw [g1, f1], by rw [g2, f2]⟩
    · intro x hx
      by_cases e : x = k
      · subst e; rw [hk] at hx
        have : (s.ctx x).connReset = true := hx
        rw [hcr] at this; cases this
      · rw [hc _ e] at hx ⊢; exact hM.mi.creset x hx
    · intro x hx
      by_cases e : x = k
      · subst e; rw [hk] at hx
        have : (s.ctx x).repMsg.isSome = true := hx
        rw [hrep] at this; cases this
      · rw [hc _ e] at hx ⊢; exact hM.mi.rep x hx
    · intro x q hx
      rw [e1] at hx
      by_cases e : x = k
      · subst e; exact absurd hx (hnp q)
      · rw [hc _ e]; exact hM.mi.onp x q hx
    · intro x h hr hw
      by_cases e : x = k
      · subst e; rw [hk] at hw; cases hw
      · rw [hc _ e] at hr hw ⊢; rw [e4]; exact hM.mi.wir x h hr hw
    · intro x h hr hw
      by_cases e : x = k
      · subst e; rw [hk]; rw [e2]; exact ⟨rfl, by simp, rfl⟩
      · rw [hc _ e] at hr hw ⊢
        obtain ⟨a1, a2, a3⟩ := hM.mi.unw x h hr hw
        exact ⟨a1, by rw [e2]; exact List.mem_append_left _ a2, a3⟩
    · intro x hs
      by_cases e : x = k
      · subst e; rw [hk]; exact ⟨rfl, rfl⟩
      · rw [hc _ e] at hs ⊢; exact hM.mi.sa x hs
    · intro x hs
      by_cases e : x = k
      · subst e; rw [hk]; rfl
      · rw [hc _ e] at hs ⊢; exact hM.mi.rid x hs
    · rw [e4]; exact hM.mi.al_nodup
    · rw [e4, e6]; exact hM.mi.al_le
    · intro h hl
      rcases hlv h hl with rfl | hl
      · rw [hbid]; exact hb2
      · rw [hbo h hl]; exact hM.mi.fresh h hl
    · intro h1 h2 l1 l2 e
      rcases hlv h1 l1 with rfl | l1
      · rcases hlv h2 l2 with rfl | l2
        · rfl
        · rw [hbid, hbo h2 l2] at e; exact absurd e.symm (hb1 h2 l2)
      · rcases hlv h2 l2 with rfl | l2
        · rw [hbid, hbo h1 l1] at e; exact absurd e (hb1 h1 l1)
        · rw [hbo h1 l1, hbo h2 l2] at e; exact hM.mi.inj h1 h2 l1 l2 e
    · rw [e6]; exact hM.mi.bound
    · rw [e8]; exact hM.mi.open_
    · rw [e9]; exact hM.mi.notgone
    · rw [e10]; exact hM.mi.notclosed
  have hg : G s' (setC { j with anySend := true } k
      { opened := (j.ctx k).opened, retry := (j.ctx k).retry, req := some (newRJ m.body a (j.ctx k).retry j.now),
        stash := none, recvWait := none, latched := false }) := by
    constructor
    · show j.now = s'.now; rw [e5]; exact hM.g.now
    · intro p; show p ∈ j.idle ↔ _; rw [e3]; exact hM.g.idle p
    · intro p; show p ∈ j.busy ↔ _; rw [e1, e7]; exact hM.g.busy p
    · show j.sockRetry = _; rw [e12]; exact hM.g.sock
    · exact hM.g.closed
    · intro idb b
      show (idb, b) ∈ j.seen ↔ _
      rw [hM.g.seen idb b, e4]
      constructor
      · rintro ⟨n, x, a1, a2, a3⟩
        exact ⟨n, x, a1, a2, by rw [hbo x (Or.inl (List.mem_of_getElem? a1))]; exact a3⟩
      · rintro ⟨n, x, a1, a2, a3⟩
        exact ⟨n, x, a1, a2, by rw [hbo x (Or.inl (List.mem_of_getElem? a1))] at a3; exact a3⟩
    · show j.tick = _; rw [e11]; exact hM.g.tick
    · intro hs T hT
      show T ≤ s'.now + j.tick.toNat
      rw [e5]
      rcases htick with ⟨t1, _⟩ | ⟨_, _, ⟨_, t2, _⟩ | ⟨_, t2, _⟩⟩
      · rw [t1] at hT; exact hM.g.tkle hs T hT
      · rw [t2] at hT; cases hT
      · rw [t2] at hT; simp only [Option.some.injEq] at hT
        rw [← hT, hM.g.tick]; exact Nat.le_refl _
    · intro hs ht
      rcases htick with ⟨_, t1⟩ | ⟨_, _, ⟨t0, _, _⟩ | ⟨_, _, t2⟩⟩
      · rw [t1]; exact hM.g.tknv hs ht
      · have : (0 : Int) < s.retryTick := by rw [← hM.g.tick]; exact ht
        omega
      · exact t2
    · intro hn; cases hn
    · intro hn; cases hn
  refine ⟨hmi, hg, fun x _ => ?_, fun x hx => by cases hx⟩
  by_cases e : x = k
  · subst e
    rw [setC_ctx_same]
    constructor
    · rw [hk]; exact h0.opened
    · rw [hk]; exact h0.retry
    · rw [hk]; show none = Option.map _ (s.ctx x).recvAio; rw [q2]; rfl
    · rw [hk]; show none = (s.ctx x).repMsg; rw [hrep]
    · rw [hk]; show false = (s.ctx x).connReset; rw [hcr]
    · rw [hk]; intro a; cases a
    · rw [hk]; intro a
      have : (s.ctx x).repMsg.isSome = true := a
      rw [hrep] at this; cases this
    · rw [hk]
      intro h hh
      have hh' : id = h := by simpa [newCtx] using hh
      subst hh'
      refine ⟨_, rfl, ?_⟩
      constructor
      · rfl
      · rw [hbid]; rfl
      · rw [hk]; rfl
      · intro _; rw [hk]; exact ⟨_, rfl⟩
      · rw [hk]; intro a; cases a
      · rw [hk]; intro a; cases a
      · rw [hk]; rfl
      · rw [hk]; show decide ((j.ctx x).retry > 0) = decide ((s.ctx x).retry > 0); rw [hretry]
      · rw [hk]
        intro d hd
        simp only [newRJ, hretry] at hd
        simp only [newCtx]
        split at hd
        · rename_i hp
          simp only [Option.some.injEq] at hd
          rw [if_pos hp, ← hd, hM.g.now]
        · cases hd
      · intro _; rw [hk]; rfl
      · intro a; cases a
      · rw [hk]; intro _ a; cases a
      · rw [hk]; intro _ _ a; cases a
  · rw [setC_ctx_other _ _ _ _ e]
    refine RCx.frame (s := s) (j := j) (hc x e) (fun h hm => hbo h (Or.inr ⟨x, hm⟩)) (fun h n _ hi => by rw [e4]; exact hi)
      (by rw [e7]; exact Nat.le_refl _) (fun q => by rw [e1]) (fun q _ hcl => by rw [e1]; exact hcl)
      (by rw [e2, List.mem_append]; simp [e]) (by rw [e5]; exact Nat.le_refl _) ?_ rfl rfl (hM.rc x (by simp))
    rcases htick with ⟨t1, _⟩ | ⟨t0, _, _⟩
    · exact Or.inl t1
    · right
      intro hm hras hpos
      exact hact t0 x hm (by rw [hras]; exact hpos)

/-- `Inv2` just before req0_ctx_send runs the send queue -/
theorem inv2_ctxSend_mid {s : State} (k a : Nat) (m : WMsg) (mode : Mode) (h : Inv2 none none s) (ho : s.opened = true) :
    let r := finiChain s k Err.ecanceled
    let s1 : State := { r.1 with nalloc := r.1.nalloc + 1 }
    Inv2 none none { installReq s1 k a m mode (r.1.nalloc + 1) with
      sendQueue := (installReq s1 k a m mode (r.1.nalloc + 1)).sendQueue ++ [k] } := by
  obtain ⟨h1, q1, c1, o1, n1, _, _⟩ := inv2_finiChain k Err.ecanceled h
  generalize finiChain s k Err.ecanceled = r at h1 q1 c1 o1 n1 ⊢
  have h2 : Inv2 none none { r.1 with nalloc := r.1.nalloc + 1 } := invV_bump h1
  have e := view_install { r.1 with nalloc := r.1.nalloc + 1 } k a m mode
  have pt := installPrep_timer { r.1 with nalloc := r.1.nalloc + 1 } k (r.1.nalloc + 1) m.body
    (decide ((r.1.ctx k).retry > 0)) (h2.weaken k)
  dsimp only
  unfold Inv2
  refine Eq.mpr (congrArg (InvV none none) e) ?_
  refine invV_install k _ _ _ _ _ _ (h2.weaken k) (by rw [← o1] at ho; exact ho) c1 q1 (Nat.succ_ne_zero _) ⟨?_, ?_, ?_⟩ ?_ pt.2
  · intro k' hh hr; have := (h1.req_id k' hh hr).2.2; exact Nat.lt_succ_of_le this
  · intro p hh hb; have := h1.busy_le p hh hb; exact Nat.lt_succ_of_le this
  · intro z hz; have := (h1.wire_body z hz).1; exact Nat.lt_succ_of_le this
  · intro hx
    apply pt.1
    rcases hx with hx | hx
    · exact Or.inl hx
    · exact Or.inr (decide_eq_true hx)

theorem anySend_R {rest : List Ev} {s : State} {j : J} (hM : R rest s j) : R rest s { j with anySend := true } := by
  refine ⟨hM.mi, ⟨hM.g.now, hM.g.idle, hM.g.busy, hM.g.sock, hM.g.closed, hM.g.seen, hM.g.tick, hM.g.tkle, hM.g.tknv,
    (fun h => by cases h), (fun h => by cases h)⟩, fun k hk => ?_, fun k hk => by cases hk⟩
  exact RCx.frame (s := s) (j := j) rfl (fun _ _ => rfl) (fun _ _ _ hi => hi) (Nat.le_refl _) (fun _ => Iff.rfl) (fun _ _ hc => hc)
    Iff.rfl (Nat.le_refl _) (Or.inl rfl) rfl rfl (hM.rc k hk)

theorem sendBodies_cons_send (c : Option Nat) (a : Nat) (m : WMsg) (mode : Mode) (rest : List Ev) :
    sendBodies (.send c a m mode :: rest) = m.body :: sendBodies rest := rfl

/-- a request id is allocated (nni_id_alloc) for a `send` -/
theorem bump_R {rest : List Ev} {s : State} {j : J} (c : Option Nat) (a : Nat) (m : WMsg) (mode : Mode)
    (hM : R (.send c a m mode :: rest) s j) : R rest { s with nalloc := s.nalloc + 1 } j := by
  have hm := hM.mi
  refine ⟨⟨hm.biglive, hm.dead, hm.park, hm.creset, hm.rep, hm.onp, hm.wir, hm.unw, hm.sa, hm.rid, hm.al_nodup, ?_, ?_, hm.inj, ?_,
    hm.open_, hm.notgone, hm.notclosed⟩, ⟨hM.g.now, hM.g.idle, hM.g.busy, hM.g.sock, hM.g.closed, hM.g.seen, hM.g.tick, hM.g.tkle,
    hM.g.tknv, hM.g.nosend, hM.g.stab⟩, fun k hk => ?_, fun k hk => by cases hk⟩
  · intro h hh
    have := hm.al_le h hh
    exact ⟨this.1, Nat.le_succ_of_le this.2⟩
  · intro h hl hb
    exact hm.fresh h hl (by rw [sendBodies_cons_send]; exact List.mem_cons_of_mem _ hb)
  · have := hm.bound
    rw [sendBodies_cons_send, List.length_cons] at this
    show s.nalloc + 1 + _ ≤ _
    omega
  · exact RCx.frame (s := s) (j := j) rfl (fun _ _ => rfl) (fun _ _ _ hi => hi) (Nat.le_refl _) (fun _ => Iff.rfl) (fun _ _ hc => hc)
      Iff.rfl (Nat.le_refl _) (Or.inl rfl) rfl rfl (hM.rc k hk)

theorem evSend_eq (j1 : J) (c : Option Nat) (a : Nat) (m : WMsg) (outs : List Out)
    (hrw : (j1.ctx (ReqSpec.keyOf c)).recvWait = none) :
    evSend j1 c a m outs = (setC { j1 with anySend := true } (ReqSpec.keyOf c)
      { opened := (j1.ctx (ReqSpec.keyOf c)).opened, retry := (j1.ctx (ReqSpec.keyOf c)).retry,
        req := some (newRJ m.body a (j1.ctx (ReqSpec.keyOf c)).retry j1.now),
        stash := none, recvWait := none, latched := false }, []) := by
  unfold evSend
  simp only [hrw]
  rfl

theorem setC_anySend_setC (j : J) (k : Nat) (c c' : CJ) :
    setC { setC j k c with anySend := true } k c' = setC { j with anySend := true } k c' := by
  simp only [setC]; congr; funext x; split <;> rfl

/-- a send on a context that is not open fails with NNG_ECLOSED -/
theorem sim_send_dead {rest : List Ev} {s : State} {j : J} (c : Option Nat) (a : Nat) (m : WMsg) (mode : Mode)
    (hM : R (.send c a m mode :: rest) s j) (hD : Dr s) (hl : (s.ctx (Req.keyOf c)).live = false) :
    Sim rest s j (ReqSpec.step j (.send c a m mode) [.done a Err.eclosed none true]) (.send c a m mode) := by
  have hM' := hM.weaken
  have h0 := hM'.rc (Req.keyOf c) (by simp)
  obtain ⟨d1, d2, d3, d4, d5⟩ := hM'.mi.dead _ hl
  have hsd : ∀ x, x ∈ [Out.done a Err.eclosed none true] → isSd x = true := by
    intro x hx; simp at hx; subst hx; simp [isSd, Err.eclosed, Err.econnreset]
  have hA : phA (some a) [Out.done a Err.eclosed none true] j = j := by simp [phA]
  have hrw : (j.ctx (ReqSpec.keyOf c)).recvWait = none := by rw [keyOf_eq, h0.rw, d2]; rfl
  have hreq : (j.ctx (Req.keyOf c)).req = none := h0.none d3 d4
  have hst : (j.ctx (Req.keyOf c)).stash = none := by rw [h0.stash, d4]
  have hla : (j.ctx (Req.keyOf c)).latched = false := by rw [h0.latched, d5]
  have hrw' : (j.ctx (Req.keyOf c)).recvWait = none := by rw [h0.rw, d2]; rfl
  rw [step_send hsd j c a m mode hM.g.closed (by rw [hA, evSend_eq j c a m _ hrw]; exact hM.g.closed), hA,
    evSend_eq j c a m _ hrw]
  have e2 : phDone (.send c a m mode) (some a) [] [Out.done a Err.eclosed none true]
      (psF [Out.done a Err.eclosed none true] (setC { j with anySend := true } (ReqSpec.keyOf c)
        { opened := (j.ctx (ReqSpec.keyOf c)).opened, retry := (j.ctx (ReqSpec.keyOf c)).retry,
          req := some (newRJ m.body a (j.ctx (ReqSpec.keyOf c)).retry j.now),
          stash := none, recvWait := none, latched := false })) = { j with anySend := true } := by
    have h7 : (some a == some a && (7 : Nat) != 0) = true := by simp
    simp only [psF, phDone, List.foldl_cons, List.foldl_nil, Err.eclosed, h7, if_true, keyOf_eq, setC_ctx_same, setC_setC]
    have hself : setC { j with anySend := true } (Req.keyOf c) (j.ctx (Req.keyOf c)) = { j with anySend := true } :=
      setC_self { j with anySend := true } _
    rw [← hself]
    congr 1
    cases hcj : j.ctx (Req.keyOf c) with
    | mk o r rq st rw la =>
      rw [hcj] at hreq hst hla hrw'
      simp only at hreq hst hla hrw'
      subst hreq; subst hst; subst hla; subst hrw'
      rfl
  rw [e2, quiescent_R (anySend_R hM') hD]
  exact ⟨anySend_R hM', rfl, fun _ => rfl⟩

end Nng.ReqJ
