/- helper lemmas about byte-buffer reads and writes (core Lean only) -/
import NngModel.Model.Msg
namespace Nng.Msg
open Nng

theorem readAt_getElem? (b : Bytes) (o n i : Nat) :
    (readAt b o n)[i]? = if i < n then b[o + i]? else none := by
  unfold readAt
  simp [List.getElem?_take, List.getElem?_drop]

theorem writeAt_getElem? (b : Bytes) (o : Nat) (d : Bytes) (i : Nat) (h : o ≤ b.length) :
    (writeAt b o d)[i]? =
      if i < o then b[i]? else if i < o + d.length then d[i - o]? else b[i]? := by
  unfold writeAt
  simp only [List.append_assoc, List.getElem?_append, List.length_take, List.getElem?_take, List.getElem?_drop]
  grind

@[simp] theorem length_zeros (n : Nat) : (zeros n).length = n := by simp [zeros]

theorem zeros_getElem? (n i : Nat) : (zeros n)[i]? = if i < n then some 0 else none := by
  unfold zeros; simp [List.getElem?_replicate]

theorem length_writeAt (b : Bytes) (o : Nat) (d : Bytes) (h : o + d.length ≤ b.length) :
    (writeAt b o d).length = b.length := by
  unfold writeAt; simp; omega

theorem length_readAt (b : Bytes) (o n : Nat) (h : o + n ≤ b.length) : (readAt b o n).length = n := by
  unfold readAt; simp; omega

theorem length_readAt_le (b : Bytes) (o n : Nat) : (readAt b o n).length ≤ n := by
  unfold readAt; simp; omega

theorem readAt_zero (b : Bytes) (o : Nat) : readAt b o 0 = [] := by simp [readAt]

theorem readAt_writeAt_same (b : Bytes) (o : Nat) (d : Bytes) (h : o + d.length ≤ b.length) :
    readAt (writeAt b o d) o d.length = d := by
  apply List.ext_getElem?
  intro i
  rw [readAt_getElem?, writeAt_getElem? _ _ _ _ (by omega)]
  grind

theorem readAt_writeAt_disjoint (b : Bytes) (o : Nat) (d : Bytes) (o2 n : Nat)
    (h : o + d.length ≤ b.length) (hd : o2 + n ≤ o ∨ o + d.length ≤ o2) :
    readAt (writeAt b o d) o2 n = readAt b o2 n := by
  apply List.ext_getElem?
  intro i
  rw [readAt_getElem?, readAt_getElem?, writeAt_getElem? _ _ _ _ (by omega)]
  grind

theorem readAt_add (b : Bytes) (o n m : Nat) :
    readAt b o (n + m) = readAt b o n ++ readAt b (o + n) m := by
  unfold readAt
  rw [List.take_add, List.drop_drop]

/-- reading a region that a write covers in its middle part -/
theorem readAt_writeAt_inside (b : Bytes) (o : Nat) (d : Bytes) (k n : Nat)
    (h : o + d.length ≤ b.length) (hk : k + n ≤ d.length) :
    readAt (writeAt b o d) (o + k) n = readAt d k n := by
  apply List.ext_getElem?
  intro i
  rw [readAt_getElem?, readAt_getElem?, writeAt_getElem? _ _ _ _ (by omega)]
  grind

theorem readAt_full (d : Bytes) : readAt d 0 d.length = d := by simp [readAt]

theorem readAt_readAt (b : Bytes) (o n k m : Nat) (h : k + m ≤ n) :
    readAt (readAt b o n) k m = readAt b (o + k) m := by
  apply List.ext_getElem?
  intro i
  simp only [readAt_getElem?]
  grind

theorem readAt_eq_take (d : Bytes) (n : Nat) : readAt d 0 n = d.take n := by simp [readAt]
theorem readAt_eq_drop (d : Bytes) (k : Nat) : readAt d k (d.length - k) = d.drop k := by
  unfold readAt
  apply List.take_of_length_le
  simp

@[simp] theorem length_beEncode (w v : Nat) : (beEncode w v).length = w := by
  induction w with
  | zero => simp [beEncode]
  | succ n ih => simp [beEncode, ih]

theorem beFold_acc (bs : Bytes) (acc : Nat) :
    bs.foldl (fun acc (b : UInt8) => acc * 256 + b.toNat) acc
      = acc * 256 ^ bs.length + bs.foldl (fun acc (b : UInt8) => acc * 256 + b.toNat) 0 := by
  induction bs generalizing acc with
  | nil => simp
  | cons x xs ih =>
    simp only [List.foldl_cons, List.length_cons]
    rw [ih (acc * 256 + x.toNat), ih (0 * 256 + x.toNat)]
    rw [Nat.pow_succ, Nat.add_mul, Nat.mul_assoc, Nat.mul_comm 256 (256 ^ xs.length)]
    simp [Nat.add_assoc]

theorem beDecode_cons (x : UInt8) (b : Bytes) : beDecode (x :: b) = x.toNat * 256 ^ b.length + beDecode b := by
  unfold beDecode
  rw [List.foldl_cons, beFold_acc]
  simp

theorem beDecode_beEncode (w v : Nat) : beDecode (beEncode w v) = v % 256 ^ w := by
  induction w with
  | zero => simp [beEncode, beDecode, Nat.mod_one]
  | succ n ih =>
    rw [beEncode, beDecode_cons, ih, length_beEncode]
    have h256 : (UInt8.ofNat (v / 256 ^ n % 256)).toNat = v / 256 ^ n % 256 := by
      simp
    rw [h256, Nat.pow_succ, Nat.mod_mul, Nat.mul_comm, Nat.add_comm]

end Nng.Msg
