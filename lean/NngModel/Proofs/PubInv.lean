/- C05: invariants of the PUB model over all event sequences -/
import NngModel.Model.Pub
import NngModel.Generated.C05
namespace Nng.Pub
open Nng Nng.Proto

/-- what holds of every pipe in every reachable state -/
structure PipeInv (pub : List GMsg) (p : Pipe) : Prop where
  len : p.q.length ≤ p.cap
  cap : 1 ≤ p.cap
  idle : p.busy = none → p.q = []
  hist : (p.wire ++ p.q).Sublist p.offered
  off : p.offered.Sublist pub

theorem PipeInv.mono {pub : List GMsg} {p : Pipe} (x : List GMsg) (h : PipeInv pub p) : PipeInv (pub ++ x) p :=
  { h with off := h.off.trans (List.sublist_append_left pub x) }

/-- T7 (idle pipe): the message goes to the transport at once -/
theorem sendPipe_idle (gm : GMsg) (p : Pipe) (hl : p.listed = true) (hb : p.busy = none) :
    sendPipe gm p = ({ p with offered := p.offered ++ [gm], busy := some gm, wire := p.wire ++ [gm] },
                     [Out.psend p.id gm.m]) := by
  unfold sendPipe; simp [hl, hb]

/-- T7 (busy pipe with room): the message is queued behind the others -/
theorem sendPipe_room (gm : GMsg) (p : Pipe) (x : GMsg) (hl : p.listed = true) (hb : p.busy = some x)
    (hroom : p.q.length < p.cap) :
    sendPipe gm p = ({ p with offered := p.offered ++ [gm], q := p.q ++ [gm] }, []) := by
  have hnf : ¬ p.q.length ≥ p.cap := by omega
  unfold sendPipe; simp [hl, hb, lmqFull, lmqPut, hnf]

/-- T7 (busy pipe, full queue): exactly one message is dropped — the OLDEST queued one —
    and the new one is queued last -/
theorem sendPipe_full (gm : GMsg) (p : Pipe) (x old : GMsg) (t : List GMsg) (hl : p.listed = true)
    (hb : p.busy = some x) (hq : p.q = old :: t) (hfull : p.q.length = p.cap) :
    sendPipe gm p = ({ p with offered := p.offered ++ [gm], q := t ++ [gm], dropped := p.dropped ++ [old] }, []) := by
  have hf' : p.cap ≤ t.length + 1 := by rw [hq] at hfull; simp at hfull; omega
  have ht : ¬ p.cap ≤ t.length := by rw [hq] at hfull; simp at hfull; omega
  unfold sendPipe; simp [hl, hb, lmqFull, lmqPut, hq, hf', ht]

theorem sendPipe_unlisted (gm : GMsg) (p : Pipe) (hl : p.listed = false) : sendPipe gm p = (p, []) := by
  unfold sendPipe; simp [hl]

theorem sendPipe_inv {pub : List GMsg} (gm : GMsg) {p : Pipe} (h : PipeInv pub p) :
    PipeInv (pub ++ [gm]) (sendPipe gm p).1 := by
  cases hl : p.listed with
  | false => rw [sendPipe_unlisted gm p hl]; exact h.mono _
  | true =>
    have hoff : (p.offered ++ [gm]).Sublist (pub ++ [gm]) := List.Sublist.append h.off (List.Sublist.refl _)
    cases hb : p.busy with
    | none =>
      rw [sendPipe_idle gm p hl hb]
      have hq := h.idle hb
      refine ⟨h.len, h.cap, (fun hn => by cases hn), ?_, hoff⟩
      have := h.hist; rw [hq] at this ⊢
      simp only [List.append_nil] at this ⊢
      exact List.Sublist.append this (List.Sublist.refl _)
    | some x =>
      by_cases hroom : p.q.length < p.cap
      · rw [sendPipe_room gm p x hl hb hroom]
        refine ⟨by simp; omega, h.cap, (fun hn => by rw [hb] at hn; cases hn), ?_, hoff⟩
        show (p.wire ++ (p.q ++ [gm])).Sublist (p.offered ++ [gm])
        rw [← List.append_assoc]
        exact List.Sublist.append h.hist (List.Sublist.refl _)
      · have hfull : p.q.length = p.cap := by have := h.len; omega
        cases hq : p.q with
        | nil => have := h.cap; rw [hq] at hfull; simp at hfull; omega
        | cons old t =>
          rw [sendPipe_full gm p x old t hl hb hq hfull]
          refine ⟨?_, h.cap, (fun hn => by rw [hb] at hn; cases hn), ?_, hoff⟩
          · rw [hq] at hfull; simp at hfull ⊢; omega
          · show (p.wire ++ (t ++ [gm])).Sublist (p.offered ++ [gm])
            rw [← List.append_assoc]
            refine List.Sublist.append (List.Sublist.trans ?_ h.hist) (List.Sublist.refl _)
            rw [hq]; exact List.Sublist.append (List.Sublist.refl _) (List.sublist_cons_self old t)

theorem sendDonePipe_inv {pub : List GMsg} {p : Pipe} (h : PipeInv pub p) : PipeInv pub (sendDonePipe p).1 := by
  unfold sendDonePipe
  split
  · next m rest hq =>
    refine ⟨?_, h.cap, (fun hn => by cases hn), ?_, h.off⟩
    · have := h.len; rw [hq] at this; simp at this ⊢; omega
    · have := h.hist; rw [hq] at this; simpa [List.append_assoc] using this
  · next hq => exact ⟨h.len, h.cap, fun _ => hq, h.hist, h.off⟩

theorem resizePipe_inv {pub : List GMsg} {p : Pipe} (cap : Nat) (hcap : 1 ≤ cap) (h : PipeInv pub p) :
    PipeInv pub (resizePipe cap p) := by
  unfold resizePipe
  split
  · refine ⟨by simp; omega, hcap, ?_, ?_, h.off⟩
    · intro hb; show p.q.take cap = []; rw [h.idle hb]; simp
    · show (p.wire ++ p.q.take cap).Sublist p.offered
      exact (List.Sublist.append (List.Sublist.refl _) (List.take_sublist cap p.q)).trans h.hist
  · exact h

theorem closePipeP_inv {pub : List GMsg} {p : Pipe} (h : PipeInv pub p) : PipeInv pub (closePipeP p).1 := by
  unfold closePipeP
  split
  · exact h
  · refine ⟨Nat.zero_le _, h.cap, fun _ => rfl, ?_, h.off⟩
    show (p.wire ++ []).Sublist p.offered
    simp only [List.append_nil]
    exact (List.sublist_append_left _ _).trans h.hist

structure Inv (s : State) : Prop where
  pipes : ∀ p ∈ s.pipes, PipeInv s.published p
  gids : s.published.Pairwise (fun a b => a.gid < b.gid)
  bound : ∀ m ∈ s.published, m.gid < s.nsend
  sb : s.opened = true → 1 ≤ s.sendbuf

theorem inv_init : Inv ({} : State) :=
  ⟨(by intro p hp; cases hp), List.Pairwise.nil, (by intro m hm; cases hm), (by intro h; cases h)⟩

theorem setPipe_inv {s : State} (pp : Pipe) (h : Inv s) (hp : PipeInv s.published pp) : Inv (setPipe s pp) := by
  refine ⟨?_, h.gids, h.bound, h.sb⟩
  intro x hx
  simp only [setPipe, List.mem_map] at hx
  obtain ⟨y, hy, rfl⟩ := hx
  split
  · exact hp
  · exact h.pipes y hy

theorem getPipe_mem {s : State} {p : Nat} {pp : Pipe} (h : getPipe s p = some pp) : pp ∈ s.pipes :=
  List.mem_of_find?_eq_some h

theorem closePipe_inv {s : State} (p : Nat) (h : Inv s) : Inv (closePipe s p).1 := by
  unfold closePipe
  split
  · exact h
  · next pp hpp => exact setPipe_inv _ h (closePipeP_inv (h.pipes pp (getPipe_mem hpp)))

theorem sendList_eq_map (gm : GMsg) : ∀ ps : List Pipe, (sendList gm ps).1 = ps.map (fun p => (sendPipe gm p).1)
  | [] => rfl
  | p :: ps => by simp [sendList, sendList_eq_map gm ps]

theorem closeList_eq_map : ∀ ps : List Pipe, (closeList ps).1 = ps.map (fun p => (closePipeP p).1)
  | [] => rfl
  | p :: ps => by simp [closeList, closeList_eq_map ps]

theorem defaultBuf_pos : 1 ≤ Nng.Generated.c05PubSendBufDefault := by decide

theorem sendBufMin_pos : (1 : Int) ≤ (sendBufMin : Int) := by decide

theorem stepOpen_inv {s : State} (ev : Ev) (h : Inv s) (ho : s.opened = true) : Inv (stepOpen s ev).1 := by
  cases ev with
  | openSock _ _ => exact h
  | pipeAdd peer =>
    show Inv (opPipeAdd s peer).1
    unfold opPipeAdd
    have hnew : ∀ (l a cl : Bool), PipeInv s.published { id := s.pipes.length, closed := cl, listed := l, armed := a, cap := s.sendbuf } :=
      fun _ _ _ => ⟨Nat.zero_le _, h.sb ho, fun _ => rfl, List.Sublist.refl _, List.nil_sublist _⟩
    split
    · refine ⟨?_, h.gids, h.bound, h.sb⟩
      intro x hx
      simp only [List.mem_append, List.mem_singleton] at hx
      rcases hx with hx | rfl
      · exact h.pipes x hx
      · exact hnew false false true
    · refine ⟨?_, h.gids, h.bound, h.sb⟩
      intro x hx
      simp only [List.mem_append, List.mem_singleton] at hx
      rcases hx with hx | rfl
      · exact h.pipes x hx
      · exact hnew true true false
  | pipeDrop p =>
    show Inv (opPipeDrop s p).1
    unfold opPipeDrop
    split
    · split
      · exact h
      · exact closePipe_inv p h
    · exact h
  | sendDone p rv =>
    show Inv (opSendDone s p rv).1
    unfold opSendDone
    split
    · next pp hpp =>
      split
      · split
        · exact h
        · split
          · exact closePipe_inv p h
          · exact setPipe_inv _ h (sendDonePipe_inv (h.pipes pp (getPipe_mem hpp)))
      · exact h
    · exact h
  | recvDone p r =>
    show Inv (opRecvDone s p).1
    unfold opRecvDone
    split
    · split
      · exact h
      · exact closePipe_inv p h
    · exact h
  | send c a m mode =>
    show Inv (opSend s c a m).1
    unfold opSend
    split
    · exact h
    · refine ⟨?_, ?_, ?_, h.sb⟩
      · intro x hx
        simp only [sendList_eq_map, List.mem_map] at hx
        obtain ⟨y, hy, rfl⟩ := hx
        exact sendPipe_inv _ (h.pipes y hy)
      · show (s.published ++ [(⟨s.nsend, m⟩ : GMsg)]).Pairwise (fun a b => a.gid < b.gid)
        rw [List.pairwise_append]
        refine ⟨h.gids, List.pairwise_singleton _ _, ?_⟩
        intro x hx y hy
        simp only [List.mem_singleton] at hy; subst hy
        exact h.bound x hx
      · intro x hx
        simp only [List.mem_append, List.mem_singleton] at hx
        rcases hx with hx | rfl
        · exact Nat.lt_succ_of_lt (h.bound x hx)
        · exact Nat.lt_succ_self _
  | recv c a mode =>
    show Inv (match c with | some _ => _ | none => _ : State × List Out).1
    split <;> exact h
  | cancel a => exact h
  | abort a rv => exact h
  | advance ms => exact ⟨h.pipes, h.gids, h.bound, h.sb⟩
  | ctxOpen k => exact h
  | ctxClose k => exact h
  | setopt c name ty v =>
    show Inv (opSetopt s c name ty v).1
    unfold opSetopt
    split
    · split
      · exact h
      · next hrange =>
        have hv : 1 ≤ v.toNat := by
          simp only [Bool.or_eq_true, decide_eq_true_eq, not_or, Int.not_lt] at hrange
          have := sendBufMin_pos
          omega
        refine ⟨?_, h.gids, h.bound, fun _ => hv⟩
        intro x hx
        simp only [List.mem_map] at hx
        obtain ⟨y, hy, rfl⟩ := hx
        exact resizePipe_inv _ hv (h.pipes y hy)
    · exact h
  | getopt c name ty =>
    show Inv (if _ then _ else _ : State × List Out).1
    split <;> exact h
  | poll => exact h
  | sub c t => exact h
  | unsub c t => exact h
  | close =>
    refine ⟨?_, h.gids, h.bound, h.sb⟩
    show ∀ p ∈ (closeList s.pipes).1, PipeInv s.published p
    rw [closeList_eq_map]
    intro x hx
    simp only [List.mem_map] at hx
    obtain ⟨y, hy, rfl⟩ := hx
    exact closePipeP_inv (h.pipes y hy)

theorem step_inv {s : State} (ev : Ev) (h : Inv s) : Inv (step s ev).1 := by
  unfold step
  split
  · split
    · exact ⟨h.pipes, h.gids, h.bound, fun _ => defaultBuf_pos⟩
    · exact ⟨h.pipes, h.gids, h.bound, h.sb⟩
    · exact h
  · next hno =>
    have ho : s.opened = true := by simpa using hno
    split
    · split
      · exact ⟨h.pipes, h.gids, h.bound, h.sb⟩
      · exact h
    · exact stepOpen_inv ev h ho

def reach (evs : List Ev) : State := evs.foldl (fun s e => (step s e).1) {}

theorem foldl_inv : ∀ (evs : List Ev) (s : State), Inv s → Inv (evs.foldl (fun s e => (step s e).1) s)
  | [], _, h => h
  | e :: es, s, h => by simp only [List.foldl_cons]; exact foldl_inv es _ (step_inv e h)

theorem reach_inv (evs : List Ev) : Inv (reach evs) := foldl_inv evs {} inv_init

/-! ### no operation other than send / recv produces an aio completion -/

theorem closePipeP_no_done (p : Pipe) : ∀ o ∈ (closePipeP p).2, ∀ a rv msg mb, o ≠ Out.done a rv msg mb := by
  intro o ho; unfold closePipeP at ho; split at ho <;> simp at ho
  subst ho; intro a rv msg mb h; cases h

theorem closePipe_no_done (s : State) (p : Nat) : ∀ o ∈ (closePipe s p).2, ∀ a rv msg mb, o ≠ Out.done a rv msg mb := by
  intro o ho; unfold closePipe at ho; split at ho
  · simp at ho
  · exact closePipeP_no_done _ o ho

theorem closeList_no_done : ∀ (ps : List Pipe), ∀ o ∈ (closeList ps).2, ∀ a rv msg mb, o ≠ Out.done a rv msg mb
  | [], o, ho => by simp [closeList] at ho
  | p :: ps, o, ho => by
    simp only [closeList, List.mem_append] at ho
    rcases ho with ho | ho
    · exact closePipeP_no_done p o ho
    · exact closeList_no_done ps o ho

theorem sendPipe_out (gm : GMsg) (p : Pipe) : (sendPipe gm p).2 = [] ∨ (sendPipe gm p).2 = [Out.psend p.id gm.m] := by
  cases hl : p.listed with
  | false => left; rw [sendPipe_unlisted gm p hl]
  | true =>
    cases hb : p.busy with
    | none => right; rw [sendPipe_idle gm p hl hb]
    | some x => left; simp [sendPipe, hl, hb]

theorem sendList_no_done (gm : GMsg) : ∀ (ps : List Pipe), ∀ o ∈ (sendList gm ps).2, ∀ a rv msg mb, o ≠ Out.done a rv msg mb
  | [], o, ho => by simp [sendList] at ho
  | p :: ps, o, ho => by
    simp only [sendList, List.mem_append] at ho
    rcases ho with ho | ho
    · intro a rv msg mb h; subst h
      rcases sendPipe_out gm p with h | h <;> (rw [h] at ho; simp at ho)
    · exact sendList_no_done gm ps o ho

end Nng.Pub
