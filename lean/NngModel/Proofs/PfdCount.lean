/- the ghost call counters line up with where the threads are (counting invariants), and the harvested
   mask is the one handed to the callback: what the judge of Spec/Pfd.lean reads off the observations
   agrees with the model's ghost state.  ALL schedules. -/
import NngModel.Proofs.PfdFacts
namespace Nng.Pfd
open Nng.PfdSpec

def indBusy (f : Frame) : Nat := if f = .idle then 0 else 1
def indStop (f : Frame) (o : Option Op) : Nat := if f ≠ .idle ∧ o = some .stop then 1 else 0

/-- the frame belongs to a call of `op` -/
def compat (f : Frame) (op : Op) : Prop :=
  match f with
  | .idle => True
  | .armCtl _ _ _ => op.isArm = true
  | .closeShut => op = .close ∨ op = .stop
  | .closeDel => op = .close ∨ op = .stop
  | _ => op = .stop

theorem compat_busy (f : Frame) (op : Op) (hc : compat f op) (hf : f ≠ .idle) : op ≠ .fini ∧ op ≠ .free ∧ op ≠ .kick := by
  cases f <;> cases op <;> simp_all [compat, Op.isArm]

theorem sum_map_zero {α : Type} (l : List α) : (l.map fun _ => 0).sum = 0 := by
  induction l with
  | nil => rfl
  | cons a l ih => simp [ih]

set_option hygiene false in
local macro "cs_split" : tactic => `(tactic| (
  cases f with
  | idle =>
    cases op with
    | arm m => simp [callStep, touch, compat, Op.isArm, *]
    | close => cases hc : g.closing <;> simp [callStep, touch, compat, *]
    | stop => cases hc : g.stopped <;> simp [callStep, touch, compat, *]
    | fini => simp [callStep, touch, compat, *]
    | free => simp [callStep, touch, compat, *]
    | kick => simp [callStep, touch, compat, *]
  | armCtl e rq w => cases w <;> cases op <;> simp_all [callStep, touch, compat, Op.isArm]
  | closeShut => cases op <;> simp_all [callStep, touch, compat]
  | closeDel => cases op <;> simp_all [callStep, touch, compat]
  | stopClose => cases hc : g.closing <;> cases op <;> simp_all [callStep, touch, compat]
  | stopLock => cases hc : g.mtx <;> cases op <;> simp_all [callStep, touch, compat]
  | stopWrite => cases hc : g.onReap <;> cases op <;> simp_all [callStep, touch, syncRet, compat]
  | stopSleep => cases op <;> simp_all [callStep, compat]
  | stopChk => cases hm : g.mtx <;> cases hc : g.onReap <;> cases op <;> simp_all [callStep, touch, syncRet, compat]))

/-- calls begun and not returned = threads inside a call -/
theorem call_busy (g : G) (t : Tid) (f : Frame) (op : Op) (hc : compat f op) :
    (if f = .idle ∧ op ≠ .kick then 1 else 0) + indBusy f =
      (if (callStep g t f op).fin = true ∧ op ≠ .kick then 1 else 0) + indBusy (callStep g t f op).frame := by
  unfold indBusy
  cs_split

theorem call_stop (g : G) (t : Tid) (f : Frame) (op : Op) (nxt : Option Op) (hc : compat f op) :
    (if f = .idle ∧ op = .stop then 1 else 0) + indStop f (some op) =
      (if (callStep g t f op).fin = true ∧ op = .stop then 1 else 0) +
        indStop (callStep g t f op).frame (if (callStep g t f op).fin then nxt else some op) := by
  unfold indStop
  cs_split

theorem call_compat (g : G) (t : Tid) (f : Frame) (op : Op) (hc : compat f op) (hn : (callStep g t f op).fin = false) :
    compat (callStep g t f op).frame op := by
  revert hn
  cs_split

theorem call_stop_idle (g : G) (t : Tid) : (callStep g t .idle .stop).fin = g.stopped := by
  cases hc : g.stopped <;> simp [callStep, touch, hc]

theorem call_stopped (g : G) (t : Tid) (f : Frame) (op : Op) :
    (callStep g t f op).g.stopped = (g.stopped || (f == .idle && op == .stop)) := by
  cs_split

theorem call_synced (g : G) (t : Tid) (f : Frame) (op : Op) :
    (callStep g t f op).g.synced = (g.synced || ((callStep g t f op).fin && (f == .stopWrite || f == .stopChk))) := by
  cs_split

theorem call_closeStarted (g : G) (t : Tid) (f : Frame) (op : Op) :
    (callStep g t f op).g.closeStarted = (g.closeStarted || (f == .idle && (op == .close || op == .stop))) := by
  cs_split

theorem call_finiDone (g : G) (t : Tid) (f : Frame) (op : Op) :
    (callStep g t f op).g.finiDone = (g.finiDone || (f == .idle && op == .fini)) := by
  cs_split

theorem call_freed (g : G) (t : Tid) (f : Frame) (op : Op) :
    (callStep g t f op).g.freed = (g.freed || (f == .idle && op == .free)) := by
  cs_split

theorem call_fin_idle_op (g : G) (t : Tid) (op : Op) (h : op = .fini ∨ op = .free) : (callStep g t .idle op).fin = true := by
  rcases h with h | h <;> subst h <;> simp [callStep]

theorem call_n (g : G) (t : Tid) (f : Frame) (op : Op) : (callStep g t f op).g.n = g.n := by
  cs_split

theorem call_cac (g : G) (t : Tid) (f : Frame) (op : Op) : (callStep g t f op).g.cbAfterClose = g.cbAfterClose := by
  cs_split

theorem call_cm (g : G) (t : Tid) (f : Frame) (op : Op) : (callStep g t f op).g.cm = g.cm := by
  cs_split

theorem call_hm (g : G) (t : Tid) (f : Frame) (op : Op) : (callStep g t f op).g.hm = g.hm := by
  cs_split

/-- a stop call returns from inside only by synchronising -/
theorem call_stop_fin_synced (g : G) (t : Tid) (f : Frame) (op : Op) (hc : compat f op) (hop : op = .stop) (hf : f ≠ .idle) :
    (callStep g t f op).fin = true → f = .stopWrite ∨ f = .stopChk := by
  subst hop
  cases f with
  | idle => exact absurd rfl hf
  | armCtl e r w => simp [compat, Op.isArm] at hc
  | closeShut => simp [callStep]
  | closeDel => simp [callStep]
  | stopClose => cases h : g.closing <;> simp [callStep, touch, h]
  | stopLock => cases h : g.mtx <;> simp [callStep, touch, h]
  | stopWrite => simp
  | stopSleep => simp [callStep]
  | stopChk => simp

/-! ### the counters -/

theorem acct_nb (g : G) (t : Tid) (f : Frame) (op : Op) (fin : Bool) :
    (acct g t f op fin).n.nb = g.n.nb + (if f = .idle ∧ op ≠ .kick then 1 else 0) := by
  unfold acct; cases op <;> cases fin <;> by_cases hf : f = .idle <;> simp [hf]

theorem acct_nr (g : G) (t : Tid) (f : Frame) (op : Op) (fin : Bool) :
    (acct g t f op fin).n.nr = g.n.nr + (if fin = true ∧ op ≠ .kick then 1 else 0) := by
  unfold acct; cases op <;> cases fin <;> by_cases hf : f = .idle <;> simp [hf]

theorem acct_sb (g : G) (t : Tid) (f : Frame) (op : Op) (fin : Bool) :
    (acct g t f op fin).n.sb = g.n.sb + (if f = .idle ∧ op = .stop then 1 else 0) := by
  unfold acct; cases op <;> cases fin <;> by_cases hf : f = .idle <;> simp [hf]

theorem acct_sr (g : G) (t : Tid) (f : Frame) (op : Op) (fin : Bool) :
    (acct g t f op fin).n.sr = g.n.sr + (if fin = true ∧ op = .stop then 1 else 0) := by
  unfold acct; cases op <;> cases fin <;> by_cases hf : f = .idle <;> simp [hf]

theorem acct_kb (g : G) (t : Tid) (f : Frame) (op : Op) (fin : Bool) :
    (acct g t f op fin).n.kb = g.n.kb + (if f = .idle ∧ op = .close then 1 else 0) := by
  unfold acct; cases op <;> cases fin <;> by_cases hf : f = .idle <;> simp [hf]

theorem acct_ab (g : G) (t : Tid) (f : Frame) (op : Op) (fin : Bool) :
    (acct g t f op fin).n.ab = g.n.ab + (if f = .idle ∧ op.isArm = true then 1 else 0) := by
  unfold acct; cases op <;> cases fin <;> by_cases hf : f = .idle <;> simp [hf, Op.isArm]

theorem acct_fb (g : G) (t : Tid) (f : Frame) (op : Op) (fin : Bool) :
    (acct g t f op fin).n.fb = g.n.fb + (if f = .idle ∧ op = .fini then 1 else 0) := by
  unfold acct; cases op <;> cases fin <;> by_cases hf : f = .idle <;> simp [hf]

theorem acct_fr (g : G) (t : Tid) (f : Frame) (op : Op) (fin : Bool) :
    (acct g t f op fin).n.fr = g.n.fr + (if fin = true ∧ op = .fini then 1 else 0) := by
  unfold acct; cases op <;> cases fin <;> by_cases hf : f = .idle <;> simp [hf]

theorem acct_xr (g : G) (t : Tid) (f : Frame) (op : Op) (fin : Bool) :
    (acct g t f op fin).n.xr = g.n.xr + (if fin = true ∧ op = .free then 1 else 0) := by
  unfold acct; cases op <;> cases fin <;> by_cases hf : f = .idle <;> simp [hf]

theorem acct_pb (g : G) (t : Tid) (f : Frame) (op : Op) (fin : Bool) :
    (acct g t f op fin).n.pb = g.n.pb + (if f = .idle ∧ t = .p ∧ (op = .stop ∨ op = .fini ∨ op = .free) then 1 else 0) := by
  unfold acct; cases op <;> cases fin <;> by_cases hf : f = .idle <;> cases t <;> simp [hf]

/-! ### sums over all threads -/

/-- a quantity summed over the poller thread and the clients 0 .. n-1 -/
def tsum (n : Nat) (F : Tid → Nat) : Nat := F .p + ((List.range n).map fun i => F (.c i)).sum

theorem range_sum_update (n k : Nat) (hk : k < n) (F F' : Nat → Nat) (h : ∀ i, i ≠ k → F' i = F i) :
    ((List.range n).map F').sum + F k = ((List.range n).map F).sum + F' k := by
  induction n with
  | zero => omega
  | succ m ih =>
    simp only [List.range_succ, List.map_append, List.sum_append, List.map_cons, List.map_nil, List.sum_cons, List.sum_nil]
    by_cases hkm : k = m
    · subst hkm
      have : ((List.range k).map F').sum = ((List.range k).map F).sum := by
        congr 1
        apply List.map_congr_left
        intro i hi
        exact h i (by have := List.mem_range.mp hi; omega)
      omega
    · have := ih (by omega)
      have hm : F' m = F m := h m (fun e => hkm e.symm)
      omega

theorem range_sum_congr (n : Nat) (F F' : Nat → Nat) (h : ∀ i, F' i = F i) :
    ((List.range n).map F').sum = ((List.range n).map F).sum := by
  congr 1
  exact List.map_congr_left (fun i _ => h i)

def tidOk (n : Nat) : Tid → Prop
  | .p => True
  | .c i => i < n

theorem tsum_update (n : Nat) (F F' : Tid → Nat) (t : Tid) (ht : tidOk n t)
    (h : ∀ u, u ≠ t → F' u = F u) : tsum n F' + F t = tsum n F + F' t := by
  unfold tsum
  cases t with
  | p =>
    have := range_sum_congr n (fun i => F (.c i)) (fun i => F' (.c i)) (fun i => h (.c i) (by simp))
    omega
  | c k =>
    have h1 := range_sum_update n k ht (fun i => F (.c i)) (fun i => F' (.c i))
      (fun i hi => h (.c i) (by intro e; cases e; exact hi rfl))
    have h2 : F' .p = F .p := h .p (by simp)
    omega

theorem tsum_congr (n : Nat) (F F' : Tid → Nat) (h : ∀ u, F' u = F u) : tsum n F' = tsum n F := by
  unfold tsum
  rw [h .p, range_sum_congr n (fun i => F (.c i)) (fun i => F' (.c i)) (fun i => h (.c i))]

theorem tsum_zero (n : Nat) (F : Tid → Nat) (h : ∀ u, F u = 0) : tsum n F = 0 := by
  unfold tsum
  rw [h .p, range_sum_congr n (fun _ => 0) (fun i => F (.c i)) (fun i => h (.c i))]
  simp [sum_map_zero]

def busyCount (s : State) : Nat := tsum s.cs.length fun t => indBusy (frameOf s t)
def stopCount (s : State) : Nat := tsum s.cs.length fun t => indStop (frameOf s t) (opOf s t)

end Nng.Pfd
