/-
  SURVEYOR model: a sufficient condition on the event list alone for "no response is dropped on a full
  receive queue": at most 128 (the queue depth) messages are delivered by the transport in the whole run.
-/
import NngModel.Proofs.SurvJudgeN
import NngModel.Proofs.SurvJudgeQI
namespace Nng.SurvProofs
open Nng Nng.Proto Nng.Survey Nng.SurveySpec Nng.SurvJudge

/-- number of messages the transport delivers in the run -/
def arrivalCount (evs : List Ev) : Nat := (evs.filter isArrival).length

theorem along_overflow_of_few (evs : List Ev) : ∀ (s : State), QInv s →
    s.narrive + arrivalCount evs ≤ Nng.Generated.survRecvBufInit → Along overflowAt s evs := by
  induction evs with
  | nil => intro _ _ _; trivial
  | cons e es ih =>
    intro s hq hle
    obtain ⟨q1, q2, q3⟩ := step_q s e hq
    have hcnt : arrivalCount (e :: es) = (if isArrival e then 1 else 0) + arrivalCount es := by
      unfold arrivalCount
      rw [List.filter_cons]
      cases isArrival e <;> simp <;> omega
    rw [hcnt] at hle
    refine ⟨?_, ih _ q1 (by omega)⟩
    cases e with
    | recvDone p r =>
      cases r with
      | error _ => rfl
      | ok b =>
        simp only [overflowAt]
        cases hl : lookup s (beDecode (b.take 4)) with
        | none => rfl
        | some c =>
          obtain ⟨hc, _, _⟩ := lookup_spec hl
          have := hq c hc
          simp only [isArrival, if_true] at hle
          simp only [Bool.and_eq_false_imp, decide_eq_true_eq, decide_eq_false_iff_not]
          intro _
          omega
    | _ => rfl

end Nng.SurvProofs
