/- preservation of the pollable invariant by the steps of a getfd thread -/
import NngModel.Proofs.PollableInv
namespace Nng.Pollable
set_option linter.unnecessarySimpa false

theorem countP_set_same {gs : List GPc} {i : Nat} {g g' : GPc} (hi : gs[i]? = some g)
    (ho : g'.isOwner = g.isOwner) : (gs.set i g').countP GPc.isOwner = gs.countP GPc.isOwner := by
  have ⟨hl, hg⟩ := List.getElem?_eq_some_iff.mp hi
  have := countP_set_add GPc.isOwner gs i g' hl
  rw [hg, ho] at this
  omega

/-- a step of getfd thread `i` that does not write shared memory -/
theorem inv_gset {fixed : Bool} {s : State} (h : Inv fixed s) {i : Nat} {g g' : GPc}
    (hi : s.gs[i]? = some g) (hwf : GWf s.sh g') (hown : g'.owns = g.owns)
    (hp1 : g.phase = none → g'.phase = none)
    (hp2 : ∀ w, g.phase = some w → allowed fixed s.m1.pc.tag w s.sh.raised s.sh.instBytes →
      match g'.phase with
      | some w' => allowed fixed s.m1.pc.tag w' s.sh.raised s.sh.instBytes
      | none => allowed fixed s.m1.pc.tag .fin s.sh.raised s.sh.instBytes) :
    Inv fixed ⟨s.sh, s.m1, s.m2, s.gs.set i g'⟩ := by
  have hph : g'.phase.isSome → g.phase.isSome := by
    intro hs
    cases hg : g.phase with
    | none => rw [hp1 hg] at hs; simp at hs
    | some w => simp
  refine ⟨h.bad, h.m2, h.inst, h.mpcW, h.mpcD, ?_, ?_, ?_, ?_, ?_, ?_, h.zero⟩
  · intro j x hj
    rcases getElem?_set_cases hj with ⟨_, rfl, _⟩ | ⟨_, hj'⟩
    · exact hwf
    · exact h.gwf j x hj'
  · intro j k x y p hj hk hx hy
    rcases getElem?_set_cases hj with ⟨rfl, rfl, _⟩ | ⟨hji, hj'⟩
    · rcases getElem?_set_cases hk with ⟨rfl, _, _⟩ | ⟨hki, hk'⟩
      · rfl
      · exact h.own _ k g y p hi hk' (hown ▸ hx) hy
    · rcases getElem?_set_cases hk with ⟨rfl, rfl, _⟩ | ⟨hki, hk'⟩
      · exact h.own j _ x g p hj' hi hx (hown ▸ hy)
      · exact h.own j k x y p hj' hk' hx hy
  · intro j k x y hj hk hx hy
    rcases getElem?_set_cases hj with ⟨rfl, rfl, _⟩ | ⟨hji, hj'⟩
    · rcases getElem?_set_cases hk with ⟨rfl, _, _⟩ | ⟨hki, hk'⟩
      · rfl
      · exact h.uniq _ k g y hi hk' (hph hx) hy
    · rcases getElem?_set_cases hk with ⟨rfl, rfl, _⟩ | ⟨hki, hk'⟩
      · exact h.uniq j _ x g hj' hi hx (hph hy)
      · exact h.uniq j k x y hj' hk' hx hy
  · intro j x w hj hw
    rcases getElem?_set_cases hj with ⟨rfl, rfl, _⟩ | ⟨hji, hj'⟩
    · cases hg : g.phase with
      | none => rw [hp1 hg] at hw; simp at hw
      | some w0 =>
        have := hp2 w0 hg (h.tabA _ g w0 hi hg)
        rw [hw] at this; exact this
    · exact h.tabA j x w hj' hw
  · intro hall
    cases hg : g.phase with
    | none =>
      apply h.tabN
      intro j x hj
      by_cases hji : j = i
      · subst hji; rw [hi] at hj; cases hj; exact hg
      · apply hall j x
        simp only []
        have hij : ¬ i = j := fun e => hji e.symm
        rw [List.getElem?_set]; simp [hij, hj]
    | some w0 =>
      have hl := (List.getElem?_eq_some_iff.mp hi).1
      have hnone : g'.phase = none := by
        apply hall i g'
        simp only []
        rw [List.getElem?_set]; simp [hl]
      have := hp2 w0 hg (h.tabA _ g w0 hi hg)
      rw [hnone] at this
      have hf := (phase_some_fds (h.gwf i g hi) hg).1
      simpa [wOf, hf] using this
  · simp only []
    rw [countP_set_same hi (by simp [GPc.isOwner, hown])]
    exact h.cnt

/-- a step of getfd thread `i` that also writes shared memory: the list bookkeeping done once -/
theorem inv_gframe {fixed : Bool} {s : State} (h : Inv fixed s) {i : Nat} {g g' : GPc} (sh' : Shared)
    (hi : s.gs[i]? = some g)
    (hb : sh'.bad = false)
    (hinst : ∀ p, sh'.fds = some p → openAt sh'.pipes p = true)
    (hmW : ∀ p, s.m1.pc = .raiseWrite p → sh'.fds = some p)
    (hmD : ∀ p, s.m1.pc = .clearDrain p → sh'.fds = some p)
    (hwf : GWf sh' g')
    (hwfo : ∀ (j : Nat) (x : GPc), j ≠ i → s.gs[j]? = some x → GWf sh' x)
    (hown : ∀ p, g'.owns = some p →
      g.owns = some p ∨ ∀ (j : Nat) (x : GPc), j ≠ i → s.gs[j]? = some x → x.owns ≠ some p)
    (hph : g'.phase.isSome → g.phase.isSome ∨ ∀ (j : Nat) (x : GPc), j ≠ i → s.gs[j]? = some x → x.phase = none)
    (htabA : ∀ w', g'.phase = some w' → allowed fixed s.m1.pc.tag w' sh'.raised sh'.instBytes)
    (htabO : ∀ (j : Nat) (x : GPc) (w : WPh), j ≠ i → s.gs[j]? = some x → x.phase = some w →
      allowed fixed s.m1.pc.tag w sh'.raised sh'.instBytes)
    (htabN : g'.phase = none → (∀ (j : Nat) (x : GPc), j ≠ i → s.gs[j]? = some x → x.phase = none) →
      allowed fixed s.m1.pc.tag (wOf sh') sh'.raised sh'.instBytes)
    (hcnt : sh'.nOpen + (if g.isOwner then 1 else 0) =
      (if sh'.fds.isSome then 1 else 0) + s.gs.countP GPc.isOwner + (if g'.isOwner then 1 else 0))
    (hzero : ∀ k, sh'.fds ≠ some k → bytesAt sh'.pipes k = 0) :
    Inv fixed ⟨sh', s.m1, s.m2, s.gs.set i g'⟩ := by
  have hl := (List.getElem?_eq_some_iff.mp hi).1
  have hother : ∀ (j : Nat) (x : GPc), j ≠ i → s.gs[j]? = some x → (s.gs.set i g')[j]? = some x := by
    intro j x hji hj
    have hij : ¬ i = j := fun e => hji e.symm
    rw [List.getElem?_set]; simp [hij, hj]
  have hself : (s.gs.set i g')[i]? = some g' := by rw [List.getElem?_set]; simp [hl]
  refine ⟨hb, h.m2, hinst, hmW, hmD, ?_, ?_, ?_, ?_, ?_, ?_, hzero⟩
  · intro j x hj
    rcases getElem?_set_cases hj with ⟨_, rfl, _⟩ | ⟨hji, hj'⟩
    · exact hwf
    · exact hwfo j x hji hj'
  · intro j k x y p hj hk hx hy
    rcases getElem?_set_cases hj with ⟨rfl, rfl, _⟩ | ⟨hji, hj'⟩
    · rcases getElem?_set_cases hk with ⟨rfl, _, _⟩ | ⟨hki, hk'⟩
      · rfl
      · rcases hown p hx with ho | ho
        · exact h.own _ k g y p hi hk' ho hy
        · exact absurd hy (ho k y hki hk')
    · rcases getElem?_set_cases hk with ⟨rfl, rfl, _⟩ | ⟨hki, hk'⟩
      · rcases hown p hy with ho | ho
        · exact h.own j _ x g p hj' hi hx ho
        · exact absurd hx (ho j x hji hj')
      · exact h.own j k x y p hj' hk' hx hy
  · intro j k x y hj hk hx hy
    rcases getElem?_set_cases hj with ⟨rfl, rfl, _⟩ | ⟨hji, hj'⟩
    · rcases getElem?_set_cases hk with ⟨rfl, _, _⟩ | ⟨hki, hk'⟩
      · rfl
      · rcases hph hx with ho | ho
        · exact h.uniq _ k g y hi hk' ho hy
        · rw [ho k y hki hk'] at hy; simp at hy
    · rcases getElem?_set_cases hk with ⟨rfl, rfl, _⟩ | ⟨hki, hk'⟩
      · rcases hph hy with ho | ho
        · exact h.uniq j _ x g hj' hi hx ho
        · rw [ho j x hji hj'] at hx; simp at hx
      · exact h.uniq j k x y hj' hk' hx hy
  · intro j x w hj hw
    rcases getElem?_set_cases hj with ⟨rfl, rfl, _⟩ | ⟨hji, hj'⟩
    · exact htabA w hw
    · exact htabO j x w hji hj' hw
  · intro hall
    apply htabN (hall i g' hself)
    intro j x hji hj
    exact hall j x (hother j x hji hj)
  · simp only []
    have := countP_set_add GPc.isOwner s.gs i g' hl
    rw [(List.getElem?_eq_some_iff.mp hi).2] at this
    omega

theorem owns_open {sh : Shared} {x : GPc} {p : Nat} (h : GWf sh x) (ho : x.owns = some p) :
    openAt sh.pipes p = true ∧ sh.fds ≠ some p := by
  cases x <;> simp [GPc.owns] at ho <;> subst ho <;> exact h

theorem owns_phase_none {x : GPc} {p : Nat} (ho : x.owns = some p) : x.phase = none := by
  cases x <;> simp [GPc.owns] at ho <;> rfl

/-- nni_plat_pipe_open succeeded -/
theorem inv_open {fixed : Bool} {s : State} (h : Inv fixed s) {i : Nat} (hi : s.gs[i]? = some .open_) :
    Inv fixed ⟨{ s.sh with pipes := s.sh.pipes ++ [⟨0, true⟩] }, s.m1, s.m2,
      s.gs.set i (.cas s.sh.pipes.length)⟩ := by
  have hib : ∀ p, s.sh.fds = some p → p < s.sh.pipes.length := fun p hp => openAt_lt (h.inst p hp)
  have hbytes : ({ s.sh with pipes := s.sh.pipes ++ [⟨0, true⟩] } : Shared).instBytes = s.sh.instBytes := by
    unfold Shared.instBytes
    cases hf : s.sh.fds with
    | none => rfl
    | some p => simp [bytesAt_append, hib p hf]
  have hnofresh : ∀ (j : Nat) (x : GPc), s.gs[j]? = some x → x.owns ≠ some s.sh.pipes.length := by
    intro j x hj ho
    have := openAt_lt (owns_open (h.gwf j x hj) ho).1
    omega
  apply inv_gframe h _ hi
  · exact h.bad
  · intro p hp
    simp only [] at hp ⊢
    rw [openAt_append]; simp [hib p hp, h.inst p hp]
  · exact h.mpcW
  · exact h.mpcD
  · refine ⟨?_, ?_⟩
    · simp [openAt_append]
    · intro e; have := hib _ e; omega
  · intro j x _ hj
    have hw := h.gwf j x hj
    cases x with
    | cas q => simp only [GWf] at hw ⊢; refine ⟨?_, hw.2⟩; rw [openAt_append]; simp [openAt_lt hw.1, hw.1]
    | close q => simp only [GWf] at hw ⊢; refine ⟨?_, hw.2⟩; rw [openAt_append]; simp [openAt_lt hw.1, hw.1]
    | done r => cases r <;> simpa [GWf] using hw
    | _ => simpa [GWf] using hw
  · intro p hp
    simp [GPc.owns] at hp; subst hp
    exact Or.inr fun j x _ hj => hnofresh j x hj
  · intro hp; simp [GPc.phase] at hp
  · intro w hw; simp [GPc.phase] at hw
  · intro j x w _ hj hw
    rw [hbytes]; exact h.tabA j x w hj hw
  · intro _ hall
    rw [hbytes]
    have : wOf ({ s.sh with pipes := s.sh.pipes ++ [⟨0, true⟩] } : Shared) = wOf s.sh := rfl
    rw [this]
    apply h.tabN
    intro j x hj
    by_cases hji : j = i
    · subst hji; rw [hi] at hj; cases hj; rfl
    · exact hall j x hji hj
  · have := h.cnt
    simp only [Shared.nOpen, List.countP_append, GPc.isOwner, GPc.owns] at this ⊢
    simp
    omega
  · intro k hk
    simp only [] at hk ⊢
    rw [bytesAt_append]
    by_cases h1 : k < s.sh.pipes.length
    · simp [h1]; exact h.zero k hk
    · by_cases h2 : k = s.sh.pipes.length <;> simp [h1, h2]

/-- the CAS on p_fds succeeded: the thread's own pipe becomes THE pipe -/
theorem inv_cas {fixed : Bool} {s : State} (h : Inv fixed s) {i p : Nat} (hi : s.gs[i]? = some (.cas p))
    (hf : s.sh.fds = none) :
    Inv fixed ⟨{ s.sh with fds := some p }, s.m1, s.m2, s.gs.set i (.ld p)⟩ := by
  have hg := h.gwf i _ hi
  simp only [GWf] at hg
  have hnoph : ∀ (j : Nat) (x : GPc), s.gs[j]? = some x → x.phase = none := by
    intro j x hj
    cases hx : x.phase with
    | none => rfl
    | some w => have := (phase_some_fds (h.gwf j x hj) hx).1; simp [hf] at this
  apply inv_gframe h _ hi
  · exact h.bad
  · intro q hq; simp only [] at hq ⊢; cases hq; exact hg.1
  · intro q hq; have := h.mpcW q hq; simp [hf] at this
  · intro q hq; have := h.mpcD q hq; simp [hf] at this
  · simp [GWf]
  · intro j x hji hj
    have hw := h.gwf j x hj
    cases x with
    | cas q =>
      simp only [GWf] at hw ⊢
      refine ⟨hw.1, ?_⟩
      intro e; cases e
      exact hji (h.own j i _ _ p hj hi rfl rfl)
    | close q =>
      simp only [GWf] at hw ⊢
      refine ⟨hw.1, ?_⟩
      intro e; cases e
      exact hji (h.own j i _ _ p hj hi rfl rfl)
    | done r =>
      cases r with
      | none => simp [GWf]
      | some q => simp [GWf, hf] at hw
    | ld q => simp [GWf, hf] at hw
    | act q r => simp [GWf, hf] at hw
    | chk q r => simp [GWf, hf] at hw
    | _ => simp [GWf]
  · intro q hq; simp [GPc.owns] at hq
  · intro _; exact Or.inr fun j x _ hj => hnoph j x hj
  · intro w hw
    simp [GPc.phase] at hw; subst hw
    have h0 : ({ s.sh with fds := some p } : Shared).instBytes = 0 := by
      simp [Shared.instBytes]; exact h.zero p (by simp [hf])
    rw [h0]
    have := h.tabN hnoph
    have hw : wOf s.sh = .pre := by simp [wOf, hf]
    rw [hw] at this
    exact allowed_cas this
  · intro j x w _ hj hw; rw [hnoph j x hj] at hw; simp at hw
  · intro hp; simp [GPc.phase] at hp
  · have := h.cnt
    simp only [Shared.nOpen, GPc.isOwner, GPc.owns, hf] at this ⊢
    simp at this ⊢
    omega
  · intro k hk
    simp only [] at hk ⊢
    exact h.zero k (by simp [hf])

/-- the write / drain of the thread that won the CAS -/
theorem inv_act {fixed : Bool} {s : State} (h : Inv fixed s) {i p : Nat} {r : Bool}
    (hi : s.gs[i]? = some (.act p r)) :
    Inv fixed ⟨if r then s.sh.write p else s.sh.drain p, s.m1, s.m2,
      s.gs.set i (if fixed then .chk p r else .done (some p))⟩ := by
  have hf : s.sh.fds = some p := h.gwf i _ hi
  have hop := h.inst p hf
  have hta := h.tabA i _ (.act r) hi rfl
  -- the facts about the new shared memory that do not depend on r
  have key : ∀ sh' : Shared, sh'.fds = s.sh.fds → sh'.bad = s.sh.bad → sh'.raised = s.sh.raised →
      (∀ k, openAt sh'.pipes k = openAt s.sh.pipes k) → sh'.nOpen = s.sh.nOpen →
      (∀ k, k ≠ p → bytesAt sh'.pipes k = bytesAt s.sh.pipes k) →
      (fixed = true → allowed fixed s.m1.pc.tag (.chk r) s.sh.raised sh'.instBytes) →
      (fixed = false → allowed fixed s.m1.pc.tag .fin s.sh.raised sh'.instBytes) →
      Inv fixed ⟨sh', s.m1, s.m2, s.gs.set i (if fixed then .chk p r else .done (some p))⟩ := by
    intro sh' e1 e2 e3 e4 e5 e6 e7 e8
    apply inv_gframe h _ hi
    · rw [e2]; exact h.bad
    · intro q hq; rw [e4]; exact h.inst q (e1 ▸ hq)
    · intro q hq; rw [e1]; exact h.mpcW q hq
    · intro q hq; rw [e1]; exact h.mpcD q hq
    · cases fixed <;> simp [GWf, e1, hf]
    · intro j x _ hj; exact (GWf_congr e1 e4).mpr (h.gwf j x hj)
    · intro q hq; cases fixed <;> simp [GPc.owns] at hq
    · intro _; exact Or.inl (by simp [GPc.phase])
    · intro w hw
      cases hfx : fixed with
      | false => simp [hfx, GPc.phase] at hw
      | true =>
        simp [hfx, GPc.phase] at hw; subst hw
        rw [e3]; exact hfx ▸ e7 hfx
    · intro j x w hji hj hw
      exact absurd (h.uniq j i x _ hj hi (by simp [hw]) (by simp [GPc.phase])) hji
    · intro hp _
      cases hfx : fixed with
      | true => simp [hfx, GPc.phase] at hp
      | false =>
        have : wOf sh' = .fin := by simp [wOf, e1, hf]
        rw [this, e3]; exact hfx ▸ e8 hfx
    · have := h.cnt
      rw [e5, e1]
      cases fixed <;> simp [GPc.isOwner, GPc.owns] at this ⊢ <;> omega
    · intro k hk
      rw [e1] at hk
      have hkp : k ≠ p := fun e => hk (e ▸ hf)
      rw [e6 k hkp]; exact h.zero k hk
  cases r with
  | true =>
    simp only [if_true]
    apply key
    · rw [write_open hop]
    · rw [write_open hop]
    · rw [write_open hop]
    · intro k; rw [write_open hop]; simp only [openAt_set]; split <;> simp_all
    · rw [write_open hop]; exact nOpen_set_open hop
    · intro k hk; rw [write_open hop]; simp [bytesAt_set, hk]
    · intro hfx; subst hfx; rw [instBytes_write hf hop]; exact allowed_act_write_fixed hta
    · intro hfx; subst hfx; rw [instBytes_write hf hop]; exact allowed_act_write_cur hta
  | false =>
    simp only [Bool.false_eq_true, if_false]
    apply key
    · rw [drain_open hop]
    · rw [drain_open hop]
    · rw [drain_open hop]
    · intro k; rw [drain_open hop]; simp only [openAt_set]; split <;> simp_all
    · rw [drain_open hop]; exact nOpen_set_open hop
    · intro k hk; rw [drain_open hop]; simp [bytesAt_set, hk]
    · intro hfx; subst hfx; rw [instBytes_drain hf hop]; exact allowed_act_drain_fixed hta
    · intro hfx; subst hfx; exact absurd hta not_allowed_act_false_cur

/-- the loser of the CAS closes its own pipe -/
theorem inv_close {fixed : Bool} {s : State} (h : Inv fixed s) {i p : Nat} (hi : s.gs[i]? = some (.close p)) :
    Inv fixed ⟨s.sh.closeP p, s.m1, s.m2, s.gs.set i .top⟩ := by
  have hg := h.gwf i _ hi
  simp only [GWf] at hg
  have hop := hg.1
  have hfp : ∀ q, s.sh.fds = some q → q ≠ p := fun q hq e => hg.2 (e ▸ hq)
  have hbytes : (s.sh.closeP p).instBytes = s.sh.instBytes := by
    rw [close_open hop]
    unfold Shared.instBytes
    cases hf : s.sh.fds with
    | none => rfl
    | some q => simp [bytesAt_set, hfp q hf]
  rw [close_open hop] at hbytes ⊢
  apply inv_gframe h _ hi
  · exact h.bad
  · intro q hq
    simp only [] at hq ⊢
    rw [openAt_set]; simp [hfp q hq, h.inst q hq]
  · exact h.mpcW
  · exact h.mpcD
  · simp [GWf]
  · intro j x hji hj
    have hw := h.gwf j x hj
    have hne : ∀ q, x.owns = some q → q ≠ p := by
      intro q hq e; subst e
      exact hji (h.own j i x _ q hj hi hq rfl)
    cases x with
    | cas q =>
      simp only [GWf] at hw ⊢
      refine ⟨?_, hw.2⟩
      rw [openAt_set]; simp [hne q rfl, hw.1]
    | close q =>
      simp only [GWf] at hw ⊢
      refine ⟨?_, hw.2⟩
      rw [openAt_set]; simp [hne q rfl, hw.1]
    | done r => cases r <;> simpa [GWf] using hw
    | _ => simpa [GWf] using hw
  · intro q hq; simp [GPc.owns] at hq
  · intro hp; simp [GPc.phase] at hp
  · intro w hw; simp [GPc.phase] at hw
  · intro j x w _ hj hw
    rw [hbytes]; exact h.tabA j x w hj hw
  · intro _ hall
    rw [hbytes]
    have : wOf ({ s.sh with pipes := s.sh.pipes.set p ⟨bytesAt s.sh.pipes p, false⟩ } : Shared) = wOf s.sh := rfl
    rw [this]
    apply h.tabN
    intro j x hj
    by_cases hji : j = i
    · subst hji; rw [hi] at hj; cases hj; rfl
    · exact hall j x hji hj
  · have := h.cnt
    have hc := nOpen_set_closed (b := bytesAt s.sh.pipes p) hop
    simp only [Shared.nOpen, GPc.isOwner, GPc.owns] at this hc ⊢
    simp at this ⊢
    omega
  · intro k hk
    simp only [] at hk ⊢
    rw [bytesAt_set]
    by_cases hkp : k = p
    · subst hkp; simp [openAt_lt hop]; exact h.zero k hg.2
    · simp [hkp]; exact h.zero k hk

end Nng.Pollable
