/-
  Simulation (10): req0_pipe_close as a whole.
-/
import NngModel.Proofs.ReqJudgeEvI
namespace Nng.ReqJ
open Nng Nng.Proto Nng.Req Nng.ReqSpec

/-- the pipe after nni_aio_close / nni_pipe_close -/
def closedPipe (pp : Pipe) : Pipe := { pp with closed := true, busy := none, armed := false }

theorem mv_pipeClosePrep (s : State) (p : Nat) :
    mv (pipeClosePrep s p) = { mv s with pipe := upd s.pipe p (closedPipe (s.pipe p)), readyPipes := s.readyPipes.erase p } := by
  show _ = mv { s with pipe := upd s.pipe p (closedPipe (s.pipe p)), readyPipes := s.readyPipes.erase p }
  unfold pipeClosePrep closedPipe
  dsimp only
  split
  · rename_i h hb
    have e := mv_tranRelease s h
    have h1 := e
    simp only [mv, MV.mk.injEq] at h1
    obtain ⟨g1, g2, g3, g4, g5, g6, g7, g8, g9, g10, g11, g12, g13, g14, g15, g16⟩ := h1
    split <;> (apply mv_eq_of
               · exact g1
               · show upd (tranRelease s h).pipe p _ = upd s.pipe p _; rw [g2]
               · exact g3
               · show (tranRelease s h).readyPipes.erase p = _; rw [g4]
               · exact g5
               · exact congrFun g6
               · exact g7
               · exact g8
               · exact g9
               · exact g10
               · exact g11
               · exact g12
               · exact g13
               · exact g14
               · exact g15
               · exact g16)
  · split <;> (apply mv_eq_of <;> first | rfl | (intro x; rfl))

/-- the judge's state after it has processed `pclosed p` -/
def closedJ (j : J) (p : Nat) : J :=
  { j with idle := j.idle.filter (· != p), busy := j.busy.filter (· != p),
           ctx := fun x => if x ∈ keys then lostP p j.now (j.ctx x) else j.ctx x }

/-- the judge knows which contexts have their request on connection `p` -/
theorem onPipe_iff {rest : List Ev} {s : State} {j : J} (hM : R rest s j) (hI : Inv2 none none s) (p k : Nat)
    (hp : p < s.npipes) (hc : (s.pipe p).closed = false) :
    onPipe p (j.ctx k) = true ↔ k ∈ (s.pipe p).ctxs := by
  have h0 := hM.rc k (by simp)
  constructor
  · intro h
    unfold onPipe at h
    cases hr : (j.ctx k).req with
    | none => simp [hr] at h
    | some r =>
      simp only [hr, Bool.and_eq_true, Bool.not_eq_true', beq_iff_eq] at h
      obtain ⟨⟨hw, ha⟩, hlp⟩ := h
      obtain ⟨h', hq, hrq⟩ := h0.held hr ha
      have := (hrq.lp (by rw [← hrq.wired]; exact hw)).2
      rw [hlp] at this
      rcases this with a | ⟨a, _⟩
      · exact a
      · rw [hc] at a; cases a
  · intro h
    obtain ⟨hq, hw⟩ := hM.mi.onp k p h
    obtain ⟨h', hq⟩ := Option.isSome_iff_exists.1 hq
    obtain ⟨r, hr, hrq⟩ := h0.req h' hq
    have hlp := (hrq.lp hw).2
    have hlast : r.lastPipe = p := by
      rcases hlp with a | ⟨_, a⟩
      · exact hI.pc_uniq _ p k a h
      · exact absurd h (a p)
    unfold onPipe
    simp [hr, hrq.wired, hw, hrq.ans, hlast]

theorem lostC_of_onPipe {now : Nat} {cj : CJ} {p : Nat} (h : onPipe p cj = true) :
    ∃ r, cj.req = some r ∧ r.wired = true ∧ r.answered = false := by
  unfold onPipe at h
  cases hr : cj.req with
  | none => simp [hr] at h
  | some r =>
    simp only [hr, Bool.and_eq_true, Bool.not_eq_true', beq_iff_eq] at h
    exact ⟨r, rfl, h.1.1, h.1.2⟩

/-- after nni_aio_close of the pipe's aios and before the loop over its contexts -/
theorem closePrep_M {rest : List Ev} {s : State} {j : J} (hM : R rest s j) (hI : Inv2 none none s) (p : Nat)
    (hp : p < s.npipes) (hc : (s.pipe p).closed = false) :
    M (s.pipe p).ctxs rest (pipeClosePrep s p) (closedJ j p) := by
  refine M.congr (s := { s with pipe := upd s.pipe p (closedPipe (s.pipe p)), readyPipes := s.readyPipes.erase p })
    (mv_pipeClosePrep s p) ?_
  have hcx : ∀ q, ((upd s.pipe p (closedPipe (s.pipe p))) q).ctxs = (s.pipe q).ctxs := by
    intro q; simp only [upd]; split
    · rename_i e; rw [e]; rfl
    · rfl
  have hcl : ∀ q, q ≠ p → ((upd s.pipe p (closedPipe (s.pipe p))) q).closed = (s.pipe q).closed := by
    intro q hq; rw [upd_other _ _ _ _ hq]
  have hbz : ∀ q, q ≠ p → ((upd s.pipe p (closedPipe (s.pipe p))) q).busy = (s.pipe q).busy := by
    intro q hq; rw [upd_other _ _ _ _ hq]
  have hnd : s.readyPipes.Nodup := hI.ready_nodup
  have hm := hM.mi
  have hfr : ∀ x cj, RCx s j x cj →
      RCx { s with pipe := upd s.pipe p (closedPipe (s.pipe p)), readyPipes := s.readyPipes.erase p } (closedJ j p) x cj := by
    intro x cj hx
    refine RCx.frame (s := s) (j := j) rfl (fun _ _ => rfl) (fun _ _ _ hi => hi) (Nat.le_refl _)
      (fun q => by show x ∈ ((upd s.pipe p (closedPipe (s.pipe p))) q).ctxs ↔ _; rw [hcx]) ?_ Iff.rfl (Nat.le_refl _)
      (Or.inl rfl) rfl rfl hx
    intro q _ hq
    show ((upd s.pipe p (closedPipe (s.pipe p))) q).closed = true
    by_cases e : q = p
    · subst e; rw [upd_same]; rfl
    · rw [hcl q e]; exact hq
  refine ⟨⟨hm.biglive, hm.dead, hm.park, hm.creset, hm.rep, ?_, hm.wir, hm.unw, hm.sa, hm.rid, hm.al_nodup, hm.al_le, hm.fresh,
    hm.inj, hm.bound, hm.open_, hm.notgone, hm.notclosed⟩, ?_, fun x hx => ?_, fun x hx => ?_⟩
  · intro k q hk
    have hk' : k ∈ ((upd s.pipe p (closedPipe (s.pipe p))) q).ctxs := hk
    rw [hcx] at hk'
    exact hm.onp k q hk'
  · have hg := hM.g
    refine ⟨hg.now, ?_, ?_, hg.sock, hg.closed, hg.seen, hg.tick, hg.tkle, hg.tknv, hg.nosend, hg.stab⟩
    · intro q
      show q ∈ j.idle.filter (· != p) ↔ q ∈ s.readyPipes.erase p
      rw [hnd.mem_erase_iff, List.mem_filter, hg.idle q]
      simp [and_comm]
    · intro q
      show q ∈ j.busy.filter (· != p) ↔
        (q < s.npipes ∧ ((upd s.pipe p (closedPipe (s.pipe p))) q).closed = false ∧ ((upd s.pipe p (closedPipe (s.pipe p))) q).busy.isSome = true)
      rw [List.mem_filter, hg.busy q]
      by_cases e : q = p
      · subst e; simp [closedPipe]
      · rw [hcl q e, hbz q e]; simp [e]
  · -- a context that is not on the pipe's list: the judge did not touch its record
    have hnot : onPipe p (j.ctx x) = false := by
      cases h : onPipe p (j.ctx x) with
      | false => rfl
      | true => exact absurd ((onPipe_iff hM hI p x hp hc).1 h) hx
    have : (closedJ j p).ctx x = j.ctx x := by
      show (if x ∈ keys then lostP p j.now (j.ctx x) else j.ctx x) = j.ctx x
      split
      · unfold lostP; rw [hnot]; rfl
      · rfl
    rw [this]
    exact hfr x _ (hM.rc x (by simp))
  · have hon := (onPipe_iff hM hI p x hp hc).2 hx
    have hkey : x ∈ keys := hm.key (hm.onp x p hx).1
    refine ⟨j.ctx x, hfr x _ (hM.rc x (by simp)), ?_, lostC_of_onPipe (now := 0) hon⟩
    show (if x ∈ keys then lostP p j.now (j.ctx x) else j.ctx x) = lostC s.now (j.ctx x)
    rw [if_pos hkey]
    unfold lostP
    rw [if_pos hon, hM.g.now]

theorem lostP_recvWait (p now : Nat) (cj : CJ) (a : Nat) (h : (lostP p now cj).recvWait = some a) : cj.recvWait = some a := by
  unfold lostP at h
  split at h
  · unfold lostC at h
    split at h
    · split at h
      · split at h <;> first | exact h | simp at h
      · exact h
    · exact h
  · exact h

theorem lostP_req (p now : Nat) (cj : CJ) (r : RJ) (h : (lostP p now cj).req = some r) :
    ∃ r0, cj.req = some r0 ∧ r.wired = r0.wired ∧ r.sendAio = r0.sendAio ∧ r.answered = r0.answered := by
  unfold lostP at h
  split at h
  · unfold lostC at h
    split at h
    · rename_i r0 hr0
      split at h
      · split at h <;> simp at h
      · simp only [Option.some.injEq] at h
        subst h
        exact ⟨r0, hr0, rfl, rfl, rfl⟩
    · rename_i hr0; rw [hr0] at h; cases h
  · exact ⟨r, h, rfl, rfl, rfl⟩

theorem foldl_fix {α β : Type} (f : α → β → α) (l : List β) (a : α) (h : ∀ x, x ∈ l → f a x = a) : l.foldl f a = a := by
  induction l with
  | nil => rfl
  | cons x t ih => rw [List.foldl_cons, h x (by simp), ih (fun y hy => h y (by simp [hy]))]

/-- an ECONNRESET completion of a receive whose context lost its connection changes nothing in the judge's books
    (the loss was recorded when `pclosed` was processed) -/
theorem reset_noop {rest : List Ev} {s : State} {j : J} (hM : R rest s j) (hI : Inv2 none none s) (p : Nat)
    (hp : p < s.npipes) (hc : (s.pipe p).closed = false) (o : List Out)
    (ho : ∀ x, x ∈ o → isCl x = true)
    (hdone : ∀ a mb, Out.done a Err.econnreset none mb ∈ o →
      ∃ k, k ∈ (s.pipe p).ctxs ∧ (s.ctx k).retry ≤ 0 ∧ ∃ dl, (s.ctx k).recvAio = some ⟨a, dl⟩) :
    phReset none false o (closedJ j p) = closedJ j p := by
  unfold phReset
  apply foldl_fix
  intro x hx
  rcases isCl_shape (ho x hx) with ⟨q, m, rfl⟩ | ⟨a, rfl⟩ | ⟨a, rfl⟩
  · rfl
  · simp [Err.econnreset]
  · obtain ⟨k, hk, hr, dl, hra⟩ := hdone a false hx
    have hpk : aioOf s k false = some a := by rw [aioOf_recv hra]
    have hlive : (s.ctx k).live = true := by
      cases hl : (s.ctx k).live with
      | true => rfl
      | false => have := (hM.mi.dead k hl).2.1; rw [hra] at this; cases this
    -- no record of the judge mentions the aio any more
    have hfree : ∀ x, x ∈ keys → ((closedJ j p).ctx x).recvWait ≠ some a ∧
        ∀ r, ((closedJ j p).ctx x).req = some r → r.wired = false → r.sendAio ≠ a := by
      intro x hxk
      have hcx : (closedJ j p).ctx x = lostP p j.now (j.ctx x) := by
        show (if x ∈ keys then _ else _) = _; rw [if_pos hxk]
      rw [hcx]
      have h0 := hM.rc x (by simp)
      constructor
      · intro e
        have e0 := lostP_recvWait _ _ _ _ e
        have hx' : aioOf s x false = some a := by
          unfold aioOf; simp only [Bool.false_eq_true, if_false]; rw [← h0.rw]; exact e0
        have hxk' : x = k := (hM.mi.park x false k false a hx' hpk).1
        subst hxk'
        have hon := (onPipe_iff hM hI p x hp hc).2 hk
        obtain ⟨r, hr0, _, _⟩ := lostC_of_onPipe (now := 0) hon
        have hret : (j.ctx x).retry ≤ 0 := by rw [h0.retry hlive]; exact hr
        unfold lostP lostC at e
        rw [if_pos hon] at e
        simp only [hr0, hret, if_true, e0] at e
        cases e
      · intro r hr0 hw hsa
        obtain ⟨r0, hr1, e1, e2, e3⟩ := lostP_req _ _ _ _ hr0
        rw [e1] at hw; rw [e2] at hsa
        cases ha : r0.answered with
        | true =>
          cases hp' : (s.ctx x).repMsg with
          | some bb =>
            obtain ⟨r', a1, _, a3⟩ := h0.ansd (by rw [hp']; rfl)
            rw [hr1] at a1; cases a1
            rw [hw] at a3; cases a3
          | none =>
            cases hq : (s.ctx x).reqMsg with
            | none => rw [h0.none hq hp'] at hr1; cases hr1
            | some h' =>
              obtain ⟨r', a1, a2⟩ := h0.req h' hq
              rw [hr1] at a1; cases a1
              rw [a2.ans] at ha; cases ha
        | false =>
          obtain ⟨h', hq, hrq⟩ := h0.held hr1 ha
          obtain ⟨dl', hs⟩ := hrq.unsent (by rw [← hrq.wired]; exact hw)
          have : aioOf s x true = some a := by unfold aioOf; simp [hs, hsa]
          have := (hM.mi.park x true k false a this hpk).2
          cases this
    have hany : (keys.any fun k' => ((closedJ j p).ctx k').recvWait == some a) = false := by
      rw [List.any_eq_false]
      intro x hxk
      simpa using (hfree x hxk).1
    have hold : oldDone (closedJ j p) a Err.econnreset = closedJ j p := by
      rw [oldDone_eq]
      have : (fun x => if x ∈ keys then oldC a ((closedJ j p).ctx x) else (closedJ j p).ctx x) = (closedJ j p).ctx := by
        funext x
        split
        · rename_i hxk
          exact oldC_free a _ (hfree x hxk).1 (hfree x hxk).2
        · rfl
      rw [this]
    simp only [bne_iff_ne, ne_eq, reduceCtorEq, not_false_eq_true, decide_true, beq_self_eq_true, Bool.and_self, if_true, hany,
      Bool.false_and, Bool.false_eq_true, if_false, hold]
    split <;> rfl

/-- req0_pipe_close for an event that prints `rv 0` before it -/
theorem pipeClose_sim {rest : List Ev} {s : State} {j : J} (ev : Ev) (hM : R rest s j) (hI : Inv2 none none s) (hD : Dr s)
    (p : Nat) (hp : p < s.npipes) (hc : (s.pipe p).closed = false)
    (he : evAioOf ev = none) (hev : ∀ outs ok, phEv j ev outs ok = (j, [])) (hov : ∀ j', phOver ev j' = j') :
    R rest (pipeClose s p).1 (ReqSpec.step j ev ([.rv 0] ++ (pipeClose s p).2)) ∧
    (ReqSpec.step j ev ([.rv 0] ++ (pipeClose s p).2)).err04 = j.err04 ∧
    (ReqSpec.step j ev ([.rv 0] ++ (pipeClose s p).2)).err12 = j.err12 := by
  have hD' := dr_pipeClose s p hD
  unfold pipeClose at hD' ⊢
  rw [if_neg (by simp [hc])] at hD' ⊢
  dsimp only at hD' ⊢
  have hmv := mv_pipeClosePrep s p
  have hctxs : ((pipeClosePrep s p).pipe p).ctxs = (s.pipe p).ctxs := by
    have : (pipeClosePrep s p).pipe = upd s.pipe p (closedPipe (s.pipe p)) := congrArg MV.pipe hmv
    rw [this, upd_same]; rfl
  have hctx : (pipeClosePrep s p).ctx = s.ctx := congrArg MV.ctx hmv
  have hMp := closePrep_M hM hI p hp hc
  have hI1 := inv2_pipeClosePrep p hI
  have hdis : (pipeClosePrep s p).readyPipes = [] ∨ ∀ x, x ∈ (s.pipe p).ctxs → x ∉ (pipeClosePrep s p).sendQueue := by
    have h1 : (pipeClosePrep s p).readyPipes = s.readyPipes.erase p := congrArg MV.readyPipes hmv
    have h2 : (pipeClosePrep s p).sendQueue = s.sendQueue := congrArg MV.sendQueue hmv
    rcases hD with a | a
    · right; intro x _; rw [h2, a]; simp
    · left; rw [h1, a]; rfl
  obtain ⟨hfin, he04, he12, _, _, hcl, hdn⟩ := closeLoop_M (rest := rest) p (s.pipe p).ctxs
    ((pipeClosePrep s p).pipe p).ctxs.length (pipeClosePrep s p) (closedJ j p) hctxs (by rw [hctxs]; exact Nat.le_refl _)
    hI1 hMp hdis
  generalize hcL : closeLoop ((pipeClosePrep s p).pipe p).ctxs.length (pipeClosePrep s p) p = cl at hfin he04 he12 hcl hdn hD' ⊢
  have hassoc : [Out.rv 0] ++ (cl.2 ++ [Out.pclosed p]) = [Out.rv 0] ++ cl.2 ++ [Out.pclosed p] := by simp
  rw [hassoc, step_pclosed j ev cl.2 p hM.g.closed hcl he hev hov]
  -- the judge's handling of `pclosed`
  have hok : ∀ k, k ∈ keys → lostOk ([Out.rv 0] ++ cl.2 ++ [Out.pclosed p]) false p (j.ctx k) := by
    intro k _ hon hret a hrw
    have hk := (onPipe_iff hM hI p k hp hc).1 hon
    have h0 := hM.rc k (by simp)
    obtain ⟨hq, _⟩ := hM.mi.onp k p hk
    have hlive : (s.ctx k).live = true := by
      cases hl : (s.ctx k).live with
      | true => rfl
      | false => have := (hM.mi.dead k hl).2.2.1; rw [this] at hq; cases hq
    have hret' : (s.ctx k).retry ≤ 0 := by rw [← h0.retry hlive]; exact hret
    cases hra : (s.ctx k).recvAio with
    | none => rw [h0.rw, hra] at hrw; cases hrw
    | some ua =>
      have hua : ua.aio = a := by rw [h0.rw, hra] at hrw; simpa using hrw
      have hin : Out.done a Err.econnreset none false ∈ cl.2 :=
        (hdn a false).2 ⟨rfl, k, hk, by rw [hctx]; exact hret', ua.deadline, by rw [hctx, hra, ← hua]⟩
      simp only [Bool.or_false]
      unfold hasDone
      rw [List.any_eq_true]
      exact ⟨Out.done a Err.econnreset none false, by simp [hin], by simp⟩
  have hcJ : onPclosed ([Out.rv 0] ++ cl.2 ++ [Out.pclosed p]) false j p = closedJ j p := onPclosed_eq _ false j p hok
  rw [hcJ]
  have hres : phReset none false cl.2 (closedJ j p) = closedJ j p := by
    apply reset_noop hM hI p hp hc cl.2 hcl
    intro a mb hin
    obtain ⟨_, k, hk, hr, dl, hra⟩ := (hdn a mb).1 hin
    rw [hctx] at hr hra
    exact ⟨k, hk, hr, dl, hra⟩
  rw [hres, quiescent_R hfin hD']
  exact ⟨hfin, he04, he12⟩

end Nng.ReqJ
