/-
  SURVEYOR judge on single outputs: context lookup after the judge's updates, the failure of a pending
  receive (`failOne`, `survRecvDone_fail`), a whole batch of failures (`failBatch`), a delivery
  (`survRecvDone_ok_known`, `survRecvDone_ok_bind`).  Judge-side only; no model state here.
-/
import NngModel.Proofs.SurvJudgeSent
namespace Nng.SurvJudge
open Nng Nng.Proto Nng.SurveySpec

/-! ### lookup by key -/

theorem find_key_map {α : Type} (key : α → Option Nat) (l : List α) (c : α) (k : Option Nat) :
    (l.map fun q => if key q == key c then c else q).find? (fun q => key q == k) =
      if k = key c then (l.find? (fun q => key q == k)).map (fun _ => c) else l.find? (fun q => key q == k) := by
  induction l with
  | nil => simp
  | cons x t ih =>
    simp only [List.map_cons, List.find?_cons]
    by_cases hx : (key x == key c) = true
    · have hxe : key x = key c := beq_iff_eq.mp hx
      simp only [hx, if_true]
      by_cases hk : k = key c
      · subst hk
        simp [hxe]
      · have h1 : (key c == k) = false := by simp; exact fun h => hk h.symm
        have h2 : (key x == k) = false := by rw [hxe]; exact h1
        rw [h1, h2, ih, if_neg hk]
    · simp only [hx, Bool.false_eq_true, if_false]
      by_cases hxk : (key x == k) = true
      · have : k ≠ key c := by
          intro h; subst h; exact hx hxk
        simp [hxk, this]
      · simp only [hxk]
        rw [ih]

theorem find_key_filter_ne {α : Type} (key : α → Option Nat) (l : List α) (k0 k : Option Nat) :
    (l.filter fun q => key q != k0).find? (fun q => key q == k) =
      if k = k0 then none else l.find? (fun q => key q == k) := by
  induction l with
  | nil => simp
  | cons x t ih =>
    by_cases hx : key x = k0
    · have : (key x != k0) = false := by simp [hx]
      rw [List.filter_cons, if_neg (by simp [this]), ih]
      by_cases hk : k = k0
      · simp [hk]
      · have : (key x == k) = false := by rw [hx]; simp; exact fun h => hk h.symm
        simp [hk, this]
    · have : (key x != k0) = true := by simp [hx]
      rw [List.filter_cons, if_pos this, List.find?_cons, List.find?_cons, ih]
      by_cases hk : k = k0
      · subst hk
        have : (key x == k) = false := by simp [hx]
        simp [this]
      · simp [hk]

theorem getCtx_key {j : SurvJ} {k : Option Nat} {c : CtxJ} (h : j.getCtx k = some c) : c.key = k := by
  have := List.find?_some h
  simpa using this

theorem getCtx_setCtx (j : SurvJ) (c : CtxJ) (k : Option Nat) :
    (j.setCtx c).getCtx k = if k = c.key then (j.getCtx k).map (fun _ => c) else j.getCtx k :=
  find_key_map (fun q : CtxJ => q.key) j.ctxs c k

@[simp] theorem setCtx_err (j : SurvJ) (c : CtxJ) : (j.setCtx c).err = j.err := rfl
@[simp] theorem setCtx_pend (j : SurvJ) (c : CtxJ) : (j.setCtx c).pend = j.pend := rfl
@[simp] theorem setCtx_sent (j : SurvJ) (c : CtxJ) : (j.setCtx c).sent = j.sent := rfl
@[simp] theorem setCtx_arrivals (j : SurvJ) (c : CtxJ) : (j.setCtx c).arrivals = j.arrivals := rfl
@[simp] theorem setCtx_nseq (j : SurvJ) (c : CtxJ) : (j.setCtx c).nseq = j.nseq := rfl
@[simp] theorem setCtx_now (j : SurvJ) (c : CtxJ) : (j.setCtx c).now = j.now := rfl
@[simp] theorem setCtx_closed (j : SurvJ) (c : CtxJ) : (j.setCtx c).closed = j.closed := rfl
@[simp] theorem setCtx_lastPoll (j : SurvJ) (c : CtxJ) : (j.setCtx c).lastPoll = j.lastPoll := rfl

@[simp] theorem bind_err (j : SurvJ) (b i : Bytes) : (j.bind b i).err = j.err := rfl
@[simp] theorem bind_pend (j : SurvJ) (b i : Bytes) : (j.bind b i).pend = j.pend := rfl
@[simp] theorem bind_ctxs (j : SurvJ) (b i : Bytes) : (j.bind b i).ctxs = j.ctxs := rfl
@[simp] theorem bind_arrivals (j : SurvJ) (b i : Bytes) : (j.bind b i).arrivals = j.arrivals := rfl
@[simp] theorem bind_nseq (j : SurvJ) (b i : Bytes) : (j.bind b i).nseq = j.nseq := rfl
@[simp] theorem bind_now (j : SurvJ) (b i : Bytes) : (j.bind b i).now = j.now := rfl
@[simp] theorem bind_closed (j : SurvJ) (b i : Bytes) : (j.bind b i).closed = j.closed := rfl
@[simp] theorem bind_lastPoll (j : SurvJ) (b i : Bytes) : (j.bind b i).lastPoll = j.lastPoll := rfl
theorem bind_getCtx (j : SurvJ) (b i : Bytes) (k : Option Nat) : (j.bind b i).getCtx k = j.getCtx k := rfl

/-! ### the failure of a pending receive -/

def markDead (c : CtxJ) : CtxJ := { c with survey := c.survey.map fun sv => { sv with dead := true } }

theorem markDead_idem (c : CtxJ) : markDead (markDead c) = markDead c := by
  unfold markDead
  cases c.survey <;> rfl

@[simp] theorem markDead_key (c : CtxJ) : (markDead c).key = c.key := rfl
@[simp] theorem markDead_surveyTime (c : CtxJ) : (markDead c).surveyTime = c.surveyTime := rfl

def newSurvey (ev : Ev) (k : Option Nat) : Bool :=
  match ev with | .send k' _ _ _ => k' == k | _ => false

def abortedB (ev : Ev) (pr : PendRecv) (rv : Nat) : Bool :=
  match ev with | .abort a' rv' => a' == pr.aio && rv' == rv | _ => false

/-- does the failure of `pr` abandon its context's survey -/
def markB (ev : Ev) (pr : PendRecv) : Bool := !pr.fresh && !newSurvey ev pr.ctx

/-- the judge state after receive `pr` has failed (with a result the judge has no objection to) -/
def failOne (ev : Ev) (j : SurvJ) (pr : PendRecv) : SurvJ :=
  let j := { j with pend := j.pend.filter (·.aio != pr.aio) }
  match j.getCtx pr.ctx with
  | none => j
  | some c =>
    if markB ev pr then
      match c.survey with
      | some sv => j.setCtx { c with survey := some { sv with dead := true } }
      | none => j
    else j

/-- the clauses the judge applies to a failed receive (copied from `survRecvDone`) -/
def recvClauses (j : SurvJ) (ev : Ev) (pr : PendRecv) (rv : Nat) (c : CtxJ) : SurvJ :=
  if abortedB ev pr rv then j
  else if rv == Err.etimedout && !pr.zero then
    match effDeadline j pr with
    | some d => if d < (j.now : Int) then j else j.fail s!"receive {pr.aio} timed out before its deadline"
    | none => j.fail s!"receive {pr.aio} timed out although nothing limits it"
  else if rv == Err.eagain && !pr.zero then j.fail s!"receive {pr.aio} returned NNG_EAGAIN although it may wait"
  else if rv == Err.estate && !pr.fresh then j.fail s!"parked receive {pr.aio} failed with NNG_ESTATE"
  else if rv == Err.estate && isLive j.now c then j.fail s!"receive {pr.aio} failed with NNG_ESTATE although the survey is live"
  else j

def recvMark (j : SurvJ) (ev : Ev) (pr : PendRecv) (c : CtxJ) : SurvJ :=
  if markB ev pr then
    match c.survey with
    | some sv => j.setCtx { c with survey := some { sv with dead := true } }
    | none => j
  else j

theorem survRecvDone_fail_shape (j : SurvJ) (ev : Ev) (pr : PendRecv) (n : Nat) :
    survRecvDone j ev pr (n + 1) none =
      match SurvJ.getCtx { j with pend := j.pend.filter (·.aio != pr.aio) } pr.ctx with
      | none => { j with pend := j.pend.filter (·.aio != pr.aio) }
      | some c => recvMark (recvClauses { j with pend := j.pend.filter (·.aio != pr.aio) } ev pr (n + 1) c) ev pr c := by
  unfold survRecvDone
  cases ev <;> rfl

theorem recvClauses_ok {j : SurvJ} {ev : Ev} {pr : PendRecv} {rv : Nat} {c : CtxJ}
    (h5 : abortedB ev pr rv = false → rv = Err.etimedout → pr.zero = false →
      ∃ d, effDeadline j pr = some d ∧ d < (j.now : Int))
    (h8 : abortedB ev pr rv = false → rv = Err.eagain → pr.zero = true)
    (h11 : abortedB ev pr rv = false → rv = Err.estate → pr.fresh = true ∧ isLive j.now c = false) :
    recvClauses j ev pr rv c = j := by
  unfold recvClauses
  by_cases ha : abortedB ev pr rv = true
  · rw [if_pos ha]
  · have ha' : abortedB ev pr rv = false := by simpa using ha
    rw [if_neg ha]
    by_cases c5 : (rv == Err.etimedout && !pr.zero) = true
    · rw [if_pos c5]
      simp only [Bool.and_eq_true, beq_iff_eq, Bool.not_eq_true'] at c5
      obtain ⟨d, hd1, hd2⟩ := h5 ha' c5.1 c5.2
      rw [hd1]
      simp only
      rw [if_pos hd2]
    · rw [if_neg c5]
      by_cases c8 : (rv == Err.eagain && !pr.zero) = true
      · simp only [Bool.and_eq_true, beq_iff_eq, Bool.not_eq_true'] at c8
        have := h8 ha' c8.1
        rw [this] at c8; simp at c8
      · rw [if_neg c8]
        by_cases c11 : (rv == Err.estate && !pr.fresh) = true
        · simp only [Bool.and_eq_true, beq_iff_eq, Bool.not_eq_true'] at c11
          have := (h11 ha' c11.1).1
          rw [this] at c11; simp at c11
        · rw [if_neg c11]
          by_cases c12 : (rv == Err.estate && isLive j.now c) = true
          · simp only [Bool.and_eq_true, beq_iff_eq] at c12
            have := (h11 ha' c12.1).2
            rw [this] at c12; simp at c12
          · rw [if_neg c12]

theorem survRecvDone_fail {j : SurvJ} {ev : Ev} {pr : PendRecv} {rv : Nat} (hrv : rv ≠ 0)
    (h5 : abortedB ev pr rv = false → rv = Err.etimedout → pr.zero = false →
      ∃ d, effDeadline j pr = some d ∧ d < (j.now : Int))
    (h8 : abortedB ev pr rv = false → rv = Err.eagain → pr.zero = true)
    (h11 : abortedB ev pr rv = false → rv = Err.estate →
      pr.fresh = true ∧ ∀ c, j.getCtx pr.ctx = some c → isLive j.now c = false) :
    survRecvDone j ev pr rv none = failOne ev j pr := by
  obtain ⟨n, rfl⟩ : ∃ n, rv = n + 1 := ⟨rv - 1, by omega⟩
  rw [survRecvDone_fail_shape]
  unfold failOne
  simp only
  have hgc : SurvJ.getCtx { j with pend := j.pend.filter (·.aio != pr.aio) } pr.ctx = j.getCtx pr.ctx := rfl
  cases hg : j.getCtx pr.ctx with
  | none => rw [hgc, hg]
  | some c =>
    rw [hgc, hg]
    simp only
    rw [recvClauses_ok (j := { j with pend := j.pend.filter (·.aio != pr.aio) }) h5 h8
      (fun a b => ⟨(h11 a b).1, (h11 a b).2 c hg⟩)]
    rfl

theorem failOne_err (ev : Ev) (j : SurvJ) (pr : PendRecv) : (failOne ev j pr).err = j.err := by
  unfold failOne; simp only; split
  · rfl
  · split
    · split <;> rfl
    · rfl

theorem failOne_pend (ev : Ev) (j : SurvJ) (pr : PendRecv) :
    (failOne ev j pr).pend = j.pend.filter (·.aio != pr.aio) := by
  unfold failOne; simp only; split
  · rfl
  · split
    · split <;> rfl
    · rfl

theorem failOne_fields (ev : Ev) (j : SurvJ) (pr : PendRecv) :
    (failOne ev j pr).sent = j.sent ∧ (failOne ev j pr).arrivals = j.arrivals ∧ (failOne ev j pr).nseq = j.nseq ∧
    (failOne ev j pr).now = j.now ∧ (failOne ev j pr).closed = j.closed ∧ (failOne ev j pr).lastPoll = j.lastPoll := by
  unfold failOne; simp only; split
  · exact ⟨rfl, rfl, rfl, rfl, rfl, rfl⟩
  · split
    · split <;> exact ⟨rfl, rfl, rfl, rfl, rfl, rfl⟩
    · exact ⟨rfl, rfl, rfl, rfl, rfl, rfl⟩

theorem failOne_getCtx (ev : Ev) (j : SurvJ) (pr : PendRecv) (k : Option Nat) :
    (failOne ev j pr).getCtx k =
      if k = pr.ctx ∧ markB ev pr = true then (j.getCtx k).map markDead else j.getCtx k := by
  unfold failOne
  simp only
  have hgc : SurvJ.getCtx { j with pend := j.pend.filter (·.aio != pr.aio) } pr.ctx = j.getCtx pr.ctx := rfl
  rw [hgc]
  cases hg : j.getCtx pr.ctx with
  | none =>
    simp only
    by_cases hk : k = pr.ctx ∧ markB ev pr = true
    · rw [if_pos hk, hk.1]
      show j.getCtx pr.ctx = _
      rw [hg]; rfl
    · rw [if_neg hk]; rfl
  | some c =>
    simp only
    by_cases hm : markB ev pr = true
    · rw [if_pos hm]
      cases hs : c.survey with
      | none =>
        simp only
        by_cases hk : k = pr.ctx
        · rw [if_pos ⟨hk, hm⟩, hk]
          show j.getCtx pr.ctx = _
          rw [hg]
          simp only [Option.map_some, Option.some.injEq]
          unfold markDead; rw [hs]
          cases c; simp_all
        · rw [if_neg (fun h => hk h.1)]; rfl
      | some sv =>
        simp only
        rw [getCtx_setCtx]
        have hck : c.key = pr.ctx := getCtx_key hg
        simp only [hck]
        by_cases hk : k = pr.ctx
        · rw [if_pos hk, if_pos ⟨hk, hm⟩, hk]
          show (j.getCtx pr.ctx).map _ = _
          rw [hg]
          simp only [Option.map_some, Option.some.injEq]
          unfold markDead; rw [hs, ← hck]; rfl
        · rw [if_neg hk, if_neg (fun h => hk h.1)]; rfl
    · rw [if_neg hm, if_neg (fun h => hm h.2)]; rfl

theorem effDeadline_congr {j j' : SurvJ} {p : PendRecv}
    (h : (j'.getCtx p.ctx).bind (fun c => c.survey.map (·.deadline)) = (j.getCtx p.ctx).bind (fun c => c.survey.map (·.deadline))) :
    effDeadline j' p = effDeadline j p := by
  unfold effDeadline
  simp only [h]

theorem deadline_markDead (o : Option CtxJ) :
    (o.map markDead).bind (fun c => c.survey.map (·.deadline)) = o.bind (fun c => c.survey.map (·.deadline)) := by
  cases o with
  | none => rfl
  | some c =>
    simp only [Option.map_some, Option.bind_some]
    unfold markDead
    cases c.survey <;> rfl

theorem effDeadline_failOne (ev : Ev) (j : SurvJ) (pr p : PendRecv) :
    effDeadline (failOne ev j pr) p = effDeadline j p := by
  apply effDeadline_congr
  rw [failOne_getCtx]
  split
  · exact deadline_markDead _
  · rfl

/-! ### `survOut` on single outputs -/

theorem survOut_done_recv {ev : Ev} {sa : Option Nat} {j : SurvJ} {a rv : Nat} {msg : Option WMsg} {b : Bool}
    {pr : PendRecv} (hsa : sa ≠ some a) (hf : j.pend.find? (·.aio == a) = some pr) :
    survOut ev sa j (.done a rv msg b) = survRecvDone j ev pr rv msg := by
  unfold survOut
  simp only
  rw [if_neg (by simpa using hsa), hf]

theorem survOut_done_send (ev : Ev) (j : SurvJ) (a rv : Nat) (msg : Option WMsg) (b : Bool) :
    survOut ev (some a) j (.done a rv msg b) = j := by
  unfold survOut; simp

theorem survOut_rv (ev : Ev) (sa : Option Nat) (j : SurvJ) (n : Int) : survOut ev sa j (.rv n) = j := rfl
theorem survOut_rv2 (ev : Ev) (sa : Option Nat) (j : SurvJ) (n v : Int) : survOut ev sa j (.rv2 n v) = j := rfl
theorem survOut_pipe (ev : Ev) (sa : Option Nat) (j : SurvJ) (n : Int) : survOut ev sa j (.pipe n) = j := rfl
theorem survOut_parm (ev : Ev) (sa : Option Nat) (j : SurvJ) (p : Nat) : survOut ev sa j (.parm p) = j := rfl
theorem survOut_pclosed (ev : Ev) (sa : Option Nat) (j : SurvJ) (p : Nat) : survOut ev sa j (.pclosed p) = j := rfl
theorem survOut_poll (ev : Ev) (sa : Option Nat) (j : SurvJ) (r w : Option Bool) : survOut ev sa j (.poll r w) = j := rfl
theorem survOut_psend (ev : Ev) (sa : Option Nat) (j : SurvJ) (p : Nat) (m : WMsg) :
    survOut ev sa j (.psend p m) = survWire j p m := rfl

/-! ### a batch of failures -/

/-- result of a batch of failing receives with aios `L` -/
structure FailRes (ev : Ev) (j j' : SurvJ) (L : List Nat) : Prop where
  err : j'.err = none
  pend : j'.pend = j.pend.filter (fun pr => !L.contains pr.aio)
  sent : j'.sent = j.sent
  arrivals : j'.arrivals = j.arrivals
  nseq : j'.nseq = j.nseq
  now : j'.now = j.now
  closed : j'.closed = j.closed
  lastPoll : j'.lastPoll = j.lastPoll
  keep : ∀ k, (∀ pr ∈ j.pend, pr.aio ∈ L → pr.ctx = k → markB ev pr = false) → j'.getCtx k = j.getCtx k
  kill : ∀ k, (∃ pr ∈ j.pend, pr.aio ∈ L ∧ pr.ctx = k ∧ markB ev pr = true) → j'.getCtx k = (j.getCtx k).map markDead

theorem find_aio_of_mem {pend : List PendRecv} {pr : PendRecv} (hn : (pend.map (·.aio)).Nodup) (hm : pr ∈ pend) :
    pend.find? (·.aio == pr.aio) = some pr := by
  induction pend with
  | nil => cases hm
  | cons x t ih =>
    simp only [List.map_cons, List.nodup_cons, List.mem_map, not_exists, not_and] at hn
    rcases List.mem_cons.mp hm with rfl | hm
    · simp
    · have : ¬ (x.aio == pr.aio) = true := by
        intro he; exact hn.1 pr hm (beq_iff_eq.mp he).symm
      rw [List.find?_cons]
      simp only [this]
      exact ih hn.2 hm

theorem mem_unique_aio {pend : List PendRecv} {p1 p2 : PendRecv} (hn : (pend.map (·.aio)).Nodup)
    (h1 : p1 ∈ pend) (h2 : p2 ∈ pend) (he : p1.aio = p2.aio) : p1 = p2 := by
  have a := find_aio_of_mem hn h1
  have b := find_aio_of_mem hn h2
  rw [he] at a
  rw [a] at b
  exact Option.some.inj b

theorem failBatch (ev : Ev) (sa : Option Nat) (rv : Nat) (hrv : rv ≠ 0) :
    ∀ (L : List Nat) (j : SurvJ), j.err = none → L.Nodup → (j.pend.map (·.aio)).Nodup →
    (∀ a ∈ L, sa ≠ some a ∧ ∃ pr ∈ j.pend, pr.aio = a) →
    (∀ pr ∈ j.pend, pr.aio ∈ L → abortedB ev pr rv = true ∨
      (rv ≠ Err.eagain ∧ rv ≠ Err.estate ∧
        (rv = Err.etimedout → pr.zero = false → ∃ d, effDeadline j pr = some d ∧ d < (j.now : Int)))) →
    FailRes ev j (L.foldl (fun j a => survOut ev sa j (.done a rv none false)) j) L := by
  intro L
  induction L with
  | nil =>
    intro j he _ _ _ _
    refine ⟨he, ?_, rfl, rfl, rfl, rfl, rfl, rfl, fun _ _ => rfl, ?_⟩
    · exact (List.filter_eq_self.mpr (by simp)).symm
    · rintro k ⟨pr, _, h, _⟩; cases h
  | cons a L ih =>
    intro j he hL hn hmem hok
    rw [List.nodup_cons] at hL
    obtain ⟨hsa, pr, hpr, hpa⟩ := hmem a (by simp)
    subst hpa
    have hfind := find_aio_of_mem hn hpr
    have hstep : survOut ev sa j (.done pr.aio rv none false) = failOne ev j pr := by
      rw [survOut_done_recv hsa hfind]
      have hcond := hok pr hpr (by simp)
      apply survRecvDone_fail hrv
      · intro hab h5 hz
        rcases hcond with h | h
        · rw [hab] at h; cases h
        · exact h.2.2 h5 hz
      · intro hab h8
        rcases hcond with h | h
        · rw [hab] at h; cases h
        · exact absurd h8 h.1
      · intro hab h11
        rcases hcond with h | h
        · rw [hab] at h; cases h
        · exact absurd h11 h.2.1
    simp only [List.foldl_cons]
    rw [hstep]
    have hp1 := failOne_pend ev j pr
    obtain ⟨f1, f2, f3, f4, f5, f6⟩ := failOne_fields ev j pr
    have hsub : ∀ q ∈ (failOne ev j pr).pend, q ∈ j.pend ∧ q.aio ≠ pr.aio := by
      intro q hq
      rw [hp1] at hq
      have := List.mem_filter.mp hq
      exact ⟨this.1, by simpa using this.2⟩
    have hres := ih (failOne ev j pr) (by rw [failOne_err]; exact he) hL.2
      (by rw [hp1]; exact List.Nodup.sublist (List.filter_sublist.map _) hn)
      (by
        intro a' ha'
        obtain ⟨hs', q, hq, hqa⟩ := hmem a' (by simp [ha'])
        refine ⟨hs', q, ?_, hqa⟩
        rw [hp1]
        apply List.mem_filter.mpr
        refine ⟨hq, ?_⟩
        simp only [bne_iff_ne, ne_eq]
        intro hqe
        apply hL.1
        rw [← hqe, hqa]; exact ha')
      (by
        intro q hq hqL
        have hq' := hsub q hq
        rcases hok q hq'.1 (by simp [hqL]) with h | h
        · exact Or.inl h
        · refine Or.inr ⟨h.1, h.2.1, ?_⟩
          intro h5 hz
          rw [effDeadline_failOne, f4]
          exact h.2.2 h5 hz)
    refine ⟨hres.err, ?_, hres.sent.trans f1, hres.arrivals.trans f2, hres.nseq.trans f3, hres.now.trans f4,
      hres.closed.trans f5, hres.lastPoll.trans f6, ?_, ?_⟩
    · rw [hres.pend, hp1, List.filter_filter]
      apply List.filter_congr
      intro q _
      simp only [List.contains_cons, Bool.not_or, bne, Bool.and_comm]
    · intro k hk
      have h1 : (failOne ev j pr).getCtx k = j.getCtx k := by
        rw [failOne_getCtx]
        by_cases hc : k = pr.ctx ∧ markB ev pr = true
        · have := hk pr hpr (by simp) hc.1.symm
          rw [this] at hc; simp at hc
        · rw [if_neg hc]
      rw [← h1]
      apply hres.keep
      intro q hq hqL hqk
      exact hk q (hsub q hq).1 (by simp [hqL]) hqk
    · rintro k ⟨q, hq, hqL, hqk, hqm⟩
      have h1 := failOne_getCtx ev j pr k
      by_cases hex : ∃ q' ∈ (failOne ev j pr).pend, q'.aio ∈ L ∧ q'.ctx = k ∧ markB ev q' = true
      · rw [hres.kill k hex, h1]
        split
        · rw [Option.map_map]
          congr 1
          funext c; exact markDead_idem c
        · rfl
      · have hkeep : ∀ q' ∈ (failOne ev j pr).pend, q'.aio ∈ L → q'.ctx = k → markB ev q' = false := by
          intro q' hq' hL' hk'
          cases hm : markB ev q' with
          | false => rfl
          | true => exact absurd ⟨q', hq', hL', hk', hm⟩ hex
        rw [hres.keep k hkeep, h1]
        -- then `q` itself is `pr`
        have hqa : q.aio = pr.aio := by
          rcases List.mem_cons.mp hqL with h | h
          · exact h
          · exfalso
            have hq' : q ∈ (failOne ev j pr).pend := by
              rw [hp1]
              apply List.mem_filter.mpr
              refine ⟨hq, ?_⟩
              simp only [bne_iff_ne, ne_eq]
              intro hqe
              apply hL.1
              rw [← hqe]; exact h
            have := hkeep q hq' h hqk
            rw [this] at hqm; cases hqm
        have : q = pr := mem_unique_aio hn hq hpr hqa
        subst this
        rw [if_pos ⟨hqk.symm, hqm⟩]

/-! ### a delivery -/

/-- the judge's search for the arrival a delivery stands for -/
def arrP (sv : SurveyJ) (m : WMsg) : Arrival → Bool :=
  fun a => !a.used && a.seq ≥ sv.startSeq && a.id == m.hdr && a.body == m.body

def markUsed (arrivals : List Arrival) (seq : Nat) : List Arrival :=
  arrivals.map fun x => if x.seq == seq then { x with used := true } else x

theorem survRecvDone_ok_known {j : SurvJ} {ev : Ev} {pr : PendRecv} {m : WMsg} {c : CtxJ} {sv : SurveyJ} {a : Arrival}
    (hg : j.getCtx pr.ctx = some c) (hs : c.survey = some sv) (hd : sv.dead = false)
    (hn : ¬ sv.deadline < (j.now : Int)) (hid : j.idOf sv.body = some m.hdr)
    (hf : j.arrivals.find? (arrP sv m) = some a) :
    survRecvDone j ev pr 0 (some m) =
      { j with pend := j.pend.filter (·.aio != pr.aio), arrivals := markUsed j.arrivals a.seq } := by
  unfold survRecvDone
  simp only
  have hgc : SurvJ.getCtx { j with pend := j.pend.filter (·.aio != pr.aio) } pr.ctx = j.getCtx pr.ctx := rfl
  rw [hgc, hg]
  simp only [hs, hd, Bool.false_eq_true, if_false]
  have hn' : ¬ sv.deadline < ((SurvJ.now { j with pend := j.pend.filter (·.aio != pr.aio) } : Nat) : Int) := hn
  rw [if_neg hn']
  have hid' : SurvJ.idOf { j with pend := j.pend.filter (·.aio != pr.aio) } sv.body = some m.hdr := hid
  rw [hid']
  simp only [beq_self_eq_true, if_true]
  have hf' : List.find? (fun a => !a.used && decide (a.seq ≥ sv.startSeq) && a.id == m.hdr && a.body == m.body) j.arrivals = some a := hf
  rw [hf']
  rfl

theorem survRecvDone_ok_bind {j : SurvJ} {ev : Ev} {pr : PendRecv} {m : WMsg} {c : CtxJ} {sv : SurveyJ} {a : Arrival}
    (hg : j.getCtx pr.ctx = some c) (hs : c.survey = some sv) (hd : sv.dead = false)
    (hn : ¬ sv.deadline < (j.now : Int)) (hid : j.idOf sv.body = none) (hv : validId m.hdr = true)
    (hk : j.knownId m.hdr = false)
    (hf : j.arrivals.find? (arrP sv m) = some a) :
    survRecvDone j ev pr 0 (some m) =
      { j with pend := j.pend.filter (·.aio != pr.aio), arrivals := markUsed j.arrivals a.seq,
               sent := bindL j.sent sv.body m.hdr } := by
  unfold survRecvDone
  simp only
  have hgc : SurvJ.getCtx { j with pend := j.pend.filter (·.aio != pr.aio) } pr.ctx = j.getCtx pr.ctx := rfl
  rw [hgc, hg]
  simp only [hs, hd, Bool.false_eq_true, if_false]
  have hn' : ¬ sv.deadline < ((SurvJ.now { j with pend := j.pend.filter (·.aio != pr.aio) } : Nat) : Int) := hn
  rw [if_neg hn']
  have hid' : SurvJ.idOf { j with pend := j.pend.filter (·.aio != pr.aio) } sv.body = none := hid
  have hk' : SurvJ.knownId { j with pend := j.pend.filter (·.aio != pr.aio) } m.hdr = false := hk
  rw [hid']
  simp only [hv, hk', Bool.not_true, Bool.or_false, Bool.false_eq_true, if_false]
  have hf' : List.find? (fun a => !a.used && decide (a.seq ≥ sv.startSeq) && a.id == m.hdr && a.body == m.body)
      (SurvJ.bind { j with pend := j.pend.filter (·.aio != pr.aio) } sv.body m.hdr).arrivals = some a := hf
  rw [hf']
  rfl

end Nng.SurvJudge
