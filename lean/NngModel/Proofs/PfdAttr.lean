/- simp set for the poller-layer proofs -/
import Lean
register_simp_attr pfd_simp
