/-
  C16U: the incremental SHA-1 of sha1.c (block buffer, index, running bit counter, padding in one or two
  blocks) computes the one-shot FIPS 180-4 function, for every message and every way of feeding it.
  Invariant `Inv c full pend`: `full` (a multiple of 64 bytes) has been compressed into `c.dig`, `pend`
  (fewer than 64 bytes) sits in blk[0..idx), `len` counts the bits mod 2^64, no access left blk[0..63].
-/
import NngModel.Proofs.Sha1Compress
namespace Nng.Sha1
open Nng.Sha1Spec (State compress hashBlocks block H0 lenField)

/-! ### list facts -/

theorem foldl_congr_mem {α β : Type} {f g : β → α → β} :
    ∀ (l : List α) (b : β), (∀ b a, a ∈ l → f b a = g b a) → l.foldl f b = l.foldl g b := by
  intro l
  induction l with
  | nil => intro b _; rfl
  | cons x xs ih =>
    intro b h
    simp only [List.foldl_cons]
    rw [h b x (List.mem_cons_self ..), ih _ (fun b a ha => h b a (List.mem_cons_of_mem _ ha))]

theorem take_set_succ {α : Type} (l : List α) (i : Nat) (a : α) (h : i < l.length) :
    (l.set i a).take (i + 1) = l.take i ++ [a] := by
  rw [List.take_succ_eq_append_getElem (by simpa using h), List.take_set_of_le (Nat.le_refl i)]
  simp

theorem take_full {α : Type} (l : List α) (n : Nat) (h : l.length = n) : l.take n = l := by
  rw [← h]; exact List.take_length

/-! ### hashBlocks -/

theorem hashBlocks_nil (h : State) : hashBlocks h [] = h := rfl

theorem block_append_lt (full blk : Bytes) (i : Nat) (h : 64 * i + 64 ≤ full.length) : block (full ++ blk) i = block full i := by
  unfold block
  rw [List.drop_append_of_le_length (by omega), List.take_append_of_le_length (by rw [List.length_drop]; omega)]

theorem block_append_last (full blk : Bytes) (hf : full.length % 64 = 0) (hb : blk.length = 64) :
    block (full ++ blk) (full.length / 64) = blk := by
  unfold block
  have e : 64 * (full.length / 64) = full.length := by omega
  rw [e, List.drop_left, take_full _ _ hb]

/-- appending one more 64-byte block = one more application of the compression function -/
theorem hashBlocks_append_block (h : State) (full blk : Bytes) (hf : full.length % 64 = 0) (hb : blk.length = 64) :
    hashBlocks h (full ++ blk) = compress (hashBlocks h full) blk := by
  unfold hashBlocks
  have e : (full ++ blk).length / 64 = full.length / 64 + 1 := by rw [List.length_append, hb]; omega
  rw [e, List.range_succ, List.foldl_append]
  simp only [List.foldl_cons, List.foldl_nil]
  rw [block_append_last full blk hf hb]
  have hc : (List.range (full.length / 64)).foldl (fun h i => compress h (block (full ++ blk) i)) h =
      (List.range (full.length / 64)).foldl (fun h i => compress h (block full i)) h := by
    apply foldl_congr_mem
    intro b i hi
    have := List.mem_range.mp hi
    rw [block_append_lt full blk i (by omega)]
  rw [hc]

/-! ### the context invariant -/

structure WF (c : Ctx) : Prop where
  safe : c.safe = true
  blkLen : c.blk.length = 64
  idxLt : c.idx < 64

structure Inv (c : Ctx) (full pend : Bytes) : Prop where
  safe : c.safe = true
  blkLen : c.blk.length = 64
  fullLen : full.length % 64 = 0
  idx : c.idx = pend.length
  idxLt : pend.length < 64
  dig : c.dig.toState = hashBlocks H0 full
  len : c.len = (8 * (full.length + pend.length)) % 2 ^ 64
  pendEq : c.blk.take c.idx = pend

theorem Inv.wf {c : Ctx} {full pend : Bytes} (h : Inv c full pend) : WF c :=
  ⟨h.safe, h.blkLen, by rw [h.idx]; exact h.idxLt⟩

theorem init_inv (c : Ctx) (hs : c.safe = true) (hb : c.blk.length = 64) : Inv (init c) [] [] where
  safe := hs
  blkLen := hb
  fullLen := rfl
  idx := rfl
  idxLt := by simp
  pendEq := by simp [init]
  dig := by
    have := init_vals
    simp only [init, Regs.toState, hashBlocks_nil]
    exact this
  len := rfl

theorem raw_blk (g : Bytes) : (raw g).blk.length = 64 := by
  simp [raw, blkSize, Generated.sha1BlkSize]

/-! ### put, zeroFill, store -/

theorem put_blkLen (c : Ctx) (v : UInt8) : (put c v).blk.length = c.blk.length := by simp [put]

theorem put_safe (c : Ctx) (v : UInt8) (hs : c.safe = true) (hi : c.idx < 64) : (put c v).safe = true := by
  simp [put, hs, blkSize, Generated.sha1BlkSize, hi]

theorem put_take (c : Ctx) (v : UInt8) (hb : c.blk.length = 64) (hi : c.idx < 64) :
    (put c v).blk.take (c.idx + 1) = c.blk.take c.idx ++ [v] := by
  simp only [put]
  exact take_set_succ _ _ _ (by omega)

/-- the zero-fill loops: with enough fuel they stop at `idx = lim`, having appended zeros -/
theorem zeroFill_spec (lim : Nat) (hl : lim ≤ 64) : ∀ (fuel : Nat) (c : Ctx), c.safe = true → c.blk.length = 64 →
    c.idx ≤ lim → lim - c.idx ≤ fuel →
    let c' := zeroFill lim fuel c
    c'.safe = true ∧ c'.blk.length = 64 ∧ c'.idx = lim ∧ c'.dig = c.dig ∧ c'.len = c.len ∧
      c'.blk.take lim = c.blk.take c.idx ++ List.replicate (lim - c.idx) 0 := by
  intro fuel
  induction fuel with
  | zero =>
    intro c hs hb hi hf
    have : c.idx = lim := by omega
    simp [zeroFill, hs, hb, this]
  | succ fuel ih =>
    intro c hs hb hi hf
    by_cases h : c.idx < lim
    · simp only [zeroFill, if_pos h]
      have hp := ih (put c 0) (put_safe c 0 hs (by omega)) (by rw [put_blkLen]; exact hb) (by simp [put]; omega) (by simp [put]; omega)
      obtain ⟨h1, h2, h3, h4, h5, h6⟩ := hp
      refine ⟨h1, h2, h3, h4, h5, ?_⟩
      rw [h6]
      have e : (put c 0).idx = c.idx + 1 := rfl
      rw [e, put_take c 0 hb (by omega)]
      have e2 : lim - c.idx = (lim - (c.idx + 1)) + 1 := by omega
      rw [e2, List.replicate_succ, List.append_assoc]
      rfl
    · have : c.idx = lim := by omega
      simp [zeroFill, hs, hb, this]

theorem store_take (c : Ctx) (i v : Nat) (hb : c.blk.length = 64) (hi : i < 64) :
    (store c i v).blk.take (i + 1) = c.blk.take i ++ [UInt8.ofNat v] := by
  simp only [store]
  exact take_set_succ _ _ _ (by omega)

theorem store_safe (c : Ctx) (i v : Nat) (hs : c.safe = true) (hi : i < 64) : (store c i v).safe = true := by
  simp [store, hs, blkSize, Generated.sha1BlkSize, hi]

theorem lenByte (x k : Nat) (hk : k ≤ 56) : ((x % 2 ^ 64) >>> k) &&& 0xff = x / 2 ^ k % 256 := by
  have e : (0xff : Nat) = 2 ^ 8 - 1 := rfl
  rw [e, Nat.and_two_pow_sub_one_eq_mod, Nat.shiftRight_eq_div_pow]
  have h64 : (2 : Nat) ^ 64 = 2 ^ k * 2 ^ (64 - k) := by rw [← Nat.pow_add]; congr 1; omega
  rw [h64, Nat.mod_mul_right_div_self]
  have h8 : 2 ^ (64 - k) = 2 ^ 8 * 2 ^ (56 - k) := by rw [← Nat.pow_add]; congr 1; omega
  rw [h8, Nat.mod_mul_right_mod]

theorem lenField_eq (l : Nat) :
    lenField l = [UInt8.ofNat (l / 2 ^ 56 % 256), UInt8.ofNat (l / 2 ^ 48 % 256), UInt8.ofNat (l / 2 ^ 40 % 256),
      UInt8.ofNat (l / 2 ^ 32 % 256), UInt8.ofNat (l / 2 ^ 24 % 256), UInt8.ofNat (l / 2 ^ 16 % 256),
      UInt8.ofNat (l / 2 ^ 8 % 256), UInt8.ofNat (l / 2 ^ 0 % 256)] := rfl

/-- the eight length stores of nni_sha1_pad, on a context whose first 56 block bytes are `p` -/
def lenStores (c : Ctx) : Ctx :=
  let c := store c 56 ((c.len >>> 56) &&& 0xff)
  let c := store c 57 ((c.len >>> 48) &&& 0xff)
  let c := store c 58 ((c.len >>> 40) &&& 0xff)
  let c := store c 59 ((c.len >>> 32) &&& 0xff)
  let c := store c 60 ((c.len >>> 24) &&& 0xff)
  let c := store c 61 ((c.len >>> 16) &&& 0xff)
  let c := store c 62 ((c.len >>> 8) &&& 0xff)
  store c 63 (c.len &&& 0xff)

theorem lenStores_spec (c : Ctx) (x : Nat) (hs : c.safe = true) (hb : c.blk.length = 64) (hl : c.len = x % 2 ^ 64) :
    (lenStores c).safe = true ∧ (lenStores c).blk = c.blk.take 56 ++ lenField x ∧ (lenStores c).dig = c.dig ∧
      (lenStores c).blk.length = 64 := by
  have b0 := lenByte x 56 (by omega)
  have b1 := lenByte x 48 (by omega)
  have b2 := lenByte x 40 (by omega)
  have b3 := lenByte x 32 (by omega)
  have b4 := lenByte x 24 (by omega)
  have b5 := lenByte x 16 (by omega)
  have b6 := lenByte x 8 (by omega)
  have b7 := lenByte x 0 (by omega)
  rw [Nat.shiftRight_zero] at b7
  refine ⟨?_, ?_, rfl, by simp [lenStores, store, hb]⟩
  · simp [lenStores, store, hs, blkSize, Generated.sha1BlkSize]
  · have hlen : (lenStores c).blk.length = 64 := by simp [lenStores, store, hb]
    rw [← take_full (lenStores c).blk 64 hlen]
    simp only [lenStores]
    rw [store_take _ 63 _ (by simp [store, hb]) (by omega), store_take _ 62 _ (by simp [store, hb]) (by omega),
        store_take _ 61 _ (by simp [store, hb]) (by omega), store_take _ 60 _ (by simp [store, hb]) (by omega),
        store_take _ 59 _ (by simp [store, hb]) (by omega), store_take _ 58 _ (by simp [store, hb]) (by omega),
        store_take _ 57 _ (by simp [store, hb]) (by omega), store_take _ 56 _ hb (by omega)]
    simp only [store, hl, b0, b1, b2, b3, b4, b5, b6, b7, lenField_eq, List.append_assoc, List.cons_append, List.nil_append]

theorem pad_unfold (c : Ctx) :
    pad c = process (lenStores
      (if c.idx > 55 then zeroFill 56 64 (process (zeroFill 64 64 (put c 0x80))) else zeroFill 56 64 (put c 0x80))) := by
  rfl

/-! ### one byte -/

theorem updateByte_unfold (c : Ctx) (b : UInt8) :
    updateByte c b = if c.idx + 1 = 64 then process { put c b with len := (c.len + 8) % 2 ^ 64 }
                     else { put c b with len := (c.len + 8) % 2 ^ 64 } := rfl

theorem updateByte_inv (c : Ctx) (full pend : Bytes) (b : UInt8) (h : Inv c full pend) :
    (pend.length + 1 < 64 ∧ Inv (updateByte c b) full (pend ++ [b])) ∨
    (pend.length + 1 = 64 ∧ Inv (updateByte c b) (full ++ (pend ++ [b])) []) := by
  have hi : c.idx < 64 := by rw [h.idx]; exact h.idxLt
  have hlen : (c.len + 8) % 2 ^ 64 = (8 * (full.length + (pend.length + 1))) % 2 ^ 64 := by rw [h.len]; omega
  rw [updateByte_unfold]
  by_cases hfull : c.idx + 1 = 64
  · right
    rw [if_pos hfull]
    refine ⟨by rw [← h.idx]; exact hfull, ?_⟩
    have hb' : ({ put c b with len := (c.len + 8) % 2 ^ 64 } : Ctx).blk.length = 64 := by simp [put, h.blkLen]
    rw [process_eq _ hb']
    have hblk : (put c b).blk = pend ++ [b] := by
      have := put_take c b h.blkLen hi
      rw [hfull, take_full _ 64 (by rw [put_blkLen]; exact h.blkLen), h.pendEq] at this
      exact this
    refine ⟨?_, hb', ?_, rfl, by simp, ?_, ?_, by simp⟩
    · exact put_safe c b h.safe hi
    · simp only [List.length_append, List.length_cons, List.length_nil]; have := h.idx; have := h.fullLen; omega
    · rw [Regs.toState_ofState]
      have e1 : ({ put c b with len := (c.len + 8) % 2 ^ 64 } : Ctx).blk = pend ++ [b] := hblk
      have e2 : ({ put c b with len := (c.len + 8) % 2 ^ 64 } : Ctx).dig = c.dig := rfl
      rw [e1, e2, h.dig, hashBlocks_append_block H0 full (pend ++ [b]) h.fullLen (by simp; have := h.idx; omega)]
    · show (c.len + 8) % 2 ^ 64 = _
      rw [hlen]; simp
  · left
    rw [if_neg hfull]
    refine ⟨by have := h.idx; omega, ?_⟩
    refine ⟨put_safe c b h.safe hi, by simp [put, h.blkLen], h.fullLen, by simp [put, h.idx], by simp only [List.length_append, List.length_cons, List.length_nil]; have := h.idx; omega, h.dig, ?_, ?_⟩
    · show (c.len + 8) % 2 ^ 64 = _
      rw [hlen]; simp
    · show (put c b).blk.take (c.idx + 1) = _
      rw [put_take c b h.blkLen hi, h.pendEq]

/-- feeding a list of bytes: the message grows by exactly that list -/
theorem foldl_inv : ∀ (data : Bytes) (c : Ctx) (full pend : Bytes), Inv c full pend →
    ∃ full' pend', Inv (data.foldl updateByte c) full' pend' ∧ full' ++ pend' = full ++ pend ++ data := by
  intro data
  induction data with
  | nil => intro c full pend h; exact ⟨full, pend, h, by simp⟩
  | cons b r ih =>
    intro c full pend h
    simp only [List.foldl_cons]
    rcases updateByte_inv c full pend b h with ⟨_, h'⟩ | ⟨_, h'⟩
    · obtain ⟨f', p', hi, he⟩ := ih _ _ _ h'
      exact ⟨f', p', hi, by rw [he]; simp⟩
    · obtain ⟨f', p', hi, he⟩ := ih _ _ _ h'
      exact ⟨f', p', hi, by rw [he]; simp⟩

theorem update_eq_foldl (c : Ctx) (data : Bytes) : update c data = data.foldl updateByte c := by
  unfold update
  by_cases h : data.length = 0
  · have : data = [] := List.eq_nil_of_length_eq_zero h
    subst this; simp
  · rw [if_neg h]

theorem update_inv (c : Ctx) (data full pend : Bytes) (h : Inv c full pend) :
    ∃ full' pend', Inv (update c data) full' pend' ∧ full' ++ pend' = full ++ pend ++ data := by
  rw [update_eq_foldl]; exact foldl_inv data c full pend h

/-! ### padding -/

theorem put_dig (c : Ctx) (v : UInt8) : (put c v).dig = c.dig := rfl
theorem put_len (c : Ctx) (v : UInt8) : (put c v).len = c.len := rfl

theorem spec_pad_short (full pend : Bytes) (hp : pend.length ≤ 55) (hf : full.length % 64 = 0) :
    Sha1Spec.pad (full ++ pend) =
      full ++ (pend ++ [0x80] ++ List.replicate (55 - pend.length) 0 ++ lenField (8 * (full.length + pend.length))) := by
  have z : Sha1Spec.zeros (full.length + pend.length) = 55 - pend.length := by simp only [Sha1Spec.zeros]; omega
  simp only [Sha1Spec.pad, List.length_append, z, List.append_assoc]

theorem spec_pad_long (full pend : Bytes) (hp : 55 < pend.length) (hp2 : pend.length < 64) (hf : full.length % 64 = 0) :
    Sha1Spec.pad (full ++ pend) =
      (full ++ (pend ++ [0x80] ++ List.replicate (63 - pend.length) 0)) ++
        (List.replicate 56 0 ++ lenField (8 * (full.length + pend.length))) := by
  have z : Sha1Spec.zeros (full.length + pend.length) = (63 - pend.length) + 56 := by simp only [Sha1Spec.zeros]; omega
  simp only [Sha1Spec.pad, List.length_append, z, List.append_assoc, ← List.replicate_append_replicate]

theorem pad_inv (c : Ctx) (full pend : Bytes) (h : Inv c full pend) :
    (pad c).safe = true ∧ (pad c).blk.length = 64 ∧ (pad c).idx = 0 ∧
      (pad c).dig.toState = hashBlocks H0 (Sha1Spec.pad (full ++ pend)) := by
  have hi : c.idx < 64 := by rw [h.idx]; exact h.idxLt
  have hps := put_safe c 0x80 h.safe hi
  have hpb : (put c 0x80).blk.length = 64 := by rw [put_blkLen]; exact h.blkLen
  have hpt := put_take c 0x80 h.blkLen hi
  rw [h.pendEq] at hpt
  rw [pad_unfold]
  by_cases hlong : c.idx > 55
  · rw [if_pos hlong]
    obtain ⟨s1, l1, i1, d1, n1, t1⟩ := zeroFill_spec 64 (by omega) 64 (put c 0x80) hps hpb (by simp [put]; omega) (by omega)
    have e1 : (put c 0x80).idx = c.idx + 1 := rfl
    rw [e1, hpt, take_full _ 64 l1] at t1
    have hproc := process_eq _ l1
    generalize hc1 : zeroFill 64 64 (put c 0x80) = c1 at *
    have hc1b : (process c1).blk = c1.blk := by rw [hproc]
    have hc1s : (process c1).safe = true := by rw [hproc]; exact s1
    obtain ⟨s2, l2, i2, d2, n2, t2⟩ := zeroFill_spec 56 (by omega) 64 (process c1) hc1s (by rw [hc1b]; exact l1)
      (by rw [hproc]; simp) (by omega)
    have hidx0 : (process c1).idx = 0 := by rw [hproc]
    rw [hidx0] at t2
    simp only [List.take_zero, List.nil_append, Nat.sub_zero] at t2
    generalize hc2 : zeroFill 56 64 (process c1) = c2 at *
    have hlen2 : c2.len = (8 * (full.length + pend.length)) % 2 ^ 64 := by
      rw [n2, hproc]; show c1.len = _; rw [n1, put_len, h.len]
    obtain ⟨s3, b3, d3, l3⟩ := lenStores_spec c2 _ s2 l2 hlen2
    rw [t2] at b3
    rw [process_eq _ l3]
    refine ⟨s3, l3, rfl, ?_⟩
    simp only [Regs.toState_ofState]
    rw [d3, d2, hproc, b3]
    simp only [Regs.toState_ofState]
    rw [d1, put_dig, h.dig, t1]
    have hpl : pend.length = c.idx := h.idx.symm
    rw [spec_pad_long full pend (by omega) (by omega) h.fullLen]
    have e63 : 64 - (c.idx + 1) = 63 - pend.length := by omega
    rw [e63]
    have hB1 : (pend ++ [0x80] ++ List.replicate (63 - pend.length) (0 : UInt8)).length = 64 := by simp; omega
    rw [hashBlocks_append_block H0 _ _ (by simp; have := h.fullLen; omega) (by simp [lenField]),
        hashBlocks_append_block H0 full _ h.fullLen hB1]
  · rw [if_neg hlong]
    obtain ⟨s2, l2, i2, d2, n2, t2⟩ := zeroFill_spec 56 (by omega) 64 (put c 0x80) hps hpb (by simp [put]; omega) (by omega)
    have e1 : (put c 0x80).idx = c.idx + 1 := rfl
    rw [e1, hpt] at t2
    generalize hc2 : zeroFill 56 64 (put c 0x80) = c2 at *
    have hlen2 : c2.len = (8 * (full.length + pend.length)) % 2 ^ 64 := by rw [n2, put_len, h.len]
    obtain ⟨s3, b3, d3, l3⟩ := lenStores_spec c2 _ s2 l2 hlen2
    rw [t2] at b3
    rw [process_eq _ l3]
    refine ⟨s3, l3, rfl, ?_⟩
    simp only [Regs.toState_ofState]
    rw [d3, d2, put_dig, h.dig, b3]
    have hpl : pend.length = c.idx := h.idx.symm
    rw [spec_pad_short full pend (by omega) h.fullLen]
    have e55 : 56 - (c.idx + 1) = 55 - pend.length := by omega
    rw [e55]
    rw [hashBlocks_append_block H0 full _ h.fullLen (by simp [lenField]; omega)]

/-! ### digest output -/

theorem wordBytes_eq (w : Word) : wordBytes w = Sha1Spec.wordBytes w := by
  have e : (0xff#32 : Word).toNat = 2 ^ 8 - 1 := rfl
  simp only [wordBytes, Sha1Spec.wordBytes, BitVec.toNat_and, BitVec.toNat_ushiftRight, e, Nat.and_two_pow_sub_one_eq_mod,
    Nat.shiftRight_eq_div_pow, Nat.pow_zero, Nat.div_one]

theorem final_inv (c : Ctx) (full pend : Bytes) (h : Inv c full pend) :
    (final c).2 = Sha1Spec.sha1 (full ++ pend) ∧ WF (final c).1 := by
  obtain ⟨s, l, i, d⟩ := pad_inv c full pend h
  refine ⟨?_, ⟨s, l, by show (pad c).idx < 64; omega⟩⟩
  simp only [final, Sha1Spec.sha1, ← d, Regs.toState, wordBytes_eq]

/-! ### memory safety alone, for any calling sequence (also update/final after final) -/

theorem lenStores_wf (c : Ctx) (hs : c.safe = true) (hb : c.blk.length = 64) :
    (lenStores c).safe = true ∧ (lenStores c).blk.length = 64 := by
  refine ⟨?_, by simp [lenStores, store, hb]⟩
  simp [lenStores, store, hs, blkSize, Generated.sha1BlkSize]

theorem process_wf (c : Ctx) (hs : c.safe = true) (hb : c.blk.length = 64) : WF (process c) := by
  rw [process_eq c hb]; exact ⟨hs, hb, by simp⟩

theorem updateByte_wf (c : Ctx) (b : UInt8) (h : WF c) : WF (updateByte c b) := by
  rw [updateByte_unfold]
  have hs := put_safe c b h.safe h.idxLt
  have hb : (put c b).blk.length = 64 := by rw [put_blkLen]; exact h.blkLen
  by_cases hfull : c.idx + 1 = 64
  · rw [if_pos hfull]; exact process_wf _ hs hb
  · rw [if_neg hfull]; exact ⟨hs, hb, by show c.idx + 1 < 64; have := h.idxLt; omega⟩

theorem update_wf (c : Ctx) (data : Bytes) (h : WF c) : WF (update c data) := by
  rw [update_eq_foldl]
  induction data generalizing c with
  | nil => exact h
  | cons b r ih => exact ih _ (updateByte_wf c b h)

theorem pad_wf (c : Ctx) (h : WF c) : WF (pad c) := by
  have hps := put_safe c 0x80 h.safe h.idxLt
  have hpb : (put c 0x80).blk.length = 64 := by rw [put_blkLen]; exact h.blkLen
  have hi := h.idxLt
  rw [pad_unfold]
  by_cases hlong : c.idx > 55
  · rw [if_pos hlong]
    obtain ⟨s1, l1, _, _, _, _⟩ := zeroFill_spec 64 (by omega) 64 (put c 0x80) hps hpb (by simp [put]; omega) (by omega)
    have w1 := process_wf _ s1 l1
    have hidx0 : (process (zeroFill 64 64 (put c 0x80))).idx = 0 := by rw [process_eq _ l1]
    obtain ⟨s2, l2, _, _, _, _⟩ := zeroFill_spec 56 (by omega) 64 _ w1.safe w1.blkLen (by rw [hidx0]; omega) (by omega)
    obtain ⟨s3, l3⟩ := lenStores_wf _ s2 l2
    exact process_wf _ s3 l3
  · rw [if_neg hlong]
    obtain ⟨s2, l2, _, _, _, _⟩ := zeroFill_spec 56 (by omega) 64 (put c 0x80) hps hpb (by simp [put]; omega) (by omega)
    obtain ⟨s3, l3⟩ := lenStores_wf _ s2 l2
    exact process_wf _ s3 l3

theorem apply_wf (c : Ctx) (op : Op) (h : WF c) : WF (apply c op) := by
  cases op with
  | init => exact ⟨h.safe, h.blkLen, by simp [apply, init]⟩
  | update d => exact update_wf c d h
  | final => exact pad_wf c h

theorem raw_wf (g : Bytes) : WF (raw g) := ⟨rfl, raw_blk g, by simp [raw]⟩

end Nng.Sha1
