/-
  The invariant of Proofs/ReqPlace.lean is preserved by every callback of the REQ model and by
  every harness event.
-/
import NngModel.Proofs.ReqPlace
import NngModel.Proofs.ReqInv
import NngModel.Generated.C04REQ
namespace Nng.Req
open Nng Nng.Proto

theorem view_flag_bad (s : State) (m : String) (h : s.bad = none) : (flag s m).bad = some m := by
  simp [flag, h]

/-! ### shapes of the ghost message operations under the invariant -/

theorem ctxRelease_view {s : State} {h : Nat} (hr : (s.msgs h).ctxRef = true) :
    ctxRelease s h = { s with msgs := upd s.msgs h (releaseObj (s.msgs h) false) } := by
  simp [ctxRelease, hr, setMsg, releaseObj]

theorem giveBack_view {s : State} {h : Nat} (hr : (s.msgs h).ctxRef = true) :
    giveBack s h = { s with msgs := upd s.msgs h (releaseObj (s.msgs h) true) } := by
  simp [giveBack, hr, setMsg, releaseObj]

/-! ### req0_ctx_reset, the reply path, dropping a parked send -/

theorem view_ctxReset {s : State} (k : Nat) (hh : ∀ h, (s.ctx k).reqMsg = some h → (s.msgs h).ctxRef = true) :
    view (ctxReset s k) = { view s with
      sendQueue := s.sendQueue.erase k, retryQueue := s.retryQueue.erase k, pipe := eraseCtxs s.pipe k,
      msgs := releaseMsgs (view s) k false,
      ctx := upd s.ctx k { s.ctx k with requestId := 0, reqMsg := none, repMsg := none, connReset := false,
                                        wired := false, wireCount := 0, everRetry := false } } := by
  unfold ctxReset
  dsimp only
  cases hm : (s.ctx k).reqMsg with
  | none =>
    have : releaseMsgs (view s) k false = s.msgs := by simp [releaseMsgs, view, hm]
    rw [this]
    dsimp only; split <;> split <;> rfl
  | some h =>
    have : releaseMsgs (view s) k false = upd s.msgs h (releaseObj (s.msgs h) false) := by simp [releaseMsgs, view, hm]
    rw [this]
    dsimp only
    rw [ctxRelease_view (by split <;> exact hh h hm)]
    split <;> split <;> rfl

/-- erase `k` from the send queue, the retry list and every pipe list -/
theorem invV_eraseAll {y : Option Nat} {v : View} (k : Nat) (h : InvV y (some k) v) :
    InvV y (some k) { v with sendQueue := v.sendQueue.erase k, retryQueue := v.retryQueue.erase k,
                             pipe := eraseCtxs v.pipe k } :=
  invV_shrink k _ _ _ h List.erase_sublist (fun _ e hk => (List.mem_erase_of_ne e).2 hk)
    List.erase_sublist (fun _ e hk => (List.mem_erase_of_ne e).2 hk)
    (fun _ => rfl) (fun _ => rfl) (fun _ => List.erase_sublist)
    (fun _ _ e hk => (List.mem_erase_of_ne e).2 hk)

theorem inv2_ctxReset {y : Option Nat} {s : State} (k : Nat) (h : Inv2 y (some k) s) : Inv2 y none (ctxReset s k) := by
  unfold Inv2
  rw [view_ctxReset k (h.held k)]
  exact invV_dropReq k false _ (invV_eraseAll k h) (h.sq_nodup.not_mem_erase) rfl (fun _ => Nat.zero_le _)

theorem ctxReset_fields (s : State) (k : Nat) :
    (ctxReset s k).retryQueue = s.retryQueue.erase k ∧ ((ctxReset s k).ctx k).reqMsg = none ∧
    (ctxReset s k).opened = s.opened ∧ (ctxReset s k).nalloc = s.nalloc ∧
    (ctxReset s k).sendQueue = s.sendQueue.erase k ∧ (ctxReset s k).readyPipes = s.readyPipes ∧
    (ctxReset s k).sClosed = s.sClosed ∧ (ctxReset s k).pipe = unlist s k := by
  unfold ctxReset
  dsimp only
  cases hm : (s.ctx k).reqMsg with
  | none =>
    dsimp only
    refine ⟨?_, ?_, ?_, ?_, ?_, ?_, ?_, ?_⟩ <;> split <;> split <;> simp_all [setCtx]
  | some h =>
    dsimp only
    refine ⟨?_, ?_, ?_, ?_, ?_, ?_, ?_, ?_⟩ <;> simp only [setCtx, ctxRelease, setMsg, flag] <;> (repeat' split) <;> simp_all

theorem view_dropSend {s : State} (k : Nat) (hh : ∀ h, (s.ctx k).reqMsg = some h → (s.msgs h).ctxRef = true) :
    view (dropSend s k) = { view s with
      sendQueue := s.sendQueue.erase k, msgs := releaseMsgs (view s) k true,
      ctx := upd s.ctx k { s.ctx k with sendAio := none, reqMsg := none } } := by
  unfold dropSend
  dsimp only
  cases hm : (s.ctx k).reqMsg with
  | none =>
    have : releaseMsgs (view s) k true = s.msgs := by simp [releaseMsgs, view, hm]
    rw [this]; rfl
  | some h =>
    have : releaseMsgs (view s) k true = upd s.msgs h (releaseObj (s.msgs h) true) := by simp [releaseMsgs, view, hm]
    rw [this]
    dsimp only
    rw [giveBack_view (hh h hm)]
    rfl

theorem inv2_dropSend {y : Option Nat} {s : State} (k : Nat) (h : Inv2 y (some k) s) : Inv2 y none (dropSend s k) := by
  unfold Inv2
  rw [view_dropSend k (h.held k)]
  have h1 : InvV y (some k) { view s with sendQueue := s.sendQueue.erase k } :=
    invV_shrink k _ _ _ h List.erase_sublist (fun _ e hk => (List.mem_erase_of_ne e).2 hk)
      (List.Sublist.refl _) (fun _ _ hk => hk) (fun _ => rfl) (fun _ => rfl) (fun _ => List.Sublist.refl _)
      (fun _ _ _ hk => hk)
  exact invV_dropReq k true _ h1 (h.sq_nodup.not_mem_erase) rfl (fun he => h.cnt1 k he)

/-! ### req0_run_send_queue -/

theorem tranClone_view {s : State} {h : Nat} (hr : (s.msgs h).ctxRef = true) :
    tranClone s h = { s with msgs := upd s.msgs h { s.msgs h with tranRefs := (s.msgs h).tranRefs + 1 } } := by
  simp [tranClone, MsgObj.alive, hr, setMsg]

theorem view_wireIndex (s : State) (i : Nat) : view (wireIndex s i).1 = view s := by
  unfold wireIndex; split <;> rfl

theorem msgs_wireIndex (s : State) (i : Nat) : (wireIndex s i).1.msgs = s.msgs := by
  unfold wireIndex; split <;> rfl

theorem view_sendPrep (s : State) (k p : Nat) (r : Int) :
    view (sendPrep s k p r) = { view s with
      sendQueue := s.sendQueue.erase k
      retryQueue := if r > 0 then s.retryQueue.erase k ++ [k] else s.retryQueue
      pipe := upd (eraseCtxs s.pipe k) p { s.pipe p with ctxs := (s.pipe p).ctxs.erase k ++ [k] }
      readyPipes := s.readyPipes.erase p } := by
  unfold sendPrep
  dsimp only
  split <;> split <;> rfl

theorem upd_upd {α : Type} (f : Nat → α) (k : Nat) (a b : α) : upd (upd f k a) k b = upd f k b := by
  funext x; simp only [upd]; split <;> rfl

theorem view_sendOne {s : State} (k p hh : Nat) (hm : (s.ctx k).reqMsg = some hh) (hr : (s.msgs hh).ctxRef = true) :
    view (sendOne s k p).1 = vSend (view s) k p hh := by
  have e1 := view_sendPrep s k p (s.ctx k).retry
  have em : (sendPrep s k p (s.ctx k).retry).msgs = s.msgs := congrArg View.msgs e1
  have ec : (sendPrep s k p (s.ctx k).retry).ctx = s.ctx := congrArg View.ctx e1
  have ew : (sendPrep s k p (s.ctx k).retry).wire = s.wire := congrArg View.wire e1
  unfold sendOne
  dsimp only
  rw [hm]
  dsimp only
  generalize sendPrep s k p (s.ctx k).retry = s1 at e1 em ec ew ⊢
  have hr1 : (s1.msgs hh).ctxRef = true := by rw [em]; exact hr
  rw [tranClone_view hr1]
  unfold wireIndex
  simp only [view] at e1
  simp only [View.mk.injEq] at e1
  obtain ⟨a1, a2, a3, a4, a5, a6, a7, a8, a9, a10, a11, a12, a13, a14, a15⟩ := e1
  split <;> simp [view, vSend, setPipe, setCtx, upd_upd, *]

theorem inv2_sendOne {y x : Option Nat} {s : State} (k p : Nat) (h : Inv2 y x s)
    (hk : k ∈ s.sendQueue) (hp : p ∈ s.readyPipes) : Inv2 y x (sendOne s k p).1 := by
  obtain ⟨hh, hm⟩ := Option.isSome_iff_exists.1 (h.sq_req k hk)
  unfold Inv2
  rw [view_sendOne k p hh hm (h.held k hh hm)]
  exact invV_send k p hh h hk hp hm

theorem sendOne_len {y x : Option Nat} {s : State} (k p p0 : Nat) (h : Inv2 y x s)
    (hk : k ∈ s.sendQueue) (hp : p ∈ s.readyPipes) (hc : (s.pipe p0).closed = true) :
    ((sendOne s k p).1.pipe p0).ctxs.length ≤ (s.pipe p0).ctxs.length := by
  obtain ⟨hh, hm⟩ := Option.isSome_iff_exists.1 (h.sq_req k hk)
  have e := congrArg View.pipe (view_sendOne k p hh hm (h.held k hh hm))
  have e' : (sendOne s k p).1.pipe = _ := e
  rw [e']
  have hne : p0 ≠ p := by
    intro e2; subst e2
    have : (s.pipe p0).closed = false := (h.ready_ok p0 hp).2.1
    rw [hc] at this; cases this
  simp only [vSend]
  rw [upd_other _ _ _ _ hne]
  exact List.erase_sublist.length_le

theorem inv2_runQ {y x : Option Nat} (fuel : Nat) {s : State} (h : Inv2 y x s) : Inv2 y x (runQ fuel s).1 := by
  induction fuel generalizing s with
  | zero => exact h
  | succ n ih =>
    unfold runQ
    split
    · rename_i k _ p _ hs hp
      exact ih (inv2_sendOne k p h (by rw [hs]; simp) (by rw [hp]; simp))
    · exact h

theorem runQ_len {x : Option Nat} (fuel : Nat) (p0 : Nat) {s : State} (h : Inv2 (some p0) x s) :
    ((runQ fuel s).1.pipe p0).ctxs.length ≤ (s.pipe p0).ctxs.length := by
  induction fuel generalizing s with
  | zero => exact Nat.le_refl _
  | succ n ih =>
    unfold runQ
    split
    · rename_i k _ p _ hs hp
      have hk : k ∈ s.sendQueue := by rw [hs]; simp
      have hp' : p ∈ s.readyPipes := by rw [hp]; simp
      exact Nat.le_trans (ih (inv2_sendOne k p h hk hp')) (sendOne_len k p p0 h hk hp' (h.closing p0 rfl))
    · exact Nat.le_refl _

theorem inv2_runSendQueue {y x : Option Nat} {s : State} (h : Inv2 y x s) : Inv2 y x (runSendQueue s).1 :=
  inv2_runQ _ h

/-- a context update that keeps every field the invariant reads -/
theorem inv2_setCtx_same {y x : Option Nat} {s : State} (k : Nat) (c' : Ctx) (h : Inv2 y x s)
    (e : c'.reqMsg = (s.ctx k).reqMsg ∧ c'.requestId = (s.ctx k).requestId ∧ c'.retryAtSend = (s.ctx k).retryAtSend ∧
      c'.wireCount = (s.ctx k).wireCount ∧ c'.everRetry = (s.ctx k).everRetry ∧ c'.retry = (s.ctx k).retry) :
    Inv2 y x (setCtx s k c') := by
  obtain ⟨e1, e2, e3, e4, e5, e6⟩ := e
  refine invV_tweak k c' h e1 (fun hr => ⟨e2, e3, e4, fun he => by rw [e5]; exact he, fun hp => ?_⟩) (fun he => ?_)
  · rw [e5]; exact h.ever1 k hr (show 0 < (s.ctx k).retry from e6 ▸ hp)
  · rw [e4]; exact h.cnt1 k (show (s.ctx k).everRetry = false from e5 ▸ he)

/-! ### req0_recv_cb -/

theorem view_acceptPrep {s : State} (k : Nat) (hh : ∀ h, (s.ctx k).reqMsg = some h → (s.msgs h).ctxRef = true) :
    view (acceptPrep s k) = { view s with
      sendQueue := s.sendQueue.erase k, retryQueue := s.retryQueue.erase k, pipe := eraseCtxs s.pipe k,
      msgs := releaseMsgs (view s) k false } := by
  unfold acceptPrep
  dsimp only
  cases hm : (s.ctx k).reqMsg with
  | none =>
    have : releaseMsgs (view s) k false = s.msgs := by simp [releaseMsgs, view, hm]
    rw [this]; rfl
  | some h =>
    have : releaseMsgs (view s) k false = upd s.msgs h (releaseObj (s.msgs h) false) := by simp [releaseMsgs, view, hm]
    rw [this]
    dsimp only
    rw [ctxRelease_view (by exact hh h hm)]
    rfl

theorem inv2_accept {y : Option Nat} {s : State} (k : Nat) (c' : Ctx) (h : Inv2 y none s)
    (hc : c'.reqMsg = none) (hcnt : c'.everRetry = false → c'.wireCount ≤ 1) :
    InvV y none { view (acceptPrep s k) with ctx := upd (acceptPrep s k).ctx k c' } := by
  have ec : (acceptPrep s k).ctx = s.ctx := congrArg View.ctx (view_acceptPrep k (h.held k))
  rw [ec, view_acceptPrep k (h.held k)]
  exact invV_dropReq k false c' (invV_eraseAll k (h.weaken k)) (h.sq_nodup.not_mem_erase) hc hcnt

theorem inv2_recvCb {y : Option Nat} {s : State} (h : Inv2 y none s) (iid? : Option Nat) (body : Bytes) :
    Inv2 y none (recvCb s iid? body).1 := by
  unfold recvCb
  split
  · exact h
  · split
    · exact h
    · rename_i iid _ k hm
      dsimp only
      split
      · exact h
      · split
        · exact inv2_accept k { s.ctx k with requestId := 0, reqMsg := none, recvAio := none } h rfl (fun he => h.cnt1 k he)
        · have := inv2_accept k { s.ctx k with requestId := 0, reqMsg := none, repMsg := some body } h rfl (fun he => h.cnt1 k he)
          split
          · exact this
          · exact this

/-! ### req0_pipe_close -/

theorem inv2_unlistP {y : Option Nat} {s : State} (p k : Nat) (h : Inv2 y none s) :
    Inv2 y (some k) (setPipe s p { s.pipe p with ctxs := (s.pipe p).ctxs.erase k }) := by
  have := invV_shrink k s.sendQueue s.retryQueue (upd s.pipe p { s.pipe p with ctxs := (s.pipe p).ctxs.erase k })
    (h.weaken k) (List.Sublist.refl _) (fun _ _ hk => hk) (List.Sublist.refl _) (fun _ _ hk => hk)
    (fun q => by by_cases e : q = p
                 · subst e; rw [upd_same]; rfl
                 · rw [upd_other _ _ _ _ e]; rfl)
    (fun q => by by_cases e : q = p
                 · subst e; rw [upd_same]; rfl
                 · rw [upd_other _ _ _ _ e]; rfl)
    (fun q => by by_cases e : q = p
                 · subst e; rw [upd_same]; exact List.erase_sublist
                 · rw [upd_other _ _ _ _ e]; exact List.Sublist.refl _)
    (fun q k' e' hk => by by_cases e : q = p
                          · subst e; rw [upd_same]; exact (List.mem_erase_of_ne e').2 hk
                          · rw [upd_other _ _ _ _ e]; exact hk)
  exact this

theorem inv2_closeOne {s : State} (p k : Nat) (t : List Nat) (h : Inv2 (some p) none s)
    (hl : (s.pipe p).ctxs = k :: t) :
    Inv2 (some p) none (closeOne s p k).1 ∧ ((closeOne s p k).1.pipe p).ctxs.length ≤ t.length := by
  unfold closeOne
  dsimp only
  have h0 := inv2_unlistP p k h
  have l0 : ((setPipe s p { s.pipe p with ctxs := (s.pipe p).ctxs.erase k }).pipe p).ctxs = t := by
    simp [setPipe, hl]
  have r0 : ((setPipe s p { s.pipe p with ctxs := (s.pipe p).ctxs.erase k }).ctx k).reqMsg.isSome = true →
      0 < ((setPipe s p { s.pipe p with ctxs := (s.pipe p).ctxs.erase k }).ctx k).retryAtSend →
      k ∈ (setPipe s p { s.pipe p with ctxs := (s.pipe p).ctxs.erase k }).retryQueue := h.rq_place k (by simp)
  generalize setPipe s p { s.pipe p with ctxs := (s.pipe p).ctxs.erase k } = s0 at h0 l0 r0 ⊢
  have lreset : ∀ s' : State, s'.pipe = s0.pipe → ((ctxReset s' k).pipe p).ctxs.length ≤ t.length := by
    intro s' e
    rw [(ctxReset_fields s' k).2.2.2.2.2.2.2]
    show ((s'.pipe p).ctxs.erase k).length ≤ t.length
    rw [e, l0]; exact List.erase_sublist.length_le
  split
  · split
    · refine ⟨inv2_ctxReset k (inv2_setCtx_same k _ h0 ⟨rfl, rfl, rfl, rfl, rfl, rfl⟩), lreset _ rfl⟩
    · refine ⟨inv2_setCtx_same k _ (inv2_ctxReset k h0) ⟨rfl, rfl, rfl, rfl, rfl, rfl⟩, lreset _ rfl⟩
  · rename_i hretry
    split
    · rename_i hreq
      have h2 : Inv2 (some p) (some k) (setCtx s0 k { s0.ctx k with retryTime := s0.now + (s0.ctx k).retry.toNat }) :=
        inv2_setCtx_same k _ h0 ⟨rfl, rfl, rfl, rfl, rfl, rfl⟩
      have c2 : (setCtx s0 k { s0.ctx k with retryTime := s0.now + (s0.ctx k).retry.toNat }).ctx k =
          { s0.ctx k with retryTime := s0.now + (s0.ctx k).retry.toNat } := by simp [setCtx]
      have r2 : 0 < ((setCtx s0 k { s0.ctx k with retryTime := s0.now + (s0.ctx k).retry.toNat }).ctx k).retryAtSend →
          k ∈ (setCtx s0 k { s0.ctx k with retryTime := s0.now + (s0.ctx k).retry.toNat }).retryQueue := by
        rw [c2]; exact r0 hreq
      have q2 : ((setCtx s0 k { s0.ctx k with retryTime := s0.now + (s0.ctx k).retry.toNat }).ctx k).reqMsg.isSome = true := by
        rw [c2]; exact hreq
      have e2 : ((setCtx s0 k { s0.ctx k with retryTime := s0.now + (s0.ctx k).retry.toNat }).ctx k).everRetry = true := by
        rw [c2]; exact h0.ever1 k hreq (show 0 < (s0.ctx k).retry by omega)
      have l2 : ((setCtx s0 k { s0.ctx k with retryTime := s0.now + (s0.ctx k).retry.toNat }).pipe p).ctxs = t := l0
      generalize setCtx s0 k { s0.ctx k with retryTime := s0.now + (s0.ctx k).retry.toNat } = s2 at h2 r2 q2 e2 l2 ⊢
      split
      · rename_i hc
        have hk : k ∈ s2.sendQueue := by simpa using hc
        exact ⟨h2.strengthen k (fun _ => Or.inl hk) (fun _ => r2), by rw [l2]; exact Nat.le_refl _⟩
      · rename_i hc
        have hk : k ∉ s2.sendQueue := by simpa using hc
        have h3 : Inv2 (some p) none { s2 with sendQueue := s2.sendQueue ++ [k] } :=
          invV_enqueue k h2 hk q2 (Or.inl e2) r2
        refine ⟨inv2_runSendQueue h3, ?_⟩
        have := runQ_len (s2.sendQueue ++ [k]).length p h3
        exact Nat.le_trans this (by show (s2.pipe p).ctxs.length ≤ _; rw [l2]; exact Nat.le_refl _)
    · rename_i hreq
      exact ⟨h0.strengthen k (fun hr => absurd hr hreq) (fun hr => absurd hr hreq), by rw [l0]; exact Nat.le_refl _⟩

theorem inv2_closeLoop (fuel : Nat) {s : State} (p : Nat) (h : Inv2 (some p) none s) :
    Inv2 (some p) none (closeLoop fuel s p).1 ∧
    ((closeLoop fuel s p).1.pipe p).ctxs.length ≤ (s.pipe p).ctxs.length - fuel := by
  induction fuel generalizing s with
  | zero => exact ⟨h, Nat.le_refl _⟩
  | succ n ih =>
    unfold closeLoop
    split
    · rename_i hl
      exact ⟨h, by rw [hl]; exact Nat.zero_le _⟩
    · rename_i k t hl
      obtain ⟨h1, l1⟩ := inv2_closeOne p k t h hl
      obtain ⟨h2, l2⟩ := ih h1
      refine ⟨h2, ?_⟩
      have : ((closeLoop n (closeOne s p k).1 p).1.pipe p).ctxs.length ≤ (s.pipe p).ctxs.length - (n + 1) := by
        rw [hl]; simp only [List.length_cons]; omega
      exact this

theorem tranRelease_view {s : State} {h : Nat} (hr : 0 < (s.msgs h).tranRefs) :
    tranRelease s h = { s with msgs := upd s.msgs h { s.msgs h with tranRefs := (s.msgs h).tranRefs - 1 } } := by
  simp [tranRelease, hr, setMsg]

theorem busy_has_ref {y x : Option Nat} {s : State} (h : Inv2 y x s) (p hh : Nat) (hb : (s.pipe p).busy = some hh) :
    0 < (s.msgs hh).tranRefs := by
  have hp : p < s.npipes := by
    apply Nat.lt_of_not_le; intro hge
    have : (s.pipe p).busy = none := (h.out_pipe p hge).1
    rw [this] at hb; cases hb
  have : (s.msgs hh).tranRefs = busyCnt s.pipe s.npipes hh := h.tran hh
  rw [this]; exact busyCnt_pos _ _ _ _ hp hb

theorem view_pipeClosePrep {y x : Option Nat} {s : State} (p : Nat) (h : Inv2 y x s) :
    view (pipeClosePrep s p) = { view s with
      msgs := tranRel s.msgs (s.pipe p).busy
      pipe := upd s.pipe p { s.pipe p with closed := true, busy := none, armed := false }
      readyPipes := s.readyPipes.erase p } := by
  unfold pipeClosePrep
  dsimp only
  cases hb : (s.pipe p).busy with
  | none => dsimp only [tranRel]; split <;> rfl
  | some hh =>
    dsimp only [tranRel]
    have e := tranRelease_view (busy_has_ref h p hh hb)
    split <;> (rw [e]; rfl)

theorem inv2_pipeClosePrep {x : Option Nat} {s : State} (p : Nat) (h : Inv2 none x s) :
    Inv2 (some p) x (pipeClosePrep s p) := by
  unfold Inv2
  rw [view_pipeClosePrep p h]
  refine invV_release p _ h rfl rfl ?_ ?_
  · intro q hq hc
    have e : q ≠ p := fun e => hq (by rw [e])
    rw [upd_other _ _ _ _ e] at hc
    exact h.closed_pipe q (by simp) hc
  · intro q hq
    have e : q = p := Option.some.inj hq
    subst e; rw [upd_same]

theorem InvV.closed_done {x : Option Nat} {v : View} (p : Nat) (h : InvV (some p) x v) (hl : (v.pipe p).ctxs = []) :
    InvV none x v :=
  { h with
    closed_pipe := fun q _ hc => (by
      by_cases e : q = p
      · subst e; exact hl
      · exact h.closed_pipe q (by simpa using e) hc)
    closing := fun q hq => (by cases hq) }

theorem inv2_pipeClose {s : State} (p : Nat) (h : Inv2 none none s) : Inv2 none none (pipeClose s p).1 := by
  unfold pipeClose
  split
  · exact h
  · dsimp only
    obtain ⟨h1, l1⟩ := inv2_closeLoop ((pipeClosePrep s p).pipe p).ctxs.length p (inv2_pipeClosePrep p h)
    have l2 : ((closeLoop ((pipeClosePrep s p).pipe p).ctxs.length (pipeClosePrep s p) p).1.pipe p).ctxs = [] :=
      List.eq_nil_of_length_eq_zero (by omega)
    exact h1.closed_done p l2

/-! ### req0_send_cb, req0_retry_cb -/

theorem inv2_sendCb {s : State} (p : Nat) (h : Inv2 none none s) (hn : p ∉ s.readyPipes) (hp : p < s.npipes)
    (hb : (s.pipe p).busy = none) : Inv2 none none (sendCb s p).1 := by
  unfold sendCb
  split
  · exact h
  · rename_i hc
    dsimp only
    apply inv2_runSendQueue
    have hc' : (s.pipe p).closed = false := by
      cases hx : (s.pipe p).closed
      · rfl
      · rw [hx] at hc; simp at hc
    have h1 : Inv2 none none { s with busyPipes := s.busyPipes.erase p, readyPipes := s.readyPipes ++ [p] } :=
      invV_ready p h hn hp hc' hb
    split
    · exact h1
    · exact h1

theorem view_armTick (s : State) : view (armTick s) = { view s with tickAt := (armTick s).tickAt, tickNever := (armTick s).tickNever } := by
  unfold armTick; split <;> rfl

theorem armTick_armed (s : State) : (armTick s).tickAt.isSome = true ∨ (armTick s).tickNever = true := by
  unfold armTick; split
  · exact Or.inr rfl
  · exact Or.inl rfl

theorem inv2_retryPrep {y : Option Nat} {s : State} (ta0 : Option Nat) (h : Inv2 y none s) :
    Inv2 y none (retryPrep { s with tickAt := ta0 }) := by
  have hn : ((s.retryQueue.filter (retryDue s)).filter fun k => !s.sendQueue.contains k).Nodup :=
    (h.rq_nodup.sublist List.filter_sublist).sublist List.filter_sublist
  have hadd : ∀ k, k ∈ ((s.retryQueue.filter (retryDue s)).filter fun k => !s.sendQueue.contains k) →
      k ∉ s.sendQueue ∧ k ∈ s.retryQueue ∧ (s.ctx k).reqMsg.isSome = true := by
    intro k hk
    rw [List.mem_filter, List.mem_filter] at hk
    obtain ⟨⟨h1, h2⟩, h3⟩ := hk
    refine ⟨by simpa using h3, h1, ?_⟩
    simp only [retryDue, Bool.and_eq_true] at h2
    exact h2.2
  unfold retryPrep
  dsimp only
  split
  · rename_i hne
    unfold Inv2
    rw [view_armTick]
    refine invV_retry _ _ _ _ h hn hadd (fun ha _ => ha) (fun _ _ => ?_)
    exact armTick_armed _
  · rename_i hne
    have hq0 : s.retryQueue = [] := by
      cases hx : s.retryQueue with
      | nil => rfl
      | cons a l => simp [hx] at hne
    exact invV_retry _ false ta0 s.tickNever h hn hadd (fun _ hq => absurd hq0 hq) (fun _ hf => by cases hf)

theorem inv2_retryCb {s : State} (ta0 : Option Nat) (h : Inv2 none none s) :
    Inv2 none none (retryCb { s with tickAt := ta0 }).1 := by
  unfold retryCb
  split
  · exact invV_closeSock ta0 h |> fun h' => by
      rename_i hc
      have : s.sClosed = true := hc
      have e : view { s with tickAt := ta0 } = { view s with sClosed := true, tickAt := ta0 } := by
        simp [view, this]
      unfold Inv2; rw [e]; exact h'
  · split
    · exact inv2_runSendQueue (inv2_retryPrep ta0 h)
    · exact inv2_retryPrep ta0 h

/-! ### user operations -/

theorem inv2_ctxRecv {s : State} (k a : Nat) (mode : Mode) (h : Inv2 none none s) :
    Inv2 none none (ctxRecv s k a mode).1 := by
  unfold ctxRecv
  dsimp only
  split
  · split
    · exact inv2_setCtx_same k _ h ⟨rfl, rfl, rfl, rfl, rfl, rfl⟩
    · exact h
  · split
    · split
      · exact h
      · exact inv2_setCtx_same k _ h ⟨rfl, rfl, rfl, rfl, rfl, rfl⟩
    · have h1 := inv2_setCtx_same k { s.ctx k with repMsg := none } h ⟨rfl, rfl, rfl, rfl, rfl, rfl⟩
      split
      · exact h1
      · exact h1

/-- cancel paths: an optional `dropSend`, then `ctxReset` -/
theorem inv2_dropReset {y : Option Nat} {s : State} (k : Nat) (h : Inv2 y none s) :
    Inv2 y none (ctxReset (dropSend s k) k) :=
  inv2_ctxReset k ((inv2_dropSend k (h.weaken k)).weaken k)

theorem inv2_cancelSend {s : State} (k rv : Nat) (h : Inv2 none none s) : Inv2 none none (cancelSend s k rv).1 := by
  unfold cancelSend
  split
  · exact inv2_dropReset k h
  · exact h

theorem dropSend_ctx (s : State) (k : Nat) : (dropSend s k).ctx k = { s.ctx k with sendAio := none, reqMsg := none } := by
  simp [dropSend, setCtx]

theorem inv2_cancelRecv {s : State} (k rv : Nat) (h : Inv2 none none s) : Inv2 none none (cancelRecv s k rv).1 := by
  unfold cancelRecv
  split
  · exact h
  · dsimp only
    cases hs : (s.ctx k).sendAio with
    | none =>
      dsimp only
      exact inv2_ctxReset k ((inv2_setCtx_same k { s.ctx k with recvAio := none } h ⟨rfl, rfl, rfl, rfl, rfl, rfl⟩).weaken k)
    | some ua =>
      dsimp only
      exact inv2_ctxReset k ((inv2_setCtx_same k { (dropSend s k).ctx k with recvAio := none }
        (inv2_dropSend k (h.weaken k)) ⟨rfl, rfl, rfl, rfl, rfl, rfl⟩).weaken k)

/-- the common prefix of req0_ctx_send and req0_ctx_fini: fail the parked receive, hand back a
    parked send, reset -/
def finiChain (s : State) (k : Nat) (e : Nat) : State × List Out :=
  let r1 : State × List Out := match (s.ctx k).recvAio with
    | some ua => (setCtx s k { s.ctx k with recvAio := none }, [Out.done ua.aio e none false])
    | none => (s, [])
  let r2 : State × List Out := match (r1.1.ctx k).sendAio with
    | some ua => (dropSend r1.1 k, [Out.done ua.aio e none true])
    | none => (r1.1, [])
  (ctxReset r2.1 k, r1.2 ++ r2.2)

theorem ctxSendPrep_eq (s : State) (k : Nat) : ctxSendPrep s k = finiChain s k Err.ecanceled := rfl

theorem dropSend_fields (s : State) (k : Nat) :
    (dropSend s k).opened = s.opened ∧ (dropSend s k).nalloc = s.nalloc ∧ (dropSend s k).readyPipes = s.readyPipes ∧
    (dropSend s k).sClosed = s.sClosed := by
  unfold dropSend
  dsimp only
  cases (s.ctx k).reqMsg with
  | none => exact ⟨rfl, rfl, rfl, rfl⟩
  | some h =>
    dsimp only
    simp only [giveBack, setMsg, flag, setCtx]
    (repeat' split) <;> exact ⟨rfl, rfl, rfl, rfl⟩

theorem inv2_finiChain {s : State} (k e : Nat) (h : Inv2 none none s) :
    Inv2 none none (finiChain s k e).1 ∧ k ∉ (finiChain s k e).1.retryQueue ∧
    ((finiChain s k e).1.ctx k).reqMsg = none ∧ (finiChain s k e).1.opened = s.opened ∧
    (finiChain s k e).1.nalloc = s.nalloc ∧ (finiChain s k e).1.readyPipes = s.readyPipes ∧
    (finiChain s k e).1.sClosed = s.sClosed := by
  unfold finiChain
  dsimp only
  have key : ∀ s1 : State, Inv2 none none s1 → s1.opened = s.opened → s1.nalloc = s.nalloc → s1.readyPipes = s.readyPipes →
      s1.sClosed = s.sClosed →
      Inv2 none none (ctxReset s1 k) ∧ k ∉ (ctxReset s1 k).retryQueue ∧ ((ctxReset s1 k).ctx k).reqMsg = none ∧
      (ctxReset s1 k).opened = s.opened ∧ (ctxReset s1 k).nalloc = s.nalloc ∧ (ctxReset s1 k).readyPipes = s.readyPipes ∧
      (ctxReset s1 k).sClosed = s.sClosed := by
    intro s1 h1 e1 e2 e3 e4
    obtain ⟨f1, f2, f3, f4, _, f6, f7, _⟩ := ctxReset_fields s1 k
    refine ⟨inv2_ctxReset k (h1.weaken k), ?_, f2, by rw [f3, e1], by rw [f4, e2], by rw [f6, e3], by rw [f7, e4]⟩
    rw [f1]; exact h1.rq_nodup.not_mem_erase
  cases hr : (s.ctx k).recvAio with
  | none =>
    dsimp only
    cases hs : (s.ctx k).sendAio with
    | none => exact key s h rfl rfl rfl rfl
    | some ua =>
      obtain ⟨d1, d2, d3, d4⟩ := dropSend_fields s k
      exact key _ (inv2_dropSend k (h.weaken k)) d1 d2 d3 d4
  | some ra =>
    dsimp only
    have h1 : Inv2 none none (setCtx s k { s.ctx k with recvAio := none }) :=
      inv2_setCtx_same k _ h ⟨rfl, rfl, rfl, rfl, rfl, rfl⟩
    cases hs : ((setCtx s k { s.ctx k with recvAio := none }).ctx k).sendAio with
    | none => exact key _ h1 rfl rfl rfl rfl
    | some ua =>
      obtain ⟨d1, d2, d3, d4⟩ := dropSend_fields (setCtx s k { s.ctx k with recvAio := none }) k
      exact key _ (inv2_dropSend k (h1.weaken k)) d1 d2 d3 d4

theorem inv2_ctxFini {s : State} (k : Nat) (h : Inv2 none none s) : Inv2 none none (ctxFini s k).1 := by
  have := (inv2_finiChain k Err.eclosed h).1
  exact inv2_setCtx_same k _ this ⟨rfl, rfl, rfl, rfl, rfl, rfl⟩

/-! ### req0_ctx_send -/

theorem view_install (s : State) (k a : Nat) (m : WMsg) (mode : Mode) :
    view { installReq s k a m mode s.nalloc with sendQueue := (installReq s k a m mode s.nalloc).sendQueue ++ [k] } =
    vInstall (view s) k m.body (some ⟨a, deadlineOf s.now mode⟩)
      (if (s.ctx k).retry > 0 then s.now + (s.ctx k).retry.toNat else (s.ctx k).retryTime)
      (installPrep s k s.nalloc m.body (decide ((s.ctx k).retry > 0))).retryActive
      (installPrep s k s.nalloc m.body (decide ((s.ctx k).retry > 0))).tickAt
      (installPrep s k s.nalloc m.body (decide ((s.ctx k).retry > 0))).tickNever := by
  unfold installReq installPrep vInstall installCtx
  by_cases hr : (s.ctx k).retry > 0
  · have hr' : 0 < (s.ctx k).retry := hr
    simp only [hr, decide_true, if_true]
    split
    · by_cases ht : s.retryTick < 0
      · simp [view, setCtx, setMsg, armTick, ht, hr']
      · simp [view, setCtx, setMsg, armTick, ht, hr']
    · simp [view, setCtx, setMsg, hr']
  · have hr' : ¬ 0 < (s.ctx k).retry := hr
    simp only [hr, decide_false, if_false]
    simp [view, setCtx, setMsg, hr']

theorem installPrep_timer (s : State) (k i : Nat) (b : Bytes) (hr : Bool) (h : Inv2 none (some k) s) :
    ((s.retryActive = true ∨ hr = true) → (installPrep s k i b hr).retryActive = true) ∧
    (s.sClosed = false → (installPrep s k i b hr).retryActive = true →
      (installPrep s k i b hr).tickAt.isSome = true ∨ (installPrep s k i b hr).tickNever = true) := by
  cases hr with
  | false =>
    have : installPrep s k i b false = setMsg s i { body := b, ctxRef := true } := by simp [installPrep]
    rw [this]
    exact ⟨fun e => e.elim (fun e' => e') (fun e' => by cases e'), h.timer⟩
  | true =>
    by_cases ha : s.retryActive = true
    · have : installPrep s k i b true =
          { setMsg s i { body := b, ctxRef := true } with retryQueue := s.retryQueue ++ [k] } := by
        simp [installPrep, setMsg, ha]
      rw [this]; exact ⟨fun _ => ha, fun hc _ => h.timer hc ha⟩
    · have : installPrep s k i b true =
          armTick { setMsg s i { body := b, ctxRef := true } with retryQueue := s.retryQueue ++ [k], retryActive := true } := by
        simp [installPrep, setMsg, ha]
      rw [this]
      exact ⟨fun _ => by unfold armTick; split <;> rfl, fun _ _ => armTick_armed _⟩

theorem inv2_ctxSend {s : State} (k a : Nat) (m : WMsg) (mode : Mode) (h : Inv2 none none s) (ho : s.opened = true) :
    Inv2 none none (ctxSend s k a m mode).1 := by
  unfold ctxSend
  split
  · exact h
  · dsimp only
    rw [ctxSendPrep_eq]
    obtain ⟨h1, q1, c1, o1, n1, _, _⟩ := inv2_finiChain k Err.ecanceled h
    generalize finiChain s k Err.ecanceled = r at h1 q1 c1 o1 n1 ⊢
    have h2 : Inv2 none none { r.1 with nalloc := r.1.nalloc + 1 } := invV_bump h1
    split
    · exact h2
    · apply inv2_runSendQueue
      have e := view_install { r.1 with nalloc := r.1.nalloc + 1 } k a m mode
      have pt := installPrep_timer { r.1 with nalloc := r.1.nalloc + 1 } k (r.1.nalloc + 1) m.body
        (decide ((r.1.ctx k).retry > 0)) (h2.weaken k)
      unfold Inv2
      refine Eq.mpr (congrArg (InvV none none) e) ?_
      refine invV_install k _ _ _ _ _ _ (h2.weaken k) (by rw [← o1] at ho; exact ho) c1 q1 (Nat.succ_ne_zero _) ⟨?_, ?_, ?_⟩ ?_ pt.2
      · intro k' hh hr; have := (h1.req_id k' hh hr).2.2; exact Nat.lt_succ_of_le this
      · intro p hh hb; have := h1.busy_le p hh hb; exact Nat.lt_succ_of_le this
      · intro z hz; have := (h1.wire_body z hz).1; exact Nat.lt_succ_of_le this
      · intro hx
        apply pt.1
        rcases hx with hx | hx
        · exact Or.inl hx
        · exact Or.inr (decide_eq_true hx)

/-! ### time -/

theorem foldSteps_ind (P : State → Prop) (ks : List Nat) (f : State → Nat → State × List Out)
    (hf : ∀ s k, P s → P (f s k).1) {s : State} (h : P s) : P (foldSteps ks f s).1 := by
  unfold foldSteps
  suffices ∀ (acc : State × List Out), P acc.1 →
      P (ks.foldl (fun (acc : State × List Out) k => ((f acc.1 k).1, acc.2 ++ (f acc.1 k).2)) acc).1 from this (s, []) h
  induction ks with
  | nil => intro acc ha; exact ha
  | cons k t ih => intro acc ha; exact ih _ (hf _ _ ha)

theorem inv2_expireOne {s : State} (k : Nat) (h : Inv2 none none s) : Inv2 none none (expireOne s k).1 := by
  unfold expireOne
  dsimp only
  have h1 : Inv2 none none (if dueAio s.now (s.ctx k).recvAio = true then cancelRecv s k Err.etimedout else (s, [])).1 := by
    split
    · exact inv2_cancelRecv _ _ h
    · exact h
  generalize (if dueAio s.now (s.ctx k).recvAio = true then cancelRecv s k Err.etimedout else (s, [])) = r1 at h1 ⊢
  split
  · exact inv2_cancelSend _ _ h1
  · exact h1

theorem inv2_advance {s : State} (ms : Nat) (h : Inv2 none none s) : Inv2 none none (advance s ms).1 := by
  unfold advance
  dsimp only
  have h0 : Inv2 none none { s with now := s.now + ms } := h
  have h1 := foldSteps_ind (Inv2 none none) ctxKeys expireOne (fun s k hs => inv2_expireOne k hs) h0
  generalize foldSteps ctxKeys expireOne { s with now := s.now + ms } = r at h1 ⊢
  split
  · split
    · exact inv2_retryCb none h1
    · exact h1
  · exact h1

/-! ### every harness event -/

theorem invV_open {y x : Option Nat} {v : View} (h : InvV y x v) : InvV y x { v with opened := true } := by
  constructor <;> dsimp only
  frame h
  case unopened => intro ho; cases ho

theorem inv2_sendDonePrep {s : State} (p hh : Nat) (h : Inv2 none none s) (hb : (s.pipe p).busy = some hh) :
    Inv2 none none (setPipe (tranRelease s hh) p { (tranRelease s hh).pipe p with busy := none }) ∧
    (setPipe (tranRelease s hh) p { (tranRelease s hh).pipe p with busy := none }).readyPipes = s.readyPipes ∧
    ((setPipe (tranRelease s hh) p { (tranRelease s hh).pipe p with busy := none }).pipe p).busy = none ∧
    (setPipe (tranRelease s hh) p { (tranRelease s hh).pipe p with busy := none }).npipes = s.npipes := by
  rw [tranRelease_view (busy_has_ref h p hh hb)]
  refine ⟨?_, rfl, by simp [setPipe], rfl⟩
  have hn : p ∉ s.readyPipes := by
    intro hm
    have : (s.pipe p).busy = none := (h.ready_ok p hm).2.2
    rw [this] at hb; cases hb
  have := invV_release (y' := none) p { s.pipe p with busy := none } h rfl rfl
    (fun q hq hc => by
      have : (s.pipe q).closed = true := by
        by_cases e : q = p
        · subst e; rw [upd_same] at hc; exact hc
        · rw [upd_other _ _ _ _ e] at hc; exact hc
      exact h.closed_pipe q hq this)
    (fun q hq => by cases hq)
  have e1 : (view s).readyPipes.erase p = s.readyPipes := List.erase_of_not_mem hn
  have e2 : tranRel (view s).msgs ((view s).pipe p).busy = upd s.msgs hh { s.msgs hh with tranRefs := (s.msgs hh).tranRefs - 1 } := by
    show tranRel s.msgs (s.pipe p).busy = _
    rw [hb]; rfl
  rw [e1, e2] at this
  exact this

theorem inv2_setArmed {y x : Option Nat} {s : State} (p : Nat) (a : Bool) (h : Inv2 y x s) :
    Inv2 y x (setPipe s p { s.pipe p with armed := a }) := by
  have hq : ∀ q, (upd s.pipe p { s.pipe p with armed := a } q).closed = (s.pipe q).closed ∧
      (upd s.pipe p { s.pipe p with armed := a } q).busy = (s.pipe q).busy ∧
      (upd s.pipe p { s.pipe p with armed := a } q).ctxs = (s.pipe q).ctxs := by
    intro q; by_cases e : q = p
    · subst e; rw [upd_same]; exact ⟨rfl, rfl, rfl⟩
    · rw [upd_other _ _ _ _ e]; exact ⟨rfl, rfl, rfl⟩
  exact invV_pipe_congr _ h (fun q => (hq q).1) (fun q => (hq q).2.1) (fun q => (hq q).2.2)

theorem inv2_step {s : State} (hi : Inv s) (h : Inv2 none none s) (ev : Ev) : Inv2 none none (step s ev).1 := by
  have hdead : ∀ k, (s.ctx k).live = false → (s.ctx k).reqMsg = none := by
    intro k hl
    cases hm : (s.ctx k).reqMsg with
    | none => rfl
    | some hh =>
      obtain ⟨a, b, _⟩ := h.req_id k hh hm
      have : (s.ctx k).requestId = hh := a
      rw [hi.dead k hl] at this
      exact absurd this.symm b
  unfold step
  split
  · -- not yet opened
    rename_i hop
    have ho : s.opened = false := by simpa using hop
    split
    · split
      · exact h
      · have h1 : InvV none none { view s with ctx := upd s.ctx 0 { s.ctx 0 with live := true, retry := (Nng.Generated.reqResendTimeDefault : Int) } } :=
          invV_tweak 0 _ h rfl (fun hr => by
            have : (s.ctx 0).reqMsg = none := h.unopened ho 0
            have hr' : (s.ctx 0).reqMsg.isSome = true := hr
            rw [this] at hr'; cases hr') (fun he => h.cnt1 0 he)
        exact invV_open h1
    · exact h
    · exact h
  · rename_i hop
    have ho : s.opened = true := by simpa using hop
    split
    · split
      · exact h
      · exact h
    · split
      · exact h
      · -- pipeAdd
        dsimp only
        split
        · exact invV_pipeAdd { closed := true } false h rfl rfl (fun e => by cases e)
        · apply inv2_runSendQueue
          exact invV_pipeAdd { closed := false, armed := true } true h rfl rfl (fun _ => rfl)
      · -- pipeDrop
        split
        · exact inv2_pipeClose _ h
        · exact h
      · -- sendDone
        split
        · rename_i hp
          split
          · rename_i hh hb
            dsimp only
            obtain ⟨h1, r1, b1, n1⟩ := inv2_sendDonePrep _ hh h hb
            split
            · exact inv2_pipeClose _ h1
            · refine inv2_sendCb _ h1 ?_ ?_ b1
              · rw [r1]; intro hm
                have : (s.pipe _).busy = none := (h.ready_ok _ hm).2.2
                rw [this] at hb; cases hb
              · rw [n1]; simp at hp; exact hp.1
          · exact h
        · exact h
      · -- recvDone
        split
        · dsimp only
          have h1 : ∀ a : Bool, ∀ p, Inv2 none none (setPipe s p { s.pipe p with armed := a }) :=
            fun a p => inv2_setArmed p a h
          split
          · exact inv2_pipeClose _ (h1 _ _)
          · split
            · exact inv2_pipeClose _ (h1 _ _)
            · exact inv2_recvCb (inv2_setArmed _ true (h1 false _)) _ _
        · exact h
      · -- send
        split
        · exact h
        · split
          · exact h
          · split
            · exact h
            · exact inv2_ctxSend _ _ _ _ h ho
      · -- recv
        split
        · exact h
        · split
          · exact h
          · split
            · exact h
            · exact inv2_ctxRecv _ _ _ h
      · -- cancel
        split
        · exact inv2_cancelRecv _ _ h
        · exact inv2_cancelSend _ _ h
        · exact h
      · -- abort
        split
        · exact inv2_cancelRecv _ _ h
        · exact inv2_cancelSend _ _ h
        · exact h
      · -- advance
        exact inv2_advance _ h
      · -- ctxOpen
        split
        · exact h
        · split
          · exact h
          · rename_i c _ hl
            have hl' : (s.ctx (c + 1)).live = false := by simpa using hl
            have hm := hdead _ hl'
            exact invV_tweak (c + 1) { live := true, retry := s.sockRetry } h hm.symm
              (fun hr => by have hr' : (s.ctx (c + 1)).reqMsg.isSome = true := hr; rw [hm] at hr'; cases hr')
              (fun _ => Nat.zero_le _)
      · -- ctxClose
        split
        · exact h
        · split
          · exact inv2_ctxFini _ h
          · exact h
      · -- setopt
        split
        · exact h
        · split
          · split
            · exact h
            · split
              · exact h
              · split
                · exact h
                · dsimp only
                  have key : ∀ (k : Nat) (v : Int) (s' : State), Inv2 none none s' → s'.ctx = s.ctx →
                      Inv2 none none (setCtx s' k { s.ctx k with retry := v, everRetry := (s.ctx k).everRetry || decide (v > 0) }) := by
                    intro k v s' h' e'
                    refine invV_tweak k _ h' (by show _ = (s'.ctx k).reqMsg; rw [e'])
                      (fun _ => by
                        show _ = (s'.ctx k).requestId ∧ _ = (s'.ctx k).retryAtSend ∧
                          _ = (s'.ctx k).wireCount ∧ ((s'.ctx k).everRetry = true → _) ∧ _
                        rw [e']
                        refine ⟨rfl, rfl, rfl, fun he => ?_, fun hp => ?_⟩
                        · simp [he]
                        · have : decide (v > 0) = true := decide_eq_true hp
                          simp [this]) (fun he => ?_)
                    have he' : ((s.ctx k).everRetry || decide (v > 0)) = false := he
                    have : (s.ctx k).everRetry = false := by
                      cases hx : (s.ctx k).everRetry
                      · rfl
                      · rw [hx] at he'; simp at he'
                    exact h.cnt1 k this
                  split
                  · exact key _ _ _ h rfl
                  · exact key _ _ _ h rfl
          · split
            · split
              · split <;> exact h
              · split
                · exact h
                · split
                  · exact h
                  · exact h
            · exact h
      · -- getopt
        (repeat' split) <;> exact h
      · exact h
      · exact h
      · exact h
      · -- close
        dsimp only
        have h1 := foldSteps_ind (Inv2 none none) ((List.range nCtxSlots).map (· + 1))
          (fun s k => if (s.ctx k).live then ctxFini s k else (s, []))
          (fun s k hs => by split; exact inv2_ctxFini k hs; exact hs) h
        generalize foldSteps ((List.range nCtxSlots).map (· + 1))
          (fun s k => if (s.ctx k).live then ctxFini s k else (s, [])) s = r1 at h1 ⊢
        have h2 := foldSteps_ind (Inv2 none none) (List.range r1.1.npipes) pipeClose (fun s k hs => inv2_pipeClose k hs) h1
        generalize foldSteps (List.range r1.1.npipes) pipeClose r1.1 = r2 at h2 ⊢
        have h3 : Inv2 none none { r2.1 with sClosed := true, tickAt := none } := invV_closeSock none h2
        exact inv2_ctxFini 0 h3

theorem inv2_run (evs : List Ev) {s : State} (hi : Inv s) (h : Inv2 none none s) : Inv2 none none (run s evs).1 := by
  induction evs generalizing s with
  | nil => exact h
  | cons e es ih =>
    unfold run
    exact ih (inv_step hi e) (inv2_step hi h e)

theorem inv2_reachable (evs : List Ev) : Inv2 none none (run {} evs).1 := inv2_run evs inv_init inv2_init

end Nng.Req
