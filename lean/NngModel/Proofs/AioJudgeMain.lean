/- "the monitor accepts every execution of the aio model": one step, then induction over the
   label list -/
import NngModel.Proofs.AioJudgeH1
import NngModel.Proofs.AioJudgeH2
import NngModel.Proofs.AioJudgeH3
import NngModel.Proofs.AioJudgeH4
import NngModel.Proofs.AioJudgeV1
import NngModel.Proofs.AioJudgeV2
import NngModel.Proofs.AioJudgeV3
import NngModel.Proofs.AioJudgeV5
import NngModel.Proofs.AioJudgeAb2
import NngModel.Proofs.AioJudgeFree
namespace Nng.Aio
open Nng.AioSpec

variable {s s' : State} {g : G} {j : J} {k : Nat}

/-- one step of the model, followed by the monitor's steps on its observations other than the
    returns of `nng_aio_abort` calls, keeps the relation; the slack grows by the number of
    `nng_aio_abort` calls that have done their work with this step (or the aio's life ends, when it
    is the return of nng_aio_free) -/
theorem rel_step_core (l : Label) (hR : R k s g j) (i1 : Inv1 s) (i2 : Inv2 s) (i3 : Inv3 s) (i4 : Inv4 s)
    (hc : okL s g l = true) (hk0 : l = .stopCall true → k = 0) (hs : step Cfg.fixed s l = some s') :
    R (k + retK s g l) s' (gStep s g l) (judgeFrom j (obsCore s l)) ∨
      (Rf s' (judgeFrom j (obsCore s l)) ∧ retK s g l = 0 ∧ k = 0) := by
  cases l with
  | tick d => exact Or.inl (rel_tick d hR i1 i2 i3 i4 hs)
  | setTimeout t => exact Or.inl (rel_setTimeout t hR i1 i2 i3 i4 hs)
  | setExpire e => exact Or.inl (rel_setExpire e hR i1 i2 i3 i4 hs)
  | skipArm => exact Or.inl (rel_skipArm hR i1 i2 i3 i4 hs)
  | subCall kd f => exact Or.inl (rel_subCall kd f hR i1 i2 i3 i4 hc hs)
  | prepare => exact Or.inl (rel_prepare hR i1 i2 i3 i4 hs)
  | begin => exact Or.inl (rel_begin hR i1 i2 i3 i4 hs)
  | direct => exact Or.inl (rel_direct hR i1 i2 i3 i4 hs)
  | subRet b v => exact Or.inl (rel_subRet b v hR i1 i2 i3 i4 hs)
  | complete rv => exact Or.inl (rel_complete rv hR i1 i2 i3 i4 hc hs)
  | finish => exact Or.inl (rel_finish hR i1 i2 i3 i4 hs)
  | abortCall rv => exact Or.inl (rel_abortCall rv hR i1 i2 i3 i4 hs)
  | abortSec rv => exact Or.inl (rel_abortSec rv hR i1 i2 i3 i4 hs)
  | closeCall => exact Or.inl (rel_closeCall hR i1 i2 i3 i4 hs)
  | closeSec => exact Or.inl (rel_closeSec hR i1 i2 i3 i4 hs)
  | callCancel p rv => exact Or.inl (rel_callCancel p rv hR i1 i2 i3 i4 hs)
  | stopCall f =>
    exact Or.inl (rel_stopCall f hR i1 i2 i3 i4 (fun hf => hk0 (by rw [hf])) hs)
  | stopMark => exact Or.inl (rel_stopMark hR i1 i2 i3 i4 hs)
  | stopTake => exact Or.inl (rel_stopTake hR i1 i2 i3 i4 hs)
  | stopCancel => exact Or.inl (rel_stopCancel hR i1 i2 i3 i4 hs)
  | stopWait => exact Or.inl (rel_stopWait hR i1 i2 i3 i4 hs)
  | stopRet =>
    rcases rel_stopRet hR i1 i2 i3 i4 hs with h | h
    · exact Or.inl h
    · exact Or.inr ⟨h.1, rfl, h.2⟩
  | expScan => exact Or.inl (rel_expScan hR i1 i2 i3 i4 hs)
  | expTake => exact Or.inl (rel_expTake hR i1 i2 i3 i4 hs)
  | expCall => exact Or.inl (rel_expCall hR i1 i2 i3 i4 hs)
  | expRelease => exact Or.inl (rel_expRelease hR i1 i2 i3 i4 hs)
  | pop => exact Or.inl (rel_pop hR i1 i2 i3 i4 hs)
  | cbRead => exact Or.inl (rel_cbRead hR i1 i2 i3 i4 hs)
  | cbDone => exact Or.inl (rel_cbDone hR i1 i2 i3 i4 hs)
  | peek => exact Or.inl (rel_peek hR hs)

/-- the monitor sees `n` of the pending returns of `nng_aio_abort` calls -/
theorem rel_abortRets (n : Nat) : ∀ {k : Nat} {j : J}, R (k + n) s g j →
    R k s g (judgeFrom j (List.replicate n .abortRet)) := by
  induction n with
  | zero => intro k j h; simpa [judgeFrom] using h
  | succ n ih =>
    intro k j h
    simp only [List.replicate_succ, judgeFrom, List.foldl_cons]
    have h1 : R (k + n) s g (AioSpec.step j .abortRet) := rel_abortRet (by rw [Nat.add_assoc]; exact h)
    exact ih h1

/-- the relation reads the ghost only through `abE` -/
theorem R_congr_g {g1 g2 : G} (h1 : g1.abE = g2.abE) (h : R k s g1 j) :
    R k s g2 j := by
  rcases h with ⟨⟨b1,b2,b3,b4,b5,b6,b7,b8,b9,b10,b11,b12,b13,b14,b15,b16,b17,b18,b19,b20⟩, hh, ht⟩
  refine ⟨⟨b1,b2,b3,b4,b5,b6,b7,b8,b9,b10,b11,b12,b13,b14,?_,b16,b17,b18,b19,b20⟩, hh, ht⟩
  rw [← h1]; exact b15

/-- one step with the returns of `nng_aio_abort` observed at once (`obsX`) -/
theorem rel_step (l : Label) (hR : R 0 s g j) (i1 : Inv1 s) (i2 : Inv2 s) (i3 : Inv3 s) (i4 : Inv4 s)
    (hc : okL s g l = true) (hs : step Cfg.fixed s l = some s') :
    R 0 s' (gStep s g l) (judgeFrom j (obsX s g l)) ∨ Rf s' (judgeFrom j (obsX s g l)) := by
  rw [obsX_eq, judgeFrom_append]
  rcases rel_step_core l hR i1 i2 i3 i4 hc (fun _ => rfl) hs with h | h
  · left
    exact rel_abortRets (retK s g l) (by simpa using h)
  · right
    rw [h.2.1]
    simpa [judgeFrom] using h.1

/-- one step under a return policy (`obsP`): the slack is the ghost's number of pending returns -/
theorem rel_stepP (pol : RetPolicy) (l : Label) (hR : R g.ret s g j) (i1 : Inv1 s) (i2 : Inv2 s) (i3 : Inv3 s)
    (i4 : Inv4 s) (hc : okLP s g l = true) (hs : step Cfg.fixed s l = some s') :
    R (gStepP pol s g l).ret s' (gStepP pol s g l) (judgeFrom j (obsP pol s g l)) ∨
      (Rf s' (judgeFrom j (obsP pol s g l)) ∧ (gStepP pol s g l).ret = 0) := by
  simp only [okLP, Bool.and_eq_true] at hc
  obtain ⟨hc1, hc2⟩ := hc
  have hk0 : l = .stopCall true → g.ret = 0 := by
    intro hl; subst hl; simpa using hc2
  have hle : retNow pol s g l ≤ g.ret + retK s g l := Nat.min_le_right _ _
  simp only [obsP, judgeFrom_append]
  rcases rel_step_core l hR i1 i2 i3 i4 hc1 hk0 hs with h | h
  · left
    have h' : R ((g.ret + retK s g l - retNow pol s g l) + retNow pol s g l) s' (gStep s g l)
        (judgeFrom j (obsCore s l)) := by
      rw [Nat.sub_add_cancel hle]; exact h
    have h2 := rel_abortRets (retNow pol s g l) h'
    exact R_congr_g (g1 := gStep s g l) rfl h2
  · right
    have hn : retNow pol s g l = 0 := by
      have := h.2.1; have := h.2.2; omega
    refine ⟨?_, ?_⟩
    · rw [hn]; simpa [judgeFrom] using h.1
    · show g.ret + retK s g l - retNow pol s g l = 0
      have := h.2.1; have := h.2.2; omega

/-- the ghost at the end of an execution -/
def ghostEnd (cfg : Cfg) (s : State) (g : G) : List Label → G
  | [] => g
  | l :: ls => match step cfg s l with
    | some s' => ghostEnd cfg s' (gStep s g l) ls
    | none => g

/-- from any related pair of states the relation holds again at the end of the execution -/
theorem rel_run (ls : List Label) : ∀ (s : State) (g : G) (j : J) (se : State),
    Inv1 s → Inv2 s → Inv3 s → Inv4 s → (R 0 s g j ∨ Rf s j) → (∀ l ∈ ls, NoSleepL l) →
    Contract Cfg.fixed s g ls → run Cfg.fixed s ls = some se →
    (Inv1 se ∧ Inv2 se ∧ Inv3 se ∧ Inv4 se) ∧
    (R 0 se (ghostEnd Cfg.fixed s g ls) (judgeFrom j (traceX Cfg.fixed s g ls)) ∨
      Rf se (judgeFrom j (traceX Cfg.fixed s g ls))) := by
  induction ls with
  | nil =>
    intro s g j se i1 i2 i3 i4 hR _ _ hr
    simp only [run, Option.some.injEq] at hr
    subst hr
    simp only [traceX, judgeFrom, List.foldl, ghostEnd]
    exact ⟨⟨i1, i2, i3, i4⟩, hR⟩
  | cons l ls ih =>
    intro s g j se i1 i2 i3 i4 hR hn hc hr
    simp only [run] at hr
    cases hs : step Cfg.fixed s l with
    | none => rw [hs] at hr; cases hr
    | some s1 =>
      rw [hs] at hr
      simp only [traceX, ghostEnd, hs, judgeFrom_append]
      have hl : NoSleepL l := hn l (by simp)
      obtain ⟨hok, hc'⟩ := contract_cons hc hs
      have hR' : R 0 s1 (gStep s g l) (judgeFrom j (obsX s g l)) ∨ Rf s1 (judgeFrom j (obsX s g l)) := by
        rcases hR with h | h
        · exact rel_step l h i1 i2 i3 i4 hok hs
        · right
          obtain ⟨h1, h2⟩ := rel_freed (g := g) l h i1 i3 i4 hok hs
          rw [obsX_eq, h2]
          simpa using h1
      exact ih s1 (gStep s g l) _ se (inv1_step i1 hl hs) (inv2_step i1 i2 hl hs) (inv3_step i1 i3 hl hs)
        (inv4_step i1 i3 i4 hl hok hs) hR' (fun x hx => hn x (by simp [hx])) hc' hr

/-- the same under a return policy -/
theorem rel_runP (pol : RetPolicy) (ls : List Label) : ∀ (s : State) (g : G) (j : J) (se : State),
    Inv1 s → Inv2 s → Inv3 s → Inv4 s → (R g.ret s g j ∨ (Rf s j ∧ g.ret = 0)) → (∀ l ∈ ls, NoSleepL l) →
    ContractP Cfg.fixed pol s g ls → run Cfg.fixed s ls = some se →
    (Inv1 se ∧ Inv2 se ∧ Inv3 se ∧ Inv4 se) ∧
    ((∃ ge, R ge.ret se ge (judgeFrom j (traceP Cfg.fixed pol s g ls))) ∨
      Rf se (judgeFrom j (traceP Cfg.fixed pol s g ls))) := by
  induction ls with
  | nil =>
    intro s g j se i1 i2 i3 i4 hR _ _ hr
    simp only [run, Option.some.injEq] at hr
    subst hr
    simp only [traceP, judgeFrom, List.foldl]
    refine ⟨⟨i1, i2, i3, i4⟩, ?_⟩
    rcases hR with h | h
    · exact Or.inl ⟨g, h⟩
    · exact Or.inr h.1
  | cons l ls ih =>
    intro s g j se i1 i2 i3 i4 hR hn hc hr
    simp only [run] at hr
    cases hs : step Cfg.fixed s l with
    | none => rw [hs] at hr; cases hr
    | some s1 =>
      rw [hs] at hr
      simp only [traceP, hs, judgeFrom_append]
      have hl : NoSleepL l := hn l (by simp)
      obtain ⟨hok, hc'⟩ := contractP_cons hc hs
      have hok1 : okL s g l = true := by
        simp only [okLP, Bool.and_eq_true] at hok; exact hok.1
      have hR' : R (gStepP pol s g l).ret s1 (gStepP pol s g l) (judgeFrom j (obsP pol s g l)) ∨
          (Rf s1 (judgeFrom j (obsP pol s g l)) ∧ (gStepP pol s g l).ret = 0) := by
        rcases hR with h | h
        · exact rel_stepP pol l h i1 i2 i3 i4 hok hs
        · right
          obtain ⟨h1, h2⟩ := rel_freed (g := g) l h.1 i1 i3 i4 hok1 hs
          have hn0 : retNow pol s g l = 0 := by
            have := Nat.min_le_right (pol s g l) (g.ret + retK s g l)
            simp only [retNow]; omega
          refine ⟨?_, ?_⟩
          · simp only [obsP, hn0, List.replicate, List.append_nil]; exact h1
          · show g.ret + retK s g l - retNow pol s g l = 0
            omega
      exact ih s1 (gStepP pol s g l) _ se (inv1_step i1 hl hs) (inv2_step i1 i2 hl hs) (inv3_step i1 i3 hl hs)
        (inv4_step i1 i3 i4 hl hok1 hs) hR' (fun x hx => hn x (by simp [hx])) hc' hr

/-- the monitor accepts the extended observable trace of every execution of the repaired model
    that uses the generic provider and in which the environment keeps to the contract -/
theorem judge_accepts (ls : List Label) (se : State) (hn : ∀ l ∈ ls, NoSleepL l)
    (hc : Contract Cfg.fixed {} {} ls) (hr : run Cfg.fixed {} ls = some se) :
    judge (traceX Cfg.fixed {} {} ls) = none := by
  rw [judge_eq]
  rcases (rel_run ls {} {} {} se inv1_init inv2_init inv3_init inv4_init (Or.inl init_R) hn hc hr).2 with h | h
  · exact h.base.err
  · exact h.err

/-- ... and, when the execution ends with everything drained (task idle, no start call in
    progress or unreturned), also the end-of-execution clause: as many reports as operations -/
theorem judge_accepts_quiet (ls : List Label) (se : State) (hn : ∀ l ∈ ls, NoSleepL l)
    (hc : Contract Cfg.fixed {} {} ls) (hr : run Cfg.fixed {} ls = some se)
    (hb : se.busy = 0) (hsub : se.subPc = 0) (hrets : se.subRets = []) :
    judge (traceX Cfg.fixed {} {} ls ++ [.quiet]) = none := by
  rw [judge_eq, judgeFrom_append]
  obtain ⟨⟨i1, -, -, -⟩, hR⟩ :=
    rel_run ls {} {} {} se inv1_init inv2_init inv3_init inv4_init (Or.inl init_R) hn hc hr
  generalize judgeFrom {} (traceX Cfg.fixed {} {} ls) = je at hR
  simp only [judgeFrom, List.foldl]
  rcases hR with h | h
  · have hdone : je.reports = je.ops.length := by
      obtain ⟨-, -, -, -, -, -, -, -, z9, z10⟩ := busy_zero i1 hb
      have hp := pend_nil hrets
      have := h.base.rep; have := h.base.len; have hcn := i1.cnt
      cases ht : se.opTok
      · simp only [ht, b2n, Bool.false_eq_true, ↓reduceIte] at hcn; omega
      · have := z10 ht; omega
    simp [AioSpec.step.eq_def, h.base.err, h.base.nfree, hdone]
  · simp [AioSpec.step.eq_def, h.err, h.free, h.done]

/-- the same for every return policy: however late (or never) the returns of the
    `nng_aio_abort` calls are observed, the monitor accepts -/
theorem judge_accepts_delayed (pol : RetPolicy) (ls : List Label) (se : State) (hn : ∀ l ∈ ls, NoSleepL l)
    (hc : ContractP Cfg.fixed pol {} {} ls) (hr : run Cfg.fixed {} ls = some se) :
    judge (traceP Cfg.fixed pol {} {} ls) = none := by
  rw [judge_eq]
  rcases (rel_runP pol ls {} {} {} se inv1_init inv2_init inv3_init inv4_init (Or.inl init_R) hn hc hr).2
    with ⟨ge, h⟩ | h
  · exact h.base.err
  · exact h.err

end Nng.Aio
