/-
  Lemmas for C16 (HTTP layer): the block-wise receive path of http_conn.c (`rdBuf` over the bounded buffer,
  `feed`, `runRead`) computes the byte-serial decoder of Spec/HttpConn.lean, whatever the read sizes.
-/
import NngModel.Model.HttpConn
import NngModel.Spec.HttpConn
namespace Nng.HttpConn
open Nng Nng.HttpSpec

/-! ### constants -/
theorem marker_len_lt : marker.length < bufsz := by decide
theorem bufsz_pos : 0 < bufsz := by decide
theorem marker_clean : scanGo 0 marker = .again := by decide
theorem eProto_eq : HttpSpec.eProto = rvProto := rfl
theorem eMsgSize_eq : HttpSpec.eMsgSize = rvMsgSize := rfl
theorem LF_eq : HttpSpec.LF = LF := rfl
theorem CR_eq : HttpSpec.CR = CR := rfl

/-! ### the model's line meaning as a `LineSem` -/

/-- result of the empty line -/
def emptyRv (isReq : Bool) (m : Msg) : Nat := if !isReq && !m.parsedRes && resRejectsEmptyHead then rvProto else rvOk

def msem (isReq : Bool) : LineSem Msg where
  onLine m line := lineStep isReq m line
  onLong m := if isReq then some (setStatus m (if m.parsedReq then stHeadersTooLarge else stUriTooLong)) else none
  finish m := ((parseEnd isReq m 0 (emptyRv isReq m)).m, emptyRv isReq m)

abbrev sstep (isReq : Bool) := stepByte (msem isReq) bufsz marker

/-! ### outcomes -/
inductive Out where
  | more (m : Msg) (pend : Bytes) (len n : Nat)
  | done (m : Msg) (headLen : Nat)
  | fail (rv : Nat)
deriving DecidableEq

/-- outcome of the model; the length of the head is what the operation took minus what is still unread -/
def modelOut (r : Rd) : Out :=
  if r.rv = rvAgain then .more r.c.m r.c.pend r.c.pend.length r.c.taken
  else if r.rv = rvOk then .done r.c.m (r.c.taken - r.c.pend.length)
  else .fail r.rv

def specOut : St Msg → Out
  | .run m racc len n => .more m racc.reverse len n
  | .done m n => .done m n
  | .fail rv => .fail rv

/-- what holds of the model while it waits for more bytes -/
def Waiting (r : Rd) : Prop :=
  r.rv = rvAgain → r.c.get = 0 ∧ r.want = bufsz - r.c.pend.length ∧ r.c.pend.length < bufsz ∧ scanGo 0 r.c.pend = .again

/-! ### scanning -/
def lastOr (lc : UInt8) (a : Bytes) : UInt8 := a.getLast?.getD lc

def Scan.shift (k : Nat) : Scan → Scan
  | .line n cr => .line (n + k) cr
  | .proto => .proto
  | .again => .again

theorem scanGo_append (lc : UInt8) (a b : Bytes) (h : scanGo lc a = .again) :
    scanGo lc (a ++ b) = (scanGo (lastOr lc a) b).shift a.length := by
  induction a generalizing lc with
  | nil =>
    simp only [List.nil_append, lastOr, List.getLast?_nil, Option.getD_none, List.length_nil]
    cases scanGo lc b <;> simp [Scan.shift]
  | cons c rest ih =>
    unfold scanGo at h
    by_cases h1 : c = LF
    · rw [if_pos h1] at h; cases h
    · rw [if_neg h1] at h
      by_cases h2 : ((c < 0x20 && c != CR) || lc == CR) = true
      · rw [if_pos h2] at h; cases h
      · rw [if_neg h2] at h
        have hr : scanGo c rest = .again := by
          cases hs : scanGo c rest <;> rw [hs] at h <;> first | rfl | cases h
        have := ih c hr
        rw [List.cons_append]
        conv => lhs; unfold scanGo
        rw [if_neg h1, if_neg h2, this]
        have hl : lastOr lc (c :: rest) = lastOr c rest := by
          unfold lastOr
          cases hr' : rest with
          | nil => simp
          | cons d r =>
            rw [List.getLast?_cons_cons]
            have : ((d :: r).getLast?).isSome = true := by simp
            cases hg : (d :: r).getLast? with
            | none => rw [hg] at this; cases this
            | some z => rfl
        rw [hl]
        cases scanGo (lastOr c rest) b <;> simp [Scan.shift]; omega

theorem lastOr_reverse (a : Bytes) : a.reverse.head? = a.getLast? := by simp

theorem endsWithCR_iff (a : Bytes) : endsWithCR a.reverse = (lastOr 0 a == CR) := by
  unfold endsWithCR lastOr
  rw [List.head?_reverse]
  cases h : a.getLast? with
  | none =>
    simp [CR, HttpSpec.CR]
  | some x => simp [HttpSpec.CR, CR]

/-- the line seen by the C code and the line of the serial decoder -/
theorem lineOf_eq (a rest : Bytes) :
    lineOf (a ++ LF :: rest) a.length (lastOr 0 a == CR) = lineOfAcc a.reverse := by
  unfold lineOf lineOfAcc
  rw [endsWithCR_iff]
  by_cases h : (lastOr 0 a == CR) = true
  · rw [if_pos h, if_pos h]
    have hne : a ≠ [] := by
      intro h0; subst h0; simp [lastOr, CR] at h
    rw [List.tail_reverse, List.reverse_reverse]
    rw [List.take_append_of_le_length (by omega)]
    rw [List.dropLast_eq_take]
  · rw [if_neg h, if_neg h, List.reverse_reverse]
    simp

/-! ### absorbing states -/
theorem foldl_done (isReq : Bool) (m : Msg) (n : Nat) (c : Bytes) : c.foldl (sstep isReq) (.done m n) = .done m n := by
  induction c with
  | nil => rfl
  | cons x r ih => simpa [List.foldl_cons, stepByte] using ih

theorem foldl_fail (isReq : Bool) (rv : Nat) (c : Bytes) : c.foldl (sstep isReq) (.fail rv) = .fail rv := by
  induction c with
  | nil => rfl
  | cons x r ih => simpa [List.foldl_cons, stepByte] using ih

/-! ### return values -/
theorem parseHeader_rv (m : Msg) (cl : Bool) (line : Bytes) : (parseHeader m cl line).2 = rvOk ∨ (parseHeader m cl line).2 = rvProto := by
  unfold parseHeader
  cases strchr COLON line with
  | none => right; rfl
  | some p => left; rfl

theorem resParseLine_rv (m : Msg) (line : Bytes) :
    (resParseLine m line).2 = rvOk ∨ (resParseLine m line).2 = rvProto ∨ (resParseLine m line).2 = rvNotSup := by
  unfold resParseLine
  cases strchr SP line with
  | none => right; left; rfl
  | some p =>
    obtain ⟨v, r1⟩ := p
    simp only
    cases strchr SP r1 with
    | none => right; left; rfl
    | some q =>
      obtain ⟨cs, rs⟩ := q
      simp only
      split
      · right; left; rfl
      · split
        · right; right; rfl
        · left; rfl

theorem lineStep_rv (isReq : Bool) (m : Msg) (line : Bytes) :
    (lineStep isReq m line).2 = rvOk ∨ (lineStep isReq m line).2 = rvProto ∨ (lineStep isReq m line).2 = rvNotSup := by
  unfold lineStep
  cases isReq with
  | true =>
    simp only [if_true]
    unfold reqLineStep
    split
    · split
      · left; rfl
      · rcases parseHeader_rv m true line with h | h
        · left; exact h
        · right; left; exact h
    · left; rfl
  | false =>
    simp only [Bool.false_eq_true, if_false]
    unfold resLineStep
    split
    · rcases parseHeader_rv m false line with h | h
      · left; exact h
      · right; left; exact h
    · show (if (resParseLine m line).2 = rvOk then (({ (resParseLine m line).1 with parsedRes := true } : Msg), rvOk)
              else resParseLine m line).2 = rvOk ∨ _
      by_cases hq : (resParseLine m line).2 = rvOk
      · rw [if_pos hq]; left; rfl
      · rw [if_neg hq]; exact resParseLine_rv m line

/-! ### scanning a clean partial line extended by one byte -/
theorem scan_lf (acc rest : Bytes) (h : scanGo 0 acc = .again) :
    scanLine (acc ++ LF :: rest) = .line acc.length (lastOr 0 acc == CR) := by
  unfold scanLine
  rw [scanGo_append 0 acc _ h]
  unfold scanGo
  simp [Scan.shift]

theorem scan_bad (acc rest : Bytes) (x : UInt8) (h : scanGo 0 acc = .again) (h1 : x ≠ LF)
    (h2 : ((x < 0x20 && x != CR) || lastOr 0 acc == CR) = true) : scanLine (acc ++ x :: rest) = .proto := by
  unfold scanLine
  rw [scanGo_append 0 acc _ h]
  unfold scanGo
  rw [if_neg h1, if_pos h2]
  rfl

theorem scan_ok (acc : Bytes) (x : UInt8) (h : scanGo 0 acc = .again) (h1 : x ≠ LF)
    (h2 : ¬ ((x < 0x20 && x != CR) || lastOr 0 acc == CR) = true) : scanGo 0 (acc ++ [x]) = .again := by
  rw [scanGo_append 0 acc _ h]
  unfold scanGo
  rw [if_neg h1, if_neg h2]
  rfl

theorem parseEnd_again (isReq : Bool) (m : Msg) : parseEnd isReq m 0 rvAgain = ⟨m, 0, rvAgain⟩ := by
  cases isReq <;> simp [parseEnd, rvAgain, rvOk, Err.eagain, Err.ok]

theorem parseGo_again (isReq : Bool) (m : Msg) (b : Bytes) (h : scanGo 0 b = .again) : parseGo isReq m b = ⟨m, 0, rvAgain⟩ := by
  rw [parseGo]
  by_cases hb : b = []
  · rw [dif_pos hb, parseEnd_again]
  · rw [dif_neg hb]
    have : scanLine b = .again := h
    rw [this, parseEnd_again]

theorem drop_skip (pre rest : Bytes) (n : Nat) : (pre ++ rest).drop (pre.length + n) = rest.drop n := by
  rw [← List.drop_drop]
  simp

/-- lines already consumed do not matter: only the advance of rd_get -/
theorem rdBuf_skip (isReq : Bool) (m m' : Msg) (g : Nat) (pre rest : Bytes) (cl : Bool) (t : Nat)
    (h : parseGo isReq m (pre ++ rest) = (parseGo isReq m' rest).shift pre.length) :
    rdBuf isReq { m := m, get := g, pend := pre ++ rest, closed := cl, taken := t } =
      rdBuf isReq { m := m', get := g + pre.length, pend := rest, closed := cl, taken := t } := by
  cases isReq with
  | true =>
    simp only [rdBuf, if_true, rdBufReq, h, PR.shift, advance, drop_skip, Nat.add_assoc]
  | false =>
    simp only [rdBuf, Bool.false_eq_true, if_false, rdBufRes, h, PR.shift, advance, drop_skip, Nat.add_assoc]

/-! ### one http_rd_buf call, by the result of the parse -/
theorem rdBuf_final (isReq : Bool) (c : Conn) (m' : Msg) (n rv : Nat) (h : parseGo isReq c.m c.pend = ⟨m', n, rv⟩)
    (hrv : rv ≠ rvAgain) : rdBuf isReq c = ⟨advance c m' n, rv, 0⟩ := by
  cases isReq with
  | true => simp only [rdBuf, if_true, rdBufReq, h, if_neg hrv]
  | false => simp only [rdBuf, Bool.false_eq_true, if_false, rdBufRes, h, if_neg hrv]

theorem rdBuf_again (isReq : Bool) (hflag : pullUpFirst = true) (m : Msg) (g : Nat) (p : Bytes) (cl : Bool) (t : Nat)
    (h : parseGo isReq m p = ⟨m, 0, rvAgain⟩) (hlt : p.length < bufsz) :
    rdBuf isReq { m := m, get := g, pend := p, closed := cl, taken := t } = ⟨{ m := m, get := 0, pend := p, closed := cl, taken := t }, rvAgain, bufsz - p.length⟩ := by
  have hne : ¬ (p.length = bufsz) := by omega
  have hne2 : ¬ (bufsz - p.length = 0) := by omega
  cases isReq with
  | true =>
    simp only [rdBuf, if_true, rdBufReq, h, advance, List.drop_zero, hflag, pullUp, fullTest, Conn.put]
    by_cases hp : p.isEmpty = true
    · simp [hp, hne]
    · by_cases hg : g = 0
      · subst hg; simp [hp, hne]
      · simp [hp, hg, hne]
  | false =>
    simp only [rdBuf, Bool.false_eq_true, if_false, rdBufRes, h, advance, List.drop_zero, pullUp, Conn.put]
    by_cases hp : p.isEmpty = true
    · simp [hp, hne2]
    · by_cases hg : g = 0
      · subst hg; simp [hp, hne2]
      · simp [hp, hg, hne2]

theorem rdBuf_full_req (hflag : pullUpFirst = true) (m : Msg) (p : Bytes) (cl : Bool) (t : Nat)
    (h : parseGo true m p = ⟨m, 0, rvAgain⟩) (hfull : p.length = bufsz) :
    rdBuf true { m := m, get := 0, pend := p, closed := cl, taken := t } =
      ⟨{ m := setStatus m (if m.parsedReq then stHeadersTooLarge else stUriTooLong), get := 0, pend := marker, closed := cl, taken := t },
       rvAgain, bufsz - marker.length⟩ := by
  have hp : p.isEmpty = false := by
    cases p with
    | nil => simp at hfull; exact absurd hfull.symm (Nat.ne_of_gt bufsz_pos)
    | cons a b => rfl
  simp [rdBuf, rdBufReq, h, advance, hflag, pullUp, fullTest, Conn.put, hp, hfull]

theorem rdBuf_full_res (m : Msg) (p : Bytes) (cl : Bool) (t : Nat)
    (h : parseGo false m p = ⟨m, 0, rvAgain⟩) (hfull : p.length = bufsz) :
    rdBuf false { m := m, get := 0, pend := p, closed := cl, taken := t } = ⟨{ m := m, get := 0, pend := p, closed := cl, taken := t }, rvMsgSize, 0⟩ := by
  have hp : p.isEmpty = false := by
    cases p with
    | nil => simp at hfull; exact absurd hfull.symm (Nat.ne_of_gt bufsz_pos)
    | cons a b => rfl
  simp [rdBuf, rdBufRes, h, advance, pullUp, Conn.put, hp, hfull]

theorem parseEnd_m_of_ne (isReq : Bool) (m : Msg) (n rv : Nat) : (parseEnd isReq m n rv).n = n ∧ (parseEnd isReq m n rv).rv = rv := by
  cases isReq <;> simp [parseEnd]

theorem rv_consts : rvOk = 0 ∧ rvAgain = 8 ∧ rvProto = 13 ∧ rvNotSup = 9 ∧ rvMsgSize = 17 := by decide

/-- THE core step: one http_rd_buf call over a clean partial line `acc` extended by the bytes `c` of a read
    that fit into the buffer is the serial decoder run over `c` -/
theorem core (isReq : Bool) (hflag : pullUpFirst = true) :
    ∀ (c acc : Bytes) (m : Msg) (g k : Nat) (cl : Bool) (t : Nat),
      scanGo 0 acc = .again → g + acc.length + c.length ≤ bufsz → acc.length < bufsz → t = k + c.length →
      modelOut (rdBuf isReq { m := m, get := g, pend := acc ++ c, closed := cl, taken := t })
          = specOut (c.foldl (sstep isReq) (.run m acc.reverse acc.length k))
        ∧ Waiting (rdBuf isReq { m := m, get := g, pend := acc ++ c, closed := cl, taken := t }) := by
  intro c
  induction c with
  | nil =>
    intro acc m g k cl t hcl hle hlt ht
    simp only [List.length_nil, Nat.add_zero] at ht
    subst ht
    rw [List.append_nil, rdBuf_again isReq hflag m g acc cl t (parseGo_again isReq m acc hcl) hlt]
    refine ⟨?_, ?_⟩
    · simp [modelOut, specOut]
    · intro _; exact ⟨rfl, rfl, hlt, hcl⟩
  | cons x c' ih =>
    intro acc m g k cl t hcl hle hlt ht
    have hne : acc ++ x :: c' ≠ [] := by simp
    simp only [List.length_cons] at hle ht ⊢
    rw [List.foldl_cons]
    by_cases hx : x = LF
    · -- end of line
      subst hx
      have hs := scan_lf acc c' hcl
      have hline := lineOf_eq acc c'
      have hstep : sstep isReq (.run m acc.reverse acc.length k) LF =
          (if (lineOfAcc acc.reverse).isEmpty then
            (if emptyRv isReq m ≠ 0 then St.fail (emptyRv isReq m) else St.done (parseEnd isReq m 0 (emptyRv isReq m)).m (k + 1))
           else if (lineStep isReq m (lineOfAcc acc.reverse)).2 ≠ 0 then St.fail (lineStep isReq m (lineOfAcc acc.reverse)).2
           else St.run (lineStep isReq m (lineOfAcc acc.reverse)).1 [] 0 (k + 1)) := by
        simp only [sstep, stepByte, LF_eq, if_true, msem]
        rfl
      rw [hstep]
      by_cases hemp : (lineOfAcc acc.reverse).isEmpty = true
      · -- the empty line
        rw [if_pos hemp]
        have hp : parseGo isReq m (acc ++ LF :: c') = parseEnd isReq m (acc.length + 1) (emptyRv isReq m) := by
          rw [parseGo, dif_neg hne, hs]
          simp only [hline, hemp, if_true, emptyRv]
        have hrvne : emptyRv isReq m ≠ rvAgain := by
          unfold emptyRv; split <;> decide
        have hpe : parseEnd isReq m (acc.length + 1) (emptyRv isReq m) =
            ⟨(parseEnd isReq m 0 (emptyRv isReq m)).m, acc.length + 1, emptyRv isReq m⟩ := by
          cases isReq <;> simp [parseEnd]
        rw [rdBuf_final isReq _ _ _ _ (hp.trans hpe) hrvne]
        refine ⟨?_, fun h => absurd h hrvne⟩
        by_cases he : emptyRv isReq m = 0
        · have : ¬ (emptyRv isReq m ≠ 0) := by simp [he]
          rw [if_neg this, foldl_done]
          simp only [modelOut, specOut, he, advance, rv_consts.1, rv_consts.2.1]
          simp only [List.length_drop, List.length_append, List.length_cons]
          simp
          omega
        · rw [if_pos he, foldl_fail]
          simp [modelOut, specOut, hrvne, he, rv_consts.1]
      · rw [if_neg hemp]
        by_cases hrv : (lineStep isReq m (lineOfAcc acc.reverse)).2 = rvOk
        · -- the line is consumed, the loop goes on with the rest
          have h0 : ¬ ((lineStep isReq m (lineOfAcc acc.reverse)).2 ≠ 0) := by simp [hrv, rv_consts.1]
          rw [if_neg h0]
          have hp : parseGo isReq m ((acc ++ [LF]) ++ c') =
              (parseGo isReq (lineStep isReq m (lineOfAcc acc.reverse)).1 c').shift (acc ++ [LF]).length := by
            rw [List.append_assoc, List.singleton_append, parseGo, dif_neg hne, hs]
            simp only [hline, hemp, hrv, ne_eq, not_true_eq_false, if_false, Bool.false_eq_true]
            have hd : (acc ++ LF :: c').drop (acc.length + 1) = c' := by
              have := drop_skip (acc ++ [LF]) c' 0
              simpa using this
            rw [hd]
            simp
          have hrd := rdBuf_skip isReq m _ g (acc ++ [LF]) c' cl t hp
          rw [List.append_assoc, List.singleton_append] at hrd
          rw [hrd]
          have := ih [] (lineStep isReq m (lineOfAcc acc.reverse)).1 (g + (acc ++ [LF]).length) (k + 1) cl t rfl
            (by simp; omega) bufsz_pos (by omega)
          simp only [List.nil_append, List.reverse_nil, List.length_nil] at this
          exact this
        · -- the line is refused
          have h0 : (lineStep isReq m (lineOfAcc acc.reverse)).2 ≠ 0 := by simpa [rv_consts.1] using hrv
          rw [if_pos h0, foldl_fail]
          have hna : (lineStep isReq m (lineOfAcc acc.reverse)).2 ≠ rvAgain := by
            rcases lineStep_rv isReq m (lineOfAcc acc.reverse) with h | h | h <;> rw [h] <;> decide
          have hp : parseGo isReq m (acc ++ LF :: c') =
              parseEnd isReq (lineStep isReq m (lineOfAcc acc.reverse)).1 (acc.length + 1) (lineStep isReq m (lineOfAcc acc.reverse)).2 := by
            rw [parseGo, dif_neg hne, hs]
            simp only [hline, hemp, hrv, ne_eq, not_false_eq_true, if_true, Bool.false_eq_true, if_false]
          have hpe : ∃ m', parseEnd isReq (lineStep isReq m (lineOfAcc acc.reverse)).1 (acc.length + 1) (lineStep isReq m (lineOfAcc acc.reverse)).2 =
              ⟨m', acc.length + 1, (lineStep isReq m (lineOfAcc acc.reverse)).2⟩ := by
            cases isReq <;> simp [parseEnd]
          obtain ⟨m', hpe⟩ := hpe
          rw [rdBuf_final isReq _ _ _ _ (hp.trans hpe) hna]
          refine ⟨?_, fun h => absurd h hna⟩
          simp [modelOut, specOut, hna, hrv]
    · by_cases hbad : ((x < 0x20 && x != CR) || lastOr 0 acc == CR) = true
      · -- control character, or CR not followed by LF
        have hs := scan_bad acc c' x hcl hx hbad
        have hstep : sstep isReq (.run m acc.reverse acc.length k) x = St.fail rvProto := by
          have hx' : ¬ x = HttpSpec.LF := hx
          have hb' : (isBadCtl x || endsWithCR acc.reverse) = true := by
            rw [endsWithCR_iff]; simpa [isBadCtl, HttpSpec.CR, CR] using hbad
          simp only [sstep, stepByte, if_neg hx', hb', if_true, eProto_eq]
        rw [hstep, foldl_fail]
        have hp : parseGo isReq m (acc ++ x :: c') = parseEnd isReq m 0 rvProto := by
          rw [parseGo, dif_neg hne, hs]
        have hpe : ∃ m', parseEnd isReq m 0 rvProto = ⟨m', 0, rvProto⟩ := by
          cases isReq <;> simp [parseEnd]
        obtain ⟨m', hpe⟩ := hpe
        have hna : rvProto ≠ rvAgain := by decide
        rw [rdBuf_final isReq _ _ _ _ (hp.trans hpe) hna]
        refine ⟨?_, fun h => absurd h hna⟩
        have hno : rvProto ≠ rvOk := by decide
        simp [modelOut, specOut, hna, hno]
      · -- an ordinary byte of the line
        have hok := scan_ok acc x hcl hx hbad
        have hb' : ¬ (isBadCtl x || endsWithCR acc.reverse) = true := by
          rw [endsWithCR_iff]; simpa [isBadCtl, HttpSpec.CR, CR] using hbad
        have hx' : ¬ x = HttpSpec.LF := hx
        by_cases hfull : acc.length + 1 = bufsz
        · -- the line reaches the size of the buffer: this byte is the last one that fits
          have hc' : c' = [] := by
            cases c' with
            | nil => rfl
            | cons a b => simp at hle; omega
          have hg : g = 0 := by omega
          subst hc'; subst hg
          simp only [List.length_nil, Nat.zero_add] at ht
          have hlen : (acc ++ [x]).length = bufsz := by simp; omega
          have hpa := parseGo_again isReq m (acc ++ [x]) hok
          cases isReq with
          | true =>
            have hstep : sstep true (.run m acc.reverse acc.length k) x =
                St.run (setStatus m (if m.parsedReq then stHeadersTooLarge else stUriTooLong)) marker.reverse marker.length (k + 1) := by
              simp only [sstep, stepByte, if_neg hx', hb', hfull, if_true, msem]
              simp
            rw [hstep, List.foldl_nil, rdBuf_full_req hflag m _ cl t hpa hlen]
            refine ⟨?_, ?_⟩
            · simp [modelOut, specOut, ht]
            · intro _; exact ⟨rfl, rfl, marker_len_lt, marker_clean⟩
          | false =>
            have hstep : sstep false (.run m acc.reverse acc.length k) x = St.fail rvMsgSize := by
              simp only [sstep, stepByte, if_neg hx', hb', hfull, if_true, msem, eMsgSize_eq]
              simp
            rw [hstep, List.foldl_nil, rdBuf_full_res m _ cl t hpa hlen]
            have h1 : rvMsgSize ≠ rvAgain := by decide
            have h2 : rvMsgSize ≠ rvOk := by decide
            refine ⟨?_, fun h => absurd h h1⟩
            simp [modelOut, specOut, h1, h2]
        · have hstep : sstep isReq (.run m acc.reverse acc.length k) x = St.run m (acc ++ [x]).reverse (acc ++ [x]).length (k + 1) := by
            simp only [sstep, stepByte, if_neg hx', hb', if_neg hfull]
            simp
          rw [hstep]
          have := ih (acc ++ [x]) m g (k + 1) cl t hok (by simp; omega) (by simp; omega) (by omega)
          rw [List.append_assoc, List.singleton_append] at this
          exact this

/-! ### reads of any size, one after the other -/
def Rel (r : Rd) (st : St Msg) : Prop := modelOut r = specOut st ∧ Waiting r

theorem modelOut_settle (r : Rd) : modelOut (settle r) = modelOut r := by
  unfold settle
  split <;> simp [modelOut]

theorem waiting_settle (r : Rd) (h : Waiting r) : Waiting (settle r) := by
  unfold settle
  split
  · intro h'; exact h h'
  · exact h

theorem rel_settle (r : Rd) (st : St Msg) (h : Rel r st) : Rel (settle r) st :=
  ⟨(modelOut_settle r).trans h.1, waiting_settle r h.2⟩

/-- a finished operation ignores further bytes, like the decoder -/
theorem rel_final (isReq : Bool) (r : Rd) (st : St Msg) (h : Rel r st) (hrv : r.rv ≠ rvAgain) (c : Bytes) :
    c.foldl (sstep isReq) st = st := by
  have h1 := h.1
  unfold modelOut at h1
  rw [if_neg hrv] at h1
  cases st with
  | run m racc len n => by_cases h2 : r.rv = rvOk <;> simp [h2, specOut] at h1
  | done m n => exact foldl_done isReq m n c
  | fail rv => exact foldl_fail isReq rv c

theorem rel_run (r : Rd) (st : St Msg) (h : Rel r st) (hrv : r.rv = rvAgain) :
    st = .run r.c.m r.c.pend.reverse r.c.pend.length r.c.taken := by
  have h1 := h.1
  unfold modelOut at h1
  rw [if_pos hrv] at h1
  cases st with
  | run m racc len n =>
    simp only [specOut, Out.more.injEq] at h1
    obtain ⟨a, b, c, d⟩ := h1
    subst a; subst c; subst d
    rw [b, List.reverse_reverse]
  | done m n => simp [specOut] at h1
  | fail rv => simp [specOut] at h1

theorem feed_rel (isReq : Bool) (hflag : pullUpFirst = true) :
    ∀ (fuel : Nat) (r : Rd) (inq : Bytes) (st : St Msg), inq.length < fuel → Rel r st →
      Rel (feed isReq fuel r inq).1 (inq.foldl (sstep isReq) st) := by
  intro fuel
  induction fuel with
  | zero => intro r inq st h; omega
  | succ fuel ih =>
    intro r inq st hlen hrel
    unfold feed
    by_cases hrv : r.rv = rvAgain
    · obtain ⟨hget, hwant, hplt, hclean⟩ := hrel.2 hrv
      have hw : ¬ r.want = 0 := by omega
      by_cases hemp : inq.isEmpty = true
      · have : inq = [] := List.isEmpty_iff.mp hemp
        subst this
        simpa using hrel
      · have hcond : ¬ ((decide (r.rv ≠ rvAgain) || decide (r.want = 0) || inq.isEmpty) = true) := by
          simp [hrv, hw, hemp]
        rw [if_neg hcond]
        have hst := rel_run r st hrel hrv
        have hk1 : 0 < min r.want inq.length := by
          have : 0 < inq.length := by
            cases inq with
            | nil => simp at hemp
            | cons a b => simp
          omega
        have hcore := core isReq hflag (inq.take (min r.want inq.length)) r.c.pend r.c.m r.c.get r.c.taken r.c.closed
          (r.c.taken + (inq.take (min r.want inq.length)).length) hclean
          (by rw [hget, List.length_take]; omega) hplt rfl
        have hrd : rdCb isReq r.c (inq.take (min r.want inq.length)) =
            settle (rdBuf isReq { m := r.c.m, get := r.c.get, pend := r.c.pend ++ inq.take (min r.want inq.length),
                                  closed := r.c.closed, taken := r.c.taken + (inq.take (min r.want inq.length)).length }) := rfl
        have hrel' : Rel (rdCb isReq r.c (inq.take (min r.want inq.length)))
            ((inq.take (min r.want inq.length)).foldl (sstep isReq) st) := by
          rw [hrd, hst]
          exact rel_settle _ _ hcore
        have := ih _ (inq.drop (min r.want inq.length)) _ (by rw [List.length_drop]; omega) hrel'
        rw [← List.foldl_append, List.take_append_drop] at this
        exact this
    · have hcond : (decide (r.rv ≠ rvAgain) || decide (r.want = 0) || inq.isEmpty) = true := by simp [hrv]
      rw [if_pos hcond]
      rw [rel_final isReq r st hrel hrv inq]
      exact hrel

theorem foldl_feed_rel (isReq : Bool) (hflag : pullUpFirst = true) (chunks : List Bytes) :
    ∀ (r : Rd) (st : St Msg), Rel r st →
      Rel (chunks.foldl (fun r ch => (feed isReq (ch.length + 1) r ch).1) r) (chunks.flatten.foldl (sstep isReq) st) := by
  induction chunks with
  | nil => intro r st h; simpa using h
  | cons ch rest ih =>
    intro r st h
    rw [List.foldl_cons, List.flatten_cons, List.foldl_append]
    exact ih _ _ (feed_rel isReq hflag (ch.length + 1) r ch st (by omega) h)

/-- the first http_rd_buf call of an operation, over what the buffer still holds -/
theorem start_rel (isReq : Bool) (hflag : pullUpFirst = true) (c : Conn) (m : Msg) (hfit : c.put ≤ bufsz) :
    Rel (settle (rdBuf isReq { c with m := m, taken := c.pend.length })) (c.pend.foldl (sstep isReq) (.run m [] 0 0)) := by
  have := core isReq hflag c.pend [] m c.get 0 c.closed c.pend.length rfl (by simpa [Conn.put] using hfit) bufsz_pos (by simp)
  simp only [List.nil_append, List.reverse_nil, List.length_nil] at this
  exact rel_settle _ _ this

/-- MAIN: whatever the sizes of the reads, the read path computes the serial decoding of the concatenation -/
theorem runRead_decode (isReq : Bool) (hflag : pullUpFirst = true) (c : Conn) (chunks : List Bytes)
    (hopen : c.closed = false) (hfit : c.put ≤ bufsz) :
    modelOut (runRead isReq c chunks) =
      specOut (decode (msem isReq) bufsz marker (if isReq then connReset c.m else c.m) (c.pend ++ chunks.flatten)) := by
  unfold runRead decode
  rw [List.foldl_append]
  have hs : Rel (if isReq then readReq c else readRes c)
      (c.pend.foldl (sstep isReq) (.run (if isReq then connReset c.m else c.m) [] 0 0)) := by
    cases isReq with
    | true =>
      have hc : ¬ (c.closed = true) := by rw [hopen]; decide
      show Rel (readReq c) _
      unfold readReq
      rw [if_neg hc]
      exact start_rel true hflag c (connReset c.m) hfit
    | false =>
      have hc : ¬ (c.closed = true) := by rw [hopen]; decide
      show Rel (readRes c) _
      unfold readRes
      rw [if_neg hc]
      exact start_rel false hflag c c.m hfit
  exact (foldl_feed_rel isReq hflag chunks _ _ hs).1

end Nng.HttpConn
