/-
  P1, second half: the request a reply answers (`WireRec.req`) is the request MOST RECENTLY
  delivered to the sending context at the moment the send was submitted — stated on the delivery log.
-/
import NngModel.Proofs.RepOrder
namespace Nng.RepProofs
open Nng Nng.Proto Nng.Rep

/-- the last request the delivery log `l` shows for context `k` -/
def lastDeliv (l : List (Nat × Req)) (k : Nat) : Option Req :=
  ((l.filter (fun d => d.1 == k)).getLast?).map (·.2)

theorem lastDeliv_nil (k : Nat) : lastDeliv [] k = none := rfl

theorem lastDeliv_append (l : List (Nat × Req)) (k : Nat) (r : Req) (k' : Nat) :
    lastDeliv (l ++ [(k, r)]) k' = if k' = k then some r else lastDeliv l k' := by
  unfold lastDeliv
  rw [List.filter_append]
  by_cases h : k' = k
  · subst h
    simp
  · have : ((k, r).1 == k') = false := by simp; exact fun e => h e.symm
    simp [this, h]

theorem lastDeliv_none_of_lt (l : List (Nat × Req)) (n : Nat) (h : ∀ d ∈ l, d.1 < n) : lastDeliv l n = none := by
  unfold lastDeliv
  have : l.filter (fun d => d.1 == n) = [] := by
    rw [List.filter_eq_nil_iff]
    intro d hd
    have := h d hd
    simp; omega
  rw [this]; rfl

/-- `req` was the context's most recent delivery when `ndeliv` requests had been delivered -/
def Recent (delivered : List (Nat × Req)) (ctx ndeliv : Nat) (req : Option Req) : Prop :=
  ndeliv ≤ delivered.length ∧ req = lastDeliv (delivered.take ndeliv) ctx

theorem recent_append {l : List (Nat × Req)} {c n : Nat} {req : Option Req} (x : Nat × Req) (h : Recent l c n req) :
    Recent (l ++ [x]) c n req := by
  refine ⟨by rw [List.length_append]; exact Nat.le_trans h.1 (Nat.le_add_right _ _), ?_⟩
  rw [List.take_append_of_le_length h.1]; exact h.2

structure Inv4 (s : State) : Prop where
  G : ∀ k, k < s.nctx → (s.ctx k).greq = lastDeliv s.delivered k
  U : ∀ d ∈ s.delivered, d.1 < s.nctx
  S : ∀ c k, s.slot c = some k → k < s.nctx
  RQb : ∀ k ∈ s.recvq, k < s.nctx
  N : 1 ≤ s.nctx
  O : s.opened = false → s.delivered = []
  Wr : ∀ w ∈ s.wire, Recent s.delivered w.ctx w.ndeliv w.req
  SQ : ∀ p, ∀ e ∈ (s.pipe p).sendq, Recent s.delivered e.ctx e.ndeliv e.req

theorem inv4_init : Inv4 ({} : State) := by
  constructor
  · intro k _; rfl
  · intro d h; cases h
  · intro c k h; simp at h
  · intro k h; cases h
  · simp
  · intro _; rfl
  · intro w h; cases h
  · intro p e h; simp at h

theorem inv4_transfer {s s' : State} (hd : s'.delivered = s.delivered) (hn : s'.nctx = s.nctx) (hsl : s'.slot = s.slot)
    (hq : ∀ k ∈ s'.recvq, k ∈ s.recvq) (ho : s'.opened = s.opened) (hw : s'.wire = s.wire)
    (hg : ∀ k, (s'.ctx k).greq = (s.ctx k).greq) (hsq : ∀ p, ∀ e ∈ (s'.pipe p).sendq, e ∈ (s.pipe p).sendq)
    (h : Inv4 s) : Inv4 s' := by
  constructor
  · intro k hk; rw [hg, hd]; exact h.G k (hn ▸ hk)
  · rw [hd, hn]; exact h.U
  · rw [hsl, hn]; exact h.S
  · intro k hk; rw [hn]; exact h.RQb k (hq k hk)
  · rw [hn]; exact h.N
  · rw [ho, hd]; exact h.O
  · rw [hw, hd]; exact h.Wr
  · intro p e he; rw [hd]; exact h.SQ p e (hsq p e he)

theorem inv4_same {s s' : State} (hd : s'.delivered = s.delivered) (hn : s'.nctx = s.nctx) (hsl : s'.slot = s.slot)
    (hq : s'.recvq = s.recvq) (ho : s'.opened = s.opened) (hw : s'.wire = s.wire)
    (hc : s'.ctx = s.ctx) (hp : s'.pipe = s.pipe) (h : Inv4 s) : Inv4 s' :=
  inv4_transfer hd hn hsl (fun k hk => by rw [hq] at hk; exact hk) ho hw (fun k => by rw [hc])
    (fun p e he => by rw [hp] at he; exact he) h

theorem inv4_setCtx (s : State) (k : Nat) (c : Ctx) (hg : c.greq = (s.ctx k).greq) (h : Inv4 s) : Inv4 (setCtx s k c) := by
  refine inv4_transfer (s := s) rfl rfl rfl (fun _ hk => hk) rfl rfl ?_ (fun _ _ he => he) h
  intro k'
  rw [setCtx_ctx, upd_apply]
  by_cases hk : k' = k
  · rw [if_pos hk]; subst hk; exact hg
  · rw [if_neg hk]

theorem inv4_setPipe (s : State) (p : Nat) (pp : Pipe) (hq : ∀ e ∈ pp.sendq, e ∈ (s.pipe p).sendq) (h : Inv4 s) :
    Inv4 (setPipe s p pp) := by
  refine inv4_transfer (s := s) rfl rfl rfl (fun _ hk => hk) rfl rfl (fun _ => rfl) ?_ h
  intro q e he
  rw [setPipe_pipe, upd_apply] at he
  by_cases hqp : q = p
  · rw [if_pos hqp] at he; subst hqp; exact hq e he
  · rw [if_neg hqp] at he; exact he

/-! #### deliver -/
theorem deliver_inv4 (s : State) (k : Nat) (r : Req) (h : Inv4 s) (hk : k < s.nctx) (ho : s.opened = true) :
    Inv4 (deliver s k r) := by
  obtain ⟨hw1, _, hw3, _, _, _, _, hw8, _, hw10⟩ := deliver_wire s k r
  have hsl : (deliver s k r).slot = s.slot := by unfold deliver recvWritable; split <;> rfl
  have hop : (deliver s k r).opened = s.opened := by unfold deliver recvWritable; split <;> rfl
  constructor
  · intro k' hk'
    rw [deliver_ctx, upd_apply, hw3, lastDeliv_append]
    by_cases hkk : k' = k
    · rw [if_pos hkk, if_pos hkk]
    · rw [if_neg hkk, if_neg hkk]; exact h.G k' (hw10 ▸ hk')
  · rw [hw3, hw10]
    intro d hd
    rw [List.mem_append, List.mem_singleton] at hd
    cases hd with
    | inl hd => exact h.U d hd
    | inr hd => subst hd; exact hk
  · rw [hsl, hw10]; exact h.S
  · rw [hw8, hw10]; exact h.RQb
  · rw [hw10]; exact h.N
  · intro hc; rw [hop, ho] at hc; cases hc
  · rw [hw1, hw3]; intro w hw; exact recent_append _ (h.Wr w hw)
  · intro p e he
    rw [deliver_pipe, upd_apply] at he
    rw [hw3]
    by_cases hp : p = r.pipe
    · rw [if_pos hp] at he; subst hp; exact recent_append _ (h.SQ _ e he)
    · rw [if_neg hp] at he; exact recent_append _ (h.SQ p e he)

/-! #### closePipe -/
theorem dropHeld_frame2 (s : State) (p : Nat) : (dropHeld s p).slot = s.slot ∧ (dropHeld s p).opened = s.opened := by
  unfold dropHeld
  split
  · dsimp only
    split <;> exact ⟨rfl, rfl⟩
  · exact ⟨rfl, rfl⟩

theorem raiseIfSock_frame2 (s : State) (p : Nat) : (raiseIfSock s p).slot = s.slot ∧ (raiseIfSock s p).opened = s.opened := by
  unfold raiseIfSock
  split <;> exact ⟨rfl, rfl⟩

theorem closePipe_inv4 (s : State) (p : Nat) (h : Inv4 s) : Inv4 (closePipe s p).1 := by
  unfold closePipe
  split
  · exact h
  · dsimp only
    have hf := clearSaio_frame (s.pipe p).sendq (dropHeld s p)
    have hd := dropHeld_frame s p
    have hd2 := dropHeld_frame2 s p
    have h1 : Inv4 (dropHeld s p) :=
      inv4_same (s := s) hd.2.2.2.2.1 hd.2.2.2.2.2.2.2.2.2.2 hd2.1 hd.2.2.2.2.2.2.2.2.1 hd2.2 hd.2.2.1 hd.1 hd.2.1 h
    have h2 : Inv4 (clearSaio (dropHeld s p) (s.pipe p).sendq) :=
      inv4_transfer (s := dropHeld s p) hf.delivered hf.nctx hf.slot (fun k hk => by rw [hf.recvq] at hk; exact hk) hf.opened hf.wire
        hf.greq (fun q e he => by rw [hf.pipe] at he; exact he) h1
    have h3 : Inv4 (addDiscarded (clearSaio (dropHeld s p) (s.pipe p).sendq) ((s.pipe p).sendq.map (wireOf p))) :=
      inv4_same (s := clearSaio (dropHeld s p) (s.pipe p).sendq) rfl rfl rfl rfl rfl rfl rfl rfl h2
    generalize addDiscarded (clearSaio (dropHeld s p) (s.pipe p).sendq) ((s.pipe p).sendq.map (wireOf p)) = s3 at h3 ⊢
    have hr := raiseIfSock_frame s3 p
    have hr2 := raiseIfSock_frame2 s3 p
    have h4 : Inv4 (raiseIfSock s3 p) :=
      inv4_same (s := s3) hr.2.2.2.2.1 hr.2.2.2.2.2.2.2.2.2.2.2 hr2.1 hr.2.2.2.2.2.2.2.2.2.1 hr2.2 hr.2.2.1 hr.1 hr.2.1 h3
    exact inv4_setPipe _ p _ (by intro e he; cases he) h4

/-! #### pipeRecv / ctxRecv -/
theorem pipeRecv_inv4 (s : State) (p : Nat) (b : Bytes) (h : Inv4 s) (ho : s.opened = true) : Inv4 (pipeRecv s p b).1 := by
  have h0 : Inv4 (setPipe s p { s.pipe p with armed := false }) := inv4_setPipe s p _ (fun _ he => he) h
  have ho0 : (setPipe s p { s.pipe p with armed := false }).opened = true := ho
  unfold pipeRecv
  dsimp only
  generalize setPipe s p { s.pipe p with armed := false } = s0 at h0 ho0 ⊢
  split
  · exact inv4_setPipe s0 p _ (fun _ he => he) h0
  · exact closePipe_inv4 _ _ h0
  · rename_i hdr body _
    split
    · exact inv4_same (s := s0) rfl rfl rfl rfl rfl rfl rfl rfl h0
    · rename_i k rest hq
      have hk : k < s0.nctx := h0.RQb k (by rw [hq]; exact List.mem_cons_self)
      split
      · exact inv4_same (s := s0) rfl rfl rfl rfl rfl rfl rfl rfl h0
      · dsimp only
        apply deliver_inv4
        · apply inv4_setCtx
          · rfl
          refine inv4_transfer (s := s0) rfl rfl rfl ?_ rfl rfl (fun _ => rfl) (fun _ _ he => he) h0
          intro k' hk'
          rw [hq]; exact List.mem_cons_of_mem _ hk'
        · exact hk
        · exact ho0

theorem ctxRecv_inv4 (s : State) (k a : Nat) (mode : Mode) (h : Inv4 s) (hk : k < s.nctx) (ho : s.opened = true) :
    Inv4 (ctxRecv s k a mode).1 := by
  unfold ctxRecv
  split
  · split
    · exact h
    · exact h
    · split
      · exact h
      · dsimp only
        have h1 : Inv4 (setCtx s k { s.ctx k with raio := some ⟨a, deadlineOf s.now mode⟩ }) := inv4_setCtx s k _ rfl h
        constructor
        · exact h1.G
        · exact h1.U
        · exact h1.S
        · intro k' hk'
          have hk'' : k' ∈ s.recvq ++ [k] := hk'
          rw [List.mem_append, List.mem_singleton] at hk''
          cases hk'' with
          | inl hm => exact h.RQb k' hm
          | inr hm => subst hm; exact hk
        · exact h1.N
        · exact h1.O
        · exact h1.Wr
        · exact h1.SQ
  · rename_i r rest _
    dsimp only
    apply deliver_inv4
    · split
      · exact inv4_same (s := s) rfl rfl rfl rfl rfl rfl rfl rfl h
      · exact inv4_same (s := s) rfl rfl rfl rfl rfl rfl rfl rfl h
    · have : k < s.nctx := hk
      revert this; split <;> exact id
    · have : s.opened = true := ho
      revert this; split <;> exact id

/-! #### ctxSend: the recorded request is the context's most recent delivery -/
theorem recent_now (s : State) (k : Nat) (h : Inv4 s) (hk : k < s.nctx) :
    Recent s.delivered k s.delivered.length (s.ctx k).greq := by
  refine ⟨Nat.le_refl _, ?_⟩
  rw [List.take_length]; exact h.G k hk

theorem ctxSend_inv4 (s : State) (k a : Nat) (m : WMsg) (mode : Mode) (h : Inv4 s) (hk : k < s.nctx) :
    Inv4 (ctxSend s k a m mode).1 := by
  have hrec := recent_now s k h hk
  have h2 : Inv4 (if (k == 0) = true then setW (setCtx s k { s.ctx k with btrace := [], pipeId := none }) false
                  else setCtx s k { s.ctx k with btrace := [], pipeId := none }) := by
    have hc := inv4_setCtx s k { s.ctx k with btrace := [], pipeId := none } rfl h
    split
    · exact inv4_same (s := setCtx s k _) rfl rfl rfl rfl rfl rfl rfl rfl hc
    · exact hc
  have hd2 : (if (k == 0) = true then setW (setCtx s k { s.ctx k with btrace := [], pipeId := none }) false
                  else setCtx s k { s.ctx k with btrace := [], pipeId := none }).delivered = s.delivered := by
    split <;> rfl
  unfold ctxSend
  dsimp only
  split
  · exact h
  · generalize (if (k == 0) = true then setW (setCtx s k { s.ctx k with btrace := [], pipeId := none }) false
                  else setCtx s k { s.ctx k with btrace := [], pipeId := none }) = s2 at h2 hd2 ⊢
    rw [← hd2] at hrec
    split
    · exact h2
    · split
      · exact h2
      · rename_i p _
        split
        · exact inv4_same (s := s2) rfl rfl rfl rfl rfl rfl rfl rfl h2
        · split
          · have h3 : Inv4 (setPipe s2 p { s2.pipe p with busy := true }) := inv4_setPipe s2 p _ (fun _ he => he) h2
            have hd3 : (setPipe s2 p { s2.pipe p with busy := true }).delivered = s2.delivered := rfl
            generalize setPipe s2 p { s2.pipe p with busy := true } = s3 at h3 hd3 ⊢
            have h4 : Inv4 (if ((s3.ctx 0).pipeId == some p) = true then setW s3 false else s3) := by
              split
              · exact inv4_same (s := s3) rfl rfl rfl rfl rfl rfl rfl rfl h3
              · exact h3
            have hd4 : (if ((s3.ctx 0).pipeId == some p) = true then setW s3 false else s3).delivered = s3.delivered := by
              split <;> rfl
            generalize (if ((s3.ctx 0).pipeId == some p) = true then setW s3 false else s3) = s4 at h4 hd4 ⊢
            constructor
            · exact h4.G
            · exact h4.U
            · exact h4.S
            · exact h4.RQb
            · exact h4.N
            · exact h4.O
            · intro w hw
              have hw' : w ∈ s4.wire ++ [⟨p, (s.ctx k).btrace, m.body, k, (s.ctx k).greq, s2.delivered.length⟩] := hw
              rw [List.mem_append, List.mem_singleton] at hw'
              cases hw' with
              | inl hw' => exact h4.Wr w hw'
              | inr hw' =>
                subst hw'
                show Recent s4.delivered k s2.delivered.length (s.ctx k).greq
                rw [hd4, hd3]; exact hrec
            · exact h4.SQ
          · split
            · exact h2
            · exact h2
            · dsimp only
              have h3 : Inv4 (setCtx s2 k { s2.ctx k with saio := some a, spipe := some p }) := inv4_setCtx s2 k _ rfl h2
              generalize hs3 : setCtx s2 k { s2.ctx k with saio := some a, spipe := some p } = s3 at h3 ⊢
              have hd3 : s3.delivered = s2.delivered := by rw [← hs3]; rfl
              constructor
              · exact h3.G
              · exact h3.U
              · exact h3.S
              · exact h3.RQb
              · exact h3.N
              · exact h3.O
              · exact h3.Wr
              · intro q e he
                rw [setPipe_pipe, upd_apply] at he
                show Recent s3.delivered e.ctx e.ndeliv e.req
                by_cases hq : q = p
                · rw [if_pos hq] at he
                  simp only [List.mem_append, List.mem_singleton] at he
                  cases he with
                  | inl he => subst hq; exact h3.SQ _ e he
                  | inr he => subst he; rw [hd3]; exact hrec
                · rw [if_neg hq] at he; exact h3.SQ q e he

theorem pipeSent_inv4 (s : State) (p : Nat) (h : Inv4 s) : Inv4 (pipeSent s p).1 := by
  unfold pipeSent
  dsimp only
  split
  · dsimp only
    have h1 : Inv4 (setPipe s p { s.pipe p with busy := false }) := inv4_setPipe s p _ (fun _ he => he) h
    split
    · exact inv4_same (s := setPipe s p _) rfl rfl rfl rfl rfl rfl rfl rfl h1
    · exact h1
  · rename_i e rest hq
    have he : Recent s.delivered e.ctx e.ndeliv e.req := h.SQ p e (by rw [hq]; exact List.mem_cons_self)
    have h1 : Inv4 (setPipe s p { s.pipe p with busy := true, sendq := rest }) := by
      apply inv4_setPipe s p _ _ h
      intro e' he'
      rw [hq]; exact List.mem_cons_of_mem _ he'
    have h2 : Inv4 (setCtx (setPipe s p { s.pipe p with busy := true, sendq := rest }) e.ctx
        { (setPipe s p { s.pipe p with busy := true, sendq := rest }).ctx e.ctx with saio := none, spipe := none }) :=
      inv4_setCtx _ _ _ rfl h1
    generalize hs2 : setCtx (setPipe s p { s.pipe p with busy := true, sendq := rest }) e.ctx
        { (setPipe s p { s.pipe p with busy := true, sendq := rest }).ctx e.ctx with saio := none, spipe := none } = s2 at h2 ⊢
    have hd2 : s2.delivered = s.delivered := by rw [← hs2]; rfl
    constructor
    · exact h2.G
    · exact h2.U
    · exact h2.S
    · exact h2.RQb
    · exact h2.N
    · exact h2.O
    · intro w hw
      have hw' : w ∈ s2.wire ++ [wireOf p e] := hw
      rw [List.mem_append, List.mem_singleton] at hw'
      cases hw' with
      | inl hw' => exact h2.Wr w hw'
      | inr hw' => subst hw'; show Recent s2.delivered e.ctx e.ndeliv e.req; rw [hd2]; exact he
    · exact h2.SQ

/-! #### cancel functions, context close -/
theorem inv4_unpark (s : State) (k : Nat) (h : Inv4 s) :
    Inv4 { setCtx s k { s.ctx k with raio := none } with recvq := (setCtx s k { s.ctx k with raio := none }).recvq.filter (· != k) } := by
  have h1 : Inv4 (setCtx s k { s.ctx k with raio := none }) := inv4_setCtx s k _ rfl h
  refine inv4_transfer (s := setCtx s k _) rfl rfl rfl ?_ rfl rfl (fun _ => rfl) (fun _ _ he => he) h1
  intro k' hk'
  exact (List.mem_filter.mp hk').1

theorem failAio_inv4 (s : State) (a rv : Nat) (h : Inv4 s) : Inv4 (failAio s a rv).1 := by
  unfold failAio
  split
  · rename_i k _
    dsimp only
    exact inv4_unpark s k h
  · split
    · rename_i k _
      dsimp only
      apply inv4_setCtx
      · rfl
      split
      · rename_i p _
        apply inv4_setPipe s p _ _ h
        intro e he
        exact (List.mem_filter.mp he).1
      · exact h
    · exact h

theorem expire_inv4 (s : State) (h : Inv4 s) : Inv4 (expire s).1 := by
  unfold expire failAll
  exact foldl_pres' Inv4 (fun s a => failAio s a Err.etimedout) (fun s a h => failAio_inv4 s a _ h) _ s [] h

theorem ctxCloseParked_inv4 (s : State) (k : Nat) (h : Inv4 s) : Inv4 (ctxCloseParked s k).1 := by
  have h1 : Inv4 (ctxCloseSend s k).1 := by
    unfold ctxCloseSend
    split
    · dsimp only
      apply inv4_setCtx
      · rfl
      split
      · rename_i p _
        apply inv4_setPipe s p _ _ h
        intro e he
        exact (List.mem_filter.mp he).1
      · exact h
    · exact h
  have h2 : Inv4 (ctxCloseRecv (ctxCloseSend s k).1 k).1 := by
    generalize (ctxCloseSend s k).1 = s1 at h1 ⊢
    unfold ctxCloseRecv
    split
    · dsimp only
      exact inv4_unpark s1 k h1
    · exact h1
  unfold ctxCloseParked
  dsimp only
  apply inv4_setCtx
  · rfl
  exact h2

/-! #### step -/
theorem resolve_lt (s : State) (h : Inv4 s) (c : Option Nat) (k : Nat) (hr : resolve s c = some k) : k < s.nctx := by
  cases c with
  | none =>
    have : k = 0 := by
      unfold resolve at hr; injection hr with hr; exact hr.symm
    subst this; exact h.N
  | some c => exact h.S c k hr

theorem step_inv4 (s : State) (ev : Ev) (h : Inv4 s) : Inv4 (step s ev).1 := by
  unfold step
  split
  · rename_i hno
    have hop : s.opened = false := by
      cases ho : s.opened with
      | false => rfl
      | true => rw [ho] at hno; simp at hno
    have hd := h.O hop
    split
    · -- open
      constructor
      · intro k hk
        show ((upd s.ctx 0 { isOpen := true }) k).greq = lastDeliv s.delivered k
        rw [upd_apply]
        by_cases hk0 : k = 0
        · rw [if_pos hk0, hd]; rfl
        · rw [if_neg hk0]; exact h.G k hk
      · exact h.U
      · exact h.S
      · exact h.RQb
      · exact h.N
      · intro hc; cases hc
      · exact h.Wr
      · exact h.SQ
    · exact inv4_same (s := s) rfl rfl rfl rfl rfl rfl rfl rfl h
    · exact h
  · rename_i hno
    have hop : s.opened = true := by
      cases ho : s.opened with
      | true => rfl
      | false => rw [ho] at hno; simp at hno
    split
    · split
      · exact inv4_same (s := s) rfl rfl rfl rfl rfl rfl rfl rfl h
      · exact h
    · split
      · exact h
      · dsimp only
        have h1 : Inv4 (addPipeSlot s) := inv4_same (s := s) rfl rfl rfl rfl rfl rfl rfl rfl h
        split
        · exact inv4_setPipe _ _ _ (by intro e he; cases he) h1
        · exact inv4_setPipe _ _ _ (by intro e he; cases he) h1
      · split
        · exact closePipe_inv4 s _ h
        · exact h
      · split
        · exact h
        · split
          · exact closePipe_inv4 s _ h
          · exact pipeSent_inv4 s _ h
      · split
        · exact h
        · split
          · exact closePipe_inv4 s _ h
          · exact pipeRecv_inv4 s _ _ h hop
      · split
        · exact h
        · split
          · exact h
          · rename_i k hres
            exact ctxSend_inv4 s k _ _ _ h (resolve_lt s h _ k hres)
      · split
        · exact h
        · split
          · exact h
          · rename_i k hres
            exact ctxRecv_inv4 s k _ _ h (resolve_lt s h _ k hres) hop
      · exact failAio_inv4 s _ _ h
      · exact failAio_inv4 s _ _ h
      · exact expire_inv4 _ (inv4_same (s := s) rfl rfl rfl rfl rfl rfl rfl rfl h)
      · rename_i c
        split
        · exact h
        · -- ctxOpen: the new uid has no deliveries yet
          constructor
          · intro k hk
            have hk' : k < s.nctx + 1 := hk
            show ((upd s.ctx s.nctx { isOpen := true }) k).greq = lastDeliv s.delivered k
            rw [upd_apply]
            by_cases hkk : k = s.nctx
            · rw [if_pos hkk, hkk, lastDeliv_none_of_lt _ _ h.U]
            · rw [if_neg hkk]; exact h.G k (by omega)
          · intro d hd; exact Nat.lt_succ_of_lt (h.U d hd)
          · intro c' k hk
            have hk' : (upd s.slot c (some s.nctx)) c' = some k := hk
            show k < s.nctx + 1
            rw [upd_apply] at hk'
            by_cases hc : c' = c
            · rw [if_pos hc] at hk'; injection hk' with hk'; omega
            · rw [if_neg hc] at hk'; exact Nat.lt_succ_of_lt (h.S c' k hk')
          · intro k hk; exact Nat.lt_succ_of_lt (h.RQb k hk)
          · show 1 ≤ s.nctx + 1; omega
          · intro hc; rw [show (setCtx (allocCtx s c) s.nctx { isOpen := true }).opened = s.opened from rfl, hop] at hc; cases hc
          · exact h.Wr
          · exact h.SQ
      · rename_i c
        split
        · exact h
        · split
          · exact h
          · rename_i k _
            have h1 := ctxCloseParked_inv4 s k h
            show Inv4 (clearSlot (ctxCloseParked s k).1 c)
            generalize (ctxCloseParked s k).1 = s1 at h1 ⊢
            constructor
            · exact h1.G
            · exact h1.U
            · intro c' k' hk'
              have hk'' : (upd s1.slot c none) c' = some k' := hk'
              rw [upd_apply] at hk''
              by_cases hc : c' = c
              · rw [if_pos hc] at hk''; cases hk''
              · rw [if_neg hc] at hk''; exact h1.S c' k' hk''
            · exact h1.RQb
            · exact h1.N
            · exact h1.O
            · exact h1.Wr
            · exact h1.SQ
      · split
        · exact h
        · exact inv4_same (s := s) rfl rfl rfl rfl rfl rfl rfl rfl h
      · exact h
      · exact h
      · exact h
      · exact h
      · exact h
      · exact h
      · dsimp only
        have finish : ∀ s3, Inv4 s3 → Inv4 (finishClose s3) := by
          intro s3 h3
          constructor
          · exact h3.G
          · exact h3.U
          · intro c k hk; cases hk
          · exact h3.RQb
          · exact h3.N
          · exact h3.O
          · exact h3.Wr
          · exact h3.SQ
        apply finish
        apply closeAll_inv1'' Inv4 ctxCloseParked ctxCloseParked_inv4
        apply closeAll_inv1'' Inv4 closePipe closePipe_inv4
        apply closeAll_inv1'' Inv4 ctxCloseParked ctxCloseParked_inv4
        exact h

theorem run_inv4 (evs : List Ev) : ∀ s, Inv4 s → Inv4 (run s evs).1 := by
  induction evs with
  | nil => intro s h; exact h
  | cons e es ih =>
    intro s h
    exact ih _ (step_inv4 s e h)

end Nng.RepProofs
