/-
  "The lifecycle judge accepts every trace of the lifecycle model" (C14 / C10), part 12:
  nng_socket_close.  C14: every pipe that got ADD_POST has REM_POST (or no REM_POST callback was registered)
  when close returns; C10: nothing stays pending on the socket or its contexts, no blocking dial is left,
  a result is reported.
-/
import NngModel.Proofs.LifeJudgeOps4
namespace Nng.LifeModel
open Nng.Life Nng.Generated
open Nng.LifeSpec (J JPipe JEp JSock upd put KU onOut opConnEp preOp postOp quiescent flat isRace remDue)

/-- "REM_POST no later than the return of the socket's close": nothing to complain about when all pipes of
    the socket are reaped -/
theorem remDue_ok (st : State) (j : J) (s : Nat) (hp : PipesRel st j) (hpi : PipesInv st)
    (hall : ∀ p ∈ st.pipes, p.sock = s → p.reaped = true) : remDue j s = j := by
  unfold remDue
  simp only
  split
  · rename_i i q heq
    exfalso
    have hm := List.mem_of_find?_eq_some heq
    have hpred := List.find?_some heq
    simp only [Bool.and_eq_true, Bool.not_eq_true', beq_iff_eq] at hpred
    rw [hp] at hm
    rcases List.mem_map.mp hm with ⟨p, hpm, hpe⟩
    simp only [Prod.mk.injEq] at hpe
    obtain ⟨_, rfl⟩ := hpe
    obtain ⟨⟨⟨⟨⟨⟨h1, _⟩, h2⟩, _⟩, h3⟩, h4⟩, _⟩ := hpred
    have hr : p.reaped = true := hall p hpm h1
    have hl : p.last ≠ 0 := by simpa [jp] using h2
    have hrem : PEv.rem ∉ p.evs := by simpa [jp] using h3
    have hw : (p.reaped && !p.remReg) = false := h4
    rw [hr] at hw
    have hreg : p.remReg = true := by simpa using hw
    exact hrem ((hpi p hpm).rem_due hr hl hreg)
  · rfl

/-- judge: every record mapped; model: nothing -/
theorem EpsRel.judgeAll {S S' : SelE} {st : State} {j j' : J} (h : EpsRel S st j) (u : Nat → JEp → JEp)
    (hj : j'.eps = j.eps.map fun (kx : Nat × JEp) => (kx.1, u kx.1 kx.2))
    (hr : ∀ e ∈ st.eps, ∀ x, ER S e x → ER S' e (u e.idx x)) : EpsRel S' st j' :=
  h.mapAll (st' := st) id u (List.map_id _).symm hj (fun _ => rfl) hr

def selSock (s : Nat) : SelE := fun _ sk _ => sk == s

def jPreCloseS (s : Nat) (x : JEp) : JEp := if x.sock == s then { x with closed := true } else x
def jPostCloseS (s : Nat) (x : JEp) : JEp :=
  if x.sock == s then { x with closed := true, redialSince := none, acceptBy := none } else x

theorem preOp_close (outs : List LOut) (j : J) (s : Nat) :
    preOp false outs j (.close s) = { j with eps := j.eps.map fun (kx : Nat × JEp) => (kx.1, jPreCloseS s kx.2) } := by
  show ({ j with eps := j.eps.map _ } : J) = _
  congr 2
  funext kx
  obtain ⟨k, x⟩ := kx
  simp only [jPreCloseS]
  split <;> rfl

/-- the judge's record after its bookkeeping for `close s` -/
def jClose (s : Nat) (j : J) : J :=
  { j with eps := j.eps.map fun (kx : Nat × JEp) => (kx.1, jPostCloseS s kx.2),
           socks := upd j.socks s fun x => { x with closed := true },
           ctxs := j.ctxs.map fun (c : Nat × Nat × Bool) => (c.1, c.2.1, c.2.2 || c.2.1 == s) }

def jCloseRaw (s : Nat) (j : J) : J :=
  let eps' := j.eps.map fun (k, x) =>
    if x.sock == s then (k, { x with closed := true, redialSince := none, acceptBy := none }) else (k, x)
  let socks' := upd j.socks s fun x => { x with closed := true }
  let ctxs' := j.ctxs.map fun (c, s', cl) => (c, s', cl || s' == s)
  { j with eps := eps', socks := socks', ctxs := ctxs' }

theorem jCloseRaw_eq (s : Nat) (j : J) : jCloseRaw s j = jClose s j := by
  unfold jCloseRaw jClose
  simp only
  congr 1
  apply List.map_congr_left
  intro kx _
  obtain ⟨k, x⟩ := kx
  simp only [jPostCloseS]
  split <;> rfl

theorem postOp_close (outs : List LOut) (j : J) (s : Nat)
    (h1 : remDue (jClose s j) s = jClose s j)
    (h2 : ∀ p ∈ j.pend, (Nng.LifeSpec.tgtSock (jClose s j) p.2 == some s) = false)
    (h3 : ∀ kx ∈ (jClose s j).eps, (kx.2.sock == s && kx.2.syncPending) = false)
    (h4 : ∃ n, LOut.rv n ∈ outs) :
    postOp outs j (.close s) = jClose s j := by
  have e0 : ∀ (j0 : J), (j0 = jClose s j) →
      (match j0.pend.find? (fun (_, t) => Nng.LifeSpec.tgtSock j0 t == some s) with
        | some (a, _) => j0.fail10 s!"operation {a} still pending after nng_socket_close of socket {s}"
        | none => j0) = j0 := by
    intro j0 hj0
    split
    · rename_i a t heq
      exfalso
      have hm := List.mem_of_find?_eq_some heq
      have hp := List.find?_some heq
      simp only at hp
      subst hj0
      have := h2 (a, t) hm
      simp only at this
      rw [this] at hp; cases hp
    · rfl
  have e1 : ∀ (j0 : J), (j0 = jClose s j) →
      (match j0.eps.find? (fun (_, x) => x.sock == s && x.syncPending) with
        | some (e, _) => j0.fail10 s!"blocking dial on dialer {e} still pending after nng_socket_close"
        | none => j0) = j0 := by
    intro j0 hj0
    split
    · rename_i e x heq
      exfalso
      have hm := List.mem_of_find?_eq_some heq
      have hp := List.find?_some heq
      simp only at hp
      subst hj0
      have := h3 (e, x) hm
      simp only at this
      rw [this] at hp; cases hp
    · rfl
  have e2 : outs.any (fun | .rv _ => true | .rvh _ => true | _ => false) = true := by
    obtain ⟨n, hn⟩ := h4
    exact List.any_eq_true.mpr ⟨_, hn, rfl⟩
  have hunf : postOp outs j (.close s) =
      (let j0 := remDue (jCloseRaw s j) s
       let j1 := match j0.pend.find? (fun (_, t) => Nng.LifeSpec.tgtSock j0 t == some s) with
        | some (a, _) => j0.fail10 s!"operation {a} still pending after nng_socket_close of socket {s}"
        | none => j0
       let j2 := match j1.eps.find? (fun (_, x) => x.sock == s && x.syncPending) with
        | some (e, _) => j1.fail10 s!"blocking dial on dialer {e} still pending after nng_socket_close"
        | none => j1
       if outs.any (fun | .rv _ => true | .rvh _ => true | _ => false) then j2
       else j2.fail10 s!"nng_socket_close of socket {s} reported no result") := by
    rfl
  rw [hunf, jCloseRaw_eq]
  simp only
  rw [h1, e0 _ rfl, e1 _ rfl, e2]
  rfl


theorem tgtSock_rel {st : State} {j : J} (h : CtxsRel st j) (t : Tgt) : Nng.LifeSpec.tgtSock j t = tgtSock st t := by
  cases t with
  | sock s => rfl
  | ctx c =>
    unfold Nng.LifeSpec.tgtSock tgtSock
    simp only
    rw [h, Nng.LifeSpec.lookup_map_key]
    cases st.ctxs.find? (fun a => a.id == c) <;> rfl

theorem ER_postCloseS {e : Ep} {x : JEp} (s : Nat) (h : ER (selSock s) e x) (hc : e.sock = s → e.closed = true) :
    ER noSel e (jPostCloseS s x) := by
  unfold jPostCloseS
  by_cases hs : (x.sock == s) = true
  · rw [if_pos hs]
    have hcl := hc (by rw [← h.sock]; simpa using hs)
    refine ⟨h.dialer, h.sock, ?_, h.cfg, h.sync, h.bg, h.bg2, ?_, ?_⟩
    · show true = _; rw [hcl]; rfl
    · intro hh; cases hh
    · intro hh; cases hh
  · rw [if_neg hs]
    refine ⟨h.dialer, h.sock, ?_, h.cfg, h.sync, h.bg, h.bg2, h.redial, h.accept⟩
    rw [h.closed]
    have : selSock s e.idx e.sock e.dialer = false := by
      rw [← h.sock]; simpa [selSock] using hs
    rw [this]; rfl

/-- the judge's bookkeeping after the events of `close s` re-establishes the relation -/
theorem close_post (st' : State) (je : J) (s : Nat) (outs : List LOut)
    (hw : W st') (heps : EpsRel (selSock s) st' je) (hcl : ∀ e ∈ st'.eps, e.sock = s → e.closed = true)
    (hpipes : PipesRel st' je) (hpinv : PipesInv st') (hreaped : ∀ p ∈ st'.pipes, p.sock = s → p.reaped = true)
    (hsocks : ∀ s', SR (st'.socks s') ((upd je.socks s fun x => { x with closed := true }).lookup s'))
    (hctx : CtxsRel st' (jClose s je)) (hpend : PendRel st' je) (hdrain : ∀ a ∈ st'.pend, tgtSock st' a.tgt ≠ some s)
    (h14 : je.err14 = none) (h10 : je.err10 = none) (hrv : ∃ n, LOut.rv n ∈ outs) :
    postOp outs je (.close s) = jClose s je ∧ SocksRel st' (jClose s je) ∧ EpsRel noSel st' (jClose s je) ∧
    PipesRel st' (jClose s je) ∧ (jClose s je).err14 = none ∧ (jClose s je).err10 = none ∧ (jClose s je).now = je.now ∧
    PendRel st' (jClose s je) := by
  have hepsN : EpsRel noSel st' (jClose s je) :=
    heps.judgeAll (fun _ x => jPostCloseS s x) rfl (fun e he x hx => ER_postCloseS s hx (hcl e he))
  refine ⟨?_, hsocks, hepsN, hpipes, h14, h10, rfl, hpend⟩
  apply postOp_close _ _ _ _ _ _ hrv
  · exact remDue_ok st' (jClose s je) s hpipes hpinv hreaped
  · intro p hp
    rw [hpend] at hp
    rcases List.mem_map.mp hp with ⟨a, ha, rfl⟩
    simp only
    rw [tgtSock_rel hctx]
    have := hdrain a ha
    cases hts : tgtSock st' a.tgt with
    | none => rfl
    | some s' =>
      rw [hts] at this
      have hne : s' ≠ s := fun h => this (by rw [h])
      simp [hne]
  · intro kx hkx
    obtain ⟨k, x⟩ := kx
    obtain ⟨e, he, _, hx⟩ := hepsN.of_mem hw hkx
    simp only
    by_cases hs : x.sock = s
    · have hc := hcl e he (hx.sock.symm.trans hs)
      have := ((hw.epInv e he).1.closed_idle hc).2.2.2
      rw [hx.sync, this]; simp
    · simp [hs]


theorem finish_close (st : State) (j : J) (s : Nat) (orc : List Nat) (hr : Rel st j) (hu : st.unmodelled = false)
    (hnp : NP (apply st (.close s)).2) (ja : J)
    (hja : (apply st (.close s)).2.foldl (onOut (.close s))
      (preOp false ((apply st (.close s)).2 ++ (fireTimers orc (apply st (.close s)).1).2) j (.close s)) = ja)
    (heps : EpsRel (selSock s) (apply st (.close s)).1 ja) (hpipes : PipesRel (apply st (.close s)).1 ja)
    (hjs : ja.socks = j.socks) (hjc : ja.ctxs = j.ctxs) (hpend : PendRel (apply st (.close s)).1 ja)
    (h14 : ja.err14 = none) (h10 : ja.err10 = none) (hnow : ja.now = (apply st (.close s)).1.now)
    (hclE : ∀ e ∈ (apply st (.close s)).1.eps, e.sock = s → e.closed = true)
    (hreap : ∀ p ∈ (apply st (.close s)).1.pipes, p.sock = s → p.reaped = true)
    (hsocks : ∀ s', SR ((apply st (.close s)).1.socks s') ((upd j.socks s fun x => { x with closed := true }).lookup s'))
    (hctx : (j.ctxs.map fun (c : Nat × Nat × Bool) => (c.1, c.2.1, c.2.2 || c.2.1 == s)) =
      (apply st (.close s)).1.ctxs.map fun c => (c.id, c.sock, c.closed))
    (hdrain : ∀ a ∈ (apply st (.close s)).1.pend, tgtSock (apply st (.close s)).1 a.tgt ≠ some s)
    (hrv : ∃ n, LOut.rv n ∈ (apply st (.close s)).2) :
    Rel (step st (.close s) orc).1 (Nng.LifeSpec.step j (.close s) (step st (.close s) orc).2) := by
  have hG := apply_G st (.close s) hr.inv.g
  have hS : ∀ e ∈ (apply st (.close s)).1.eps, selSock s e.idx e.sock e.dialer = true → e.closed = true := by
    intro e he hs; exact hclE e he (by simpa [selSock] using hs)
  obtain ⟨E', hE, hrel⟩ := fire_core (selSock s) (.close s) orc (apply st (.close s)).1 ja hG.s.w heps hS
  have hclE' : ∀ e ∈ (fireTimers orc (apply st (.close s)).1).1.eps, e.sock = s → e.closed = true := by
    intro e' he' hs
    rcases List.mem_map.mp (show e' ∈ (apply st (.close s)).1.eps.map (fireOne (apply st (.close s)).1.now orc) from he')
      with ⟨e, he, rfl⟩
    have hf := fireOne_frame (apply st (.close s)).1.now orc e
    rw [hf.2.1] at hs; rw [hf.2.2.2.1]; exact hclE e he hs
  have hinv' := step_Inv st (.close s) orc hr.inv
  have hst : (step st (.close s) orc).1 = (fireTimers orc (apply st (.close s)).1).1 := by rw [step_def st _ orc hu]
  obtain ⟨p1, p2, p3, p4, p5, p6, p7, p8⟩ := close_post (fireTimers orc (apply st (.close s)).1).1 { ja with eps := E' } s
    ((apply st (.close s)).2 ++ (fireTimers orc (apply st (.close s)).1).2)
    (fireTimers_W orc _ hG.s.w) hrel hclE' hpipes (by rw [← hst]; exact step_inv st _ orc hr.pinv) hreap
    (by intro s'; show SR _ ((upd ja.socks s _).lookup s'); rw [hjs]; exact hsocks s')
    (by
      show (ja.ctxs.map _) = _
      rw [hjc]; exact hctx)
    hpend hdrain h14 h10 (by obtain ⟨n, hn⟩ := hrv; exact ⟨n, List.mem_append.mpr (Or.inl hn)⟩)
  apply assemble st j (.close s) orc hr (jClose s { ja with eps := E' })
  · rw [step_def st _ orc hu]
    simp only
    rw [jstep_np j (.close s) _ _ rfl hnp (fire_NP _ _)]
    show quiescent (postOp _ (List.foldl _ (List.foldl _ (preOp false _ j (.close s)) _) _) _) = _
    rw [hja, hE, p1]
  · apply Mid_final st j (.close s) orc hr
    · rw [p7, hst]; exact hnow
    · exact p5
    · exact p6
    · rw [hst]; exact p2
    · rw [hst]; exact p3
    · rw [hst]; exact p4
  · rw [hst]
    show ((jClose s { ja with eps := E' }).ctxs) = _
    show (ja.ctxs.map _) = _
    rw [hjc]; exact hctx
  · rw [hst]; exact p8


theorem onOut_rv_close (s : Nat) (j : J) (n : Int) (hn : n = 0 ∨ n = 7) : onOut (.close s) j (.rv n) = remDue j s := by
  rcases hn with rfl | rfl <;> rfl

theorem probesOf_mem (st : State) (s : Nat) : ∀ o ∈ probesOf st s, (∃ i, o = probeSock true i) ∨ (∃ i, o = probeCtx true i) ∨
    (∃ i, o = probeEp true i) ∨ (∃ i, o = probePipe true i) := by
  intro o ho
  unfold probesOf at ho
  simp only [List.mem_append, List.mem_map, List.mem_singleton] at ho
  rcases ho with ((rfl | ⟨c, _, rfl⟩) | ⟨e, _, rfl⟩) | ⟨p, _, rfl⟩
  · exact Or.inl ⟨_, rfl⟩
  · exact Or.inr (Or.inl ⟨_, rfl⟩)
  · exact Or.inr (Or.inr (Or.inl ⟨_, rfl⟩))
  · exact Or.inr (Or.inr (Or.inr ⟨_, rfl⟩))

theorem probesOf_fold (op : LOp) (st : State) (s : Nat) (j : J) : (probesOf st s).foldl (onOut op) j = j := by
  apply foldl_noop
  intro o ho j'
  rcases probesOf_mem st s o ho with ⟨i, rfl⟩ | ⟨i, rfl⟩ | ⟨i, rfl⟩ | ⟨i, rfl⟩
  · exact (probe_noop _ _ _ _).1
  · exact (probe_noop _ _ _ _).2.1
  · exact (probe_noop _ _ _ _).2.2.1
  · exact (probe_noop _ _ _ _).2.2.2

theorem probesOf_NP (st : State) (s : Nat) : NP (probesOf st s) := by
  intro o ho
  rcases probesOf_mem st s o ho with ⟨i, rfl⟩ | ⟨i, rfl⟩ | ⟨i, rfl⟩ | ⟨i, rfl⟩ <;> rfl

theorem ER_preCloseS {e : Ep} {x : JEp} (s : Nat) (h : ER noSel e x) : ER (selSock s) e (jPreCloseS s x) := by
  unfold jPreCloseS
  by_cases hs : (x.sock == s) = true
  · rw [if_pos hs]
    have hsel : selSock s e.idx e.sock e.dialer = true := by rw [← h.sock]; simpa [selSock] using hs
    refine ⟨h.dialer, h.sock, ?_, h.cfg, h.sync, h.bg, h.bg2, ?_, ?_⟩
    · show true = _; rw [hsel]; simp
    · intro hh; cases hh
    · intro hh; cases hh
  · rw [if_neg hs]
    have hsel : selSock s e.idx e.sock e.dialer = false := by rw [← h.sock]; simpa [selSock] using hs
    refine ⟨h.dialer, h.sock, ?_, h.cfg, h.sync, h.bg, h.bg2, h.redial, h.accept⟩
    rw [h.closed, hsel]; rfl

/-- nothing is parked on a socket that is not open -/
theorem drained_of_not_open (st : State) (s : Nat) (hg : G st) (hp : PInv st) (hc : ¬ sockOpen (st.socks s)) :
    ∀ a ∈ st.pend, tgtSock st a.tgt ≠ some s := by
  intro a ha
  have hpo := hp.pend a ha
  cases ht : a.tgt with
  | sock s' =>
    rw [ht] at hpo
    intro heq
    simp only [tgtSock, Option.some.injEq] at heq
    subst heq; exact hc hpo
  | ctx c =>
    rw [ht] at hpo
    obtain ⟨x, hx, hxi, hxc⟩ := hpo
    have hf := find_ctx hp.uniq hx
    rw [hxi] at hf
    intro heq
    simp only [tgtSock, hf, Option.map_some, Option.some.injEq] at heq
    have := hg.s.ctxsOpen x hx hxc
    rw [heq] at this; exact hc this

theorem sim_close_notopen (st : State) (j : J) (s : Nat) (orc : List Nat) (hr : Rel st j) (hu : st.unmodelled = false)
    (hc : (!(st.socks s).opened || (st.socks s).closed) = true) :
    Rel (step st (.close s) orc).1 (Nng.LifeSpec.step j (.close s) (step st (.close s) orc).2) := by
  have hno : ¬ sockOpen (st.socks s) := by
    intro ⟨h1, h2⟩; rw [h1, h2] at hc; cases hc
  have h : apply st (.close s) = (st, [.rv lifeEclosed] ++ (if (st.socks s).opened then probesOf st s else [])) := by
    show opClose st s = _; unfold opClose; simp only [hc, if_true]
  have hclE : ∀ e ∈ st.eps, e.sock = s → e.closed = true := by
    intro e he hs
    cases hcl : e.closed with
    | true => rfl
    | false => have := hr.inv.g.s.epsOpen e he hcl; rw [hs] at this; exact absurd this hno
  have hreap : ∀ p ∈ st.pipes, p.sock = s → p.reaped = true := by
    intro p hp hs
    cases hl : p.reaped with
    | true => rfl
    | false => have := hr.mid.lso p hp hl; rw [hs] at this; exact absurd this hno
  have hpipes0 : PipesRel st { j with eps := j.eps.map fun (kx : Nat × JEp) => (kx.1, jPreCloseS s kx.2) } := hr.mid.pipes
  refine finish_close st j s orc hr hu ?_ { j with eps := j.eps.map fun (kx : Nat × JEp) => (kx.1, jPreCloseS s kx.2) } ?_ ?_ ?_ rfl rfl
    ?_ hr.mid.e14 hr.mid.e10 ?_ ?_ ?_ ?_ ?_ ?_ ?_
  · rw [h]
    apply NP.append
    · intro o ho; rw [List.mem_singleton.mp ho]; rfl
    · split
      · exact probesOf_NP st s
      · exact NP_nil
  · rw [h, preOp_close]
    simp only [List.foldl_append, List.foldl_cons, List.foldl_nil]
    rw [onOut_rv_close s _ (↑lifeEclosed) (Or.inr rfl), remDue_ok st _ s hpipes0 hr.pinv hreap]
    split
    · exact probesOf_fold _ _ _ _
    · rfl
  · rw [h]
    exact hr.mid.eps.judgeAll (fun _ x => jPreCloseS s x) rfl (fun e _ x hx => ER_preCloseS s hx)
  · rw [h]; exact hr.mid.pipes
  · rw [h]; exact hr.pend
  · rw [h]; exact hr.mid.now
  · rw [h]; exact hclE
  · rw [h]; exact hreap
  · rw [h]
    intro s'
    rw [Nng.LifeSpec.lookup_upd]
    by_cases hss : s' = s
    · subst hss
      simp only [if_true]
      have hsr := hr.mid.socks s'
      cases hl : j.socks.lookup s' with
      | none => rw [hl] at hsr; exact hsr
      | some x =>
        rw [hl] at hsr
        obtain ⟨h1, h2, _⟩ := hsr.opened x rfl
        have hcl : (st.socks s').closed = true := by simpa [h1] using hc
        constructor
        · intro hh; cases hh
        · intro y hy
          simp only [Option.map_some, Option.some.injEq] at hy
          subst hy
          exact ⟨h1, hcl.symm, fun hh => by rw [hcl] at hh; cases hh⟩
    · simp only [hss, if_false]; exact hr.mid.socks s'
  · rw [h, hr.ctxs, List.map_map]
    apply List.map_congr_left
    intro c hcm
    simp only [Function.comp]
    cases hcc : c.closed with
    | true => simp
    | false =>
      have := hr.inv.g.s.ctxsOpen c hcm hcc
      have hne : c.sock ≠ s := fun hh => hno (hh ▸ this)
      simp [hne]
  · rw [h]; exact drained_of_not_open st s hr.inv.g hr.pp hno
  · rw [h]; exact ⟨_, List.mem_append.mpr (Or.inl (List.mem_singleton.mpr rfl))⟩


theorem sim_close_open (st : State) (j : J) (s : Nat) (orc : List Nat) (hr : Rel st j) (hu : st.unmodelled = false)
    (ho : (st.socks s).opened = true) (hcl : (st.socks s).closed = false) :
    Rel (step st (.close s) orc).1 (Nng.LifeSpec.step j (.close s) (step st (.close s) orc).2) := by
  let L := st.eps.filter fun e => e.sock == s && !e.closed
  let st1 := (closeEps st L).1
  let st2 := (killPipes st1 (liveOf st1 fun p => p.sock == s)).1
  let st3 : State := { st2 with ctxs := st2.ctxs.map fun c => if c.sock == s then { c with closed := true } else c }
  let st4 := setSock st3 s fun k => { k with closed := true }
  let f : PAio → Bool := fun a => tgtSock st4 a.tgt == some s
  have h : apply st (.close s) = ((completeWhere st4 f lifeEclosed).1,
      (closeEps st L).2 ++ (killPipes st1 (liveOf st1 fun p => p.sock == s)).2 ++ (completeWhere st4 f lifeEclosed).2 ++
        [.rv 0] ++ probesOf (completeWhere st4 f lifeEclosed).1 s) := by
    show opClose st s = _
    unfold opClose
    simp only [ho, hcl, Bool.not_true, Bool.or_false, Bool.false_eq_true, if_false]
    rfl
  obtain ⟨gM, hclM, hsoM, hctxM⟩ := closeMid_spec st s hr.inv.g
  have hst2 : closeMid st s = st2 := rfl
  rw [hst2] at gM hclM hsoM hctxM
  -- the judge after preOp
  let jpre : J := { j with eps := j.eps.map fun (kx : Nat × JEp) => (kx.1, jPreCloseS s kx.2) }
  have hmpre : Mid (selSock s) st jpre :=
    ⟨hr.mid.w, hr.mid.pinv, hr.mid.lso, hr.mid.now, hr.mid.e14, hr.mid.e10, hr.mid.socks,
      hr.mid.eps.judgeAll (fun _ x => jPreCloseS s x) rfl (fun e _ x hx => ER_preCloseS s hx), hr.mid.pipes⟩
  have hcbpre : CB jpre := hr.cb
  have hcur : ∀ e ∈ L, ∀ e' ∈ st.eps, e'.idx = e.idx → (e'.userAio = true → e.userAio = true) ∧
      (e'.closed = true ∨ selSock s e'.idx e'.sock e'.dialer = true) := by
    intro e he e' he' hi
    have hm := List.mem_filter.mp he
    have : e' = e := hr.mid.w.idxE.unique he' hm.1 hi
    subst this
    refine ⟨id, Or.inr ?_⟩
    have := hm.2
    simp only [Bool.and_eq_true] at this
    exact this.1
  obtain ⟨m1, sj1⟩ := closeEps_sim (selSock s) (.close s) rfl L st jpre hmpre hcbpre hcur
  have hcb1 : CB ((closeEps st L).2.foldl (onOut (.close s)) jpre) := by
    intro s' x hx; rw [sj1.2.1] at hx; exact hcbpre s' x hx
  obtain ⟨m2, sj2⟩ := killPipes_sim (selSock s) (.close s) rfl (liveOf st1 fun p => p.sock == s) st1 _ m1 hcb1
  have hsame : SameAio st st2 := (closeEps_same st L).trans (killPipes_same st1 _)
  have sj12 := sj1.trans sj2
  -- completions
  have hp4 : PendRel st4 ((killPipes st1 (liveOf st1 fun p => p.sock == s)).2.foldl (onOut (.close s))
      ((closeEps st L).2.foldl (onOut (.close s)) jpre)) := PendRel_of hr.pend hsame.1 sj12.2.2.2.1
  have hnd4 : ND st4 := ND_of hr.nd hsame.1
  obtain ⟨hp5, hfr⟩ := complete_sim (.close s) st4 _ f lifeEclosed hp4 hnd4
  obtain ⟨f1, f2, f3, f4, f5, f6, f7⟩ := hfr _ rfl
  have hreap : ∀ p ∈ st2.pipes, p.sock = s → p.reaped = true := by
    intro p hp hs
    cases hl : p.reaped with
    | true => rfl
    | false =>
      obtain ⟨e, he, hi⟩ := gM.s.w.idxE.exists (gM.s.w.pipeEp p hp)
      have h1 := (gM.s.w.own p hp hl e he hi).1
      have h2 := gM.s.pipesOpen p hp hl e he hi
      have h3 := hclM e he (h1.trans hs)
      rw [h2] at h3; cases h3
  let j3 := (completeWhere st4 f lifeEclosed).2.foldl (onOut (.close s))
    ((killPipes st1 (liveOf st1 fun p => p.sock == s)).2.foldl (onOut (.close s))
      ((closeEps st L).2.foldl (onOut (.close s)) jpre))
  have hpipes3 : PipesRel st2 j3 := by
    unfold PipesRel; rw [f4]; exact m2.pipes
  refine finish_close st j s orc hr hu ?_ j3 ?_ ?_ ?_ ?_ ?_ ?_ ?_ ?_ ?_ ?_ ?_ ?_ ?_ ?_ ?_
  · rw [h]
    refine NP.append (NP.append (NP.append (NP.append (closeEps_NP L st) (killPipes_NP _ _)) ?_) ?_) (probesOf_NP _ _)
    · intro o ho'
      simp only [completeWhere, List.mem_map] at ho'
      obtain ⟨a, _, rfl⟩ := ho'; rfl
    · intro o ho'; rw [List.mem_singleton.mp ho']; rfl
  · rw [h, preOp_close]
    simp only [List.foldl_append, List.foldl_cons, List.foldl_nil]
    rw [probesOf_fold, onOut_rv_close s _ 0 (Or.inl rfl)]
    exact remDue_ok st2 j3 s hpipes3 m2.pinv hreap
  · rw [h]; exact m2.eps.congr rfl f3
  · rw [h]; exact hpipes3
  · exact f2.trans sj12.2.1
  · exact f5.trans sj12.2.2.1
  · rw [h]; exact hp5
  · exact f6.trans m2.e14
  · exact f7.trans m2.e10
  · rw [h]; exact f1.trans m2.now
  · rw [h]; exact hclM
  · rw [h]; exact hreap
  · rw [h]
    intro s'
    rw [Nng.LifeSpec.lookup_upd]
    have hsr := m2.socks s'
    rw [sj12.2.1] at hsr
    change SR (st2.socks s') (j.socks.lookup s') at hsr
    by_cases hss : s' = s
    · subst hss
      simp only [if_true]
      have hk : (completeWhere st4 f lifeEclosed).1.socks s' = { st2.socks s' with closed := true } := by
        show st4.socks s' = _
        simp [st4, st3, setSock]
      rw [hk]
      cases hl : j.socks.lookup s' with
      | none => rw [hl] at hsr; exact ⟨fun _ => hsr.unopened rfl, fun x hx => by cases hx⟩
      | some x =>
        rw [hl] at hsr
        obtain ⟨h1, _, _⟩ := hsr.opened x rfl
        constructor
        · intro hh; cases hh
        · intro y hy
          simp only [Option.map_some, Option.some.injEq] at hy
          subst hy
          exact ⟨h1, rfl, fun hh => by cases hh⟩
    · simp only [hss, if_false]
      have hk : (completeWhere st4 f lifeEclosed).1.socks s' = st2.socks s' := by
        show st4.socks s' = _
        simp [st4, st3, setSock, hss]
      rw [hk]; exact hsr
  · rw [h]
    show _ = (st2.ctxs.map fun c => if c.sock == s then { c with closed := true } else c).map _
    rw [hctxM, hr.ctxs, List.map_map, List.map_map]
    apply List.map_congr_left
    intro c _
    simp only [Function.comp]
    by_cases hcs : c.sock = s
    · simp [hcs]
    · have : (c.sock == s) = false := by simpa using hcs
      simp [this]
  · have := opClose_drains st s ho hcl
    exact this
  · rw [h]; exact ⟨0, by simp⟩

end Nng.LifeModel

namespace Nng.LifeModel
open Nng.Life Nng.Generated

theorem sim_close (st : State) (j : Nng.LifeSpec.J) (s : Nat) (orc : List Nat) (hr : Rel st j) (hu : st.unmodelled = false) :
    Rel (step st (.close s) orc).1 (Nng.LifeSpec.step j (.close s) (step st (.close s) orc).2) := by
  by_cases hc : (!(st.socks s).opened || (st.socks s).closed) = true
  · exact sim_close_notopen st j s orc hr hu hc
  · have : (st.socks s).opened = true ∧ (st.socks s).closed = false := by simpa using hc
    exact sim_close_open st j s orc hr hu this.1 this.2

end Nng.LifeModel
