/-
  RESPONDENT: the relation between the model's state and the judge's state (`Rel`), the model invariants
  the simulation uses (`MInv`), transfer lemmas, and the end-of-step lemma `post_ok`.
-/
import NngModel.Proofs.RespJudgeInv3
import NngModel.Proofs.RespJudgeOut
namespace Nng.RespJudge
open Nng Nng.Proto Nng.Respond Nng.SurveySpec

/-! ### all model invariants -/

structure MInv (s : State) : Prop where
  n : NInv s
  r : RInv s
  q : QInv s
  w : WInv s
  rd : Rd s
  un : Unopened s
  co : s.closed = true → s.opened = true

theorem minv_init : MInv ({} : State) :=
  ⟨ninv_init, rinv_init, qinv_init, winv_init, rd_init, unopened_init, fun h => by cases h⟩

theorem step_minv (s : State) (ev : Ev) (h : MInv s) : MInv (step s ev).1 :=
  ⟨step_ninv s ev h.n, step_rinv s ev h.r, step_inv qinv_stepOK s ev h.r h.q, step_inv winv_stepOK s ev trivial h.w,
   step_rd s ev h.rd, step_unopened s ev h.un, step_co s ev h.un h.co⟩

/-! ### the abstraction -/

/-- what the judge knows of a context: its key and the pending survey -/
def absCtx (c : Ctx) : RCtxJ := ⟨c.key, if c.btrace.isEmpty then none else c.pipeId.map (fun p => (p, c.btrace))⟩

def expPipe (ps : PSend) : Nat := match ps.exp with | some (p, _) => p | none => 0

/-- the judge's record of a parked send -/
def expOf (c : Ctx) (ps : PSend) : Expect := ⟨ps.aio, c.key, expPipe ps, ps.m.hdr, ps.m.body, false⟩

/-- the judge's record of the survey held by pipe `p` -/
def arrOf (s : State) (p : Nat) : Option RArrival :=
  (getPipe s p).bind fun pp => pp.held.map fun wm => ⟨p, wm.hdr, wm.body⟩

def PSof (s : State) (e : Expect) : Prop := ∃ c ∈ s.ctxs, ∃ p, c.saio = some p ∧ e = expOf c p
def PRof (s : State) (x : Nat × Option Nat × Bool) : Prop := ∃ c ∈ s.ctxs, ∃ r, c.raio = some r ∧ x = (r.aio, c.key, false)

/-- the relation, without the remembered `poll` -/
structure RelCore (s : State) (j : RespJ) (used : List Bytes) : Prop where
  err : j.err = none
  closed : j.closed = s.closed
  ttl : s.opened = true → j.ttl = s.ttl
  ttl0 : s.opened = false → j.ttl = 8
  ctxs : j.ctxs = s.ctxs.map absCtx
  arr : j.arrivals.map some = s.recvpipes.map (arrOf s)
  pr : ∀ x, x ∈ j.pendRecv ↔ PRof s x
  ps : ∀ e, e ∈ j.pendSend ↔ PSof s e
  aios : (aiosOf j).Nodup
  gone : ∀ p, p ∈ j.gone ↔ (getPipe s p).map (·.closed) = some true
  infl : ∀ p, p ∈ j.inflight ↔ (getPipe s p).map (·.busy) = some true
  bodies : (j.pendSend.map (·.body)).Nodup
  used : ∀ e ∈ j.pendSend, e.body ∈ used

structure Rel (s : State) (j : RespJ) (used : List Bytes) : Prop where
  core : RelCore s j used
  poll : ∀ r w, j.lastPoll = some (r, w) → r = some s.readable ∧ w = some s.writable

/-! ### general list facts -/

theorem nodup_map_inj {α β : Type} (f : α → β) : ∀ (l : List α), (l.map f).Nodup → ∀ x ∈ l, ∀ y ∈ l, f x = f y → x = y := by
  intro l
  induction l with
  | nil => intro _ x hx; cases hx
  | cons a rest ih =>
    intro hnd x hx y hy hxy
    simp only [List.map_cons, List.nodup_cons, List.mem_map, not_exists, not_and] at hnd
    simp only [List.mem_cons] at hx hy
    rcases hx with rfl | hx <;> rcases hy with rfl | hy
    · rfl
    · exact absurd hxy.symm (hnd.1 y hy)
    · exact absurd hxy (hnd.1 x hx)
    · exact ih hnd.2 x hx y hy hxy

theorem map_some_eq_nil {α : Type} {l : List α} (h : l.map some = []) : l = [] := by
  cases l with
  | nil => rfl
  | cons a r => simp at h

/-! ### contexts -/

theorem absCtx_key (c : Ctx) : (absCtx c).key = c.key := rfl

theorem getCtxJ_eq {s : State} {j : RespJ} (h : j.ctxs = s.ctxs.map absCtx) (k : Option Nat) :
    j.getCtx k = (getCtx s k).map absCtx := by
  unfold RespJ.getCtx getCtx
  rw [h, List.find?_map]
  rfl

theorem setCtxJ_eq {s : State} {j : RespJ} (h : j.ctxs = s.ctxs.map absCtx) (c' : Ctx) :
    (j.setCtx (absCtx c')).ctxs = (setCtx s c').ctxs.map absCtx := by
  unfold RespJ.setCtx setCtx
  simp only [h, List.map_map]
  apply List.map_congr_left
  intro q _
  simp only [Function.comp, absCtx_key]
  by_cases e : (q.key == c'.key) = true
  · simp [e]
  · simp [e]

theorem mem_of_keys {s : State} (hk : (s.ctxs.map (·.key)).Nodup) {c q : Ctx} (hc : c ∈ s.ctxs) (hq : q ∈ s.ctxs)
    (e : q.key = c.key) : q = c :=
  nodup_map_inj (·.key) s.ctxs hk q hq c hc e

theorem getCtx_of_mem {s : State} (hk : (s.ctxs.map (·.key)).Nodup) {c : Ctx} (hc : c ∈ s.ctxs) : getCtx s c.key = some c := by
  cases hg : getCtx s c.key with
  | none =>
    have := List.find?_eq_none.1 hg c hc
    simp at this
  | some q =>
    rw [mem_of_keys hk hc (getCtx_mem hg) (getCtx_key hg)]

theorem mem_setCtx_iff {s : State} {c c' q : Ctx} (hc : c ∈ s.ctxs) (hk : c'.key = c.key) :
    q ∈ (setCtx s c').ctxs ↔ q = c' ∨ (q ∈ s.ctxs ∧ q.key ≠ c.key) := by
  constructor
  · intro h
    rcases mem_setCtx' h with rfl | ⟨h1, h2⟩
    · exact Or.inl rfl
    · exact Or.inr ⟨h1, by rw [← hk]; exact h2⟩
  · intro h
    rcases h with rfl | ⟨h1, h2⟩
    · exact mem_setCtx_self hc hk
    · exact mem_setCtx_of_ne h1 (by rw [hk]; exact h2)

/-- parked sends of the contexts other than `c` -/
def OthersS (s : State) (c : Ctx) (e : Expect) : Prop := ∃ q ∈ s.ctxs, q.key ≠ c.key ∧ ∃ p, q.saio = some p ∧ e = expOf q p
def OthersR (s : State) (c : Ctx) (x : Nat × Option Nat × Bool) : Prop :=
  ∃ q ∈ s.ctxs, q.key ≠ c.key ∧ ∃ r, q.raio = some r ∧ x = (r.aio, q.key, false)

theorem psof_split {s : State} (hk : (s.ctxs.map (·.key)).Nodup) {c : Ctx} (hc : c ∈ s.ctxs) (e : Expect) :
    PSof s e ↔ (∃ p, c.saio = some p ∧ e = expOf c p) ∨ OthersS s c e := by
  constructor
  · rintro ⟨q, hq, p, hp, rfl⟩
    by_cases hqc : q.key = c.key
    · have := mem_of_keys hk hc hq hqc
      subst this
      exact Or.inl ⟨p, hp, rfl⟩
    · exact Or.inr ⟨q, hq, hqc, p, hp, rfl⟩
  · rintro (⟨p, hp, rfl⟩ | ⟨q, hq, _, p, hp, rfl⟩)
    · exact ⟨c, hc, p, hp, rfl⟩
    · exact ⟨q, hq, p, hp, rfl⟩

theorem prof_split {s : State} (hk : (s.ctxs.map (·.key)).Nodup) {c : Ctx} (hc : c ∈ s.ctxs) (x : Nat × Option Nat × Bool) :
    PRof s x ↔ (∃ r, c.raio = some r ∧ x = (r.aio, c.key, false)) ∨ OthersR s c x := by
  constructor
  · rintro ⟨q, hq, r, hr, rfl⟩
    by_cases hqc : q.key = c.key
    · have := mem_of_keys hk hc hq hqc
      subst this
      exact Or.inl ⟨r, hr, rfl⟩
    · exact Or.inr ⟨q, hq, hqc, r, hr, rfl⟩
  · rintro (⟨r, hr, rfl⟩ | ⟨q, hq, _, r, hr, rfl⟩)
    · exact ⟨c, hc, r, hr, rfl⟩
    · exact ⟨q, hq, r, hr, rfl⟩

theorem psof_setCtx {s : State} {c c' : Ctx} (hc : c ∈ s.ctxs) (hk : c'.key = c.key) (e : Expect) :
    PSof (setCtx s c') e ↔ (∃ p, c'.saio = some p ∧ e = expOf c' p) ∨ OthersS s c e := by
  constructor
  · rintro ⟨q, hq, p, hp, rfl⟩
    rcases (mem_setCtx_iff hc hk).1 hq with rfl | ⟨h1, h2⟩
    · exact Or.inl ⟨p, hp, rfl⟩
    · exact Or.inr ⟨q, h1, h2, p, hp, rfl⟩
  · rintro (⟨p, hp, rfl⟩ | ⟨q, hq, hne, p, hp, rfl⟩)
    · exact ⟨c', (mem_setCtx_iff hc hk).2 (Or.inl rfl), p, hp, rfl⟩
    · exact ⟨q, (mem_setCtx_iff hc hk).2 (Or.inr ⟨hq, hne⟩), p, hp, rfl⟩

theorem prof_setCtx {s : State} {c c' : Ctx} (hc : c ∈ s.ctxs) (hk : c'.key = c.key) (x : Nat × Option Nat × Bool) :
    PRof (setCtx s c') x ↔ (∃ r, c'.raio = some r ∧ x = (r.aio, c'.key, false)) ∨ OthersR s c x := by
  constructor
  · rintro ⟨q, hq, r, hr, rfl⟩
    rcases (mem_setCtx_iff hc hk).1 hq with rfl | ⟨h1, h2⟩
    · exact Or.inl ⟨r, hr, rfl⟩
    · exact Or.inr ⟨q, h1, h2, r, hr, rfl⟩
  · rintro (⟨r, hr, rfl⟩ | ⟨q, hq, hne, r, hr, rfl⟩)
    · exact ⟨c', (mem_setCtx_iff hc hk).2 (Or.inl rfl), r, hr, rfl⟩
    · exact ⟨q, (mem_setCtx_iff hc hk).2 (Or.inr ⟨hq, hne⟩), r, hr, rfl⟩

/-- a replacement that keeps key, parked send and parked receive changes neither set -/
theorem psof_setCtx_same {s : State} (hkn : (s.ctxs.map (·.key)).Nodup) {c c' : Ctx} (hc : c ∈ s.ctxs)
    (hk : c'.key = c.key) (hs : c'.saio = c.saio) (e : Expect) : PSof (setCtx s c') e ↔ PSof s e := by
  rw [psof_setCtx hc hk, psof_split hkn hc]
  have : ∀ p, expOf c' p = expOf c p := fun p => by simp [expOf, hk]
  simp only [hs, this]

theorem prof_setCtx_same {s : State} (hkn : (s.ctxs.map (·.key)).Nodup) {c c' : Ctx} (hc : c ∈ s.ctxs)
    (hk : c'.key = c.key) (hr : c'.raio = c.raio) (x : Nat × Option Nat × Bool) : PRof (setCtx s c') x ↔ PRof s x := by
  rw [prof_setCtx hc hk, prof_split hkn hc]
  simp only [hr, hk]

/-! ### pipes -/

theorem arrOf_pipes {s s' : State} (h : s'.pipes = s.pipes) (p : Nat) : arrOf s' p = arrOf s p := by
  unfold arrOf getPipe; rw [h]

theorem arrOf_setPipe_ne {s : State} {pp' : Pipe} {q : Nat} (h : q ≠ pp'.id) : arrOf (setPipe s pp') q = arrOf s q := by
  unfold arrOf; rw [getPipe_setPipe_ne h]

theorem arr_lt {s : State} (hids : ∀ pp ∈ s.pipes, pp.id < s.pipes.length) {p : Nat} {ar : RArrival}
    (h : arrOf s p = some ar) : p < s.pipes.length ∧ ar.pipe = p := by
  unfold arrOf at h
  cases hg : getPipe s p with
  | none => rw [hg] at h; cases h
  | some pp =>
    rw [hg] at h
    simp only [Option.bind_some, Option.map_eq_some_iff] at h
    obtain ⟨wm, _, rfl⟩ := h
    exact ⟨getPipe_lt hids hg, rfl⟩

/-- every judged arrival sits on a known pipe (index below the number of pipes) and is listed -/
theorem arr_mem {s : State} {j : RespJ} (h : j.arrivals.map some = s.recvpipes.map (arrOf s)) {ar : RArrival}
    (har : ar ∈ j.arrivals) : ∃ p ∈ s.recvpipes, arrOf s p = some ar := by
  have : some ar ∈ j.arrivals.map some := List.mem_map.2 ⟨ar, har, rfl⟩
  rw [h] at this
  obtain ⟨p, hp, e⟩ := List.mem_map.1 this
  exact ⟨p, hp, e⟩

/-! ### transfer between states that differ in fields the relation does not mention -/

theorem RelCore.of_eq {s s' : State} {j : RespJ} {used : List Bytes} (h : RelCore s j used)
    (h1 : s'.ctxs = s.ctxs) (h2 : s'.pipes = s.pipes) (h3 : s'.recvpipes = s.recvpipes) (h4 : s'.ttl = s.ttl)
    (h5 : s'.opened = s.opened) (h6 : s'.closed = s.closed) : RelCore s' j used := by
  have hg : ∀ q, getPipe s' q = getPipe s q := fun q => by unfold getPipe; rw [h2]
  refine ⟨h.err, by rw [h6]; exact h.closed, by rw [h5, h4]; exact h.ttl, by rw [h5]; exact h.ttl0,
    by rw [h1]; exact h.ctxs, ?_, ?_, ?_, h.aios, ?_, ?_, h.bodies, h.used⟩
  · rw [h3, h.arr]
    apply List.map_congr_left
    intro p _
    exact (arrOf_pipes h2 p).symm
  · intro x; rw [h.pr]; unfold PRof; rw [h1]
  · intro e; rw [h.ps]; unfold PSof; rw [h1]
  · intro p; rw [hg]; exact h.gone p
  · intro p; rw [hg]; exact h.infl p

theorem RelCore.lastPoll {s : State} {j : RespJ} {used : List Bytes} (h : RelCore s j used) (lp : Option (Option Bool × Option Bool)) :
    RelCore s { j with lastPoll := lp } used :=
  ⟨h.err, h.closed, h.ttl, h.ttl0, h.ctxs, h.arr, h.pr, h.ps, h.aios, h.gone, h.infl, h.bodies, h.used⟩

theorem RelCore.now {s : State} {j : RespJ} {used : List Bytes} (h : RelCore s j used) (n : Nat) :
    RelCore s { j with now := n } used :=
  ⟨h.err, h.closed, h.ttl, h.ttl0, h.ctxs, h.arr, h.pr, h.ps, h.aios, h.gone, h.infl, h.bodies, h.used⟩

theorem RelCore.mono {s : State} {j : RespJ} {used used' : List Bytes} (h : RelCore s j used) (hu : ∀ b ∈ used, b ∈ used') :
    RelCore s j used' :=
  ⟨h.err, h.closed, h.ttl, h.ttl0, h.ctxs, h.arr, h.pr, h.ps, h.aios, h.gone, h.infl, h.bodies, fun e he => hu _ (h.used e he)⟩

theorem RelCore.fresh {s : State} {j : RespJ} {used : List Bytes} (h : RelCore s j used) : ∀ e ∈ j.pendSend, e.fresh = false := by
  intro e he
  obtain ⟨c, _, p, _, rfl⟩ := (h.ps e).1 he
  rfl

theorem RelCore.zero {s : State} {j : RespJ} {used : List Bytes} (h : RelCore s j used) : ∀ x ∈ j.pendRecv, x.2.2 = false := by
  intro x hx
  obtain ⟨c, _, r, _, rfl⟩ := (h.pr x).1 hx
  rfl

/-! ### end of step -/

theorem post_ok {s : State} {j : RespJ} {used : List Bytes} (ev : Ev) (outs : List Out)
    (hn : NInv s) (hc : RelCore s (unfreshJ j) used)
    (hb : hasBlocked outs = false) (hp : pollClause j.lastPoll ev outs = none)
    (hpo : ∀ r w, pollOf ev outs = some (r, w) → r = some s.readable ∧ w = some s.writable) :
    Rel s (unfreshJ (stallChk (setPoll ev outs (pollChk ev outs (blockedChk outs (zeroChk j)))))) used := by
  have hz : zeroChk j = j := zeroChk_ok (hc.zero)
  rw [hz, blockedChk_ok hb, pollChk_ok hp]
  have hst : stallChk (setPoll ev outs j) = setPoll ev outs j := by
    apply stallChk_ok
    by_cases hcl : s.closed = true
    · left; exact hc.closed.trans hcl
    · right
      by_cases hpr : j.pendRecv = []
      · left; exact hpr
      · right
        obtain ⟨x, hx⟩ := List.exists_mem_of_ne_nil _ hpr
        obtain ⟨c, hcm, r, hr, _⟩ := (hc.pr x).1 hx
        have hk := hn.rq c hcm (by rw [hr]; simp)
        have hrp := hn.excl (List.ne_nil_of_mem hk)
        have := hc.arr
        rw [hrp] at this
        exact map_some_eq_nil this
  rw [hst]
  exact ⟨hc.lastPoll _, hpo⟩

end Nng.RespJudge
