import NngModel.Model.ExpireQ
/-
  Lemmas about the scan of nni_aio_expire_loop (Model/ExpireQ.lean).
-/
namespace Nng.ExpireQ

theorem scan_taken (b : Nat) (s : Bool) (now : Nat) (l : List Ent) (k nx : Nat) :
    (scan b s now l k nx).taken = (l.filter (due s now)).take (b - k) := by
  induction l generalizing k nx with
  | nil => simp [scan]
  | cons e rest ih =>
    unfold scan
    by_cases hd : due s now e = true
    · by_cases hk : k < b
      · simp only [hd, hk, decide_true, Bool.and_self, if_true, List.filter_cons_of_pos hd]
        rw [ih]
        have : b - k = (b - (k + 1)) + 1 := by omega
        rw [this, List.take_succ_cons]
      · have h0 : b - k = 0 := by omega
        simp only [hd, hk, decide_false, Bool.and_false, Bool.false_eq_true, if_false, h0, List.take_zero]
        rw [ih, h0, List.take_zero]
    · have hd' : due s now e = false := by simpa using hd
      simp only [hd', Bool.false_and, Bool.false_eq_true, if_false]
      rw [ih, List.filter_cons_of_neg (by simp [hd'])]

theorem scan_kept_due (b : Nat) (s : Bool) (now : Nat) (l : List Ent) (k nx : Nat) :
    (scan b s now l k nx).kept.filter (due s now) = (l.filter (due s now)).drop (b - k) := by
  induction l generalizing k nx with
  | nil => simp [scan]
  | cons e rest ih =>
    unfold scan
    by_cases hd : due s now e = true
    · by_cases hk : k < b
      · simp only [hd, hk, decide_true, Bool.and_self, if_true, List.filter_cons_of_pos hd]
        rw [ih]
        have : b - k = (b - (k + 1)) + 1 := by omega
        rw [this, List.drop_succ_cons]
      · have h0 : b - k = 0 := by omega
        simp only [hd, hk, decide_false, Bool.and_false, Bool.false_eq_true, if_false, h0, List.drop_zero,
          List.filter_cons_of_pos hd]
        rw [ih, h0, List.drop_zero]
    · have hd' : due s now e = false := by simpa using hd
      simp only [hd', Bool.false_and, Bool.false_eq_true, if_false]
      rw [List.filter_cons_of_neg (by simp [hd']), ih, List.filter_cons_of_neg (by simp [hd'])]

theorem scan_kept_notdue (b : Nat) (s : Bool) (now : Nat) (l : List Ent) (k nx : Nat) :
    (scan b s now l k nx).kept.filter (fun e => !due s now e) = l.filter (fun e => !due s now e) := by
  induction l generalizing k nx with
  | nil => simp [scan]
  | cons e rest ih =>
    unfold scan
    by_cases hd : due s now e = true
    · by_cases hk : k < b
      · simp only [hd, hk, decide_true, Bool.and_self, if_true]
        rw [ih, List.filter_cons_of_neg (by simp [hd])]
      · simp only [hd, hk, decide_false, Bool.and_false, Bool.false_eq_true, if_false]
        rw [List.filter_cons_of_neg (by simp [hd]), ih, List.filter_cons_of_neg (by simp [hd])]
    · have hd' : due s now e = false := by simpa using hd
      simp only [hd', Bool.false_and, Bool.false_eq_true, if_false]
      rw [List.filter_cons_of_pos (by simp [hd']), ih, List.filter_cons_of_pos (by simp [hd'])]

theorem scan_length (b : Nat) (s : Bool) (now : Nat) (l : List Ent) (k nx : Nat) :
    (scan b s now l k nx).taken.length + (scan b s now l k nx).kept.length = l.length := by
  induction l generalizing k nx with
  | nil => simp [scan]
  | cons e rest ih =>
    unfold scan
    split
    · simp only [List.length_cons]; have := ih (k + 1) nx; omega
    · simp only [List.length_cons]; have := ih k (if e.expire < nx then e.expire else nx); omega

theorem scan_taken_sublist (b : Nat) (s : Bool) (now : Nat) (l : List Ent) (k nx : Nat) :
    List.Sublist (scan b s now l k nx).taken l := by
  induction l generalizing k nx with
  | nil => simp [scan]
  | cons e rest ih =>
    unfold scan
    split
    · exact (ih (k + 1) nx).cons_cons e
    · exact (ih k _).cons e

theorem scan_kept_sublist (b : Nat) (s : Bool) (now : Nat) (l : List Ent) (k nx : Nat) :
    List.Sublist (scan b s now l k nx).kept l := by
  induction l generalizing k nx with
  | nil => simp [scan]
  | cons e rest ih =>
    unfold scan
    split
    · exact (ih (k + 1) nx).cons e
    · exact (ih k _).cons_cons e

/-- taken and kept together are exactly the list (as a multiset): no aio is lost or duplicated by a pass -/
theorem scan_perm (b : Nat) (s : Bool) (now : Nat) (l : List Ent) (k nx : Nat) :
    List.Perm ((scan b s now l k nx).taken ++ (scan b s now l k nx).kept) l := by
  induction l generalizing k nx with
  | nil => simp [scan]
  | cons e rest ih =>
    unfold scan
    split
    · exact (ih (k + 1) nx).cons e
    · exact (List.perm_middle).trans ((ih k _).cons e)

/-- eq_next never exceeds its starting value -/
theorem scan_next_le_start (b : Nat) (s : Bool) (now : Nat) (l : List Ent) (k nx : Nat) :
    (scan b s now l k nx).next ≤ nx := by
  induction l generalizing k nx with
  | nil => simp [scan]
  | cons e rest ih =>
    unfold scan
    split
    · exact ih (k + 1) nx
    · by_cases hlt : e.expire < nx
      · have := ih k e.expire
        simp only [if_pos hlt]; omega
      · have := ih k nx
        simp only [if_neg hlt]; exact this

/-- eq_next is at most the a_expire of every entry left on the list -/
theorem scan_next_le (b : Nat) (s : Bool) (now : Nat) (l : List Ent) (k nx : Nat) :
    ∀ e ∈ (scan b s now l k nx).kept, (scan b s now l k nx).next ≤ e.expire := by
  induction l generalizing k nx with
  | nil => simp [scan]
  | cons e rest ih =>
    unfold scan
    split
    · exact ih (k + 1) nx
    · intro x hx
      simp only [List.mem_cons] at hx
      rcases hx with rfl | hx
      · by_cases hlt : x.expire < nx
        · have := scan_next_le_start b s now rest k x.expire
          simp only [if_pos hlt]; exact this
        · have := scan_next_le_start b s now rest k nx
          simp only [if_neg hlt]; omega
      · exact ih k _ x hx

/-- eq_next is its starting value or the a_expire of an entry left on the list (it is a real deadline) -/
theorem scan_next_attained (b : Nat) (s : Bool) (now : Nat) (l : List Ent) (k nx : Nat) :
    (scan b s now l k nx).next = nx ∨ ∃ e ∈ (scan b s now l k nx).kept, (scan b s now l k nx).next = e.expire := by
  induction l generalizing k nx with
  | nil => simp [scan]
  | cons e rest ih =>
    unfold scan
    split
    · exact ih (k + 1) nx
    · rcases ih k (if e.expire < nx then e.expire else nx) with h | ⟨x, hx, h⟩
      · simp only at h ⊢
        by_cases hlt : e.expire < nx
        · right; exact ⟨e, by simp, by rw [h, if_pos hlt]⟩
        · left; rw [h, if_neg hlt]
      · right; exact ⟨x, by simp [hx], h⟩

theorem filter_eq_self_of_filter_not_nil {α} (p : α → Bool) (l : List α) (h : l.filter p = []) :
    l.filter (fun x => !p x) = l := by
  induction l with
  | nil => rfl
  | cons a t ih =>
    by_cases hp : p a = true
    · rw [List.filter_cons_of_pos hp] at h; cases h
    · have hp' : p a = false := by simpa using hp
      rw [List.filter_cons_of_neg (by simp [hp'])] at h
      rw [List.filter_cons_of_pos (by simp [hp']), ih h]

theorem eq_filter_not_of_filter_nil {α} (p : α → Bool) (l : List α) (h : l.filter p = []) :
    l = l.filter (fun x => !p x) := (filter_eq_self_of_filter_not_nil p l h).symm

end Nng.ExpireQ
