/-
  C19 "never reads out of bounds": every access of the in-place parser model
  (Model/UrlBuf.lean) stays inside the allocation, for all inputs and whatever follows the
  copied string in the buffer.  One invariant does it: the terminator of the copied string
  (index `len`) is inside the buffer and is still 0; every loop reads index by index from a
  position ≤ len and stops at a 0, every write goes below `len` or writes 0 at ≤ len.
-/
import NngModel.Model.UrlBuf
import NngModel.Proofs.UrlParse
set_option linter.unusedSimpArgs false
set_option linter.unusedVariables false
namespace Nng.UrlBufProofs
open Nng Nng.Url Nng.UrlBuf

/-- no access outside so far; the original terminator is in the buffer and still 0 -/
def Inv (len : Nat) (m : Mem) : Prop :=
  m.safe = true ∧ len < m.buf.size ∧ m.buf.getD len 0 = 0

@[simp] theorem rd_chk (m : Mem) (i j : Nat) : (m.chk i).rd j = m.rd j := rfl
@[simp] theorem buf_chk (m : Mem) (i : Nat) : (m.chk i).buf = m.buf := rfl

theorem chk_inv {len : Nat} {m : Mem} (h : Inv len m) {i : Nat} (hi : i ≤ len) : Inv len (m.chk i) := by
  obtain ⟨h1, h2, h3⟩ := h
  refine ⟨?_, h2, h3⟩
  simp only [Mem.chk, h1, Bool.true_and, decide_eq_true_eq]; omega

theorem getD_set (a : Array UInt8) (i j : Nat) (v : UInt8) (hi : i < a.size) :
    (a.setIfInBounds i v).getD j 0 = if i = j then v else a.getD j 0 := by
  simp only [Array.getD_eq_getD_getElem?, Array.getElem?_setIfInBounds]
  by_cases e : i = j
  · subst e; simp [hi]
  · simp [e]

theorem wr_inv {len : Nat} {m : Mem} (h : Inv len m) {i : Nat} {v : UInt8} (hi : i ≤ len)
    (hv : i = len → v = 0) : Inv len (m.wr i v) := by
  obtain ⟨h1, h2, h3⟩ := h
  refine ⟨?_, ?_, ?_⟩
  · simp only [Mem.wr, h1, Bool.true_and, decide_eq_true_eq]; omega
  · simp only [Mem.wr, Array.size_setIfInBounds]; exact h2
  · simp only [Mem.wr]
    rw [getD_set _ _ _ _ (by omega)]
    by_cases e : i = len
    · rw [if_pos e]; exact hv e
    · rw [if_neg e]; exact h3

theorem wr_lt {len : Nat} {m : Mem} (h : Inv len m) {i : Nat} {v : UInt8} (hi : i < len) :
    Inv len (m.wr i v) := wr_inv h (Nat.le_of_lt hi) (fun e => by omega)

theorem wr_zero {len : Nat} {m : Mem} (h : Inv len m) {i : Nat} (hi : i ≤ len) :
    Inv len (m.wr i 0) := wr_inv h hi (fun _ => rfl)

/-- a non-zero byte at an index ≤ len is strictly before the terminator -/
theorem rd_lt {len : Nat} {m : Mem} (h : Inv len m) {i : Nat} (hi : i ≤ len) (hnz : m.rd i ≠ 0) :
    i < len := by
  by_cases e : i = len
  · subst e; exact absurd h.2.2 hnz
  · omega

theorem rd_wr (m : Mem) (i j : Nat) (v : UInt8) (hi : i < m.buf.size) :
    (m.wr i v).rd j = if i = j then v else m.rd j := by
  simp only [Mem.wr, Mem.rd]
  exact getD_set _ _ _ _ hi

/-- the buffer nng_url_parse starts with -/
theorem init_inv (s pad : Bytes) : Inv s.length ⟨(s ++ 0 :: pad).toArray, true⟩ := by
  refine ⟨rfl, by simp, ?_⟩
  simp [Array.getD_eq_getD_getElem?]

/-! ### the generic loops -/

theorem scan_inv (stop : UInt8 → Bool) {len : Nat} : ∀ (fuel : Nat) (m : Mem) (p : Nat), Inv len m →
    p ≤ len → len < p + fuel →
    Inv len (scan stop fuel m p).1 ∧ p ≤ (scan stop fuel m p).2 ∧ (scan stop fuel m p).2 ≤ len ∧
      (scan stop fuel m p).1.buf = m.buf := by
  intro fuel
  induction fuel with
  | zero => intro m p _ hp hf; omega
  | succ fuel ih =>
    intro m p h hp hf
    have hc := chk_inv h hp
    unfold scan
    by_cases hs : ((m.chk p).rd p = 0 || stop ((m.chk p).rd p)) = true
    · rw [if_pos hs]; exact ⟨hc, Nat.le_refl _, hp, rfl⟩
    · rw [if_neg hs]
      simp only [Bool.or_eq_true, decide_eq_true_eq, not_or] at hs
      have hlt := rd_lt hc hp hs.1
      obtain ⟨a, b, c, d⟩ := ih (m.chk p) (p + 1) hc hlt (by omega)
      exact ⟨a, by omega, c, d⟩

/-- the loop advances when the first byte does not stop it -/
theorem scan_progress (stop : UInt8 → Bool) {len : Nat} (fuel : Nat) (m : Mem) (p : Nat)
    (h : Inv len m) (hp : p ≤ len) (hf : len < p + (fuel + 1)) (hnz : m.rd p ≠ 0)
    (hns : stop (m.rd p) = false) : p + 1 ≤ (scan stop (fuel + 1) m p).2 := by
  have hc := chk_inv h hp
  have hlt := rd_lt hc hp hnz
  unfold scan
  rw [if_neg (by simp [hnz, hns])]
  exact (scan_inv stop fuel (m.chk p) (p + 1) hc hlt (by omega)).2.1

theorem cstr_inv {len : Nat} : ∀ (fuel : Nat) (m : Mem) (p : Nat), Inv len m → p ≤ len →
    len < p + fuel → Inv len (cstr fuel m p).1 ∧ (cstr fuel m p).1.buf = m.buf := by
  intro fuel
  induction fuel with
  | zero => intro m p _ hp hf; omega
  | succ fuel ih =>
    intro m p h hp hf
    have hc := chk_inv h hp
    unfold cstr
    by_cases hs : (m.chk p).rd p = 0
    · rw [if_pos hs]; exact ⟨hc, rfl⟩
    · rw [if_neg hs]
      have hlt := rd_lt hc hp hs
      exact ih (m.chk p) (p + 1) hc hlt (by omega)

theorem copyDown_inv {len : Nat} : ∀ (n : Nat) (m : Mem) (dst src : Nat), Inv len m →
    src + n ≤ len + 1 → dst + n ≤ len → Inv len (copyDown n m dst src) := by
  intro n
  induction n with
  | zero => intro m dst src h _ _; exact h
  | succ n ih =>
    intro m dst src h hs hd
    unfold copyDown
    exact ih _ _ _ (wr_lt (chk_inv h (by omega)) (by omega)) (by omega) (by omega)

theorem lowerLoop_inv {len : Nat} : ∀ (fuel : Nat) (m : Mem) (p : Nat), Inv len m → p ≤ len →
    len < p + fuel → Inv len (lowerLoop fuel m p) := by
  intro fuel
  induction fuel with
  | zero => intro m p _ hp hf; omega
  | succ fuel ih =>
    intro m p h hp hf
    have hc := chk_inv h hp
    unfold lowerLoop
    by_cases hs : (m.chk p).rd p = 0
    · rw [if_pos hs]; exact hc
    · rw [if_neg hs]
      have hlt := rd_lt hc hp hs
      exact ih _ (p + 1) (wr_lt hc hlt) hlt (by omega)

/-! ### the canonicaliser passes -/

theorem xdigit_nz (c : UInt8) (h : isXDigit c = true) : c ≠ 0 := by
  intro e; subst e; revert h; decide

theorem canon1_inv {len : Nat} : ∀ (fuel : Nat) (m : Mem) (src dst : Nat), Inv len m → dst ≤ src →
    src ≤ len → len < src + fuel → Inv len (canon1 fuel m src dst).1 := by
  intro fuel
  induction fuel with
  | zero => intro m src dst _ _ hs hf; omega
  | succ fuel ih =>
    intro m src dst h hd hs hf
    have h0 := chk_inv h hs
    unfold canon1
    simp only
    by_cases hc0 : (m.chk src).rd src = 0
    · rw [if_pos hc0]; exact wr_zero h0 (by omega)
    · rw [if_neg hc0]
      have hlt := rd_lt h0 hs hc0
      by_cases hp : (m.chk src).rd src = PCT
      · rw [if_pos hp]
        have h1 := chk_inv h0 (i := src + 1) (by omega)
        by_cases hx1 : isXDigit (((m.chk src).chk (src + 1)).rd (src + 1)) = true
        · rw [if_neg (by simpa using hx1)]
          have hlt1 := rd_lt h1 (by omega) (xdigit_nz _ hx1)
          have h2 := chk_inv h1 (i := src + 2) (by omega)
          by_cases hx2 : isXDigit ((((m.chk src).chk (src + 1)).chk (src + 2)).rd (src + 2)) = true
          · rw [if_neg (by simpa using hx2)]
            have hlt2 := rd_lt h2 (by omega) (xdigit_nz _ hx2)
            split
            · exact ih _ _ _ (wr_lt h2 (by omega)) (by omega) (by omega) (by omega)
            · refine ih _ _ _ ?_ (by omega) (by omega) (by omega)
              have a := wr_lt (v := PCT) h2 (i := dst) (by omega)
              have b := wr_lt (v := toUpper (((((m.chk src).chk (src + 1)).chk (src + 2)).wr dst PCT).chk (src + 1) |>.rd (src + 1)))
                (chk_inv a (i := src + 1) (by omega)) (i := dst + 1) (by omega)
              exact wr_lt (chk_inv b (i := src + 2) (by omega)) (by omega)
          · rw [if_pos (by simpa using hx2)]; exact h2
        · rw [if_pos (by simpa using hx1)]; exact h1
      · rw [if_neg hp]
        exact ih _ _ _ (wr_lt h0 (by omega)) (by omega) (by omega) (by omega)

theorem canon2_inv {len : Nat} : ∀ (fuel : Nat) (m : Mem) (skip : Bool) (src dst : Nat), Inv len m →
    dst ≤ src → src ≤ len → len < src + fuel → Inv len (canon2 fuel m skip src dst) := by
  intro fuel
  induction fuel with
  | zero => intro m skip src dst _ _ hs hf; omega
  | succ fuel ih =>
    intro m skip src dst h hd hs hf
    have h0 := chk_inv h hs
    unfold canon2
    simp only
    by_cases hc0 : (m.chk src).rd src = 0
    · rw [if_pos hc0]; exact wr_zero h0 (by omega)
    · rw [if_neg hc0]
      have hlt := rd_lt h0 hs hc0
      by_cases hsl : ((m.chk src).rd src = SLASH && !skip) = true
      · rw [if_pos hsl]
        simp only [Bool.and_eq_true, decide_eq_true_eq] at hsl
        have hw := wr_lt (v := SLASH) h0 (i := dst) (by omega)
        have hrd : ((m.chk src).wr dst SLASH).rd src = SLASH := by
          rw [rd_wr _ _ _ _ (by have := h0.2.1; omega)]
          by_cases e : dst = src
          · rw [if_pos e]
          · rw [if_neg e]; exact hsl.1
        obtain ⟨a, b, c, _⟩ := scan_inv (fun x => decide (x ≠ SLASH)) (fuel + 1) _ src hw hs (by omega)
        have hpr := scan_progress (fun x => decide (x ≠ SLASH)) fuel _ src hw hs (by omega)
          (by rw [hrd]; decide) (by rw [hrd]; decide)
        exact ih _ _ _ _ a (by omega) c (by omega)
      · rw [if_neg hsl]
        exact ih _ _ _ _ (wr_lt h0 (by omega)) (by omega) (by omega) (by omega)

theorem dotDotAt_inv {len : Nat} (m : Mem) (src : Nat) (h : Inv len m) (hs : src ≤ len) :
    Inv len (dotDotAt m src).1 ∧ ((dotDotAt m src).2 = true → src + 3 ≤ len) := by
  have h0 := chk_inv h hs
  unfold dotDotAt
  by_cases c0 : (m.chk src).rd src ≠ SLASH
  · rw [if_pos c0]; exact ⟨h0, fun e => by cases e⟩
  · rw [if_neg c0]
    simp only [ne_eq, Decidable.not_not] at c0
    have l0 := rd_lt h0 hs (by rw [c0]; decide)
    have h1 := chk_inv h0 (i := src + 1) (by omega)
    simp only
    by_cases c1 : ((m.chk src).chk (src + 1)).rd (src + 1) ≠ DOT
    · rw [if_pos c1]; exact ⟨h1, fun e => by cases e⟩
    · rw [if_neg c1]
      simp only [ne_eq, Decidable.not_not] at c1
      have l1 := rd_lt h1 (i := src + 1) (by omega) (by rw [c1]; decide)
      have h2 := chk_inv h1 (i := src + 2) (by omega)
      by_cases c2 : (((m.chk src).chk (src + 1)).chk (src + 2)).rd (src + 2) ≠ DOT
      · rw [if_pos c2]; exact ⟨h2, fun e => by cases e⟩
      · rw [if_neg c2]
        simp only [ne_eq, Decidable.not_not] at c2
        have l2 := rd_lt h2 (i := src + 2) (by omega) (by rw [c2]; decide)
        exact ⟨chk_inv h2 (by omega), fun _ => by omega⟩

theorem dotAt_inv {len : Nat} (m : Mem) (src : Nat) (h : Inv len m) (hs : src ≤ len) :
    Inv len (dotAt m src).1 ∧ ((dotAt m src).2 = true → src + 2 ≤ len) := by
  have h0 := chk_inv h hs
  unfold dotAt
  by_cases c0 : (m.chk src).rd src ≠ SLASH
  · rw [if_pos c0]; exact ⟨h0, fun e => by cases e⟩
  · rw [if_neg c0]
    simp only [ne_eq, Decidable.not_not] at c0
    have l0 := rd_lt h0 hs (by rw [c0]; decide)
    have h1 := chk_inv h0 (i := src + 1) (by omega)
    simp only
    by_cases c1 : ((m.chk src).chk (src + 1)).rd (src + 1) ≠ DOT
    · rw [if_pos c1]; exact ⟨h1, fun e => by cases e⟩
    · rw [if_neg c1]
      simp only [ne_eq, Decidable.not_not] at c1
      have l1 := rd_lt h1 (i := src + 1) (by omega) (by rw [c1]; decide)
      exact ⟨chk_inv h1 (by omega), fun _ => by omega⟩

theorem popLoop_inv {len : Nat} (o : Nat) : ∀ (fuel : Nat) (m : Mem) (dst : Nat), Inv len m → dst ≤ len →
    dst < fuel → Inv len (popLoop fuel m o dst).1 ∧ (popLoop fuel m o dst).2 ≤ dst := by
  intro fuel
  induction fuel with
  | zero => intro m dst _ _ hf; omega
  | succ fuel ih =>
    intro m dst h hd hf
    unfold popLoop
    by_cases c0 : dst - 1 ≤ o
    · rw [if_pos c0]; exact ⟨h, by omega⟩
    · rw [if_neg c0]
      have h1 := chk_inv h (i := dst - 1) (by omega)
      by_cases c1 : (m.chk (dst - 1)).rd (dst - 1) ≠ SLASH
      · rw [if_pos c1]
        obtain ⟨a, b⟩ := ih (m.chk (dst - 1)) (dst - 1) h1 (by omega) (by omega)
        exact ⟨a, by omega⟩
      · rw [if_neg c1]; exact ⟨h1, by omega⟩

theorem canon3_inv {len : Nat} (o : Nat) : ∀ (fuel : Nat) (m : Mem) (skip : Bool) (src dst : Nat),
    Inv len m → dst ≤ src → src ≤ len → len < src + fuel → Inv len (canon3 fuel m o skip src dst) := by
  intro fuel
  induction fuel with
  | zero => intro m skip src dst _ _ hs hf; omega
  | succ fuel ih =>
    intro m skip src dst h hd hs hf
    have h0 := chk_inv h hs
    unfold canon3
    simp only
    by_cases hc0 : (m.chk src).rd src = 0
    · rw [if_pos hc0]; exact wr_zero h0 (by omega)
    · rw [if_neg hc0]
      have hlt := rd_lt h0 hs hc0
      by_cases hsl : ((m.chk src).rd src = SLASH && !skip) = true
      · rw [if_pos hsl]
        obtain ⟨hdd, hdd3⟩ := dotDotAt_inv (m.chk src) src h0 hs
        by_cases c1 : (dotDotAt (m.chk src) src).2 = true
        · rw [if_pos c1]
          have := hdd3 c1
          by_cases c2 : dst > o
          · rw [if_pos c2]
            obtain ⟨a, b⟩ := popLoop_inv o (dst + 1) _ dst hdd (by omega) (by omega)
            exact ih _ _ _ _ a (by omega) (by omega) (by omega)
          · rw [if_neg c2]
            exact ih _ _ _ _ hdd (by omega) (by omega) (by omega)
        · rw [if_neg c1]
          obtain ⟨hdt, hdt2⟩ := dotAt_inv _ src hdd hs
          by_cases c3 : (dotAt (dotDotAt (m.chk src) src).1 src).2 = true
          · rw [if_pos c3]
            have := hdt2 c3
            exact ih _ _ _ _ hdt (by omega) (by omega) (by omega)
          · rw [if_neg c3]
            exact ih _ _ _ _ (wr_lt hdt (by omega)) (by omega) (by omega) (by omega)
      · rw [if_neg hsl]
        exact ih _ _ _ _ (wr_lt h0 (by omega)) (by omega) (by omega) (by omega)

theorem canonifyAt_inv {len : Nat} (fuel : Nat) (m : Mem) (o : Nat) (h : Inv len m) (ho : o ≤ len)
    (hf : len < fuel) : Inv len (canonifyAt fuel m o).1 := by
  have h1 := canon1_inv fuel m o o h (Nat.le_refl _) ho (by omega)
  unfold canonifyAt
  simp only
  split
  · exact h1
  · have h2 := canon2_inv fuel _ false o o h1 (Nat.le_refl _) ho (by omega)
    have h3 := canon3_inv o fuel _ false o o h2 (Nat.le_refl _) ho (by omega)
    exact (cstr_inv fuel _ o h3 ho (by omega)).1

/-! ### the parser stages -/

theorem stageHost_inv {len : Nat} (fuel : Nat) (m : Mem) (h : Inv len m) (h3 : 3 ≤ len) (hf : len < fuel) :
    Inv len (stageHost fuel m).1 ∧ (stageHost fuel m).2 ≤ len := by
  obtain ⟨a, b, c, _⟩ := scan_inv isAuthEnd fuel m 3 h h3 (by omega)
  have hw := wr_zero a c
  obtain ⟨a2, b2, c2, _⟩ := scan_inv (fun _ => false) fuel _ 3 hw h3 (by omega)
  have hcd := copyDown_inv ((scan (fun _ => false) fuel ((scan isAuthEnd fuel m 3).1.wr (scan isAuthEnd fuel m 3).2 0) 3).2 - 3 + 1)
    _ 0 3 a2 (by omega) (by omega)
  unfold stageHost
  refine ⟨wr_inv hcd c ?_, c⟩
  intro e
  have := a.2.2
  rw [← e] at this
  exact this

theorem stageUser_inv {len : Nat} (fuel : Nat) (m : Mem) (h : Inv len m) (hf : len < fuel) :
    Inv len (stageUser fuel m).1 ∧
      ∀ ui host, (stageUser fuel m).2 = some (ui, host) → host ≤ len ∧ (∀ i, ui = some i → i ≤ len) := by
  obtain ⟨a, _, c, _⟩ := scan_inv (fun x => decide (x = AT)) fuel m 0 h (Nat.zero_le _) (by omega)
  unfold stageUser
  simp only
  by_cases hat : (scan (fun x => decide (x = AT)) fuel m 0).1.rd (scan (fun x => decide (x = AT)) fuel m 0).2 = AT
  · rw [if_pos hat]
    have hlt := rd_lt a c (by rw [hat]; decide)
    have hw := wr_zero a c
    obtain ⟨a2, _, c2, _⟩ := scan_inv (fun x => decide (x = AT)) fuel _
      ((scan (fun x => decide (x = AT)) fuel m 0).2 + 1) hw hlt (by omega)
    split
    · exact ⟨a2, fun ui host e => by cases e⟩
    · refine ⟨lowerLoop_inv fuel _ _ a2 hlt (by omega), ?_⟩
      intro ui host e
      injection e with e; injection e with e1 e2
      subst e1; subst e2
      exact ⟨hlt, fun i hi => by injection hi with hi; omega⟩
  · rw [if_neg hat]
    refine ⟨lowerLoop_inv fuel _ 0 a (Nat.zero_le _) (by omega), ?_⟩
    intro ui host e
    injection e with e; injection e with e1 e2
    subst e1; subst e2
    exact ⟨Nat.zero_le _, fun i hi => by cases hi⟩

theorem stageQF_inv {len : Nat} (fuel : Nat) (m : Mem) (p : Nat) (h : Inv len m) (hp : p ≤ len)
    (hf : len < fuel) :
    Inv len (stageQF fuel m p).1 ∧ (∀ i, (stageQF fuel m p).2.1 = some i → i ≤ len) ∧
      (∀ i, (stageQF fuel m p).2.2 = some i → i ≤ len) := by
  obtain ⟨a, _, c, _⟩ := scan_inv isPathEnd fuel m p h hp (by omega)
  unfold stageQF
  simp only
  by_cases hq : (scan isPathEnd fuel m p).1.rd (scan isPathEnd fuel m p).2 = QM
  · rw [if_pos hq]
    have hlt := rd_lt a c (by rw [hq]; decide)
    have hw := wr_zero a c
    obtain ⟨a2, _, c2, _⟩ := scan_inv (fun x => decide (x = HASH)) fuel _
      ((scan isPathEnd fuel m p).2 + 1) hw hlt (by omega)
    split
    · rename_i hh
      have hlt2 := rd_lt a2 c2 (by rw [hh]; decide)
      exact ⟨wr_zero a2 c2, fun i hi => (by injection hi with hi; omega),
        fun i hi => by injection hi with hi; omega⟩
    · exact ⟨a2, fun i hi => (by injection hi with hi; omega), fun i hi => by cases hi⟩
  · rw [if_neg hq]
    split
    · rename_i hh
      have hlt := rd_lt a c (by rw [hh]; decide)
      exact ⟨wr_zero a c, fun i hi => (by cases hi), fun i hi => by injection hi with hi; omega⟩
    · exact ⟨a, fun i hi => (by cases hi), fun i hi => by cases hi⟩

theorem stageHostPort_inv {len : Nat} (fuel : Nat) (m : Mem) (host : Nat) (h : Inv len m)
    (hh : host ≤ len) (hf : len < fuel) :
    Inv len (stageHostPort fuel m host).1 ∧
      ∀ hi pi, (stageHostPort fuel m host).2 = some (hi, pi) → hi ≤ len ∧ (∀ i, pi = some i → i ≤ len) := by
  have h0 := chk_inv h hh
  unfold stageHostPort
  simp only
  by_cases hb : (m.chk host).rd host = LBR
  · rw [if_pos hb]
    have hlt := rd_lt h0 hh (by rw [hb]; decide)
    obtain ⟨a, _, c, _⟩ := scan_inv (fun x => decide (x = RBR) || decide (x = LBR)) fuel _ (host + 1) h0 hlt (by omega)
    split
    · exact ⟨a, fun hi pi e => by cases e⟩
    · rename_i hr
      simp only [ne_eq, Decidable.not_not] at hr
      have hlt2 := rd_lt a c (by rw [hr]; decide)
      have hw := chk_inv (wr_zero a c) (i := (scan (fun x => decide (x = RBR) || decide (x = LBR)) fuel (m.chk host) (host + 1)).2 + 1) hlt2
      split
      · exact ⟨hw, fun hi pi e => by cases e⟩
      · split
        · rename_i hc
          have hlt3 := rd_lt hw hlt2 (by rw [hc]; decide)
          refine ⟨wr_zero hw hlt2, ?_⟩
          intro hi pi e
          injection e with e; injection e with e1 e2
          subst e1; subst e2
          exact ⟨hlt, fun i hi => by injection hi with hi; omega⟩
        · refine ⟨hw, ?_⟩
          intro hi pi e
          injection e with e; injection e with e1 e2
          subst e1; subst e2
          exact ⟨hlt, fun i hi => by cases hi⟩
  · rw [if_neg hb]
    obtain ⟨a, _, c, _⟩ := scan_inv (fun x => decide (x = COLON)) fuel _ host h0 hh (by omega)
    split
    · rename_i hc
      have hlt := rd_lt a c (by rw [hc]; decide)
      refine ⟨wr_zero a c, ?_⟩
      intro hi pi e
      injection e with e; injection e with e1 e2
      subst e1; subst e2
      exact ⟨hh, fun i hi => by injection hi with hi; omega⟩
    · refine ⟨a, ?_⟩
      intro hi pi e
      injection e with e; injection e with e1 e2
      subst e1; subst e2
      exact ⟨hh, fun i hi => by cases hi⟩

theorem optStr_inv {len : Nat} (fuel : Nat) (m : Mem) (o : Option Nat) (h : Inv len m)
    (ho : ∀ i, o = some i → i ≤ len) (hf : len < fuel) : Inv len (optStr fuel m o).1 := by
  cases o with
  | none => exact h
  | some i => exact (cstr_inv fuel m i h (ho i rfl) (by omega)).1

theorem portOf_inv {len : Nat} (fuel : Nat) (scheme : Bytes) (m : Mem) (o : Option Nat) (h : Inv len m)
    (ho : ∀ i, o = some i → i ≤ len) (hf : len < fuel) : Inv len (portOf fuel scheme m o).1 := by
  cases o with
  | none => exact h
  | some i =>
    have := (cstr_inv fuel m i h (ho i rfl) (by omega)).1
    simp only [portOf]
    split <;> exact this

theorem finish_inv {len : Nat} (fuel : Nat) (scheme : Bytes) (bufsz : Nat) (m : Mem) (ui : Option Nat)
    (p : Nat) (q f : Option Nat) (hostI : Nat) (portI : Option Nat) (h : Inv len m) (hf : len < fuel)
    (hui : ∀ i, ui = some i → i ≤ len) (hp : p ≤ len) (hq : ∀ i, q = some i → i ≤ len)
    (hfr : ∀ i, f = some i → i ≤ len) (hh : hostI ≤ len) (hpi : ∀ i, portI = some i → i ≤ len) :
    Inv len (finish fuel scheme bufsz m ui p q f hostI portI).mem := by
  have s6 := (cstr_inv fuel m hostI h hh (by omega)).1
  unfold finish
  simp only
  split
  · exact s6
  · have s7 := portOf_inv fuel scheme _ portI s6 hpi hf
    split
    · exact s7
    · have s8 := optStr_inv fuel _ ui s7 hui hf
      have s9 := (cstr_inv fuel _ p s8 hp (by omega)).1
      have s10 := optStr_inv fuel _ q s9 hq hf
      exact optStr_inv fuel _ f s10 hfr hf

theorem afterCanon_inv {len : Nat} (fuel : Nat) (scheme : Bytes) (bufsz : Nat) (m : Mem) (ui : Option Nat)
    (host p : Nat) (h : Inv len m) (hf : len < fuel) (hui : ∀ i, ui = some i → i ≤ len)
    (hh : host ≤ len) (hp : p ≤ len) : Inv len (afterCanon fuel scheme bufsz m ui host p).mem := by
  obtain ⟨s4, q4, f4⟩ := stageQF_inv fuel m p h hp hf
  obtain ⟨s5, p5⟩ := stageHostPort_inv fuel _ host s4 hh hf
  unfold afterCanon
  simp only
  split
  · exact s5
  · rename_i hostI portI hhp
    obtain ⟨hhi, hpi⟩ := p5 hostI portI hhp
    exact finish_inv fuel scheme bufsz _ ui p _ _ hostI portI s5 hf hui hp q4 f4 hhi hpi

theorem afterUser_inv {len : Nat} (fuel : Nat) (scheme : Bytes) (bufsz : Nat) (m : Mem) (ui : Option Nat)
    (host p : Nat) (h : Inv len m) (hf : len < fuel) (hui : ∀ i, ui = some i → i ≤ len)
    (hh : host ≤ len) (hp : p ≤ len) : Inv len (afterUser fuel scheme bufsz m ui host p).mem := by
  have s3 := canonifyAt_inv fuel m p h hp hf
  unfold afterUser
  simp only
  split
  · exact s3
  · exact afterCanon_inv fuel scheme bufsz _ ui host p s3 hf hui hh hp

/-- the whole authority-form parse keeps every access inside the buffer -/
theorem parseAuthorityF_inv {len : Nat} (fuel : Nat) (scheme : Bytes) (bufsz : Nat) (m : Mem)
    (h : Inv len m) (h3 : 3 ≤ len) (hf : len < fuel) :
    Inv len (parseAuthorityF fuel scheme bufsz m).mem := by
  obtain ⟨s1, p1⟩ := stageHost_inv fuel m h h3 hf
  obtain ⟨s2, p2⟩ := stageUser_inv fuel _ s1 hf
  unfold parseAuthorityF
  simp only
  split
  · exact s2
  · rename_i ui host hu
    obtain ⟨hhost, hui⟩ := p2 ui host hu
    exact afterUser_inv _ scheme bufsz _ ui host _ s2 hf hui hhost p1

theorem parseAuthority_inv {len : Nat} (scheme : Bytes) (bufsz : Nat) (m : Mem) (h : Inv len m)
    (h3 : 3 ≤ len) : Inv len (UrlBuf.parseAuthority scheme bufsz m).mem :=
  parseAuthorityF_inv _ scheme bufsz m h h3 (by have := h.2.1; omega)

theorem parseMem_safe (raw : Bytes) (m : Mem) (hinv : Inv (raw.drop (schemeLen raw)).length m) :
    (parseMem raw m).mem.safe = true := by
  unfold parseMem
  simp only
  split
  · exact hinv.1
  · rename_i hsep
    obtain ⟨rest, hrest⟩ := UrlProofs.strncmp_sep _ (by simpa using hsep)
    have h3 : 3 ≤ (raw.drop (schemeLen raw)).length := by rw [hrest]; simp [sep]
    have hsz := hinv.2.1
    split
    · exact hinv.1
    · split
      · exact (cstr_inv (m.buf.size + 1) m 3 hinv h3 (by omega)).1.1
      · exact (parseAuthority_inv _ _ m hinv h3).1

/-- nng_url_parse never touches a byte outside its buffer, whatever the input and whatever
    follows the copied string in the allocation -/
theorem parseWith_safe (raw pad : Bytes) : (parseWith raw pad).mem.safe = true :=
  parseMem_safe raw _ (init_inv _ pad)

end Nng.UrlBufProofs
