/-
  RESPONDENT judge simulation, part A: finishing a step, refused events, events that change nothing,
  `poll`, options, new pipe, new context, `open`, the clock before `open`.
-/
import NngModel.Proofs.RespJudgeRel
namespace Nng.RespJudge
open Nng Nng.Proto Nng.Respond Nng.SurveySpec

/-! ### the pollable clause -/

def isNbSock : Ev → Bool
  | .recv none _ .nb => true
  | .send none _ _ .nb => true
  | _ => false

theorem pollClause_skip (lp : Option (Option Bool × Option Bool)) (ev : Ev) (outs : List Out)
    (h : isNbSock ev = false) : pollClause lp ev outs = none := by
  unfold pollClause
  cases lp with
  | none => rfl
  | some rw =>
    obtain ⟨r, w⟩ := rw
    cases ev <;> try rfl
    · rename_i k a m mode
      cases k <;> cases mode <;> first | rfl | (simp [isNbSock] at h)
    · rename_i k a mode
      cases k <;> cases mode <;> first | rfl | (simp [isNbSock] at h)

theorem pollOf_skip {ev : Ev} {outs : List Out} (h : ev ≠ .poll) : pollOf ev outs = none := by
  cases ev <;> first | rfl | exact absurd rfl h

/-! ### finishing a step -/

theorem step_finish {s' : State} {j j2 : RespJ} {used : List Bytes} (ev : Ev) (outs : List Out)
    (herr : j.err = none) (hne : notExecuted outs = false) (hn : NInv s')
    (hj2 : ctxCloseStep ev outs (respMid outs (respPre j ev outs)) = j2)
    (hc : RelCore s' (unfreshJ j2) used) (hb : hasBlocked outs = false)
    (hp : pollClause j2.lastPoll ev outs = none)
    (hpo : ∀ r w, pollOf ev outs = some (r, w) → r = some s'.readable ∧ w = some s'.writable) :
    Rel s' (respStep j ev outs) used := by
  rw [respStep_eq herr hne]
  unfold respPost
  rw [hj2]
  exact post_ok ev outs hn hc hb hp hpo

/-- the judge's books do not change and the model state changes only in fields the relation ignores -/
theorem step_plain {s s' : State} {j : RespJ} {used : List Bytes} (ev : Ev) (outs : List Out)
    (hR : Rel s j used) (hn : NInv s') (hne : notExecuted outs = false)
    (hj2 : ctxCloseStep ev outs (respMid outs (respPre j ev outs)) = j)
    (h1 : s'.ctxs = s.ctxs) (h2 : s'.pipes = s.pipes) (h3 : s'.recvpipes = s.recvpipes) (h4 : s'.ttl = s.ttl)
    (h5 : s'.opened = s.opened) (h6 : s'.closed = s.closed)
    (hb : hasBlocked outs = false) (hnb : isNbSock ev = false)
    (hpo : ∀ r w, pollOf ev outs = some (r, w) → r = some s'.readable ∧ w = some s'.writable) :
    Rel s' (respStep j ev outs) used := by
  apply step_finish ev outs hR.core.err hne hn hj2 _ hb (pollClause_skip _ _ _ hnb) hpo
  rw [unfreshJ_id hR.core.fresh]
  exact hR.core.of_eq h1 h2 h3 h4 h5 h6

theorem refused_ok {s : State} {j : RespJ} {used : List Bytes} (hR : Rel s j used) (ev : Ev) (msg : String) :
    Rel s (respStep j ev [.other msg]) used := by
  rw [respStep_refused rfl]; exact hR

/-! ### nothing happens -/

theorem rvNeg_ok {s : State} {j : RespJ} {used : List Bytes} (hR : Rel s j used) (hn : NInv s) (ev : Ev)
    (hev : (∃ p, ev = .pipeDrop p) ∨ (∃ p rv, ev = .sendDone p rv) ∨ (∃ p r, ev = .recvDone p r) ∨ (∃ k, ev = .ctxClose k)) :
    Rel s (respStep j ev [.rv (-1)]) used := by
  have hnb : isNbSock ev = false := by
    rcases hev with ⟨p, rfl⟩ | ⟨p, rv, rfl⟩ | ⟨p, r, rfl⟩ | ⟨k, rfl⟩ <;> rfl
  have hpo : pollOf ev [.rv (-1)] = none := by
    rcases hev with ⟨p, rfl⟩ | ⟨p, rv, rfl⟩ | ⟨p, r, rfl⟩ | ⟨k, rfl⟩ <;> rfl
  refine step_plain ev _ hR hn rfl ?_ rfl rfl rfl rfl rfl rfl rfl hnb (by rw [hpo]; intro r w h; cases h)
  rcases hev with ⟨p, rfl⟩ | ⟨p, rv, rfl⟩ | ⟨p, r, rfl⟩ | ⟨k, rfl⟩
  · rfl
  · rfl
  · cases r <;> rfl
  · rfl

theorem getopt_ok {s : State} {j : RespJ} {used : List Bytes} (hR : Rel s j used) (hn : NInv s)
    (k : Option Nat) (name ty : String) (v : Int) :
    Rel s (respStep j (.getopt k name ty) [.rv2 0 v]) used :=
  step_plain _ _ hR hn rfl rfl rfl rfl rfl rfl rfl rfl rfl rfl (by intro r w h; cases h)

theorem poll_ok {s : State} {j : RespJ} {used : List Bytes} (hR : Rel s j used) (hn : NInv s) :
    Rel s (respStep j .poll [.poll (some s.readable) (some s.writable)]) used := by
  refine step_plain _ _ hR hn rfl rfl rfl rfl rfl rfl rfl rfl rfl rfl ?_
  intro r w h
  simp only [pollOf, List.findSome?_cons, Option.some.injEq, Prod.mk.injEq] at h
  exact ⟨h.1.symm, h.2.symm⟩

theorem setopt_bad_ok {s : State} {j : RespJ} {used : List Bytes} (hR : Rel s j used) (hn : NInv s) (v : Int) :
    Rel s (respStep j (.setopt none "ttl-max" "int" v) [.rv Err.einval]) used :=
  step_plain _ _ hR hn rfl rfl rfl rfl rfl rfl rfl rfl rfl rfl (by intro r w h; cases h)

theorem setopt_ok {s : State} {j : RespJ} {used : List Bytes} (hR : Rel s j used) (hn : NInv s) (ho : s.opened = true) (v : Int) :
    Rel { s with ttl := v.toNat } (respStep j (.setopt none "ttl-max" "int" v) [.rv 0]) used := by
  have hj2 : ctxCloseStep (.setopt none "ttl-max" "int" v) [.rv 0]
      (respMid [.rv 0] (respPre j (.setopt none "ttl-max" "int" v) [.rv 0])) = { j with ttl := v.toNat } := rfl
  refine step_finish _ _ hR.core.err rfl (hn.of_eq rfl rfl rfl rfl) hj2 ?_ rfl (pollClause_skip _ _ _ rfl) (by intro r w h; cases h)
  rw [unfreshJ_id (j := { j with ttl := v.toNat }) hR.core.fresh]
  have hc := hR.core
  exact ⟨hc.err, hc.closed, fun _ => rfl, (fun h => by rw [ho] at h; cases h), hc.ctxs, hc.arr, hc.pr, hc.ps, hc.aios,
    hc.gone, hc.infl, hc.bodies, hc.used⟩

/-! ### the clock -/

theorem advance_idle_ok {s : State} {j : RespJ} {used : List Bytes} (hR : Rel s j used) (hn : NInv s) (ms n : Nat) :
    Rel { s with now := n } (respStep j (.advance ms) []) used := by
  have hj2 : ctxCloseStep (.advance ms) [] (respMid [] (respPre j (.advance ms) [])) = { j with now := j.now + ms } := rfl
  refine step_finish _ _ hR.core.err rfl (hn.of_eq rfl rfl rfl rfl) hj2 ?_ rfl (pollClause_skip _ _ _ rfl) (by intro r w h; cases h)
  rw [unfreshJ_id (j := { j with now := j.now + ms }) hR.core.fresh]
  exact (hR.core.now _).of_eq rfl rfl rfl rfl rfl rfl

/-! ### `open` -/

theorem open_ok {s : State} {j : RespJ} {used : List Bytes} (hR : Rel s j used) (hI : MInv s) (ho : s.opened = false)
    (proto : String) (raw : Bool) :
    Rel { s with opened := true, ttl := Nng.Generated.respTtlInit, ctxs := [{ key := none }] }
      (respStep j (.openSock proto raw) [.rv 0]) used := by
  obtain ⟨n, rfl⟩ := hI.un ho
  have hj2 : ctxCloseStep (.openSock proto raw) [.rv 0]
      (respMid [.rv 0] (respPre j (.openSock proto raw) [.rv 0])) = { j with ctxs := [({ key := none } : RCtxJ)] } := rfl
  have hn' : NInv { ({ ({} : State) with now := n }) with opened := true, ttl := Nng.Generated.respTtlInit, ctxs := [{ key := none }] } :=
    ninv_stepOK.hOpen _ hI.n rfl
  refine step_finish _ _ hR.core.err rfl hn' hj2 ?_ rfl (pollClause_skip _ _ _ rfl) (by intro r w h; cases h)
  rw [unfreshJ_id (j := { j with ctxs := [({ key := none } : RCtxJ)] }) hR.core.fresh]
  have hc := hR.core
  refine ⟨hc.err, hc.closed, fun _ => hc.ttl0 rfl, (fun h => by cases h), rfl, hc.arr, ?_, ?_, hc.aios, hc.gone, hc.infl,
    hc.bodies, hc.used⟩
  · intro x
    rw [hc.pr]
    constructor
    · rintro ⟨c, hcm, _⟩; cases hcm
    · rintro ⟨c, hcm, r, hr, _⟩
      simp only [List.mem_singleton] at hcm
      subst hcm; cases hr
  · intro e
    rw [hc.ps]
    constructor
    · rintro ⟨c, hcm, _⟩; cases hcm
    · rintro ⟨c, hcm, r, hr, _⟩
      simp only [List.mem_singleton] at hcm
      subst hcm; cases hr

/-! ### a new context -/

theorem ctxOpen_ok {s : State} {j : RespJ} {used : List Bytes} (hR : Rel s j used) (hn : NInv s) (k : Nat)
    (hg : getCtx s (some k) = none) :
    Rel { s with ctxs := s.ctxs ++ [{ key := some k }] } (respStep j (.ctxOpen k) [.rv 0]) used := by
  have hc := hR.core
  have hfil : j.ctxs.filter (·.key != some k) = j.ctxs := by
    rw [List.filter_eq_self]
    intro a ha
    rw [hc.ctxs] at ha
    obtain ⟨c, hcm, rfl⟩ := List.mem_map.1 ha
    have := List.find?_eq_none.1 hg c hcm
    simpa [absCtx] using this
  have hj2 : ctxCloseStep (.ctxOpen k) [.rv 0] (respMid [.rv 0] (respPre j (.ctxOpen k) [.rv 0])) =
      { j with ctxs := j.ctxs ++ [({ key := some k } : RCtxJ)] } := by
    show ({ j with ctxs := j.ctxs.filter (·.key != some k) ++ [({ key := some k } : RCtxJ)] } : RespJ) = _
    rw [hfil]
  have hn' : NInv { s with ctxs := s.ctxs ++ [({ key := some k } : Ctx)] } := ninv_stepOK.hCtxOpen s k hn hg
  refine step_finish _ _ hc.err rfl hn' hj2 ?_ rfl (pollClause_skip _ _ _ rfl) (by intro r w h; cases h)
  rw [unfreshJ_id (j := { j with ctxs := j.ctxs ++ [({ key := some k } : RCtxJ)] }) hc.fresh]
  refine ⟨hc.err, hc.closed, hc.ttl, hc.ttl0, ?_, hc.arr, ?_, ?_, hc.aios, hc.gone, hc.infl, hc.bodies, hc.used⟩
  · show j.ctxs ++ [({ key := some k } : RCtxJ)] = (s.ctxs ++ [({ key := some k } : Ctx)]).map absCtx
    rw [List.map_append, hc.ctxs]; rfl
  · intro x
    rw [hc.pr]
    constructor
    · rintro ⟨c, hcm, r, hr, rfl⟩
      exact ⟨c, List.mem_append_left _ hcm, r, hr, rfl⟩
    · rintro ⟨c, hcm, r, hr, rfl⟩
      rcases List.mem_append.1 hcm with hcm | hcm
      · exact ⟨c, hcm, r, hr, rfl⟩
      · simp only [List.mem_singleton] at hcm
        subst hcm; cases hr
  · intro e
    rw [hc.ps]
    constructor
    · rintro ⟨c, hcm, r, hr, rfl⟩
      exact ⟨c, List.mem_append_left _ hcm, r, hr, rfl⟩
    · rintro ⟨c, hcm, r, hr, rfl⟩
      rcases List.mem_append.1 hcm with hcm | hcm
      · exact ⟨c, hcm, r, hr, rfl⟩
      · simp only [List.mem_singleton] at hcm
        subst hcm; cases hr

/-! ### a new pipe -/

theorem rel_pipeAdd {s : State} {j : RespJ} {used : List Bytes} (hc : RelCore s j used) (hn : NInv s) (pp : Pipe)
    (hid : pp.id = s.pipes.length) (hb : pp.busy = false) (g : List Nat)
    (hg : ∀ p, p ∈ g ↔ p ∈ j.gone ∨ (p = pp.id ∧ pp.closed = true)) :
    RelCore { s with pipes := s.pipes ++ [pp] } { j with gone := g } used := by
  have hold : ∀ p x, getPipe s p = some x → getPipe { s with pipes := s.pipes ++ [pp] } p = some x :=
    fun p x h => getPipe_append_old h
  refine ⟨hc.err, hc.closed, hc.ttl, hc.ttl0, hc.ctxs, ?_, hc.pr, hc.ps, hc.aios, ?_, ?_, hc.bodies, hc.used⟩
  · show j.arrivals.map some = s.recvpipes.map (arrOf { s with pipes := s.pipes ++ [pp] })
    rw [hc.arr]
    apply List.map_congr_left
    intro p hp
    obtain ⟨x, hx, _⟩ := hn.rp p hp
    unfold arrOf
    rw [hold p x hx, hx]
  · intro p
    rw [hg, hc.gone]
    cases hgp : getPipe s p with
    | some x =>
      rw [hold p x hgp]
      have := getPipe_lt hn.ids hgp
      constructor
      · rintro (h | ⟨h, _⟩)
        · exact h
        · omega
      · intro h; exact Or.inl h
    | none =>
      rw [getPipe_append_none hgp]
      by_cases e : pp.id = p
      · rw [if_pos e]
        simp only [Option.map_none, Option.map_some, Option.some.injEq]
        constructor
        · rintro (h | ⟨_, h⟩)
          · cases h
          · exact h
        · intro h; exact Or.inr ⟨e.symm, h⟩
      · rw [if_neg e]
        simp only [Option.map_none]
        constructor
        · rintro (h | ⟨h, _⟩)
          · cases h
          · exact absurd h.symm e
        · intro h; cases h
  · intro p
    rw [hc.infl]
    cases hgp : getPipe s p with
    | some x => rw [hold p x hgp]
    | none =>
      rw [getPipe_append_none hgp]
      by_cases e : pp.id = p
      · rw [if_pos e]; simp [hb]
      · rw [if_neg e]

theorem arrivals_filter_new {s : State} {j : RespJ} {used : List Bytes} (hc : RelCore s j used) (hn : NInv s) :
    j.arrivals.filter (·.pipe != s.pipes.length) = j.arrivals := by
  rw [List.filter_eq_self]
  intro ar har
  obtain ⟨p, _, hp⟩ := arr_mem hc.arr har
  obtain ⟨h1, h2⟩ := arr_lt hn.ids hp
  simp only [bne_iff_ne, ne_eq]
  omega

theorem inflight_filter_new {s : State} {j : RespJ} {used : List Bytes} (hc : RelCore s j used) (hn : NInv s) :
    j.inflight.filter (· != s.pipes.length) = j.inflight := by
  rw [List.filter_eq_self]
  intro p hp
  have := (hc.infl p).1 hp
  cases hgp : getPipe s p with
  | none => rw [hgp] at this; cases this
  | some x =>
    have := getPipe_lt hn.ids hgp
    simp only [bne_iff_ne, ne_eq]
    omega

theorem pipeAdd_bad_ok {s : State} {j : RespJ} {used : List Bytes} (hR : Rel s j used) (hn : NInv s) (ho : s.opened = true) (peer : Nat) :
    Rel { s with pipes := s.pipes ++ [{ id := s.pipes.length, closed := true }] }
      (respStep j (.pipeAdd peer) [.pipe s.pipes.length, .pclosed s.pipes.length]) used := by
  have hc := hR.core
  have hj2 : ctxCloseStep (.pipeAdd peer) [.pipe s.pipes.length, .pclosed s.pipes.length]
      (respMid [.pipe s.pipes.length, .pclosed s.pipes.length] (respPre j (.pipeAdd peer) [.pipe s.pipes.length, .pclosed s.pipes.length])) =
      { j with gone := j.gone ++ [s.pipes.length] } := by
    show ({ j with gone := j.gone ++ [s.pipes.length], arrivals := j.arrivals.filter (·.pipe != s.pipes.length),
                   inflight := j.inflight.filter (· != s.pipes.length) } : RespJ) = _
    rw [arrivals_filter_new hc hn, inflight_filter_new hc hn]
  have hn' := ninv_stepOK.hPipeAdd s { id := s.pipes.length, closed := true } hn ho rfl rfl rfl rfl
  refine step_finish _ _ hc.err rfl hn' hj2 ?_ rfl (pollClause_skip _ _ _ rfl) (by intro r w h; cases h)
  rw [unfreshJ_id (j := { j with gone := j.gone ++ [s.pipes.length] }) hc.fresh]
  apply rel_pipeAdd hc hn _ rfl rfl
  intro p
  simp

theorem pipeAdd_good_ok {s : State} {j : RespJ} {used : List Bytes} (hR : Rel s j used) (hn : NInv s) (ho : s.opened = true) (peer : Nat) :
    Rel { s with pipes := s.pipes ++ [{ id := s.pipes.length, armed := true }] }
      (respStep j (.pipeAdd peer) [.pipe s.pipes.length, .parm s.pipes.length]) used := by
  have hc := hR.core
  have hj2 : ctxCloseStep (.pipeAdd peer) [.pipe s.pipes.length, .parm s.pipes.length]
      (respMid [.pipe s.pipes.length, .parm s.pipes.length] (respPre j (.pipeAdd peer) [.pipe s.pipes.length, .parm s.pipes.length])) = j := rfl
  have hn' := ninv_stepOK.hPipeAdd s { id := s.pipes.length, armed := true } hn ho rfl rfl rfl rfl
  refine step_finish _ _ hc.err rfl hn' hj2 ?_ rfl (pollClause_skip _ _ _ rfl) (by intro r w h; cases h)
  rw [unfreshJ_id hc.fresh]
  have := rel_pipeAdd hc hn { id := s.pipes.length, armed := true } rfl rfl j.gone (by intro p; simp)
  exact this

end Nng.RespJudge
