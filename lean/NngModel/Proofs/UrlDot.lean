/-
  C19 (d), third canonicaliser pass (dot-segment removal).  Proved here:
    * an induction principle for `pass3` (one case per branch of the C loop),
    * the pass leaves no "/." or "/.." segment in the path part,
    * it keeps the guarantees of the first two passes (canonical escapes, no "//"),
  hence every output of `canonify` is `Canonical`.
-/
import NngModel.Proofs.UrlCanon
set_option linter.unusedSimpArgs false
namespace Nng.UrlProofs
open Nng Nng.Url Nng.UrlSpec

/-! ### unfolding equations of `pass3`, one per branch of the loop -/

theorem isDotDot_shape (rest : Bytes) (h : isDotDot rest = true) :
    ∃ r, rest = DOT :: DOT :: r ∧ isSegEnd r = true := by
  match rest, h with
  | [], h => simp [isDotDot] at h
  | [_], h => simp [isDotDot] at h
  | a :: b :: r, h =>
    simp only [isDotDot, Bool.and_eq_true, decide_eq_true_eq] at h
    exact ⟨r, by rw [h.1.1, h.1.2], h.2⟩

theorem isDot_shape (rest : Bytes) (h : isDot rest = true) :
    ∃ r, rest = DOT :: r ∧ isSegEnd r = true := by
  match rest, h with
  | [], h => simp [isDot] at h
  | a :: r, h =>
    simp only [isDot, Bool.and_eq_true, decide_eq_true_eq] at h
    exact ⟨r, by rw [h.1], h.2⟩

theorem isSegEnd_dot (r : Bytes) : isSegEnd (DOT :: r) = false := by
  simp only [isSegEnd]; decide

theorem pass3_nil (skip : Bool) (acc : Bytes) (n : Nat) : pass3 skip acc n [] = acc.reverse := by
  cases n <;> simp [pass3]

theorem pass3_dotdot (acc r : Bytes) (h : isSegEnd r = true) :
    pass3 false acc 0 (SLASH :: DOT :: DOT :: r) = pass3 false (popSeg acc) 0 r := by
  simp [pass3, isDotDot, h]

theorem pass3_dot (acc r : Bytes) (h : isSegEnd r = true) :
    pass3 false acc 0 (SLASH :: DOT :: r) = pass3 false acc 0 r := by
  have hdd : isDotDot (DOT :: r) = false := by
    match r, h with
    | [], _ => simp [isDotDot]
    | x :: r', h =>
      by_cases hx : x = DOT
      · subst hx; rw [isSegEnd_dot] at h; cases h
      · simp [isDotDot, hx]
  simp [pass3, hdd, isDot, h]

theorem pass3_slash (acc rest : Bytes) (h1 : isDotDot rest = false) (h2 : isDot rest = false) :
    pass3 false acc 0 (SLASH :: rest) = pass3 false (SLASH :: acc) 0 rest := by
  simp [pass3, h1, h2]

theorem pass3_char (acc : Bytes) (c : UInt8) (rest : Bytes) (hc : c ≠ SLASH) (he : pathEnd c = false) :
    pass3 false acc 0 (c :: rest) = pass3 false (c :: acc) 0 rest := by
  have he' : ¬ (c = QM ∨ c = HASH) := by rw [← pathEnd_iff]; simp [he]
  have : (false || decide (c = QM) || decide (c = HASH)) = false := by simp; exact not_or.mp he'
  simp only [pass3, hc, decide_false, Bool.false_and, this]
  simp

theorem pass3_pathEnd (acc : Bytes) (c : UInt8) (rest : Bytes) (he : pathEnd c = true) :
    pass3 false acc 0 (c :: rest) = acc.reverse ++ c :: rest := by
  have hc : c ≠ SLASH := by intro h; subst h; revert he; decide
  have he' := he; rw [pathEnd_iff] at he'
  have : (false || decide (c = QM) || decide (c = HASH)) = true := by simpa using he'
  simp only [pass3, hc, decide_false, Bool.false_and, this]
  simp [pass3_skip]

/-- Induction principle for the dot-segment pass: a relation `P` between the output written so
    far (reversed) and the input still to read that survives every branch of the loop yields `Q`
    of the result. -/
theorem pass3_ind (P : Bytes → Bytes → Prop) (Q : Bytes → Prop)
    (hchar : ∀ acc c rest, P acc (c :: rest) → c ≠ SLASH → pathEnd c = false → P (c :: acc) rest)
    (hslash : ∀ acc rest, P acc (SLASH :: rest) → isDotDot rest = false → isDot rest = false →
      P (SLASH :: acc) rest)
    (hdot : ∀ acc r, P acc (SLASH :: DOT :: r) → isSegEnd r = true → P acc r)
    (hdotdot : ∀ acc r, P acc (SLASH :: DOT :: DOT :: r) → isSegEnd r = true → P (popSeg acc) r)
    (hend : ∀ acc, P acc [] → Q acc.reverse)
    (hskip : ∀ acc c rest, P acc (c :: rest) → pathEnd c = true → Q (acc.reverse ++ c :: rest)) :
    ∀ (k : Nat) (s acc : Bytes), s.length ≤ k → P acc s → Q (pass3 false acc 0 s) := by
  intro k
  induction k with
  | zero =>
    intro s acc hl hp
    have : s = [] := by cases s <;> simp_all
    subst this; rw [pass3_nil]; exact hend acc hp
  | succ k ih =>
    intro s acc hl hp
    match s, hl, hp with
    | [], _, hp => rw [pass3_nil]; exact hend acc hp
    | c :: rest, hl, hp =>
      have hl' : rest.length ≤ k := by simp at hl; omega
      by_cases hc : c = SLASH
      · subst hc
        by_cases hdd : isDotDot rest = true
        · obtain ⟨r, hr, hse⟩ := isDotDot_shape rest hdd
          subst hr
          rw [pass3_dotdot _ _ hse]
          exact ih r _ (by simp at hl'; omega) (hdotdot acc r hp hse)
        · by_cases hd : isDot rest = true
          · obtain ⟨r, hr, hse⟩ := isDot_shape rest hd
            subst hr
            rw [pass3_dot _ _ hse]
            exact ih r _ (by simp at hl'; omega) (hdot acc r hp hse)
          · rw [pass3_slash _ _ (by simpa using hdd) (by simpa using hd)]
            exact ih rest _ hl' (hslash acc rest hp (by simpa using hdd) (by simpa using hd))
      · by_cases he : pathEnd c = true
        · rw [pass3_pathEnd _ _ _ he]; exact hskip acc c rest hp he
        · rw [pass3_char _ _ _ hc (by simpa using he)]
          exact ih rest _ hl' (hchar acc c rest hp hc (by simpa using he))

/-! ### `popSeg` cuts the output just before a '/' (or empties it) -/

theorem popSeg_spec (acc : Bytes) :
    popSeg acc = [] ∨ ∃ b, acc.reverse = (popSeg acc).reverse ++ SLASH :: b := by
  induction acc with
  | nil => left; rfl
  | cons c rest ih =>
    simp only [popSeg]
    by_cases he : rest.isEmpty = true
    · left; simp [he]; simpa using he
    · by_cases hc : c = SLASH
      · right; subst hc; exact ⟨[], by simp⟩
      · have : (rest.isEmpty || decide (c = SLASH)) = false := by simp [hc]; simpa using he
        rw [this]; simp only [Bool.false_eq_true, if_false]
        rcases ih with h | ⟨b, hb⟩
        · left; exact h
        · right; exact ⟨b ++ [c], by simp [hb]⟩

theorem popSeg_mem (acc : Bytes) : ∀ x ∈ popSeg acc, x ∈ acc := by
  induction acc with
  | nil => simp [popSeg]
  | cons c rest ih =>
    intro x hx
    simp only [popSeg] at hx
    split at hx
    · exact List.mem_cons_of_mem _ hx
    · exact List.mem_cons_of_mem _ (ih x hx)

/-! ### escapes: an escape never straddles a '/' -/

/-- a wholly canonical prefix does not influence what follows -/
theorem esc_append_of : ∀ (n : Nat) (a r : Bytes), a.length ≤ n → escapesCanonical a = true →
    escapesCanonical (a ++ r) = escapesCanonical r := by
  intro n
  induction n with
  | zero => intro a r hl _; have : a = [] := by cases a <;> simp_all
            subst this; rfl
  | succ n ih =>
    intro a r hl h
    match a, h with
    | [], _ => rfl
    | c :: rest, h =>
      by_cases hc : c = PCT
      · subst hc
        match rest, h with
        | [], h => simp [escapesCanonical] at h
        | [_], h => simp [escapesCanonical] at h
        | h1 :: h2 :: rest', h =>
          rw [esc_triple] at h
          simp only [List.cons_append]
          rw [esc_triple]
          simp only [Bool.and_eq_true] at h
          rw [ih rest' r (by simp at hl; omega) h.2]
          simp [h.1.1.1.1, h.1.1.1.2, h.1.1.2, h.1.2]
      · rw [esc_cons_plain _ _ hc] at h
        simp only [List.cons_append]
        rw [esc_cons_plain _ _ hc]
        exact ih rest r (by simp at hl; omega) h

theorem upHex_slash : isUpHex SLASH = false := by decide

/-- a prefix that ends right before a '/' has canonical escapes if the whole has -/
theorem esc_prefix_slash : ∀ (n : Nat) (a r : Bytes), a.length ≤ n →
    escapesCanonical (a ++ SLASH :: r) = true → escapesCanonical a = true := by
  intro n
  induction n with
  | zero => intro a r hl _; have : a = [] := by cases a <;> simp_all
            subst this; rfl
  | succ n ih =>
    intro a r hl h
    match a, h with
    | [], _ => rfl
    | c :: rest, h =>
      by_cases hc : c = PCT
      · subst hc
        match rest, h with
        | [], h =>
          match r, h with
          | [], h => simp [escapesCanonical] at h
          | x :: r', h =>
            simp only [List.cons_append, List.nil_append] at h
            rw [esc_triple] at h; simp [upHex_slash] at h
        | [x], h =>
          simp only [List.cons_append, List.nil_append] at h
          rw [esc_triple] at h; simp [upHex_slash] at h
        | h1 :: h2 :: rest', h =>
          simp only [List.cons_append] at h
          rw [esc_triple] at h ⊢
          simp only [Bool.and_eq_true] at h ⊢
          exact ⟨h.1, ih rest' r (by simp at hl; omega) h.2⟩
      · simp only [List.cons_append] at h
        rw [esc_cons_plain _ _ hc] at h ⊢
        exact ih rest r (by simp at hl; omega) h

theorem esc_split_slash (a r : Bytes) (h : escapesCanonical (a ++ SLASH :: r) = true) :
    escapesCanonical a = true ∧ escapesCanonical r = true := by
  have ha := esc_prefix_slash a.length a r (Nat.le_refl _) h
  rw [esc_append_of a.length a _ (Nat.le_refl _) ha, esc_cons_plain _ _ (by decide)] at h
  exact ⟨ha, h⟩

theorem esc_join (a r : Bytes) (ha : escapesCanonical a = true) (hr : escapesCanonical r = true) :
    escapesCanonical (a ++ r) = true := by
  rw [esc_append_of a.length a r (Nat.le_refl _) ha]; exact hr

/-! ### "//": `nds` over an append -/

/-- is the last byte a '/' (`p` if there is none) -/
def lastSl : Bool → Bytes → Bool
  | p, [] => p
  | _, a :: r => lastSl (a = SLASH) r

theorem nds_append (p : Bool) (a x : Bytes) : nds p (a ++ x) = (nds p a && nds (lastSl p a) x) := by
  induction a generalizing p with
  | nil => simp [nds, lastSl]
  | cons c r ih => simp only [List.cons_append, nds, lastSl, ih, Bool.and_assoc]

theorem nds_weaken (p : Bool) (x : Bytes) (h : nds p x = true) : nds false x = true := by
  cases x with
  | nil => rfl
  | cons c r => simp only [nds, Bool.and_eq_true] at h ⊢; exact ⟨by simp, h.2⟩

/-! ### path part -/

theorem pathPart_all (a : Bytes) (h : ∀ x ∈ a, pathEnd x = false) : pathPart a = a := by
  induction a with
  | nil => rfl
  | cons c r ih =>
    rw [pathPart_cons, if_neg (by simp [h c (by simp)]), ih (fun x hx => h x (List.mem_cons_of_mem _ hx))]

theorem pathPart_append (a : Bytes) (c : UInt8) (rest : Bytes) (h : ∀ x ∈ a, pathEnd x = false)
    (hc : pathEnd c = true) : pathPart (a ++ c :: rest) = a := by
  induction a with
  | nil => simp [pathPart_cons, hc]
  | cons d r ih =>
    simp only [List.cons_append]
    rw [pathPart_cons, if_neg (by simp [h d (by simp)]), ih (fun x hx => h x (List.mem_cons_of_mem _ hx))]

/-! ### dot segments -/

/-- '/', '?' or '#': the bytes that end a path segment -/
def segc (c : UInt8) : Bool := c = HASH || c = QM || c = SLASH

/-- the rest of the current segment -/
def cur (s : Bytes) : Bytes := s.takeWhile (fun c => !segc c)

theorem cur_cons (c : UInt8) (r : Bytes) : cur (c :: r) = if segc c then [] else c :: cur r := by
  simp only [cur, List.takeWhile_cons]
  by_cases h : segc c <;> simp [h]

theorem cur_segEnd (r : Bytes) (h : isSegEnd r = true) : cur r = [] := by
  cases r with
  | nil => rfl
  | cons c t => rw [cur_cons, if_pos (by simpa [isSegEnd, segc] using h)]

theorem segc_iff (c : UInt8) : segc c = true ↔ (c = SLASH ∨ pathEnd c = true) := by
  simp only [segc, pathEnd_iff, Bool.or_eq_true, decide_eq_true_eq]
  constructor
  · rintro ((h | h) | h)
    · exact Or.inr (Or.inr h)
    · exact Or.inr (Or.inl h)
    · exact Or.inl h
  · rintro (h | h | h)
    · exact Or.inr h
    · exact Or.inl (Or.inr h)
    · exact Or.inl (Or.inl h)

theorem cur_noSlash (r : Bytes) : ∀ x ∈ cur r, x ≠ SLASH := by
  induction r with
  | nil => simp [cur]
  | cons c t ih =>
    intro x hx
    rw [cur_cons] at hx
    by_cases h : segc c = true
    · rw [if_pos h] at hx; cases hx
    · rw [if_neg h] at hx
      rcases List.mem_cons.1 hx with hx | hx
      · subst hx; intro hs; subst hs; exact h (by decide)
      · exact ih x hx

theorem nDS_noSlash (l : Bytes) (h : ∀ x ∈ l, x ≠ SLASH) : noDotSegment l = true := by
  induction l with
  | nil => rfl
  | cons c r ih =>
    simp only [noDotSegment, Bool.and_eq_true, Bool.not_eq_true', Bool.and_eq_false_iff,
      decide_eq_false_iff_not]
    exact ⟨Or.inl (h c (by simp)), ih (fun x hx => h x (List.mem_cons_of_mem _ hx))⟩

/-- closing a segment with '/' instead of the end of the string does not change whether it is
    a dot segment -/
theorem dotSegHere_append_slash (a b : Bytes) : dotSegHere (a ++ SLASH :: b) = dotSegHere a := by
  match a with
  | [] =>
    match b with
    | [] => simp [dotSegHere, SLASH]
    | [_] => simp [dotSegHere, SLASH]
    | _ :: _ :: _ => simp [dotSegHere, SLASH]
  | [x] =>
    match b with
    | [] => simp [dotSegHere, SLASH]
    | _ :: _ => simp [dotSegHere, SLASH]
  | [x, y] => simp [dotSegHere, SLASH]
  | x :: y :: z :: t => simp [dotSegHere, SLASH]

theorem nDS_append_slash (a b : Bytes) :
    noDotSegment (a ++ SLASH :: b) = (noDotSegment a && noDotSegment (SLASH :: b)) := by
  induction a with
  | nil => simp [noDotSegment]
  | cons c r ih =>
    simp only [List.cons_append]
    rw [noDotSegment, noDotSegment, dotSegHere_append_slash, ih, Bool.and_assoc]

theorem segc_true (c : UInt8) (h : segc c = true) : c = HASH ∨ c = QM ∨ c = SLASH := by
  simp only [segc, Bool.or_eq_true, decide_eq_true_eq] at h
  rcases h with (h | h) | h
  · exact Or.inl h
  · exact Or.inr (Or.inl h)
  · exact Or.inr (Or.inr h)

theorem segc_false (c : UInt8) (h : ¬ segc c = true) : c ≠ HASH ∧ c ≠ QM ∧ c ≠ SLASH := by
  simp only [segc, Bool.or_eq_true, decide_eq_true_eq] at h
  exact ⟨fun e => h (Or.inl (Or.inl e)), fun e => h (Or.inl (Or.inr e)), fun e => h (Or.inr e)⟩

/-- the specification's "dot segment here" on the current segment is the code's two tests -/
theorem dotSegHere_cur (r : Bytes) : dotSegHere (cur r) = (isDot r || isDotDot r) := by
  match r with
  | [] => rfl
  | [a] =>
    by_cases ha : segc a = true
    · have : a ≠ DOT := by intro h; subst h; revert ha; decide
      simp [cur, ha, dotSegHere, isDot, isDotDot, isSegEnd, this]
    · simp [cur, ha, dotSegHere, isDot, isDotDot, isSegEnd]
  | [a, b] =>
    by_cases ha : segc a = true
    · have : a ≠ DOT := by intro h; subst h; revert ha; decide
      simp [cur, ha, dotSegHere, isDot, isDotDot, isSegEnd, this]
    · by_cases hb : segc b = true
      · have hb2 : b ≠ DOT := by intro h; subst h; revert hb; decide
        simp only [cur, List.takeWhile_cons, ha, hb, Bool.not_true, Bool.not_false, if_true,
          Bool.false_eq_true, if_false, List.takeWhile_nil, dotSegHere, isDot, isDotDot, isSegEnd]
        rcases segc_true b hb with h | h | h <;> subst h <;> simp [DOT, HASH, QM, SLASH]
      · obtain ⟨b1, b2, b3⟩ := segc_false b hb
        simp [cur, ha, hb, dotSegHere, isDot, isDotDot, isSegEnd, b1, b2, b3]
  | a :: b :: c :: t =>
    by_cases ha : segc a = true
    · have : a ≠ DOT := by intro h; subst h; revert ha; decide
      simp [cur, ha, dotSegHere, isDot, isDotDot, isSegEnd, this]
    · by_cases hb : segc b = true
      · have hb2 : b ≠ DOT := by intro h; subst h; revert hb; decide
        simp only [cur, List.takeWhile_cons, ha, hb, Bool.not_true, Bool.not_false, if_true,
          Bool.false_eq_true, if_false, List.takeWhile_nil, dotSegHere, isDot, isDotDot, isSegEnd]
        rcases segc_true b hb with h | h | h <;> subst h <;> simp [DOT, HASH, QM, SLASH]
      · obtain ⟨b1, b2, b3⟩ := segc_false b hb
        by_cases hc : segc c = true
        · simp only [cur, List.takeWhile_cons, ha, hb, hc, Bool.not_true, Bool.not_false, if_true,
            Bool.false_eq_true, if_false, List.takeWhile_nil, dotSegHere, isDot, isDotDot, isSegEnd]
          have b3' : ¬ b = 47 := b3
          rcases segc_true c hc with h | h | h <;> subst h <;> simp [b1, b2, b3, b3', DOT]
        · obtain ⟨c1, c2, c3⟩ := segc_false c hc
          have b3' : ¬ b = 47 := b3
          have c3' : ¬ c = 47 := c3
          simp [cur, ha, hb, hc, dotSegHere, isDot, isDotDot, isSegEnd, b1, b2, b3, c1, c2, c3, b3', c3', DOT]

/-! ### the invariant of the dot-segment loop -/

/-- `acc` = output so far (reversed), `rest` = input still to read.  The output has no '?'/'#';
    output + unread input has canonical escapes; output + unread path has no "//"; output + the rest
    of the segment being copied has no dot segment. -/
def Inv3 (acc rest : Bytes) : Prop :=
  (∀ x ∈ acc, pathEnd x = false) ∧
  escapesCanonical (acc.reverse ++ rest) = true ∧
  nds false (acc.reverse ++ pathPart rest) = true ∧
  noDotSegment (acc.reverse ++ cur rest) = true

theorem nds_slash_cons (q : Bool) (x : Bytes) :
    nds q (SLASH :: x) = (!q && nds true x) := by
  simp [nds]

theorem nds_dot_cons (q : Bool) (x : Bytes) : nds q (DOT :: x) = nds false x := by
  have : (DOT = SLASH) = False := by decide
  simp [nds, this]

theorem inv3_char (acc : Bytes) (c : UInt8) (rest : Bytes) (h : Inv3 acc (c :: rest))
    (hc : c ≠ SLASH) (he : pathEnd c = false) : Inv3 (c :: acc) rest := by
  obtain ⟨h1, h2, h3, h4⟩ := h
  have hs : ¬ segc c = true := by rw [segc_iff]; simp [hc, he]
  refine ⟨?_, ?_, ?_, ?_⟩
  · intro x hx
    rcases List.mem_cons.1 hx with hx | hx
    · subst hx; exact he
    · exact h1 x hx
  · simpa using h2
  · rw [pathPart_cons, if_neg (by simp [he])] at h3; simpa using h3
  · rw [cur_cons, if_neg hs] at h4; simpa using h4

theorem inv3_slash (acc rest : Bytes) (h : Inv3 acc (SLASH :: rest))
    (hdd : isDotDot rest = false) (hd : isDot rest = false) : Inv3 (SLASH :: acc) rest := by
  obtain ⟨h1, h2, h3, h4⟩ := h
  refine ⟨?_, ?_, ?_, ?_⟩
  · intro x hx
    rcases List.mem_cons.1 hx with hx | hx
    · subst hx; decide
    · exact h1 x hx
  · simpa using h2
  · rw [pathPart_cons, if_neg (by decide)] at h3; simpa using h3
  · rw [cur_cons, if_pos (by decide)] at h4
    simp only [List.append_nil] at h4
    simp only [List.reverse_cons, List.append_assoc, List.singleton_append]
    rw [nDS_append_slash, h4, noDotSegment, dotSegHere_cur, hd, hdd, nDS_noSlash _ (cur_noSlash rest)]
    rfl

theorem inv3_dot (acc r : Bytes) (h : Inv3 acc (SLASH :: DOT :: r)) (hse : isSegEnd r = true) :
    Inv3 acc r := by
  obtain ⟨h1, h2, h3, h4⟩ := h
  refine ⟨h1, ?_, ?_, ?_⟩
  · obtain ⟨ha, hr⟩ := esc_split_slash _ _ h2
    rw [esc_cons_plain _ _ (by decide)] at hr
    exact esc_join _ _ ha hr
  · rw [pathPart_cons, if_neg (by decide), pathPart_cons, if_neg (by decide), nds_append,
      nds_slash_cons, nds_dot_cons] at h3
    simp only [Bool.and_eq_true, Bool.not_eq_true'] at h3
    rw [nds_append, h3.1, h3.2.1, h3.2.2]; rfl
  · rw [cur_cons, if_pos (by decide)] at h4
    rw [cur_segEnd r hse]; exact h4

theorem inv3_dotdot (acc r : Bytes) (h : Inv3 acc (SLASH :: DOT :: DOT :: r)) (hse : isSegEnd r = true) :
    Inv3 (popSeg acc) r := by
  obtain ⟨h1, h2, h3, h4⟩ := h
  obtain ⟨ha, hr⟩ := esc_split_slash _ _ h2
  rw [esc_cons_plain _ _ (by decide), esc_cons_plain _ _ (by decide)] at hr
  rw [pathPart_cons, if_neg (by decide), pathPart_cons, if_neg (by decide), pathPart_cons,
    if_neg (by decide), nds_append, nds_slash_cons, nds_dot_cons, nds_dot_cons] at h3
  simp only [Bool.and_eq_true, Bool.not_eq_true'] at h3
  rw [cur_cons, if_pos (by decide)] at h4
  simp only [List.append_nil] at h4
  refine ⟨fun x hx => h1 x (popSeg_mem acc x hx), ?_, ?_, ?_⟩
  · rcases popSeg_spec acc with h0 | ⟨b, hb⟩
    · rw [h0]; exact hr
    · rw [hb] at ha
      exact esc_join _ _ (esc_split_slash _ _ ha).1 hr
  · rcases popSeg_spec acc with h0 | ⟨b, hb⟩
    · rw [h0]; exact h3.2.2
    · have hA := h3.1
      rw [hb, nds_append, nds_slash_cons] at hA
      simp only [Bool.and_eq_true, Bool.not_eq_true'] at hA
      rw [nds_append, hA.1, hA.2.1, h3.2.2]; rfl
  · rw [cur_segEnd r hse]
    rcases popSeg_spec acc with h0 | ⟨b, hb⟩
    · rw [h0]; rfl
    · rw [hb, nDS_append_slash] at h4
      simp only [Bool.and_eq_true] at h4
      simpa using h4.1

theorem inv3_end (acc : Bytes) (h : Inv3 acc []) : canonicalb acc.reverse = true := by
  obtain ⟨h1, h2, h3, h4⟩ := h
  have hp : pathPart acc.reverse = acc.reverse :=
    pathPart_all _ (fun x hx => h1 x (List.mem_reverse.1 hx))
  simp only [List.append_nil, pathPart, List.takeWhile_nil, cur] at h2 h3 h4
  unfold canonicalb
  rw [hp, ← nds_false, h2, h3, h4]; rfl

theorem inv3_skip (acc : Bytes) (c : UInt8) (rest : Bytes) (h : Inv3 acc (c :: rest))
    (he : pathEnd c = true) : canonicalb (acc.reverse ++ c :: rest) = true := by
  obtain ⟨h1, h2, h3, h4⟩ := h
  have hp : pathPart (acc.reverse ++ c :: rest) = acc.reverse :=
    pathPart_append _ c rest (fun x hx => h1 x (List.mem_reverse.1 hx)) he
  rw [pathPart_cons, if_pos he] at h3
  rw [cur_cons, if_pos (by rw [segc_iff]; exact Or.inr he)] at h4
  simp only [List.append_nil] at h3 h4
  unfold canonicalb
  rw [hp, ← nds_false, h2, h3, h4]; rfl

/-- The dot-segment pass, run on a string with canonical escapes and no "//" in its path part,
    produces a canonical string. -/
theorem pass3_canonical (s : Bytes) (he : escapesCanonical s = true)
    (hn : noDoubleSlash (pathPart s) = true) : canonicalb (pass3 false [] 0 s) = true := by
  refine pass3_ind Inv3 (fun out => canonicalb out = true) inv3_char inv3_slash inv3_dot inv3_dotdot
    inv3_end inv3_skip s.length s [] (Nat.le_refl _) ⟨?_, ?_, ?_, ?_⟩
  · intro x hx; cases hx
  · simpa using he
  · rw [← nds_false] at hn; simpa using hn
  · simpa using nDS_noSlash _ (cur_noSlash s)

/-- every output of the canonicaliser is canonical -/
theorem canonify_canonical (s r : Bytes) (h : canonify s = some r) : Canonical r := by
  obtain ⟨a, ha, hr⟩ := canonify_passes s r h
  have hesc := pass1_canonical s.length s a (Nat.le_refl _) ha
  rw [hr]
  exact pass3_canonical _ (pass2_escapes a.length a false false (Nat.le_refl _) hesc)
    (pass2_noDoubleSlash a)

end Nng.UrlProofs
