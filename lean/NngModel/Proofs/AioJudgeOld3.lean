/- the monitor's step as it was BEFORE the correction "nng_aio_stop's guarantee is about the callbacks that
   began before the stop call and about the operations whose start had returned before it" (verbatim copy of
   `Nng.AioSpec.step` / `judge` from the previous Spec/Aio.lean; types shared): it counted EVERY running callback
   at the return of nng_aio_stop, also the NNG_ESTOPPED callback of a start that was refused because of this very
   stop (the library runs those without nng_aio_stop waiting for them).
   Only used in Props/C02.lean (`old_monitor_false_alarm_stop_window`). -/
import NngModel.Spec.Aio
namespace Nng.AioSpecOld3
open Nng.AioSpec

def step (j : J) (o : Obs) : J :=
  if j.err.isSome then j else
  if j.freeReturned then
    match o with
    | .tick d => { j with now := j.now + d }
    | .quiet => if j.reports = j.ops.length then j else j.fail "exactly-once: fewer reports than operations at quiescence"
    | .provDone _ false => j      -- the provider looked for the aio on its own list and did not find it
    | .settled => j
    | _ => j.fail "quiescence: event on the aio after nng_aio_free returned"
  else
  match o with
  | .tick d => { j with now := j.now + d }
  | .setTimeout t => { j with tmo := t, absExp := none }
  | .setExpire e => { j with absExp := some e }
  | .skipArm => { j with skipArmed := true }
  | .subCall k =>
    -- (an abort still in flight at the start may hit this operation: its code, ETIMEDOUT included, is the user's)
    -- (one-shot expiry: an operation the provider completes synchronously goes through nni_aio_finish,
    --  which clears a_use_expire; for the others see the test-and-remove observations)
    { j with ops := { kind := k, tsub := j.now, tmo := j.tmo, absExp := j.absExp, aborts := j.openCodes,
                      userTimeout := j.openCodes.contains ETIMEDOUT } :: j.ops,
             absExp := match k with | .direct _ => none | _ => j.absExp }
  | .subRet v =>
    -- (a start refused after nng_aio_stop returned completes the operation with NNG_ESTOPPED)
    let j := { j with ops := updNewest j.ops fun o =>
      { o with ret := some v, tret := j.now, retBeforeStop := !j.stopCalled,
               decided := if v = 0 && j.stopReturned && o.kind == Kind.gen && o.decided.isNone then some ESTOPPED else o.decided } }
    match j.ops with
    | o :: _ =>
      match o.kind with
      | .direct _ =>
        -- v = 1: the skip flag was set instead of running the callback
        if v = 1 then
          if j.reports + 1 = j.ops.length then
            -- (no callback reported this operation's result: nothing to compare a later `peek` with)
            { j with reports := j.reports + 1, ops := markReported j.ops j.reports, skipArmed := false, lastCb := none }
          else j.fail "exactly-once: skip flag set while another report is pending"
        else { j with skipArmed := false }
      | _ => j
    | [] => j
  | .provDone rv won =>
    if !won then j else
    match j.ops with
    | o :: _ =>
      if o.decided.isSome || o.reported then j.fail "exactly-once: operation completed twice (provider)"
      -- (one-shot expiry: whoever wins the test-and-remove calls nni_aio_finish, which clears a_use_expire)
      else { j with ops := updNewest j.ops fun o => { o with decided := some rv }, absExp := none }
    | [] => j.fail "exactly-once: completion without an operation"
  | .cancelRan rv won =>
    if !won then j else
    match j.ops with
    | o :: _ =>
      if o.decided.isSome || o.reported then j.fail "exactly-once: operation completed twice (cancel)"
      else { j with ops := updNewest j.ops fun o => { o with decided := some rv }, absExp := none }
    | [] => j.fail "exactly-once: cancellation without an operation"
  | .abortCall rv =>
    { j with openAborts := j.openAborts + 1, openCodes := rv :: j.openCodes,
             ops := updNewest j.ops fun o =>
               { o with userTimeout := o.userTimeout || rv = ETIMEDOUT, aborts := rv :: o.aborts } }
  | .abortRet =>
    if j.openAborts ≤ 1 then { j with openAborts := 0, openCodes := [] } else { j with openAborts := j.openAborts - 1 }
  | .auxBad => j.fail "exactly-once: an auxiliary aio on the same provider got a callback without an operation (or none)"
  | .closeCall => { j with stopCalled := true }
  | .cbBegin r =>
    match j.pendingOp with
    | none => j.fail "exactly-once: callback without a pending operation"
    | some o =>
      let j1 := { j with reports := j.reports + 1, ops := markReported j.ops j.reports,
                         openCb := j.openCb + 1, lastCb := some r }
      if o.decided.isSome && o.decided != some r then
        j1.fail s!"result: callback reports {r} but the operation was completed with {o.decided.getD 0}"
      else if r = ETIMEDOUT && !o.userTimeout && o.decided != some r && o.kind != .ext && !timeoutDue o j.now then
        j1.fail "timeout: NNG_ETIMEDOUT before the configured duration"
      else if r = ETIMEDOUT && !o.userTimeout && (o.decided == some r || o.kind == .ext) && !timeoutDue o j.now then
        j1.fail "timeout: NNG_ETIMEDOUT before the configured duration"
      else if r = 0 && o.decided.isNone && (match o.kind with | .slp ms => decide (j.now < o.tsub + ms) && o.tmo != .zero | _ => false) then
        j1.fail "timeout: sleep ended early"
      else if o.decided.isNone && !unprovoked o r j.stopCalled then
        j1.fail s!"cancel: code {r} reported but no cancel/abort/stop with that code was issued during the operation"
      else if j.stopReturned && r ≠ ESTOPPED && (match o.kind with | .direct _ => false | .ext => false | _ => true) then
        j1.fail "quiescence: callback with a result other than NNG_ESTOPPED after nng_aio_stop returned"
      else j1
  | .cbEnd => { j with openCb := j.openCb - 1 }
  | .peek r =>
    if j.reports = j.ops.length && j.lastCb.isSome && j.lastCb != some r then
      j.fail s!"result: result changed from {j.lastCb.getD 0} to {r} after the callback"
    else j
  | .stopCall => { j with stopCalled := true }
  | .stopRet =>
    if j.openCb ≠ 0 then j.fail "quiescence: a callback is running when nng_aio_stop returns"
    else if j.ops.any (fun o => o.retBeforeStop && !o.reported) then
      j.fail "quiescence: an operation started before nng_aio_stop has not reported when it returns"
    else { j with stopReturned := true }
  | .freeCall => { j with stopCalled := true }
  | .freeRet =>
    if j.openCb ≠ 0 then j.fail "quiescence: a callback is running when nng_aio_free returns"
    else { j with freeReturned := true }
  | .quiet =>
    if j.reports = j.ops.length then j else j.fail "exactly-once: fewer reports than operations at quiescence"
  | .settled =>
    match j.ops with
    | o :: _ =>
      if o.kind == Kind.gen && o.ret == some 1 && !o.reported && overdue o j.now then
        j.fail "timeout: an operation is still pending after its deadline although nothing else can happen"
      else j
    | [] => j

/-- the old monitor -/
def judge (tr : List Obs) : Option String := (tr.foldl step {}).err

end Nng.AioSpecOld3
