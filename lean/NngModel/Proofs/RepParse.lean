/-
  Lemmas about the backtrace loop of rep0_pipe_recv_cb / xrep0_pipe_recv_cb
  (`Rep.parseBt`) and its closed form (`RepSpec.classify`).
-/
import NngModel.Model.Rep
import NngModel.Spec.Rep
import NngModel.Generated.Base
namespace Nng.RepProofs
open Nng Nng.Rep Nng.RepSpec

def toShape : BtResult → Shape
  | .ok h b => .ok h b
  | .drop => .tooManyHops
  | .malformed => .malformed

theorem isEnd_take4 (a b c d : UInt8) (rest : Bytes) :
    isEnd ((a :: b :: c :: d :: rest).take 4) = (a &&& 0x80 != 0) := by
  simp [isEnd]

/-- general form: the loop started with `n` iterations left and header `hdr` -/
theorem parseBt_spec (n : Nat) : ∀ (hdr body : Bytes),
    parseBt n hdr body =
      (let k := leadingHops body
       if k ≥ n then BtResult.drop
       else if body.length < 4 * k + 4 then BtResult.malformed
       else BtResult.ok (hdr ++ body.take (4 * k + 4)) (body.drop (4 * k + 4))) := by
  induction n with
  | zero => intro hdr body; simp [parseBt]
  | succ n ih =>
    intro hdr body
    match body with
    | [] => simp [parseBt, leadingHops]
    | [_] => simp [parseBt, leadingHops]
    | [_, _] => simp [parseBt, leadingHops]
    | [_, _, _] => simp [parseBt, leadingHops]
    | a :: b :: c :: d :: rest =>
      unfold parseBt
      have hlen : ¬ ((a :: b :: c :: d :: rest).length < 4) := by simp
      rw [if_neg hlen, isEnd_take4]
      by_cases he : (a &&& 0x80 != 0) = true
      · rw [if_pos he]
        simp [leadingHops, he]
      · rw [if_neg he]
        rw [ih]
        have hk : leadingHops (a :: b :: c :: d :: rest) = leadingHops rest + 1 := by
          simp [leadingHops, he]
        simp only [hk]
        have hd : (a :: b :: c :: d :: rest).drop 4 = rest := rfl
        have ht : (a :: b :: c :: d :: rest).take 4 = [a, b, c, d] := rfl
        rw [hd, ht]
        by_cases h1 : leadingHops rest ≥ n
        · have : leadingHops rest + 1 ≥ n + 1 := by omega
          simp [h1, this]
        · have h1' : ¬ (leadingHops rest + 1 ≥ n + 1) := by omega
          rw [if_neg h1, if_neg h1']
          by_cases h2 : rest.length < 4 * leadingHops rest + 4
          · have : (a :: b :: c :: d :: rest).length < 4 * (leadingHops rest + 1) + 4 := by
              simp; omega
            rw [if_pos h2, if_pos this]
          · have : ¬ (a :: b :: c :: d :: rest).length < 4 * (leadingHops rest + 1) + 4 := by
              simp; omega
            rw [if_neg h2, if_neg this]
            have e1 : 4 * (leadingHops rest + 1) + 4 = (4 * leadingHops rest + 4) + 4 := by omega
            rw [e1]
            have t4 : ∀ m, (a :: b :: c :: d :: rest).take (m + 4) = a :: b :: c :: d :: rest.take m := by
              intro m; rfl
            have d4 : ∀ m, (a :: b :: c :: d :: rest).drop (m + 4) = rest.drop m := by
              intro m; rfl
            rw [t4, d4]
            simp [List.append_assoc]

/-- the C loop computes the closed form of the specification -/
theorem parse_eq_classify (ttl : Nat) (b : Bytes) :
    toShape (parseBacktrace ttl b) = classify ttl b := by
  unfold parseBacktrace classify
  rw [parseBt_spec]
  simp only [List.nil_append]
  by_cases h1 : leadingHops b ≥ ttl
  · simp [h1, toShape]
  · by_cases h2 : b.length < 4 * leadingHops b + 4
    · simp [h1, h2, toShape]
    · simp [h1, h2, toShape]

/-- a parsed header is 1..ttl words long and header ++ body is the message received -/
theorem parse_ok_facts {ttl : Nat} {b hdr body : Bytes}
    (h : parseBacktrace ttl b = .ok hdr body) :
    4 ≤ hdr.length ∧ hdr.length ≤ 4 * ttl ∧ hdr.length % 4 = 0 ∧ hdr ++ body = b := by
  unfold parseBacktrace at h
  rw [parseBt_spec] at h
  simp only [List.nil_append] at h
  by_cases h1 : leadingHops b ≥ ttl
  · simp [h1] at h
  · by_cases h2 : b.length < 4 * leadingHops b + 4
    · simp [h1, h2] at h
    · simp only [h1, h2, if_false] at h
      injection h with hh hb
      subst hh; subst hb
      have hl : (List.take (4 * leadingHops b + 4) b).length = 4 * leadingHops b + 4 := by
        rw [List.length_take]; omega
      refine ⟨by omega, by omega, by omega, List.take_append_drop _ _⟩

/-- the parsed header always fits the message header buffer, even after XREP has put the
    pipe id in front of it (NNI_MAX_HEADER_SIZE = 4 * (NNI_MAX_MAX_TTL + 1)) -/
theorem parse_ok_fits {ttl : Nat} {b hdr body : Bytes} (httl : ttl ≤ Nng.Generated.maxMaxTtl)
    (h : parseBacktrace ttl b = .ok hdr body) :
    hdr.length + 4 ≤ Nng.Generated.headerCap := by
  have := (parse_ok_facts h).2.1
  have e1 : Nng.Generated.maxMaxTtl = 15 := rfl
  have e2 : Nng.Generated.headerCap = 64 := rfl
  omega

end Nng.RepProofs
